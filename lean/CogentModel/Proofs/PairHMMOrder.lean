/-
  C18 helper lemmas, part 1: the order on extended scores and the `bestPrev` loop.
  (No Mathlib needed.)
-/
import CogentModel.Model.PairHMM
import CogentModel.Spec.PairHMM
namespace CogentModel.PairHMM
set_option linter.unusedSectionVars false

/-- what the theorems need of the score type: a strict total order that `+ c` respects.
(`Int`, `Rat`, any linearly ordered additive group.) -/
class ScoreLaws (S : Type) [Add S] [LT S] : Prop where
  lt_irrefl : ∀ a : S, ¬ a < a
  lt_trans : ∀ {a b c : S}, a < b → b < c → a < c
  lt_trichotomy : ∀ a b : S, a < b ∨ a = b ∨ b < a
  add_lt_add_right : ∀ {a b : S} (c : S), a < b → a + c < b + c

instance : ScoreLaws Int where
  lt_irrefl := Int.lt_irrefl
  lt_trans := Int.lt_trans
  lt_trichotomy := Int.lt_trichotomy
  add_lt_add_right := fun c h => Int.add_lt_add_right h c

instance : ScoreLaws Rat where
  lt_irrefl := fun _ => Rat.lt_irrefl
  lt_trans := fun h1 h2 => Rat.not_le.mp (fun h => Rat.not_le.mpr h2 (Rat.le_trans h (Rat.le_of_lt h1)))
  lt_trichotomy := fun a b => by
    rcases Rat.le_total (a := a) (b := b) with h | h
    · by_cases e : a = b
      · exact Or.inr (Or.inl e)
      · exact Or.inl (Rat.lt_of_le_of_ne h e)
    · by_cases e : a = b
      · exact Or.inr (Or.inl e)
      · exact Or.inr (Or.inr (Rat.lt_of_le_of_ne h (fun x => e x.symm)))
  add_lt_add_right := fun c h => Rat.add_lt_add_right.mpr h

variable {S : Type} [Add S] [LT S] [DecidableLT S] [ScoreLaws S]

theorem ele_refl (a : Option S) : ele a a := by
  cases a with
  | none => rfl
  | some x => simp [ele, egt, ScoreLaws.lt_irrefl]

theorem ele_none (a : Option S) : ele none a := by cases a <;> rfl

theorem ele_trans {a b c : Option S} (h1 : ele a b) (h2 : ele b c) : ele a c := by
  cases a with
  | none => exact ele_none c
  | some x =>
    cases b with
    | none => simp [ele, egt] at h1
    | some y =>
      cases c with
      | none => simp [ele, egt] at h2
      | some z =>
        simp only [ele, egt, decide_eq_false_iff_not] at *
        intro hzx
        rcases ScoreLaws.lt_trichotomy x y with h | h | h
        · exact h2 (ScoreLaws.lt_trans hzx h)
        · subst h; exact h2 hzx
        · exact h1 h

theorem ele_of_not_egt {a b : Option S} (h : egt a b = false) : ele a b := h

theorem ele_of_egt {a b : Option S} (h : egt a b = true) : ele b a := by
  cases a with
  | none => simp [egt] at h
  | some x =>
    cases b with
    | none => exact ele_none _
    | some y =>
      simp only [egt, decide_eq_true_eq] at h
      simp only [ele, egt, decide_eq_false_iff_not]
      intro h'
      exact ScoreLaws.lt_irrefl _ (ScoreLaws.lt_trans h h')

theorem eadd_mono {a b : Option S} (c : Option S) (h : ele a b) : ele (eadd a c) (eadd b c) := by
  cases c with
  | none => cases a <;> cases b <;> rfl
  | some z =>
    cases a with
    | none => exact ele_none _
    | some x =>
      cases b with
      | none => simp [ele, egt] at h
      | some y =>
        simp only [ele, egt, eadd, decide_eq_false_iff_not] at *
        intro h'
        rcases ScoreLaws.lt_trichotomy x y with e | e | e
        · exact ScoreLaws.lt_irrefl _ (ScoreLaws.lt_trans h' (ScoreLaws.add_lt_add_right z e))
        · subst e; exact ScoreLaws.lt_irrefl _ h'
        · exact h e

/-- antisymmetry: the maximum is unique -/
theorem ele_antisymm {a b : Option S} (h1 : ele a b) (h2 : ele b a) : a = b := by
  cases a with
  | none => cases b with
    | none => rfl
    | some y => simp [ele, egt] at h2
  | some x => cases b with
    | none => simp [ele, egt] at h1
    | some y =>
      simp only [ele, egt, decide_eq_false_iff_not] at *
      rcases ScoreLaws.lt_trichotomy x y with e | e | e
      · exact absurd e h2
      · rw [e]
      · exact absurd e h1

/-! ### the predecessor loop -/

theorem bestPrev_ge_init (T : Nat → Nat → Option S) (dest : Nat) (src : List (Option S × Nat)) (p : Nat)
    (cur : Option S × Nat) : ele cur.1 (bestPrev T dest src p cur).1 := by
  induction src generalizing p cur with
  | nil => exact ele_refl _
  | cons x rest ih =>
    obtain ⟨v, w⟩ := x
    simp only [bestPrev]
    split
    · rename_i hgt
      exact ele_trans (ele_of_egt hgt) (ih (p + 1) (eadd v (T p dest), p))
    · exact ih (p + 1) cur

theorem bestPrev_ge_cand (T : Nat → Nat → Option S) (dest : Nat) (src : List (Option S × Nat)) (p : Nat)
    (cur : Option S × Nat) (q : Nat) (hq : q < src.length) :
    ele (eadd (src[q]).1 (T (p + q) dest)) (bestPrev T dest src p cur).1 := by
  induction src generalizing p cur q with
  | nil => simp at hq
  | cons x rest ih =>
    obtain ⟨v, w⟩ := x
    simp only [bestPrev]
    cases q with
    | zero =>
      simp only [List.getElem_cons_zero, Nat.add_zero]
      split
      · exact bestPrev_ge_init T dest rest (p + 1) (eadd v (T p dest), p)
      · rename_i hgt
        exact ele_trans (ele_of_not_egt (by simpa using hgt)) (bestPrev_ge_init T dest rest (p + 1) cur)
    | succ q =>
      have := ih (p + 1) (if egt (eadd v (T p dest)) cur.1 = true then (eadd v (T p dest), p) else cur) q
        (by simpa using hq)
      simpa [Nat.add_assoc, Nat.add_comm 1 q] using this

/-- the loop returns either its initial value or one of the candidates, with the matching pointer -/
theorem bestPrev_cases (T : Nat → Nat → Option S) (dest : Nat) (src : List (Option S × Nat)) (p : Nat)
    (cur : Option S × Nat) :
    bestPrev T dest src p cur = cur ∨
      ∃ q, ∃ hq : q < src.length, bestPrev T dest src p cur = (eadd (src[q]).1 (T (p + q) dest), p + q) := by
  induction src generalizing p cur with
  | nil => exact Or.inl rfl
  | cons x rest ih =>
    obtain ⟨v, w⟩ := x
    simp only [bestPrev]
    split
    · rcases ih (p + 1) (eadd v (T p dest), p) with h | ⟨q, hq, h⟩
      · exact Or.inr ⟨0, by simp, by simpa using h⟩
      · exact Or.inr ⟨q + 1, by simpa using hq, by simpa [Nat.add_assoc, Nat.add_comm 1 q] using h⟩
    · rcases ih (p + 1) cur with h | ⟨q, hq, h⟩
      · exact Or.inl h
      · exact Or.inr ⟨q + 1, by simpa using hq, by simpa [Nat.add_assoc, Nat.add_comm 1 q] using h⟩

end CogentModel.PairHMM
