import CogentModel.Proofs.PhyloBasic
set_option linter.unusedSimpArgs false
set_option linter.unnecessarySeqFocus false
/-! C09: `unrooted` preserves tips and every distance. -/
namespace CogentModel.Phylo
open PTree
variable {K : Type}

theorem tips_rename (s : PTree K) (l' : Option K) : tips (PTree.node s.name l' s.children) = tips s := by
  cases s with
  | node n l cs => cases cs <;> simp [tips, PTree.name, PTree.children]

theorem splits_rename (s : PTree K) (l' : Option K) :
    splits (PTree.node s.name l' s.children) = splits s := by
  cases s with
  | node n l cs => simp [splits, PTree.children]

theorem tips_of_children (c : PTree K) (h : c.children ≠ []) : tips c = tipsL c.children := by
  cases c with
  | node n l cs => simpa [PTree.children] using tips_node_ne_nil n l cs h

theorem tipsL_map_rename (f : PTree K → Option K) (cs : List (PTree K)) :
    tipsL (cs.map fun s => PTree.node s.name (f s) s.children) = tipsL cs := by
  induction cs with
  | nil => rfl
  | cons c cs ih => simp [tipsL, tips_rename, ih]

/-! ### structure of the collapse -/
theorem splitFirstInternal_spec : ∀ (cs pre : List (PTree K)) (x : PTree K) (post : List (PTree K)),
    splitFirstInternal cs = some (pre, x, post) →
    cs = pre ++ x :: post ∧ x.children ≠ [] ∧ ∀ c ∈ pre, c.children = []
  | [], _, _, _, h => by simp [splitFirstInternal] at h
  | c :: cs, pre, x, post, h => by
    simp only [splitFirstInternal] at h
    split at h
    · rename_i hc
      cases hs : splitFirstInternal cs with
      | none => simp [hs] at h
      | some v =>
        obtain ⟨pre', x', post'⟩ := v
        simp [hs] at h
        obtain ⟨rfl, rfl, rfl⟩ := h
        have ih := splitFirstInternal_spec cs pre' x' post' hs
        refine ⟨by simp [ih.1], ih.2.1, ?_⟩
        intro c' hc'
        simp at hc'
        rcases hc' with rfl | hc'
        · simpa using hc
        · exact ih.2.2 c' hc'
    · rename_i hc
      simp at h
      obtain ⟨rfl, rfl, rfl⟩ := h
      exact ⟨rfl, by simpa using hc, by simp⟩

theorem tips_bumpLen [Add K] (e : Option K) (s : PTree K) : tips (bumpLen e s) = tips s := tips_rename s _

section dist
variable [AddCommMonoid K]

theorem splitW_bump (d : K) (a b : String) (s : PTree K) (sl xl : K) (hs : s.len = some sl) :
    splitW d a b (edgeSplit (bumpLen (some xl) s)) =
      splitW d a b (edgeSplit s) + (if sep a b (tips s) then xl else 0) := by
  have e1 : edgeSplit (bumpLen (some xl) s) = ⟨s.name, some (sl + xl), tips s⟩ := by
    simp [edgeSplit, bumpLen, tips_rename, hs, addLen]
  have e2 : edgeSplit s = ⟨s.name, some sl, tips s⟩ := by simp [edgeSplit, hs]
  rw [e1, e2]
  simp only [splitW, lenOr]
  split <;> simp

theorem sum_splitsL_single (d : K) (a b : String) (s : PTree K) :
    sumBy (splitW d a b) (splitsL [s]) = splitW d a b (edgeSplit s) + sumBy (splitW d a b) (splits s) := by
  simp [splitsL, sumBy]

omit [AddCommMonoid K] in
/-- the two sides of the root of a two-child tree separate the same pairs -/
theorem sep_sister (x s : PTree K) (T : List String) (hT : (tips x ++ tips s).Perm T) (hnd : T.Nodup)
    (a b : String) (ha : a ∈ T) (hb : b ∈ T) : sep a b (tips s) = sep a b (tips x) := by
  have hnd' := (hT.nodup_iff).2 hnd
  have hdisj := (List.nodup_append.1 hnd').2.2
  apply bipEquiv_compl (T := T) (A := tips s) (B := tips x) _ a ha b hb
  intro c hc
  have hmem := (hT.mem_iff (a := c)).2 hc
  constructor
  · intro h1 h2; exact hdisj c h2 c h1 rfl
  · intro h2
    rcases List.mem_append.1 hmem with h | h
    · exact absurd h h2
    · exact h

omit [AddCommMonoid K] in
theorem splits_eq_children (x : PTree K) : splits x = splitsL x.children := by
  cases x; rfl

theorem splitW_edge_some (d : K) (a b : String) (x : PTree K) (xl : K) (hx : x.len = some xl) :
    splitW d a b (edgeSplit x) = if sep a b (tips x) then xl else 0 := by
  simp [splitW, edgeSplit, hx, lenOr]

theorem sep_both_mem (a b : String) (A : List String) (ha : a ∈ A) (hb : b ∈ A) : sep a b A = false := by
  simp [sep, ha, hb]

/-- `unrooted` preserves every tip-to-tip distance (all lengths at the root present). -/
theorem unrooted_dist (d : K) (t : PTree K) (hnd : (tips t).Nodup)
    (hlen : ∀ c ∈ t.children, ∃ l, c.len = some l) (a b : String) (ha : a ∈ tips t) (hb : b ∈ tips t) :
    distSpec d a b (unrooted t) = distSpec d a b t := by
  cases t with
  | node n l cs =>
    simp only [unrooted]
    split
    · rename_i hlt
      cases hs : splitFirstInternal cs with
      | none => rfl
      | some v =>
        obtain ⟨pre, x, post⟩ := v
        obtain ⟨hcs, hxc, _⟩ := splitFirstInternal_spec cs pre x post hs
        subst hcs
        simp only [children_node] at hlen
        obtain ⟨xl, hxl⟩ := hlen x (by simp)
        have hxt : tips x = tipsL x.children := tips_of_children x hxc
        simp only [distSpec, splits]
        match pre, post, hlt with
        | [], [], _ =>
          simp only [List.nil_append, List.cons_append] at ha hb hnd hlen ⊢
          have htt : tips (PTree.node n l [x]) = tips x := by simp [tips, tipsL]
          rw [htt] at ha hb
          simp only [List.map_nil, List.nil_append, List.append_nil, splitsL, sumBy, sumBy_append,
            splitW_edge_some d a b x xl hxl, sep_both_mem a b _ ha hb, splits_eq_children x]
          simp
        | [s], [], _ =>
          simp only [List.nil_append, List.cons_append] at ha hb hnd hlen ⊢
          obtain ⟨sl, hsl⟩ := hlen s (by simp)
          have htt : tips (PTree.node n l [s, x]) = tips s ++ tips x := by simp [tips, tipsL]
          have hsep := sep_sister x s _ (by rw [htt]; exact List.perm_append_comm) hnd a b ha hb
          have hb' : bumpLen (some xl) s = PTree.node s.name (addLen s.len (some xl)) s.children := rfl
          simp only [List.map_cons, List.map_nil, List.nil_append, List.append_nil, List.cons_append,
            splitsL, splitsL_append, sumBy, sumBy_append, hxl, splitW_bump d a b s sl xl hsl,
            splitW_edge_some d a b x xl hxl, hsep, splits_eq_children x]
          rw [hb', splits_rename]
          abel
        | [], [s], _ =>
          simp only [List.nil_append, List.cons_append] at ha hb hnd hlen ⊢
          obtain ⟨sl, hsl⟩ := hlen s (by simp)
          have htt : tips (PTree.node n l [x, s]) = tips x ++ tips s := by simp [tips, tipsL]
          have hsep := sep_sister x s _ (by rw [htt]) hnd a b ha hb
          have hb' : bumpLen (some xl) s = PTree.node s.name (addLen s.len (some xl)) s.children := rfl
          simp only [List.map_cons, List.map_nil, List.nil_append, List.append_nil, List.cons_append,
            splitsL, splitsL_append, sumBy, sumBy_append, hxl, splitW_bump d a b s sl xl hsl,
            splitW_edge_some d a b x xl hxl, hsep, splits_eq_children x]
          rw [hb', splits_rename]
          abel
        | _ :: _ :: _, _, h => simp at h <;> omega
        | _ :: _, _ :: _, h => simp at h <;> omega
        | [], _ :: _ :: _, h => simp at h <;> omega
    · rfl

end dist

theorem tipsL_map_bump [Add K] (e : Option K) (cs : List (PTree K)) : tipsL (cs.map (bumpLen e)) = tipsL cs :=
  tipsL_map_rename (fun s => addLen s.len e) cs

theorem tips_unrooted [Add K] (t : PTree K) : tips (unrooted t) = tips t := by
  cases t with
  | node n l cs =>
    simp only [unrooted]
    split
    · cases hs : splitFirstInternal cs with
      | none => rfl
      | some v =>
        obtain ⟨pre, x, post⟩ := v
        obtain ⟨hcs, hxc, _⟩ := splitFirstInternal_spec cs pre x post hs
        subst hcs
        have hne : pre.map (bumpLen x.len) ++ x.children ++ post.map (bumpLen x.len) ≠ [] := by
          intro h; simp at h; exact hxc h.2.1
        rw [tips_node_ne_nil _ _ _ hne, tips_node_ne_nil _ _ _ (by simp)]
        simp only [tipsL_append, tipsL, tipsL_map_bump, tips_of_children x hxc, List.append_assoc]
    · rfl

end CogentModel.Phylo
