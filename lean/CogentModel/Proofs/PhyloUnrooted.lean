import CogentModel.Proofs.PhyloBasic
import CogentModel.Proofs.PhyloPhi
set_option linter.unusedSimpArgs false
set_option linter.unnecessarySeqFocus false
/-! C09: `unrooted` preserves tips and every distance. -/
namespace CogentModel.Phylo
open PTree
variable {K : Type}

theorem tips_rename (s : PTree K) (l' : Option K) : tips (PTree.node s.name l' s.children) = tips s := by
  cases s with
  | node n l cs => cases cs <;> simp [tips, PTree.name, PTree.children]

theorem splits_rename (s : PTree K) (l' : Option K) :
    splits (PTree.node s.name l' s.children) = splits s := by
  cases s with
  | node n l cs => simp [splits, PTree.children]

theorem tips_of_children (c : PTree K) (h : c.children ≠ []) : tips c = tipsL c.children := by
  cases c with
  | node n l cs => simpa [PTree.children] using tips_node_ne_nil n l cs h

theorem tipsL_map_rename (f : PTree K → Option K) (cs : List (PTree K)) :
    tipsL (cs.map fun s => PTree.node s.name (f s) s.children) = tipsL cs := by
  induction cs with
  | nil => rfl
  | cons c cs ih => simp [tipsL, tips_rename, ih]

/-! ### structure of the collapse -/
theorem splitFirstInternal_spec : ∀ (cs pre : List (PTree K)) (x : PTree K) (post : List (PTree K)),
    splitFirstInternal cs = some (pre, x, post) →
    cs = pre ++ x :: post ∧ x.children ≠ [] ∧ ∀ c ∈ pre, c.children = []
  | [], _, _, _, h => by simp [splitFirstInternal] at h
  | c :: cs, pre, x, post, h => by
    simp only [splitFirstInternal] at h
    split at h
    · rename_i hc
      cases hs : splitFirstInternal cs with
      | none => simp [hs] at h
      | some v =>
        obtain ⟨pre', x', post'⟩ := v
        simp [hs] at h
        obtain ⟨rfl, rfl, rfl⟩ := h
        have ih := splitFirstInternal_spec cs pre' x' post' hs
        refine ⟨by simp [ih.1], ih.2.1, ?_⟩
        intro c' hc'
        simp at hc'
        rcases hc' with rfl | hc'
        · simpa using hc
        · exact ih.2.2 c' hc'
    · rename_i hc
      simp at h
      obtain ⟨rfl, rfl, rfl⟩ := h
      exact ⟨rfl, by simpa using hc, by simp⟩

theorem tips_bumpLen [Add K] (e : Option K) (s : PTree K) : tips (bumpLen e s) = tips s := tips_rename s _

section dist
variable [AddCommMonoid K]

theorem phiW_bump (d : K) (φ : List String → Bool) (s : PTree K) (sl xl : K) (hs : s.len = some sl) :
    phiW d φ (edgeSplit (bumpLen (some xl) s)) =
      phiW d φ (edgeSplit s) + (if φ (tips s) then xl else 0) := by
  have e1 : edgeSplit (bumpLen (some xl) s) = ⟨s.name, some (sl + xl), tips s⟩ := by
    simp [edgeSplit, bumpLen, tips_rename, hs, addLen]
  have e2 : edgeSplit s = ⟨s.name, some sl, tips s⟩ := by simp [edgeSplit, hs]
  rw [e1, e2]
  simp only [phiW, lenOr]
  split <;> simp


omit [AddCommMonoid K] in
/-- the two sides of the root of a two-child tree separate the same pairs -/
theorem sep_sister (x s : PTree K) (T : List String) (hT : (tips x ++ tips s).Perm T) (hnd : T.Nodup)
    (a b : String) (ha : a ∈ T) (hb : b ∈ T) : sep a b (tips s) = sep a b (tips x) := by
  have hnd' := (hT.nodup_iff).2 hnd
  have hdisj := (List.nodup_append.1 hnd').2.2
  apply bipEquiv_compl (T := T) (A := tips s) (B := tips x) _ a ha b hb
  intro c hc
  have hmem := (hT.mem_iff (a := c)).2 hc
  constructor
  · intro h1 h2; exact hdisj c h2 c h1 rfl
  · intro h2
    rcases List.mem_append.1 hmem with h | h
    · exact absurd h h2
    · exact h

omit [AddCommMonoid K] in
theorem splits_eq_children (x : PTree K) : splits x = splitsL x.children := by
  cases x; rfl

theorem phiW_edge_some (d : K) (φ : List String → Bool) (x : PTree K) (xl : K) (hx : x.len = some xl) :
    phiW d φ (edgeSplit x) = if φ (tips x) then xl else 0 := by
  simp [phiW, edgeSplit, hx, lenOr]

omit [AddCommMonoid K] in
/-- the two sides of the root of a two-child tree are the same bipartition -/
theorem phi_sister (x s : PTree K) (T : List String) (hT : (tips x ++ tips s).Perm T) (hnd : T.Nodup)
    (φ : List String → Bool) (hφ : BipPred T φ) : φ (tips s) = φ (tips x) := by
  have hnd' := (hT.nodup_iff).2 hnd
  have hdisj := (List.nodup_append.1 hnd').2.2
  apply hφ.compl
  intro c hc
  have hmem := (hT.mem_iff (a := c)).2 hc
  constructor
  · intro h1 h2; exact hdisj c h2 c h1 rfl
  · intro h2
    rcases List.mem_append.1 hmem with h | h
    · exact absurd h h2
    · exact h

theorem sep_both_mem (a b : String) (A : List String) (ha : a ∈ A) (hb : b ∈ A) : sep a b A = false := by
  simp [sep, ha, hb]

/-- `unrooted` preserves every bipartition functional (all lengths at the root present): the edge
above the collapsed node and the sister edge carry the same bipartition, their weights merge. -/
theorem unrooted_phi (d : K) (t : PTree K) (hnd : (tips t).Nodup)
    (hlen : ∀ c ∈ t.children, ∃ l, c.len = some l) (φ : List String → Bool) (hφ : BipPred (tips t) φ) :
    topoWeight d φ (unrooted t) = topoWeight d φ t := by
  cases t with
  | node n l cs =>
    simp only [unrooted]
    split
    · rename_i hlt
      cases hs : splitFirstInternal cs with
      | none => rfl
      | some v =>
        obtain ⟨pre, x, post⟩ := v
        obtain ⟨hcs, hxc, _⟩ := splitFirstInternal_spec cs pre x post hs
        subst hcs
        simp only [children_node] at hlen
        obtain ⟨xl, hxl⟩ := hlen x (by simp)
        have hxt : tips x = tipsL x.children := tips_of_children x hxc
        simp only [topoWeight, splits]
        match pre, post, hlt with
        | [], [], _ =>
          simp only [List.nil_append, List.cons_append] at hφ hnd hlen ⊢
          have htt : tips (PTree.node n l [x]) = tips x := by simp [tips, tipsL]
          rw [htt] at hφ
          simp only [List.map_nil, List.nil_append, List.append_nil, splitsL, sumBy, sumBy_append,
            phiW_edge_some d φ x xl hxl, hφ.all_in (tips x) (fun _ h => h), splits_eq_children x]
          simp
        | [s], [], _ =>
          simp only [List.nil_append, List.cons_append] at hφ hnd hlen ⊢
          obtain ⟨sl, hsl⟩ := hlen s (by simp)
          have htt : tips (PTree.node n l [s, x]) = tips s ++ tips x := by simp [tips, tipsL]
          have hsep := phi_sister x s _ (by rw [htt]; exact List.perm_append_comm) hnd φ hφ
          have hb' : bumpLen (some xl) s = PTree.node s.name (addLen s.len (some xl)) s.children := rfl
          simp only [List.map_cons, List.map_nil, List.nil_append, List.append_nil, List.cons_append,
            splitsL, splitsL_append, sumBy, sumBy_append, hxl, phiW_bump d φ s sl xl hsl,
            phiW_edge_some d φ x xl hxl, hsep, splits_eq_children x]
          rw [hb', splits_rename]
          abel
        | [], [s], _ =>
          simp only [List.nil_append, List.cons_append] at hφ hnd hlen ⊢
          obtain ⟨sl, hsl⟩ := hlen s (by simp)
          have htt : tips (PTree.node n l [x, s]) = tips x ++ tips s := by simp [tips, tipsL]
          have hsep := phi_sister x s _ (by rw [htt]) hnd φ hφ
          have hb' : bumpLen (some xl) s = PTree.node s.name (addLen s.len (some xl)) s.children := rfl
          simp only [List.map_cons, List.map_nil, List.nil_append, List.append_nil, List.cons_append,
            splitsL, splitsL_append, sumBy, sumBy_append, hxl, phiW_bump d φ s sl xl hsl,
            phiW_edge_some d φ x xl hxl, hsep, splits_eq_children x]
          rw [hb', splits_rename]
          abel
        | _ :: _ :: _, _, h => simp at h <;> omega
        | _ :: _, _ :: _, h => simp at h <;> omega
        | [], _ :: _ :: _, h => simp at h <;> omega
    · rfl

/-- … in particular every tip-to-tip distance -/
theorem unrooted_dist (d : K) (t : PTree K) (hnd : (tips t).Nodup)
    (hlen : ∀ c ∈ t.children, ∃ l, c.len = some l) (a b : String) (ha : a ∈ tips t) (hb : b ∈ tips t) :
    distSpec d a b (unrooted t) = distSpec d a b t :=
  unrooted_phi d t hnd hlen (sep a b) (bipPred_sep _ a b ha hb)

end dist

theorem tipsL_map_bump [Add K] (e : Option K) (cs : List (PTree K)) : tipsL (cs.map (bumpLen e)) = tipsL cs :=
  tipsL_map_rename (fun s => addLen s.len e) cs

theorem tips_unrooted [Add K] (t : PTree K) : tips (unrooted t) = tips t := by
  cases t with
  | node n l cs =>
    simp only [unrooted]
    split
    · cases hs : splitFirstInternal cs with
      | none => rfl
      | some v =>
        obtain ⟨pre, x, post⟩ := v
        obtain ⟨hcs, hxc, _⟩ := splitFirstInternal_spec cs pre x post hs
        subst hcs
        have hne : pre.map (bumpLen x.len) ++ x.children ++ post.map (bumpLen x.len) ≠ [] := by
          intro h; simp at h; exact hxc h.2.1
        rw [tips_node_ne_nil _ _ _ hne, tips_node_ne_nil _ _ _ (by simp)]
        simp only [tipsL_append, tipsL, tipsL_map_bump, tips_of_children x hxc, List.append_assoc]
    · rfl

end CogentModel.Phylo
