import CogentModel.Proofs.ViewRange
/-! Direction lemma: positive slice step on a forward view (`fwdFromFwd`). -/
namespace CogentModel.View
open CogentModel

theorem ff_start (vs k n ss S : Int) (hk : 0 < k) (hn : 0 < n)
    (hS : S = if ss ≥ 0 then vs + ss * k else max (vs + n * k + ss * k) vs) :
    0 ≤ clampP ss n ∧ clampP ss n ≤ n ∧ vs + clampP ss n * k ≤ S ∧
      (clampP ss n < n → S = vs + clampP ss n * k) := by
  rcases clampP_cases ss n k hk (le_of_lt hn) with a | a | a | a <;> omega

theorem ff_stop (vs ve k n se E0 : Int) (hk : 0 < k) (hn : 0 < n) (h0 : 0 ≤ vs)
    (kit1 : ve - vs ≤ n * k) (kit2 : n * k < ve - vs + k)
    (hE0 : E0 = if se > ve then ve else if se ≥ 0 then vs + se * k else vs + n * k + se * k) :
    0 ≤ clampP se n ∧ clampP se n ≤ n ∧
      (E0 = vs + clampP se n * k ∨ (clampP se n = 0 ∧ E0 < vs) ∨ (clampP se n = n ∧ ve ≤ E0)) := by
  have n3 : n - 1 ≤ n * k - k := by nlinarith
  rcases clampP_cases se n k hk (le_of_lt hn) with a | a | a | a <;> omega

theorem ff_combine (vs ve N k n A B Ak Bk nk S E0 E : Int) (hk : 0 < k) (h0 : 0 ≤ vs) (h1 : vs ≤ ve)
    (h2 : ve ≤ N) (kit1 : ve - vs ≤ nk) (kit2 : nk < ve - vs + k)
    (hA : 0 ≤ A ∧ A ≤ n ∧ vs + Ak ≤ S ∧ (A < n → S = vs + Ak))
    (hB : 0 ≤ B ∧ B ≤ n ∧ (E0 = vs + Bk ∨ (B = 0 ∧ E0 < vs) ∨ (B = n ∧ ve ≤ E0)))
    (hE : E = min ve E0)
    (m1 : A < B → Ak + k ≤ Bk) (m2 : B ≤ A → Bk ≤ Ak)
    (m3 : B < n → Bk + k ≤ nk) (m4 : B = n → Bk = nk) (m5 : n ≤ A → nk ≤ Ak) (m6 : 0 ≤ Ak) (_m7 : 0 ≤ Bk) :
    (A < B → ¬ (S < 0 ∨ E0 < 0) ∧ ¬ E0 < S ∧ ¬ S > N ∧ 0 ≤ S ∧ S < E ∧ E ≤ N ∧ S = vs + Ak ∧
        Bk - Ak - k < E - S ∧ E - S ≤ Bk - Ak) ∧
    (B ≤ A → (S < 0 ∨ E0 < 0) ∨ E0 < S ∨ S > N ∨ (0 ≤ S ∧ 0 ≤ E ∧ E ≤ S)) := by
  constructor
  · intro hAB
    have := m1 hAB
    clear m1 m2
    omega
  · intro hAB
    have := m2 hAB
    clear m1 m2
    omega

theorem fwdFromFwd_eq (fl : Flavour) (v : View) (ss se c S E0 : Int)
    (hS : S = if ss ≥ 0 then v.start + ss * v.step else max (v.start + len v * v.step + ss * v.step) v.start)
    (hE0 : E0 = if se > v.stop then v.stop else if se ≥ 0 then v.start + se * v.step
                else v.start + len v * v.step + se * v.step) :
    fwdFromFwd fl v ss se c =
      if S < 0 ∨ E0 < 0 then .ok (zero fl v)
      else if E0 < S then .ok (zero fl v)
      else if S > v.seqLen then .ok (zero fl v)
      else remk v S (min v.stop E0) (v.step * c) := by
  subst hS hE0; rfl

theorem fwdFromFwd_sem (fl : Flavour) (v w : View) (ss se c : Int) (h : Inv v) (hk : 0 < v.step)
    (hc : 0 < c) (hn : len v ≠ 0) (hw : fwdFromFwd fl v ss se c = .ok w) :
    Sem w (PySlice.rangeLen (clampP ss (len v)) (clampP se (len v)) c)
      (first v + clampP ss (len v) * v.step) (v.step * c) := by
  obtain ⟨kit0, kit1, kit2⟩ := len_fwd v h hk
  have hn' : 0 < len v := by omega
  have hf : first v = v.start := by simp [first, hk]
  obtain ⟨hN, hI | hI⟩ := h
  swap
  · omega
  obtain ⟨_, i0, i1, i2⟩ := hI
  rw [fwdFromFwd_eq fl v ss se c _ _ rfl rfl] at hw
  generalize hS : (if ss ≥ 0 then v.start + ss * v.step else max (v.start + len v * v.step + ss * v.step) v.start) = S at hw
  generalize hE0 : (if se > v.stop then v.stop else if se ≥ 0 then v.start + se * v.step
                else v.start + len v * v.step + se * v.step) = E0 at hw
  have sA := ff_start v.start v.step (len v) ss S hk hn' hS.symm
  have sB := ff_stop v.start v.stop v.step (len v) se E0 hk hn' i0 kit1 kit2 hE0.symm
  generalize hA : clampP ss (len v) = A at *
  generalize hB : clampP se (len v) = B at *
  have m1 := (mul_cmp A B v.step (A * v.step) (B * v.step) hk rfl rfl).2
  have m2 := (mul_cmp B A v.step (B * v.step) (A * v.step) hk rfl rfl).1
  have m3 := (mul_cmp B (len v) v.step (B * v.step) (len v * v.step) hk rfl rfl).2
  have m4 : B = len v → B * v.step = len v * v.step := fun e => by rw [e]
  have m5 := (mul_cmp (len v) A v.step (len v * v.step) (A * v.step) hk rfl rfl).1
  have m6 : 0 ≤ A * v.step := Int.mul_nonneg sA.1 (le_of_lt hk)
  have m7 : 0 ≤ B * v.step := Int.mul_nonneg sB.1 (le_of_lt hk)
  obtain ⟨c1, c2⟩ := ff_combine v.start v.stop v.seqLen v.step (len v) A B (A * v.step) (B * v.step)
    (len v * v.step) S E0 (min v.stop E0) hk i0 i1 i2 kit1 kit2 sA sB rfl m1 m2 m3 m4 m5 m6 m7
  rcases Int.lt_or_le A B with hAB | hAB
  · obtain ⟨d1, d2, d3, d4, d5, d6, d7, d8, d9⟩ := c1 hAB
    rw [if_neg d1, if_neg d2, if_neg d3, remk_pos_eq v S _ _ hN (Int.mul_pos hk hc) d4 (by omega),
      min_eq_right d6, if_pos d5] at hw
    have hw' := (Except.ok.inj hw).symm
    obtain ⟨L, hL0, hL, b1, b2⟩ := rangeLen_pos A B c hc hAB
    have hlen : len w = L := by
      apply len_of_block_fwd w (B - A) v.step c L hk hc (by rw [hw']) (by omega) _ _ (by omega) (by omega)
      · rw [hw']; show (B - A - 1) * v.step < min v.stop E0 - S
        have e : (B - A - 1) * v.step = B * v.step - A * v.step - v.step := by ring
        omega
      · rw [hw']; show min v.stop E0 - S ≤ (B - A) * v.step
        have e : (B - A) * v.step = B * v.step - A * v.step := by ring
        omega
    refine ⟨by rw [hlen, hL], fun _ => ⟨?_, by rw [hw']⟩⟩
    have : 0 < w.step := by rw [hw']; exact Int.mul_pos hk hc
    rw [hf, first, if_pos this, hw']; exact d7
  · rw [rangeLen_pos_empty A B c hc hAB]
    apply sem_empty
    have c2 := c2 hAB
    split at hw
    · rw [← Except.ok.inj hw]; exact len_zero fl v
    split at hw
    · rw [← Except.ok.inj hw]; exact len_zero fl v
    split at hw
    · rw [← Except.ok.inj hw]; exact len_zero fl v
    have c3 : 0 ≤ S ∧ 0 ≤ min v.stop E0 ∧ min v.stop E0 ≤ S := by omega
    rw [remk_pos_eq v S _ _ hN (Int.mul_pos hk hc) c3.1 c3.2.1, if_neg (by omega)] at hw
    rw [← Except.ok.inj hw]; rfl

end CogentModel.View
