import CogentModel.Model.ParallelBook
/-! helper lemmas for the util/parallel bookkeeping model (core Lean only) -/
namespace CogentModel.ParallelBook

theorem chunksAux_flatten {α} (c : Nat) (hc : 0 < c) (fuel : Nat) (s : List α) (h : s.length ≤ fuel) :
    (chunksAux c fuel s).flatten = s := by
  induction fuel generalizing s with
  | zero => cases s <;> simp_all [chunksAux]
  | succ n ih =>
    cases s with
    | nil => simp [chunksAux]
    | cons x xs =>
      simp only [chunksAux, List.flatten_cons]
      rw [ih _ (by simp only [List.length_drop, List.length_cons] at *; omega), List.take_append_drop]

theorem chunks_flatten {α} (c : Nat) (hc : 0 < c) (s : List α) : (chunks c s).flatten = s :=
  chunksAux_flatten c hc _ s (Nat.le_refl _)

theorem imap_results {α β} (f : α → β) (s : List α) (c : Nat) (hc : 0 < c) : imapResults f s c = s.map f := by
  unfold imapResults
  rw [← List.map_flatten, chunks_flatten c hc]

theorem filterMap_range'_getElem? {α} (xs pre : List α) :
    (List.range' pre.length xs.length).filterMap (fun k => (pre ++ xs)[k]?) = xs := by
  induction xs generalizing pre with
  | nil => simp
  | cons x xs ih =>
    rw [List.length_cons, List.range'_succ, List.filterMap_cons]
    have h0 : (pre ++ x :: xs)[pre.length]? = some x := by simp
    rw [h0]
    have := ih (pre ++ [x])
    simp only [List.length_append, List.length_singleton, List.append_assoc, List.singleton_append] at this
    rw [this]

theorem filterMap_range_getElem? {α} (xs : List α) :
    (List.range xs.length).filterMap (fun k => xs[k]?) = xs := by
  have := filterMap_range'_getElem? xs []
  simpa [List.range_eq_range'] using this

theorem asCompleted_perm {α β} (f : α → β) (s : List α) (order : List Nat)
    (hpool : order.Perm (List.range s.length)) : (asCompleted f s order).Perm (s.map f) := by
  unfold asCompleted submitAll
  have h := hpool.filterMap (fun k => (s.map f)[k]?)
  have e : (List.range s.length).filterMap (fun k => (s.map f)[k]?) = s.map f := by
    have := filterMap_range_getElem? (s.map f)
    rwa [List.length_map] at this
  rwa [e] at h

end CogentModel.ParallelBook
