import CogentModel.Proofs.IndelMapCoords
namespace CogentModel.IndelMap
open CogentModel.Gapped List CogentModel

/-- the sentinel handling of `from_aligned_segments` -/
def fasAugment (locs : List (Int × Int)) (L : Int) : List (Int × Int) :=
  let locs := match locs with
    | [] => [(0, 0)]
    | first :: _ => if first.1 ≠ 0 then (0, 0) :: locs else locs
  let lastEnd := match locs.getLast? with | some l => l.2 | none => 0
  if lastEnd < L then locs ++ [(L, L)] else locs

/-- the array part of `from_aligned_segments` -/
def fasArrays (A : List (Int × Int)) (L : Int) : Except Err IMap :=
  let flat := (A.flatMap fun l => [l.1, l.2]).drop 1 |>.dropLast
  let gc := gapPairs flat
  let cum := cumsum (gc.map fun g => g.2 - g.1)
  if cum = [] then .error .indexError else
  mk (shiftPos 0 (gc.map (·.1)) cum) cum (L - lastD cum)

theorem fas_eq (locs : List (Int × Int)) (L : Int) :
    fromAlignedSegments locs L =
      if (locs = [] ∧ L = 0) ∨ (match locs with | [first] => decide (first.1 = 0 ∧ first.2 = L) | _ => false) = true
      then .ok (emptyMap L) else fasArrays (fasAugment locs L) L := rfl

/-- gaps between consecutive segments, starting after a segment that ended at `b0` -/
def gapsBetween (b0 : Int) : List (Int × Int) → List (Int × Int)
  | (c, d) :: r => (b0, c) :: gapsBetween d r
  | [] => []

theorem gapPairs_flat (S : List (Int × Int)) : ∀ (b0 : Int),
    gapPairs ((b0 :: S.flatMap fun l => [l.1, l.2]).dropLast) = gapsBetween b0 S := by
  induction S with
  | nil => intro b0; rfl
  | cons x r ih =>
    intro b0
    obtain ⟨c, d⟩ := x
    simp only [flatMap_cons, cons_append, nil_append]
    rw [dropLast_cons₂, dropLast_cons₂]
    simp only [gapPairs, gapsBetween]
    rw [← ih d]

/-- the segment list with both sentinels: (cursor, gap start), …, (last gap end, L) -/
def augT (col : Int) : List Trip → Int → List (Int × Int)
  | (_, s, e) :: r, L => (col, s) :: augT e r L
  | [], L => [(col, L)]

theorem gaps_of_augT (T : List Trip) : ∀ (col L : Int),
    (match augT col T L with | (_, b0) :: rest => gapsBetween b0 rest | [] => []) = T.map (fun t => (t.2.1, t.2.2)) := by
  induction T with
  | nil => intro col L; rfl
  | cons t r ih =>
    intro col L
    obtain ⟨p, s, e⟩ := t
    have := ih e L
    simp only [augT] at this ⊢
    cases hr : augT e r L with
    | nil => cases r with
      | nil => simp [augT] at hr
      | cons t' r' => obtain ⟨p', s', e'⟩ := t'; simp [augT] at hr
    | cons x rest =>
      obtain ⟨a, b⟩ := x
      rw [hr] at this
      have ha : a = e := by
        cases r with
        | nil => simp only [augT, cons.injEq, Prod.mk.injEq] at hr; exact hr.1.1.symm
        | cons t' r' => obtain ⟨p', s', e'⟩ := t'; simp only [augT, cons.injEq, Prod.mk.injEq] at hr; exact hr.1.1.symm
      subst ha
      simp only [map_cons, gapsBetween, this]

theorem shiftPos_rel (T : List Trip) : ∀ (col next pc : Int), TRel col next T → col = next + pc →
    shiftPos pc (T.map (·.2.1)) (cumsumFrom pc (T.map tlen)) = T.map (·.1) := by
  induction T with
  | nil => intro _ _ _ _ _; rfl
  | cons t r ih =>
    intro col next pc hr hc
    obtain ⟨p, s, e⟩ := t
    obtain ⟨r1, r2⟩ := hr
    simp only [map_cons, cumsumFrom, shiftPos, tlen]
    rw [ih e p (pc + (e - s)) r2 (by omega)]
    congr 1; omega

/-- from the sentinel-complete segment list of a well-formed map, the array part rebuilds the map -/
theorem fasArrays_augT (m : IMap) (h : WF m) (hne : m.gapPos ≠ []) :
    fasArrays (augT 0 (trips 0 m.gapPos m.cumLens) (len m)) (len m) = .ok m := by
  have hTr : TRel 0 0 (trips 0 m.gapPos m.cumLens) := by
    have := trips_rel m.gapPos m.cumLens 0 0; simpa using this
  have hl := h.len_eq
  unfold fasArrays
  have hgc : gapPairs (((augT 0 (trips 0 m.gapPos m.cumLens) (len m)).flatMap fun l => [l.1, l.2]).drop 1 |>.dropLast)
      = (trips 0 m.gapPos m.cumLens).map (fun t => (t.2.1, t.2.2)) := by
    rw [← gaps_of_augT (trips 0 m.gapPos m.cumLens) 0 (len m)]
    cases hA : augT 0 (trips 0 m.gapPos m.cumLens) (len m) with
    | nil => cases hT : trips 0 m.gapPos m.cumLens with
      | nil => rw [hT] at hA; simp [augT] at hA
      | cons t r => obtain ⟨p, s, e⟩ := t; rw [hT] at hA; simp [augT] at hA
    | cons x rest =>
      obtain ⟨a, b⟩ := x
      simp only [flatMap_cons, cons_append, nil_append, drop_succ_cons, drop_zero]
      exact gapPairs_flat rest b
  simp only [hgc, map_map]
  have e1 : (map ((fun g : Int × Int => g.2 - g.1) ∘ fun t : Trip => (t.2.1, t.2.2)) (trips 0 m.gapPos m.cumLens))
      = (trips 0 m.gapPos m.cumLens).map tlen := rfl
  have e2 : (map ((fun x : Int × Int => x.1) ∘ fun t : Trip => (t.2.1, t.2.2)) (trips 0 m.gapPos m.cumLens))
      = (trips 0 m.gapPos m.cumLens).map (·.2.1) := rfl
  rw [e1, e2]
  have hlen := trips_map_len m.gapPos m.cumLens 0 hl
  have hcum : cumsum ((trips 0 m.gapPos m.cumLens).map tlen) = m.cumLens := by
    rw [hlen]; exact cumsumFrom_diffsFrom m.cumLens 0
  have hpos : shiftPos 0 ((trips 0 m.gapPos m.cumLens).map (·.2.1)) (cumsum ((trips 0 m.gapPos m.cumLens).map tlen)) = m.gapPos := by
    unfold cumsum
    rw [shiftPos_rel _ 0 0 0 hTr (by omega), trips_map_pos _ _ _ hl]
  rw [hpos, hcum]
  have hcne : m.cumLens ≠ [] := by intro hn; rw [hn] at hl; exact hne (length_eq_zero_iff.mp hl)
  rw [if_neg hcne]
  have hpl : len m - lastD m.cumLens = m.parentLength := by
    unfold len; rw [if_neg hne]; omega
  rw [hpl]
  exact wf_mk_ok m h

end CogentModel.IndelMap
