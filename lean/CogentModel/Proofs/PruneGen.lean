import Mathlib.Data.List.Basic
import CogentModel.Gen.C02Indexed
import CogentModel.Model.Prune
/-! Loop invariant relating the TRANSLATED `_indexed` (`Gen/C02Indexed.lean`) to the hand model `Prune.indexed`. -/
namespace CogentModel.C02G
open CogentModel.Prune CogentModel.PyAccum CogentModel.Gen.C02Indexed

/-- relation between the state of the translated loop and of the hand model after the same keys, `n` = `len(values)` -/
def Rel {κ : Type} [DecidableEq κ] (n : Nat) (st : St κ) (h : Indexed κ) : Prop :=
  st.unique = h.uniq ∧ st.counts = h.counts
  ∧ st.index = h.index ++ List.replicate (n - h.index.length) 0
  ∧ ∀ k, st.seen.lookup k = if h.uniq.idxOf k < h.uniq.length then some (h.uniq.idxOf k) else none

theorem set_at_end (xs : List Nat) (n v : Nat) (h : xs.length < n) :
    (xs ++ List.replicate (n - xs.length) 0).set xs.length v = (xs ++ [v]) ++ List.replicate (n - (xs ++ [v]).length) 0 := by
  obtain ⟨d, hd⟩ : ∃ d, n - xs.length = d + 1 := ⟨n - xs.length - 1, by omega⟩
  have h2 : n - (xs ++ [v]).length = d := by simp; omega
  rw [hd, h2, List.replicate_succ, List.set_append_right _ _ (Nat.le_refl _)]
  simp

theorem body_rel {κ : Type} [DecidableEq κ] (n : Nat) (st : St κ) (h : Indexed κ) (key : κ)
    (hr : Rel n st h) (hlt : h.index.length < n) : Rel n (body st h.index.length key) (indexedStep h key) := by
  obtain ⟨hu, hc, hi, hs⟩ := hr
  unfold body indexedStep
  by_cases hk : h.uniq.idxOf key < h.uniq.length
  · have hin : dictIn st.seen key = true := by simp [dictIn, hs key, hk]
    have hget : dictGet st.seen key = h.uniq.idxOf key := by simp [dictGet, hs key, hk]
    simp only [hin, hk, if_true, hget]
    refine ⟨hu, by rw [hc], ?_, hs⟩
    rw [hi]
    exact set_at_end h.index n _ hlt
  · have hin : dictIn st.seen key = false := by simp [dictIn, hs key, hk]
    simp only [hin, hk, if_false, Bool.false_eq_true]
    refine ⟨by rw [hu], by rw [hc], ?_, ?_⟩
    · rw [hi, hu]
      exact set_at_end h.index n _ hlt
    · intro k
      have hnotin : key ∉ h.uniq := fun hm => hk (List.idxOf_lt_length_iff.mpr hm)
      simp only [dictSet, List.lookup_cons, hu]
      by_cases hkk : k = key
      · subst hkk
        have : (h.uniq ++ [k]).idxOf k = h.uniq.length := by
          rw [List.idxOf_append_of_notMem hnotin]; simp
        simp [this]
      · have hne : (k == key) = false := by simpa using hkk
        rw [hne, hs k]
        by_cases hm : k ∈ h.uniq
        · have h1 : h.uniq.idxOf k < h.uniq.length := List.idxOf_lt_length_iff.mpr hm
          have h2 : (h.uniq ++ [key]).idxOf k = h.uniq.idxOf k := List.idxOf_append_of_mem hm
          simp [h1, h2]; omega
        · have h1 : ¬ h.uniq.idxOf k < h.uniq.length := fun hh => hm (List.idxOf_lt_length_iff.mp hh)
          have h2 : (h.uniq ++ [key]).idxOf k = h.uniq.length + 1 := by
            rw [List.idxOf_append_of_notMem hm]
            simp [List.idxOf_cons_ne, Ne.symm hkk]
          simp [h1, h2]

theorem indexedStep_index_len {κ : Type} [DecidableEq κ] (h : Indexed κ) (key : κ) :
    (indexedStep h key).index.length = h.index.length + 1 := by
  unfold indexedStep
  by_cases hk : h.uniq.idxOf key < h.uniq.length <;> simp [hk]

theorem indexedGo_index_len {κ : Type} [DecidableEq κ] : ∀ (vs : List κ) (st : Indexed κ),
    (indexedGo vs st).index.length = st.index.length + vs.length
  | [], st => by simp [indexedGo]
  | v :: vs, st => by
    rw [indexedGo, indexedGo_index_len vs, indexedStep_index_len]
    simp; omega

theorem loop_rel {κ : Type} [DecidableEq κ] (n : Nat) : ∀ (rest : List κ) (st : St κ) (h : Indexed κ),
    Rel n st h → h.index.length + rest.length = n → Rel n (loop rest h.index.length st) (indexedGo rest h)
  | [], st, h, hr, _ => by simpa [loop, indexedGo] using hr
  | key :: rest, st, h, hr, hn => by
    have hlt : h.index.length < n := by simp at hn; omega
    have hb := body_rel n st h key hr hlt
    have hlen := indexedStep_index_len h key
    have := loop_rel n rest _ _ hb (by rw [hlen]; simp at hn; omega)
    rw [hlen] at this
    simpa [loop, indexedGo] using this

end CogentModel.C02G
