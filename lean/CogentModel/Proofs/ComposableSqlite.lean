import CogentModel.Model.Composable
import CogentModel.Proofs.ComposableLemmas
/-! C14: the selection / any-schedule / resume lemmas for the SQLite membership test
(`hasAny`: a stored not-completed record also counts), parallel to `ComposableLemmas` -/
namespace CogentModel.Composable

theorem hasDone_false_of_hasAny_false' (s : Store) (i : Id) (h : hasAny s i = false) : hasDone s i = false := by
  have : entries s i = [] := by simpa [hasAny] using h
  simp [hasDone, this]

theorem selectBy_prefix' (idOf : Nat → Id) (s : Store) (ms : List Nat) (acc sel : List (Id × Nat))
    (h : selectBy (hasAny s) idOf ms acc = some sel) :
    ∃ added, sel = acc ++ added ∧ ∀ p ∈ added, idOf p.2 = p.1 ∧ p.2 ∈ ms ∧ hasAny s p.1 = false := by
  induction ms generalizing acc with
  | nil => simp only [selectBy, Option.some.injEq] at h; exact ⟨[], by simp [h], by simp⟩
  | cons m ms ih =>
    unfold selectBy at h
    split at h
    · cases h
    · split at h
      · obtain ⟨added, e, hp⟩ := ih acc h
        exact ⟨added, e, fun p hp' => let ⟨a, b, c⟩ := hp p hp'; ⟨a, List.mem_cons_of_mem _ b, c⟩⟩
      · next hd =>
        obtain ⟨added, e, hp⟩ := ih _ h
        refine ⟨(idOf m, m) :: added, by simp [e], ?_⟩
        intro p hp'
        rcases List.mem_cons.mp hp' with rfl | hp'
        · exact ⟨rfl, List.mem_cons_self, by simpa using hd⟩
        · let ⟨a, b, c⟩ := hp p hp'; exact ⟨a, List.mem_cons_of_mem _ b, c⟩

theorem selectBy_nodup' (idOf : Nat → Id) (s : Store) (ms : List Nat) (acc sel : List (Id × Nat))
    (h : selectBy (hasAny s) idOf ms acc = some sel) (hn : (acc.map (·.1)).Nodup) : (sel.map (·.1)).Nodup := by
  induction ms generalizing acc with
  | nil => simp only [selectBy, Option.some.injEq] at h; exact h ▸ hn
  | cons m ms ih =>
    unfold selectBy at h
    split at h
    · cases h
    · next hany =>
      split at h
      · exact ih acc h hn
      · apply ih _ h
        rw [List.map_append, List.nodup_append]
        refine ⟨hn, by simp, ?_⟩
        intro a ha b hb
        simp only [List.map_cons, List.map_nil, List.mem_singleton] at hb
        subst hb
        intro e; subst e
        apply hany
        obtain ⟨p, hp, e⟩ := List.mem_map.mp ha
        exact List.any_eq_true.mpr ⟨p, hp, by simp [e]⟩

theorem selectBy_complete (idOf : Nat → Id) (s : Store) (ms : List Nat) (acc sel : List (Id × Nat))
    (h : selectBy (hasAny s) idOf ms acc = some sel) :
    ∀ m ∈ ms, hasAny s (idOf m) = false → (idOf m, m) ∈ sel := by
  induction ms generalizing acc with
  | nil => intro m hm; cases hm
  | cons m0 ms ih =>
    intro m hm hd
    unfold selectBy at h
    split at h
    · cases h
    · split at h
      · next hd0 =>
        rcases List.mem_cons.mp hm with rfl | hm
        · rw [hd0] at hd; cases hd
        · exact ih acc h m hm hd
      · rcases List.mem_cons.mp hm with rfl | hm
        · obtain ⟨added, e, _⟩ := selectBy_prefix' idOf s ms _ sel h
          rw [e]; simp
        · exact ih _ h m hm hd

/-- the facts about a successful selection used below -/
structure SelSpecBy (idOf : Nat → Id) (s : Store) (inputs : List Nat) (sel : List (Id × Nat)) : Prop where
  nodup : (sel.map (·.1)).Nodup
  idOk : ∀ p ∈ sel, idOf p.2 = p.1
  mem : ∀ p ∈ sel, p.2 ∈ inputs
  fresh : ∀ p ∈ sel, hasAny s p.1 = false
  complete : ∀ m ∈ inputs, hasAny s (idOf m) = false → (idOf m, m) ∈ sel

theorem selectBy_spec (idOf : Nat → Id) (s : Store) (inputs : List Nat) (sel : List (Id × Nat))
    (h : selectBy (hasAny s) idOf inputs [] = some sel) : SelSpecBy idOf s inputs sel := by
  obtain ⟨added, e, hp⟩ := selectBy_prefix' idOf s inputs [] sel h
  simp only [List.nil_append] at e
  subst e
  exact ⟨selectBy_nodup' idOf s inputs [] _ h (by simp), fun p hp' => (hp p hp').1, fun p hp' => (hp p hp').2.1,
    fun p hp' => (hp p hp').2.2, selectBy_complete idOf s inputs [] _ h⟩

theorem fst_inj_of_nodup_by {α β} (l : List (α × β)) (h : (l.map (·.1)).Nodup) (p q : α × β)
    (hp : p ∈ l) (hq : q ∈ l) (e : p.1 = q.1) : p = q := by
  induction l with
  | nil => cases hp
  | cons x xs ih =>
    rw [List.map_cons, List.nodup_cons] at h
    rcases List.mem_cons.mp hp with hp1 | hp1
    · rcases List.mem_cons.mp hq with hq1 | hq1
      · rw [hp1, hq1]
      · exact absurd (by rw [← hp1, e]; exact List.mem_map_of_mem (f := (·.1)) hq1) h.1
    · rcases List.mem_cons.mp hq with hq1 | hq1
      · exact absurd (by rw [← hq1, ← e]; exact List.mem_map_of_mem (f := (·.1)) hp1) h.1
      · exact ih h.2 hp1 hq1

section results
variable (idOf : Nat → Id) (app : Nat → Val) (s : Store) (inputs : List Nat) (sel : List (Id × Nat))
  (hs : SelSpecBy idOf s inputs sel) (results : List (Nat × Val)) (hperm : results.Perm (sel.map (wrapped app)))
include hs hperm

theorem results_ids_nodup_by : (results.map (fun r => idOf r.1)).Nodup := by
  have h1 : (results.map (fun r => idOf r.1)).Perm ((sel.map (wrapped app)).map (fun r => idOf r.1)) :=
    hperm.map _
  rw [h1.nodup_iff, List.map_map]
  have : sel.map ((fun r => idOf r.1) ∘ wrapped app) = sel.map (·.1) :=
    List.map_congr_left (fun p hp => by simpa [wrapped] using hs.idOk p hp)
  rw [this]; exact hs.nodup

theorem results_mem_by (r : Nat × Val) (hr : r ∈ results) : ∃ p ∈ sel, r = (p.2, app p.2) := by
  obtain ⟨p, hp, e⟩ := List.mem_map.mp (hperm.mem_iff.mp hr)
  exact ⟨p, hp, e.symm⟩

theorem mem_results_by (p : Id × Nat) (hp : p ∈ sel) : (p.2, app p.2) ∈ results :=
  hperm.mem_iff.mpr (List.mem_map.mpr ⟨p, hp, rfl⟩)

theorem results_fresh_by (r : Nat × Val) (hr : r ∈ results) : hasAny s (idOf r.1) = false := by
  obtain ⟨p, hp, rfl⟩ := results_mem_by idOf app s inputs sel hs results hperm r hr
  rw [hs.idOk p hp]; exact hs.fresh p hp

/-- an uninterrupted run, any completion order -/
theorem apply_any_schedule_by :
    (∀ p ∈ sel, entries (writeAll idOf s results) p.1 = [(p.1, app p.2)]) ∧
    (∀ i, (∀ p ∈ sel, p.1 ≠ i) → entries (writeAll idOf s results) i = entries s i) := by
  constructor
  · intro p hp
    have := entries_writeAll_mem idOf results s (results_ids_nodup_by idOf app s inputs sel hs results hperm)
      (fun r hr => hasDone_false_of_hasAny_false' _ _ (results_fresh_by idOf app s inputs sel hs results hperm r hr)) _ (mem_results_by idOf app s inputs sel hs results hperm p hp)
    simpa [hs.idOk p hp] using this
  · intro i hi
    apply entries_writeAll_other
    intro r hr e
    obtain ⟨p, hp, rfl⟩ := results_mem_by idOf app s inputs sel hs results hperm r hr
    exact hi p hp ((hs.idOk p hp).symm.trans e)

end results

theorem hasAny_congr_by (s t : Store) (i : Id) (h : entries s i = entries t i) : hasAny s i = hasAny t i := by
  simp [hasAny, h]

theorem resume_same_store_by (idOf : Nat → Id) (app : Nat → Val) (s : Store) (inputs : List Nat)
    (sel : List (Id × Nat)) (hsel : selectBy (hasAny s) idOf inputs [] = some sel)
    (results : List (Nat × Val)) (hperm : results.Perm (sel.map (wrapped app))) (j : Nat)
    (sel' : List (Id × Nat)) (hsel' : selectBy (hasAny (writeAll idOf s (results.take j))) idOf inputs [] = some sel')
    (results' : List (Nat × Val)) (hperm' : results'.Perm (sel'.map (wrapped app))) :
    (∀ p ∈ sel, entries (writeAll idOf (writeAll idOf s (results.take j)) results') p.1 = [(p.1, app p.2)]) ∧
    (∀ p ∈ sel, (p.2, app p.2) ∈ results.take j → ∀ q ∈ sel', q.1 ≠ p.1) := by
  have hs := selectBy_spec idOf s inputs sel hsel
  have hs' := selectBy_spec idOf _ inputs sel' hsel'
  have hnd := results_ids_nodup_by idOf app s inputs sel hs results hperm
  have hsub : (results.take j).Sublist results := List.take_sublist _ _
  have hnd1 : ((results.take j).map (fun r => idOf r.1)).Nodup := (hsub.map _).nodup hnd
  have hfresh1 : ∀ r ∈ results.take j, hasAny s (idOf r.1) = false :=
    fun r hr => results_fresh_by idOf app s inputs sel hs results hperm r (hsub.subset hr)
  have key1 := entries_writeAll_mem idOf (results.take j) s hnd1 (fun r hr => hasDone_false_of_hasAny_false' _ _ (hfresh1 r hr))
  have key2 := apply_any_schedule_by idOf app _ inputs sel' hs' results' hperm'
  constructor
  · intro p hp
    by_cases hd : hasAny (writeAll idOf s (results.take j)) p.1 = true
    · -- completed before the interruption: not selected again, untouched by the second run
      have hnot : ∀ q ∈ sel', q.1 ≠ p.1 := by
        intro q hq e; have := hs'.fresh q hq; rw [e, hd] at this; cases this
      rw [key2.2 p.1 hnot]
      by_cases hin : ∃ r ∈ results.take j, idOf r.1 = p.1
      · obtain ⟨r, hr, e⟩ := hin
        obtain ⟨p', hp', rfl⟩ := results_mem_by idOf app s inputs sel hs results hperm r (hsub.subset hr)
        have : p' = p := fst_inj_of_nodup_by sel hs.nodup p' p hp' hp ((hs.idOk p' hp').symm.trans e)
        subst this
        have := key1 _ hr
        simpa [hs.idOk p' hp'] using this
      · have : entries (writeAll idOf s (results.take j)) p.1 = entries s p.1 :=
          entries_writeAll_other idOf _ s p.1 (fun r hr e => hin ⟨r, hr, e⟩)
        rw [hasAny_congr_by _ _ _ this, hs.fresh p hp] at hd; cases hd
    · -- still missing: selected again and written by the second run
      have hd' : hasAny (writeAll idOf s (results.take j)) (idOf p.2) = false := by
        rw [hs.idOk p hp]; simpa using hd
      have hmem : (idOf p.2, p.2) ∈ sel' := hs'.complete p.2 (hs.mem p hp) hd'
      have := key2.1 _ hmem
      simpa [hs.idOk p hp] using this
  · intro p hp hin q hq e
    have := key1 _ hin
    have hd : hasAny (writeAll idOf s (results.take j)) (idOf p.2) = true := by
      simp [hasAny, this]
    rw [hs.idOk p hp, ← e, hs'.fresh q hq] at hd; cases hd


end CogentModel.Composable
