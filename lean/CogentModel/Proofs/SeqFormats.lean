import CogentModel.Model.SeqFormats
import CogentModel.Spec.SeqRecords
import CogentModel.Proofs.Splitlines
/-! Helper lemmas for C06: writers followed by parsers. -/
namespace CogentModel.SeqFormats
open CogentModel.Splitlines CogentModel.SeqSpec

instance exceptDecEq {ε α : Type} [DecidableEq ε] [DecidableEq α] : DecidableEq (Except ε α)
  | .ok a, .ok b => if h : a = b then isTrue (by rw [h]) else isFalse (by intro e; cases e; exact h rfl)
  | .error a, .error b => if h : a = b then isTrue (by rw [h]) else isFalse (by intro e; cases e; exact h rfl)
  | .ok _, .error _ => isFalse (by intro e; cases e)
  | .error _, .ok _ => isFalse (by intro e; cases e)

/-! ### character facts -/

theorem eq_iff_toNat (c d : Char) : c = d ↔ c.toNat = d.toNat := Char.toNat_inj.symm

theorem printable_not_break {c : Char} (h : printable c = true) : isBreak c = false := by
  simp only [printable, Bool.and_eq_true, decide_eq_true_eq] at h
  simp only [isBreak, Bool.or_eq_false_iff, decide_eq_false_iff_not, eq_iff_toNat]
  have e1 : ('\n' : Char).toNat = 10 := by decide
  have e2 : ('\r' : Char).toNat = 13 := by decide
  rw [e1, e2]
  omega

theorem printable_space {c : Char} (h : printable c = true) : isSpaceStr c = (c == ' ') := by
  simp only [printable, Bool.and_eq_true, decide_eq_true_eq] at h
  have e1 : (' ' : Char).toNat = 32 := by decide
  by_cases hc : c = ' '
  · subst hc; decide
  · have hn : c.toNat ≠ 32 := by rw [← e1]; exact fun h => hc (Char.toNat_inj.mp h)
    have : (c == ' ') = false := by simpa using hc
    rw [this]
    simp only [isSpaceStr, Bool.or_eq_false_iff, Bool.and_eq_false_iff, decide_eq_false_iff_not]
    simp only [hc, not_false_eq_true, true_and]
    omega

theorem printable_bspace {c : Char} (h : printable c = true) : isSpaceBytes c = (c == ' ') := by
  simp only [printable, Bool.and_eq_true, decide_eq_true_eq] at h
  by_cases hc : c = ' '
  · subst hc; decide
  · have : (c == ' ') = false := by simpa using hc
    rw [this]
    simp only [isSpaceBytes, Bool.or_eq_false_iff, Bool.and_eq_false_iff, decide_eq_false_iff_not]
    simp only [hc, not_false_eq_true, true_and]
    omega

theorem seqChar_printable {lc : List Char} {c : Char} (h : seqChar lc c = true) : printable c = true := by
  simp only [seqChar, Bool.and_eq_true] at h; exact h.1.1.1

theorem seqChar_not_space {lc : List Char} {c : Char} (h : seqChar lc c = true) : isSpaceStr c = false := by
  rw [printable_space (seqChar_printable h)]
  simp only [seqChar, Bool.and_eq_true, bne_iff_ne, ne_eq] at h
  simpa using h.1.1.2

theorem seqChar_not_label {lc : List Char} {c : Char} (h : seqChar lc c = true) : lc.contains c = false := by
  simp only [seqChar, Bool.and_eq_true, Bool.not_eq_true'] at h; exact h.2

theorem seqChar_not_hash {lc : List Char} {c : Char} (h : seqChar lc c = true) : c ≠ '#' := by
  simp only [seqChar, Bool.and_eq_true, bne_iff_ne, ne_eq] at h; exact h.1.2

/-! ### strip -/

theorem dropWhile_id_of_head {p : Char → Bool} : ∀ {s : Str}, (∀ c, s.head? = some c → p c = false) → s.dropWhile p = s
  | [], _ => rfl
  | c :: cs, h => by
    have := h c rfl
    simp [List.dropWhile, this]

theorem stripBy_id {p : Char → Bool} {s : Str} (hh : ∀ c, s.head? = some c → p c = false)
    (hl : ∀ c, s.getLast? = some c → p c = false) : stripBy p s = s := by
  unfold stripBy rstripBy
  rw [dropWhile_id_of_head hh, dropWhile_id_of_head (by rw [List.head?_reverse]; exact hl), List.reverse_reverse]

theorem all_of_head {p : Char → Bool} {s : Str} (h : ∀ c ∈ s, p c = false) : ∀ c, s.head? = some c → p c = false :=
  fun c hc => h c (List.mem_of_head? hc)

theorem all_of_last {p : Char → Bool} {s : Str} (h : ∀ c ∈ s, p c = false) : ∀ c, s.getLast? = some c → p c = false :=
  fun c hc => h c (List.mem_of_getLast? hc)

/-- a well-formed name is a fixed point of `str.strip()` and `bytes.strip()` -/
theorem wfName_strip {n : Str} (h : wfName n = true) : strip n = n ∧ bstrip n = n := by
  simp only [wfName, Bool.and_eq_true, Bool.not_eq_true', bne_iff_ne, ne_eq, List.all_eq_true] at h
  obtain ⟨⟨⟨_, hp⟩, hh⟩, hl⟩ := h
  constructor
  · apply stripBy_id
    · intro c hc
      rw [printable_space (hp c (List.mem_of_head? hc))]
      have : c ≠ ' ' := by rintro rfl; exact hh hc
      simpa using this
    · intro c hc
      rw [printable_space (hp c (List.mem_of_getLast? hc))]
      have : c ≠ ' ' := by rintro rfl; exact hl hc
      simpa using this
  · apply stripBy_id
    · intro c hc
      rw [printable_bspace (hp c (List.mem_of_head? hc))]
      have : c ≠ ' ' := by rintro rfl; exact hh hc
      simpa using this
    · intro c hc
      rw [printable_bspace (hp c (List.mem_of_getLast? hc))]
      have : c ≠ ' ' := by rintro rfl; exact hl hc
      simpa using this

theorem wfSeq_chars {lc : List Char} {s : Str} (h : wfSeq lc s = true) : s ≠ [] ∧ ∀ c ∈ s, seqChar lc c = true := by
  simp only [wfSeq, Bool.and_eq_true, Bool.not_eq_true', List.all_eq_true] at h
  exact ⟨by intro e; subst e; simp at h, h.2⟩

theorem wfSeq_strip {lc : List Char} {s : Str} (h : wfSeq lc s = true) : strip s = s :=
  stripBy_id (all_of_head fun c hc => seqChar_not_space ((wfSeq_chars h).2 c hc))
    (all_of_last fun c hc => seqChar_not_space ((wfSeq_chars h).2 c hc))

/-! ### lines of a text -/

theorem joinNl_snoc_nil : ∀ (ls : List Str), ls ≠ [] → joinNl (ls ++ [[]]) = unlines ls
  | [], h => absurd rfl h
  | [l], _ => by simp [joinNl, unlines]
  | l :: l2 :: ls, _ => by
    have ih := joinNl_snoc_nil (l2 :: ls) (by simp)
    simp only [List.cons_append] at ih ⊢
    simp only [joinNl, unlines, List.flatMap_cons] at ih ⊢
    rw [ih]; simp

theorem splitCore_line_nl {l : Str} (h : ∀ c ∈ l, isBreak c = false) (r : Str) :
    splitCore (l ++ '\n' :: r) = l :: splitCore r := by
  induction l with
  | nil => simp [splitCore, isBreak_nl]
  | cons c cs ih =>
    have hc := h c List.mem_cons_self
    have := ih (fun d hd => h d (List.mem_cons_of_mem _ hd))
    simp [splitCore, hc, this, consHead]

/-- `NoBreak ls`: no line contains a line boundary character -/
def NoBreak (ls : List Str) : Prop := ∀ l ∈ ls, ∀ c ∈ l, isBreak c = false

theorem splitCore_unlines : ∀ (ls : List Str), NoBreak ls → splitCore (unlines ls) = ls
  | [], _ => by simp [unlines, splitCore]
  | l :: ls, h => by
    have ih := splitCore_unlines ls (fun l' hl' => h l' (List.mem_cons_of_mem _ hl'))
    simp only [unlines, List.flatMap_cons, List.append_assoc, List.singleton_append] at ih ⊢
    rw [splitCore_line_nl (h l List.mem_cons_self), ih]

theorem unlines_nlOnly {ls : List Str} (h : NoBreak ls) : NlOnly (unlines ls) := by
  intro c hc hb
  simp only [unlines, List.mem_flatMap, List.mem_append, List.mem_singleton] at hc
  obtain ⟨l, hl, hc | hc⟩ := hc
  · rw [h l hl c hc] at hb; exact absurd hb (by simp)
  · exact hc

/-- the lines of a text written line by line are those lines -/
theorem pySplitlines_unlines {ls : List Str} (h : NoBreak ls) : pySplitlines (unlines ls) = ls := by
  rw [pySplitlines_eq_core (unlines_nlOnly h), splitCore_unlines ls h]

/-! ### the strict / non-strict line parsers on writer output -/

/-- the lines `seqs_to_fasta` / the GDE writer produce for `recs` with label character `l0` -/
def recLines (l0 : Char) (recs : List (Str × List Str)) : List Str :=
  recs.flatMap (fun r => (l0 :: r.1) :: r.2)

theorem clean_wf {lc : List Char} {ws : List Str} (h : ∀ w ∈ ws, wfSeq lc w = true) : clean ws = ws.flatten := by
  unfold clean removeWs
  rw [List.filter_eq_self]
  intro c hc
  obtain ⟨w, hw, hcw⟩ := List.mem_flatten.mp hc
  simp [seqChar_not_space ((wfSeq_chars (h w hw)).2 c hcw)]

theorem isLabel_seq {lc : List Char} {w : Str} (h : wfSeq lc w = true) : isLabel lc w = false := by
  obtain ⟨hne, hc⟩ := wfSeq_chars h
  cases w with
  | nil => exact absurd rfl hne
  | cons c cs => exact seqChar_not_label (hc c List.mem_cons_self)


theorem strictGo_cons (lc : List Char) (label : Option Str) (seq : List Str) (line : Str) (rest : List Str) :
    strictGo lc label seq (line :: rest) =
    if line.isEmpty || (line.head? = some '#' && !lc.contains '#') then strictGo lc label seq rest
    else if isLabel lc line then
      match label with
      | some l =>
        if seq.isEmpty then .error .recordError
        else (strictGo lc (some (strip (line.drop 1))) [] rest).map (fun rs => (l, clean seq) :: rs)
      | none =>
        if !seq.isEmpty then .error .recordError
        else strictGo lc (some (strip (line.drop 1))) [] rest
    else strictGo lc label (seq ++ [strip line]) rest := by
  rfl

theorem fasterGo_cons (lc : List Char) (label : Option Str) (seq : List Str) (line : Str) (rest : List Str) :
    fasterGo lc label seq (line :: rest) =
    if line.isEmpty then fasterGo lc label seq rest
    else if isLabel lc line then
      (if seq.isEmpty then [] else [(label.getD [], clean seq)]) ++
        fasterGo lc (some (strip (line.drop 1))) [] rest
    else fasterGo lc label (seq ++ [strip line]) rest := by
  rfl

theorem strictGo_seqLines {lc : List Char} (label : Option Str) : ∀ (ws : List Str) (seq rest : List Str),
    (∀ w ∈ ws, wfSeq lc w = true) → strictGo lc label seq (ws ++ rest) = strictGo lc label (seq ++ ws) rest
  | [], seq, rest, _ => by simp
  | w :: ws, seq, rest, h => by
    have hw := h w List.mem_cons_self
    obtain ⟨hne, hc⟩ := wfSeq_chars hw
    have h1 : w.isEmpty = false := by cases w <;> simp at hne ⊢
    have h2 : w.head? ≠ some '#' := by
      intro e; exact seqChar_not_hash (hc _ (List.mem_of_head? e)) rfl
    have ih := strictGo_seqLines label ws (seq ++ [w]) rest (fun x hx => h x (List.mem_cons_of_mem _ hx))
    simp only [List.cons_append]
    rw [strictGo_cons]
    simp only [h1, h2, isLabel_seq hw, wfSeq_strip hw, Bool.false_or, decide_false, Bool.false_eq_true, if_false]
    rw [ih]; simp

theorem fasterGo_seqLines {lc : List Char} (label : Option Str) : ∀ (ws : List Str) (seq rest : List Str),
    (∀ w ∈ ws, wfSeq lc w = true) → fasterGo lc label seq (ws ++ rest) = fasterGo lc label (seq ++ ws) rest
  | [], seq, rest, _ => by simp
  | w :: ws, seq, rest, h => by
    have hw := h w List.mem_cons_self
    obtain ⟨hne, hc⟩ := wfSeq_chars hw
    have h1 : w.isEmpty = false := by cases w <;> simp at hne ⊢
    have ih := fasterGo_seqLines label ws (seq ++ [w]) rest (fun x hx => h x (List.mem_cons_of_mem _ hx))
    simp only [List.cons_append]
    rw [fasterGo_cons]
    simp only [h1, isLabel_seq hw, wfSeq_strip hw, Bool.false_eq_true, if_false]
    rw [ih]; simp

/-- well-formed wrapped records for label characters `lc` -/
def WfRecs (lc : List Char) (recs : List (Str × List Str)) : Prop :=
  ∀ r ∈ recs, wfName r.1 = true ∧ wfLines lc r.2 = true

instance (lc : List Char) (recs : List (Str × List Str)) : Decidable (WfRecs lc recs) := by
  unfold WfRecs; infer_instance

theorem wfLines_iff {lc : List Char} {ws : List Str} (h : wfLines lc ws = true) :
    ws ≠ [] ∧ ∀ w ∈ ws, wfSeq lc w = true := by
  simp only [wfLines, Bool.and_eq_true, Bool.not_eq_true', List.all_eq_true] at h
  exact ⟨by intro e; subst e; simp at h, h.2⟩

/-- the records a parser is expected to return -/
def expected (recs : List (Str × List Str)) : List Rec := recs.map (fun r => (r.1, r.2.flatten))

theorem strictGo_recs {lc : List Char} {l0 : Char} (hl0 : lc.contains l0 = true) (hh : l0 ≠ '#') :
    ∀ (recs : List (Str × List Str)) (label : Str) (seq : List Str), WfRecs lc recs → seq ≠ [] →
    (∀ w ∈ seq, wfSeq lc w = true) →
    strictGo lc (some label) seq (recLines l0 recs) = .ok ((label, seq.flatten) :: expected recs)
  | [], label, seq, _, hs, hw => by
    have : seq.isEmpty = false := by cases seq <;> simp at hs ⊢
    simp [recLines, strictGo, this, expected, clean_wf hw]
  | r :: recs, label, seq, hwf, hs, hw => by
    have hr := hwf r List.mem_cons_self
    obtain ⟨hne, hws⟩ := wfLines_iff hr.2
    have hse : seq.isEmpty = false := by cases seq <;> simp at hs ⊢
    have ih := strictGo_recs hl0 hh recs r.1 r.2 (fun x hx => hwf x (List.mem_cons_of_mem _ hx)) hne hws
    simp only [recLines, List.flatMap_cons, List.cons_append] at ih ⊢
    rw [strictGo_cons]
    have hhash : ¬ (l0 = '#') := hh
    simp only [List.isEmpty_cons, List.head?_cons, Option.some.injEq, hhash, decide_false, Bool.or_self,
      Bool.false_eq_true, if_false, isLabel, hl0, if_true, hse, List.drop_one, List.tail_cons, (wfName_strip hr.1).1]
    rw [strictGo_seqLines (some r.1) r.2 [] _ hws]
    simp only [List.nil_append]
    rw [ih]
    simp [Except.map, expected, clean_wf hw]

theorem strictParser_recs {lc : List Char} {l0 : Char} (hl0 : lc.contains l0 = true) (hh : l0 ≠ '#')
    (recs : List (Str × List Str)) (hne : recs ≠ []) (hwf : WfRecs lc recs) :
    strictParser lc (recLines l0 recs) = .ok (expected recs) := by
  cases recs with
  | nil => exact absurd rfl hne
  | cons r recs =>
    have hr := hwf r List.mem_cons_self
    obtain ⟨hne', hws⟩ := wfLines_iff hr.2
    have ih := strictGo_recs hl0 hh recs r.1 r.2 (fun x hx => hwf x (List.mem_cons_of_mem _ hx)) hne' hws
    unfold strictParser
    simp only [recLines, List.flatMap_cons, List.cons_append] at ih ⊢
    rw [strictGo_cons]
    have hhash : ¬ (l0 = '#') := hh
    simp only [List.isEmpty_cons, List.head?_cons, Option.some.injEq, hhash, decide_false, Bool.or_self,
      Bool.false_eq_true, if_false, isLabel, hl0, if_true, List.isEmpty_nil, Bool.not_true,
      List.drop_one, List.tail_cons, (wfName_strip hr.1).1]
    rw [strictGo_seqLines (some r.1) r.2 [] _ hws]
    simp only [List.nil_append]
    rw [ih]
    simp [expected]

theorem fasterGo_recs {lc : List Char} {l0 : Char} (hl0 : lc.contains l0 = true) :
    ∀ (recs : List (Str × List Str)) (label : Str) (seq : List Str), WfRecs lc recs → seq ≠ [] →
    (∀ w ∈ seq, wfSeq lc w = true) →
    fasterGo lc (some label) seq (recLines l0 recs) = (label, seq.flatten) :: expected recs
  | [], label, seq, _, hs, hw => by
    have : seq.isEmpty = false := by cases seq <;> simp at hs ⊢
    simp [recLines, fasterGo, this, expected, clean_wf hw]
  | r :: recs, label, seq, hwf, hs, hw => by
    have hr := hwf r List.mem_cons_self
    obtain ⟨hne, hws⟩ := wfLines_iff hr.2
    have hse : seq.isEmpty = false := by cases seq <;> simp at hs ⊢
    have ih := fasterGo_recs hl0 recs r.1 r.2 (fun x hx => hwf x (List.mem_cons_of_mem _ hx)) hne hws
    simp only [recLines, List.flatMap_cons, List.cons_append] at ih ⊢
    rw [fasterGo_cons]
    simp only [List.isEmpty_cons, Bool.false_eq_true, if_false, isLabel, hl0, if_true, hse,
      List.drop_one, List.tail_cons, (wfName_strip hr.1).1]
    rw [fasterGo_seqLines (some r.1) r.2 [] _ hws]
    simp only [List.nil_append]
    rw [ih]
    simp [expected, clean_wf hw]

theorem fasterParser_recs {lc : List Char} {l0 : Char} (hl0 : lc.contains l0 = true)
    (recs : List (Str × List Str)) (hwf : WfRecs lc recs) :
    fasterParser lc (recLines l0 recs) = expected recs := by
  cases recs with
  | nil => simp [fasterParser, recLines, fasterGo, expected]
  | cons r recs =>
    have hr := hwf r List.mem_cons_self
    obtain ⟨hne', hws⟩ := wfLines_iff hr.2
    have ih := fasterGo_recs hl0 recs r.1 r.2 (fun x hx => hwf x (List.mem_cons_of_mem _ hx)) hne' hws
    unfold fasterParser
    simp only [recLines, List.flatMap_cons, List.cons_append] at ih ⊢
    rw [fasterGo_cons]
    simp only [List.isEmpty_cons, Bool.false_eq_true, if_false, isLabel, hl0, if_true, List.isEmpty_nil,
      List.drop_one, List.tail_cons, (wfName_strip hr.1).1]
    rw [fasterGo_seqLines (some r.1) r.2 [] _ hws]
    simp only [List.nil_append]
    rw [ih]
    simp [expected]

/-! ### the code's own block wrapping -/

theorem chunkGo_spec {bs : Nat} (hbs : 0 < bs) : ∀ (fuel : Nat) (s : Str), s.length ≤ fuel →
    (chunkGo bs fuel s).flatten = s ∧ (∀ w ∈ chunkGo bs fuel s, w ≠ [] ∧ w.length ≤ bs ∧ ∀ c ∈ w, c ∈ s) ∧
    (s ≠ [] → chunkGo bs fuel s ≠ [])
  | 0, s, h => by
    have : s = [] := List.length_eq_zero_iff.mp (by omega)
    subst this; simp [chunkGo]
  | fuel + 1, s, h => by
    by_cases hs : s = []
    · subst hs; simp [chunkGo]
    · have hse : s.isEmpty = false := by cases s <;> simp at hs ⊢
      have hb0 : ¬ (bs = 0) := by omega
      have hlen : 0 < s.length := List.length_pos_iff.mpr hs
      have hd : (s.drop bs).length ≤ fuel := by rw [List.length_drop]; omega
      obtain ⟨h1, h2, _⟩ := chunkGo_spec hbs fuel (s.drop bs) hd
      simp only [chunkGo, hse, hb0, Bool.false_or, decide_false, Bool.false_eq_true, if_false]
      refine ⟨by simp [h1], ?_, by simp⟩
      intro w hw
      rcases List.mem_cons.mp hw with e | e
      · subst e
        refine ⟨?_, by rw [List.length_take]; omega, fun c hc => List.mem_of_mem_take hc⟩
        intro e2
        have : (s.take bs).length = 0 := by rw [e2]; rfl
        rw [List.length_take] at this; omega
      · obtain ⟨a, b, c⟩ := h2 w e
        exact ⟨a, b, fun x hx => List.mem_of_mem_drop (c x hx)⟩

theorem chunkWrap_flatten {bs : Nat} (hbs : 0 < bs) (s : Str) : (chunkWrap bs s).flatten = s :=
  (chunkGo_spec hbs s.length s (Nat.le_refl _)).1

theorem chunkWrap_wfLines {lc : List Char} {bs : Nat} (hbs : 0 < bs) {s : Str} (h : wfSeq lc s = true) :
    wfLines lc (chunkWrap bs s) = true := by
  obtain ⟨hne, hc⟩ := wfSeq_chars h
  obtain ⟨_, h2, h3⟩ := chunkGo_spec hbs s.length s (Nat.le_refl _)
  have hne' : chunkWrap bs s ≠ [] := h3 hne
  simp only [wfLines, wfSeq, Bool.and_eq_true, Bool.not_eq_true', List.all_eq_true]
  refine ⟨by cases hcw : chunkWrap bs s <;> simp_all, ?_⟩
  intro w hw
  obtain ⟨a, _, c⟩ := h2 w hw
  exact ⟨by cases w <;> simp at a ⊢, fun x hx => hc x (c x hx)⟩

theorem joinNl_unlines : ∀ (ls : List Str), ls ≠ [] → joinNl ls ++ ['\n'] = unlines ls
  | [], h => absurd rfl h
  | [l], _ => by simp [joinNl, unlines]
  | l :: l2 :: ls, _ => by
    have ih := joinNl_unlines (l2 :: ls) (by simp)
    simp only [joinNl, unlines, List.flatMap_cons] at ih ⊢
    simp only [List.append_assoc, List.cons_append]
    rw [ih]; simp

theorem unlines_append (a b : List Str) : unlines (a ++ b) = unlines a ++ unlines b := by
  simp [unlines]

theorem unlines_cons (l : Str) (ls : List Str) : unlines (l :: ls) = l ++ '\n' :: unlines ls := by
  simp [unlines]

/-- the text written for wrapped records with label character `l0` -/
theorem unlines_recLines (l0 : Char) : ∀ (recs : List (Str × List Str)),
    unlines (recLines l0 recs) = recs.flatMap (fun r => l0 :: r.1 ++ '\n' :: unlines r.2)
  | [] => by simp [recLines, unlines]
  | r :: recs => by
    have ih := unlines_recLines l0 recs
    simp only [recLines] at ih
    simp only [recLines, List.flatMap_cons, unlines_append, unlines_cons, ih]

theorem fastaFormat_eq (recs : List (Str × List Str)) : fastaFormat recs = unlines (recLines '>' recs) := by
  have e : fastaLines recs = recLines '>' recs := rfl
  unfold fastaFormat
  simp only [e]
  by_cases h : recLines '>' recs = []
  · simp [h, joinNl, unlines]
  · have : (recLines '>' recs).isEmpty = false := by cases hh : recLines '>' recs <;> simp_all
    simp only [this, Bool.false_eq_true, if_false]
    exact joinNl_snoc_nil _ h

theorem recLines_noBreak {lc : List Char} {l0 : Char} (hl0 : printable l0 = true)
    {recs : List (Str × List Str)} (hwf : WfRecs lc recs) : NoBreak (recLines l0 recs) := by
  intro l hl c hc
  simp only [recLines, List.mem_flatMap, List.mem_cons] at hl
  obtain ⟨r, hr, hl | hl⟩ := hl
  · subst hl
    have hn := (hwf r hr).1
    simp only [wfName, Bool.and_eq_true, List.all_eq_true] at hn
    rcases List.mem_cons.mp hc with e | e
    · subst e; exact printable_not_break hl0
    · exact printable_not_break (hn.1.1.2 c e)
  · obtain ⟨_, hws⟩ := wfLines_iff (hwf r hr).2
    exact printable_not_break (seqChar_printable ((wfSeq_chars (hws l hl)).2 c hc))

/-! ### the bytes based FASTA parser -/

/-- the part of a record's text after its `>` -/
def recBody (r : Str × List Str) : Str := r.1 ++ '\n' :: unlines r.2

theorem takeWhile_nl {n : Str} (h : '\n' ∉ n) (x : Str) :
    (n ++ '\n' :: x).takeWhile (· ≠ '\n') = n ∧ (n ++ '\n' :: x).dropWhile (· ≠ '\n') = '\n' :: x := by
  induction n with
  | nil => simp
  | cons c cs ih =>
    have hc : c ≠ '\n' := fun e => h (by subst e; exact List.mem_cons_self)
    have := ih (fun hm => h (List.mem_cons_of_mem _ hm))
    simpa [hc] using this

theorem upper_id : ∀ {s : Str}, noLower s = true → upper s = s
  | [], _ => rfl
  | c :: cs, h => by
    simp only [noLower, List.all_cons, Bool.and_eq_true, Bool.not_eq_true', Bool.and_eq_false_iff,
      decide_eq_false_iff_not] at h
    have ih := upper_id (s := cs) (by simpa [noLower] using h.2)
    have hc : upperChar c = c := by
      unfold upperChar
      split
      · omega
      · rfl
    simp only [upper, List.map_cons, hc] at ih ⊢
    rw [ih]

theorem printable_not_convDel {c : Char} (h : printable c = true) (hs : c ≠ ' ') :
    (!(c = '\n' || c = '\r' || c = '\t' || c = ' ')) = true := by
  simp only [printable, Bool.and_eq_true, decide_eq_true_eq] at h
  have e1 : ('\n' : Char).toNat = 10 := by decide
  have e2 : ('\r' : Char).toNat = 13 := by decide
  have e3 : ('\t' : Char).toNat = 9 := by decide
  have h1 : c ≠ '\n' := by intro e; rw [e, e1] at h; omega
  have h2 : c ≠ '\r' := by intro e; rw [e, e2] at h; omega
  have h3 : c ≠ '\t' := by intro e; rw [e, e3] at h; omega
  simp [h1, h2, h3, hs]

theorem filter_unlines {p : Char → Bool} (hnl : p '\n' = false) : ∀ (ws : List Str),
    (∀ w ∈ ws, ∀ c ∈ w, p c = true) → (unlines ws).filter p = ws.flatten
  | [], _ => by simp [unlines]
  | w :: ws, h => by
    have ih := filter_unlines hnl ws (fun x hx => h x (List.mem_cons_of_mem _ hx))
    have hw : w.filter p = w := List.filter_eq_self.mpr (h w List.mem_cons_self)
    rw [unlines_cons, List.filter_append, hw, List.filter_cons]
    simp [hnl, ih]

theorem seqChar_ne_space {lc : List Char} {c : Char} (h : seqChar lc c = true) : c ≠ ' ' := by
  simp only [seqChar, Bool.and_eq_true, bne_iff_ne, ne_eq] at h; exact h.1.1.2

theorem convertBytes_unlines {lc : List Char} {ws : List Str} (h : ∀ w ∈ ws, wfSeq lc w = true)
    (hl : noLower ws.flatten = true) : convertBytes (unlines ws) = ws.flatten := by
  unfold convertBytes
  rw [filter_unlines (by decide) ws (fun w hw c hc =>
    printable_not_convDel (seqChar_printable ((wfSeq_chars (h w hw)).2 c hc))
      (seqChar_ne_space ((wfSeq_chars (h w hw)).2 c hc)))]
  exact upper_id hl

theorem wfName_chars {n : Str} (h : wfName n = true) : n ≠ [] ∧ ∀ c ∈ n, printable c = true := by
  simp only [wfName, Bool.and_eq_true, Bool.not_eq_true', List.all_eq_true] at h
  exact ⟨by intro e; subst e; simp at h, h.1.1.2⟩

theorem nl_not_printable : printable '\n' = false := by decide

theorem bytesRecord_body {r : Str × List Str} (hn : wfName r.1 = true) (hw : wfLines ['>'] r.2 = true)
    (hl : noLower r.2.flatten = true) : bytesRecord (recBody r) = some (r.1, r.2.flatten) := by
  have hnl : '\n' ∉ r.1 := fun hm => by
    have := (wfName_chars hn).2 _ hm
    rw [nl_not_printable] at this; exact absurd this (by simp)
  obtain ⟨h1, h2⟩ := takeWhile_nl hnl (unlines r.2)
  have hne : (recBody r).isEmpty = false := by
    unfold recBody; cases r.1 <;> simp
  have hc : (recBody r).contains '\n' = true := by
    unfold recBody; simp
  unfold bytesRecord
  simp only [hne, hc, Bool.false_eq_true, if_false, Bool.not_true]
  unfold recBody
  rw [h1, h2, (wfName_strip hn).2]
  simp only [List.drop_one, List.tail_cons]
  rw [convertBytes_unlines (wfLines_iff hw).2 hl]

/-! ### the record splitter of the bytes based parser (split at line starts only) -/

/-- no `>` at a line start inside `s` -/
def NoSplit : Bool → Str → Prop
  | _, [] => True
  | bol, c :: cs => ¬ (bol = true ∧ c = '>') ∧ NoSplit (decide (c = '\n')) cs

theorem splitLabelStart_none : ∀ (a : Str) (bol : Bool), NoSplit bol a → splitLabelStart bol a = [a]
  | [], _, _ => rfl
  | c :: cs, bol, h => by
    obtain ⟨h1, h2⟩ := h
    have ih := splitLabelStart_none cs _ h2
    have : (bol && decide (c = '>')) = false := by
      cases bol <;> simp at h1 ⊢; exact h1
    simp [splitLabelStart, this, ih, consHead]

theorem splitLabelStart_sep (rest : Str) : ∀ (a : Str) (bol : Bool), NoSplit bol a → a.getLast? = some '\n' →
    splitLabelStart bol (a ++ '>' :: rest) = a :: splitLabelStart false rest
  | [], _, _, hl => by simp at hl
  | [c], bol, h, hl => by
    simp at hl
    subst hl
    have : (bol && decide ('\n' = '>')) = false := by cases bol <;> decide
    simp [splitLabelStart, consHead]
  | c :: c2 :: cs, bol, h, hl => by
    obtain ⟨h1, h2⟩ := h
    rw [List.getLast?_cons_cons] at hl
    have ih := splitLabelStart_sep rest (c2 :: cs) _ h2 hl
    have : (bol && decide (c = '>')) = false := by
      cases bol <;> simp at h1 ⊢; exact h1
    simp only [List.cons_append] at ih ⊢
    rw [splitLabelStart]
    simp only [this, Bool.false_eq_true, if_false]
    rw [ih]; rfl

theorem noSplit_line (rest : Str) (hr : NoSplit true rest) : ∀ (l : Str) (bol : Bool), l ≠ [] →
    (∀ c ∈ l, c ≠ '\n') → (bol = true → l.head? ≠ some '>') → NoSplit bol (l ++ '\n' :: rest)
  | [], _, h, _, _ => absurd rfl h
  | [c], bol, _, hnl, hh => by
    have hc : c ≠ '\n' := hnl c List.mem_cons_self
    refine ⟨fun ⟨hb, he⟩ => hh hb (by simp [he]), ?_⟩
    simp only [hc, decide_false]
    exact ⟨by simp, by simpa using hr⟩
  | c :: c2 :: cs, bol, _, hnl, hh => by
    have hc : c ≠ '\n' := hnl c List.mem_cons_self
    refine ⟨fun ⟨hb, he⟩ => hh hb (by simp [he]), ?_⟩
    simp only [hc, decide_false]
    exact noSplit_line rest hr (c2 :: cs) false (by simp) (fun d hd => hnl d (List.mem_cons_of_mem _ hd)) (by simp)

theorem printable_ne_nl {c : Char} (h : printable c = true) : c ≠ '\n' := by
  rintro rfl; rw [nl_not_printable] at h; exact absurd h (by simp)

theorem noSplit_unlines : ∀ (ws : List Str), (∀ w ∈ ws, wfSeq ['>'] w = true) → NoSplit true (unlines ws)
  | [], _ => by simp [unlines, NoSplit]
  | w :: ws, h => by
    rw [unlines_cons]
    obtain ⟨hne, hc⟩ := wfSeq_chars (h w List.mem_cons_self)
    apply noSplit_line _ (noSplit_unlines ws (fun x hx => h x (List.mem_cons_of_mem _ hx))) w true hne
    · exact fun c hcw => printable_ne_nl (seqChar_printable (hc c hcw))
    · intro _ he
      have := seqChar_not_label (hc _ (List.mem_of_head? he))
      simp at this

theorem noSplit_body {r : Str × List Str} (hn : wfName r.1 = true) (hw : wfLines ['>'] r.2 = true) :
    NoSplit false (recBody r) := by
  unfold recBody
  exact noSplit_line _ (noSplit_unlines r.2 (wfLines_iff hw).2) r.1 false (wfName_chars hn).1
    (fun c hc => printable_ne_nl ((wfName_chars hn).2 c hc)) (by simp)

theorem unlines_last : ∀ (ws : List Str), unlines ws = [] ∨ (unlines ws).getLast? = some '\n'
  | [] => Or.inl (by simp [unlines])
  | w :: ws => by
    right
    rw [unlines_cons]
    rcases unlines_last ws with h | h
    · rw [h]; simp
    · rw [show w ++ '\n' :: unlines ws = (w ++ ['\n']) ++ unlines ws by simp]
      rw [List.getLast?_append, h]; rfl

theorem recBody_last (r : Str × List Str) : (recBody r).getLast? = some '\n' := by
  unfold recBody
  rcases unlines_last r.2 with h | h
  · rw [h]; simp
  · rw [show r.1 ++ '\n' :: unlines r.2 = (r.1 ++ ['\n']) ++ unlines r.2 by simp]
    rw [List.getLast?_append, h]; rfl

theorem splitLabelStart_bodies : ∀ (recs : List (Str × List Str)) (r : Str × List Str),
    (∀ x ∈ r :: recs, NoSplit false (recBody x)) →
    splitLabelStart false (recBody r ++ recs.flatMap (fun x => '>' :: recBody x)) = recBody r :: recs.map recBody
  | [], r, h => by simpa using splitLabelStart_none _ _ (h r List.mem_cons_self)
  | r' :: recs, r, h => by
    have ih := splitLabelStart_bodies recs r' (fun x hx => h x (List.mem_cons_of_mem _ hx))
    simp only [List.flatMap_cons, List.cons_append, List.map_cons]
    rw [splitLabelStart_sep _ _ _ (h r List.mem_cons_self) (recBody_last r), ih]

theorem filterMap_pieces (ps : List Str) : (([] : Str) :: ps).drop 1 = ps := rfl

/-- the bytes based parser returns every well-formed label verbatim — `>` inside a label included -/
theorem fastaBytes_recs (recs : List (Str × List Str)) (hwf : WfRecs ['>'] recs)
    (hlow : ∀ r ∈ recs, noLower r.2.flatten = true) :
    fastaBytes (unlines (recLines '>' recs)) = expected recs := by
  rw [unlines_recLines]
  cases recs with
  | nil => simp [fastaBytes, splitLabelStart, bytesRecord, expected]
  | cons r rs =>
    have hb : ∀ x ∈ r :: rs, NoSplit false (recBody x) := fun x hx => noSplit_body (hwf x hx).1 (hwf x hx).2
    have := splitLabelStart_bodies rs r hb
    unfold recBody at this
    unfold fastaBytes
    simp only [List.flatMap_cons, List.cons_append, splitLabelStart, Bool.true_and, decide_true, if_true]
    rw [this, filterMap_pieces]
    have hall : ∀ (xs : List (Str × List Str)), (∀ x ∈ xs, x ∈ r :: rs) →
        (xs.map recBody).filterMap bytesRecord = expected xs := by
      intro xs
      induction xs with
      | nil => intro _; simp [expected]
      | cons x xs ih =>
        intro hx
        have hx1 := hx x List.mem_cons_self
        have := bytesRecord_body (hwf x hx1).1 (hwf x hx1).2 (hlow x hx1)
        simp only [List.map_cons, List.filterMap_cons, this, expected]
        rw [ih (fun y hy => hx y (List.mem_cons_of_mem _ hy))]
        simp [expected]
    have h2 := hall (r :: rs) (fun x hx => hx)
    simp only [List.map_cons, List.filterMap_cons] at h2
    exact h2

/-! ### GDE -/

theorem wrapNl_eq {lc : List Char} {bs : Nat} (hbs : 0 < bs) {s : Str} (h : wfSeq lc s = true) :
    wrapNl bs s = unlines (chunkWrap bs s) := by
  unfold wrapNl
  exact joinNl_unlines _ ((chunkGo_spec hbs s.length s (Nat.le_refl _)).2.2 (wfSeq_chars h).1)

/-- the records with their sequences cut into blocks -/
def blocked (bs : Nat) (recs : List Rec) : List (Str × List Str) := recs.map (fun r => (r.1, chunkWrap bs r.2))

theorem gdeFormat_eq {lc : List Char} {bs : Nat} (hbs : 0 < bs) : ∀ (recs : List Rec),
    (∀ r ∈ recs, wfSeq lc r.2 = true) → gdeFormat bs recs = unlines (recLines '%' (blocked bs recs))
  | [], _ => by simp [gdeFormat, blocked, recLines, unlines]
  | r :: recs, h => by
    have ih := gdeFormat_eq hbs recs (fun x hx => h x (List.mem_cons_of_mem _ hx))
    rw [unlines_recLines] at ih ⊢
    simp only [gdeFormat, blocked, List.map_cons, List.flatMap_cons] at ih ⊢
    rw [ih, wrapNl_eq hbs (h r List.mem_cons_self)]

theorem blocked_wf {lc : List Char} {bs : Nat} (hbs : 0 < bs) {recs : List Rec}
    (hwf : ∀ r ∈ recs, wfName r.1 = true ∧ wfSeq lc r.2 = true) : WfRecs lc (blocked bs recs) := by
  intro r hr
  obtain ⟨x, hx, rfl⟩ := List.mem_map.mp hr
  exact ⟨(hwf x hx).1, chunkWrap_wfLines hbs (hwf x hx).2⟩

theorem expected_blocked {bs : Nat} (hbs : 0 < bs) (recs : List Rec) : expected (blocked bs recs) = recs := by
  unfold expected blocked
  rw [List.map_map]
  conv => rhs; rw [← List.map_id recs]
  apply List.map_congr_left
  intro r _
  simp [chunkWrap_flatten hbs]

/-! ### decimal numbers and the header line -/

theorem revDigits_lt : ∀ (f n : Nat), ∀ d ∈ revDigits f n, d < 10
  | 0, _, d, h => by simp [revDigits] at h
  | f + 1, n, d, h => by
    simp only [revDigits] at h
    split at h
    · simp at h; omega
    · rcases List.mem_cons.mp h with e | e
      · omega
      · exact revDigits_lt f _ d e

theorem valRev_revDigits : ∀ (f n : Nat), n < f → valRev (revDigits f n) = n
  | 0, _, h => by omega
  | f + 1, n, h => by
    simp only [revDigits]
    split
    · simp [valRev]
    · simp only [valRev]
      rw [valRev_revDigits f (n / 10) (by omega)]
      omega

theorem revDigits_ne_nil (f n : Nat) : revDigits (f + 1) n ≠ [] := by
  simp only [revDigits]; split <;> simp

theorem digit_facts : ∀ d, d < 10 → digitVal (digitChar d) = d ∧ isDigit (digitChar d) = true ∧
    printable (digitChar d) = true ∧ digitChar d ≠ ' ' ∧ digitChar d ≠ '-' ∧ digitChar d ≠ '+' := by
  decide

theorem natDigits_chars (n : Nat) : ∀ c ∈ natDigits n, isDigit c = true ∧ printable c = true ∧ c ≠ ' ' ∧ c ≠ '-' ∧ c ≠ '+' := by
  intro c hc
  simp only [natDigits, List.mem_map, List.mem_reverse] at hc
  obtain ⟨d, hd, rfl⟩ := hc
  have := digit_facts d (revDigits_lt _ _ d hd)
  exact ⟨this.2.1, this.2.2.1, this.2.2.2.1, this.2.2.2.2.1, this.2.2.2.2.2⟩

theorem natDigits_ne_nil (n : Nat) : natDigits n ≠ [] := by
  simp [natDigits, revDigits_ne_nil]

theorem pyInt_natDigits (n : Nat) : pyInt (natDigits n) = .ok (n : Int) := by
  have hch := natDigits_chars n
  have hne := natDigits_ne_nil n
  have hval : valRev ((natDigits n).reverse.map digitVal) = n := by
    simp only [natDigits]
    rw [← List.map_reverse, List.reverse_reverse, List.map_map]
    have : (revDigits (n + 1) n).map (digitVal ∘ digitChar) = revDigits (n + 1) n := by
      conv => rhs; rw [← List.map_id (revDigits (n + 1) n)]
      apply List.map_congr_left
      intro d hd
      exact (digit_facts d (revDigits_lt _ _ d hd)).1
    rw [this, valRev_revDigits _ _ (by omega)]
  have hall : (natDigits n).all isDigit = true := by
    simp only [List.all_eq_true]; exact fun c hc => (hch c hc).1
  have hemp : (natDigits n).isEmpty = false := by cases h : natDigits n <;> simp_all
  have hss : signSplit (natDigits n) = (false, natDigits n) := by
    cases h : natDigits n with
    | nil => exact absurd h hne
    | cons c r =>
      have hc := hch c (by rw [h]; exact List.mem_cons_self)
      simp [signSplit, hc.2.2.2.1, hc.2.2.2.2]
  unfold pyInt
  rw [List.map_reverse] at hval
  simp [hss, hall, hemp, hval]

theorem splitWs_cons2 (c d : Char) (cs : Str) : splitWs (c :: d :: cs) =
    if isSpaceStr c then splitWs (d :: cs)
    else if isSpaceStr d then [c] :: splitWs (d :: cs) else consHead c (splitWs (d :: cs)) := rfl

theorem splitWs_word : ∀ (w : Str), w ≠ [] → (∀ c ∈ w, isSpaceStr c = false) → splitWs w = [w]
  | [], h, _ => absurd rfl h
  | [c], _, hs => by simp [splitWs, hs c List.mem_cons_self]
  | c :: c2 :: cs, _, hs => by
    have ih := splitWs_word (c2 :: cs) (by simp) (fun d hd => hs d (List.mem_cons_of_mem _ hd))
    have h1 := hs c List.mem_cons_self
    have h2 := hs c2 (by simp)
    rw [splitWs_cons2]
    simp only [h1, h2, Bool.false_eq_true, if_false, ih, consHead]

theorem splitWs_word_sp (rest : Str) : ∀ (w : Str), w ≠ [] → (∀ c ∈ w, isSpaceStr c = false) →
    splitWs (w ++ ' ' :: rest) = w :: splitWs rest
  | [], h, _ => absurd rfl h
  | [c], _, hs => by
    have hsp : isSpaceStr ' ' = true := by decide
    simp [splitWs, hs c List.mem_cons_self, hsp]
  | c :: c2 :: cs, _, hs => by
    have ih := splitWs_word_sp rest (c2 :: cs) (by simp) (fun d hd => hs d (List.mem_cons_of_mem _ hd))
    have h1 := hs c List.mem_cons_self
    have h2 := hs c2 (by simp)
    simp only [List.cons_append] at ih ⊢
    rw [splitWs_cons2]
    simp only [h1, h2, Bool.false_eq_true, if_false, ih, consHead]

theorem natDigits_noSpace (n : Nat) : ∀ c ∈ natDigits n, isSpaceStr c = false := by
  intro c hc
  obtain ⟨_, hp, hs, _⟩ := natDigits_chars n c hc
  rw [printable_space hp]; simpa using hs

theorem splitWs_header (a b : Nat) :
    splitWs (natDigits a ++ ' ' :: ' ' :: natDigits b) = [natDigits a, natDigits b] := by
  rw [splitWs_word_sp _ _ (natDigits_ne_nil a) (natDigits_noSpace a)]
  have hsp : isSpaceStr ' ' = true := by decide
  cases hb : natDigits b with
  | nil => exact absurd hb (natDigits_ne_nil b)
  | cons c cs =>
  rw [splitWs_cons2]
  simp only [hsp, if_true]
  rw [← hb, splitWs_word _ (natDigits_ne_nil b) (natDigits_noSpace b)]

/-! ### PAML -/

/-- name line followed by the block lines, for every record -/
def plainLines (recs : List (Str × List Str)) : List Str := recs.flatMap (fun r => r.1 :: r.2)

theorem pamlGo_cons (ns sl : Int) (name : Option Str) (cur : List Str) (len n : Nat) (line : Str) (rest : List Str) :
    pamlGo ns sl name cur len n (line :: rest) =
    (let line := strip line
     if line.isEmpty then pamlGo ns sl name cur len n rest
     else match name with
       | none => pamlGo ns sl (some line) cur len n rest
       | some nm =>
         let len' := len + line.length
         let cur' := cur ++ [line]
         if (len' : Int) = sl then
           (pamlGo ns sl none [] 0 (n + 1) rest).map (fun rs => (nm, upper cur'.flatten) :: rs)
         else pamlGo ns sl (some nm) cur' len' n rest) := rfl

theorem pamlGo_blocks {lc : List Char} (ns : Int) (L : Nat) (nm : Str) (rest : List Str) :
    ∀ (ws cur : List Str) (len n : Nat), (∀ w ∈ ws, wfSeq lc w = true) → ws ≠ [] → len + ws.flatten.length = L →
    pamlGo ns L (some nm) cur len n (ws ++ rest) =
      (pamlGo ns L none [] 0 (n + 1) rest).map (fun rs => (nm, upper (cur ++ ws).flatten) :: rs)
  | [], _, _, _, _, h, _ => absurd rfl h
  | w :: ws, cur, len, n, hw, _, hL => by
    have hww := hw w List.mem_cons_self
    obtain ⟨hne, _⟩ := wfSeq_chars hww
    have hemp : w.isEmpty = false := by cases w <;> simp at hne ⊢
    simp only [List.cons_append]
    rw [pamlGo_cons]
    simp only [wfSeq_strip hww, hemp, Bool.false_eq_true, if_false]
    by_cases hws : ws = []
    · subst hws
      simp only [List.flatten_cons, List.flatten_nil, List.append_nil] at hL
      have : ((len + w.length : Nat) : Int) = (L : Int) := by rw [hL]
      simp [this]
    · have hpos : 0 < ws.flatten.length := by
        cases ws with
        | nil => exact absurd rfl hws
        | cons w2 ws2 =>
          have := (wfSeq_chars (hw w2 (by simp))).1
          have : 0 < w2.length := List.length_pos_iff.mpr this
          simp; omega
      simp only [List.flatten_cons, List.length_append] at hL
      have hneq : ¬ (((len + w.length : Nat) : Int) = (L : Int)) := by
        intro e; have := Int.ofNat.inj e; omega
      simp only [hneq, if_false]
      rw [pamlGo_blocks ns L nm rest ws (cur ++ [w]) (len + w.length) n
        (fun x hx => hw x (List.mem_cons_of_mem _ hx)) hws (by omega)]
      simp

theorem pamlGo_recs {lc : List Char} (L : Nat) : ∀ (recs : List (Str × List Str)) (n : Nat) (ns : Int),
    WfRecs lc recs → (∀ r ∈ recs, r.2.flatten.length = L) → ns = ((n + recs.length : Nat) : Int) →
    pamlGo ns L none [] 0 n (plainLines recs) = .ok (recs.map (fun r => (r.1, upper r.2.flatten)))
  | [], n, ns, _, _, hns => by
    simp only [List.length_nil, Nat.add_zero] at hns
    simp [plainLines, pamlGo, hns]
  | r :: recs, n, ns, hwf, hlen, hns => by
    have hr := hwf r List.mem_cons_self
    obtain ⟨hne, hws⟩ := wfLines_iff hr.2
    have hnm : r.1.isEmpty = false := by
      have := (wfName_chars hr.1).1
      cases h : r.1 <;> simp_all
    have ih := pamlGo_recs L recs (n + 1) ns (fun x hx => hwf x (List.mem_cons_of_mem _ hx))
      (fun x hx => hlen x (List.mem_cons_of_mem _ hx)) (by rw [hns]; simp; omega)
    simp only [plainLines, List.flatMap_cons, List.cons_append] at ih ⊢
    rw [pamlGo_cons]
    simp only [(wfName_strip hr.1).1, hnm, Bool.false_eq_true, if_false]
    rw [pamlGo_blocks ns L r.1 _ r.2 [] 0 n hws hne (by simpa using hlen r List.mem_cons_self), ih]
    simp [Except.map]

theorem unlines_plainLines : ∀ (recs : List (Str × List Str)),
    unlines (plainLines recs) = recs.flatMap (fun r => r.1 ++ '\n' :: unlines r.2)
  | [] => by simp [plainLines, unlines]
  | r :: recs => by
    have ih := unlines_plainLines recs
    simp only [plainLines] at ih
    simp only [plainLines, List.flatMap_cons, unlines_append, unlines_cons, ih]

theorem pamlBody_eq {lc : List Char} {bs : Nat} (hbs : 0 < bs) : ∀ (recs : List Rec),
    (∀ r ∈ recs, wfSeq lc r.2 = true) →
    recs.flatMap (fun r => r.1 ++ '\n' :: wrapNl bs r.2) = unlines (plainLines (blocked bs recs))
  | [], _ => by simp [blocked, plainLines, unlines]
  | r :: recs, h => by
    have ih := pamlBody_eq hbs recs (fun x hx => h x (List.mem_cons_of_mem _ hx))
    rw [unlines_plainLines] at ih ⊢
    simp only [blocked, List.map_cons, List.flatMap_cons] at ih ⊢
    rw [ih, wrapNl_eq hbs (h r List.mem_cons_self)]

theorem plainLines_noBreak {lc : List Char} {recs : List (Str × List Str)} (hwf : WfRecs lc recs) :
    NoBreak (plainLines recs) := by
  intro l hl c hc
  simp only [plainLines, List.mem_flatMap, List.mem_cons] at hl
  obtain ⟨r, hr, hl | hl⟩ := hl
  · subst hl
    exact printable_not_break ((wfName_chars (hwf r hr).1).2 c hc)
  · obtain ⟨_, hws⟩ := wfLines_iff (hwf r hr).2
    exact printable_not_break (seqChar_printable ((wfSeq_chars (hws l hl)).2 c hc))

theorem header_noBreak (a b : Nat) : ∀ c ∈ natDigits a ++ ' ' :: ' ' :: natDigits b, isBreak c = false := by
  intro c hc
  simp only [List.mem_append, List.mem_cons] at hc
  rcases hc with h | h | h | h
  · exact printable_not_break (natDigits_chars a c h).2.1
  · subst h; decide
  · subst h; decide
  · exact printable_not_break (natDigits_chars b c h).2.1

theorem noBreak_cons {l : Str} {ls : List Str} (h1 : ∀ c ∈ l, isBreak c = false) (h2 : NoBreak ls) : NoBreak (l :: ls) := by
  intro x hx
  rcases List.mem_cons.mp hx with e | e
  · subst e; exact h1
  · exact h2 x e

/-- PAML: parse (write recs) = recs -/
theorem paml_roundtrip' {bs : Nat} (hbs : 0 < bs) (recs : List Rec) (hne : recs ≠ []) (L : Nat)
    (hwf : ∀ r ∈ recs, wfName r.1 = true ∧ wfSeq [] r.2 = true ∧ noLower r.2 = true ∧ r.2.length = L) :
    ∃ text, pamlFormat bs recs = .ok text ∧ pamlParse text = .ok recs := by
  cases hrecs : recs with
  | nil => exact absurd hrecs hne
  | cons r0 rest =>
    rw [← hrecs]
    have hL0 : r0.2.length = L := (hwf r0 (by rw [hrecs]; exact List.mem_cons_self)).2.2.2
    have hhead : headerLine recs = some (natDigits recs.length ++ ' ' :: ' ' :: natDigits L) := by
      rw [hrecs]; simp [headerLine, hL0]
    have hw : WfRecs [] (blocked bs recs) := blocked_wf hbs (fun r hr => ⟨(hwf r hr).1, (hwf r hr).2.1⟩)
    refine ⟨_, by unfold pamlFormat; rw [hhead], ?_⟩
    rw [pamlBody_eq hbs recs (fun r hr => (hwf r hr).2.1), ← unlines_cons]
    unfold pamlParse
    rw [pySplitlines_unlines (noBreak_cons (header_noBreak _ _) (plainLines_noBreak hw))]
    unfold pamlParser
    simp only [splitWs_header, pyInt_natDigits, bind, Except.bind]
    rw [pamlGo_recs L (blocked bs recs) 0 _ hw ?_ (by simp [blocked])]
    · congr 1
      unfold blocked
      rw [List.map_map]
      conv => rhs; rw [← List.map_id recs]
      apply List.map_congr_left
      intro r hr
      simp [chunkWrap_flatten hbs, upper_id (hwf r hr).2.2.1]
    · intro r hr
      obtain ⟨x, hx, rfl⟩ := List.mem_map.mp hr
      simp [chunkWrap_flatten hbs, (hwf x hx).2.2.2]

/-! ### PHYLIP -/

def sp10 : Str := List.replicate 10 ' '

/-- the lines `PhylipFormatter.format` writes for one sequence whose blocks are `ws` -/
def phyRecLines (name : Str) (ws : List Str) : List Str :=
  match ws with
  | [] => []
  | c0 :: cs => (pad10 (name.take 9) ++ c0) :: cs.map (sp10 ++ ·)

theorem phylipBlocks_cons (bs L : Nat) (name seq : Str) (fuel block : Nat) :
    phylipBlocks bs L name seq (fuel + 1) block =
    if block < L ∧ 0 < bs then
      ((if block = 0 then (if name.length > 9 then pad10 (name.take 9) else pad10 name) else List.replicate 10 ' ') ++
        (seq.drop block).take ((if block + bs > L then L else block + bs) - block)) ::
        phylipBlocks bs L name seq fuel (block + bs)
    else [] := rfl

theorem chunkGo_cons (bs fuel : Nat) (s : Str) : chunkGo bs (fuel + 1) s =
    if s.isEmpty || bs = 0 then [] else s.take bs :: chunkGo bs fuel (s.drop bs) := rfl

theorem take_block {seq : Str} {L bs block : Nat} (hL : seq.length = L) (hb : block < L) :
    (seq.drop block).take ((if block + bs > L then L else block + bs) - block) = (seq.drop block).take bs := by
  split
  · rw [List.take_of_length_le (by rw [List.length_drop]; omega), List.take_of_length_le (by rw [List.length_drop]; omega)]
  · congr 1; omega

theorem phylipBlocks_later {bs L : Nat} (hbs : 0 < bs) (name : Str) {seq : Str} (hL : seq.length = L) :
    ∀ (fuel block : Nat), 0 < block →
    phylipBlocks bs L name seq fuel block = (chunkGo bs fuel (seq.drop block)).map (sp10 ++ ·)
  | 0, _, _ => by simp [phylipBlocks, chunkGo]
  | fuel + 1, block, hpos => by
    rw [phylipBlocks_cons, chunkGo_cons]
    have hb0 : ¬ (bs = 0) := by omega
    have hne : ¬ (block = 0) := by omega
    by_cases hb : block < L
    · have hemp : (seq.drop block).isEmpty = false := by
        have : 0 < (seq.drop block).length := by rw [List.length_drop]; omega
        cases h : seq.drop block <;> simp_all
      simp only [hb, hbs, and_self, if_true, hne, if_false, hemp, hb0, Bool.false_or, decide_false, Bool.false_eq_true]
      rw [take_block hL hb, phylipBlocks_later hbs name hL fuel (block + bs) (by omega), List.drop_drop]
      simp [sp10]
    · have hemp : (seq.drop block).isEmpty = true := by
        have : (seq.drop block).length = 0 := by rw [List.length_drop]; omega
        cases h : seq.drop block <;> simp_all
      simp [hb, hemp]

theorem pad10_take9 (name : Str) : (if name.length > 9 then pad10 (name.take 9) else pad10 name) = pad10 (name.take 9) := by
  split
  · rfl
  · rw [List.take_of_length_le (by omega)]

theorem phylipBlocks_eq {bs L : Nat} (hbs : 0 < bs) (name : Str) {seq : Str} (hL : seq.length = L) :
    phylipBlocks bs L name seq (L + 1) 0 = phyRecLines name (chunkWrap bs seq) := by
  rw [phylipBlocks_cons]
  unfold chunkWrap
  by_cases h0 : 0 < L
  · have hemp : seq.isEmpty = false := by cases seq <;> simp_all
    have hb0 : ¬ (bs = 0) := by omega
    obtain ⟨k, hk⟩ : ∃ k, seq.length = k + 1 := ⟨L - 1, by omega⟩
    rw [hk, chunkGo_cons]
    simp only [h0, hbs, and_self, if_true, pad10_take9, hemp, hb0, Bool.false_or, decide_false, Bool.false_eq_true, if_false]
    have := take_block (bs := bs) hL h0
    simp only [List.drop_zero, Nat.zero_add, Nat.sub_zero] at this
    simp only [Nat.zero_add, Nat.sub_zero, List.drop_zero]
    rw [this, phylipBlocks_later hbs name hL L bs hbs]
    have hkL : k = L - 1 := by omega
    subst hkL
    have : L - 1 + 1 = L := by omega
    simp only [phyRecLines]
    congr 2
    -- fuel L vs L - 1: both are enough
    have key : ∀ (f1 f2 : Nat) (s : Str), s.length ≤ f1 → s.length ≤ f2 → chunkGo bs f1 s = chunkGo bs f2 s := by
      intro f1
      induction f1 with
      | zero =>
        intro f2 s h1 _
        have : s = [] := List.length_eq_zero_iff.mp (by omega)
        subst this
        cases f2 <;> simp [chunkGo]
      | succ f1 ih =>
        intro f2 s h1 h2
        cases f2 with
        | zero =>
          have : s = [] := List.length_eq_zero_iff.mp (by omega)
          subst this; simp [chunkGo]
        | succ f2 =>
          rw [chunkGo_cons, chunkGo_cons]
          by_cases hs : s = []
          · subst hs; simp
          · have hlen : 0 < s.length := List.length_pos_iff.mpr hs
            rw [ih f2 (s.drop bs) (by rw [List.length_drop]; omega) (by rw [List.length_drop]; omega)]
    exact key _ _ _ (by rw [List.length_drop]; omega) (by rw [List.length_drop]; omega)
  · have : seq = [] := List.length_eq_zero_iff.mp (by omega)
    subst this
    have : ¬ (0 < L) := h0
    simp [this, chunkGo, phyRecLines]

theorem phySeqGo_cons (cache : Option (Str × List Str)) (line : Str) (rest : List Str) :
    phySeqGo cache (line :: rest) =
    match splitLine line 10 with
    | none => phySeqGo cache rest
    | some (cid, cseq) =>
      if cid.isEmpty && cseq.isEmpty then phySeqGo cache rest
      else if !cid.isEmpty then
        (phySeqGo (some (cid, [cseq])) rest).map (fun rs =>
          (match cache with
            | none => []
            | some c => [(c.1, c.2.flatten)]) ++ rs)
      else match cache with
        | none => .error .attributeError
        | some c => phySeqGo (some (c.1, c.2 ++ [cseq])) rest := rfl

theorem dropWhile_congr_mem {p q : Char → Bool} : ∀ (l : Str), (∀ c ∈ l, p c = q c) → l.dropWhile p = l.dropWhile q
  | [], _ => rfl
  | c :: cs, h => by
    have hc := h c List.mem_cons_self
    have ih := dropWhile_congr_mem cs (fun d hd => h d (List.mem_cons_of_mem _ hd))
    simp [List.dropWhile, hc, ih]

theorem dropWhile_spaces (k : Nat) (t : Str) : (List.replicate k ' ' ++ t).dropWhile isSpaceStr = t.dropWhile isSpaceStr := by
  induction k with
  | zero => simp
  | succ k ih =>
    have : isSpaceStr ' ' = true := by decide
    simp [List.replicate_succ, this, ih]

/-- what the parser reads back from the blank padded name column -/
theorem strip_pad {x : Str} (hx : x ≠ []) (hp : ∀ c ∈ x, printable c = true) (hh : x.head? ≠ some ' ') (k : Nat) :
    strip (x ++ List.replicate k ' ') = (x.reverse.dropWhile (· = ' ')).reverse := by
  unfold strip stripBy rstripBy
  cases x with
  | nil => exact absurd rfl hx
  | cons c cs =>
    have hc : isSpaceStr c = false := by
      rw [printable_space (hp c List.mem_cons_self)]
      have : c ≠ ' ' := by rintro rfl; exact hh rfl
      simpa using this
    have h1 : (c :: cs ++ List.replicate k ' ').dropWhile isSpaceStr = c :: cs ++ List.replicate k ' ' := by
      simp [hc]
    rw [h1, List.reverse_append, List.reverse_replicate, dropWhile_spaces]
    congr 1
    apply dropWhile_congr_mem
    intro d hd
    rw [printable_space (hp d (List.mem_reverse.mp hd))]
    rfl

theorem pad10_length {x : Str} (h : x.length ≤ 10) : (pad10 x).length = 10 := by
  simp [pad10]; omega

theorem wfSeq_noSpaceChar {lc : List Char} {w : Str} (h : wfSeq lc w = true) : w.filter (· ≠ ' ') = w := by
  rw [List.filter_eq_self]
  intro c hc
  simpa using seqChar_ne_space ((wfSeq_chars h).2 c hc)

theorem not_blank_of_mem {l : Str} {c : Char} (hc : c ∈ l) (hs : isSpaceStr c = false) : isBlank l = false := by
  unfold isBlank
  cases h : l.all isSpaceStr with
  | false => rfl
  | true =>
    rw [List.all_eq_true] at h
    rw [h c hc] at hs; exact absurd hs (by simp)

/-- the first line of a record: name column + first block -/
theorem splitLine_first {lc : List Char} {name c0 : Str} (hn : wfName name = true) (hc : wfSeq lc c0 = true) :
    splitLine (pad10 (name.take 9) ++ c0) 10 = some (truncName name, c0) := by
  have hlen : (pad10 (name.take 9)).length = 10 := pad10_length (by rw [List.length_take]; omega)
  obtain ⟨hne, hcc⟩ := wfSeq_chars hc
  obtain ⟨c, hcm⟩ := List.exists_mem_of_ne_nil _ hne
  have hnb : isBlank (pad10 (name.take 9) ++ c0) = false :=
    not_blank_of_mem (List.mem_append_right _ hcm) (seqChar_not_space (hcc c hcm))
  have hemp : (pad10 (name.take 9) ++ c0).isEmpty = false := by
    cases h : pad10 (name.take 9) ++ c0 with
    | nil => rw [h] at hnb; simp [isBlank] at hnb
    | cons _ _ => rfl
  obtain ⟨hnne, hnp⟩ := wfName_chars hn
  have hhead : (name.take 9).head? ≠ some ' ' := by
    simp only [wfName, Bool.and_eq_true, bne_iff_ne, ne_eq] at hn
    cases name with
    | nil => simp
    | cons a as => simpa using hn.1.2
  unfold splitLine
  simp only [hemp, hnb, Bool.or_self, Bool.false_eq_true, if_false]
  rw [List.take_left' hlen, List.drop_left' hlen, wfSeq_strip hc, wfSeq_noSpaceChar hc]
  unfold pad10
  have hx : name.take 9 ≠ [] := by
    cases name with
    | nil => exact absurd rfl hnne
    | cons a as => simp
  rw [strip_pad hx (fun c hc => hnp c (List.mem_of_mem_take hc)) hhead]
  rfl

/-- a continuation line: ten blanks + block -/
theorem splitLine_cont {lc : List Char} {c : Str} (hc : wfSeq lc c = true) :
    splitLine (sp10 ++ c) 10 = some ([], c) := by
  have hlen : sp10.length = 10 := by simp [sp10]
  obtain ⟨hne, hcc⟩ := wfSeq_chars hc
  obtain ⟨d, hdm⟩ := List.exists_mem_of_ne_nil _ hne
  have hnb : isBlank (sp10 ++ c) = false :=
    not_blank_of_mem (List.mem_append_right _ hdm) (seqChar_not_space (hcc d hdm))
  have hemp : (sp10 ++ c).isEmpty = false := by simp [sp10]
  unfold splitLine
  simp only [hemp, hnb, Bool.or_self, Bool.false_eq_true, if_false]
  rw [List.take_left' hlen, List.drop_left' hlen, wfSeq_strip hc, wfSeq_noSpaceChar hc]
  have : strip sp10 = [] := by decide
  rw [this]

theorem truncName_ne_nil {name : Str} (hn : wfName name = true) : (truncName name).isEmpty = false := by
  simp only [wfName, Bool.and_eq_true, bne_iff_ne, ne_eq, Bool.not_eq_true'] at hn
  cases name with
  | nil => simp at hn
  | cons a as =>
    have ha : a ≠ ' ' := by simpa using hn.1.2
    unfold truncName
    simp only [List.take_succ_cons, List.reverse_cons]
    cases h : ((List.take 8 as).reverse ++ [a]).dropWhile (· = ' ') with
    | nil =>
      have := List.dropWhile_append (p := (· = ' ')) (xs := (List.take 8 as).reverse) (ys := [a])
      rw [h] at this
      split at this <;> simp [List.dropWhile, ha] at this
    | cons x xs => simp

theorem phySeqGo_conts {lc : List Char} (rest : List Str) : ∀ (cs : List Str) (cid : Str) (ps : List Str),
    (∀ c ∈ cs, wfSeq lc c = true) →
    phySeqGo (some (cid, ps)) (cs.map (sp10 ++ ·) ++ rest) = phySeqGo (some (cid, ps ++ cs)) rest
  | [], _, _, _ => by simp
  | c :: cs, cid, ps, h => by
    have hc := h c List.mem_cons_self
    have hce : c.isEmpty = false := by
      have := (wfSeq_chars hc).1
      cases c <;> simp_all
    simp only [List.map_cons, List.cons_append]
    rw [phySeqGo_cons, splitLine_cont hc]
    simp only [List.isEmpty_nil, hce, Bool.and_false, Bool.false_eq_true, if_false, Bool.not_true]
    rw [phySeqGo_conts rest cs cid (ps ++ [c]) (fun x hx => h x (List.mem_cons_of_mem _ hx))]
    simp

def cacheOut : Option (Str × List Str) → List Rec
  | none => []
  | some c => [(c.1, c.2.flatten)]

theorem phySeqGo_recs {lc : List Char} : ∀ (recs : List (Str × List Str)) (cache : Option (Str × List Str)),
    WfRecs lc recs →
    phySeqGo cache (recs.flatMap (fun r => phyRecLines r.1 r.2)) =
      .ok (cacheOut cache ++ recs.map (fun r => (truncName r.1, r.2.flatten)))
  | [], cache, _ => by cases cache <;> simp [phySeqGo, cacheOut]
  | r :: recs, cache, hwf => by
    have hr := hwf r List.mem_cons_self
    obtain ⟨hne, hws⟩ := wfLines_iff hr.2
    cases hr2 : r.2 with
    | nil => exact absurd hr2 hne
    | cons c0 cs =>
      rw [hr2] at hws
      have hc0 := hws c0 List.mem_cons_self
      have hce : c0.isEmpty = false := by
        have := (wfSeq_chars hc0).1
        cases c0 <;> simp_all
      have e : phyRecLines r.1 r.2 = (pad10 (r.1.take 9) ++ c0) :: cs.map (sp10 ++ ·) := by rw [hr2]; rfl
      rw [List.flatMap_cons, e, List.cons_append]
      rw [phySeqGo_cons, splitLine_first hr.1 hc0]
      simp only [truncName_ne_nil hr.1, hce, Bool.and_self, Bool.false_eq_true, if_false, Bool.not_false, if_true]
      rw [phySeqGo_conts _ cs _ _ (fun x hx => hws x (List.mem_cons_of_mem _ hx)),
        phySeqGo_recs recs _ (fun x hx => hwf x (List.mem_cons_of_mem _ hx))]
      cases cache <;> simp [Except.map, cacheOut, hr2]

theorem phyLines_eq {bs L : Nat} (hbs : 0 < bs) : ∀ (recs : List Rec), (∀ r ∈ recs, r.2.length = L) →
    recs.flatMap (fun r => phylipBlocks bs L r.1 r.2 (L + 1) 0) =
      (blocked bs recs).flatMap (fun r => phyRecLines r.1 r.2)
  | [], _ => by simp [blocked]
  | r :: recs, h => by
    have ih := phyLines_eq hbs recs (fun x hx => h x (List.mem_cons_of_mem _ hx))
    simp only [blocked, List.map_cons, List.flatMap_cons] at ih ⊢
    rw [ih, phylipBlocks_eq hbs r.1 (h r List.mem_cons_self)]

theorem phyLines_noBreak {lc : List Char} {recs : List (Str × List Str)} (hwf : WfRecs lc recs) :
    NoBreak (recs.flatMap (fun r => phyRecLines r.1 r.2)) := by
  intro l hl c hc
  simp only [List.mem_flatMap] at hl
  obtain ⟨r, hr, hl⟩ := hl
  obtain ⟨_, hws⟩ := wfLines_iff (hwf r hr).2
  have hsp : isBreak ' ' = false := by decide
  cases hr2 : r.2 with
  | nil => rw [hr2] at hl; simp [phyRecLines] at hl
  | cons c0 cs =>
    rw [hr2] at hl hws
    simp only [phyRecLines, List.mem_cons, List.mem_map] at hl
    rcases hl with e | ⟨x, hx, e⟩
    · subst e
      simp only [pad10, List.mem_append, List.mem_replicate] at hc
      rcases hc with (h | h) | h
      · exact printable_not_break ((wfName_chars (hwf r hr).1).2 c (List.mem_of_mem_take h))
      · rw [h.2]; exact hsp
      · exact printable_not_break (seqChar_printable ((wfSeq_chars (hws c0 List.mem_cons_self)).2 c h))
    · subst e
      simp only [sp10, List.mem_append, List.mem_replicate] at hc
      rcases hc with h | h
      · rw [h.2]; exact hsp
      · exact printable_not_break (seqChar_printable ((wfSeq_chars (hws x (List.mem_cons_of_mem _ hx))).2 c h))

theorem truncName_short {n : Str} (hn : wfName n = true) (hl : n.length ≤ 9) : truncName n = n := by
  simp only [wfName, Bool.and_eq_true, bne_iff_ne, ne_eq] at hn
  unfold truncName
  rw [List.take_of_length_le hl]
  rw [dropWhile_id_of_head (p := (· = ' ')), List.reverse_reverse]
  intro c hc
  rw [List.head?_reverse] at hc
  have : c ≠ ' ' := by rintro rfl; exact hn.2 hc
  simpa using this

/-- PHYLIP: parse (write recs) = recs with names truncated as documented -/
theorem phylip_roundtrip' {bs : Nat} (hbs : 0 < bs) (recs : List Rec) (hne : recs ≠ []) (L : Nat)
    (hwf : ∀ r ∈ recs, wfName r.1 = true ∧ wfSeq [] r.2 = true ∧ r.2.length = L) :
    ∃ text, phylipFormat bs recs = .ok text ∧
      phylipParse text = .ok (recs.map (fun r => (truncName r.1, r.2))) := by
  cases hrecs : recs with
  | nil => exact absurd hrecs hne
  | cons r0 rest =>
    rw [← hrecs]
    have h0 := hwf r0 (by rw [hrecs]; exact List.mem_cons_self)
    have hL0 : r0.2.length = L := h0.2.2
    have hLpos : 0 < L := by rw [← hL0]; exact List.length_pos_iff.mpr (wfSeq_chars h0.2.1).1
    have hhead : headerLine recs = some (natDigits recs.length ++ ' ' :: ' ' :: natDigits L) := by
      rw [hrecs]; simp [headerLine, hL0]
    have hw : WfRecs [] (blocked bs recs) := blocked_wf hbs (fun r hr => ⟨(hwf r hr).1, (hwf r hr).2.1⟩)
    have hfmt : phylipFormat bs recs = .ok ((natDigits recs.length ++ ' ' :: ' ' :: natDigits L) ++ '\n' ::
        unlines (recs.flatMap (fun r => phylipBlocks bs L r.1 r.2 (L + 1) 0))) := by
      unfold phylipFormat
      rw [hhead, hrecs]
      simp only [hL0]
    refine ⟨_, hfmt, ?_⟩
    rw [phyLines_eq hbs recs (fun r hr => (hwf r hr).2.2), ← unlines_cons]
    unfold phylipParse
    rw [pySplitlines_unlines (noBreak_cons (header_noBreak _ _) (phyLines_noBreak hw))]
    unfold phylipParser
    have hn0 : ¬ ((recs.length : Int) = 0) := by
      have : 0 < recs.length := List.length_pos_iff.mpr hne
      omega
    have hl0 : ¬ ((L : Int) = 0) := by omega
    simp only [splitWs_header, pyInt_natDigits, bind, Except.bind, hn0, hl0, decide_false, Bool.or_self,
      Bool.false_eq_true, if_false, List.isEmpty_nil, if_true]
    rw [phySeqGo_recs (blocked bs recs) none hw]
    congr 1
    simp only [cacheOut, List.nil_append, blocked, List.map_map]
    apply List.map_congr_left
    intro r _
    simp [chunkWrap_flatten hbs]

end CogentModel.SeqFormats
