import CogentModel.Model.SeqFormats
import CogentModel.Spec.SeqRecords
import CogentModel.Proofs.Splitlines
/-! Helper lemmas for C06: writers followed by parsers. -/
namespace CogentModel.SeqFormats
open CogentModel.Splitlines CogentModel.SeqSpec

instance exceptDecEq {ε α : Type} [DecidableEq ε] [DecidableEq α] : DecidableEq (Except ε α)
  | .ok a, .ok b => if h : a = b then isTrue (by rw [h]) else isFalse (by intro e; cases e; exact h rfl)
  | .error a, .error b => if h : a = b then isTrue (by rw [h]) else isFalse (by intro e; cases e; exact h rfl)
  | .ok _, .error _ => isFalse (by intro e; cases e)
  | .error _, .ok _ => isFalse (by intro e; cases e)

/-! ### character facts -/

theorem eq_iff_toNat (c d : Char) : c = d ↔ c.toNat = d.toNat := Char.toNat_inj.symm

theorem printable_not_break {c : Char} (h : printable c = true) : isBreak c = false := by
  simp only [printable, Bool.and_eq_true, decide_eq_true_eq] at h
  simp only [isBreak, Bool.or_eq_false_iff, decide_eq_false_iff_not, eq_iff_toNat]
  have e1 : ('\n' : Char).toNat = 10 := by decide
  have e2 : ('\r' : Char).toNat = 13 := by decide
  rw [e1, e2]
  omega

theorem printable_space {c : Char} (h : printable c = true) : isSpaceStr c = (c == ' ') := by
  simp only [printable, Bool.and_eq_true, decide_eq_true_eq] at h
  have e1 : (' ' : Char).toNat = 32 := by decide
  by_cases hc : c = ' '
  · subst hc; decide
  · have hn : c.toNat ≠ 32 := by rw [← e1]; exact fun h => hc (Char.toNat_inj.mp h)
    have : (c == ' ') = false := by simpa using hc
    rw [this]
    simp only [isSpaceStr, Bool.or_eq_false_iff, Bool.and_eq_false_iff, decide_eq_false_iff_not]
    simp only [hc, not_false_eq_true, true_and]
    omega

theorem printable_bspace {c : Char} (h : printable c = true) : isSpaceBytes c = (c == ' ') := by
  simp only [printable, Bool.and_eq_true, decide_eq_true_eq] at h
  by_cases hc : c = ' '
  · subst hc; decide
  · have : (c == ' ') = false := by simpa using hc
    rw [this]
    simp only [isSpaceBytes, Bool.or_eq_false_iff, Bool.and_eq_false_iff, decide_eq_false_iff_not]
    simp only [hc, not_false_eq_true, true_and]
    omega

theorem seqChar_printable {lc : List Char} {c : Char} (h : seqChar lc c = true) : printable c = true := by
  simp only [seqChar, Bool.and_eq_true] at h; exact h.1.1.1

theorem seqChar_not_space {lc : List Char} {c : Char} (h : seqChar lc c = true) : isSpaceStr c = false := by
  rw [printable_space (seqChar_printable h)]
  simp only [seqChar, Bool.and_eq_true, bne_iff_ne, ne_eq] at h
  simpa using h.1.1.2

theorem seqChar_not_label {lc : List Char} {c : Char} (h : seqChar lc c = true) : lc.contains c = false := by
  simp only [seqChar, Bool.and_eq_true, Bool.not_eq_true'] at h; exact h.2

theorem seqChar_not_hash {lc : List Char} {c : Char} (h : seqChar lc c = true) : c ≠ '#' := by
  simp only [seqChar, Bool.and_eq_true, bne_iff_ne, ne_eq] at h; exact h.1.2

/-! ### strip -/

theorem dropWhile_id_of_head {p : Char → Bool} : ∀ {s : Str}, (∀ c, s.head? = some c → p c = false) → s.dropWhile p = s
  | [], _ => rfl
  | c :: cs, h => by
    have := h c rfl
    simp [List.dropWhile, this]

theorem stripBy_id {p : Char → Bool} {s : Str} (hh : ∀ c, s.head? = some c → p c = false)
    (hl : ∀ c, s.getLast? = some c → p c = false) : stripBy p s = s := by
  unfold stripBy rstripBy
  rw [dropWhile_id_of_head hh, dropWhile_id_of_head (by rw [List.head?_reverse]; exact hl), List.reverse_reverse]

theorem all_of_head {p : Char → Bool} {s : Str} (h : ∀ c ∈ s, p c = false) : ∀ c, s.head? = some c → p c = false :=
  fun c hc => h c (List.mem_of_head? hc)

theorem all_of_last {p : Char → Bool} {s : Str} (h : ∀ c ∈ s, p c = false) : ∀ c, s.getLast? = some c → p c = false :=
  fun c hc => h c (List.mem_of_getLast? hc)

/-- a well-formed name is a fixed point of `str.strip()` and `bytes.strip()` -/
theorem wfName_strip {n : Str} (h : wfName n = true) : strip n = n ∧ bstrip n = n := by
  simp only [wfName, Bool.and_eq_true, Bool.not_eq_true', bne_iff_ne, ne_eq, List.all_eq_true] at h
  obtain ⟨⟨⟨_, hp⟩, hh⟩, hl⟩ := h
  constructor
  · apply stripBy_id
    · intro c hc
      rw [printable_space (hp c (List.mem_of_head? hc))]
      have : c ≠ ' ' := by rintro rfl; exact hh hc
      simpa using this
    · intro c hc
      rw [printable_space (hp c (List.mem_of_getLast? hc))]
      have : c ≠ ' ' := by rintro rfl; exact hl hc
      simpa using this
  · apply stripBy_id
    · intro c hc
      rw [printable_bspace (hp c (List.mem_of_head? hc))]
      have : c ≠ ' ' := by rintro rfl; exact hh hc
      simpa using this
    · intro c hc
      rw [printable_bspace (hp c (List.mem_of_getLast? hc))]
      have : c ≠ ' ' := by rintro rfl; exact hl hc
      simpa using this

theorem wfSeq_chars {lc : List Char} {s : Str} (h : wfSeq lc s = true) : s ≠ [] ∧ ∀ c ∈ s, seqChar lc c = true := by
  simp only [wfSeq, Bool.and_eq_true, Bool.not_eq_true', List.all_eq_true] at h
  exact ⟨by intro e; subst e; simp at h, h.2⟩

theorem wfSeq_strip {lc : List Char} {s : Str} (h : wfSeq lc s = true) : strip s = s :=
  stripBy_id (all_of_head fun c hc => seqChar_not_space ((wfSeq_chars h).2 c hc))
    (all_of_last fun c hc => seqChar_not_space ((wfSeq_chars h).2 c hc))

/-! ### lines of a text -/

theorem joinNl_snoc_nil : ∀ (ls : List Str), ls ≠ [] → joinNl (ls ++ [[]]) = unlines ls
  | [], h => absurd rfl h
  | [l], _ => by simp [joinNl, unlines]
  | l :: l2 :: ls, _ => by
    have ih := joinNl_snoc_nil (l2 :: ls) (by simp)
    simp only [List.cons_append] at ih ⊢
    simp only [joinNl, unlines, List.flatMap_cons] at ih ⊢
    rw [ih]; simp

theorem splitCore_line_nl {l : Str} (h : ∀ c ∈ l, isBreak c = false) (r : Str) :
    splitCore (l ++ '\n' :: r) = l :: splitCore r := by
  induction l with
  | nil => simp [splitCore, isBreak_nl]
  | cons c cs ih =>
    have hc := h c List.mem_cons_self
    have := ih (fun d hd => h d (List.mem_cons_of_mem _ hd))
    simp [splitCore, hc, this, consHead]

/-- `NoBreak ls`: no line contains a line boundary character -/
def NoBreak (ls : List Str) : Prop := ∀ l ∈ ls, ∀ c ∈ l, isBreak c = false

theorem splitCore_unlines : ∀ (ls : List Str), NoBreak ls → splitCore (unlines ls) = ls
  | [], _ => by simp [unlines, splitCore]
  | l :: ls, h => by
    have ih := splitCore_unlines ls (fun l' hl' => h l' (List.mem_cons_of_mem _ hl'))
    simp only [unlines, List.flatMap_cons, List.append_assoc, List.singleton_append] at ih ⊢
    rw [splitCore_line_nl (h l List.mem_cons_self), ih]

theorem unlines_nlOnly {ls : List Str} (h : NoBreak ls) : NlOnly (unlines ls) := by
  intro c hc hb
  simp only [unlines, List.mem_flatMap, List.mem_append, List.mem_singleton] at hc
  obtain ⟨l, hl, hc | hc⟩ := hc
  · rw [h l hl c hc] at hb; exact absurd hb (by simp)
  · exact hc

/-- the lines of a text written line by line are those lines -/
theorem pySplitlines_unlines {ls : List Str} (h : NoBreak ls) : pySplitlines (unlines ls) = ls := by
  rw [pySplitlines_eq_core (unlines_nlOnly h), splitCore_unlines ls h]

/-! ### the strict / non-strict line parsers on writer output -/

/-- the lines `seqs_to_fasta` / the GDE writer produce for `recs` with label character `l0` -/
def recLines (l0 : Char) (recs : List (Str × List Str)) : List Str :=
  recs.flatMap (fun r => (l0 :: r.1) :: r.2)

theorem clean_wf {lc : List Char} {ws : List Str} (h : ∀ w ∈ ws, wfSeq lc w = true) : clean ws = ws.flatten := by
  unfold clean removeWs
  rw [List.filter_eq_self]
  intro c hc
  obtain ⟨w, hw, hcw⟩ := List.mem_flatten.mp hc
  simp [seqChar_not_space ((wfSeq_chars (h w hw)).2 c hcw)]

theorem isLabel_seq {lc : List Char} {w : Str} (h : wfSeq lc w = true) : isLabel lc w = false := by
  obtain ⟨hne, hc⟩ := wfSeq_chars h
  cases w with
  | nil => exact absurd rfl hne
  | cons c cs => exact seqChar_not_label (hc c List.mem_cons_self)


theorem strictGo_cons (lc : List Char) (label : Option Str) (seq : List Str) (line : Str) (rest : List Str) :
    strictGo lc label seq (line :: rest) =
    if line.isEmpty || line.head? = some '#' then strictGo lc label seq rest
    else if isLabel lc line then
      match label with
      | some l =>
        if seq.isEmpty then .error .recordError
        else (strictGo lc (some (strip (line.drop 1))) [] rest).map (fun rs => (l, clean seq) :: rs)
      | none =>
        if !seq.isEmpty then .error .recordError
        else strictGo lc (some (strip (line.drop 1))) [] rest
    else strictGo lc label (seq ++ [strip line]) rest := by
  rfl

theorem fasterGo_cons (lc : List Char) (label : Option Str) (seq : List Str) (line : Str) (rest : List Str) :
    fasterGo lc label seq (line :: rest) =
    if line.isEmpty then fasterGo lc label seq rest
    else if isLabel lc line then
      (if seq.isEmpty then [] else [(label.getD [], clean seq)]) ++
        fasterGo lc (some (strip (line.drop 1))) [] rest
    else fasterGo lc label (seq ++ [strip line]) rest := by
  rfl

theorem strictGo_seqLines {lc : List Char} (label : Option Str) : ∀ (ws : List Str) (seq rest : List Str),
    (∀ w ∈ ws, wfSeq lc w = true) → strictGo lc label seq (ws ++ rest) = strictGo lc label (seq ++ ws) rest
  | [], seq, rest, _ => by simp
  | w :: ws, seq, rest, h => by
    have hw := h w List.mem_cons_self
    obtain ⟨hne, hc⟩ := wfSeq_chars hw
    have h1 : w.isEmpty = false := by cases w <;> simp at hne ⊢
    have h2 : w.head? ≠ some '#' := by
      intro e; exact seqChar_not_hash (hc _ (List.mem_of_head? e)) rfl
    have ih := strictGo_seqLines label ws (seq ++ [w]) rest (fun x hx => h x (List.mem_cons_of_mem _ hx))
    simp only [List.cons_append]
    rw [strictGo_cons]
    simp only [h1, h2, isLabel_seq hw, wfSeq_strip hw, Bool.false_or, decide_false, Bool.false_eq_true, if_false]
    rw [ih]; simp

theorem fasterGo_seqLines {lc : List Char} (label : Option Str) : ∀ (ws : List Str) (seq rest : List Str),
    (∀ w ∈ ws, wfSeq lc w = true) → fasterGo lc label seq (ws ++ rest) = fasterGo lc label (seq ++ ws) rest
  | [], seq, rest, _ => by simp
  | w :: ws, seq, rest, h => by
    have hw := h w List.mem_cons_self
    obtain ⟨hne, hc⟩ := wfSeq_chars hw
    have h1 : w.isEmpty = false := by cases w <;> simp at hne ⊢
    have ih := fasterGo_seqLines label ws (seq ++ [w]) rest (fun x hx => h x (List.mem_cons_of_mem _ hx))
    simp only [List.cons_append]
    rw [fasterGo_cons]
    simp only [h1, isLabel_seq hw, wfSeq_strip hw, Bool.false_eq_true, if_false]
    rw [ih]; simp

/-- well-formed wrapped records for label characters `lc` -/
def WfRecs (lc : List Char) (recs : List (Str × List Str)) : Prop :=
  ∀ r ∈ recs, wfName r.1 = true ∧ wfLines lc r.2 = true

instance (lc : List Char) (recs : List (Str × List Str)) : Decidable (WfRecs lc recs) := by
  unfold WfRecs; infer_instance

theorem wfLines_iff {lc : List Char} {ws : List Str} (h : wfLines lc ws = true) :
    ws ≠ [] ∧ ∀ w ∈ ws, wfSeq lc w = true := by
  simp only [wfLines, Bool.and_eq_true, Bool.not_eq_true', List.all_eq_true] at h
  exact ⟨by intro e; subst e; simp at h, h.2⟩

/-- the records a parser is expected to return -/
def expected (recs : List (Str × List Str)) : List Rec := recs.map (fun r => (r.1, r.2.flatten))

theorem strictGo_recs {lc : List Char} {l0 : Char} (hl0 : lc.contains l0 = true) (hh : l0 ≠ '#') :
    ∀ (recs : List (Str × List Str)) (label : Str) (seq : List Str), WfRecs lc recs → seq ≠ [] →
    (∀ w ∈ seq, wfSeq lc w = true) →
    strictGo lc (some label) seq (recLines l0 recs) = .ok ((label, seq.flatten) :: expected recs)
  | [], label, seq, _, hs, hw => by
    have : seq.isEmpty = false := by cases seq <;> simp at hs ⊢
    simp [recLines, strictGo, this, expected, clean_wf hw]
  | r :: recs, label, seq, hwf, hs, hw => by
    have hr := hwf r List.mem_cons_self
    obtain ⟨hne, hws⟩ := wfLines_iff hr.2
    have hse : seq.isEmpty = false := by cases seq <;> simp at hs ⊢
    have ih := strictGo_recs hl0 hh recs r.1 r.2 (fun x hx => hwf x (List.mem_cons_of_mem _ hx)) hne hws
    simp only [recLines, List.flatMap_cons, List.cons_append] at ih ⊢
    rw [strictGo_cons]
    have hhash : ¬ (l0 = '#') := hh
    simp only [List.isEmpty_cons, List.head?_cons, Option.some.injEq, hhash, decide_false, Bool.or_self,
      Bool.false_eq_true, if_false, isLabel, hl0, if_true, hse, List.drop_one, List.tail_cons, (wfName_strip hr.1).1]
    rw [strictGo_seqLines (some r.1) r.2 [] _ hws]
    simp only [List.nil_append]
    rw [ih]
    simp [Except.map, expected, clean_wf hw]

theorem strictParser_recs {lc : List Char} {l0 : Char} (hl0 : lc.contains l0 = true) (hh : l0 ≠ '#')
    (recs : List (Str × List Str)) (hne : recs ≠ []) (hwf : WfRecs lc recs) :
    strictParser lc (recLines l0 recs) = .ok (expected recs) := by
  cases recs with
  | nil => exact absurd rfl hne
  | cons r recs =>
    have hr := hwf r List.mem_cons_self
    obtain ⟨hne', hws⟩ := wfLines_iff hr.2
    have ih := strictGo_recs hl0 hh recs r.1 r.2 (fun x hx => hwf x (List.mem_cons_of_mem _ hx)) hne' hws
    unfold strictParser
    simp only [recLines, List.flatMap_cons, List.cons_append] at ih ⊢
    rw [strictGo_cons]
    have hhash : ¬ (l0 = '#') := hh
    simp only [List.isEmpty_cons, List.head?_cons, Option.some.injEq, hhash, decide_false, Bool.or_self,
      Bool.false_eq_true, if_false, isLabel, hl0, if_true, List.isEmpty_nil, Bool.not_true,
      List.drop_one, List.tail_cons, (wfName_strip hr.1).1]
    rw [strictGo_seqLines (some r.1) r.2 [] _ hws]
    simp only [List.nil_append]
    rw [ih]
    simp [expected]

theorem fasterGo_recs {lc : List Char} {l0 : Char} (hl0 : lc.contains l0 = true) :
    ∀ (recs : List (Str × List Str)) (label : Str) (seq : List Str), WfRecs lc recs → seq ≠ [] →
    (∀ w ∈ seq, wfSeq lc w = true) →
    fasterGo lc (some label) seq (recLines l0 recs) = (label, seq.flatten) :: expected recs
  | [], label, seq, _, hs, hw => by
    have : seq.isEmpty = false := by cases seq <;> simp at hs ⊢
    simp [recLines, fasterGo, this, expected, clean_wf hw]
  | r :: recs, label, seq, hwf, hs, hw => by
    have hr := hwf r List.mem_cons_self
    obtain ⟨hne, hws⟩ := wfLines_iff hr.2
    have hse : seq.isEmpty = false := by cases seq <;> simp at hs ⊢
    have ih := fasterGo_recs hl0 recs r.1 r.2 (fun x hx => hwf x (List.mem_cons_of_mem _ hx)) hne hws
    simp only [recLines, List.flatMap_cons, List.cons_append] at ih ⊢
    rw [fasterGo_cons]
    simp only [List.isEmpty_cons, Bool.false_eq_true, if_false, isLabel, hl0, if_true, hse,
      List.drop_one, List.tail_cons, (wfName_strip hr.1).1]
    rw [fasterGo_seqLines (some r.1) r.2 [] _ hws]
    simp only [List.nil_append]
    rw [ih]
    simp [expected, clean_wf hw]

theorem fasterParser_recs {lc : List Char} {l0 : Char} (hl0 : lc.contains l0 = true)
    (recs : List (Str × List Str)) (hwf : WfRecs lc recs) :
    fasterParser lc (recLines l0 recs) = expected recs := by
  cases recs with
  | nil => simp [fasterParser, recLines, fasterGo, expected]
  | cons r recs =>
    have hr := hwf r List.mem_cons_self
    obtain ⟨hne', hws⟩ := wfLines_iff hr.2
    have ih := fasterGo_recs hl0 recs r.1 r.2 (fun x hx => hwf x (List.mem_cons_of_mem _ hx)) hne' hws
    unfold fasterParser
    simp only [recLines, List.flatMap_cons, List.cons_append] at ih ⊢
    rw [fasterGo_cons]
    simp only [List.isEmpty_cons, Bool.false_eq_true, if_false, isLabel, hl0, if_true, List.isEmpty_nil,
      List.drop_one, List.tail_cons, (wfName_strip hr.1).1]
    rw [fasterGo_seqLines (some r.1) r.2 [] _ hws]
    simp only [List.nil_append]
    rw [ih]
    simp [expected]

/-! ### the code's own block wrapping -/

theorem chunkGo_spec {bs : Nat} (hbs : 0 < bs) : ∀ (fuel : Nat) (s : Str), s.length ≤ fuel →
    (chunkGo bs fuel s).flatten = s ∧ (∀ w ∈ chunkGo bs fuel s, w ≠ [] ∧ w.length ≤ bs ∧ ∀ c ∈ w, c ∈ s) ∧
    (s ≠ [] → chunkGo bs fuel s ≠ [])
  | 0, s, h => by
    have : s = [] := List.length_eq_zero_iff.mp (by omega)
    subst this; simp [chunkGo]
  | fuel + 1, s, h => by
    by_cases hs : s = []
    · subst hs; simp [chunkGo]
    · have hse : s.isEmpty = false := by cases s <;> simp at hs ⊢
      have hb0 : ¬ (bs = 0) := by omega
      have hlen : 0 < s.length := List.length_pos_iff.mpr hs
      have hd : (s.drop bs).length ≤ fuel := by rw [List.length_drop]; omega
      obtain ⟨h1, h2, _⟩ := chunkGo_spec hbs fuel (s.drop bs) hd
      simp only [chunkGo, hse, hb0, Bool.false_or, decide_false, Bool.false_eq_true, if_false]
      refine ⟨by simp [h1], ?_, by simp⟩
      intro w hw
      rcases List.mem_cons.mp hw with e | e
      · subst e
        refine ⟨?_, by rw [List.length_take]; omega, fun c hc => List.mem_of_mem_take hc⟩
        intro e2
        have : (s.take bs).length = 0 := by rw [e2]; rfl
        rw [List.length_take] at this; omega
      · obtain ⟨a, b, c⟩ := h2 w e
        exact ⟨a, b, fun x hx => List.mem_of_mem_drop (c x hx)⟩

theorem chunkWrap_flatten {bs : Nat} (hbs : 0 < bs) (s : Str) : (chunkWrap bs s).flatten = s :=
  (chunkGo_spec hbs s.length s (Nat.le_refl _)).1

theorem chunkWrap_wfLines {lc : List Char} {bs : Nat} (hbs : 0 < bs) {s : Str} (h : wfSeq lc s = true) :
    wfLines lc (chunkWrap bs s) = true := by
  obtain ⟨hne, hc⟩ := wfSeq_chars h
  obtain ⟨_, h2, h3⟩ := chunkGo_spec hbs s.length s (Nat.le_refl _)
  have hne' : chunkWrap bs s ≠ [] := h3 hne
  simp only [wfLines, wfSeq, Bool.and_eq_true, Bool.not_eq_true', List.all_eq_true]
  refine ⟨by cases hcw : chunkWrap bs s <;> simp_all, ?_⟩
  intro w hw
  obtain ⟨a, _, c⟩ := h2 w hw
  exact ⟨by cases w <;> simp at a ⊢, fun x hx => hc x (c x hx)⟩

theorem joinNl_unlines : ∀ (ls : List Str), ls ≠ [] → joinNl ls ++ ['\n'] = unlines ls
  | [], h => absurd rfl h
  | [l], _ => by simp [joinNl, unlines]
  | l :: l2 :: ls, _ => by
    have ih := joinNl_unlines (l2 :: ls) (by simp)
    simp only [joinNl, unlines, List.flatMap_cons] at ih ⊢
    simp only [List.append_assoc, List.cons_append]
    rw [ih]; simp

theorem unlines_append (a b : List Str) : unlines (a ++ b) = unlines a ++ unlines b := by
  simp [unlines]

theorem unlines_cons (l : Str) (ls : List Str) : unlines (l :: ls) = l ++ '\n' :: unlines ls := by
  simp [unlines]

/-- the text written for wrapped records with label character `l0` -/
theorem unlines_recLines (l0 : Char) : ∀ (recs : List (Str × List Str)),
    unlines (recLines l0 recs) = recs.flatMap (fun r => l0 :: r.1 ++ '\n' :: unlines r.2)
  | [] => by simp [recLines, unlines]
  | r :: recs => by
    have ih := unlines_recLines l0 recs
    simp only [recLines] at ih
    simp only [recLines, List.flatMap_cons, unlines_append, unlines_cons, ih]

theorem fastaFormat_eq (recs : List (Str × List Str)) : fastaFormat recs = unlines (recLines '>' recs) := by
  have e : fastaLines recs = recLines '>' recs := rfl
  unfold fastaFormat
  simp only [e]
  by_cases h : recLines '>' recs = []
  · simp [h, joinNl, unlines]
  · have : (recLines '>' recs).isEmpty = false := by cases hh : recLines '>' recs <;> simp_all
    simp only [this, Bool.false_eq_true, if_false]
    exact joinNl_snoc_nil _ h

theorem recLines_noBreak {lc : List Char} {l0 : Char} (hl0 : printable l0 = true)
    {recs : List (Str × List Str)} (hwf : WfRecs lc recs) : NoBreak (recLines l0 recs) := by
  intro l hl c hc
  simp only [recLines, List.mem_flatMap, List.mem_cons] at hl
  obtain ⟨r, hr, hl | hl⟩ := hl
  · subst hl
    have hn := (hwf r hr).1
    simp only [wfName, Bool.and_eq_true, List.all_eq_true] at hn
    rcases List.mem_cons.mp hc with e | e
    · subst e; exact printable_not_break hl0
    · exact printable_not_break (hn.1.1.2 c e)
  · obtain ⟨_, hws⟩ := wfLines_iff (hwf r hr).2
    exact printable_not_break (seqChar_printable ((wfSeq_chars (hws l hl)).2 c hc))

/-! ### the bytes based FASTA parser -/

theorem splitOnC_ne_nil (d : Char) : ∀ (s : Str), splitOnC d s ≠ []
  | [] => by simp [splitOnC]
  | c :: cs => by
    simp only [splitOnC]
    split
    · simp
    · exact consHead_ne_nil _ _

theorem splitOnC_none {d : Char} : ∀ {a : Str}, d ∉ a → splitOnC d a = [a]
  | [], _ => rfl
  | c :: cs, h => by
    have hc : ¬ (c = d) := fun e => h (by subst e; exact List.mem_cons_self)
    have := splitOnC_none (a := cs) (fun hm => h (List.mem_cons_of_mem _ hm))
    simp [splitOnC, hc, this, consHead]

theorem splitOnC_sep {d : Char} : ∀ {a : Str} (b : Str), d ∉ a → splitOnC d (a ++ d :: b) = a :: splitOnC d b
  | [], b, _ => by simp [splitOnC]
  | c :: cs, b, h => by
    have hc : ¬ (c = d) := fun e => h (by subst e; exact List.mem_cons_self)
    have := splitOnC_sep (a := cs) b (fun hm => h (List.mem_cons_of_mem _ hm))
    simp [splitOnC, hc, this, consHead]

/-- the part of a record's text after its `>` -/
def recBody (r : Str × List Str) : Str := r.1 ++ '\n' :: unlines r.2

theorem splitOnC_bodies (d : Char) : ∀ (recs : List (Str × List Str)) (r : Str × List Str),
    (∀ x ∈ r :: recs, d ∉ recBody x) →
    splitOnC d (recBody r ++ recs.flatMap (fun x => d :: recBody x)) = recBody r :: recs.map recBody
  | [], r, h => by simpa using splitOnC_none (h r List.mem_cons_self)
  | r' :: recs, r, h => by
    have ih := splitOnC_bodies d recs r' (fun x hx => h x (List.mem_cons_of_mem _ hx))
    simp only [List.flatMap_cons, List.cons_append, List.map_cons]
    rw [splitOnC_sep _ (h r List.mem_cons_self), ih]

theorem takeWhile_nl {n : Str} (h : '\n' ∉ n) (x : Str) :
    (n ++ '\n' :: x).takeWhile (· ≠ '\n') = n ∧ (n ++ '\n' :: x).dropWhile (· ≠ '\n') = '\n' :: x := by
  induction n with
  | nil => simp
  | cons c cs ih =>
    have hc : c ≠ '\n' := fun e => h (by subst e; exact List.mem_cons_self)
    have := ih (fun hm => h (List.mem_cons_of_mem _ hm))
    simpa [hc] using this

theorem upper_id : ∀ {s : Str}, noLower s = true → upper s = s
  | [], _ => rfl
  | c :: cs, h => by
    simp only [noLower, List.all_cons, Bool.and_eq_true, Bool.not_eq_true', Bool.and_eq_false_iff,
      decide_eq_false_iff_not] at h
    have ih := upper_id (s := cs) (by simpa [noLower] using h.2)
    have hc : upperChar c = c := by
      unfold upperChar
      split
      · omega
      · rfl
    simp only [upper, List.map_cons, hc] at ih ⊢
    rw [ih]

theorem printable_not_convDel {c : Char} (h : printable c = true) (hs : c ≠ ' ') :
    (!(c = '\n' || c = '\r' || c = '\t' || c = ' ')) = true := by
  simp only [printable, Bool.and_eq_true, decide_eq_true_eq] at h
  have e1 : ('\n' : Char).toNat = 10 := by decide
  have e2 : ('\r' : Char).toNat = 13 := by decide
  have e3 : ('\t' : Char).toNat = 9 := by decide
  have h1 : c ≠ '\n' := by intro e; rw [e, e1] at h; omega
  have h2 : c ≠ '\r' := by intro e; rw [e, e2] at h; omega
  have h3 : c ≠ '\t' := by intro e; rw [e, e3] at h; omega
  simp [h1, h2, h3, hs]

theorem filter_unlines {p : Char → Bool} (hnl : p '\n' = false) : ∀ (ws : List Str),
    (∀ w ∈ ws, ∀ c ∈ w, p c = true) → (unlines ws).filter p = ws.flatten
  | [], _ => by simp [unlines]
  | w :: ws, h => by
    have ih := filter_unlines hnl ws (fun x hx => h x (List.mem_cons_of_mem _ hx))
    have hw : w.filter p = w := List.filter_eq_self.mpr (h w List.mem_cons_self)
    rw [unlines_cons, List.filter_append, hw, List.filter_cons]
    simp [hnl, ih]

theorem seqChar_ne_space {lc : List Char} {c : Char} (h : seqChar lc c = true) : c ≠ ' ' := by
  simp only [seqChar, Bool.and_eq_true, bne_iff_ne, ne_eq] at h; exact h.1.1.2

theorem convertBytes_unlines {lc : List Char} {ws : List Str} (h : ∀ w ∈ ws, wfSeq lc w = true)
    (hl : noLower ws.flatten = true) : convertBytes (unlines ws) = ws.flatten := by
  unfold convertBytes
  rw [filter_unlines (by decide) ws (fun w hw c hc =>
    printable_not_convDel (seqChar_printable ((wfSeq_chars (h w hw)).2 c hc))
      (seqChar_ne_space ((wfSeq_chars (h w hw)).2 c hc)))]
  exact upper_id hl

theorem wfName_chars {n : Str} (h : wfName n = true) : n ≠ [] ∧ ∀ c ∈ n, printable c = true := by
  simp only [wfName, Bool.and_eq_true, Bool.not_eq_true', List.all_eq_true] at h
  exact ⟨by intro e; subst e; simp at h, h.1.1.2⟩

theorem nl_not_printable : printable '\n' = false := by decide

theorem bytesRecord_body {r : Str × List Str} (hn : wfName r.1 = true) (hw : wfLines ['>'] r.2 = true)
    (hl : noLower r.2.flatten = true) : bytesRecord (recBody r) = some (r.1, r.2.flatten) := by
  have hnl : '\n' ∉ r.1 := fun hm => by
    have := (wfName_chars hn).2 _ hm
    rw [nl_not_printable] at this; exact absurd this (by simp)
  obtain ⟨h1, h2⟩ := takeWhile_nl hnl (unlines r.2)
  have hne : (recBody r).isEmpty = false := by
    unfold recBody; cases r.1 <;> simp
  have hc : (recBody r).contains '\n' = true := by
    unfold recBody; simp
  unfold bytesRecord
  simp only [hne, hc, Bool.false_eq_true, if_false, Bool.not_true]
  unfold recBody
  rw [h1, h2, (wfName_strip hn).2]
  simp only [List.drop_one, List.tail_cons]
  rw [convertBytes_unlines (wfLines_iff hw).2 hl]

theorem gt_not_in_body {r : Str × List Str} (hn : '>' ∉ r.1) (hw : wfLines ['>'] r.2 = true) :
    '>' ∉ recBody r := by
  unfold recBody
  intro hm
  rcases List.mem_append.mp hm with h | h
  · exact hn h
  · rcases List.mem_cons.mp h with h | h
    · exact absurd h (by decide)
    · simp only [unlines, List.mem_flatMap, List.mem_append, List.mem_singleton] at h
      obtain ⟨w, hw', hc | hc⟩ := h
      · have := seqChar_not_label ((wfSeq_chars ((wfLines_iff hw).2 w hw')).2 _ hc)
        simp at this
      · exact absurd hc (by decide)

theorem fastaBytes_recs (recs : List (Str × List Str)) (hwf : WfRecs ['>'] recs)
    (hgt : ∀ r ∈ recs, '>' ∉ r.1) (hlow : ∀ r ∈ recs, noLower r.2.flatten = true) :
    fastaBytes (unlines (recLines '>' recs)) = expected recs := by
  rw [unlines_recLines]
  cases recs with
  | nil => simp [fastaBytes, splitOnC, bytesRecord, expected]
  | cons r rs =>
    have hb : ∀ x ∈ r :: rs, '>' ∉ recBody x := fun x hx => gt_not_in_body (hgt x hx) (hwf x hx).2
    have := splitOnC_bodies '>' rs r hb
    unfold recBody at this
    unfold fastaBytes
    simp only [List.flatMap_cons, List.cons_append, splitOnC, if_true]
    rw [this]
    have hnone : bytesRecord [] = none := by simp [bytesRecord]
    simp only [List.filterMap_cons, hnone]
    have hall : ∀ (xs : List (Str × List Str)), (∀ x ∈ xs, x ∈ r :: rs) →
        (xs.map recBody).filterMap bytesRecord = expected xs := by
      intro xs
      induction xs with
      | nil => intro _; simp [expected]
      | cons x xs ih =>
        intro hx
        have hx1 := hx x List.mem_cons_self
        have := bytesRecord_body (hwf x hx1).1 (hwf x hx1).2 (hlow x hx1)
        simp only [List.map_cons, List.filterMap_cons, this, expected]
        rw [ih (fun y hy => hx y (List.mem_cons_of_mem _ hy))]
        simp [expected]
    have h2 := hall (r :: rs) (fun x hx => hx)
    simp only [List.map_cons, List.filterMap_cons] at h2
    exact h2

end CogentModel.SeqFormats
