import CogentModel.Proofs.SolveLemmas
import Mathlib.LinearAlgebra.Matrix.NonsingularInverse
/-! C05: bridge from the array model to Mathlib matrices (`toM`), `solve = D⁻¹ N`, and the algebra of the Padé / Taylor loops. -/

namespace CogentModel.Expm
open CogentModel.RateMatrix Finset
set_option linter.unusedSectionVars false

variable {K : Type*} [Field K]

/-- the `n × n` block of an array matrix as a Mathlib matrix -/
def toM (n : Nat) (M : Mat K) : Matrix (Fin n) (Fin n) K := Matrix.of fun i j => mget M i.val j.val
/-- and back -/
def ofM (n : Nat) (A : Matrix (Fin n) (Fin n) K) : Mat K :=
  tab n fun i j => if h : i < n ∧ j < n then A ⟨i, h.1⟩ ⟨j, h.2⟩ else 0

theorem toM_apply (n : Nat) (M : Mat K) (i j : Fin n) : toM n M i j = mget M i.val j.val := rfl

theorem toM_ofM (n : Nat) (A : Matrix (Fin n) (Fin n) K) : toM n (ofM n A) = A := by
  ext i j
  rw [toM_apply]; unfold ofM
  rw [mget_tab _ i.isLt j.isLt, dif_pos ⟨i.isLt, j.isLt⟩]

theorem entryEq_iff (n : Nat) (A B : Mat K) : EntryEq n A B ↔ toM n A = toM n B := by
  constructor
  · intro h; ext i j; exact h i.val j.val i.isLt j.isLt
  · intro h i j hi hj; exact congrFun (congrFun h ⟨i, hi⟩) ⟨j, hj⟩

theorem entryZero_iff (n : Nat) (A : Mat K) : EntryZero n A ↔ toM n A = 0 := by
  constructor
  · intro h; ext i j; exact h i.val j.val i.isLt j.isLt
  · intro h i j hi hj; exact congrFun (congrFun h ⟨i, hi⟩) ⟨j, hj⟩

theorem toM_matMul (n : Nat) (A B : Mat K) : toM n (matMul n A B) = toM n A * toM n B := by
  ext i j
  rw [toM_apply, mget_matMul n A B i.isLt j.isLt, Matrix.mul_apply, ← Fin.sum_univ_eq_sum_range (fun k => mget A i k * mget B k j) n]
  rfl

theorem toM_matAdd (n : Nat) (A B : Mat K) : toM n (matAdd n A B) = toM n A + toM n B := by
  ext i j; rw [toM_apply, mget_matAdd n A B i.isLt j.isLt]; rfl
theorem toM_matSub (n : Nat) (A B : Mat K) : toM n (matSub n A B) = toM n A - toM n B := by
  ext i j; rw [toM_apply, mget_matSub n A B i.isLt j.isLt]; rfl
theorem toM_matScale (n : Nat) (c : K) (A : Mat K) : toM n (matScale n c A) = c • toM n A := by
  ext i j; rw [toM_apply, mget_matScale n c A i.isLt j.isLt]; rfl
theorem toM_matDivS (n : Nat) (c : K) (A : Mat K) : toM n (matDivS n A c) = c⁻¹ • toM n A := by
  ext i j; rw [toM_apply, mget_matDivS n c A i.isLt j.isLt, div_eq_inv_mul]; rfl
theorem toM_ident (n : Nat) : toM n (ident n : Mat K) = 1 := by
  ext i j; rw [toM_apply, mget_ident n i.isLt j.isLt, Matrix.one_apply]
  simp [Fin.ext_iff]

theorem toM_sqN (n : Nat) : ∀ (j : Nat) (F : Mat K), toM n (sqN n j F) = toM n F ^ (2 ^ j) := by
  intro j
  induction j with
  | zero => intro F; simp [sqN]
  | succ j ih => intro F; rw [sqN, ih, toM_matMul, ← pow_two, ← pow_mul, pow_succ, mul_comm]

section
variable [DecidableEq K]

/-- `solve` in Mathlib terms: success means `D` is a unit and the result is `D⁻¹ N` -/
theorem toM_solve (n : Nat) (D N F : Mat K) (h : solve n D N = some F) :
    IsUnit (toM n D).det ∧ toM n F = (toM n D)⁻¹ * toM n N := by
  obtain ⟨hDF, _⟩ := solve_correct n D N F h
  have hker := (solve_isSome_iff n D N).mp (by rw [h]; rfl)
  have hinj : Function.Injective (toM n D).mulVec := by
    have h0 : ∀ v, (toM n D).mulVec v = 0 → v = 0 := by
      intro v hv
      have hz : toM n (matMul n D (ofM n (Matrix.of fun i (_ : Fin n) => v i))) = 0 := by
        rw [toM_matMul, toM_ofM]
        ext i j
        rw [Matrix.mul_apply]
        exact congrFun hv i
      have := hker _ ((entryZero_iff n _).mpr hz)
      have h2 := (entryZero_iff n _).mp this
      rw [toM_ofM] at h2
      ext i
      by_cases hn : n = 0
      · subst hn; exact i.elim0
      · exact congrFun (congrFun h2 i) ⟨0, Nat.pos_of_ne_zero hn⟩
    intro v w hvw
    exact sub_eq_zero.mp (h0 (v - w) (by rw [Matrix.mulVec_sub, hvw, sub_self]))
  have hu : IsUnit (toM n D) := Matrix.mulVec_injective_iff_isUnit.mp hinj
  have hdet : IsUnit (toM n D).det := (Matrix.isUnit_iff_isUnit_det _).mp hu
  refine ⟨hdet, ?_⟩
  have hmul : toM n D * toM n F = toM n N := by rw [← toM_matMul]; exact (entryEq_iff n _ _).mp hDF
  rw [← hmul, ← Matrix.mul_assoc, Matrix.nonsing_inv_mul _ hdet, Matrix.one_mul]
end

end CogentModel.Expm
