import CogentModel.Proofs.RateMatrixLemmas
import Mathlib.Tactic.Ring
/-! C05 helper lemmas: the conditional and monomer motif-prob weight matrices give balanced un-normalised rates. -/
set_option linter.unusedSectionVars false
set_option linter.unusedSimpArgs false

namespace CogentModel.RateMatrix
open Finset

theorem firstDiff_comm : ∀ (x y : List Nat), firstDiff x y = firstDiff y x
  | [], [] => rfl
  | [], _ :: _ => rfl
  | _ :: _, [] => rfl
  | a :: as, b :: bs => by
    unfold firstDiff
    by_cases h : a = b
    · subst h; simp [firstDiff_comm as bs]
    · have h' : b ≠ a := fun e => h e.symm
      simp [h, h']

theorem sameContext_congr (d : Nat) : ∀ (x y : List Nat) (k : Nat), sameContext d k x y = true →
    ∀ w, sameContext d k w x = sameContext d k w y
  | [], [], _, _, w => rfl
  | [], _ :: _, _, h, _ => by simp [sameContext] at h
  | _ :: _, [], _, h, _ => by simp [sameContext] at h
  | a :: as, b :: bs, k, h, w => by
    cases w with
    | nil => simp [sameContext]
    | cons c cs =>
      simp only [sameContext, Bool.and_eq_true, decide_eq_true_eq, Bool.decide_or, Bool.or_eq_true] at h ⊢
      obtain ⟨h1, h2⟩ := h
      have ih := sameContext_congr d as bs (k + 1) h2 cs
      rw [ih]
      rcases h1 with h1 | h1
      · simp [h1]
      · subst h1; rfl

section
variable {K : Type*} [Field K] [DecidableEq K]

/-- balanced un-normalised rates for the conditional motif-prob model -/
theorem weightConditional_balanced (words : Array (Array Nat)) (L : Nat) (inst : Mat Bool) (pi : Vec K) (R : Mat K)
    (hR : ∀ i j, i < words.size → j < words.size → mget R i j = mget R j i)
    (hzero : ∀ i j, i < words.size → j < words.size → bget inst i j = false → mget R i j = 0)
    (hinst : ∀ i j, i < words.size → j < words.size → bget inst i j = bget inst j i)
    (hctx : ∀ i j, i < words.size → j < words.size → bget inst i j = true →
      sameContext (firstDiff (wordAt words i) (wordAt words j)) 0 (wordAt words i) (wordAt words j) = true)
    (i j : Nat) (hi : i < words.size) (hj : j < words.size) :
    vget pi i * (mget R i j * mget (weightConditional words L inst pi) i j) =
      vget pi j * (mget R j i * mget (weightConditional words L inst pi) j i) := by
  by_cases hb : bget inst i j = true
  · have hb' : bget inst j i = true := by rw [← hinst i j hi hj]; exact hb
    unfold weightConditional
    rw [mget_tab _ hi hj, mget_tab _ hj hi]
    simp only [hb, hb', if_true]
    have hd := firstDiff_comm (wordAt words i) (wordAt words j)
    have hc : contextProb words pi (wordAt words j) (firstDiff (wordAt words i) (wordAt words j)) =
        contextProb words pi (wordAt words i) (firstDiff (wordAt words j) (wordAt words i)) := by
      unfold contextProb
      rw [← hd]
      apply sumTo_congr
      intro k _
      rw [sameContext_congr _ _ _ 0 (hctx i j hi hj hb) (wordAt words k)]
    rw [hc, hR i j hi hj]
    split
    · ring
    · ring
  · have hb0 : bget inst i j = false := by simpa using hb
    have hb0' : bget inst j i = false := by rw [← hinst i j hi hj]; exact hb0
    rw [hzero i j hi hj hb0, hzero j i hj hi hb0']
    ring

omit [DecidableEq K] in
/-- balanced un-normalised rates for the (position-specific) monomer motif-prob models -/
theorem weightMonomer_balanced (words : Array (Array Nat)) (L : Nat) (inst : Mat Bool) (mp : Nat → Vec K) (R : Mat K)
    (hR : ∀ i j, i < words.size → j < words.size → mget R i j = mget R j i)
    (hzero : ∀ i j, i < words.size → j < words.size → bget inst i j = false → mget R i j = 0)
    (hinst : ∀ i j, i < words.size → j < words.size → bget inst i j = bget inst j i)
    (hagree : ∀ i j, i < words.size → j < words.size → bget inst i j = true →
      firstDiff (wordAt words i) (wordAt words j) < L ∧
      ∀ k, k < L → k ≠ firstDiff (wordAt words i) (wordAt words j) →
        (words.getD i #[]).getD k 0 = (words.getD j #[]).getD k 0)
    (i j : Nat) (hi : i < words.size) (hj : j < words.size) :
    vget (wordProbsMonomer words L mp) i * (mget R i j * mget (weightMonomer words inst mp) i j) =
      vget (wordProbsMonomer words L mp) j * (mget R j i * mget (weightMonomer words inst mp) j i) := by
  by_cases hb : bget inst i j = true
  · have hb' : bget inst j i = true := by rw [← hinst i j hi hj]; exact hb
    unfold weightMonomer wordProbsMonomer
    simp only []
    rw [mget_tab _ hi hj, mget_tab _ hj hi, vget_vtab _ hi, vget_vtab _ hj]
    simp only [hb, hb', if_true]
    rw [← firstDiff_comm (wordAt words i) (wordAt words j), hR i j hi hj]
    obtain ⟨hd, hk⟩ := hagree i j hi hj hb
    generalize hdd : firstDiff (wordAt words i) (wordAt words j) = d at hd hk
    have hmem : d ∈ range L := Finset.mem_range.mpr hd
    have key : wordProbsRaw words L mp i * vget (mp d) ((words.getD j #[]).getD d 0) =
        wordProbsRaw words L mp j * vget (mp d) ((words.getD i #[]).getD d 0) := by
      unfold wordProbsRaw
      rw [prodTo_eq_prod, prodTo_eq_prod, ← Finset.mul_prod_erase _ _ hmem, ← Finset.mul_prod_erase (range L) _ hmem]
      have he : ∏ x ∈ (range L).erase d, vget (mp x) ((words.getD i #[]).getD x 0) =
          ∏ x ∈ (range L).erase d, vget (mp x) ((words.getD j #[]).getD x 0) := by
        apply Finset.prod_congr rfl
        intro k hkm
        rw [hk k (Finset.mem_range.mp (Finset.mem_of_mem_erase hkm)) (Finset.ne_of_mem_erase hkm)]
      rw [he]; ring
    calc wordProbsRaw words L mp i / sumTo words.size (wordProbsRaw words L mp) *
          (mget R j i * vget (mp d) ((words.getD j #[]).getD d 0))
        = (wordProbsRaw words L mp i * vget (mp d) ((words.getD j #[]).getD d 0)) *
            mget R j i / sumTo words.size (wordProbsRaw words L mp) := by ring
      _ = (wordProbsRaw words L mp j * vget (mp d) ((words.getD i #[]).getD d 0)) *
            mget R j i / sumTo words.size (wordProbsRaw words L mp) := by rw [key]
      _ = _ := by ring
  · have hb0 : bget inst i j = false := by simpa using hb
    have hb0' : bget inst j i = false := by rw [← hinst i j hi hj]; exact hb0
    rw [hzero i j hi hj hb0, hzero j i hj hi hb0']
    ring
end
end CogentModel.RateMatrix
