import CogentModel.Proofs.ViewInt
/-! Helpers for the chain theorem: Python list slicing of `elems`, and `getitemSlice` never errors. -/
namespace CogentModel.View
open CogentModel

/-- every position selected by a Python slice is a valid index -/
theorem sliceIdx_mem_range (n : Int) (hn : 0 ≤ n) (a b : Option Int) (c : Int) (hc : c ≠ 0) :
    ∀ j ∈ PySlice.sliceIdx n.toNat a b c, 0 ≤ j ∧ j < n := by
  intro j hj
  rcases Int.lt_or_lt_of_ne hc with hneg | hpos
  · rw [sliceIdx_neg n hn a b c hneg] at hj
    generalize hA : clampN (a.getD (-1)) n = A at hj
    generalize hB : clampN (b.getD (-n - 1)) n = B at hj
    have hAr : A ≤ n - 1 := by rw [← hA]; unfold clampN; omega
    have hBr : -1 ≤ B := by rw [← hB]; unfold clampN; omega
    unfold PySlice.rangeList at hj
    rw [List.mem_map] at hj
    obtain ⟨i, hi, rfl⟩ := hj
    rw [List.mem_range] at hi
    rcases Int.lt_or_le B A with hlt | hge
    · obtain ⟨L, hL0, hL, b1, b2⟩ := rangeLen_neg A B c hneg hlt
      rw [hL] at hi
      have hiL : (i : Int) ≤ L - 1 := by omega
      have h0 : (0:Int) ≤ i := by omega
      have p1 : (i : Int) * (-c) ≤ (L - 1) * (-c) := Int.mul_le_mul_of_nonneg_right hiL (by omega)
      have p2 : 0 ≤ (i : Int) * (-c) := Int.mul_nonneg h0 (by omega)
      have e1 : (L - 1) * (-c) = L * (-c) - (-c) := by ring
      have e2 : (i : Int) * c = -((i : Int) * (-c)) := by ring
      omega
    · rw [rangeLen_neg_empty A B c hneg hge] at hi; omega
  · rw [sliceIdx_pos n hn a b c hpos] at hj
    generalize hA : clampP (a.getD 0) n = A at hj
    generalize hB : clampP (b.getD n) n = B at hj
    have hAr : 0 ≤ A := by rw [← hA]; unfold clampP; omega
    have hBr : B ≤ n := by rw [← hB]; unfold clampP; omega
    unfold PySlice.rangeList at hj
    rw [List.mem_map] at hj
    obtain ⟨i, hi, rfl⟩ := hj
    rw [List.mem_range] at hi
    rcases Int.lt_or_le A B with hlt | hge
    · obtain ⟨L, hL0, hL, b1, b2⟩ := rangeLen_pos A B c hpos hlt
      rw [hL] at hi
      have hiL : (i : Int) ≤ L - 1 := by omega
      have h0 : (0:Int) ≤ i := by omega
      have p1 : (i : Int) * c ≤ (L - 1) * c := Int.mul_le_mul_of_nonneg_right hiL (by omega)
      have p2 : 0 ≤ (i : Int) * c := Int.mul_nonneg h0 (by omega)
      have e1 : (L - 1) * c = L * c - c := by ring
      omega
    · rw [rangeLen_pos_empty A B c hpos hge] at hi; omega

/-- Python slicing of the displayed list = mapping the selected indices through the view -/
theorem slice_elems (v : View) (a b : Option Int) (c : Int) (hc : c ≠ 0) :
    PySlice.slice (elems v) a b c =
      (PySlice.sliceIdx (len v).toNat a b c).map fun j => first v + j * v.step := by
  unfold PySlice.slice
  rw [elems_length]
  apply List.map_congr_left
  intro j hj
  obtain ⟨h0, h1⟩ := sliceIdx_mem_range (len v) (len_nonneg v) a b c hc j hj
  have := elems_getElem? v j h0 h1
  rw [getElem!_def, this]

def IsOk (r : Except Err View) : Prop := ∃ w, r = .ok w

theorem isOk_ite {c : Prop} [Decidable c] {x y : Except Err View} (hx : IsOk x) (hy : IsOk y) :
    IsOk (if c then x else y) := by
  split <;> assumption

theorem isOk_ok (v : View) : IsOk (.ok v) := ⟨v, rfl⟩

theorem isOk_remk (v : View) (a b K : Int) (hK : K ≠ 0) : IsOk (remk v a b K) := by
  unfold remk mk
  rw [if_neg (by simp; exact hK)]
  exact ⟨_, rfl⟩

theorem getitemSlice_isOk (fl : Flavour) (v : View) (a b c : Option Int) (h : Inv v) (hc : c ≠ some 0) :
    IsOk (getitemSlice fl v a b c) := by
  have hk : v.step ≠ 0 := by rcases h with ⟨_, hI | hI⟩ <;> omega
  have hc0 : c.getD 1 ≠ 0 := by
    cases c with
    | none => simp
    | some s => simp at hc ⊢; exact hc
  have hK : v.step * c.getD 1 ≠ 0 := Int.mul_ne_zero hk hc0
  unfold getitemSlice
  apply isOk_ite
  · cases fl
    · exact isOk_remk v _ _ _ hk
    · exact isOk_ok v
  apply isOk_ite (isOk_ok v)
  apply isOk_ite (isOk_ok _)
  simp only []
  split
  · split
    · unfold fwdFromFwd
      repeat (first | exact isOk_ok _ | exact isOk_remk v _ _ _ hK | apply isOk_ite)
    · unfold fwdFromRev
      repeat (first | exact isOk_ok _ | exact isOk_remk v _ _ _ hK | apply isOk_ite)
  split
  · split
    · unfold revFromRev revFromRevTail
      repeat (first | exact isOk_ok _ | exact isOk_remk v _ _ _ hK | apply isOk_ite)
    · unfold revFromFwd
      repeat (first | exact isOk_ok _ | exact isOk_remk v _ _ _ hK | apply isOk_ite)
  · omega

end CogentModel.View
