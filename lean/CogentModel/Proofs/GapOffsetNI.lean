/-
  C18 / gap merging, part B: the non-inverted `_GapOffset` (sequence → alignment coordinates) returns the sum of the
  gap lengths at smaller positions, for EVERY query.
-/
import CogentModel.Proofs.GapDict
namespace CogentModel.GapMerge

/-- the store the constructor loop builds from a sorted list: position ↦ gap length before it -/
def cumList : Gaps → Int → Gaps
  | [], _ => []
  | (p, l) :: r, c => (p, c) :: cumList r (c + l)

def total : Gaps → Int
  | [] => 0
  | (_, l) :: r => l + total r

theorem keys_cumList (s : Gaps) (c : Int) : keys (cumList s c) = keys s := by
  induction s generalizing c with
  | nil => rfl
  | cons e r ih => obtain ⟨p, l⟩ := e; simp [cumList, ih]

theorem sortedLT_cumList (s : Gaps) (c : Int) (hs : SortedLT s) : SortedLT (cumList s c) := by
  induction s generalizing c with
  | nil => simp [cumList, SortedLT]
  | cons e r ih =>
    obtain ⟨p, l⟩ := e
    simp only [SortedLT, List.pairwise_cons] at hs
    simp only [cumList, SortedLT, List.pairwise_cons]
    refine ⟨?_, ih _ hs.2⟩
    intro b hb
    have hk : b.1 ∈ keys (cumList r (c + l)) := List.mem_map.mpr ⟨b, hb, rfl⟩
    rw [keys_cumList] at hk
    obtain ⟨e', he', hk'⟩ := List.mem_map.mp hk
    have := hs.1 e' he'
    show p < b.1
    rw [← hk']; exact this

theorem goLoop_false (s : Gaps) : ∀ (c : Int) (res : Gaps) (gp : Int), SortedLT s →
    (∀ k ∈ keys s, k ∉ keys res) →
    goLoop false s c res gp = (res ++ cumList s c, c + total s, lastKey s gp) := by
  induction s with
  | nil => intro c res gp _ _; simp [goLoop, cumList, total, lastKey]
  | cons e r ih =>
    intro c res gp hs hfresh
    obtain ⟨p, l⟩ := e
    simp only [SortedLT, List.pairwise_cons] at hs
    have hp : p ∉ keys res := hfresh p (by simp)
    simp only [goLoop, Bool.false_eq_true, if_false, dset_fresh res p c hp]
    rw [ih (c + l) (res ++ [(p, c)]) p hs.2 ?_]
    · simp [cumList, total, lastKey, Int.add_assoc]
    · intro k hk
      rw [keys_append]
      simp only [keys_cons, keys_nil, List.mem_append, List.mem_singleton, not_or]
      refine ⟨hfresh k (by simp [hk]), ?_⟩
      obtain ⟨e', he', hk'⟩ := List.mem_map.mp hk
      have := hs.1 e' he'
      omega

theorem sumLt_all_ge (s : Gaps) (x : Int) (h : ∀ k ∈ keys s, x ≤ k) : sumLt s x = 0 := by
  induction s with
  | nil => rfl
  | cons e r ih =>
    obtain ⟨p, l⟩ := e
    have h1 : x ≤ p := h p (by simp)
    have h2 := ih (fun k hk => h k (by simp [hk]))
    simp only [sumLt, sumIf] at h2 ⊢
    have : ¬ p < x := by omega
    simp [this, h2]

theorem sumLt_all_lt (s : Gaps) (x : Int) (h : ∀ k ∈ keys s, k < x) : sumLt s x = total s := by
  induction s with
  | nil => rfl
  | cons e r ih =>
    obtain ⟨p, l⟩ := e
    have h1 : p < x := h p (by simp)
    have h2 := ih (fun k hk => h k (by simp [hk]))
    simp only [sumLt, sumIf, total] at h2 ⊢
    simp [h1, h2]

/-- a stored value is the sum before its key -/
theorem dget_cumList (s : Gaps) (hs : SortedLT s) : ∀ (c x v : Int), dget (cumList s c) x = some v → v = c + sumLt s x := by
  induction s with
  | nil => intro c x v h; simp [cumList, dget] at h
  | cons e r ih =>
    intro c x v h
    obtain ⟨p, l⟩ := e
    simp only [SortedLT, List.pairwise_cons] at hs
    simp only [cumList, dget] at h
    by_cases hp : p = x
    · subst hp
      simp only [if_true, Option.some.injEq] at h
      have h0 : sumLt r p = 0 := sumLt_all_ge r p (fun k hk => by
        obtain ⟨e', he', hk'⟩ := List.mem_map.mp hk
        have := hs.1 e' he'; omega)
      simp only [sumLt, sumIf] at h0 ⊢
      have : ¬ p < p := by omega
      simp [this, h0]; omega
    · rw [if_neg hp] at h
      have hv := ih hs.2 (c + l) x v h
      have hx : x ∈ keys r := by
        have := (dget_none_iff (cumList r (c + l)) x)
        rw [keys_cumList] at this
        by_cases hm : x ∈ keys r
        · exact hm
        · rw [this.mpr hm] at h; simp at h
      obtain ⟨e', he', hk'⟩ := List.mem_map.mp hx
      have hlt : p < x := by have := hs.1 e' he'; omega
      simp only [sumLt, sumIf] at hv ⊢
      simp [hlt]; omega

theorem pyIdx_nat (l : List Int) (i : Nat) : pyIdx l (i : Int) = l.getD i 0 := by
  have : ¬ ((i : Int) < 0) := by omega
  simp [pyIdx, this]

theorem bisectLeft_lt_length (l : List Int) (x : Int) (h : ∃ k ∈ l, x ≤ k) : bisectLeft l x < l.length := by
  induction l with
  | nil => obtain ⟨k, hk, _⟩ := h; simp at hk
  | cons k0 r ih =>
    simp only [bisectLeft]
    split
    · rename_i hlt
      obtain ⟨k, hk, hxk⟩ := h
      rcases List.mem_cons.mp hk with rfl | hk'
      · omega
      · have := ih ⟨k, hk', hxk⟩
        simp only [List.length_cons]; omega
    · simp

/-- the bisect branch: `x` is not a key and some key is larger -/
theorem bisect_cumList (s : Gaps) (hs : SortedLT s) : ∀ (c x : Int), x ∉ keys s → (∃ k ∈ keys s, x < k) →
    (dget (cumList s c) (pyIdx (keys s) (bisectLeft (keys s) x))).getD 0 = c + sumLt s x := by
  induction s with
  | nil => intro c x _ h; obtain ⟨k, hk, _⟩ := h; simp at hk
  | cons e r ih =>
    intro c x hx hex
    obtain ⟨p, l⟩ := e
    simp only [SortedLT, List.pairwise_cons] at hs
    simp only [keys_cons, List.mem_cons, not_or] at hx
    simp only [keys_cons, bisectLeft]
    by_cases hlt : p < x
    · simp only [if_pos hlt]
      have hex' : ∃ k ∈ keys r, x < k := by
        obtain ⟨k, hk, hxk⟩ := hex
        simp only [keys_cons, List.mem_cons] at hk
        rcases hk with rfl | hk
        · omega
        · exact ⟨k, hk, hxk⟩
      have ih' := ih hs.2 (c + l) x hx.2 hex'
      rw [pyIdx_nat] at ih' ⊢
      simp only [List.getD_cons_succ]
      -- the found key is a key of r, hence different from p
      have hb : bisectLeft (keys r) x < (keys r).length :=
        bisectLeft_lt_length (keys r) x (by obtain ⟨k, hk, hxk⟩ := hex'; exact ⟨k, hk, by omega⟩)
      have hmem : (keys r).getD (bisectLeft (keys r) x) 0 ∈ keys r := by
        rw [List.getD_eq_getElem?_getD, List.getElem?_eq_getElem hb]
        simp
      obtain ⟨e', he', hk'⟩ := List.mem_map.mp hmem
      have hne : ¬ p = (keys r).getD (bisectLeft (keys r) x) 0 := by
        have := hs.1 e' he'; omega
      simp only [cumList, dget, if_neg hne, ih']
      simp only [sumLt, sumIf]
      simp [hlt]; omega
    · simp only [if_neg hlt]
      rw [pyIdx_nat]
      simp only [List.getD_cons_zero, cumList, dget, if_true, Option.getD_some]
      have h0 : sumLt ((p, l) :: r) x = 0 := sumLt_all_ge _ x (fun k hk => by
        simp only [keys_cons, List.mem_cons] at hk
        rcases hk with rfl | hk
        · omega
        · obtain ⟨e', he', hk'⟩ := List.mem_map.mp hk
          have := hs.1 e' he'; omega)
      omega

end CogentModel.GapMerge

namespace CogentModel.GapMerge

theorem lastKey_mem (s : Gaps) (p l : Int) (d : Int) : lastKey ((p, l) :: s) d ∈ keys ((p, l) :: s) := by
  induction s generalizing p l d with
  | nil => simp [lastKey]
  | cons e r ih =>
    obtain ⟨p', l'⟩ := e
    have := ih p' l' p
    simp only [lastKey, keys_cons, List.mem_cons] at this ⊢
    exact Or.inr this

theorem le_lastKey (s : Gaps) (hs : SortedLT s) (d : Int) : ∀ k ∈ keys s, k ≤ lastKey s d := by
  induction s generalizing d with
  | nil => intro k hk; simp at hk
  | cons e r ih =>
    obtain ⟨p, l⟩ := e
    simp only [SortedLT, List.pairwise_cons] at hs
    intro k hk
    simp only [keys_cons, List.mem_cons] at hk
    simp only [lastKey]
    cases r with
    | nil =>
      rcases hk with rfl | hk
      · simp [lastKey]
      · simp at hk
    | cons e' r' =>
      obtain ⟨p', l'⟩ := e'
      rcases hk with rfl | hk
      · have h1 := ih hs.2 k p' (by simp)
        have h2 : k < p' := hs.1 (p', l') List.mem_cons_self
        omega
      · exact ih hs.2 p k hk

/-- **the sequence→alignment offset**: `_GapOffset(gaps)[x]` is the total length of the gaps at positions `< x` -/
theorem s2a_get (g : Gaps) (hnd : (keys g).Nodup) (x : Int) : (GapOffset.mk' g false).get x = sumLt g x := by
  have hs : SortedLT (sortGaps g) := sortGaps_sorted g hnd
  have hsum : sumLt (sortGaps g) x = sumLt g x := sumIf_sortGaps _ g
  rw [← hsum]
  have hgo := goLoop_false (sortGaps g) 0 [] (-1) hs (fun k _ => by simp)
  have hgo' : goLoop false (sortGaps g) 0 [] (-1) = (cumList (sortGaps g) 0, total (sortGaps g), lastKey (sortGaps g) (-1)) := by
    simpa using hgo
  simp only [GapOffset.mk', GapOffset.get, hgo', Bool.false_eq_true, if_false]
  clear hgo hgo' hsum
  generalize sortGaps g = s at hs ⊢
  cases s with
  | nil => simp [cumList, sumLt, sumIf]
  | cons e r =>
    obtain ⟨p, l⟩ := e
    have hne : ¬ cumList ((p, l) :: r) 0 = [] := by simp [cumList]
    rw [if_neg hne]
    cases hd : dget (cumList ((p, l) :: r) 0) x with
    | some v =>
      simp only
      have := dget_cumList _ hs 0 x v hd
      omega
    | none =>
      simp only
      have hxk : x ∉ keys ((p, l) :: r) := by
        have := (dget_none_iff _ x).mp hd
        rwa [keys_cumList] at this
      have hs' := hs
      simp only [SortedLT, List.pairwise_cons] at hs'
      by_cases h1 : x < p
      · rw [if_pos h1]
        exact (sumLt_all_ge _ x (fun k hk => by
          simp only [keys_cons, List.mem_cons] at hk
          rcases hk with rfl | hk
          · omega
          · obtain ⟨e', he', hk'⟩ := List.mem_map.mp hk
            have := hs'.1 e' he'; omega)).symm
      · rw [if_neg h1]
        by_cases h2 : x > lastKey ((p, l) :: r) (-1)
        · rw [if_pos h2]
          exact (sumLt_all_lt _ x (fun k hk => by
            have := le_lastKey _ hs (-1) k hk; omega)).symm
        · rw [if_neg h2]
          have hlast := lastKey_mem r p l (-1)
          have hex : ∃ k ∈ keys ((p, l) :: r), x < k := by
            refine ⟨_, hlast, ?_⟩
            have : x ≠ lastKey ((p, l) :: r) (-1) := fun e => hxk (e ▸ hlast)
            omega
          have hsorted : sortGaps (cumList ((p, l) :: r) 0) = cumList ((p, l) :: r) 0 :=
            sortGaps_of_sorted _ (sortedLT_cumList _ 0 hs)
          have hk : List.map (fun x => x.1) (cumList ((p, l) :: r) 0) = keys ((p, l) :: r) := keys_cumList _ 0
          simp only [hsorted, hk]
          have := bisect_cumList _ hs 0 x hxk hex
          omega

end CogentModel.GapMerge
