import CogentModel.Model.Calculator
/-! # C07 — invariant of the two-buffer calculator (helper lemmas) -/
namespace CogentModel.Calc
variable {V : Type} [Inhabited V]

/-- cell `k` of the value assignment `c` is what its definition says, at optimiser vector `x` -/
def CohAt (g : Graph V) (c : Nat → V) (x : Nat → V) (k : Nat) : Prop :=
  match g.cell k with
  | .opt t => c k = t (x k)
  | .const v => c k = v
  | .eval _ args f => f (args.map c) = some (c k)

/-- `c` is a complete, consistent evaluation of the graph at `x` -/
def Coh (g : Graph V) (c : Nat → V) (x : Nat → V) : Prop := ∀ k, k < g.n → CohAt g c x k

theorem CohAt.congr {g : Graph V} {c c' x x' : Nat → V} {k : Nat}
    (h : CohAt g c x k) (hk : c' k = c k) (ha : ∀ a, a ∈ (g.cell k).args → c' a = c a)
    (hx : (g.cell k).isOpt = true → x' k = x k) : CohAt g c' x' k := by
  unfold CohAt at *
  cases hc : g.cell k with
  | opt t => simp [hc] at h hx ⊢; simp [Cell.isOpt] at hx; rw [hk, hx, h]
  | const v => simp [hc] at h ⊢; rw [hk, h]
  | eval r args f =>
    simp [hc] at h ⊢
    have : args.map c' = args.map c := by
      apply List.map_congr_left
      intro a ha'
      exact ha a (by simp [hc, Cell.args, ha'])
    rw [this, hk, h]

/-! ### `reach` / `program` -/

theorem cell_ge {g : Graph V} {k : Nat} (h : g.n ≤ k) : g.cell k = .const default := by
  unfold Graph.cell Graph.n at *
  simp [List.getD, List.getElem?_eq_none h]

theorem reach_fuel (g : Graph V) (hwf : g.WF) (C : List Nat) :
    ∀ a f f', a < f → a < f' → reach g C f a = reach g C f' a := by
  intro a
  induction a using Nat.strongRecOn with
  | _ a ih =>
    intro f f' hf hf'
    obtain ⟨f0, rfl⟩ : ∃ f0, f = f0 + 1 := ⟨f - 1, by omega⟩
    obtain ⟨f1, rfl⟩ : ∃ f1, f' = f1 + 1 := ⟨f' - 1, by omega⟩
    simp only [reach]
    by_cases han : a < g.n
    · rw [Bool.eq_iff_iff, List.any_eq_true, List.any_eq_true]
      constructor <;> rintro ⟨b, hb, h⟩ <;> refine ⟨b, hb, ?_⟩
      · have hba : b < a := hwf.1 a han b hb
        rw [← ih b hba f0 f1 (by omega) (by omega)]; exact h
      · have hba : b < a := hwf.1 a han b hb
        rw [ih b hba f0 f1 (by omega) (by omega)]; exact h
    · rw [cell_ge (by omega)]
      simp [Cell.args]

theorem mem_program {g : Graph V} {C : List Nat} {k : Nat} :
    k ∈ program g C ↔ k < g.n ∧ reach g C g.n k = true := by
  simp [program]

/-- closure of a program: a cell outside it has no changed argument and no argument inside it -/
theorem program_closed (g : Graph V) (hwf : g.WF) (C : List Nat) (k : Nat) (hk : k < g.n)
    (hnot : k ∉ program g C) : ∀ a, a ∈ (g.cell k).args → a ∉ C ∧ a ∉ program g C := by
  intro a ha
  have hak : a < k := hwf.1 k hk a ha
  have hr : reach g C g.n k = false := by
    cases h : reach g C g.n k with
    | false => rfl
    | true => exact absurd (mem_program.2 ⟨hk, h⟩) hnot
  obtain ⟨m, hm⟩ : ∃ m, g.n = m + 1 := ⟨g.n - 1, by omega⟩
  rw [hm] at hr
  simp only [reach, List.any_eq_false] at hr
  have := hr a ha
  simp only [Bool.or_eq_true, not_or, Bool.not_eq_true] at this
  constructor
  · intro hc
    have : C.contains a = true := by simpa using hc
    simp_all
  · intro hp
    have h2 := (mem_program.1 hp).2
    rw [reach_fuel g hwf C a g.n m (by omega) (by omega)] at h2
    simp_all

theorem program_evals (g : Graph V) (C : List Nat) (k : Nat) (hk : k ∈ program g C) :
    (g.cell k).args ≠ [] := by
  have h := (mem_program.1 hk).2
  intro h0
  cases hn : g.n with
  | zero => rw [hn] at h; simp [reach] at h
  | succ m => rw [hn] at h; simp [reach, h0] at h

theorem program_sorted (g : Graph V) (C : List Nat) : (program g C).Pairwise (· < ·) := by
  unfold program
  apply List.Pairwise.filter
  exact List.pairwise_lt_range

/-! ### frame lemmas -/

theorem content_write_ne (g : Graph V) (s : St V) (d c : Bool) (j k : Nat) (v : V) (h : k ≠ j) :
    content g (write g s d j v) c k = content g s c k := by
  unfold content write
  by_cases hj : g.isRec j <;> by_cases hk : g.isRec k <;> by_cases hcd : c = d <;>
    simp [hj, hk, upd, updB, h, hcd]

theorem content_write_self (g : Graph V) (s : St V) (d : Bool) (j : Nat) (v : V) :
    content g (write g s d j v) d j = v := by
  unfold content write
  by_cases hj : g.isRec j <;> simp [hj, upd, updB]

theorem content_write_other (g : Graph V) (s : St V) (d : Bool) (j : Nat) (v : V)
    (h : g.isRec j = true → s.ptr d j ≠ s.ptr (!d) j) (k : Nat) :
    content g (write g s d j v) (!d) k = content g s (!d) k := by
  by_cases hkj : k = j
  · subst hkj
    unfold content write
    by_cases hj : g.isRec k
    · have := h hj
      simp [hj, upd, updB]
      intro h'; exact absurd h'.symm this
    · simp [hj, updB]
  · exact content_write_ne g s d (!d) j k v hkj

/-- the part of the state `runProg`/`setPars` never touch -/
def SameCtl (s s' : St V) : Prop :=
  s'.ptr = s.ptr ∧ s'.spare = s.spare ∧ s'.sw = s.sw ∧ s'.lastUndo = s.lastUndo

theorem SameCtl.refl (s : St V) : SameCtl s s := ⟨rfl, rfl, rfl, rfl⟩
theorem SameCtl.trans {a b c : St V} (h1 : SameCtl a b) (h2 : SameCtl b c) : SameCtl a c :=
  ⟨h2.1.trans h1.1, h2.2.1.trans h1.2.1, h2.2.2.1.trans h1.2.2.1, h2.2.2.2.trans h1.2.2.2⟩

theorem write_sameCtl (g : Graph V) (s : St V) (d : Bool) (j : Nat) (v : V) :
    SameCtl s (write g s d j v) ∧ (write g s d j v).lastValues = s.lastValues := by
  unfold write SameCtl
  by_cases hj : g.isRec j <;> simp [hj]

/-! ### `runProg` -/

/-- every not-yet-processed cell's arguments are already final -/
def ArgsDone (g : Graph V) (rest : List Nat) : Prop :=
  ∀ k, k < g.n → k ∉ rest → ∀ a, a ∈ (g.cell k).args → a ∉ rest

theorem ArgsDone.tail {g : Graph V} (hwf : g.WF) {j : Nat} {rest : List Nat}
    (hs : (j :: rest).Pairwise (· < ·)) (h : ArgsDone g (j :: rest)) : ArgsDone g rest := by
  intro k hk hkr a ha
  by_cases hkj : k = j
  · subst hkj
    have hak := hwf.1 k hk a ha
    intro har
    have := (List.pairwise_cons.1 hs).1 a har
    omega
  · have := h k hk (by simp [hkj, hkr]) a ha
    simp at this
    exact this.2

/-- two assignments that are coherent outside `L` (one of them everywhere) agree outside `L` -/
theorem coh_agree (g : Graph V) (hwf : g.WF) (x : Nat → V) (c1 c2 : Nat → V) (L : List Nat)
    (hAD : ArgsDone g L) (hP : ∀ k, k < g.n → k ∉ L → CohAt g c1 x k) (hc : Coh g c2 x) :
    ∀ k, k < g.n → k ∉ L → c1 k = c2 k := by
  intro k
  induction k using Nat.strongRecOn with
  | _ k ih =>
    intro hk hkL
    have h1 := hP k hk hkL
    have h2 := hc k hk
    unfold CohAt at h1 h2
    cases hcell : g.cell k with
    | opt t => simp [hcell] at h1 h2; rw [h1, h2]
    | const v => simp [hcell] at h1 h2; rw [h1, h2]
    | eval r args f =>
      simp [hcell] at h1 h2
      have : args.map c1 = args.map c2 := by
        apply List.map_congr_left
        intro a ha
        have ha' : a ∈ (g.cell k).args := by simp [hcell, Cell.args, ha]
        have hak : a < k := hwf.1 k hk a ha'
        exact ih a hak (by omega) (hAD k hk hkL a ha')
      rw [this, h2] at h1
      exact (Option.some.inj h1).symm

theorem runProg_spec (g : Graph V) (hwf : g.WF) (d : Bool) (x : Nat → V) :
    ∀ (rest : List Nat) (s : St V),
      rest.Pairwise (· < ·) → (∀ j, j ∈ rest → j < g.n ∧ (g.cell j).args ≠ []) → ArgsDone g rest →
      (∀ k, k < g.n → k ∉ rest → CohAt g (content g s d) x k) →
      (∀ j, j ∈ rest → g.isRec j = true → s.ptr d j ≠ s.ptr (!d) j) →
      ((runProg g d rest s).2 = true → Coh g (content g (runProg g d rest s).1 d) x) ∧
      (∀ k, content g (runProg g d rest s).1 (!d) k = content g s (!d) k) ∧
      SameCtl s (runProg g d rest s).1 ∧ (runProg g d rest s).1.lastValues = s.lastValues ∧
      ((runProg g d rest s).2 = false → ∀ c, ¬ Coh g c x) := by
  intro rest
  induction rest with
  | nil =>
    intro s _ _ _ hP _
    exact ⟨fun _ k hk => hP k hk (by simp), fun _ => rfl, SameCtl.refl s, rfl, fun h => by simp [runProg] at h⟩
  | cons j rest ih =>
    intro s hs hlt hA hP hptr
    have hjn : j < g.n := (hlt j (by simp)).1
    have hA' := ArgsDone.tail hwf hs hA
    have hs' : rest.Pairwise (· < ·) := (List.pairwise_cons.1 hs).2
    have hjrest : j ∉ rest := by
      intro h; have := (List.pairwise_cons.1 hs).1 j h; omega
    unfold runProg
    cases hc : g.cell j with
    | opt t => exact absurd (by simp [hc, Cell.args]) (hlt j (by simp)).2
    | const v => exact absurd (by simp [hc, Cell.args]) (hlt j (by simp)).2
    | eval r args f =>
      simp only []
      cases hf : f (args.map (content g s d)) with
      | none =>
        simp only []
        refine ⟨fun h => by simp at h, by simp, by simp [SameCtl], by simp, ?_⟩
        intro _ c hcoh
        have hagree := coh_agree g hwf x (content g s d) c (j :: rest) hA hP hcoh
        have hj := hcoh j hjn
        unfold CohAt at hj
        simp only [hc] at hj
        have : args.map c = args.map (content g s d) := by
          apply List.map_congr_left
          intro a ha
          have ha' : a ∈ (g.cell j).args := by simp [hc, Cell.args, ha]
          have haj : a < j := hwf.1 j hjn a ha'
          have hnot : a ∉ j :: rest := by
            intro hmem
            rcases List.mem_cons.1 hmem with h | h
            · omega
            · have := (List.pairwise_cons.1 hs).1 a h; omega
          exact (hagree a (by omega) hnot).symm
        rw [this, hf] at hj
        cases hj
      | some v =>
        simp only []
        have hw := write_sameCtl g s d j v
        have hargs : ∀ a, a ∈ args → a ≠ j := by
          intro a ha
          have := hwf.1 j hjn a (by simp [hc, Cell.args, ha])
          omega
        have := ih (write g s d j v) hs' (fun k hk => hlt k (by simp [hk])) hA' ?_ ?_
        · obtain ⟨h1, h2, h3, h4, h5⟩ := this
          refine ⟨h1, ?_, SameCtl.trans hw.1 h3, h4.trans hw.2, h5⟩
          intro k
          rw [h2 k]
          exact content_write_other g s d j v (hptr j (by simp)) k
        · intro k hk hkr
          by_cases hkj : k = j
          · subst hkj
            unfold CohAt
            simp only [hc]
            rw [content_write_self]
            have : args.map (content g (write g s d k v) d) = args.map (content g s d) := by
              apply List.map_congr_left
              intro a ha
              exact content_write_ne g s d d k a v (hargs a ha)
            rw [this, hf]
          · have hkn : k ∉ j :: rest := by simp [hkj, hkr]
            apply (hP k hk hkn).congr
            · exact content_write_ne g s d d j k v hkj
            · intro a ha
              have := hA k hk hkn a ha
              apply content_write_ne
              intro h; apply this; simp [h]
            · intro _; rfl
        · intro k hk hr
          rw [hw.1.1]
          exact hptr k (by simp [hk]) hr

/-! ### `patch` -/

theorem patch_cons (x : Nat → V) (p : Nat × V) (l : List (Nat × V)) :
    patch x (p :: l) = patch (upd x p.1 p.2) l := rfl

theorem patch_not_mem (i : Nat) : ∀ (l : List (Nat × V)) (x : Nat → V),
    i ∉ l.map Prod.fst → patch x l i = x i := by
  intro l
  induction l with
  | nil => intro x _; rfl
  | cons p l ih =>
    intro x h
    simp only [List.map_cons, List.mem_cons, not_or] at h
    rw [patch_cons, ih _ h.2]
    simp [upd, h.1]

theorem patch_restore (x : Nat → V) (j : Nat) : ∀ (l : List (Nat × V)) (y : Nat → V),
    patch y (l.map (fun p => (p.1, x p.1))) j = if j ∈ l.map Prod.fst then x j else y j := by
  intro l
  induction l with
  | nil => intro y; rfl
  | cons p l ih =>
    intro y
    rw [List.map_cons, patch_cons, ih]
    by_cases h : j ∈ l.map Prod.fst
    · simp [h]
    · by_cases hj : j = p.1
      · subst hj; simp [h, upd]
      · simp [h, hj, upd]

/-! ### `setPars` -/

theorem setPars_spec (g : Graph V) (d : Bool) : ∀ (ch : List (Nat × V)) (s : St V) (acc : List (Nat × V)),
    (∀ p, p ∈ ch → p.1 < g.nOpt) →
    SameCtl s (setPars g d ch s acc).1 ∧ (setPars g d ch s acc).1.heap = s.heap ∧
    (setPars g d ch s acc).1.val (!d) = s.val (!d) ∧
    (setPars g d ch s acc).1.lastValues = patch s.lastValues ch ∧
    (∀ k, (setPars g d ch s acc).1.val d k =
      if k ∈ ch.map Prod.fst then g.tr k ((setPars g d ch s acc).1.lastValues k) else s.val d k) ∧
    ((ch.map Prod.fst).Nodup →
      (setPars g d ch s acc).2 = acc ++ ch.map (fun p => (p.1, s.lastValues p.1))) := by
  intro ch
  induction ch with
  | nil => intro s acc _; simp [setPars, SameCtl, patch]
  | cons p ch ih =>
    intro s acc hv
    obtain ⟨i, v⟩ := p
    have hi : i < g.nOpt := hv (i, v) (by simp)
    have hv' : ∀ p, p ∈ ch → p.1 < g.nOpt := fun p hp => hv p (by simp [hp])
    simp only [setPars, hi, if_true]
    obtain ⟨h1, h2, h3, h4, h5, h6⟩ := ih
      { s with lastValues := upd s.lastValues i v, val := updB s.val d (upd (s.val d) i (g.tr i v)) }
      (acc ++ [(i, s.lastValues i)]) hv'
    refine ⟨h1, h2, ?_, ?_, ?_, ?_⟩
    · rw [h3]; cases d <;> simp [updB]
    · rw [h4]; rfl
    · intro k
      rw [h5 k]
      by_cases hk : k ∈ ch.map Prod.fst
      · simp [hk]
      · by_cases hki : k = i
        · subst hki
          rw [h4, patch_not_mem k ch _ hk]
          simp [hk, updB, upd]
        · simp [hk, hki, updB, upd]
    · intro hnd
      simp only [List.map_cons, List.nodup_cons] at hnd
      rw [h6 hnd.2]
      simp only [List.map_cons, List.append_assoc, List.singleton_append]
      congr 2
      apply List.map_congr_left
      intro q hq
      have : q.1 ≠ i := by
        intro h; apply hnd.1; rw [← h]; exact List.mem_map_of_mem hq
      simp [upd, this]

/-! ### `prepare` and the spare-array discipline -/

/-- if both buffers point a recycled cell to the same array, `spare` is not that array -/
def SpareOK (g : Graph V) (s : St V) : Prop :=
  ∀ r, g.isRec r = true → ∀ b, s.ptr b r = s.ptr (!b) r → s.spare r ≠ some (s.ptr b r)

theorem prepare_fields (g : Graph V) (s : St V) (prog : List Nat) :
    (prepare g s prog).sw = s.sw ∧ (prepare g s prog).lastValues = s.lastValues ∧
    (prepare g s prog).lastUndo = s.lastUndo ∧ (prepare g s prog).heap = s.heap := by
  simp [prepare]

theorem prepare_base (g : Graph V) (s : St V) (prog : List Nat) (k : Nat) :
    content g (prepare g s prog) (!s.sw) k = content g s (!s.sw) k := by
  unfold content prepare
  cases s.sw <;> simp [updB]

theorem prepare_data (g : Graph V) (s : St V) (prog : List Nat) (k : Nat)
    (h : g.isRec k = true → k ∉ prog) :
    content g (prepare g s prog) s.sw k = content g s (!s.sw) k := by
  unfold content prepare
  by_cases hk : g.isRec k
  · have := h hk
    simp [hk, updB, this]
  · simp [hk, updB]

theorem prepare_ptr (g : Graph V) (s : St V) (prog : List Nat) (hsp : SpareOK g s) :
    SpareOK g (prepare g s prog) ∧
    ∀ r, r ∈ prog → g.isRec r = true →
      (prepare g s prog).ptr s.sw r ≠ (prepare g s prog).ptr (!s.sw) r := by
  have key : ∀ r, g.isRec r = true → r ∈ prog →
      (prepare g s prog).ptr s.sw r ≠ s.ptr (!s.sw) r := by
    intro r hr hp
    have h1 := hsp r hr s.sw
    have hp' : prog.contains r = true := by simp [hp]
    by_cases hd : s.ptr s.sw r = s.ptr (!s.sw) r
    · have h2 := h1 hd
      cases hs : s.spare r with
      | none => simp [prepare, updB, hr, hp, hd, hs]
      | some q =>
        have : q ≠ s.ptr (!s.sw) r := by intro hq; apply h2; rw [hs, hq, hd]
        simp [prepare, updB, hr, hp, hd, hs, this]
    · simp [prepare, updB, hr, hp, hd]
  have hb : ∀ r, (prepare g s prog).ptr (!s.sw) r = s.ptr (!s.sw) r := by
    intro r; simp only [prepare, updB]; cases s.sw <;> simp
  constructor
  · intro r hr b heq
    -- reduce to the orientation b = s.sw
    have heq' : (prepare g s prog).ptr s.sw r = (prepare g s prog).ptr (!s.sw) r := by
      by_cases hb' : b = s.sw
      · subst hb'; exact heq
      · have : b = !s.sw := by cases b <;> cases h : s.sw <;> simp_all
        subst this; simpa using heq.symm
    have hval : (prepare g s prog).ptr b r = (prepare g s prog).ptr s.sw r := by
      by_cases hb' : b = s.sw
      · subst hb'; rfl
      · have : b = !s.sw := by cases b <;> cases h : s.sw <;> simp_all
        subst this; exact heq'.symm
    rw [hval]
    by_cases hp : r ∈ prog
    · exact absurd (heq'.trans (hb r)) (key r hr hp)
    · have hd : (prepare g s prog).ptr s.sw r = s.ptr (!s.sw) r := by
        simp [prepare, updB, hp]
      rw [hd]
      simp only [prepare, hr, Bool.true_and]
      by_cases hdd : s.ptr s.sw r = s.ptr (!s.sw) r
      · simp only [hdd, bne_self_eq_false, Bool.false_eq_true, if_false]
        have := hsp r hr s.sw hdd
        rw [hdd] at this; exact this
      · have : (s.ptr s.sw r != s.ptr (!s.sw) r) = true := by simpa using hdd
        simp only [this, if_true]
        intro h; apply hdd; exact Option.some.inj h
  · intro r hp hr
    rw [hb r]
    exact key r hr hp

/-! ### one `change` call -/

structure Inv (g : Graph V) (s : St V) : Prop where
  /-- the current buffer is a fresh evaluation at `last_values` -/
  cur : Coh g (content g s s.sw) s.lastValues
  /-- the other buffer is a fresh evaluation at `last_values` patched by `last_undo` -/
  other : s.lastUndo ≠ [] → Coh g (content g s (!s.sw)) (patch s.lastValues s.lastUndo)
  /-- no recycled array is about to be overwritten while the other buffer still points to it -/
  spare : SpareOK g s

/-- change lists as `testoptparvector` produces them: optimiser-parameter indices, each at most once -/
def ValidCh (g : Graph V) (ch : List (Nat × V)) : Prop :=
  (∀ p, p ∈ ch → p.1 < g.nOpt) ∧ (ch.map Prod.fst).Nodup

theorem tr_opt {g : Graph V} {k : Nat} {t : V → V} (h : g.cell k = .opt t) (v : V) : g.tr k v = t v := by
  simp [Graph.tr, h]

theorem isRec_opt {g : Graph V} {k : Nat} (h : (g.cell k).isOpt = true) : g.isRec k = false := by
  unfold Graph.isRec
  cases hc : g.cell k <;> simp_all [Cell.isOpt, Cell.recycled]

/-- the state at the top of the `if self.with_undo:` block: switch flipped, `last_undo` cleared -/
def flipped (s1 : St V) : St V := { s1 with sw := !s1.sw, lastUndo := [] }

theorem applyChanges_core (g : Graph V) (hwf : g.WF) (s1 : St V) (ch : List (Nat × V))
    (hv : ValidCh g ch) (hcur : Coh g (content g s1 s1.sw) s1.lastValues) (hsp : SpareOK g s1)
    (prog : List Nat) (hprog : prog = program g (ch.map (·.1)))
    (s2 : St V) (hs2 : s2 = prepare g (flipped s1) prog)
    (r3 : St V × List (Nat × V)) (hr3 : r3 = setPars g (!s1.sw) ch s2 [])
    (r4 : St V × Bool) (hr4 : r4 = runProg g (!s1.sw) prog r3.1) :
    (r4.2 = true → Coh g (content g r4.1 (!s1.sw)) (patch s1.lastValues ch)) ∧
    (∀ k, content g r4.1 s1.sw k = content g s1 s1.sw k) ∧
    SpareOK g r4.1 ∧ r4.1.sw = (!s1.sw) ∧ r4.1.lastValues = patch s1.lastValues ch ∧
    r4.1.lastUndo = [] ∧ r3.2 = ch.map (fun p => (p.1, s1.lastValues p.1)) ∧
    (r4.2 = false → ∀ c, ¬ Coh g c (patch s1.lastValues ch)) := by
  have hspA : SpareOK g (flipped s1) := hsp
  have hfsw : (flipped s1).sw = (!s1.sw) := rfl
  obtain ⟨hf1, hf2, hf3, hf4⟩ := prepare_fields g (flipped s1) prog
  obtain ⟨hsp2, hptr2⟩ := prepare_ptr g (flipped s1) prog hspA
  have hpb := prepare_base g (flipped s1) prog
  have hpd := prepare_data g (flipped s1) prog
  rw [← hs2] at hf1 hf2 hf3 hf4 hsp2 hptr2 hpb hpd
  rw [hfsw] at hf1 hptr2 hpb hpd
  simp only [Bool.not_not] at hpb hpd hptr2
  have hf2' : s2.lastValues = s1.lastValues := hf2
  have hf3' : s2.lastUndo = [] := hf3
  have hpb' : ∀ k, content g s2 s1.sw k = content g s1 s1.sw k := hpb
  have hpd' : ∀ k, (g.isRec k = true → k ∉ prog) → content g s2 (!s1.sw) k = content g s1 s1.sw k := hpd
  obtain ⟨c1, c2, c3, c4, c5, c6⟩ := setPars_spec g (!s1.sw) ch s2 [] hv.1
  rw [← hr3] at c1 c2 c3 c4 c5 c6
  simp only [Bool.not_not] at c3
  have hx' : r3.1.lastValues = patch s1.lastValues ch := by rw [c4, hf2']
  -- contents after setPars
  have hc3b : ∀ k, content g r3.1 s1.sw k = content g s1 s1.sw k := by
    intro k
    rw [← hpb' k]
    unfold content
    rw [c2, c1.1, c3]
  have hc3d : ∀ k, k ∉ ch.map Prod.fst → content g r3.1 (!s1.sw) k = content g s2 (!s1.sw) k := by
    intro k hk
    unfold content
    have := c5 k
    simp only [hk, if_false] at this
    rw [c2, c1.1, this]
  have L1 : ∀ k, k ∉ ch.map Prod.fst → (g.isRec k = true → k ∉ prog) →
      content g r3.1 (!s1.sw) k = content g s1 s1.sw k := by
    intro k hk hr
    rw [hc3d k hk]
    exact hpd' k hr
  have hidx : ∀ k, k ∈ ch.map Prod.fst → k < g.nOpt := by
    intro k hk
    obtain ⟨p, hp, rfl⟩ := List.mem_map.1 hk
    exact hv.1 p hp
  have hP : ∀ k, k < g.n → k ∉ prog → CohAt g (content g r3.1 (!s1.sw)) (patch s1.lastValues ch) k := by
    intro k hk hkp
    by_cases hki : k ∈ ch.map Prod.fst
    · have hopt : (g.cell k).isOpt = true := (hwf.2.1 k hk).2 (hidx k hki)
      have hrec := isRec_opt hopt
      unfold CohAt
      cases hc : g.cell k with
      | opt t =>
        simp only []
        have := c5 k
        simp only [hki, if_true] at this
        unfold content
        rw [hrec]
        simp only [Bool.false_eq_true, if_false]
        rw [this, tr_opt hc, hx']
      | const v => simp [hc, Cell.isOpt] at hopt
      | eval r a f => simp [hc, Cell.isOpt] at hopt
    · have hcl := program_closed g hwf _ k hk (hprog ▸ hkp)
      apply (hcur k hk).congr
      · exact L1 k hki (fun _ => hkp)
      · intro a ha
        exact L1 a (hcl a ha).1 (fun _ => hprog ▸ (hcl a ha).2)
      · intro _; exact patch_not_mem k ch _ hki
  have hAD : ArgsDone g prog := by
    intro k hk hkp a ha
    exact hprog ▸ (program_closed g hwf _ k hk (hprog ▸ hkp) a ha).2
  have hlt : ∀ j, j ∈ prog → j < g.n ∧ (g.cell j).args ≠ [] := by
    intro j hj
    rw [hprog] at hj
    exact ⟨(mem_program.1 hj).1, program_evals g _ j hj⟩
  have hptr3 : ∀ j, j ∈ prog → g.isRec j = true → r3.1.ptr (!s1.sw) j ≠ r3.1.ptr (!(!s1.sw)) j := by
    intro j hj hr
    rw [c1.1, Bool.not_not]
    exact hptr2 j hj hr
  have hrun := runProg_spec g hwf (!s1.sw) (patch s1.lastValues ch) prog r3.1
    (hprog ▸ program_sorted g _) hlt hAD hP hptr3
  rw [← hr4] at hrun
  obtain ⟨h1, h2, h3, h4, h8⟩ := hrun
  simp only [Bool.not_not] at h2
  refine ⟨h1, ?_, ?_, ?_, ?_, ?_, ?_, h8⟩
  · intro k; rw [h2 k]; exact hc3b k
  · intro r hr b heq
    rw [h3.1, c1.1] at heq ⊢
    rw [h3.2.1, c1.2.1]
    exact hsp2 r hr b heq
  · rw [h3.2.2.1, c1.2.2.1]; exact hf1
  · rw [h4]; exact hx'
  · rw [h3.2.2.2, c1.2.2.2]; exact hf3'
  · have := c6 hv.2
    simp only [List.nil_append] at this
    rw [this]
    apply List.map_congr_left
    intro p _
    rw [hf2']

theorem patch_changed (x : Nat → V) (ch : List (Nat × V)) :
    patch (patch x ch) (ch.map (fun p => (p.1, x p.1))) = x := by
  funext j
  rw [patch_restore]
  by_cases h : j ∈ ch.map Prod.fst
  · simp [h]
  · simp [h, patch_not_mem j ch x h]

def stage3 (g : Graph V) (s1 : St V) (ch : List (Nat × V)) : St V × List (Nat × V) :=
  setPars g (!s1.sw) ch (prepare g (flipped s1) (program g (ch.map (·.1)))) []
def stage4 (g : Graph V) (s1 : St V) (ch : List (Nat × V)) : St V × Bool :=
  runProg g (!s1.sw) (program g (ch.map (·.1))) (stage3 g s1 ch).1

theorem applyChanges_eq (g : Graph V) (s1 : St V) (ch : List (Nat × V)) :
    applyChanges g s1 ch =
      if (stage4 g s1 ch).2 then
        ({ (stage4 g s1 ch).1 with lastUndo := (stage3 g s1 ch).2 },
          some (content g (stage4 g s1 ch).1 (stage4 g s1 ch).1.sw (g.n - 1)))
      else
        ({ (stage4 g s1 ch).1 with sw := (!(stage4 g s1 ch).1.sw), lastValues := patch (stage4 g s1 ch).1.lastValues (stage3 g s1 ch).2, lastUndo := [] }, none) := rfl

/-- what one `applyChanges` (= `change` after its undo block) establishes -/
theorem applyChanges_spec (g : Graph V) (hwf : g.WF) (s1 : St V) (ch : List (Nat × V))
    (hv : ValidCh g ch) (hcur : Coh g (content g s1 s1.sw) s1.lastValues) (hsp : SpareOK g s1) :
    Inv g (applyChanges g s1 ch).1 ∧
    (∀ v, (applyChanges g s1 ch).2 = some v →
      (applyChanges g s1 ch).1.lastValues = patch s1.lastValues ch ∧
      v = content g (applyChanges g s1 ch).1 (applyChanges g s1 ch).1.sw (g.n - 1)) ∧
    ((applyChanges g s1 ch).2 = none →
      (applyChanges g s1 ch).1.lastValues = s1.lastValues ∧ (applyChanges g s1 ch).1.sw = s1.sw ∧
      ∀ k, content g (applyChanges g s1 ch).1 s1.sw k = content g s1 s1.sw k) ∧
    ((applyChanges g s1 ch).2 = none → ∀ c, ¬ Coh g c (patch s1.lastValues ch)) := by
  obtain ⟨h1, h2, h3, h4, h5, h6, h7, h8⟩ :=
    applyChanges_core g hwf s1 ch hv hcur hsp _ rfl _ rfl (stage3 g s1 ch) rfl (stage4 g s1 ch) rfl
  have hbase : Coh g (content g (stage4 g s1 ch).1 s1.sw) s1.lastValues := by
    intro k hk
    apply (hcur k hk).congr
    · exact h2 k
    · intro a _; exact h2 a
    · intro _; rfl
  rw [applyChanges_eq]
  cases hok : (stage4 g s1 ch).2 with
  | true =>
    simp only [if_true]
    refine ⟨⟨?_, ?_, ?_⟩, ?_, ?_, ?_⟩
    · show Coh g (content g (stage4 g s1 ch).1 (stage4 g s1 ch).1.sw) (stage4 g s1 ch).1.lastValues
      rw [h4, h5]; exact h1 hok
    · intro _
      show Coh g (content g (stage4 g s1 ch).1 (!(stage4 g s1 ch).1.sw))
        (patch (stage4 g s1 ch).1.lastValues (stage3 g s1 ch).2)
      rw [h4, h5, h7, patch_changed, Bool.not_not]
      exact hbase
    · exact h3
    · intro v hv'
      simp only [Option.some.injEq] at hv'
      exact ⟨h5, hv'.symm⟩
    · intro h; simp at h
    · intro h; simp at h
  | false =>
    simp only [Bool.false_eq_true, if_false]
    refine ⟨⟨?_, ?_, ?_⟩, ?_, ?_, fun _ => h8 hok⟩
    · show Coh g (content g (stage4 g s1 ch).1 (!(stage4 g s1 ch).1.sw))
        (patch (stage4 g s1 ch).1.lastValues (stage3 g s1 ch).2)
      rw [h4, h5, h7, patch_changed, Bool.not_not]
      exact hbase
    · intro h; exact absurd rfl h
    · exact h3
    · intro v h; simp at h
    · intro _
      refine ⟨?_, ?_, ?_⟩
      · show patch (stage4 g s1 ch).1.lastValues (stage3 g s1 ch).2 = _
        rw [h5, h7, patch_changed]
      · show (!(stage4 g s1 ch).1.sw) = _
        rw [h4, Bool.not_not]
      · exact h2

/-! ### the undo block and a whole `change` -/

theorem afterUndo_spec [DecidableEq V] (g : Graph V) (s : St V) (ch : List (Nat × V))
    (hI : Inv g s) (hv : ValidCh g ch) :
    Coh g (content g (afterUndo s ch).1 (afterUndo s ch).1.sw) (afterUndo s ch).1.lastValues ∧
    SpareOK g (afterUndo s ch).1 ∧ ValidCh g (afterUndo s ch).2 := by
  unfold afterUndo
  split
  · rename_i hu
    refine ⟨?_, hI.spare, ?_, ?_⟩
    · have hne : s.lastUndo ≠ [] := by
        intro h; simp [undoApplies, h] at hu
      exact hI.other hne
    · intro p hp
      exact hv.1 p (List.mem_filter.1 hp).1
    · exact hv.2.sublist ((List.filter_sublist).map _)
  · exact ⟨hI.cur, hI.spare, hv⟩

theorem change_spec [DecidableEq V] (g : Graph V) (hwf : g.WF) (s : St V) (ch : List (Nat × V))
    (hI : Inv g s) (hv : ValidCh g ch) :
    Inv g (change g s ch).1 ∧
    (∀ v, (change g s ch).2 = some v →
      v = content g (change g s ch).1 (change g s ch).1.sw (g.n - 1)) := by
  obtain ⟨h1, h2, h3⟩ := afterUndo_spec g s ch hI hv
  obtain ⟨a, b, _⟩ := applyChanges_spec g hwf (afterUndo s ch).1 (afterUndo s ch).2 h3 h1 h2
  exact ⟨a, fun v hv' => (b v hv').2⟩

/-! ### fresh evaluation -/

theorem getD_map_range (c : Nat → V) (m a : Nat) (h : a < m) :
    ((List.range m).map c).getD a default = c a := by
  simp [List.getD, h]

theorem evalFrom_complete (g : Graph V) (hwf : g.WF) (c x : Nat → V) (hc : Coh g c x) :
    ∀ (cs : List (Cell V)) (m : Nat), g.cells.drop m = cs → m ≤ g.n →
      evalFrom x cs ((List.range m).map c) = some ((List.range g.n).map c) := by
  intro cs
  induction cs with
  | nil =>
    intro m hd hm
    have : g.n ≤ m := by
      have := List.drop_eq_nil_iff.1 hd
      exact this
    have : m = g.n := by omega
    subst this
    rfl
  | cons cell cs ih =>
    intro m hd hm
    have hmn : m < g.n := by
      rcases Nat.lt_or_ge m g.n with h | h
      · exact h
      · have : g.cells.drop m = [] := List.drop_eq_nil_iff.2 h
        rw [this] at hd; cases hd
    have hlen : m < g.cells.length := hmn
    have hd' := List.drop_eq_getElem_cons hlen
    rw [hd'] at hd
    have hcell : g.cell m = cell := by
      unfold Graph.cell
      simp [List.getD, hlen]
      exact (List.cons.inj hd).1
    have hrest : g.cells.drop (m + 1) = cs := (List.cons.inj hd).2
    have hstep : ∀ v, v = c m → (List.range m).map c ++ [v] = (List.range (m + 1)).map c := by
      intro v hv; rw [List.range_succ, List.map_append, hv]; rfl
    have hcm := hc m hmn
    unfold CohAt at hcm
    rw [hcell] at hcm
    cases cell with
    | opt t =>
      simp only [evalFrom]
      rw [hstep _ (by simp [hcm])]
      exact ih (m + 1) hrest (by omega)
    | const v =>
      simp only [evalFrom]
      rw [hstep _ (by simp [hcm])]
      exact ih (m + 1) hrest (by omega)
    | eval r args f =>
      simp only [evalFrom]
      have : args.map (fun a => ((List.range m).map c).getD a default) = args.map c := by
        apply List.map_congr_left
        intro a ha
        have : a < m := hwf.1 m hmn a (by simp [hcell, Cell.args, ha])
        exact getD_map_range c m a this
      simp only [] at hcm
      rw [this, hcm]
      simp only []
      rw [hstep _ rfl]
      exact ih (m + 1) hrest (by omega)

/-- a consistent buffer *is* the fresh evaluation -/
theorem coh_evalFresh (g : Graph V) (hwf : g.WF) (c x : Nat → V) (hc : Coh g c x) :
    evalFresh g x = some ((List.range g.n).map c) :=
  evalFrom_complete g hwf c x hc g.cells 0 rfl (Nat.zero_le _)

theorem getD_append_left' (acc suf : List V) (a : Nat) (h : a < acc.length) :
    (acc ++ suf).getD a default = acc.getD a default := by
  simp [List.getD, List.getElem?_append_left h]

theorem evalFrom_sound (g : Graph V) (hwf : g.WF) (x : Nat → V) :
    ∀ (cs : List (Cell V)) (acc vs : List V), g.cells.drop acc.length = cs →
      evalFrom x cs acc = some vs →
      (∃ suf, vs = acc ++ suf) ∧
      ∀ k, acc.length ≤ k → k < g.n → CohAt g (fun k => vs.getD k default) x k := by
  intro cs
  induction cs with
  | nil =>
    intro acc vs hd he
    simp only [evalFrom, Option.some.injEq] at he
    subst he
    refine ⟨⟨[], by simp⟩, ?_⟩
    intro k hk hkn
    have := List.drop_eq_nil_iff.1 hd
    exact absurd hkn (by unfold Graph.n; omega)
  | cons cell cs ih =>
    intro acc vs hd he
    have hmn : acc.length < g.n := by
      rcases Nat.lt_or_ge acc.length g.n with h | h
      · exact h
      · have : g.cells.drop acc.length = [] := List.drop_eq_nil_iff.2 h
        rw [this] at hd; cases hd
    have hlen : acc.length < g.cells.length := hmn
    rw [List.drop_eq_getElem_cons hlen] at hd
    have hcell : g.cell acc.length = cell := by
      unfold Graph.cell
      simp [List.getD, hlen]
      exact (List.cons.inj hd).1
    have hrest : g.cells.drop (acc.length + 1) = cs := (List.cons.inj hd).2
    -- common tail of the three cases
    have tail : ∀ v, evalFrom x cs (acc ++ [v]) = some vs →
        (CohAt g (fun k => (acc ++ [v]).getD k default) x acc.length) →
        (∃ suf, vs = acc ++ suf) ∧
          ∀ k, acc.length ≤ k → k < g.n → CohAt g (fun k => vs.getD k default) x k := by
      intro v hev hco
      have hl : (acc ++ [v]).length = acc.length + 1 := by simp
      obtain ⟨⟨suf, hsuf⟩, hrestc⟩ := ih (acc ++ [v]) vs (by rw [hl]; exact hrest) hev
      refine ⟨⟨[v] ++ suf, by rw [hsuf]; simp⟩, ?_⟩
      intro k hk hkn
      rcases Nat.eq_or_lt_of_le hk with h | h
      · subst h
        apply hco.congr
        · show vs.getD acc.length default = (acc ++ [v]).getD acc.length default
          rw [hsuf]; exact getD_append_left' _ _ _ (by simp)
        · intro a ha
          have : a < acc.length := hwf.1 _ hkn a ha
          show vs.getD a default = (acc ++ [v]).getD a default
          rw [hsuf]; exact getD_append_left' _ _ _ (by simp; omega)
        · intro _; rfl
      · exact hrestc k (by rw [hl]; omega) hkn
    cases cell with
    | opt t =>
      simp only [evalFrom] at he
      apply tail _ he
      unfold CohAt; rw [hcell]
      simp [List.getD]
    | const v =>
      simp only [evalFrom] at he
      apply tail _ he
      unfold CohAt; rw [hcell]
      simp [List.getD]
    | eval r args f =>
      simp only [evalFrom] at he
      cases hf : f (args.map (fun a => acc.getD a default)) with
      | none => rw [hf] at he; simp at he
      | some v =>
        rw [hf] at he
        simp only [] at he
        apply tail v he
        unfold CohAt; rw [hcell]
        simp only []
        have : args.map (fun k => (acc ++ [v]).getD k default) = args.map (fun a => acc.getD a default) := by
          apply List.map_congr_left
          intro a ha
          have : a < acc.length := hwf.1 _ hmn a (by simp [hcell, Cell.args, ha])
          exact getD_append_left' _ _ _ this
        rw [this, hf]
        simp [List.getD]

theorem init_inv (g : Graph V) (hwf : g.WF) (x0 : Nat → V) (s0 : St V) (h : init g x0 = some s0) :
    Inv g s0 ∧ s0.lastValues = x0 ∧ s0.lastUndo = [] := by
  unfold init at h
  cases he : evalFresh g x0 with
  | none => rw [he] at h; simp at h
  | some vs =>
    rw [he] at h
    simp only [Option.some.injEq] at h
    subst h
    have hs := (evalFrom_sound g hwf x0 g.cells [] vs rfl he).2
    have hcont : ∀ b k, content g
        { val := fun _ k => vs.getD k default, ptr := fun b k => if isConstF g g.n k then false else b,
          heap := fun k _ => vs.getD k default, spare := fun _ => none, sw := false,
          lastValues := x0, lastUndo := [] } b k = vs.getD k default := by
      intro b k; unfold content; simp
    refine ⟨⟨?_, ?_, ?_⟩, rfl, rfl⟩
    · intro k hk
      apply (hs k (Nat.zero_le _) hk).congr
      · exact hcont _ k
      · intro a _; exact hcont _ a
      · intro _; rfl
    · intro h; exact absurd rfl h
    · intro r _ b _; simp

end CogentModel.Calc
