import CogentModel.Model.Optimiser
import Mathlib.Algebra.Group.Defs
import Mathlib.Algebra.Field.Defs
import Mathlib.Algebra.GroupWithZero.Units.Basic
/-! Helper lemmas for C16: the projected rule list describes the same exchangeability matrix. -/
namespace CogentModel.Optimiser

variable {N V : Type} [DecidableEq N] [Monoid V]

/-- `cellRate` with the monoid operations -/
abbrev rate (cs : Coords N) (rules : List (N × V)) (cell : Cell) : V :=
  cellRate (· * ·) (1 : V) cs rules cell

theorem foldr_mul_append (a b : List V) :
    (a ++ b).foldr (· * ·) 1 = a.foldr (· * ·) 1 * b.foldr (· * ·) 1 := by
  induction a with
  | nil => simp
  | cons x xs ih => simp [List.foldr_cons, ih, mul_assoc]

theorem rate_append (cs : Coords N) (l1 l2 : List (N × V)) (cell : Cell) :
    rate cs (l1 ++ l2) cell = rate cs l1 cell * rate cs l2 cell := by
  simp only [cellRate, List.filter_append, List.map_append, foldr_mul_append]

/-- the rules emitted for one simple rule `(sp, v)` contribute `v` to the cell iff … -/
theorem rate_targets (rich : Coords N) (ts : List N) (v : V) (cell : Cell) (k : Nat)
    (hk : (ts.filter (fun rp => (coordsOf rich rp).contains cell)).length = k) (hk1 : k ≤ 1) :
    rate rich (ts.map (fun rp => (rp, v))) cell = if k = 1 then v else 1 := by
  have e : ((ts.map (fun rp => (rp, v))).filter (fun r => (coordsOf rich r.1).contains cell)).map (·.2)
      = (ts.filter (fun rp => (coordsOf rich rp).contains cell)).map (fun _ => v) := by
    clear hk
    induction ts with
    | nil => rfl
    | cons t ts ih =>
      simp only [List.map_cons, List.filter_cons]
      split <;> simp_all
  simp only [cellRate, e]
  rcases Nat.le_one_iff_eq_zero_or_eq_one.mp hk1 with h0 | h1
  · subst h0
    rw [List.length_eq_zero_iff.mp hk]
    simp
  · subst h1
    obtain ⟨a, ha⟩ := List.length_eq_one_iff.mp hk
    rw [ha]
    simp

/-- the per-cell nesting condition for one simple parameter `sp`: the rich parameters that take
their value from `sp` cover the cell exactly once if `sp` covers it, and not at all otherwise -/
def CellNested (ref : N) (rich simple : Coords N) (ch : List (N × Option N)) (cell : Cell) (sp : N) : Prop :=
  ((targets ref rich ch sp).filter (fun rp => (coordsOf rich rp).contains cell)).length
    = if (coordsOf simple sp).contains cell then 1 else 0

theorem rate_single (cs : Coords N) (r : N × V) (cell : Cell) :
    rate cs [r] cell = if (coordsOf cs r.1).contains cell then r.2 else 1 := by
  simp only [cellRate, List.filter_cons, List.filter_nil]
  split <;> simp

theorem rate_projectSame (ref : N) (pass : N → Bool) (rich simple : Coords N)
    (ch : List (N × Option N)) (cell : Cell) (rules : List (N × V))
    (hn : ∀ r ∈ rules, pass r.1 = false → CellNested ref rich simple ch cell r.1)
    (hp : ∀ r ∈ rules, pass r.1 = true →
      (coordsOf rich r.1).contains cell = false ∧ (coordsOf simple r.1).contains cell = false) :
    rate rich (projectSame ref pass rich ch rules) cell = rate simple rules cell := by
  induction rules with
  | nil => rfl
  | cons r rs ih =>
    have ih' := ih (fun x hx => hn x (List.mem_cons_of_mem _ hx)) (fun x hx => hp x (List.mem_cons_of_mem _ hx))
    have hs : rate simple (r :: rs) cell = rate simple [r] cell * rate simple rs cell := by
      rw [← rate_append]; rfl
    unfold projectSame at ih' ⊢
    rw [List.flatMap_cons, rate_append, ih', hs, rate_single]
    congr 1
    by_cases hpass : pass r.1 = true
    · obtain ⟨h1, h2⟩ := hp r List.mem_cons_self hpass
      rw [if_pos hpass, rate_single, h1, h2]
    · have hpf : pass r.1 = false := by simpa using hpass
      have hc := hn r List.mem_cons_self hpf
      unfold CellNested at hc
      rw [if_neg hpass]
      by_cases hcov : (coordsOf simple r.1).contains cell = true
      · rw [if_pos hcov] at hc ⊢
        rw [rate_targets rich _ r.2 cell 1 hc (Nat.le_refl _)]
        simp
      · rw [if_neg hcov] at hc ⊢
        rw [rate_targets rich _ r.2 cell 0 hc (by omega)]
        simp

/-- what the executable predicate `nestedSame` gives -/
theorem nestedSame_spec {ref : N} {rich simple : Coords N} (h : nestedSame ref rich simple = true) :
    ∃ ch, chosenAll rich simple = .ok ch ∧
      ∀ sp ∈ simple, sp.1 ≠ ref → ∀ cell ∈ cellsOf rich ++ cellsOf simple,
        CellNested ref rich simple ch cell sp.1 := by
  unfold nestedSame at h
  split at h
  · cases h
  · split at h
    · cases h
    · rename_i ch hch
      refine ⟨ch, hch, ?_⟩
      intro sp hsp hne cell hcell
      rw [List.all_eq_true] at h
      have h1 := h sp hsp
      rw [Bool.or_eq_true] at h1
      rcases h1 with h1 | h1
      · exact absurd (by simpa using h1) hne
      · rw [List.all_eq_true] at h1
        have h2 := h1 cell hcell
        unfold CellNested
        exact (beq_iff_eq.mp h2)

/-! ### the not-same (stationary → non-stationary) projection -/
section
variable {N V : Type} [DecidableEq N] [Field V]

theorem projectNotSame_spec (pi : Nat → V) (ref : N) (pass : N → Bool) (rich : Coords N)
    (ch : List (N × Option N)) (rules out : List (N × V))
    (h : projectNotSame (· * ·) (· / ·) 1 pi ref pass rich ch rules = .ok out) :
    ∃ rc, (coordsOf rich ref).head? = some rc ∧
      ∀ p ∈ out, (pass p.1 = true ∧ p ∈ rules ++ [(ref, 1)]) ∨
        ∃ r ∈ rules ++ [(ref, (1 : V))], pass r.1 = false ∧ p.1 ∈ targets ref rich ch r.1 ∧
          (pi rc.2 ≠ 0 → p.2 * pi rc.2 = pi ((lastCol (coordsOf rich p.1)).getD 0) * r.2) := by
  unfold projectNotSame at h
  split at h
  · cases h
  · rename_i rc hrc
    refine ⟨rc, hrc, ?_⟩
    cases h
    intro p hp
    rw [List.mem_flatMap] at hp
    obtain ⟨r, hr, hpr⟩ := hp
    by_cases hpass : pass r.1 = true
    · rw [if_pos hpass] at hpr
      simp at hpr
      subst hpr
      exact Or.inl ⟨hpass, hr⟩
    · rw [if_neg hpass] at hpr
      rw [List.mem_map] at hpr
      obtain ⟨rp, hrp, rfl⟩ := hpr
      refine Or.inr ⟨r, hr, by simpa using hpass, hrp, ?_⟩
      intro hne
      exact div_mul_cancel₀ _ hne
end

end CogentModel.Optimiser
