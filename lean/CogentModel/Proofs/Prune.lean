import Mathlib.Algebra.BigOperators.Ring.Finset
import Mathlib.Algebra.BigOperators.Ring.List
import Mathlib.Algebra.BigOperators.Group.List.Basic
import CogentModel.Model.Prune
/-!
Helper lemmas for C02 / C11 (pruning model).  Part 1: the memo table is the identity,
the model's loops are finite sums, pruning equals the sum over all labelings.
-/
namespace CogentModel.Prune
open Finset

/-! ### bridges from the executable definitions to big operators -/

theorem tabulate_eq {R : Type} (m : Nat) (f : Nat → R) : tabulate m f = ⟨f⟩ := by
  simp only [tabulate, Vec.mk.injEq]
  funext i
  by_cases h : i < m <;> simp [h]

@[simp] theorem tabulate_get {R : Type} (m : Nat) (f : Nat → R) (i : Nat) : (tabulate m f).get i = f i := by
  rw [tabulate_eq]

theorem sumOver_eq {R : Type} [AddCommMonoid R] (m : Nat) (f : Nat → R) :
    sumOver m f = ∑ i ∈ range m, f i := by
  induction m with
  | zero => simp [sumOver]
  | succ n ih => rw [sumOver, ih, Finset.sum_range_succ]

theorem list_range_sum {R : Type} [AddCommMonoid R] (m : Nat) (f : Nat → R) :
    ((List.range m).map f).sum = ∑ i ∈ range m, f i := by
  induction m with
  | zero => simp
  | succ n ih => rw [List.range_succ, List.map_append, List.sum_append, ih, Finset.sum_range_succ]; simp

theorem sum_map_flatMap {R ι κ : Type} [AddCommMonoid R] (xs : List ι) (f : ι → List κ) (g : κ → R) :
    ((xs.flatMap f).map g).sum = (xs.map fun x => ((f x).map g).sum).sum := by
  induction xs with
  | nil => simp
  | cons x xs ih => simp [List.flatMap_cons, List.map_append, List.sum_append, ih]

section semiring
variable {R : Type} [CommSemiring R] {α : Type}

/-! ### recursion equations of the pruning model in sum form -/

@[simp] theorem plh_leaf (m : Nat) (prof : α → Nat → R) (P : Mat R) (a : α) (s : Nat) :
    (plh m prof (.leaf P a)).get s = prof a s := by
  simp [plh]

theorem plh_node (m : Nat) (prof : α → Nat → R) (P : Mat R) (cs : List (PTree R α)) :
    plh m prof (.node P cs) = prodUp m prof cs := by
  simp [plh]

@[simp] theorem prodUp_nil (m : Nat) (prof : α → Nat → R) (s : Nat) :
    (prodUp m prof ([] : List (PTree R α))).get s = 1 := by
  simp [prodUp]

theorem up_get (m : Nat) (prof : α → Nat → R) (c : PTree R α) (s : Nat) :
    (up m prof c).get s = ∑ s' ∈ range m, c.mat s s' * (plh m prof c).get s' := by
  simp [up, upWith, sumOver_eq]

theorem prodUp_cons (m : Nat) (prof : α → Nat → R) (c : PTree R α) (cs : List (PTree R α)) (s : Nat) :
    (prodUp m prof (c :: cs)).get s = (up m prof c).get s * (prodUp m prof cs).get s := by
  simp [prodUp, mulVec, up]

theorem lh_eq (m : Nat) (π : Nat → R) (prof : α → Nat → R) (t : PTree R α) :
    lh m π prof t = ∑ s ∈ range m, (plh m prof t).get s * π s := by
  simp [lh, dot, sumOver_eq]

/-! ### the labelings -/

omit [CommSemiring R] in
theorem labelingsAt_mat_state (keep : α → Nat → Bool) (m : Nat) (t : PTree R α) (s : Nat)
    (l : LTree R α) (h : l ∈ labelingsAt keep m t s) : l.mat = t.mat ∧ l.state = s := by
  cases t with
  | leaf P a =>
    simp only [labelingsAt] at h
    split at h
    · simp at h; subst h; simp [LTree.mat, LTree.state, PTree.mat]
    · simp at h
  | node P cs =>
    simp only [labelingsAt, List.mem_map] at h
    obtain ⟨ls, _, rfl⟩ := h
    simp [LTree.mat, LTree.state, PTree.mat]

mutual
theorem plh_eq_sum_labelings (keep : α → Nat → Bool) (m : Nat) (prof : α → Nat → R)
    (hk : ∀ a s, keep a s = false → prof a s = 0) :
    ∀ (t : PTree R α) (s : Nat),
      (plh m prof t).get s = ((labelingsAt keep m t s).map (weight prof)).sum
  | .leaf P a, s => by
    simp only [plh_leaf, labelingsAt]
    cases hks : keep a s
    · simp [hk a s hks]
    · simp [weight]
  | .node P cs, s => by
    rw [plh_node, prodUp_eq_sum_labelings keep m prof hk cs s]
    simp only [labelingsAt, List.map_map]
    congr 1
theorem prodUp_eq_sum_labelings (keep : α → Nat → Bool) (m : Nat) (prof : α → Nat → R)
    (hk : ∀ a s, keep a s = false → prof a s = 0) :
    ∀ (cs : List (PTree R α)) (s : Nat),
      (prodUp m prof cs).get s = ((labelingsL keep m cs).map (weightL prof s)).sum
  | [], s => by simp [labelingsL, weightL]
  | c :: cs, s => by
    rw [prodUp_cons, up_get, prodUp_eq_sum_labelings keep m prof hk cs s]
    simp only [labelingsL]
    rw [sum_map_flatMap, list_range_sum, Finset.sum_mul]
    refine Finset.sum_congr rfl fun s' _ => ?_
    rw [sum_map_flatMap, plh_eq_sum_labelings keep m prof hk c s']
    have inner : ∀ l ∈ labelingsAt keep m c s',
        ((List.map (fun ls => l :: ls) (labelingsL keep m cs)).map (weightL prof s)).sum
          = (c.mat s s' * weight prof l) * ((labelingsL keep m cs).map (weightL prof s)).sum := by
      intro l hl
      obtain ⟨hm, hs⟩ := labelingsAt_mat_state keep m c s' l hl
      rw [List.map_map, ← List.sum_map_mul_left]
      congr 1
      refine List.map_congr_left fun ls _ => ?_
      simp [weightL, hm, hs]
    rw [List.map_congr_left inner, List.sum_map_mul_right, List.sum_map_mul_left]
end

theorem lh_eq_bruteForce_keep (keep : α → Nat → Bool) (m : Nat) (π : Nat → R) (prof : α → Nat → R)
    (hk : ∀ a s, keep a s = false → prof a s = 0) (t : PTree R α) :
    lh m π prof t = bruteForce keep m π prof t := by
  rw [lh_eq, bruteForce, labelings, sum_map_flatMap, list_range_sum]
  refine Finset.sum_congr rfl fun s _ => ?_
  rw [plh_eq_sum_labelings keep m prof hk t s, ← List.sum_map_mul_right]
  congr 1
  refine List.map_congr_left fun l hl => ?_
  rw [(labelingsAt_mat_state keep m t s l hl).2]

end semiring

end CogentModel.Prune
