/-
  C18 — helper lemmas for the translation tie of the gap-dict helpers of app/align.py:
  the definitions GENERATED from the Python source (Gen/C18Gaps.lean) equal the hand model (Model/GapMerge.lean).
  Core only.
-/
import CogentModel.Gen.C18Gaps
import CogentModel.Gen.C18Pog

namespace CogentModel.C18Gen
open CogentModel.GapMerge
open CogentModel.Gen

/-- the generated object read as the hand model's structure -/
def toModel (G : C18Gaps.GapOffsetG) : GapOffset :=
  { store := G.store, minPos := G.min_pos.getD 0, maxPos := G.max_pos, total := G.total, invert := G.invert }

theorem gen_gapOffsetInit_loop (invert : Bool) (s : Gaps) (res : Gaps) (cum gp : Int) :
    C18Gaps.gapOffsetInit_loop1 invert s (res, cum, gp) =
      ((goLoop invert s cum res gp).1, (goLoop invert s cum res gp).2.1, (goLoop invert s cum res gp).2.2) := by
  induction s generalizing res cum gp with
  | nil => simp [C18Gaps.gapOffsetInit_loop1, goLoop]
  | cons x r ih =>
    obtain ⟨p, l⟩ := x
    simp only [C18Gaps.gapOffsetInit_loop1, goLoop]
    rw [ih]

theorem sortGaps_eq_nil (g : Gaps) : sortGaps g = [] ↔ g = [] := by
  cases g with
  | nil => simp [sortGaps]
  | cons x r =>
    obtain ⟨k, v⟩ := x
    simp only [sortGaps, reduceCtorEq, iff_false]
    cases h : sortGaps r with
    | nil => simp [insertKey]
    | cons y t => obtain ⟨k', v'⟩ := y; simp only [insertKey]; split <;> simp

theorem gen_gapOffsetInit (g : Gaps) (invert : Bool) :
    toModel (C18Gaps.gapOffsetInit g invert) = GapOffset.mk' g invert := by
  unfold C18Gaps.gapOffsetInit GapOffset.mk' toModel
  simp only [gen_gapOffsetInit_loop]
  congr 1
  · cases g with
    | nil => simp [sortGaps]
    | cons x r => simp [C18Gaps.minKey]; rfl

theorem gen_gapOffsetGetitem (G : C18Gaps.GapOffsetG) (index : Int) :
    C18Gaps.gapOffsetGetitem G index = (toModel G).get index := by
  unfold C18Gaps.gapOffsetGetitem GapOffset.get toModel
  simp only
  cases hs : G.store with
  | nil => simp
  | cons x r =>
    simp only [List.isEmpty_cons, Bool.not_false, Bool.not_true, Bool.false_eq_true, if_false, reduceCtorEq]
    cases hd : dget (x :: r) index with
    | some v => simp
    | none =>
      simp only [Option.isSome_none, Bool.false_eq_true, if_false, decide_eq_true_eq]
      split
      · rfl
      · split
        · rfl
        · cases G.invert <;> simp


/-! ### `_gap_difference` -/

theorem dset_fresh (g : Gaps) (k v : Int) (h : dget g k = none) : dset g k v = g ++ [(k, v)] := by
  induction g with
  | nil => rfl
  | cons x r ih =>
    obtain ⟨k', v'⟩ := x
    simp only [dget] at h
    split at h
    · cases h
    · rename_i hne
      simp [dset, hne, ih h]

theorem dget_append_fresh (g : Gaps) (k v x : Int) (h : dget g x = none) (hne : k ≠ x) : dget (g ++ [(k, v)]) x = none := by
  induction g with
  | nil => simp [dget, hne]
  | cons y r ih =>
    obtain ⟨k', v'⟩ := y
    simp only [dget] at h
    split at h
    · cases h
    · rename_i hne'
      simp [dget, hne', ih h]

theorem gen_gapDifference_loop (seq u : Gaps) (hnd : (u.map (·.1)).Nodup) (m o : Gaps)
    (hf : ∀ x ∈ u, dget m x.1 = none ∧ dget o x.1 = none) :
    C18Gaps.gapDifference_loop1 seq u (m, o) = (m ++ (gapDifference seq u).1, o ++ (gapDifference seq u).2) := by
  induction u generalizing m o with
  | nil => simp [C18Gaps.gapDifference_loop1, gapDifference]
  | cons x r ih =>
    obtain ⟨p, l⟩ := x
    simp only [List.map_cons, List.nodup_cons, List.mem_map, not_exists, not_and] at hnd
    obtain ⟨hp, hr⟩ := hnd
    have hm := (hf (p, l) (by simp)).1
    have ho := (hf (p, l) (by simp)).2
    have hne : ∀ x ∈ r, p ≠ x.1 := fun x hx e => hp x hx e.symm
    simp only [C18Gaps.gapDifference_loop1, gapDifference]
    cases hd : dget seq p with
    | none =>
      simp only [Option.isSome_none, Bool.not_false, if_true]
      rw [dset_fresh m p l hm, ih hr]
      · simp
      · intro x hx
        exact ⟨dget_append_fresh m p l x.1 (hf x (by simp [hx])).1 (hne x hx), (hf x (by simp [hx])).2⟩
    | some l' =>
      simp only [Option.isSome_some, Bool.not_true, Bool.false_eq_true, if_false, Option.getD_some, decide_eq_true_eq, ne_eq]
      by_cases hl : l' = l
      · simp only [hl, not_true_eq_false, if_false]
        rw [ih hr]
        intro x hx
        exact ⟨(hf x (by simp [hx])).1, (hf x (by simp [hx])).2⟩
      · simp only [hl, not_false_eq_true, if_true]
        rw [dset_fresh o p _ ho, ih hr]
        · simp
        · intro x hx
          exact ⟨(hf x (by simp [hx])).1, dget_append_fresh o p _ x.1 (hf x (by simp [hx])).2 (hne x hx)⟩

/-- `_gap_difference`, for every pair of dicts (unique keys in the iterated one) -/
theorem gen_gapDifference (seq u : Gaps) (hnd : (u.map (·.1)).Nodup) :
    C18Gaps.gapDifference seq u = gapDifference seq u := by
  unfold C18Gaps.gapDifference
  simp only [gen_gapDifference_loop seq u hnd [] [] (fun _ _ => ⟨rfl, rfl⟩), List.nil_append]

/-! ### `_subset_gaps_to_align_coords`, `_combined_refseq_gaps` -/

theorem gen_subset_loop (G : C18Gaps.GapOffsetG) (sub orig l res : Gaps) :
    C18Gaps.subsetGapsToAlignCoords_loop1 G sub orig l res = subsetToAlign orig (toModel G) l res := by
  induction l generalizing res with
  | nil => rfl
  | cons x r ih =>
    obtain ⟨p, v⟩ := x
    simp only [C18Gaps.subsetGapsToAlignCoords_loop1, subsetToAlign, gen_gapOffsetGetitem, ih]

theorem gen_subsetGapsToAlignCoords (G : C18Gaps.GapOffsetG) (sub orig : Gaps) :
    C18Gaps.subsetGapsToAlignCoords sub orig G = subsetToAlign orig (toModel G) sub [] := by
  unfold C18Gaps.subsetGapsToAlignCoords
  simp only [gen_subset_loop]

theorem gen_combined_loop (G : C18Gaps.GapOffsetG) (d l res : Gaps) :
    C18Gaps.combinedRefseqGaps_loop1 d G l res = updateDiff (toModel G) l res := by
  induction l generalizing res with
  | nil => rfl
  | cons x r ih =>
    obtain ⟨p, v⟩ := x
    simp only [C18Gaps.combinedRefseqGaps_loop1, updateDiff, gen_gapOffsetGetitem, ih]

theorem gen_combinedRefseqGaps (seq u : Gaps) (hnd : (u.map (·.1)).Nodup) :
    C18Gaps.combinedRefseqGaps seq u = combinedRefseqGaps seq u := by
  unfold C18Gaps.combinedRefseqGaps combinedRefseqGaps
  simp only [gen_combined_loop, gen_subsetGapsToAlignCoords, gen_gapOffsetInit, gen_gapDifference seq u hnd]

/-! ### `_gaps_for_injection` (the code in /repo = the model's `fixed = false` variant) -/

theorem gen_inject_loop (G : C18Gaps.GapOffsetG) (so : Gaps) (seqlen : Int) (l all : Gaps) :
    C18Gaps.gapsForInjection_loop1 G seqlen l all = injectLoop false (toModel G) so seqlen l all := by
  induction l generalizing all with
  | nil => rfl
  | cons x r ih =>
    obtain ⟨gp, gl⟩ := x
    simp only [C18Gaps.gapsForInjection_loop1, injectLoop, injectPos, gen_gapOffsetGetitem, Bool.false_eq_true, if_false,
      decide_eq_true_eq]
    split
    · rfl
    · rw [ih]
      cases dget all (min seqlen (gp - (toModel G).get gp)) <;> simp

theorem gen_gapsForInjection (other ref : Gaps) (seqlen : Int) :
    C18Gaps.gapsForInjection other ref seqlen = gapsForInjection false other ref seqlen := by
  unfold C18Gaps.gapsForInjection gapsForInjection
  simp only [C18Gaps.dupdate, List.isEmpty_nil, if_true, gen_inject_loop _ (sortGaps other), gen_gapOffsetInit]
  cases injectLoop false (GapOffset.mk' other true) (sortGaps other) seqlen (sortGaps ref) other <;> rfl

theorem gen_mergedGaps (a b : Gaps) : C18Gaps.mergedGaps a b = mergedGaps a b := by
  unfold C18Gaps.mergedGaps mergedGaps
  cases a <;> cases b <;> simp


/-! ### `pog_traceback` (Gen/C18Pog.lean) = `Progressive.pogTraceback` -/
section pog
open CogentModel.Progressive

theorem foldl_append_map {α β : Type} (f : α → β) (l : List α) (out : List β) :
    l.foldl (fun out p => out ++ [f p]) out = out ++ l.map f := by
  induction l generalizing out with
  | nil => simp
  | cons x r ih => simp [ih]

theorem addSkipped_eq (d : Bool) (s e : Nat) (out : List Pos) :
    C18Pog.addSkipped (if d then 1 else 0) s e out = out ++ skipped d s e := by
  unfold C18Pog.addSkipped skipped C18Pog.addAligned
  rw [foldl_append_map (fun p => C18Pog.setDim (if d then 1 else 0) (some p) (none, none))]
  cases d <;> simp [C18Pog.setDim]

theorem gen_pog_loop (n1 n2 : Nat) (l : List Pos) (u0 u1 : Nat) (out : List Pos) :
    (C18Pog.pogTraceback_loop l (u0, u1, out)).2.2
        ++ skipped false (C18Pog.pogTraceback_loop l (u0, u1, out)).1 n1
        ++ skipped true (C18Pog.pogTraceback_loop l (u0, u1, out)).2.1 n2
      = out ++ pogLoop n1 n2 l u0 u1 := by
  induction l generalizing u0 u1 out with
  | nil => simp [C18Pog.pogTraceback_loop, pogLoop]
  | cons p r ih =>
    obtain ⟨a, b⟩ := p
    have h0 := addSkipped_eq false
    have h1 := addSkipped_eq true
    simp only [Bool.false_eq_true, if_false, if_true] at h0 h1
    cases a <;> cases b <;>
      simp only [C18Pog.pogTraceback_loop, pogLoop, skipTo, nextUpto, C18Pog.addAligned, h0, h1, ih] <;> simp

theorem gen_pogTraceback (n1 n2 : Nat) (ap : List Pos) :
    C18Pog.pogTraceback n1 n2 ap = pogTraceback n1 n2 ap := by
  have h0 := addSkipped_eq false
  have h1 := addSkipped_eq true
  simp only [Bool.false_eq_true, if_false, if_true] at h0 h1
  unfold C18Pog.pogTraceback pogTraceback
  simp only [h0, h1]
  have := gen_pog_loop n1 n2 ap 0 0 []
  simpa using this


end pog

end CogentModel.C18Gen
