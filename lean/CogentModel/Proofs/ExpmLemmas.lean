import CogentModel.Proofs.RateMatrixLemmas
/-! C05 helper lemmas: row sums of the rational exponentiators (Taylor, Padé, Gauss–Jordan `solve`). -/
set_option linter.unusedSectionVars false

namespace CogentModel.Expm
open CogentModel.RateMatrix Finset

variable {K : Type*} [Field K]

def RowsZero (n : Nat) (A : Mat K) : Prop := ∀ i, i < n → ∑ j ∈ range n, mget A i j = 0
def RowsOne (n : Nat) (A : Mat K) : Prop := ∀ i, i < n → ∑ j ∈ range n, mget A i j = 1

theorem mget_matMul (n : Nat) (A B : Mat K) {i j : Nat} (hi : i < n) (hj : j < n) :
    mget (matMul n A B) i j = ∑ k ∈ range n, mget A i k * mget B k j := by
  unfold matMul; rw [mget_tab _ hi hj, sumTo_eq_sum]

theorem mget_matAdd (n : Nat) (A B : Mat K) {i j : Nat} (hi : i < n) (hj : j < n) :
    mget (matAdd n A B) i j = mget A i j + mget B i j := by unfold matAdd; rw [mget_tab _ hi hj]
theorem mget_matSub (n : Nat) (A B : Mat K) {i j : Nat} (hi : i < n) (hj : j < n) :
    mget (matSub n A B) i j = mget A i j - mget B i j := by unfold matSub; rw [mget_tab _ hi hj]
theorem mget_matScale (n : Nat) (c : K) (A : Mat K) {i j : Nat} (hi : i < n) (hj : j < n) :
    mget (matScale n c A) i j = c * mget A i j := by unfold matScale; rw [mget_tab _ hi hj]
theorem mget_matDivS (n : Nat) (c : K) (A : Mat K) {i j : Nat} (hi : i < n) (hj : j < n) :
    mget (matDivS n A c) i j = mget A i j / c := by unfold matDivS; rw [mget_tab _ hi hj]
theorem mget_ident (n : Nat) {i j : Nat} (hi : i < n) (hj : j < n) :
    mget (ident n : Mat K) i j = if i = j then 1 else 0 := by unfold ident; rw [mget_tab _ hi hj]

theorem rowsum_congr (n : Nat) (A : Mat K) (f : Nat → Nat → K) (h : ∀ i j, i < n → j < n → mget A i j = f i j)
    {i : Nat} (hi : i < n) : ∑ j ∈ range n, mget A i j = ∑ j ∈ range n, f i j :=
  Finset.sum_congr rfl fun j hj => h i j hi (Finset.mem_range.mp hj)

theorem rowsOne_ident (n : Nat) : RowsOne n (ident n : Mat K) := by
  intro i hi
  rw [rowsum_congr n _ _ (fun a b ha hb => mget_ident n ha hb) hi, Finset.sum_ite_eq, if_pos (Finset.mem_range.mpr hi)]

/-- `(X·A)·1 = X·(A·1)` -/
theorem rowsum_matMul (n : Nat) (X A : Mat K) {i : Nat} (hi : i < n) :
    ∑ j ∈ range n, mget (matMul n X A) i j = ∑ k ∈ range n, mget X i k * ∑ j ∈ range n, mget A k j := by
  rw [rowsum_congr n _ _ (fun a b ha hb => mget_matMul n X A ha hb) hi, Finset.sum_comm]
  exact Finset.sum_congr rfl fun k _ => (Finset.mul_sum _ _ _).symm

theorem rowsZero_matMul (n : Nat) (X A : Mat K) (hA : RowsZero n A) : RowsZero n (matMul n X A) := by
  intro i hi
  rw [rowsum_matMul n X A hi]
  exact Finset.sum_eq_zero fun k hk => by rw [hA k (Finset.mem_range.mp hk), mul_zero]

theorem rowsOne_matMul (n : Nat) (X A : Mat K) (hX : RowsOne n X) (hA : RowsOne n A) : RowsOne n (matMul n X A) := by
  intro i hi
  rw [rowsum_matMul n X A hi, ← hX i hi]
  exact Finset.sum_congr rfl fun k hk => by rw [hA k (Finset.mem_range.mp hk), mul_one]

theorem rowsZero_matDivS (n : Nat) (A : Mat K) (c : K) (hA : RowsZero n A) : RowsZero n (matDivS n A c) := by
  intro i hi
  rw [rowsum_congr n _ _ (fun a b ha hb => mget_matDivS n c A ha hb) hi, ← Finset.sum_div, hA i hi, zero_div]

theorem rowsZero_matScale (n : Nat) (A : Mat K) (c : K) (hA : RowsZero n A) : RowsZero n (matScale n c A) := by
  intro i hi
  rw [rowsum_congr n _ _ (fun a b ha hb => mget_matScale n c A ha hb) hi, ← Finset.mul_sum, hA i hi, mul_zero]

theorem rowsOne_add_zero (n : Nat) (A B : Mat K) (hA : RowsOne n A) (hB : RowsZero n B) : RowsOne n (matAdd n A B) := by
  intro i hi
  rw [rowsum_congr n _ _ (fun a b ha hb => mget_matAdd n A B ha hb) hi, Finset.sum_add_distrib, hA i hi, hB i hi, add_zero]

theorem rowsOne_sub_zero (n : Nat) (A B : Mat K) (hA : RowsOne n A) (hB : RowsZero n B) : RowsOne n (matSub n A B) := by
  intro i hi
  rw [rowsum_congr n _ _ (fun a b ha hb => mget_matSub n A B ha hb) hi, Finset.sum_sub_distrib, hA i hi, hB i hi, sub_zero]

theorem rowsOne_sqN (n : Nat) : ∀ (j : Nat) (F : Mat K), RowsOne n F → RowsOne n (sqN n j F) := by
  intro j
  induction j with
  | zero => intro F h; simpa [sqN] using h
  | succ j ih => intro F h; rw [sqN]; exact ih _ (rowsOne_matMul n F F h h)

/-! Taylor -/
theorem taylorLoop_rowsOne (n : Nat) (A : Mat K) (hA : RowsZero n A) :
    ∀ (m k : Nat) (eA trm : Mat K), RowsOne n eA → RowsOne n (taylorLoop n A m k eA trm).1 := by
  intro m
  induction m with
  | zero => intro k eA trm h; simpa [taylorLoop] using h
  | succ m ih =>
    intro k eA trm h
    rw [taylorLoop]
    exact ih _ _ _ (rowsOne_add_zero n _ _ h (rowsZero_matMul n _ _ (rowsZero_matDivS n A _ hA)))


/-- entrywise equality on the `n × n` block -/
def EntryEq (n : Nat) (A B : Mat K) : Prop := ∀ i j, i < n → j < n → mget A i j = mget B i j
def EntryZero (n : Nat) (A : Mat K) : Prop := ∀ i j, i < n → j < n → mget A i j = 0

theorem entryZero_matMul (n : Nat) (X A : Mat K) (hA : EntryZero n A) : EntryZero n (matMul n X A) := by
  intro i j hi hj
  rw [mget_matMul n X A hi hj]
  exact Finset.sum_eq_zero fun k hk => by rw [hA k j (Finset.mem_range.mp hk) hj, mul_zero]

theorem entryZero_matMul_left (n : Nat) (A X : Mat K) (hA : EntryZero n A) : EntryZero n (matMul n A X) := by
  intro i j hi hj
  rw [mget_matMul n A X hi hj]
  exact Finset.sum_eq_zero fun k hk => by rw [hA i k hi (Finset.mem_range.mp hk), zero_mul]

theorem entryZero_matDivS (n : Nat) (A : Mat K) (c : K) (hA : EntryZero n A) : EntryZero n (matDivS n A c) := by
  intro i j hi hj; rw [mget_matDivS n c A hi hj, hA i j hi hj, zero_div]

theorem entryZero_matScale (n : Nat) (A : Mat K) (c : K) (hA : EntryZero n A) : EntryZero n (matScale n c A) := by
  intro i j hi hj; rw [mget_matScale n c A hi hj, hA i j hi hj, mul_zero]

theorem entryEq_add_zero (n : Nat) (A B I : Mat K) (hA : EntryEq n A I) (hB : EntryZero n B) : EntryEq n (matAdd n A B) I := by
  intro i j hi hj; rw [mget_matAdd n A B hi hj, hA i j hi hj, hB i j hi hj, add_zero]

theorem entryEq_sub_zero (n : Nat) (A B I : Mat K) (hA : EntryEq n A I) (hB : EntryZero n B) : EntryEq n (matSub n A B) I := by
  intro i j hi hj; rw [mget_matSub n A B hi hj, hA i j hi hj, hB i j hi hj, sub_zero]


section taylor
variable [LT K] [DecidableLT K] [LE K] [DecidableLE K]

theorem taylorExtend_rowsOne (n : Nat) (rtol atol : K) (A : Mat K) (hA : RowsZero n A) :
    ∀ (fuel k : Nat) (eA trm : Mat K), RowsOne n eA → RowsOne n (taylorExtend n rtol atol A fuel k eA trm).1 := by
  intro fuel
  induction fuel with
  | zero => intro k eA trm h; simpa [taylorExtend] using h
  | succ fuel ih =>
    intro k eA trm h
    rw [taylorExtend]
    split
    · exact h
    · exact ih _ _ _ (rowsOne_add_zero n _ _ h (rowsZero_matMul n _ _ (rowsZero_matDivS n A _ hA)))

theorem taylor_rowsOne (n : Nat) (rtol atol : K) (Q : Mat K) (t : K) (q fuel : Nat) (hQ : RowsZero n Q) :
    RowsOne n (taylor n rtol atol Q t q fuel).1 := by
  unfold taylor taylorFixed
  have hA := rowsZero_matScale n Q t hQ
  exact taylorExtend_rowsOne n rtol atol _ hA _ _ _ _ (taylorLoop_rowsOne n _ hA _ _ _ _ (rowsOne_ident n))

theorem taylorLoop_zero (n : Nat) (A : Mat K) (hA : EntryZero n A) :
    ∀ (m k : Nat) (eA trm : Mat K), EntryEq n eA (ident n) → EntryEq n (taylorLoop n A m k eA trm).1 (ident n) := by
  intro m
  induction m with
  | zero => intro k eA trm h; simpa [taylorLoop] using h
  | succ m ih =>
    intro k eA trm h
    rw [taylorLoop]
    exact ih _ _ _ (entryEq_add_zero n _ _ _ h (entryZero_matMul n _ _ (entryZero_matDivS n A _ hA)))

theorem taylorExtend_zero (n : Nat) (rtol atol : K) (A : Mat K) (hA : EntryZero n A) :
    ∀ (fuel k : Nat) (eA trm : Mat K), EntryEq n eA (ident n) →
      EntryEq n (taylorExtend n rtol atol A fuel k eA trm).1 (ident n) := by
  intro fuel
  induction fuel with
  | zero => intro k eA trm h; simpa [taylorExtend] using h
  | succ fuel ih =>
    intro k eA trm h
    rw [taylorExtend]
    split
    · exact h
    · exact ih _ _ _ (entryEq_add_zero n _ _ _ h (entryZero_matMul n _ _ (entryZero_matDivS n A _ hA)))

theorem taylor_zero_entry (n : Nat) (rtol atol : K) (Q : Mat K) (q fuel : Nat) :
    EntryEq n (taylor n rtol atol Q 0 q fuel).1 (ident n) := by
  unfold taylor taylorFixed
  have hA : EntryZero n (matScale n (0 : K) Q) := by
    intro i j hi hj; rw [mget_matScale n 0 Q hi hj, zero_mul]
  exact taylorExtend_zero n rtol atol _ hA _ _ _ _ (taylorLoop_zero n _ hA _ _ _ _ (fun _ _ _ _ => rfl))
end taylor

/-! Padé numerator / denominator -/
theorem padeLoop_rowsOne (n : Nat) (A : Mat K) (q : Nat) :
    ∀ (m k : Nat) (c : K) (X N D : Mat K), RowsZero n X → RowsOne n N → RowsOne n D →
      RowsOne n (padeLoop n A q m k c X N D).1 ∧ RowsOne n (padeLoop n A q m k c X N D).2 := by
  intro m
  induction m with
  | zero => intro k c X N D _ hN hD; simpa [padeLoop] using ⟨hN, hD⟩
  | succ m ih =>
    intro k c X N D hX hN hD
    rw [padeLoop]
    have hX' := rowsZero_matMul n A X hX
    have hcX := rowsZero_matScale n (matMul n A X) (c * ((q - k + 1 : Nat) : K) / ((k * (2 * q - k + 1) : Nat) : K)) hX'
    apply ih _ _ _ _ _ hX' (rowsOne_add_zero n _ _ hN hcX)
    split
    · exact rowsOne_add_zero n _ _ hD hcX
    · exact rowsOne_sub_zero n _ _ hD hcX

theorem padeND_rowsOne (n : Nat) (A : Mat K) (q : Nat) (hA : RowsZero n A) :
    RowsOne n (padeND n A q).1 ∧ RowsOne n (padeND n A q).2 := by
  unfold padeND
  exact padeLoop_rowsOne n A q _ _ _ _ _ _ hA
    (rowsOne_add_zero n _ _ (rowsOne_ident n) (rowsZero_matScale n A _ hA))
    (rowsOne_sub_zero n _ _ (rowsOne_ident n) (rowsZero_matScale n A _ hA))

/-! `solve`: Gauss–Jordan keeps `D·1 = N·1` and turns `D` into the identity column by column -/
section solve
variable [DecidableEq K]

theorem findPivot_spec (D : Mat K) (c : Nat) : ∀ (m r p : Nat), findPivot D c m r = some p →
    r ≤ p ∧ p < r + m ∧ mget D p c ≠ 0 := by
  intro m
  induction m with
  | zero => intro r p h; simp [findPivot] at h
  | succ m ih =>
    intro r p h
    rw [findPivot] at h
    split at h
    · obtain ⟨h1, h2, h3⟩ := ih _ _ h
      exact ⟨by omega, by omega, h3⟩
    · injection h with h; subst h
      exact ⟨le_refl _, by omega, by assumption⟩

/-- invariant after `c` columns have been eliminated -/
def ElimInv (n c : Nat) (D N : Mat K) : Prop :=
  (∀ i, i < n → ∑ j ∈ range n, mget D i j = ∑ j ∈ range n, mget N i j) ∧
  (∀ i j, i < n → j < c → j < n → mget D i j = if i = j then 1 else 0)

theorem elimStep_inv (n c : Nat) (hc : c < n) (D N D' N' : Mat K) (h : elimStep n c D N = some (D', N'))
    (hinv : ElimInv n c D N) : ElimInv n (c + 1) D' N' := by
  unfold elimStep at h
  split at h
  · exact absurd h (by simp)
  · rename_i p hp
    obtain ⟨hp1, hp2, hp3⟩ := findPivot_spec D c _ _ _ hp
    have hpn : p < n := by omega
    simp only [Option.some.injEq, Prod.mk.injEq] at h
    obtain ⟨hD', hN'⟩ := h
    obtain ⟨hsum, hcol⟩ := hinv
    -- the swapped matrices
    set sw : Mat K → Mat K := fun M => tab n fun i j =>
      if i = c then mget M p j else if i = p then mget M c j else mget M i j with hsw
    have hswe : ∀ (M : Mat K) i j, i < n → j < n →
        mget (sw M) i j = if i = c then mget M p j else if i = p then mget M c j else mget M i j := by
      intro M i j hi hj; rw [hsw]; exact mget_tab _ hi hj
    have hpiv : mget (sw D) c c = mget D p c := by rw [hswe D c c hc hc, if_pos rfl]
    have hpiv0 : mget (sw D) c c ≠ 0 := by rw [hpiv]; exact hp3
    have hsum1 : ∀ i, i < n → ∑ j ∈ range n, mget (sw D) i j = ∑ j ∈ range n, mget (sw N) i j := by
      intro i hi
      rw [rowsum_congr n _ _ (hswe D) hi, rowsum_congr n _ _ (hswe N) hi]
      by_cases h1 : i = c
      · simp only [h1, if_true]; exact hsum p hpn
      · by_cases h2 : i = p
        · subst h2; simp only [h1, if_false, if_true]; exact hsum c hc
        · simp only [h1, h2, if_false]; exact hsum i hi
    have hcol1 : ∀ i j, i < n → j < c → j < n → mget (sw D) i j = if i = j then 1 else 0 := by
      intro i j hi hj hjn
      rw [hswe D i j hi hjn]
      by_cases h1 : i = c
      · rw [if_pos h1, hcol p j hpn hj hjn, if_neg (by omega), if_neg (by omega)]
      · rw [if_neg h1]
        by_cases h2 : i = p
        · rw [if_pos h2, hcol c j hc hj hjn, if_neg (by omega), if_neg (by omega)]
        · rw [if_neg h2, hcol i j hi hj hjn]
    have hel : ∀ (M : Mat K) i j, i < n → j < n →
        mget (tab n fun i j => if i = c then mget M c j / mget (sw D) c c
            else mget M i j - mget (sw D) i c * (mget M c j / mget (sw D) c c)) i j =
          if i = c then mget M c j / mget (sw D) c c
            else mget M i j - mget (sw D) i c * (mget M c j / mget (sw D) c c) := by
      intro M i j hi hj; exact mget_tab _ hi hj
    subst hD' hN'
    refine ⟨?_, ?_⟩
    · intro i hi
      rw [rowsum_congr n _ _ (hel (sw D)) hi, rowsum_congr n _ _ (hel (sw N)) hi]
      by_cases h1 : i = c
      · simp only [h1, if_true]; rw [← Finset.sum_div, ← Finset.sum_div, hsum1 c hc]
      · simp only [h1, if_false]
        rw [Finset.sum_sub_distrib, Finset.sum_sub_distrib, ← Finset.mul_sum, ← Finset.mul_sum,
          ← Finset.sum_div, ← Finset.sum_div, hsum1 i hi, hsum1 c hc]
    · intro i j hi hj hjn
      rw [hel (sw D) i j hi hjn]
      by_cases hjc : j = c
      · subst hjc
        by_cases h1 : i = j
        · rw [if_pos h1, if_pos h1, div_self hpiv0]
        · rw [if_neg h1, if_neg h1, div_self hpiv0, mul_one, sub_self]
      · have hj' : j < c := by omega
        by_cases h1 : i = c
        · rw [if_pos h1, hcol1 c j hc hj' hjn, if_neg (by omega), zero_div, if_neg (by omega)]
        · rw [if_neg h1, hcol1 c j hc hj' hjn, if_neg (by omega), zero_div, mul_zero, sub_zero, hcol1 i j hi hj' hjn]

theorem elimLoop_inv (n : Nat) : ∀ (m c : Nat) (D N F : Mat K), c + m = n → ElimInv n c D N →
    elimLoop n m c D N = some F → RowsOne n F := by
  intro m
  induction m with
  | zero =>
    intro c D N F hcm hinv h
    simp only [elimLoop, Option.some.injEq] at h
    subst h
    have hc : c = n := by omega
    subst hc
    intro i hi
    rw [← hinv.1 i hi, Finset.sum_congr rfl fun j hj => hinv.2 i j hi (Finset.mem_range.mp hj) (Finset.mem_range.mp hj),
      Finset.sum_ite_eq, if_pos (Finset.mem_range.mpr hi)]
  | succ m ih =>
    intro c D N F hcm hinv h
    rw [elimLoop] at h
    split at h
    · exact absurd h (by simp)
    · rename_i D' N' hstep
      exact ih (c + 1) D' N' F (by omega) (elimStep_inv n c (by omega) D N D' N' hstep hinv) h

theorem solve_rowsOne (n : Nat) (D N F : Mat K) (hD : RowsOne n D) (hN : RowsOne n N)
    (h : solve n D N = some F) : RowsOne n F := by
  unfold solve at h
  refine elimLoop_inv n n 0 D N F (by omega) ⟨fun i hi => by rw [hD i hi, hN i hi], ?_⟩ h
  intro i j _ hj; exact absurd hj (by omega)

theorem padeCore_rowsOne (n : Nat) (Q : Mat K) (t : K) (q j : Nat) (P : Mat K) (hQ : RowsZero n Q)
    (h : padeCore n Q t q j = some P) : RowsOne n P := by
  unfold padeCore at h
  have hA : RowsZero n (matDivS n (matScale n t Q) (pow2 j)) :=
    rowsZero_matDivS n _ _ (rowsZero_matScale n Q t hQ)
  obtain ⟨hN, hD⟩ := padeND_rowsOne n _ q hA
  simp only [] at h
  split at h
  · exact absurd h (by simp)
  · rename_i F hF
    injection h with h; subst h
    exact rowsOne_sqN n j F (solve_rowsOne n _ _ F hD hN hF)
end solve

/-! `t = 0` : the Padé approximant is the identity -/
section padezero
variable [DecidableEq K]

theorem matMul_ident_ident (n : Nat) (A B : Mat K) (hA : EntryEq n A (ident n)) (hB : EntryEq n B (ident n)) :
    EntryEq n (matMul n A B) (ident n) := by
  intro i j hi hj
  rw [mget_matMul n A B hi hj, mget_ident n hi hj]
  rw [Finset.sum_congr rfl fun k hk => by
    rw [hA i k hi (Finset.mem_range.mp hk), hB k j (Finset.mem_range.mp hk) hj,
      mget_ident n hi (Finset.mem_range.mp hk), mget_ident n (Finset.mem_range.mp hk) hj]]
  rw [Finset.sum_eq_single i]
  · simp
  · intro b _ hb; rw [if_neg (Ne.symm hb), zero_mul]
  · intro h; exact absurd (Finset.mem_range.mpr hi) h

theorem sqN_ident (n : Nat) : ∀ (j : Nat) (F : Mat K), EntryEq n F (ident n) → EntryEq n (sqN n j F) (ident n) := by
  intro j
  induction j with
  | zero => intro F h; simpa [sqN] using h
  | succ j ih => intro F h; rw [sqN]; exact ih _ (matMul_ident_ident n F F h h)

theorem padeLoop_zero (n : Nat) (A : Mat K) (q : Nat) (hA : EntryZero n A) :
    ∀ (m k : Nat) (c : K) (X N D : Mat K), EntryEq n N (ident n) → EntryEq n D (ident n) →
      EntryEq n (padeLoop n A q m k c X N D).1 (ident n) ∧ EntryEq n (padeLoop n A q m k c X N D).2 (ident n) := by
  intro m
  induction m with
  | zero => intro k c X N D hN hD; simpa [padeLoop] using ⟨hN, hD⟩
  | succ m ih =>
    intro k c X N D hN hD
    rw [padeLoop]
    have hcX := entryZero_matScale n (matMul n A X) (c * ((q - k + 1 : Nat) : K) / ((k * (2 * q - k + 1) : Nat) : K))
      (entryZero_matMul_left n A X hA)
    apply ih _ _ _ _ _ (entryEq_add_zero n _ _ _ hN hcX)
    split
    · exact entryEq_add_zero n _ _ _ hD hcX
    · exact entryEq_sub_zero n _ _ _ hD hcX

theorem padeND_zero (n : Nat) (A : Mat K) (q : Nat) (hA : EntryZero n A) :
    EntryEq n (padeND n A q).1 (ident n) ∧ EntryEq n (padeND n A q).2 (ident n) := by
  unfold padeND
  exact padeLoop_zero n A q hA _ _ _ _ _ _
    (entryEq_add_zero n _ _ _ (fun _ _ _ _ => rfl) (entryZero_matScale n A _ hA))
    (entryEq_sub_zero n _ _ _ (fun _ _ _ _ => rfl) (entryZero_matScale n A _ hA))

theorem elimStep_ident (n c : Nat) (hc : c < n) (D N : Mat K) (hD : EntryEq n D (ident n)) (hN : EntryEq n N (ident n)) :
    ∃ D' N', elimStep n c D N = some (D', N') ∧ EntryEq n D' (ident n) ∧ EntryEq n N' (ident n) := by
  have hcc : mget D c c = 1 := by rw [hD c c hc hc, mget_ident n hc hc, if_pos rfl]
  have hfp : findPivot D c (n - c) c = some c := by
    obtain ⟨m, hm⟩ : ∃ m, n - c = m + 1 := ⟨n - c - 1, by omega⟩
    rw [hm, findPivot, hcc, if_neg one_ne_zero]
  unfold elimStep
  rw [hfp]
  refine ⟨_, _, rfl, ?_, ?_⟩
  · intro i j hi hj
    rw [mget_tab _ hi hj, mget_tab _ hc hj, mget_tab _ hc hc, mget_tab _ hi hj, mget_tab _ hi hc]
    simp only [if_true]
    rw [hcc, div_one]
    by_cases h1 : i = c
    · subst h1; simp only [if_true]
      exact hD i j hi hj
    · simp only [h1, if_false]
      rw [hD i c hi hc, mget_ident n hi hc, if_neg h1, zero_mul, sub_zero]
      exact hD i j hi hj
  · intro i j hi hj
    rw [mget_tab _ hi hj, mget_tab _ hc hj, mget_tab _ hc hc, mget_tab _ hi hj, mget_tab _ hi hc]
    simp only [if_true]
    rw [hcc, div_one]
    by_cases h1 : i = c
    · subst h1; simp only [if_true]
      exact hN i j hi hj
    · simp only [h1, if_false]
      rw [hD i c hi hc, mget_ident n hi hc, if_neg h1, zero_mul, sub_zero]
      exact hN i j hi hj

theorem elimLoop_ident (n : Nat) : ∀ (m c : Nat) (D N : Mat K), c + m = n → EntryEq n D (ident n) → EntryEq n N (ident n) →
    ∃ F, elimLoop n m c D N = some F ∧ EntryEq n F (ident n) := by
  intro m
  induction m with
  | zero => intro c D N _ _ hN; exact ⟨N, rfl, hN⟩
  | succ m ih =>
    intro c D N hcm hD hN
    obtain ⟨D', N', hs, hD', hN'⟩ := elimStep_ident n c (by omega) D N hD hN
    rw [elimLoop, hs]
    exact ih (c + 1) D' N' (by omega) hD' hN'

theorem padeCore_zero (n : Nat) (Q : Mat K) (q j : Nat) :
    ∃ P, padeCore n Q 0 q j = some P ∧ EntryEq n P (ident n) := by
  have hA : EntryZero n (matDivS n (matScale n (0 : K) Q) (pow2 j)) := by
    apply entryZero_matDivS
    intro a b ha hb; rw [mget_matScale n 0 Q ha hb, zero_mul]
  obtain ⟨hN, hD⟩ := padeND_zero n _ q hA
  obtain ⟨F, hF, hFI⟩ := elimLoop_ident n n 0 _ _ (by omega) hD hN
  refine ⟨sqN n j F, ?_, sqN_ident n j F hFI⟩
  unfold padeCore
  simp only []
  unfold solve
  rw [hF]
end padezero

end CogentModel.Expm
