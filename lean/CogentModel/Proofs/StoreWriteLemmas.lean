import CogentModel.Model.StoreWrite
/-! helper lemmas for the record-granular resume theorems of C19 (core Lean only) -/
namespace CogentModel.StoreWrite
open CogentModel.Composable

def proj (i : Id) (ops : List Op) : List COp := (ops.filter (fun o => o.1 == i)).map (·.2)
def cellRun (c : Cell) (l : List COp) : Cell := l.foldl stepCell c
def Bc (var : Variant) (c : Cell) (v : Val) : List COp := if doneCell c then [] else block var v

theorem proj_append (i : Id) (a b : List Op) : proj i (a ++ b) = proj i a ++ proj i b := by simp [proj]
@[simp] theorem proj_nil (i : Id) : proj i [] = [] := rfl

theorem exec_apply (s : FStore) (ops : List Op) (i : Id) : exec s ops i = cellRun (s i) (proj i ops) := by
  induction ops generalizing s with
  | nil => rfl
  | cons o ops ih =>
    show exec (step s o) ops i = _
    rw [ih]
    by_cases h : o.1 = i
    · simp [proj, step, h, cellRun]
    · have h' : ¬ i = o.1 := fun e => h e.symm
      simp [proj, step, h, h', cellRun]

theorem proj_map_same (i j : Id) (l : List COp) :
    proj i (l.map (fun o => (j, o))) = if j = i then l else [] := by
  by_cases h : j = i
  · simp [proj, h, List.filter_map, Function.comp_def]
  · simp [proj, h, List.filter_map, Function.comp_def]

theorem proj_opsOf_take (var : Variant) (idOf : Nat → Id) (app : Nat → Val) (s0 : FStore) (m : Nat) (i : Id) (p : Nat) :
    proj i ((opsOf var idOf app s0 m).take p) = if idOf m = i then (Bc var (s0 (idOf m)) (app m)).take p else [] := by
  unfold opsOf Bc
  by_cases hd : doneCell (s0 (idOf m)) = true
  · simp [hd]
  · simp only [hd, Bool.false_eq_true, if_false, ← List.map_take]
    exact proj_map_same i (idOf m) _

theorem proj_opsOf (var : Variant) (idOf : Nat → Id) (app : Nat → Val) (s0 : FStore) (m : Nat) (i : Id) :
    proj i (opsOf var idOf app s0 m) = if idOf m = i then Bc var (s0 (idOf m)) (app m) else [] := by
  have := proj_opsOf_take var idOf app s0 m i (opsOf var idOf app s0 m).length
  rw [List.take_length] at this
  rw [this]
  by_cases h : idOf m = i
  · simp only [h, if_true]
    apply List.take_of_length_le
    unfold opsOf Bc
    subst h
    by_cases hd : doneCell (s0 (idOf m)) = true <;> simp [hd]
  · simp [h]

theorem runOps_cons (var idOf app s0) (a : Nat) (l : List Nat) :
    runOps var idOf app s0 (a :: l) = opsOf var idOf app s0 a ++ runOps var idOf app s0 l := by
  simp [runOps]

theorem proj_runOps_none (var : Variant) (idOf : Nat → Id) (app : Nat → Val) (s0 : FStore) (l : List Nat) (i : Id)
    (h : ∀ x ∈ l, idOf x ≠ i) : proj i (runOps var idOf app s0 l) = [] := by
  induction l with
  | nil => rfl
  | cons a l ih =>
    rw [runOps_cons, proj_append, proj_opsOf, ih (fun x hx => h x (List.mem_cons_of_mem _ hx))]
    simp [h a List.mem_cons_self]

theorem proj_runOps (var : Variant) (idOf : Nat → Id) (app : Nat → Val) (s0 : FStore) (l : List Nat) (m : Nat)
    (hn : (l.map idOf).Nodup) (hm : m ∈ l) :
    proj (idOf m) (runOps var idOf app s0 l) = Bc var (s0 (idOf m)) (app m) := by
  induction l with
  | nil => cases hm
  | cons a l ih =>
    rw [List.map_cons, List.nodup_cons] at hn
    rw [runOps_cons, proj_append, proj_opsOf]
    by_cases ha : idOf a = idOf m
    · have hno : ∀ x ∈ l, idOf x ≠ idOf m := by
        intro x hx e; exact hn.1 (by rw [ha, ← e]; exact List.mem_map_of_mem hx)
      have hma : m = a := by
        rcases List.mem_cons.mp hm with e | e
        · exact e
        · exact absurd rfl (hno m e)
      rw [proj_runOps_none var idOf app s0 l _ hno]; subst hma; simp
    · have hml : m ∈ l := by
        rcases List.mem_cons.mp hm with e | e
        · exact absurd (by rw [e]) ha
        · exact e
      simp [ha, ih hn.2 hml]

theorem crashOps_zero (var idOf app s0) (a : Nat) (l : List Nat) (p : Nat) :
    crashOps var idOf app s0 (a :: l) 0 p = (opsOf var idOf app s0 a).take p := by
  simp [crashOps, runOps]

theorem crashOps_succ (var idOf app s0) (a : Nat) (l : List Nat) (j p : Nat) :
    crashOps var idOf app s0 (a :: l) (j + 1) p = opsOf var idOf app s0 a ++ crashOps var idOf app s0 l j p := by
  simp [crashOps, runOps_cons, List.append_assoc]

theorem crashOps_nil (var idOf app s0) (j p : Nat) : crashOps var idOf app s0 [] j p = [] := by
  simp [crashOps, runOps]

theorem proj_crashOps_none (var : Variant) (idOf : Nat → Id) (app : Nat → Val) (s0 : FStore) (l : List Nat) (i : Id)
    (j p : Nat) (h : ∀ x ∈ l, idOf x ≠ i) : proj i (crashOps var idOf app s0 l j p) = [] := by
  induction l generalizing j with
  | nil => rw [crashOps_nil]; rfl
  | cons a l ih =>
    have ha := h a List.mem_cons_self
    cases j with
    | zero => rw [crashOps_zero, proj_opsOf_take]; simp [ha]
    | succ j =>
      rw [crashOps_succ, proj_append, proj_opsOf, ih j (fun x hx => h x (List.mem_cons_of_mem _ hx))]
      simp [ha]

theorem block_length_le (var : Variant) (v : Val) : (block var v).length ≤ 4 := by
  unfold block; cases var <;> cases v.isOk <;> simp

/-- what a crash leaves of the block of input `m`: some prefix of it; a crash at a record boundary
(`p = 0` or the whole block done) leaves nothing or all of it -/
theorem proj_crashOps (var : Variant) (idOf : Nat → Id) (app : Nat → Val) (s0 : FStore) (l : List Nat) (m : Nat)
    (hn : (l.map idOf).Nodup) (hm : m ∈ l) (j p : Nat) :
    ∃ t, proj (idOf m) (crashOps var idOf app s0 l j p) = (Bc var (s0 (idOf m)) (app m)).take t ∧
      ((p = 0 ∨ 4 ≤ p) → t = 0 ∨ (Bc var (s0 (idOf m)) (app m)).length ≤ t) := by
  induction l generalizing j with
  | nil => cases hm
  | cons a l ih =>
    rw [List.map_cons, List.nodup_cons] at hn
    have hBlen : (Bc var (s0 (idOf m)) (app m)).length ≤ 4 := by
      unfold Bc; split
      · simp
      · exact block_length_le _ _
    by_cases ha : idOf a = idOf m
    · have hno : ∀ x ∈ l, idOf x ≠ idOf m := by
        intro x hx e; exact hn.1 (by rw [ha, ← e]; exact List.mem_map_of_mem hx)
      have hma : m = a := by
        rcases List.mem_cons.mp hm with e | e
        · exact e
        · exact absurd rfl (hno m e)
      subst hma
      cases j with
      | zero =>
        refine ⟨p, ?_, ?_⟩
        · rw [crashOps_zero, proj_opsOf_take]; simp
        · intro hp; rcases hp with hp | hp
          · exact Or.inl hp
          · exact Or.inr (by omega)
      | succ j =>
        refine ⟨(Bc var (s0 (idOf m)) (app m)).length, ?_, fun _ => Or.inr (Nat.le_refl _)⟩
        rw [crashOps_succ, proj_append, proj_opsOf, proj_crashOps_none var idOf app s0 l _ j p hno]
        simp
    · have hml : m ∈ l := by
        rcases List.mem_cons.mp hm with e | e
        · exact absurd (by rw [e]) ha
        · exact e
      cases j with
      | zero =>
        refine ⟨0, ?_, fun _ => Or.inl rfl⟩
        rw [crashOps_zero, proj_opsOf_take]; simp [ha]
      | succ j =>
        obtain ⟨t, e, ht⟩ := ih hn.2 hml j
        refine ⟨t, ?_, ht⟩
        rw [crashOps_succ, proj_append, proj_opsOf, e]; simp [ha]

/-- the cell-level resume equation for a crash that left the first `t` operations of the block -/
def CellResumeOK (var : Variant) (c : Cell) (v : Val) (t : Nat) : Prop :=
  let c1 := cellRun c ((Bc var c v).take t)
  cellRun c1 (Bc var c1 v) = cellRun c (Bc var c v)

theorem cell_resume_atomic (c : Cell) (v : Val) (t : Nat) : CellResumeOK .atomicMd5First c v t := by
  unfold CellResumeOK
  obtain ⟨d, n, m5⟩ := c
  cases hv : v.isOk <;> cases d <;> rcases t with _ | _ | t <;>
    simp [Bc, block, doneCell, cellRun, stepCell, hv]

theorem cell_resume_inPlace_boundary (c : Cell) (v : Val) (t : Nat)
    (ht : t = 0 ∨ (Bc .inPlace c v).length ≤ t) : CellResumeOK .inPlace c v t := by
  unfold CellResumeOK
  obtain ⟨d, n, m5⟩ := c
  rcases ht with rfl | ht
  · simp [cellRun]
  · rw [List.take_of_length_le ht]
    cases hv : v.isOk <;> cases d <;> simp [Bc, block, doneCell, cellRun, stepCell, hv]

theorem resume_pointwise (var : Variant) (idOf : Nat → Id) (app : Nat → Val) (s0 : FStore) (inputs : List Nat)
    (hn : (inputs.map idOf).Nodup) (j p : Nat)
    (hcell : ∀ c v t, ((p = 0 ∨ 4 ≤ p) → t = 0 ∨ (Bc var c v).length ≤ t) → CellResumeOK var c v t) (i : Id) :
    resumed var idOf app s0 inputs j p i = uninterrupted var idOf app s0 inputs i := by
  unfold resumed uninterrupted
  simp only [exec_apply]
  by_cases hex : ∃ m ∈ inputs, idOf m = i
  · obtain ⟨m, hm, rfl⟩ := hex
    obtain ⟨t, e, ht⟩ := proj_crashOps var idOf app s0 inputs m hn hm j p
    rw [proj_runOps var idOf app _ inputs m hn hm, proj_runOps var idOf app s0 inputs m hn hm]
    simp only [exec_apply, e]
    exact hcell (s0 (idOf m)) (app m) t ht
  · have hno : ∀ x ∈ inputs, idOf x ≠ i := fun x hx e => hex ⟨x, hx, e⟩
    rw [proj_runOps_none var idOf app _ inputs i hno, proj_runOps_none var idOf app s0 inputs i hno,
      proj_crashOps_none var idOf app s0 inputs i j p hno]
    rfl

/-- every prefix of the operation sequence of a run is a crash point `(j, p)` -/
theorem take_runOps (var : Variant) (idOf : Nat → Id) (app : Nat → Val) (s0 : FStore) (inputs : List Nat) (k : Nat) :
    ∃ j p, (runOps var idOf app s0 inputs).take k = crashOps var idOf app s0 inputs j p := by
  induction inputs generalizing k with
  | nil => exact ⟨0, 0, by simp [runOps, crashOps]⟩
  | cons a l ih =>
    by_cases hk : k ≤ (opsOf var idOf app s0 a).length
    · refine ⟨0, k, ?_⟩
      rw [crashOps_zero, runOps_cons, List.take_append_of_le_length hk]
    · obtain ⟨j, p, e⟩ := ih (k - (opsOf var idOf app s0 a).length)
      refine ⟨j + 1, p, ?_⟩
      rw [crashOps_succ, runOps_cons, List.take_append, List.take_of_length_le (by omega), e]
