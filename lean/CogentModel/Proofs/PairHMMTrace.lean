/-
  C18 helper lemmas, part 4: the traceback returns a real path whose independently recomputed score is the
  table value; its gapped rows degap to the inputs.
-/
import CogentModel.Proofs.PairHMMOpt
namespace CogentModel.PairHMM
set_option linter.unusedSectionVars false
set_option linter.unusedVariables false

variable {S : Type} [Add S] [LT S] [DecidableLT S]

/-- the `(state, i, j)` triples of a state path started at `(i, j)` -/
def annotate (h : HMM S) : Nat → Nat → List Nat → List (Nat × Nat × Nat)
  | _, _, [] => []
  | i, j, s :: p =>
    (s, i + (h.dir s).1.toNat, j + (h.dir s).2.toNat) :: annotate h (i + (h.dir s).1.toNat) (j + (h.dir s).2.toNat) p

theorem annotate_map_fst (h : HMM S) (i j : Nat) (p : List Nat) : (annotate h i j p).map (·.1) = p := by
  induction p generalizing i j with
  | nil => rfl
  | cons s p ih => simp [annotate, ih]

theorem consumedFrom_append (h : HMM S) (i j : Nat) (p : List Nat) (s : Nat) :
    consumedFrom h i j (p ++ [s]) =
      ((consumedFrom h i j p).1 + (h.dir s).1.toNat, (consumedFrom h i j p).2 + (h.dir s).2.toNat) := by
  induction p generalizing i j with
  | nil => rfl
  | cons a p ih => simp [consumedFrom, ih]

theorem annotate_append (h : HMM S) (i j : Nat) (p : List Nat) (s : Nat) :
    annotate h i j (p ++ [s]) = annotate h i j p ++
      [(s, (consumedFrom h i j p).1 + (h.dir s).1.toNat, (consumedFrom h i j p).2 + (h.dir s).2.toNat)] := by
  induction p generalizing i j with
  | nil => rfl
  | cons a p ih => simp [annotate, consumedFrom, ih]

theorem lastState_append (p : List Nat) (s : Nat) : lastState (p ++ [s]) = s := by
  induction p with
  | nil => rfl
  | cons a p ih =>
    cases p with
    | nil => rfl
    | cons b p => simpa [lastState] using ih

theorem scoreFrom_append (h : HMM S) (prev i j : Nat) (acc : Option S) (p : List Nat) (s : Nat) :
    scoreFrom h prev i j acc (p ++ [s]) =
      eadd (eadd (scoreFrom h prev i j acc p) (h.T (lastState (prev :: p)) s))
        (h.em s ((consumedFrom h i j p).1 + (h.dir s).1.toNat) ((consumedFrom h i j p).2 + (h.dir s).2.toNat)) := by
  induction p generalizing prev i j acc with
  | nil => rfl
  | cons a p ih => simp only [List.cons_append, scoreFrom, consumedFrom, ih, lastState_cons_cons]

theorem prefixScore_append (h : HMM S) (i j : Nat) (a : Nat) (p : List Nat) (s : Nat) :
    prefixScore h i j ((a :: p) ++ [s]) =
      eadd (eadd (prefixScore h i j (a :: p)) (h.T (lastState (a :: p)) s))
        (h.em s ((consumedFrom h i j (a :: p)).1 + (h.dir s).1.toNat)
          ((consumedFrom h i j (a :: p)).2 + (h.dir s).2.toNat)) := by
  simp only [List.cons_append, prefixScore, consumedFrom, scoreFrom_append]

theorem cellsOK_append (h : HMM S) (loc : Bool) (i j : Nat) (p : List Nat) (s : Nat)
    (h1 : cellsOK h loc i j p)
    (h2 : cellOK loc ((consumedFrom h i j p).1 + (h.dir s).1.toNat) ((consumedFrom h i j p).2 + (h.dir s).2.toNat) = true) :
    cellsOK h loc i j (p ++ [s]) := by
  induction p generalizing i j with
  | nil => exact ⟨h2, trivial⟩
  | cons a p ih => exact ⟨h1.1, ih _ _ h1.2 h2⟩

theorem statesOK_append (h : HMM S) (p : List Nat) (s : Nat) (h1 : statesOK h p)
    (h2 : 1 ≤ s ∧ s ≤ h.k ∧ ((h.dir s).1 || (h.dir s).2) = true) : statesOK h (p ++ [s]) := by
  intro x hx
  rcases List.mem_append.mp hx with hx | hx
  · exact h1 x hx
  · have : x = s := by simpa using hx
    subst this; exact h2

theorem eadd_some_left {a b : Option S} {v : S} (hv : eadd a b = some v) : ∃ x, a = some x := by
  cases a with
  | none => simp [eadd] at hv
  | some x => exact ⟨x, rfl⟩

/-- every emitting state moves (`adapt_pair_tm` removes / rejects silent states) -/
def NoSilent (h : HMM S) : Prop := ∀ s, 1 ≤ s → s ≤ h.k → ((h.dir s).1 || (h.dir s).2) = true

/-- what a successful traceback from `(i, j, s)` delivers -/
structure TraceSpec (h : HMM S) (loc : Bool) (i j s : Nat) (v : S) (p : List Nat) (i0 j0 : Nat) : Prop where
  nonempty : p ≠ []
  states : statesOK h p
  last : lastState p = s
  consumed : consumedFrom h i0 j0 p = (i, j)
  start : canStart loc i0 j0 (h.dir (p.headD 0)) = true
  cells : cellsOK h loc i0 j0 p
  score : prefixScore h i0 j0 p = some v

variable [ScoreLaws S]

theorem trace_ok (h : HMM S) (loc : Bool) (m : Nat) (hns : NoSilent h) :
    ∀ (t i j s : Nat) (v : S) (acc : List (Nat × Nat × Nat)) (f : Nat),
      i + j = t → j ≤ m → 1 ≤ s → s ≤ h.k → val h loc m i j s = some v → t + 1 ≤ f →
      ∃ p i0 j0, traceFrom h (V h loc m) f i j s acc = some (annotate h i0 j0 p ++ acc) ∧
        TraceSpec h loc i j s v p i0 j0 := by
  intro t
  induction t using Nat.strongRecOn with
  | _ t ih =>
    intro i j s v acc f hij hj hs1 hsk hv hf
    have hd := hns s hs1 hsk
    -- unfold the stored entry
    have hent := entry_eq h loc m i j s hj hs1 hsk hd (none, h.errId)
    have hval : val h loc m i j s = ((V h loc m i j).getD (s - 1) (none, h.errId)).1 := rfl
    have hok : cellOK loc i j = true := by
      by_cases hok : cellOK loc i j = true
      · exact hok
      · rw [hval, hent, if_neg hok] at hv; simp at hv
    rw [if_pos hok] at hent
    have hlt : ¬ (i < (h.dir s).1.toNat ∨ j < (h.dir s).2.toNat) := by
      intro hlt
      rw [hval, hent] at hv; simp [cellEntry, hlt] at hv
    simp only [cellEntry, if_neg hlt] at hent
    -- the recursion of traceFrom
    obtain ⟨f', rfl⟩ : ∃ f', f = f' + 1 := ⟨f - 1, by omega⟩
    have hs0 : ¬ s = 0 := by omega
    have hks : ¬ h.k < s := by omega
    simp only [traceFrom, if_neg hs0, if_neg hks]
    rw [hval, hent] at hv
    rw [hent]
    simp only at hv ⊢
    obtain ⟨b, hb⟩ := eadd_some_left hv
    have hi' : i - (h.dir s).1.toNat + (h.dir s).1.toNat = i := by omega
    have hj' : j - (h.dir s).2.toNat + (h.dir s).2.toNat = j := by omega
    have hmove : 1 ≤ (h.dir s).1.toNat + (h.dir s).2.toNat := by
      revert hd; cases (h.dir s).1 <;> cases (h.dir s).2 <;> simp [Bool.toNat]
    rcases bestPrev_cases h.T s (V h loc m (i - (h.dir s).1.toNat) (j - (h.dir s).2.toNat)) 1
        (if canStart loc (i - (h.dir s).1.toNat) (j - (h.dir s).2.toNat) (h.dir s) = true then (h.T 0 s, 0)
          else (none, h.errId)) with hr | ⟨q, hq, hr⟩
    · -- the path starts here
      rw [hr] at hv hb ⊢
      by_cases hcs : canStart loc (i - (h.dir s).1.toNat) (j - (h.dir s).2.toNat) (h.dir s) = true
      · simp only [if_pos hcs] at hv hb ⊢
        obtain ⟨f'', rfl⟩ : ∃ f'', f' = f'' + 1 := ⟨f' - 1, by omega⟩
        refine ⟨[s], i - (h.dir s).1.toNat, j - (h.dir s).2.toNat, ?_, ?_⟩
        · simp [traceFrom, annotate, hi', hj']
        · exact {
            nonempty := by simp
            states := by intro x hx; have : x = s := by simpa using hx
                         subst this; exact ⟨hs1, hsk, hd⟩
            last := rfl
            consumed := by simp [consumedFrom, hi', hj']
            start := by simpa using hcs
            cells := ⟨by rw [hi', hj']; exact hok, trivial⟩
            score := by simp only [prefixScore, scoreFrom, hi', hj']; exact hv }
      · simp only [if_neg hcs] at hb; simp at hb
    · -- the path comes from state q+1 in the source cell
      rw [hr] at hv hb ⊢
      simp only at hv hb ⊢
      obtain ⟨w, hw⟩ := eadd_some_left hb
      have hjm : j - (h.dir s).2.toNat ≤ m := by omega
      have hlen := V_length h loc m (i - (h.dir s).1.toNat) (j - (h.dir s).2.toNat) hjm
      have hq1 : 1 ≤ 1 + q := by omega
      have hqk : 1 + q ≤ h.k := by omega
      have hvq : val h loc m (i - (h.dir s).1.toNat) (j - (h.dir s).2.toNat) (1 + q) = some w := by
        rw [← val_getElem h loc m _ _ (1 + q) hjm hq1 hqk (by simpa using hq)]
        simpa using hw
      obtain ⟨p, i0, j0, htr, sp⟩ := ih (i - (h.dir s).1.toNat + (j - (h.dir s).2.toNat)) (by omega)
        (i - (h.dir s).1.toNat) (j - (h.dir s).2.toNat) (1 + q) w ((s, i, j) :: acc) f' rfl hjm hq1 hqk hvq (by omega)
      refine ⟨p ++ [s], i0, j0, ?_, ?_⟩
      · rw [htr, annotate_append, sp.consumed]
        simp [hi', hj']
      · obtain ⟨a, p', rfl⟩ : ∃ a p', p = a :: p' := by
          cases p with
          | nil => exact absurd rfl sp.nonempty
          | cons a p' => exact ⟨a, p', rfl⟩
        exact {
          nonempty := by simp
          states := statesOK_append h _ s sp.states ⟨hs1, hsk, hd⟩
          last := lastState_append _ s
          consumed := by rw [consumedFrom_append, sp.consumed]; simp [hi', hj']
          start := by simpa using sp.start
          cells := cellsOK_append h loc i0 j0 _ s sp.cells (by rw [sp.consumed]; simp only [hi', hj']; exact hok)
          score := by
            rw [prefixScore_append, sp.score, sp.last, sp.consumed]
            simp only [hi', hj']
            have : (V h loc m (i - (h.dir s).1.toNat) (j - (h.dir s).2.toNat))[q].1 = some w := by simpa using hw
            rw [this] at hv
            exact hv }

end CogentModel.PairHMM
