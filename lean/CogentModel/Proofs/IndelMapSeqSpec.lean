import CogentModel.Proofs.IndelMapInv
import CogentModel.Proofs.IndelMapSeqIdx
namespace CogentModel.IndelMap
open CogentModel.Gapped

theorem seqIndexNN_eq_rec (m : IMap) (h : WF m) (ai : Int) :
    seqIndexNN m ai = seqIdxRec 0 m.gapPos m.cumLens ai := by
  have hinc := h.inc
  unfold seqIndexNN
  cases hg : m.gapPos with
  | nil =>
    rw [hg] at hinc
    cases hc : m.cumLens with
    | nil => simp [seqIdxRec]
    | cons c cs => rw [hc] at hinc; simp [Inc] at hinc
  | cons p ps =>
    rw [hg] at hinc
    cases hc : m.cumLens with
    | nil => rw [hc] at hinc; simp [Inc] at hinc
    | cons c cs =>
      rw [hc] at hinc
      by_cases hlt : ai < p
      · simp [hlt, seqIdxRec]
      · have hcore := siCore_eq_rec ps p c cs (-1) 0 ai hinc
        rw [← hcore]
        simp only [List.headD_cons, hlt, or_false, reduceCtorEq, if_false, gapStarts, siCore]
        by_cases hz : ssLeft (gapEnds (p :: ps) (c :: cs)) ai = 0
        · have hn : ¬ ai < getN (startsFrom 0 (p :: ps) (c :: cs)) (ssLeft (gapEnds (p :: ps) (c :: cs)) ai) := by
            rw [hz]; simp only [startsFrom, getN_cons_zero]; omega
          simp only [hn, if_false]
        · simp only [hz, if_false]

theorem seqLen_append (a b : Gapped) : seqLen (a ++ b) = seqLen a + seqLen b := by
  simp [seqLen, List.filter_append]

theorem seqLen_seg (a b : Int) : seqLen (seg a b) = (b - a).toNat := by
  have : ∀ l : List Nat, (List.filter Option.isSome (l.map some)).length = l.length := by
    intro l; induction l with
    | nil => rfl
    | cons x xs ih => simp [ih]
  simp [seqLen, seg, this]

theorem take_range'' : ∀ (n s k : Nat), (List.range' s n).take k = List.range' s (min k n) := by
  intro n
  induction n with
  | zero => intro s k; simp
  | succ n ih =>
    intro s k
    cases k with
    | zero => simp
    | succ k =>
      rw [List.range'_succ, List.take_succ_cons, ih]
      have : min (k + 1) (n + 1) = min k n + 1 := by omega
      rw [this, List.range'_succ]

theorem seqLen_gapCols (n : Int) : seqLen (gapCols n) = 0 := by
  simp [seqLen, gapCols]

theorem take_seg (a b : Int) (k : Nat) : (seg a b).take k = seg a (a + min (k : Int) (b - a)) := by
  unfold seg
  rw [← List.map_take, take_range'']
  congr 2
  omega

theorem seqLen_take_seg (a b : Int) (k : Nat) : seqLen ((seg a b).take k) = min k (b - a).toNat := by
  rw [take_seg, seqLen_seg]; omega

/-- the recursive scan counts the residues in the first columns of the denoted string -/
theorem seqIdxRec_spec (gp : List Int) : ∀ (cum : List Int) (next prevCum pl ai : Int),
    gp.length = cum.length → (∀ p ∈ gp, next ≤ p ∧ p ≤ pl) → gp.Pairwise (· < ·) →
    (prevCum :: cum).Pairwise (· < ·) → next ≤ pl →
    next + prevCum ≤ ai → ai ≤ pl + lastOr prevCum cum →
    seqIdxRec prevCum gp cum ai - next =
      (seqLen ((absFrom next prevCum gp cum pl).take (ai - (next + prevCum)).toNat) : Int) := by
  induction gp with
  | nil =>
    intro cum next prevCum pl ai hl _ _ _ hn h1 h2
    cases cum with
    | cons c cs => simp at hl
    | nil =>
      simp only [lastOr] at h2
      simp only [seqIdxRec, absFrom, seqLen_take_seg]
      omega
  | cons p ps ih =>
    intro cum next prevCum pl ai hl hr hs hc hn h1 h2
    cases cum with
    | nil => simp at hl
    | cons c cs =>
      have hp := hr p (by simp)
      have hs' := List.pairwise_cons.mp hs
      have hc' := List.pairwise_cons.mp hc
      have hcc := hc'.1 c (by simp)
      simp only [lastOr] at h2
      simp only [seqIdxRec, absFrom]
      by_cases c1 : ai < p + prevCum
      · simp only [c1, if_true]
        rw [List.append_assoc, List.take_append, seqLen_append, seqLen_take_seg]
        have e1 : (ai - (next + prevCum)).toNat - (seg next p).length = 0 := by rw [seg_length]; omega
        rw [e1]; simp [seqLen]
        omega
      · simp only [c1, if_false]
        by_cases c2 : ai ≤ p + c
        · simp only [c2, if_true]
          rw [List.append_assoc, List.take_append, seqLen_append, seqLen_take_seg, List.take_append, seqLen_append]
          have e2 : (ai - (next + prevCum)).toNat - (seg next p).length - (gapCols (c - prevCum)).length = 0 := by
            rw [seg_length, gapCols_length]; omega
          rw [e2]
          have e3 : seqLen (List.take ((ai - (next + prevCum)).toNat - (seg next p).length) (gapCols (c - prevCum))) = 0 := by
            simp [gapCols, seqLen, List.take_replicate, List.filter_replicate]
          rw [e3]; simp [seqLen]
          omega
        · simp only [c2, if_false]
          have ihh := ih cs p c pl ai (by simpa using hl)
            (fun q hq => ⟨Int.le_of_lt (hs'.1 q hq), (hr q (by simp [hq])).2⟩) hs'.2 hc'.2 hp.2
            (by omega) h2
          rw [List.append_assoc, List.take_append, seqLen_append, seqLen_take_seg, List.take_append, seqLen_append]
          have e3 : seqLen (List.take ((ai - (next + prevCum)).toNat - (seg next p).length) (gapCols (c - prevCum))) = 0 := by
            simp [gapCols, seqLen, List.take_replicate, List.filter_replicate]
          have e4 : (ai - (next + prevCum)).toNat - (seg next p).length - (gapCols (c - prevCum)).length
              = (ai - (p + c)).toNat := by rw [seg_length, gapCols_length]; omega
          rw [e3, e4]
          omega

theorem seq_index_spec' (m : IMap) (h : WF m) (i : Int) (h0 : 0 ≤ i) (h1 : i ≤ len m) :
    seqIndexNN m i = (seqIndex (abs m) i.toNat : Int) := by
  rw [seqIndexNN_eq_rec m h]
  have hlen : len m = m.parentLength + lastOr 0 m.cumLens := by
    have hl := h.len_eq
    unfold len
    cases hg : m.gapPos with
    | nil =>
      rw [hg] at hl
      have : m.cumLens = [] := by cases hc : m.cumLens with | nil => rfl | cons x xs => rw [hc] at hl; simp at hl
      simp [this, lastOr]
    | cons p ps =>
      rw [hg] at hl
      cases hc : m.cumLens with
      | nil => rw [hc] at hl; simp at hl
      | cons x xs => simp [lastD_cons, lastOr]
  have := seqIdxRec_spec m.gapPos m.cumLens 0 0 m.parentLength i h.len_eq
    (fun p hp => h.pos_range p hp) h.pos_sorted h.cum_sorted h.pl_nonneg (by omega) (by omega)
  simp only [Int.sub_zero, Int.add_zero] at this
  rw [this]; rfl
end CogentModel.IndelMap
