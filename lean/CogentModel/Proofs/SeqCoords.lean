import CogentModel.Model.SeqCoords
import CogentModel.Proofs.SeqWrap
import CogentModel.Proofs.ViewParent
import Mathlib.Tactic.Ring
/-! `SeqDataView.str_value`, and `parent_coordinates()` through chains: the reported parent window, read off the plain parent string, is the displayed string. -/
namespace CogentModel.SeqCoords
open CogentModel CogentModel.View CogentModel.SeqWrap

/-- `xs[ps:pe]` for in-range bounds -/
theorem slice_window {α} [Inhabited α] (xs : List α) (ps pe : Int) (h0 : 0 ≤ ps) (h1 : ps ≤ pe)
    (h2 : pe ≤ xs.length) :
    PySlice.slice xs (some ps) (some pe) 1 =
      (List.range (pe - ps).toNat).map fun (i : Nat) => xs[(ps + (i : Int)).toNat]! := by
  unfold PySlice.slice PySlice.sliceIdx
  rw [indices_pos _ _ _ _ (by omega)]
  simp only []
  have e1 : (if ps < 0 then max (ps + (xs.length : Int)) 0 else min ps xs.length) = ps := by omega
  have e2 : (if pe < 0 then max (pe + (xs.length : Int)) 0 else min pe xs.length) = pe := by omega
  rw [e1, e2]
  have hL : PySlice.rangeLen ps pe 1 = (pe - ps).toNat := by
    unfold PySlice.rangeLen
    simp only [show ((1 : Int) > 0) by omega, if_true]
    split
    · rw [Int.ediv_one]; congr 1; omega
    · omega
  rw [rangeList_eq_of ps pe 1 _ ps 1 hL (fun _ => ⟨rfl, rfl⟩), List.map_map]
  apply List.map_congr_left
  intro i _
  simp only [Function.comp]
  congr 2
  omega

theorem slice_window_length {α} [Inhabited α] (xs : List α) (ps pe : Int) (h0 : 0 ≤ ps) (h1 : ps ≤ pe)
    (h2 : pe ≤ xs.length) : (PySlice.slice xs (some ps) (some pe) 1).length = (pe - ps).toNat := by
  rw [slice_window xs ps pe h0 h1 h2]; simp

theorem slice_window_get {α} [Inhabited α] (xs : List α) (ps pe j : Int) (h0 : 0 ≤ ps) (h1 : ps ≤ pe)
    (h2 : pe ≤ xs.length) (hj0 : 0 ≤ j) (hj : j < pe - ps) :
    (PySlice.slice xs (some ps) (some pe) 1)[j.toNat]! = xs[(j + ps).toNat]! := by
  rw [slice_window xs ps pe h0 h1 h2]
  have hlt : j.toNat < ((List.range (pe - ps).toNat).map fun (i : Nat) => xs[(ps + (i : Int)).toNat]!).length := by
    rw [List.length_map, List.length_range]; omega
  rw [getElem!_def, List.getElem?_eq_getElem hlt, List.getElem_map, List.getElem_range]
  have e : (ps + ((j.toNat : Nat) : Int)).toNat = (j + ps).toNat := by omega
  simp only [e]

/-- **the displayed raw string is the reported parent window, strided by the reported step** -/
theorem value_eq_window (s : Seq) (h : WF s) :
    ∃ ps pe : Int, parentStart s.v = .ok (s.v.offset + ps) ∧ parentStop s.v = .ok (s.v.offset + pe) ∧
      0 ≤ ps ∧ ps ≤ pe ∧ pe ≤ s.parent.length ∧
      value s = PySlice.slice (PySlice.slice s.parent (some ps) (some pe) 1) none none s.v.step := by
  obtain ⟨ps, pe, a, b, c0, c1, c2, hel⟩ := parent_coords_exact' s.v h.1
  have c2' : pe ≤ (s.parent.length : Int) := by rw [← h.2]; exact c2
  refine ⟨ps, pe, a, b, c0, c1, c2', ?_⟩
  have hs : s.v.step ≠ 0 := step_ne_zero s h
  rw [value_eq_elems' s h, hel, List.map_map]
  have hlen := slice_window_length s.parent ps pe c0 c1 c2'
  have hget := fun j => slice_window_get s.parent ps pe j c0 c1 c2'
  generalize PySlice.slice s.parent (some ps) (some pe) 1 = raw at hlen hget ⊢
  unfold PySlice.slice
  rw [hlen]
  apply List.map_congr_left
  intro j hj
  obtain ⟨j0, j1⟩ := sliceIdx_mem_range_nat _ none none _ hs j hj
  rw [Int.toNat_of_nonneg (by omega)] at j1
  simp only [Function.comp]
  rw [hget j j0 j1]

theorem slice_all {α} [Inhabited α] (xs : List α) :
    PySlice.slice xs (some 0) (some (xs.length : Int)) 1 = xs := by
  rw [slice_window xs 0 xs.length (by omega) (by omega) (by omega)]
  apply List.ext_getElem
  · simp
  · intro i h1 h2
    rw [List.getElem_map, List.getElem_range]
    have e : ((0 : Int) + (i : Int)).toNat = i := by omega
    rw [e, getElem!_def, List.getElem?_eq_getElem h2]

theorem slice_full {α} [Inhabited α] (xs : List α) : PySlice.slice xs none none 1 = xs := by
  have : PySlice.slice xs none none 1 = PySlice.slice xs (some 0) (some (xs.length : Int)) 1 := by
    unfold PySlice.slice PySlice.sliceIdx
    rw [indices_pos' _ (by omega) _ _ _ (by omega), indices_pos' _ (by omega) _ _ _ (by omega)]
    rfl
  rw [this, slice_all]

/-- `xs[::-k] = xs[::-1][::k]` -/
theorem slice_neg_rev {α} [Inhabited α] (xs : List α) (k : Int) (hk : 0 < k) :
    PySlice.slice xs none none (-k) = PySlice.slice xs.reverse none none k := by
  unfold PySlice.slice PySlice.sliceIdx
  rw [List.length_reverse, indices_neg' _ (by omega) _ _ _ (by omega), indices_pos' _ (by omega) _ _ _ hk]
  simp only [Option.getD_none]
  have eA : clampN (-1) (xs.length : Int) = (xs.length : Int) - 1 := by unfold clampN; omega
  have eB : clampN (-(xs.length : Int) - 1) (xs.length : Int) = -1 := by unfold clampN; omega
  have eC : clampP 0 (xs.length : Int) = 0 := by unfold clampP; omega
  have eD : clampP (xs.length : Int) (xs.length : Int) = xs.length := by unfold clampP; omega
  rw [eA, eB, eC, eD]
  rcases Nat.eq_zero_or_pos xs.length with h0 | hpos
  · have : xs = [] := List.eq_nil_of_length_eq_zero h0
    subst this
    unfold PySlice.rangeList
    rw [rangeLen_neg_empty _ _ _ (by omega) (by simp), rangeLen_pos_empty _ _ _ hk (by simp)]
    rfl
  · obtain ⟨L, hL0, hL, a1, a2⟩ := rangeLen_neg ((xs.length : Int) - 1) (-1) (-k) (by omega) (by omega)
    obtain ⟨L', hL0', hL', b1, b2⟩ := rangeLen_pos 0 (xs.length : Int) k hk (by omega)
    have hLL : L = L' := ceil_unique (xs.length : Int) k L L' hk (by rw [Int.neg_neg] at a1; omega)
      (by rw [Int.neg_neg] at a2; omega) (by omega) (by omega)
    subst hLL
    unfold PySlice.rangeList
    rw [hL, hL', List.map_map, List.map_map]
    apply List.map_congr_left
    intro i hi
    rw [List.mem_range] at hi
    have hiL : (i : Int) ≤ L - 1 := by omega
    have p1 : (i : Int) * k ≤ (L - 1) * k := Int.mul_le_mul_of_nonneg_right hiL (by omega)
    have p0 : 0 ≤ (i : Int) * k := Int.mul_nonneg (by omega) (by omega)
    have e1 : (L - 1) * k = L * k - k := by ring
    have e2 : (i : Int) * (-k) = -((i : Int) * k) := by ring
    simp only [Function.comp]
    have hlt : ((i : Int) * k).toNat < xs.length := by omega
    have hlt' : ((0 : Int) + (i : Int) * k).toNat < xs.reverse.length := by
      rw [List.length_reverse]; omega
    have e : ((xs.length : Int) - 1 + (i : Int) * -k).toNat
        = xs.length - 1 - ((0 : Int) + (i : Int) * k).toNat := by omega
    have hm : xs.length - 1 - ((0 : Int) + (i : Int) * k).toNat < xs.length := by omega
    rw [getElem!_def, getElem!_def, e, List.getElem?_eq_getElem hlt', List.getElem_reverse,
      List.getElem?_eq_getElem hm]

/-! ### `SeqDataView.str_value` -/

/-- for offset 0 the `SeqDataView` reading (`data[parent_start:parent_stop][::step]`) is the same
string as `SeqView.value` (`data[start:stop:step]`) -/
theorem sdv_str_value_eq (data : List Char) (v : View) (h : Inv v) (hl : v.seqLen = data.length)
    (ho : v.offset = 0) :
    sdvStrValue data v = .ok (PySlice.slice data (some v.start) (some v.stop) v.step) := by
  obtain ⟨ps, pe, a, b, _, _, _, hv⟩ := value_eq_window { parent := data, v := v, nucleic := false } ⟨h, hl⟩
  simp only [ho, Int.zero_add] at a b
  unfold sdvStrValue
  rw [a, b]
  simp only []
  have : value { parent := data, v := v, nucleic := false }
      = PySlice.slice data (some v.start) (some v.stop) v.step := rfl
  rw [← this, hv]
  split
  · rename_i h1; rw [h1, slice_full]
  · rfl

/-- with a non-zero offset `str_value` reads a shifted (and truncated) window of the stored data -/
theorem sdv_offset_counter :
    sdvStrValue "ACGTACGTAC".toList { start := 0, stop := 10, step := 1, offset := 3, seqLen := 10 }
      = .ok "TACGTAC".toList ∧
    PySlice.slice "ACGTACGTAC".toList (some 0) (some 10) 1 = "ACGTACGTAC".toList := by decide

/-! ### parent coordinates through chains -/

theorem slice_nil {α} [Inhabited α] (a b : Option Int) (c : Int) (hc : c ≠ 0) :
    PySlice.slice ([] : List α) a b c = [] := by
  unfold PySlice.slice
  have : PySlice.sliceIdx ([] : List α).length a b c = [] := by
    apply List.eq_nil_iff_forall_not_mem.2
    intro j hj
    have := sliceIdx_mem_range_nat 0 a b c hc j hj
    omega
  rw [this]; rfl

/-- results keep `seq_len` *and* `offset`, or are the `_zero_slice` -/
def KeepGood (v : View) (r : Except Err View) : Prop :=
  ∀ w, r = .ok w → (w.seqLen = v.seqLen ∧ w.offset = v.offset) ∨ w = zeroSlice

theorem kg_ite {v : View} {c : Prop} [Decidable c] {x y : Except Err View} (hx : KeepGood v x)
    (hy : KeepGood v y) : KeepGood v (if c then x else y) := by
  split <;> assumption

theorem kg_zero (v : View) : KeepGood v (.ok (zero .seqView v)) := by
  intro w hw; right; rw [← Except.ok.inj hw]; rfl

theorem kg_self (v : View) : KeepGood v (.ok v) := by
  intro w hw; left; rw [← Except.ok.inj hw]; exact ⟨rfl, rfl⟩

theorem kg_err {v : View} {e : Err} : KeepGood v (.error e) := by
  intro w hw; cases hw

theorem kg_remk (v : View) (a b K : Int) : KeepGood v (remk v a b K) :=
  fun w hw => Or.inl (remk_seqLen v a b K w hw)

theorem getitemSlice_keep (v w : View) (a b c : Option Int)
    (hw : getitemSlice .seqView v a b c = .ok w) :
    (w.seqLen = v.seqLen ∧ w.offset = v.offset) ∨ w = zeroSlice := by
  have key : KeepGood v (getitemSlice .seqView v a b c) := by
    unfold getitemSlice
    apply kg_ite (kg_remk v _ _ _)
    apply kg_ite (kg_self v)
    apply kg_ite (kg_zero v)
    simp only []
    unfold fwdFromFwd fwdFromRev revFromFwd revFromRev revFromRevTail
    repeat (first | exact kg_zero v | exact kg_remk v _ _ _ | exact kg_err | apply kg_ite)
  exact key w hw

theorem getitemInt_keep (v w : View) (i : Int) (hw : getitemInt v i = .ok w) :
    w.seqLen = v.seqLen ∧ w.offset = v.offset := by
  unfold getitemInt at hw
  cases hg : getIndex v i with
  | error e => simp [hg, bind, Except.bind] at hw
  | ok r =>
    obtain ⟨a, b, c⟩ := r
    simp [hg, bind, Except.bind] at hw
    exact remk_seqLen v a b c w hw

/-- the sequence still points into the original parent, with the original offset and seqid -/
def Keep (t : List Char) (o : Int) (sid : Option String) (s : ASeq) : Prop :=
  s.q.v.offset = o ∧ s.q.parent = t ∧ s.seqid = sid

theorem rewrap_ok (s s' : ASeq) (r : Except Err Seq) (h : rewrap s r = .ok s') :
    ∃ q', r = .ok q' ∧ s' = { q := q', seqid := if q'.v.seqLen = s.q.v.seqLen then s.seqid else none } := by
  cases r with
  | error e => cases h
  | ok q' => exact ⟨q', rfl, (Except.ok.inj h).symm⟩

theorem step1_base (s s' : ASeq) (op : SOp) (h : step1 s op = .ok s') :
    ∃ q', SeqWrap.step1 s.q op = .ok q' ∧
      s' = { q := q', seqid := if q'.v.seqLen = s.q.v.seqLen then s.seqid else none } := by
  cases op <;> exact rewrap_ok s s' _ h

theorem step1_view (q q' : Seq) (op : SOp) (_h : WF q) (hq : SeqWrap.step1 q op = .ok q') :
    ∃ w, q' = wrap q w ∧ ((w.seqLen = q.v.seqLen ∧ w.offset = q.v.offset) ∨ w = zeroSlice) := by
  cases op with
  | slice a b c =>
    obtain ⟨w, hg, rfl⟩ := getitem_inv_ok q q' a b c hq
    exact ⟨w, rfl, getitemSlice_keep q.v w a b c hg⟩
  | index i =>
    obtain ⟨w, hg, rfl⟩ := getitemI_inv_ok q q' i hq
    exact ⟨w, rfl, Or.inl (getitemInt_keep q.v w i hg)⟩
  | rc =>
    obtain ⟨w, hg, rfl⟩ := getitem_inv_ok q q' none none (some (-1)) hq
    exact ⟨w, rfl, getitemSlice_keep q.v w _ _ _ hg⟩

theorem str_nil_of_value (comp : Char → Char) (q : Seq) (h : value q = []) : str comp q = [] := by
  unfold str; rw [h]; split <;> rfl

theorem step1_keep (comp : Char → Char) (hcomp : ∀ x, comp (comp x) = x) (t : List Char) (o : Int)
    (sid : Option String) (s s' : ASeq) (op : SOp) (h : WF s.q) (hop : SOp.ok s.q.nucleic op)
    (hs : step1 s op = .ok s') :
    WF s'.q ∧ s'.q.nucleic = s.q.nucleic ∧
    (Keep t o sid s → Keep t o sid s' ∨ str comp s'.q = []) ∧
    (str comp s.q = [] → str comp s'.q = []) := by
  obtain ⟨q', hq, rfl⟩ := step1_base s s' op hs
  obtain ⟨hspec, hwf, hnuc⟩ := (SeqWrap.step1_spec comp hcomp s.q op h hop).1 q' hq
  refine ⟨hwf, hnuc, ?_, ?_⟩
  · intro hk
    obtain ⟨w, rfl, hw⟩ := step1_view s.q q' op h hq
    rcases hw with ⟨h1, h2⟩ | hz
    · left
      refine ⟨?_, ?_, ?_⟩
      · show w.offset = o; rw [h2]; exact hk.1
      · show (if w.seqLen = s.q.v.seqLen then s.q.parent else []) = t
        rw [if_pos h1]; exact hk.2.1
      · show (if w.seqLen = s.q.v.seqLen then s.seqid else none) = sid
        rw [if_pos h1]; exact hk.2.2
    · right
      apply str_nil_of_value
      rw [value_eq_elems' _ hwf]
      show (elems w).map _ = []
      rw [hz, elems_zeroSlice]; rfl
  · intro he
    rw [he] at hspec
    cases op with
    | slice a b c =>
      have hc0 : c.getD 1 ≠ 0 := by
        cases c with
        | none => simp
        | some x => simp [SOp.ok] at hop ⊢; exact hop
      simp only [SeqWrap.specStep, specSlice, Option.some.injEq, slice_nil a b _ hc0] at hspec
      rw [← hspec]; split <;> rfl
    | index i =>
      simp [SeqWrap.specStep, PySlice.index] at hspec
    | rc =>
      simp only [SeqWrap.specStep, specRc, Option.some.injEq] at hspec
      rw [← hspec]; rfl

theorem runOps_keep (comp : Char → Char) (hcomp : ∀ x, comp (comp x) = x) (t : List Char) (o : Int)
    (sid : Option String) (ops : List SOp) (s s' : ASeq) (h : WF s.q)
    (hops : ∀ op ∈ ops, SOp.ok s.q.nucleic op) (hs : runOps s ops = .ok s') :
    WF s'.q ∧ s'.q.nucleic = s.q.nucleic ∧
    (Keep t o sid s → Keep t o sid s' ∨ str comp s'.q = []) ∧
    (str comp s.q = [] → str comp s'.q = []) := by
  induction ops generalizing s with
  | nil =>
    simp only [runOps, Except.ok.injEq] at hs; subst hs
    exact ⟨h, rfl, fun hk => Or.inl hk, fun he => he⟩
  | cons op ops ih =>
    unfold runOps at hs
    cases h1 : step1 s op with
    | error e => rw [h1] at hs; cases hs
    | ok u =>
      rw [h1] at hs
      obtain ⟨wu, nu, ku, eu⟩ := step1_keep comp hcomp t o sid s u op h (hops op (by simp)) h1
      obtain ⟨w', n', k', e'⟩ := ih u wu (fun x hx => by rw [nu]; exact hops x (by simp [hx])) hs
      refine ⟨w', by rw [n', nu], ?_, fun he => e' (eu he)⟩
      intro hk
      rcases ku hk with hk' | he
      · exact k' hk'
      · exact Or.inr (e' he)

theorem wf_ofString (t : List Char) (nucleic : Bool) (o : Int) (sid : Option String) :
    WF (ofString t nucleic o sid).q := by
  refine ⟨⟨?_, Or.inl ⟨?_, ?_, ?_, ?_⟩⟩, rfl⟩ <;> simp [ofString]

/-- reading the reported coordinates off the parent gives the displayed string -/
theorem str_eq_readSegment (comp : Char → Char) (q : Seq) (h : WF q) :
    ∃ ps pe : Int, parentStart q.v = .ok (q.v.offset + ps) ∧ parentStop q.v = .ok (q.v.offset + pe) ∧
      0 ≤ ps ∧ ps ≤ pe ∧ pe ≤ q.parent.length ∧
      str comp q = readSegment comp q.nucleic q.parent ps pe (if q.v.step < 0 then -1 else 1) (pyabs q.v.step) := by
  obtain ⟨ps, pe, a, b, c0, c1, c2, hv⟩ := value_eq_window q h
  refine ⟨ps, pe, a, b, c0, c1, c2, ?_⟩
  have hs := step_ne_zero q h
  unfold str readSegment pyabs
  simp only []
  rcases Int.lt_or_lt_of_ne hs with hk | hk
  · simp only [hk, if_true, true_and]
    have e : q.v.step = -(-q.v.step) := by omega
    rw [hv]
    conv => lhs; rw [e]
    rw [slice_neg_rev _ (-q.v.step) (by omega)]
    cases hn : q.nucleic
    · simp
    · simp only [if_true]
      rw [slice_map _ _ _ _ _ (by omega)]
  · have hk' : ¬ q.v.step < 0 := by omega
    simp only [hk', if_false, false_and]
    rw [hv]
    simp

theorem parent_coordinates_chain' (comp : Char → Char) (hcomp : ∀ x, comp (comp x) = x)
    (t : List Char) (nucleic : Bool) (o : Int) (sid : Option String) (ops : List SOp) (s' : ASeq)
    (hops : ∀ op ∈ ops, SOp.ok nucleic op) (hs : runOps (ofString t nucleic o sid) ops = .ok s')
    (hne : str comp s'.q ≠ []) :
    ∃ ps pe : Int,
      parentCoordinates s' = .ok (sid, o + ps, o + pe, if s'.q.v.step < 0 then -1 else 1) ∧
      annotationOffset s' = .ok (o + ps) ∧ 0 ≤ ps ∧ ps ≤ pe ∧ pe ≤ t.length ∧
      str comp s'.q = readSegment comp nucleic t ps pe (if s'.q.v.step < 0 then -1 else 1) (pyabs s'.q.v.step) := by
  obtain ⟨hwf, hn, hk, _⟩ := runOps_keep comp hcomp t o sid ops (ofString t nucleic o sid) s'
    (wf_ofString t nucleic o sid) hops hs
  have hkeep : Keep t o sid s' := by
    rcases hk ⟨rfl, rfl, rfl⟩ with x | x
    · exact x
    · exact absurd x hne
  obtain ⟨k1, k2, k3⟩ := hkeep
  obtain ⟨ps, pe, a, b, c0, c1, c2, hstr⟩ := str_eq_readSegment comp s'.q hwf
  rw [k1] at a b
  rw [k2] at c2 hstr
  have hn' : s'.q.nucleic = nucleic := hn
  rw [hn'] at hstr
  refine ⟨ps, pe, ?_, a, c0, c1, c2, hstr⟩
  unfold parentCoordinates
  rw [a, b, k3]

end CogentModel.SeqCoords
