import CogentModel.Proofs.RateMatrixLemmas
import Mathlib.Algebra.Order.Field.Basic
import Mathlib.Tactic.Linarith
import Mathlib.Tactic.Ring
import Mathlib.Tactic.FieldSimp
/-! C05: `GeneralStationary.calc_exchangeability_matrix` — the `last_in_column` loop balances every column. -/

namespace CogentModel.RateMatrix
open Finset
set_option linter.unusedSectionVars false
set_option linter.unusedSimpArgs false

variable {K : Type*} [Field K]

/-- `dot(mprobs, R[j])` -/
def rowT (n : Nat) (pi : Vec K) (R : Mat K) (j : Nat) : K := ∑ k ∈ range n, vget pi k * mget R j k
/-- `dot(mprobs, R[:, j])` -/
def colT (n : Nat) (pi : Vec K) (R : Mat K) (j : Nat) : K := ∑ k ∈ range n, vget pi k * mget R k j
/-- `R[i, j] = v` -/
def setCell (n : Nat) (R : Mat K) (i j : Nat) (v : K) : Mat K := tab n fun a b => if a = i ∧ b = j then v else mget R a b

theorem mget_setCell (n : Nat) (R : Mat K) (i j : Nat) (v : K) {a b : Nat} (ha : a < n) (hb : b < n) :
    mget (setCell n R i j v) a b = if a = i ∧ b = j then v else mget R a b := mget_tab _ ha hb

theorem colT_setCell_same (n : Nat) (pi : Vec K) (R : Mat K) (i j : Nat) (v : K) (hi : i < n) (hj : j < n) :
    colT n pi (setCell n R i j v) j = colT n pi R j + vget pi i * (v - mget R i j) := by
  unfold colT
  rw [Finset.sum_congr rfl (g := fun k => vget pi k * mget R k j + if k = i then vget pi i * (v - mget R i j) else 0) fun k hk => by
    rw [mget_setCell n R i j v (Finset.mem_range.mp hk) hj]
    by_cases h : k = i
    · subst h; simp; ring
    · simp [h]]
  rw [Finset.sum_add_distrib, Finset.sum_ite_eq', if_pos (Finset.mem_range.mpr hi)]

theorem colT_setCell_other (n : Nat) (pi : Vec K) (R : Mat K) (i j' j : Nat) (v : K) (hj : j < n) (hne : j ≠ j') :
    colT n pi (setCell n R i j' v) j = colT n pi R j := by
  unfold colT
  exact Finset.sum_congr rfl fun k hk => by
    rw [mget_setCell n R i j' v (Finset.mem_range.mp hk) hj, if_neg (fun h => hne h.2)]

theorem rowT_setCell_other (n : Nat) (pi : Vec K) (R : Mat K) (i j' j : Nat) (v : K) (hj : j < n) (hne : j ≠ i) :
    rowT n pi (setCell n R i j' v) j = rowT n pi R j := by
  unfold rowT
  exact Finset.sum_congr rfl fun k hk => by
    rw [mget_setCell n R i j' v hj (Finset.mem_range.mp hk), if_neg (fun h => hne h.1)]

/-- global conservation: `∑_j π_j·col_j = ∑_j π_j·row_j` -/
theorem flow_conservation (n : Nat) (pi : Vec K) (R : Mat K) :
    ∑ j ∈ range n, vget pi j * colT n pi R j = ∑ j ∈ range n, vget pi j * rowT n pi R j := by
  unfold colT rowT
  simp only [Finset.mul_sum]
  rw [Finset.sum_comm]
  exact Finset.sum_congr rfl fun k _ => Finset.sum_congr rfl fun j _ => by ring

section ordered
variable [LinearOrder K] [IsStrictOrderedRing K]

theorem absA_eq_abs (x : K) : absA x = |x| := by
  unfold absA
  split
  · rename_i h; exact (abs_of_neg h).symm
  · rename_i h; exact (abs_of_nonneg (not_lt.mp h)).symm

/-- the value written by one pass (`required`, after the `allclose` adjustment) -/
def gsReq (n : Nat) (pi : Vec K) (R : Mat K) (j : Nat) : K := rowT n pi R j - colT n pi R j
def gsAdj (tol x : K) : K := if |x| ≤ tol then |x| else x

theorem gsStep_eq (n : Nat) (tol : K) (pi : Vec K) (R : Mat K) (ij : Nat × Nat) :
    gsStep n tol pi R ij =
      if gsAdj tol (gsReq n pi R ij.2) < 0 then none
      else some (setCell n R ij.1 ij.2 (gsAdj tol (gsReq n pi R ij.2) / vget pi ij.1)) := by
  unfold gsStep gsAdj gsReq rowT colT setCell
  simp only [sumTo_eq_sum, absA_eq_abs]

/-- **the error branch**: `ParameterOutOfBoundsError` is raised exactly when `row_total - col_total < -tol` -/
theorem gsStep_none_iff (n : Nat) (tol : K) (htol : 0 ≤ tol) (pi : Vec K) (R : Mat K) (ij : Nat × Nat) :
    gsStep n tol pi R ij = none ↔ gsReq n pi R ij.2 < -tol := by
  rw [gsStep_eq]
  unfold gsAdj
  by_cases hsmall : |gsReq n pi R ij.2| ≤ tol
  · rw [if_pos hsmall, if_neg (not_lt.mpr (abs_nonneg _))]
    constructor
    · intro h; exact absurd h (by simp)
    · intro h
      have := (abs_le.mp hsmall).1
      linarith
  · rw [if_neg hsmall]
    constructor
    · intro h
      by_cases hneg : gsReq n pi R ij.2 < 0
      · have := not_le.mp hsmall
        rw [abs_of_neg hneg] at this
        linarith
      · rw [if_neg hneg] at h; exact absurd h (by simp)
    · intro h
      have hneg : gsReq n pi R ij.2 < 0 := by linarith
      rw [if_pos hneg]


/-- column `j` is balanced: `π`-weighted inflow = outflow (`col_total = row_total`) -/
def Bal (n : Nat) (pi : Vec K) (R : Mat K) (j : Nat) : Prop := colT n pi R j = rowT n pi R j

/-- the matrix after one successful pass -/
def gsNext (n : Nat) (tol : K) (pi : Vec K) (R : Mat K) (ij : Nat × Nat) : Mat K :=
  setCell n R ij.1 ij.2 (gsAdj tol (gsReq n pi R ij.2) / vget pi ij.1)

/-- every required value met along the run is non-negative (no `allclose` adjustment is ever active) -/
def GsExact (n : Nat) (tol : K) (pi : Vec K) : Mat K → List (Nat × Nat) → Prop
  | _, [] => True
  | R, ij :: rest => 0 ≤ gsReq n pi R ij.2 ∧ GsExact n tol pi (gsNext n tol pi R ij) rest

theorem gsStep_some (n : Nat) (tol : K) (pi : Vec K) (R R' : Mat K) (ij : Nat × Nat) (h : gsStep n tol pi R ij = some R') :
    R' = gsNext n tol pi R ij := by
  rw [gsStep_eq] at h
  split at h
  · exact absurd h (by simp)
  · injection h with h; exact h.symm

theorem gsAdj_nonneg (tol x : K) (hx : 0 ≤ x) : gsAdj tol x = x := by
  unfold gsAdj; split <;> simp [abs_of_nonneg hx]

theorem gsNext_bal_same (n : Nat) (tol : K) (pi : Vec K) (R : Mat K) (i j : Nat) (hi : i < n) (hj : j < n) (hij : i ≠ j)
    (hreq : 0 ≤ gsReq n pi R j) (hpi : vget pi i ≠ 0) (h0 : mget R i j = 0) : Bal n pi (gsNext n tol pi R (i, j)) j := by
  unfold Bal gsNext
  simp only []
  rw [colT_setCell_same n pi R i j _ hi hj, rowT_setCell_other n pi R i j j _ hj (Ne.symm hij), h0, sub_zero,
    gsAdj_nonneg tol _ hreq, mul_div_cancel₀ _ hpi]
  unfold gsReq; ring

theorem gsNext_bal_other (n : Nat) (tol : K) (pi : Vec K) (R : Mat K) (ij : Nat × Nat) (j : Nat) (hj : j < n)
    (h1 : ij.2 ≠ j) (h2 : ij.1 ≠ j) (hb : Bal n pi R j) : Bal n pi (gsNext n tol pi R ij) j := by
  unfold Bal gsNext at *
  rw [colT_setCell_other n pi R _ _ j _ hj (Ne.symm h1), rowT_setCell_other n pi R _ _ j _ hj (Ne.symm h2)]
  exact hb

theorem gsNext_cell_other (n : Nat) (tol : K) (pi : Vec K) (R : Mat K) (ij : Nat × Nat) {a b : Nat} (ha : a < n) (hb : b < n)
    (hne : b ≠ ij.2) : mget (gsNext n tol pi R ij) a b = mget R a b := by
  unfold gsNext; rw [mget_setCell n R _ _ _ ha hb, if_neg (fun h => hne h.2)]

/-- the `last_in_column` loop: every listed column ends balanced, and untouched balanced columns stay balanced -/
theorem gsLoop_balanced (n : Nat) (tol : K) (pi : Vec K) : ∀ (l : List (Nat × Nat)) (R R' : Mat K),
    gsLoop n tol pi R l = some R' → GsExact n tol pi R l →
    l.Pairwise (fun a b => b.2 ≠ a.2 ∧ b.1 ≠ a.2) →
    (∀ ij ∈ l, ij.1 < n ∧ ij.2 < n ∧ ij.1 ≠ ij.2 ∧ vget pi ij.1 ≠ 0 ∧ mget R ij.1 ij.2 = 0) →
    (∀ j, j < n → (∃ i, (i, j) ∈ l) → Bal n pi R' j) ∧
    (∀ j, j < n → (∀ ij ∈ l, ij.2 ≠ j ∧ ij.1 ≠ j) → Bal n pi R j → Bal n pi R' j)
  | [], R, R', h, _, _, _ => by
    simp only [gsLoop, Option.some.injEq] at h
    subst h
    exact ⟨fun j _ ⟨i, hi⟩ => absurd hi (by simp), fun j _ _ hb => hb⟩
  | ij :: rest, R, R', h, hex, hpw, hcells => by
    rw [gsLoop] at h
    split at h
    · exact absurd h (by simp)
    · rename_i R1 hstep
      have hR1 := gsStep_some n tol pi R R1 ij hstep
      subst hR1
      obtain ⟨hreq, hex'⟩ := hex
      obtain ⟨hhead, hpw'⟩ := List.pairwise_cons.mp hpw
      obtain ⟨hi, hj, hij, hpi, h0⟩ := hcells ij List.mem_cons_self
      have hcells' : ∀ ij' ∈ rest, ij'.1 < n ∧ ij'.2 < n ∧ ij'.1 ≠ ij'.2 ∧ vget pi ij'.1 ≠ 0 ∧
          mget (gsNext n tol pi R ij) ij'.1 ij'.2 = 0 := by
        intro ij' hm
        obtain ⟨a1, a2, a3, a4, a5⟩ := hcells ij' (List.mem_cons_of_mem _ hm)
        exact ⟨a1, a2, a3, a4, by rw [gsNext_cell_other n tol pi R ij a1 a2 (hhead ij' hm).1]; exact a5⟩
      obtain ⟨ih1, ih2⟩ := gsLoop_balanced n tol pi rest _ R' h hex' hpw' hcells'
      refine ⟨?_, ?_⟩
      · intro j hjn ⟨i, him⟩
        rcases List.mem_cons.mp him with heq | hm
        · -- the head balances column j; the rest never touches it
          have : ij = (i, j) := heq.symm
          subst this
          exact ih2 j hjn (fun ij' hm' => hhead ij' hm')
            (gsNext_bal_same n tol pi R i j hi hj hij hreq hpi h0)
        · exact ih1 j hjn ⟨i, hm⟩
      · intro j hjn hall hb
        have hh := hall ij List.mem_cons_self
        exact ih2 j hjn (fun ij' hm => hall ij' (List.mem_cons_of_mem _ hm))
          (gsNext_bal_other n tol pi R ij j hjn hh.1 hh.2 hb)

/-- with all columns but `j0` balanced and `π_{j0} ≠ 0`, conservation balances `j0` as well -/
theorem bal_last (n : Nat) (pi : Vec K) (R : Mat K) (j0 : Nat) (hj0 : j0 < n) (hpi : vget pi j0 ≠ 0)
    (h : ∀ j, j < n → j ≠ j0 → Bal n pi R j) : Bal n pi R j0 := by
  have hc := flow_conservation n pi R
  have hsplit : ∀ f : Nat → K, ∑ j ∈ range n, f j = f j0 + ∑ j ∈ (range n).erase j0, f j :=
    fun f => (Finset.add_sum_erase _ f (Finset.mem_range.mpr hj0)).symm
  rw [hsplit, hsplit (fun j => vget pi j * rowT n pi R j)] at hc
  have hrest : ∑ j ∈ (range n).erase j0, vget pi j * colT n pi R j = ∑ j ∈ (range n).erase j0, vget pi j * rowT n pi R j :=
    Finset.sum_congr rfl fun j hj => by
      rw [h j (Finset.mem_range.mp (Finset.mem_of_mem_erase hj)) (Finset.ne_of_mem_erase hj)]
  rw [hrest] at hc
  exact mul_left_cancel₀ hpi (add_right_cancel hc)


/-- the loop succeeds iff every required value met along the (tolerant) run is `≥ -tol` -/
def GsOk (n : Nat) (tol : K) (pi : Vec K) : Mat K → List (Nat × Nat) → Prop
  | _, [] => True
  | R, ij :: rest => -tol ≤ gsReq n pi R ij.2 ∧ GsOk n tol pi (gsNext n tol pi R ij) rest

theorem gsLoop_isSome_iff (n : Nat) (tol : K) (htol : 0 ≤ tol) (pi : Vec K) : ∀ (l : List (Nat × Nat)) (R : Mat K),
    (gsLoop n tol pi R l).isSome = true ↔ GsOk n tol pi R l
  | [], R => by simp [gsLoop, GsOk]
  | ij :: rest, R => by
    rw [gsLoop, GsOk]
    cases hs : gsStep n tol pi R ij with
    | none =>
      have := (gsStep_none_iff n tol htol pi R ij).mp hs
      simp only [Option.isSome_none, Bool.false_eq_true, false_iff, not_and]
      intro h; linarith
    | some R1 =>
      have hne : ¬ gsReq n pi R ij.2 < -tol := fun h => by
        rw [(gsStep_none_iff n tol htol pi R ij).mpr h] at hs; exact absurd hs (by simp)
      rw [gsStep_some n tol pi R R1 ij hs]
      simp only []
      rw [gsLoop_isSome_iff n tol htol pi rest]
      exact ⟨fun h => ⟨not_lt.mp hne, h⟩, fun h => h.2⟩

theorem exchGeneral_zero_cell (n : Nat) (pick : Array (Array Nat)) (params : List K) {i j : Nat} (hi : i < n) (hj : j < n)
    (h0 : (pick.getD i #[]).getD j 0 = 0) : mget (exchGeneral n pick params) i j = 0 := by
  unfold exchGeneral
  simp only []
  rw [mget_tab _ hi hj, h0]
  simp

end ordered
end CogentModel.RateMatrix
