import CogentModel.Model.PathProcess
import CogentModel.Proofs.ExpmBridge
import CogentModel.Proofs.RateMatrixLemmas
import Mathlib.Algebra.BigOperators.Fin

namespace CogentModel.PathProcess
open CogentModel.RateMatrix CogentModel.Expm Finset Matrix

section
variable {K : Type*} [Field K] {n : Nat}

def toV (n : Nat) (v : Vec K) : Fin n → K := fun i => vget v i.val

theorem toV_vecMat (v : Vec K) (P : Mat K) : toV n (vecMat n v P) = (toV n v) ᵥ* (toM n P) := by
  ext j
  simp only [toV, vecMat, vget_vtab _ j.isLt, Matrix.vecMul, dotProduct, toM_apply]
  rw [sumTo_eq_sum, ← Fin.sum_univ_eq_sum_range (fun i => vget v i * mget P i j.val) n]

theorem toM_foldl (Ps : List (Mat K)) : ∀ A : Mat K,
    toM n (Ps.foldl (matMul n) A) = toM n A * (Ps.map (toM n)).prod := by
  induction Ps with
  | nil => intro A; simp
  | cons P Ps ih => intro A; simp [ih, toM_matMul, mul_assoc]

theorem toM_pathProduct (Ps : List (Mat K)) : toM n (pathProduct n Ps) = (Ps.map (toM n)).prod := by
  simp [pathProduct, toM_foldl, toM_ident]

theorem toV_foldl (Ps : List (Mat K)) : ∀ v : Vec K,
    toV n (Ps.foldl (vecMat n) v) = toV n v ᵥ* (Ps.map (toM n)).prod := by
  induction Ps with
  | nil => intro v; simp
  | cons P Ps ih => intro v; simp [ih, toV_vecMat, Matrix.vecMul_vecMul]

theorem toV_pathDist (mp : Vec K) (Ps : List (Mat K)) : toV n (pathDist n mp Ps) = toV n mp ᵥ* (Ps.map (toM n)).prod :=
  toV_foldl Ps mp

theorem rowsum_iff (P : Mat K) (c : K) : (∀ i, i < n → sumTo n (fun j => mget P i j) = c) ↔ toM n P *ᵥ (fun _ => 1) = fun _ => c := by
  constructor
  · intro h; ext i
    rw [Matrix.mulVec, dotProduct, ← h i.val i.isLt, sumTo_eq_sum, ← Fin.sum_univ_eq_sum_range (fun k => mget P i k) n]
    exact Finset.sum_congr rfl fun k _ => by rw [mul_one]; rfl
  · intro h i hi
    have := congrFun h ⟨i, hi⟩
    rw [Matrix.mulVec, dotProduct] at this
    rw [sumTo_eq_sum, ← Fin.sum_univ_eq_sum_range (fun k => mget P i k) n, ← this]
    exact Finset.sum_congr rfl fun k _ => by rw [mul_one]; rfl

theorem total_iff (v : Vec K) (c : K) : sumTo n (vget v) = c ↔ toV n v ⬝ᵥ (fun _ => 1) = c := by
  rw [dotProduct, sumTo_eq_sum, ← Fin.sum_univ_eq_sum_range (fun k => vget v k) n]
  simp [toV]

theorem prod_mulVec_one (Ms : List (Matrix (Fin n) (Fin n) K)) (h : ∀ M ∈ Ms, M *ᵥ (fun _ => (1:K)) = fun _ => 1) :
    Ms.prod *ᵥ (fun _ => (1:K)) = fun _ => 1 := by
  induction Ms with
  | nil => simp
  | cons M Ms ih =>
    rw [List.prod_cons, ← Matrix.mulVec_mulVec, ih (fun M' hM' => h M' (List.mem_cons_of_mem _ hM')), h M List.mem_cons_self]

theorem vecMul_prod_fixed (x : Fin n → K) (Ms : List (Matrix (Fin n) (Fin n) K)) (h : ∀ M ∈ Ms, x ᵥ* M = x) :
    x ᵥ* Ms.prod = x := by
  induction Ms with
  | nil => simp
  | cons M Ms ih =>
    rw [List.prod_cons, ← Matrix.vecMul_vecMul, h M List.mem_cons_self, ih (fun M' hM' => h M' (List.mem_cons_of_mem _ hM'))]

theorem ensRate_scale (pi : Vec K) (Q : Mat K) (c : K) : ensRate n pi (matScale n c Q) = c * ensRate n pi Q := by
  unfold ensRate matScale
  rw [sumTo_congr (g := fun i => c * (vget pi i * mget Q i i)) fun i hi => by rw [mget_tab _ hi hi]; ring]
  rw [sumTo_eq_sum, sumTo_eq_sum, ← Finset.mul_sum]; ring

end
end CogentModel.PathProcess
