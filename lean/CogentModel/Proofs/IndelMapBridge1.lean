import CogentModel.Proofs.IndelMapTrips
namespace CogentModel.IndelMap
open CogentModel.Gapped List

/-- list-level form of the `stop` case analysis of `__getitem__` -/
def seE (starts ends : List Int) (stop : Int) (r : Nat) : Nat :=
  if r = ends.length then r
  else if getN starts r < stop ∧ stop ≤ getN ends r then r + 1 else r

def seL (starts ends L : List Int) (stop : Int) (r : Nat) : List Int :=
  if r = ends.length then L
  else if getN starts r < stop ∧ stop ≤ getN ends r then L.set r (getN L r - (getN ends r - stop)) else L

theorem sliceEnd_eq (m : IMap) (stop : Int) (r : Nat) (starts ends L : List Int)
    (h : numGaps m = ends.length) :
    sliceEnd m stop r starts ends L = (seE starts ends stop r, seL starts ends L stop r) := by
  unfold sliceEnd seE seL
  rw [h]
  split
  · rfl
  · split <;> rfl

/-- the `starts` list agrees with the triples as far as `< stop` tests can see -/
def StartsOK (stop : Int) : List Int → List Trip → Prop
  | sd :: S, t :: T => (sd < stop ↔ t.2.1 < stop) ∧ StartsOK stop S T
  | [], [] => True
  | _, _ => False

/-- the stop phase on whole lists equals `takeT` (the `starts` list may show the untrimmed start
of the first gap: only `< stop` tests are made on it) -/
theorem sp_spec (stop : Int) (T : List Trip) : ∀ (S : List Int),
    StartsOK stop S T →
    (T.map (·.1)).take (seE S (T.map (·.2.2)) stop (ssRight (T.map (·.2.2)) stop))
      = (takeT stop T).map (·.1) ∧
    (seL S (T.map (·.2.2)) (T.map tlen) stop (ssRight (T.map (·.2.2)) stop)).take
        (seE S (T.map (·.2.2)) stop (ssRight (T.map (·.2.2)) stop))
      = (takeT stop T).map tlen := by
  induction T with
  | nil =>
    intro S hS
    cases S with
    | cons _ _ => exact absurd hS (by simp [StartsOK])
    | nil => simp [seE, seL, ssRight, takeT]
  | cons t r ih =>
    intro S hS
    obtain ⟨p, s, e⟩ := t
    cases S with
    | nil => exact absurd hS (by simp [StartsOK])
    | cons sd S' =>
      obtain ⟨hd, htl⟩ := hS
      obtain ⟨i1, i2⟩ := ih S' htl
      simp only [map_cons, ssRight, takeT]
      by_cases c1 : e ≤ stop
      · simp only [c1, if_true]
        have eE : seE (sd :: S') (e :: map (·.2.2) r) stop (ssRight (map (·.2.2) r) stop + 1)
            = seE S' (map (·.2.2) r) stop (ssRight (map (·.2.2) r) stop) + 1 := by
          unfold seE
          simp only [length_cons, Nat.add_right_cancel_iff, getN_cons_succ]
          split
          · rfl
          · split <;> rfl
        have eL : seL (sd :: S') (e :: map (·.2.2) r) (tlen (p, s, e) :: map tlen r) stop (ssRight (map (·.2.2) r) stop + 1)
            = tlen (p, s, e) :: seL S' (map (·.2.2) r) (map tlen r) stop (ssRight (map (·.2.2) r) stop) := by
          unfold seL
          simp only [length_cons, Nat.add_right_cancel_iff, getN_cons_succ]
          split
          · rfl
          · split
            · rw [set_cons_succ]
            · rfl
        rw [eE, eL, take_succ_cons, take_succ_cons, i1, i2]
        simp
      · simp only [c1, if_false]
        have hd' : sd < stop ↔ s < stop := hd
        have hsd : (sd < stop ∧ stop ≤ e) ↔ s < stop := by
          constructor
          · intro h; exact hd'.mp h.1
          · intro h; exact ⟨hd'.mpr h, by omega⟩
        unfold seE seL
        have hne : ¬ (0 = (map (fun x : Trip => x.2.2) r).length + 1) := by omega
        simp only [length_cons, getN_cons_zero, hne, if_false]
        by_cases c2 : s < stop
        · simp only [hsd.mpr c2, and_self, if_true, c2]
          simp [tlen]; omega
        · have : ¬ (sd < stop ∧ stop ≤ e) := fun h => c2 (hsd.mp h)
          simp only [this, if_false, c2]
          simp
end CogentModel.IndelMap
