import CogentModel.Proofs.AlnPred
import CogentModel.Proofs.AlnTotal
/-! C03: histories in which the filter predicate is evaluated by the model (`AOp2`), and `sliding_windows`. -/
namespace CogentModel.Aln
open CogentModel.IndelMap CogentModel.Gapped List CogentModel

/-- operations of the extended histories covered by the theorem -/
def Op2OK : AOp2 → Prop
  | .base op => OpOK op
  | .filtered _ _ _ => True

theorem seqLen_show (a : AlnA) (hwf : AllWF a) : seqLenD (showA a) = seqLenA a := by
  unfold seqLenD seqLenA
  symm
  apply foldl_max_congr
  unfold showA
  rw [map_map]
  apply map_congr_left
  intro p hp
  simp only [Function.comp]
  have h := hwf p hp
  rw [gapped_total p.2 h, length_map]
  exact (len_eq' p.2.map h.1).symm

/-- **one step of an extended history refines** (for EVERY predicate on motif columns): `Alignment.filtered`
— predicate evaluated on the motif columns of the displayed rows, `kept` toggle, FeatureMap of the blocks,
`gapped_by_map` — shows the kept motifs of every displayed string joined, and refuses / returns `None`
exactly when the string operation does -/
theorem step2_refines (dna : Bool) (a : AlnA) (op : AOp2) (hop : Op2OK op) (hwf : AllWF a)
    (a' : AlnA) (dna' : Bool) (h : stepA2 dna a op = .ok (a', dna')) :
    AllWF a' ∧ stepD2 dna (showA a) op = some (.ok (showA a', dna')) := by
  cases op with
  | base op => exact step_refines dna a op hop hwf a' dna' h
  | filtered pred ml drop =>
    simp only [stepA2] at h
    by_cases hml : ml = 0
    · rw [if_pos hml] at h; cases h
    rw [if_neg hml] at h
    have hml' : 0 < ml := by omega
    by_cases hrem : Int.fmod (seqLenA a) (ml : Int) ≠ 0 ∧ drop = false
    · rw [if_pos hrem] at h; cases h
    rw [if_neg hrem] at h
    have hrows : (a.map fun p => gapped p.2) = (showA a).map (·.2) := by
      unfold showA; rw [map_map]; rfl
    generalize hvs : verdicts pred ml (numMotifs ml (a.map fun p => gapped p.2)) (a.map fun p => gapped p.2) = vs at h
    rw [motifRuns_eq ml hml' vs 0 none] at h
    have e0 : ((0 * ml : Nat) : Int) = 0 := by simp
    rw [e0] at h
    have h' : stepA dna a (.filterMask (expandMask ml vs)) = .ok (a', dna') := by
      simp only [stepA]
      cases hr : maskRuns 0 none (expandMask ml vs) with
      | nil => simp only [hr] at h; cases h
      | cons x xs => simp only [hr] at h ⊢; exact h
    obtain ⟨w, sd⟩ := step_refines dna a (.filterMask (expandMask ml vs)) trivial hwf a' dna' h'
    refine ⟨w, ?_⟩
    simp only [stepD] at sd
    simp only [stepD2]
    rw [if_neg hml, seqLen_show a hwf, if_neg hrem, ← hrows, hvs]
    rw [expandMask_all ml hml' vs] at sd
    by_cases hall : vs.all (! ·) = true
    · rw [if_pos hall] at sd; cases sd
    rw [if_neg hall] at sd ⊢
    rw [← sd]
    congr 3
    apply map_congr_left
    intro p hp
    congr 1
    symm
    apply denseFilter_expand
    rw [← hvs, verdicts_length]
    apply numMotifs_le
    unfold showA at hp
    obtain ⟨q, hq, rfl⟩ := mem_map.mp hp
    exact mem_map.mpr ⟨q, hq, rfl⟩

/-- **extended history theorem** -/
theorem run2_refines (ops : List AOp2) : ∀ (dna : Bool) (a : AlnA), (∀ op ∈ ops, Op2OK op) → AllWF a →
    ∀ (a' : AlnA) (dna' : Bool), runA2 dna a ops = .ok (a', dna') →
    AllWF a' ∧ runD2 dna (showA a) ops = some (.ok (showA a', dna')) := by
  induction ops with
  | nil => intro dna a _ hwf a' dna' h; simp only [runA2] at h; cases h; exact ⟨hwf, rfl⟩
  | cons op ops ih =>
    intro dna a hok hwf a' dna' h
    simp only [runA2] at h
    cases hs : stepA2 dna a op with
    | error e => rw [hs] at h; cases h
    | ok res =>
      obtain ⟨a1, d1⟩ := res
      rw [hs] at h
      obtain ⟨w1, s1⟩ := step2_refines dna a op (hok op (by simp)) hwf a1 d1 hs
      obtain ⟨w2, s2⟩ := ih d1 a1 (fun o ho => hok o (by simp [ho])) w1 a' dna' h
      exact ⟨w2, by simp only [runD2]; rw [s1]; exact s2⟩

/-- what `keepMotifs` keeps are motifs of columns with a positive verdict: with the `AllowedCharacters`
predicate every character that survives is an allowed one -/
theorem keepMotifs_allowed (chars : List Char) (ml : Nat) : ∀ (k : Nat) (rows : List (List Char)) (s : List Char),
    s ∈ rows → ∀ c ∈ keepMotifs ml (verdicts (allowedChars chars) ml k rows) s, c ∈ chars := by
  intro k
  induction k with
  | zero => intro rows s _ c hc; simp [verdicts, keepMotifs] at hc
  | succ k ih =>
    intro rows s hs c hc
    simp only [verdicts, keepMotifs, mem_append] at hc
    rcases hc with hc | hc
    · by_cases hv : allowedChars chars (rows.map (·.take ml)) = true
      · rw [if_pos hv] at hc
        unfold allowedChars at hv
        rw [all_eq_true] at hv
        have := hv (s.take ml) (mem_map.mpr ⟨s, hs, rfl⟩)
        rw [all_eq_true] at this
        simpa using this c hc
      · rw [if_neg hv] at hc; cases hc
    · exact ih (rows.map (·.drop ml)) (s.drop ml) (mem_map.mpr ⟨s, hs, rfl⟩) c hc

/-- window starts of `sliding_windows` stay inside the alignment: for `0 ≤ start`, `1 ≤ step` every yielded
slice `[pos : pos + window]` has `0 ≤ pos` and `pos + window ≤ n` -/
theorem windowBounds_in_range (n window step : Int) (start stop : Option Int) (hstep : 0 < step)
    (hstart : ∀ x, start = some x → 0 ≤ x) :
    ∀ p ∈ windowBounds n window step start stop, 0 ≤ p.1 ∧ p.2 = p.1 + window ∧ p.2 ≤ n := by
  intro p hp
  unfold windowBounds at hp
  simp only at hp
  generalize hs : start.getD 0 = s at hp
  generalize he : min (n - window + 1) (stop.getD (n - window + 1)) = e at hp
  by_cases hc : s < e ∧ n - e ≥ window - 1
  · rw [if_pos hc] at hp
    obtain ⟨x, hx, rfl⟩ := mem_map.mp hp
    unfold PySlice.rangeList at hx
    obtain ⟨i, hi, rfl⟩ := mem_map.mp hx
    rw [mem_range] at hi
    simp only
    have hs0 : 0 ≤ s := by
      cases start with
      | none => simp at hs; omega
      | some x => simp at hs; have := hstart x rfl; omega
    have hle : e ≤ n - window + 1 := by rw [← he]; exact Int.min_le_left _ _
    unfold PySlice.rangeLen at hi
    rw [if_pos hstep, if_pos hc.1] at hi
    have hq : (i : Int) ≤ (e - s - 1) / step := by
      have h0 : 0 ≤ (e - s - 1) / step := Int.ediv_nonneg (by omega) (by omega)
      omega
    have hm : (i : Int) * step ≤ (e - s - 1) / step * step := Int.mul_le_mul_of_nonneg_right hq (by omega)
    have hd : (e - s - 1) / step * step ≤ e - s - 1 := Int.ediv_mul_le _ (by omega)
    have hi0 : 0 ≤ (i : Int) * step := Int.mul_nonneg (by omega) (by omega)
    refine ⟨by omega, trivial, by omega⟩
  · rw [if_neg hc] at hp; cases hp

end CogentModel.Aln
