import Mathlib.Algebra.BigOperators.Ring.Finset
import Mathlib.Algebra.BigOperators.Group.Finset.Basic
import Mathlib.Data.List.Perm.Basic
import Mathlib.Tactic.Ring
import Mathlib.Algebra.Field.Defs
import CogentModel.Proofs.Prune
import CogentModel.Proofs.PruneSym
import CogentModel.Model.PruneInvariance
/-!
Helper lemmas for the second C11 props file: `rooted_at` as a function, renaming of the states,
contraction of identity (zero-length) edges anywhere in the tree, the bin mixture, `unrooted()`.
-/
namespace CogentModel.Prune
open Finset

section semiring
variable {R : Type} [CommSemiring R] {α : Type}

theorem prodUp_append (m : Nat) (prof : α → Nat → R) (xs ys : List (PTree R α)) (s : Nat) :
    (prodUp m prof (xs ++ ys)).get s = (prodUp m prof xs).get s * (prodUp m prof ys).get s := by
  induction xs with
  | nil => simp
  | cons x xs ih => simp only [List.cons_append, prodUp_cons, ih, mul_assoc]

/-! ### `rooted_at` produces a tree related by `Reroot` -/

omit [CommSemiring R] in
theorem pick_eq {β : Type} : ∀ (i : Nat) (xs b : List β) (x : β) (a : List β),
    pick i xs = some (b, x, a) → xs = b ++ x :: a
  | _, [], _, _, _, h => by simp [pick] at h
  | 0, y :: ys, b, x, a, h => by
    simp only [pick, Option.some.injEq, Prod.mk.injEq] at h
    obtain ⟨rfl, rfl, rfl⟩ := h; rfl
  | i + 1, y :: ys, b, x, a, h => by
    simp only [pick, Option.map_eq_some_iff] at h
    obtain ⟨⟨b', x', a'⟩, hp, he⟩ := h
    simp only [Prod.mk.injEq] at he
    obtain ⟨rfl, rfl, rfl⟩ := he
    simp [pick_eq i ys b' x' a' hp]

omit [CommSemiring R] in
theorem plug_descend : ∀ (p : List Nat) (t : PTree R α) (fs : List (Frame R α)) (x : PTree R α)
    (fs' : List (Frame R α)), descend p t fs = some (x, fs') → plug x fs' = plug t fs
  | [], t, fs, x, fs', h => by
    simp only [descend, Option.some.injEq, Prod.mk.injEq] at h
    obtain ⟨rfl, rfl⟩ := h; rfl
  | _ :: _, .leaf _ _, fs, x, fs', h => by simp [descend] at h
  | i :: p, .node P cs, fs, x, fs', h => by
    simp only [descend] at h
    split at h
    · simp at h
    · rename_i b y a hp
      rw [plug_descend p y _ x fs' h, plug, ← pick_eq i cs b y a hp]

omit [CommSemiring R] in
theorem reroot_plug : ∀ (fs : List (Frame R α)) (P : Mat R) (cs : List (PTree R α)),
    Reroot (plug (.node P cs) fs) (.node P (cs ++ upTail P fs))
  | [], P, cs => by
    simp only [plug, upTail, List.append_nil]
    exact .refl _
  | f :: rest, P, cs => by
    have ih := reroot_plug rest f.mat (f.before ++ .node P cs :: f.after)
    simp only [plug, upTail]
    refine .trans _ _ _ ih ?_
    refine .trans _ (.node f.mat (.node P cs :: (f.before ++ f.after ++ upTail f.mat rest))) _
      (.perm _ _ _ ?_) ?_
    · simp only [List.append_assoc, List.cons_append]
      exact List.perm_middle
    · refine .trans _ _ _ (.move f.mat P P cs (f.before ++ f.after ++ upTail f.mat rest)) (.perm _ _ _ ?_)
      exact List.perm_append_comm (l₁ := [_])

omit [CommSemiring R] in
theorem rootedAt_reroot {path : List Nat} {t t' : PTree R α} (h : rootedAt path t = some t') : Reroot t t' := by
  unfold rootedAt at h
  split at h
  · rename_i P cs fs hd
    simp only [Option.some.injEq] at h
    subst h
    have := plug_descend path t [] _ fs hd
    simp only [plug] at this
    rw [← this]
    exact reroot_plug fs P cs
  · simp at h

/-! ### renaming the states -/

/-- `σ` is a permutation of the states `< m` with inverse `τ` -/
structure PermOn (m : Nat) (σ τ : Nat → Nat) : Prop where
  σ_lt : ∀ i, i < m → σ i < m
  τ_lt : ∀ i, i < m → τ i < m
  τσ : ∀ i, i < m → τ (σ i) = i
  στ : ∀ i, i < m → σ (τ i) = i

theorem sum_permOn {m : Nat} {σ τ : Nat → Nat} (h : PermOn m σ τ) (f : Nat → R) :
    ∑ i ∈ range m, f (σ i) = ∑ i ∈ range m, f i :=
  Finset.sum_nbij' σ τ (by simpa using h.σ_lt) (by simpa using h.τ_lt) (by simpa using h.τσ)
    (by simpa using h.στ) (fun _ _ => rfl)

omit [CommSemiring R] in
theorem PTree.mat_mapMats (f : Mat R → Mat R) (c : PTree R α) : (c.mapMats f).mat = f c.mat := by
  cases c <;> rfl

mutual
theorem plh_permStates (m : Nat) (σ τ : Nat → Nat) (h : PermOn m σ τ) (prof : α → Nat → R) :
    ∀ (t : PTree R α) (s : Nat),
      (plh m (fun a i => prof a (σ i)) (t.mapMats (permMat σ))).get s = (plh m prof t).get (σ s)
  | .leaf P a, s => by simp [PTree.mapMats]
  | .node P cs, s => by
    simp only [PTree.mapMats, plh_node]
    exact prodUp_permStates m σ τ h prof cs s
theorem prodUp_permStates (m : Nat) (σ τ : Nat → Nat) (h : PermOn m σ τ) (prof : α → Nat → R) :
    ∀ (cs : List (PTree R α)) (s : Nat),
      (prodUp m (fun a i => prof a (σ i)) (PTree.mapMatsL (permMat σ) cs)).get s = (prodUp m prof cs).get (σ s)
  | [], s => by simp [PTree.mapMatsL]
  | c :: cs, s => by
    simp only [PTree.mapMatsL, prodUp_cons, up_get]
    rw [prodUp_permStates m σ τ h prof cs s]
    congr 1
    rw [PTree.mat_mapMats]
    simp only [permMat, plh_permStates m σ τ h prof c]
    exact sum_permOn h (fun u => c.mat (σ s) u * (plh m prof c).get u)
end

theorem lh_permStates (m : Nat) (σ τ : Nat → Nat) (h : PermOn m σ τ) (π : Nat → R) (prof : α → Nat → R)
    (t : PTree R α) :
    lh m (fun i => π (σ i)) (fun a i => prof a (σ i)) (t.mapMats (permMat σ)) = lh m π prof t := by
  rw [lh_eq, lh_eq]
  simp only [plh_permStates m σ τ h prof t]
  exact sum_permOn h (fun u => (plh m prof t).get u * π u)

/-! ### a change of some node's child list, anywhere in the tree -/

mutual
/-- `Deep B t t'`: the child list of ONE node of `t` (at any depth) is replaced by a `B`-related list -/
inductive Deep (B : List (PTree R α) → List (PTree R α) → Prop) : PTree R α → PTree R α → Prop
  | here (P : Mat R) (cs cs' : List (PTree R α)) : B cs cs' → Deep B (.node P cs) (.node P cs')
  | under (P : Mat R) (cs cs' : List (PTree R α)) : DeepL B cs cs' → Deep B (.node P cs) (.node P cs')
inductive DeepL (B : List (PTree R α) → List (PTree R α) → Prop) : List (PTree R α) → List (PTree R α) → Prop
  | head (c c' : PTree R α) (cs : List (PTree R α)) : Deep B c c' → DeepL B (c :: cs) (c' :: cs)
  | tail (c : PTree R α) (cs cs' : List (PTree R α)) : DeepL B cs cs' → DeepL B (c :: cs) (c :: cs')
end

mutual
theorem plh_deep (m : Nat) (prof : α → Nat → R) {B : List (PTree R α) → List (PTree R α) → Prop}
    (hB : ∀ cs cs', B cs cs' → ∀ s, s < m → (prodUp m prof cs).get s = (prodUp m prof cs').get s) :
    ∀ {t t' : PTree R α}, Deep B t t' →
      t.mat = t'.mat ∧ ∀ s, s < m → (plh m prof t).get s = (plh m prof t').get s
  | _, _, .here P cs cs' hb => ⟨rfl, fun s hs => by rw [plh_node, plh_node]; exact hB cs cs' hb s hs⟩
  | _, _, .under P cs cs' hl => ⟨rfl, fun s hs => by rw [plh_node, plh_node]; exact prodUp_deepL m prof hB hl s hs⟩
theorem prodUp_deepL (m : Nat) (prof : α → Nat → R) {B : List (PTree R α) → List (PTree R α) → Prop}
    (hB : ∀ cs cs', B cs cs' → ∀ s, s < m → (prodUp m prof cs).get s = (prodUp m prof cs').get s) :
    ∀ {cs cs' : List (PTree R α)}, DeepL B cs cs' →
      ∀ s, s < m → (prodUp m prof cs).get s = (prodUp m prof cs').get s
  | _, _, .head c c' cs h, s, _ => by
    obtain ⟨hm, hp⟩ := plh_deep m prof hB h
    rw [prodUp_cons, prodUp_cons, up_get, up_get, hm]
    congr 1
    exact Finset.sum_congr rfl fun s' hs' => by rw [hp s' (Finset.mem_range.mp hs')]
  | _, _, .tail c cs cs' hl, s, hs => by
    rw [prodUp_cons, prodUp_cons, prodUp_deepL m prof hB hl s hs]
end

theorem lh_deep (m : Nat) (π : Nat → R) (prof : α → Nat → R) {B : List (PTree R α) → List (PTree R α) → Prop}
    (hB : ∀ cs cs', B cs cs' → ∀ s, s < m → (prodUp m prof cs).get s = (prodUp m prof cs').get s)
    {t t' : PTree R α} (h : Deep B t t') : lh m π prof t = lh m π prof t' := by
  rw [lh_eq, lh_eq]
  exact Finset.sum_congr rfl fun s hs => by rw [(plh_deep m prof hB h).2 s (Finset.mem_range.mp hs)]

/-! ### contracting an identity (zero-length) edge -/

/-- `I` is the identity on the states `< m` -/
def IsId (m : Nat) (I : Mat R) : Prop := ∀ i j, i < m → j < m → I i j = if i = j then 1 else 0

/-- an internal child below an identity edge is replaced, in place, by its own children -/
inductive Contract (m : Nat) : List (PTree R α) → List (PTree R α) → Prop
  | mk (I : Mat R) (pre xs post : List (PTree R α)) : IsId m I →
      Contract m (pre ++ .node I xs :: post) (pre ++ xs ++ post)

theorem up_identity (m : Nat) (prof : α → Nat → R) (I : Mat R) (hI : IsId m I) (xs : List (PTree R α))
    (s : Nat) (hs : s < m) : (up m prof (.node I xs)).get s = (prodUp m prof xs).get s := by
  rw [up_get, plh_node, PTree.mat_node]
  rw [Finset.sum_congr rfl fun s' hs' => by rw [hI s s' hs (Finset.mem_range.mp hs')]]
  simp only [ite_mul, one_mul, zero_mul, Finset.sum_ite_eq, Finset.mem_range, hs, if_true]

theorem prodUp_contract (m : Nat) (prof : α → Nat → R) : ∀ cs cs' : List (PTree R α), Contract m cs cs' →
    ∀ s, s < m → (prodUp m prof cs).get s = (prodUp m prof cs').get s
  | _, _, .mk I pre xs post hI, s, hs => by
    simp only [prodUp_append, prodUp_cons, up_identity m prof I hI xs s hs, mul_assoc]


/-! ### `unrooted()` of a bifurcating root -/

theorem lh_root_perm (m : Nat) (π : Nat → R) (prof : α → Nat → R) (P0 P0' : Mat R) {cs cs' : List (PTree R α)}
    (hp : cs.Perm cs') : lh m π prof (.node P0 cs) = lh m π prof (.node P0' cs') := by
  simp only [lh_eq, plh_node]
  exact Finset.sum_congr rfl fun s _ => by rw [prodUp_perm m prof hp s]

theorem lh_unroot_step (m : Nat) (π : Nat → R) (prof : α → Nat → R) (P0 P : Mat R) (a : PTree R α)
    (cs : List (PTree R α)) (hdb : DetailedBalance m π P) :
    lh m π prof (.node P0 [a, .node P cs]) = lh m π prof (.node P0 (a.setMat (matMul m P a.mat) :: cs)) := by
  have hback : (a.setMat (matMul m P a.mat)).setMat a.mat = a := by cases a <;> rfl
  have hsplit : lh m π prof (.node P0 (a.setMat (matMul m P a.mat) :: cs))
      = lh m π prof (.node P0 (.node P [a] :: cs)) := by
    simp only [lh_eq, plh_node]
    refine Finset.sum_congr rfl fun s _ => ?_
    have := up_split m prof P a.mat (a.setMat (matMul m P a.mat)) (by simp) s
    rw [hback] at this
    rw [prodUp_cons, prodUp_cons, this]
  rw [hsplit, lh_root_perm m π prof P0 P0 (List.Perm.swap _ _ _ : [a, PTree.node P cs].Perm [.node P cs, a])]
  exact lh_reroot_step m π prof P0 P0 P cs [a] hdb

theorem lh_unrootedM_two (m : Nat) (π : Nat → R) (prof : α → Nat → R) (P0 : Mat R) (a b : PTree R α)
    (ha : DetailedBalance m π a.mat) (hb : DetailedBalance m π b.mat) :
    lh m π prof (unrootedM (matMul m) (.node P0 [a, b])) = lh m π prof (.node P0 [a, b]) := by
  rcases a with ⟨Pa, la⟩ | ⟨Pa, _ | ⟨x, xs⟩⟩
  · rcases b with ⟨Pb, lb⟩ | ⟨Pb, _ | ⟨y, ys⟩⟩
    · simp [unrootedM, firstInternal]
    · simp [unrootedM, firstInternal]
    · simp only [unrootedM, firstInternal, expandFirst, List.length_cons, List.length_nil, List.map_nil, List.append_nil]
      exact (lh_unroot_step m π prof P0 Pb _ _ hb).symm
  · rcases b with ⟨Pb, lb⟩ | ⟨Pb, _ | ⟨y, ys⟩⟩
    · simp [unrootedM, firstInternal]
    · simp [unrootedM, firstInternal]
    · simp only [unrootedM, firstInternal, expandFirst, List.length_cons, List.length_nil, List.map_nil, List.append_nil]
      exact (lh_unroot_step m π prof P0 Pb _ _ hb).symm
  · simp only [unrootedM, firstInternal, expandFirst, List.length_cons, List.length_nil, List.map_cons, List.map_nil]
    rw [lh_root_perm m π prof P0 P0 (List.Perm.swap _ _ _ : [PTree.node Pa (x :: xs), b].Perm [b, .node Pa (x :: xs)]),
      lh_unroot_step m π prof P0 Pa b (x :: xs) ha]
    exact lh_root_perm m π prof P0 P0 (List.perm_append_comm (l₁ := x :: xs) (l₂ := [_]))

/-! ### the bin mixture -/

theorem lhBins_congr (m : Nat) (bprobs : List R) (prof : α → Nat → R)
    {bins bins' : List ((Nat → R) × PTree R α)}
    (h : List.Forall₂ (fun b b' => lh m b.1 prof b.2 = lh m b'.1 prof b'.2) bins bins') :
    lhBins m bprobs bins prof = lhBins m bprobs bins' prof := by
  have : bins.map (fun b => lh m b.1 prof b.2) = bins'.map (fun b => lh m b.1 prof b.2) := by
    induction h with
    | nil => rfl
    | cons h1 _ ih => simp only [List.map_cons, h1, ih]
  simp only [lhBins]
  exact congrArg _ this

theorem lhColumn_congr (m : Nat) (bprobs : List R) (prof : α → Nat → R)
    {bins bins' : List ((Nat → R) × PTree R α)}
    (h : List.Forall₂ (fun b b' => lh m b.1 prof b.2 = lh m b'.1 prof b'.2) bins bins') :
    lhColumn m bprobs bins prof = lhColumn m bprobs bins' prof := by
  have hb := lhBins_congr m bprobs prof h
  cases h with
  | nil => rfl
  | cons h1 ht =>
    cases ht with
    | nil => rename_i b b'; obtain ⟨π, t⟩ := b; obtain ⟨π', t'⟩ := b'; simpa [lhColumn] using h1
    | cons h2 ht' => simpa [lhColumn] using hb

end semiring

/-! ### reversibility by construction (`StationaryQ.calcQ`) and its closure under polynomials -/

theorem calcQ_detailedBalance {K : Type} [Field K] (m : Nat) (Rm M : Mat K) (w π : Nat → K)
    (hsym : ∀ i j, i < m → j < m → Rm i j = Rm j i) (hM : ∀ i j, i < m → j < m → M i j = π j) :
    DetailedBalance m π (calcQ m Rm M w) := by
  intro i j hi hj
  by_cases h : i = j
  · subst h; rfl
  · have h' : ¬ j = i := fun e => h e.symm
    simp only [calcQ, if_neg h, if_neg h', sub_zero, hM i j hi hj, hM j i hj hi, hsym i j hi hj]
    ring

section
variable {R : Type} [CommSemiring R]

theorem matMul_assoc_on (m : Nat) (A B C : Mat R) (i j : Nat) :
    matMul m A (matMul m B C) i j = matMul m (matMul m A B) C i j := by
  simp only [matMul, sumOver_eq, Finset.mul_sum, Finset.sum_mul]
  rw [Finset.sum_comm]
  exact Finset.sum_congr rfl fun _ _ => Finset.sum_congr rfl fun _ _ => by ring

theorem matMul_congr_right (m : Nat) (A B B' : Mat R) (j : Nat) (h : ∀ k, k < m → B k j = B' k j) (i : Nat) :
    matMul m A B i j = matMul m A B' i j := by
  simp only [matMul, sumOver_eq]
  exact Finset.sum_congr rfl fun k hk => by rw [h k (Finset.mem_range.mp hk)]

theorem matMul_id_right (m : Nat) (A : Mat R) (i j : Nat) (hj : j < m) : matMul m A idMat i j = A i j := by
  simp only [matMul, sumOver_eq, idMat, mul_ite, mul_one, mul_zero]
  rw [Finset.sum_ite_eq' (range m) j]; simp [hj]

theorem matMul_id_left (m : Nat) (A : Mat R) (i j : Nat) (hi : i < m) : matMul m idMat A i j = A i j := by
  simp only [matMul, sumOver_eq, idMat, ite_mul, one_mul, zero_mul]
  rw [Finset.sum_ite_eq (range m) i]; simp [hi]

theorem matPow_comm (m : Nat) (Q : Mat R) : ∀ (n i j : Nat), i < m → j < m →
    matMul m Q (matPow m Q n) i j = matMul m (matPow m Q n) Q i j
  | 0, i, j, hi, hj => by simp only [matPow]; rw [matMul_id_right m Q i j hj, matMul_id_left m Q i j hi]
  | n + 1, i, j, hi, hj => by
    simp only [matPow]
    rw [matMul_congr_right m Q _ (matMul m (matPow m Q n) Q) j (fun k hk => matPow_comm m Q n k j hk hj) i,
      matMul_assoc_on]

theorem detailedBalance_matPow (m : Nat) (π : Nat → R) (Q : Mat R) (h : DetailedBalance m π Q) :
    ∀ n, DetailedBalance m π (matPow m Q n)
  | 0 => by intro i j _ _; by_cases e : i = j <;> simp [matPow, idMat, e, eq_comm]
  | n + 1 => by
    intro i j hi hj
    have ih := detailedBalance_matPow m π Q h n
    rw [show matPow m Q (n + 1) j i = matMul m Q (matPow m Q n) j i from rfl, matPow_comm m Q n j i hj hi]
    simp only [matPow, matMul, sumOver_eq, Finset.mul_sum]
    refine Finset.sum_congr rfl fun k hk => ?_
    have hk' := Finset.mem_range.mp hk
    calc π i * (Q i k * matPow m Q n k j) = (π i * Q i k) * matPow m Q n k j := by ring
      _ = (π k * Q k i) * matPow m Q n k j := by rw [h i k hi hk']
      _ = Q k i * (π k * matPow m Q n k j) := by ring
      _ = Q k i * (π j * matPow m Q n j k) := by rw [ih k j hk' hj]
      _ = π j * (matPow m Q n j k * Q k i) := by ring

/-- detailed balance is kept by sums and scalar multiples, hence by every polynomial in `Q` -/
theorem detailedBalance_add (m : Nat) (π : Nat → R) (A B : Mat R) (ha : DetailedBalance m π A) (hb : DetailedBalance m π B) :
    DetailedBalance m π (fun i j => A i j + B i j) := by
  intro i j hi hj; simp only [mul_add, ha i j hi hj, hb i j hi hj]
theorem detailedBalance_smul (m : Nat) (π : Nat → R) (c : R) (A : Mat R) (ha : DetailedBalance m π A) :
    DetailedBalance m π (fun i j => c * A i j) := by
  intro i j hi hj
  calc π i * (c * A i j) = c * (π i * A i j) := by ring
    _ = c * (π j * A j i) := by rw [ha i j hi hj]
    _ = π j * (c * A j i) := by ring

theorem detailedBalance_matPoly (m : Nat) (π : Nat → R) (Q : Mat R) (c : Nat → R) (h : DetailedBalance m π Q) :
    ∀ N, DetailedBalance m π (matPoly m Q c N)
  | 0 => by intro i j _ _; simp [matPoly]
  | N + 1 => detailedBalance_add m π _ _ (detailedBalance_matPoly m π Q c h N)
      (detailedBalance_smul m π (c N) _ (detailedBalance_matPow m π Q h N))
end

end CogentModel.Prune
