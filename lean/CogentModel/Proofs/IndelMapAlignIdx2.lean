import CogentModel.Proofs.IndelMapAlignIdx
namespace CogentModel.IndelMap
open CogentModel.Gapped List CogentModel

theorem inc_pos (gp : List Int) : ∀ (cum : List Int) (a b : Int), Inc a b gp cum →
    gp.Pairwise (· < ·) ∧ ∀ x ∈ gp, a < x := by
  induction gp with
  | nil => intro cum a b _; simp
  | cons q qs ihq =>
    intro cum a b hh
    cases cum with
    | nil => simp [Inc] at hh
    | cons d ds =>
      obtain ⟨g1, g2, g3⟩ := hh
      obtain ⟨j1, j2⟩ := ihq ds q d g3
      refine ⟨pairwise_cons.mpr ⟨j2, j1⟩, ?_⟩
      intro x hx
      rcases mem_cons.mp hx with rfl | hx'
      · exact g1
      · have := j2 x hx'; omega

theorem indexOf_none (k : Int) (gp : List Int) : indexOf? k gp = none ↔ k ∉ gp := by
  induction gp with
  | nil => simp [indexOf?]
  | cons x r ih =>
    simp only [indexOf?, mem_cons, not_or]
    by_cases h : x = k
    · simp [h]
    · simp only [h, if_false, Option.map_eq_none_iff, ih]
      constructor
      · intro h2; exact ⟨fun e => h e.symm, h2⟩
      · intro h2; exact h2.2

theorem stop_not_mem (gp : List Int) : ∀ (cum : List Int) (pc k : Int), k ∉ gp →
    alignRecStop pc gp cum k = alignRec pc gp cum k := by
  induction gp with
  | nil => intro cum pc k _; cases cum <;> rfl
  | cons p ps ih =>
    intro cum pc k hk
    cases cum with
    | nil => rfl
    | cons c cs =>
      simp only [mem_cons, not_or] at hk
      simp only [alignRecStop, alignRec, ih cs c k hk.2]
      by_cases h : k < p
      · rw [if_pos (by omega), if_pos h]
      · rw [if_neg (by omega), if_neg h]

theorem stop_at_index (gp : List Int) : ∀ (cum : List Int) (pp pc k : Int) (idx : Nat), Inc pp pc gp cum →
    indexOf? k gp = some idx →
    getN gp idx = k ∧ alignRecStop pc gp cum k = k + (if idx = 0 then pc else getN cum (idx - 1)) := by
  induction gp with
  | nil => intro cum pp pc k idx _ h; simp [indexOf?] at h
  | cons p ps ih =>
    intro cum pp pc k idx hinc h
    cases cum with
    | nil => simp [Inc] at hinc
    | cons c cs =>
      obtain ⟨h1, h2, h3⟩ := hinc
      simp only [indexOf?] at h
      by_cases hp : p = k
      · subst hp
        simp only [if_true, Option.some.injEq] at h
        subst h
        simp [getN_cons_zero, alignRecStop]
      · simp only [hp, if_false, Option.map_eq_some_iff] at h
        obtain ⟨j, hj, rfl⟩ := h
        obtain ⟨i1, i2⟩ := ih cs p c k j h3 hj
        have hmem : k ∈ ps := by
          by_contra hn
          rw [(indexOf_none k ps).mpr hn] at hj; cases hj
        have := (inc_pos ps cs p c h3).2 k hmem
        refine ⟨by rw [getN_cons_succ]; exact i1, ?_⟩
        simp only [alignRecStop]
        rw [if_neg (by omega), i2]
        simp only [Nat.succ_ne_zero, if_false, Nat.add_sub_cancel]
        cases j with
        | zero => simp [getN_cons_zero]
        | succ j' => simp [getN_cons_succ]

/-- `get_align_index` after the negative-index conversion -/
theorem getAlignIndex_nn (m : IMap) (h : WF m) (k : Int) (h0 : 0 ≤ k) (stop : Bool) :
    getAlignIndex m k stop =
      .ok (if stop then alignRecStop 0 m.gapPos m.cumLens k else alignRec 0 m.gapPos m.cumLens k) := by
  have hinc := h.inc
  have hl := h.len_eq
  unfold getAlignIndex
  simp only [show ¬ k < 0 by omega, if_false]
  cases hg : m.gapPos with
  | nil =>
    rw [hg] at hl
    have hc : m.cumLens = [] := by cases hc : m.cumLens with | nil => rfl | cons x xs => rw [hc] at hl; simp at hl
    simp [hc, alignRec, alignRecStop]
  | cons p ps =>
    rw [hg] at hinc
    cases hc : m.cumLens with
    | nil => rw [hc] at hinc; simp [Inc] at hinc
    | cons c cs =>
      rw [hc] at hinc
      by_cases hlt : k < p
      · have hle : k ≤ p := by omega
        cases stop with
        | false => simp [hlt, alignRec]
        | true => simp [hlt, hle, alignRecStop]
      · simp only [headD_cons, hlt, or_false, reduceCtorEq, if_false]
        have hcore := aiCore_eq_rec ps p c cs (-1) 0 k hinc
        have hnone : (match (none : Option Nat) with
            | some idx => (Except.ok (getN (p :: ps) idx + getN (c :: cs) idx -
                (if idx = 0 then getN (c :: cs) 0 else getN (c :: cs) idx - getN (c :: cs) (idx - 1))) : Except Err Int)
            | none =>
              if k ≥ lastD (p :: ps) then Except.ok (k + lastD (c :: cs))
              else if k < getN (p :: ps) (ssLeft (p :: ps) k) then
                Except.ok (k + if ssLeft (p :: ps) k = 0 then 0 else getN (c :: cs) (ssLeft (p :: ps) k - 1))
              else Except.ok (k + getN (c :: cs) (ssLeft (p :: ps) k))) = .ok (alignRec 0 (p :: ps) (c :: cs) k) := by
          rw [← hcore]
          simp only [aiCore]
          split
          · rfl
          · split <;> rfl
        cases stop with
        | false => simp only [Bool.false_eq_true, if_false]; exact hnone
        | true =>
          simp only [if_true]
          cases hio : indexOf? k (p :: ps) with
          | none =>
            rw [stop_not_mem _ _ _ _ ((indexOf_none k _).mp hio)]
            exact hnone
          | some idx =>
            obtain ⟨i1, i2⟩ := stop_at_index (p :: ps) (c :: cs) (-1) 0 k idx hinc hio
            simp only []
            rw [i2, i1]
            congr 1
            by_cases hi : idx = 0
            · subst hi; simp only [if_true]; omega
            · simp only [hi, if_false]; omega

end CogentModel.IndelMap
