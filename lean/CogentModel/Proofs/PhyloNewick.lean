import CogentModel.Model.PhyloNewick
import CogentModel.Proofs.PhyloBasic
set_option linter.unusedSimpArgs false
/-! C09: the parser state machine inverts the writer on token lists. -/
namespace CogentModel.Phylo
open PTree
variable {K : Type}

/-- parser state between tokens (never expecting a length) -/
abbrev ps (stack : List (Frame K)) (nodes : List (PTree K)) (inParen : Bool)
    (children : Option (List (PTree K))) (name : Option String) (len : Option K) : PState K :=
  ⟨stack, nodes, inParen, children, name, len, false⟩

def kidsOpt (w : Bool) : PTree K → Option (List (PTree K))
  | .node _ _ [] => none
  | .node _ _ (c :: cs) => some (stripLensL w (c :: cs))
def nameOpt : PTree K → Option String
  | .node n _ _ => if n = "" then none else some n
def lenOpt (w : Bool) : PTree K → Option K
  | .node _ l _ => if w then l else none

theorem mkNode_opts (w : Bool) (t : PTree K) : mkNode (kidsOpt w t) (nameOpt t) (lenOpt w t) = stripLens w t := by
  cases t with
  | node n l cs =>
    cases cs with
    | nil => by_cases h : n = "" <;> simp [mkNode, kidsOpt, nameOpt, lenOpt, stripLens, stripLensL, h]
    | cons c cs => by_cases h : n = "" <;> simp [mkNode, kidsOpt, nameOpt, lenOpt, stripLens, stripLensL, h]

/-- reading the name and length tokens of a node -/
theorem prun_name_len (w : Bool) (stack : List (Frame K)) (nodes : List (PTree K)) (ip : Bool)
    (kids : Option (List (PTree K))) (n : String) (l : Option K) (rest : List (Tok K)) :
    prun (ps stack nodes ip kids none none) ((nameToks n ++ lenToks w l) ++ rest) =
      prun (ps stack nodes ip kids (if n = "" then none else some n) (if w then l else none)) rest := by
  by_cases hn : n = "" <;> cases l <;> cases w <;>
    simp [nameToks, lenToks, hn, prun, pstep, ps]

mutual
theorem prun_toks (w : Bool) : ∀ (t : PTree K) (stack : List (Frame K)) (nodes : List (PTree K)) (ip : Bool)
    (rest : List (Tok K)),
    prun (ps stack nodes ip none none none) (toks w t ++ rest) =
      prun (ps stack nodes ip (kidsOpt w t) (nameOpt t) (lenOpt w t)) rest
  | .node n l [], stack, nodes, ip, rest => by
    simp only [toks, kidsOpt, nameOpt, lenOpt]
    exact prun_name_len w stack nodes ip none n l rest
  | .node n l (c :: cs), stack, nodes, ip, rest => by
    simp only [toks, kidsOpt, nameOpt, lenOpt, List.cons_append, List.append_assoc]
    -- the opening parenthesis pushes a frame
    have hlp : prun (ps stack nodes ip none none none)
        (Tok.lp :: (toks w c ++ (toksTail w cs ++ (nameToks n ++ (lenToks w l ++ rest))))) =
        prun (ps (⟨nodes, ip⟩ :: stack) [] true none none none)
          (toks w c ++ (toksTail w cs ++ (nameToks n ++ (lenToks w l ++ rest)))) := by
      simp [prun, pstep, ps]
    rw [hlp, prun_tail w cs c ⟨nodes, ip⟩ stack [] (nameToks n ++ (lenToks w l ++ rest))]
    have := prun_name_len w stack nodes ip (some ([] ++ stripLens w c :: stripLensL w cs)) n l rest
    simpa [List.append_assoc, stripLensL] using this
termination_by t => sizeOf t
decreasing_by all_goals (simp_wf; omega)
theorem prun_tail (w : Bool) : ∀ (cs : List (PTree K)) (c : PTree K) (f : Frame K) (stack : List (Frame K))
    (acc : List (PTree K)) (rest : List (Tok K)),
    prun (ps (f :: stack) acc true none none none) (toks w c ++ (toksTail w cs ++ rest)) =
      prun (ps stack f.nodes f.inParen (some (acc ++ stripLens w c :: stripLensL w cs)) none none) rest
  | [], c, f, stack, acc, rest => by
    rw [prun_toks w c (f :: stack) acc true (toksTail w [] ++ rest)]
    simp [toksTail, prun, pstep, closeNode, ps, mkNode_opts, stripLensL]
  | c2 :: cs, c, f, stack, acc, rest => by
    rw [prun_toks w c (f :: stack) acc true (toksTail w (c2 :: cs) ++ rest)]
    have hcomma : prun (ps (f :: stack) acc true (kidsOpt w c) (nameOpt c) (lenOpt w c))
        (toksTail w (c2 :: cs) ++ rest) =
        prun (ps (f :: stack) (acc ++ [stripLens w c]) true none none none)
          (toks w c2 ++ (toksTail w cs ++ rest)) := by
      simp [toksTail, prun, pstep, closeNode, ps, mkNode_opts]
    rw [hcomma, prun_tail w cs c2 f stack (acc ++ [stripLens w c]) rest]
    simp [stripLensL, List.append_assoc]
termination_by cs c => sizeOf c + sizeOf cs + 1
decreasing_by all_goals (simp_wf; omega)
end

theorem parse_newickToks (w : Bool) (t : PTree K) : parseToks (newickToks w t) = some (stripLens w t) := by
  unfold parseToks newickToks
  have := prun_toks w t [] [] false [Tok.semi]
  simp only [ps] at this
  rw [show ({} : PState K) = ⟨[], [], false, none, none, none, false⟩ from rfl, this]
  simp [prun, pstep, closeNode, mkNode_opts]

mutual
theorem stripLens_true : ∀ t : PTree K, stripLens true t = t
  | .node n l cs => by simp [stripLens, stripLensL_true cs]
theorem stripLensL_true : ∀ cs : List (PTree K), stripLensL true cs = cs
  | [] => rfl
  | c :: cs => by simp [stripLensL, stripLens_true c, stripLensL_true cs]
end

end CogentModel.Phylo
