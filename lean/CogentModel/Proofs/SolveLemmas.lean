import CogentModel.Proofs.ExpmLemmas
/-! C05: correctness and completeness of the Gauss–Jordan model of `numpy.linalg.solve` (`Model/Expm.lean`). -/

namespace CogentModel.Expm
open CogentModel.RateMatrix Finset
set_option linter.unusedSectionVars false
set_option linter.unusedSimpArgs false

variable {K : Type*} [Field K]

theorem EntryEq.refl (n : Nat) (A : Mat K) : EntryEq n A A := fun _ _ _ _ => rfl
theorem EntryEq.symm {n : Nat} {A B : Mat K} (h : EntryEq n A B) : EntryEq n B A := fun i j hi hj => (h i j hi hj).symm
theorem EntryEq.trans {n : Nat} {A B C : Mat K} (h1 : EntryEq n A B) (h2 : EntryEq n B C) : EntryEq n A C :=
  fun i j hi hj => (h1 i j hi hj).trans (h2 i j hi hj)

theorem matMul_congr_left (n : Nat) {A A' : Mat K} (X : Mat K) (h : EntryEq n A A') : EntryEq n (matMul n A X) (matMul n A' X) := by
  intro i j hi hj
  rw [mget_matMul n A X hi hj, mget_matMul n A' X hi hj]
  exact Finset.sum_congr rfl fun k hk => by rw [h i k hi (Finset.mem_range.mp hk)]

theorem matMul_congr_right (n : Nat) (A : Mat K) {X X' : Mat K} (h : EntryEq n X X') : EntryEq n (matMul n A X) (matMul n A X') := by
  intro i j hi hj
  rw [mget_matMul n A X hi hj, mget_matMul n A X' hi hj]
  exact Finset.sum_congr rfl fun k hk => by rw [h k j (Finset.mem_range.mp hk) hj]

theorem matMul_ident_left (n : Nat) (I X : Mat K) (hI : EntryEq n I (ident n)) : EntryEq n (matMul n I X) X := by
  intro i j hi hj
  rw [mget_matMul n I X hi hj]
  rw [Finset.sum_congr rfl fun k hk => by rw [hI i k hi (Finset.mem_range.mp hk), mget_ident n hi (Finset.mem_range.mp hk)]]
  rw [Finset.sum_eq_single i]
  · simp
  · intro b _ hb; rw [if_neg (Ne.symm hb), zero_mul]
  · intro h; exact absurd (Finset.mem_range.mpr hi) h

/-- the row operation of one elimination step (swap rows `c`,`p`, scale row `c`, clear column `c`), with the
multipliers taken from `D`, applied to an arbitrary matrix `M` -/
def rowOp (n c p : Nat) (D M : Mat K) : Mat K :=
  let sw := fun (M : Mat K) => tab n fun i j =>
    if i = c then mget M p j else if i = p then mget M c j else mget M i j
  let D1 := sw D
  let piv := mget D1 c c
  tab n fun i j => if i = c then mget (sw M) c j / piv else mget (sw M) i j - mget D1 i c * (mget (sw M) c j / piv)

section
variable [DecidableEq K]

theorem elimStep_eq (n c : Nat) (D N D' N' : Mat K) (h : elimStep n c D N = some (D', N')) :
    ∃ p, c ≤ p ∧ p < c + (n - c) ∧ mget D p c ≠ 0 ∧ D' = rowOp n c p D D ∧ N' = rowOp n c p D N := by
  unfold elimStep at h
  split at h
  · exact absurd h (by simp)
  · rename_i p hp
    obtain ⟨hp1, hp2, hp3⟩ := findPivot_spec D c _ _ _ hp
    simp only [Option.some.injEq, Prod.mk.injEq] at h
    exact ⟨p, hp1, hp2, hp3, h.1.symm, h.2.symm⟩
end

/-- the multiplier column of the swapped `D` -/
def mult (c p : Nat) (D : Mat K) (i : Nat) : K := if i = c then mget D p c else if i = p then mget D c c else mget D i c

theorem mget_rowOp (n c p : Nat) (hc : c < n) (D M : Mat K) {i j : Nat} (hi : i < n) (hj : j < n) :
    mget (rowOp n c p D M) i j =
      if i = c then mget M p j / mget D p c
      else (if i = p then mget M c j else mget M i j) - mult c p D i * (mget M p j / mget D p c) := by
  unfold rowOp mult
  simp only []
  rw [mget_tab _ hi hj, mget_tab _ hc hj, mget_tab _ hc hc, mget_tab _ hi hj, mget_tab _ hi hc]
  simp only [if_true]
  by_cases h1 : i = c
  · simp only [h1, if_true]
  · simp only [h1, if_false]

theorem rowOp_matMul (n c p : Nat) (hc : c < n) (hp : p < n) (D M X : Mat K) :
    EntryEq n (matMul n (rowOp n c p D M) X) (rowOp n c p D (matMul n M X)) := by
  intro i j hi hj
  rw [mget_matMul n _ X hi hj, mget_rowOp n c p hc D _ hi hj]
  rw [Finset.sum_congr rfl fun k hk => by rw [mget_rowOp n c p hc D M hi (Finset.mem_range.mp hk)]]
  rw [mget_matMul n M X hp hj]
  by_cases h1 : i = c
  · simp only [h1, if_true]
    rw [Finset.sum_div]
    exact Finset.sum_congr rfl fun k _ => by ring
  · simp only [h1, if_false]
    by_cases h2 : i = p
    · simp only [h2, if_true]
      rw [mget_matMul n M X hc hj]
      simp only [sub_mul, Finset.sum_sub_distrib]
      congr 1
      rw [Finset.sum_div, Finset.mul_sum]
      exact Finset.sum_congr rfl fun k _ => by ring
    · simp only [h2, if_false]
      rw [mget_matMul n M X hi hj]
      simp only [sub_mul, Finset.sum_sub_distrib]
      congr 1
      rw [Finset.sum_div, Finset.mul_sum]
      exact Finset.sum_congr rfl fun k _ => by ring

theorem rowOp_congr (n c p : Nat) (hc : c < n) (hp : p < n) (D : Mat K) {Z Z' : Mat K} (h : EntryEq n Z Z') :
    EntryEq n (rowOp n c p D Z) (rowOp n c p D Z') := by
  intro i j hi hj
  rw [mget_rowOp n c p hc D Z hi hj, mget_rowOp n c p hc D Z' hi hj, h p j hp hj, h c j hc hj, h i j hi hj]

theorem rowOp_inj (n c p : Nat) (hc : c < n) (hp : p < n) (D : Mat K) (ha : mget D p c ≠ 0) {Z Z' : Mat K}
    (h : EntryEq n (rowOp n c p D Z) (rowOp n c p D Z')) : EntryEq n Z Z' := by
  have hrowp : ∀ j, j < n → mget Z p j = mget Z' p j := by
    intro j hj
    have := h c j hc hj
    rw [mget_rowOp n c p hc D Z hc hj, mget_rowOp n c p hc D Z' hc hj, if_pos rfl, if_pos rfl] at this
    field_simp at this
    exact this
  have hrowc : ∀ j, j < n → mget Z c j = mget Z' c j := by
    intro j hj
    by_cases hpc : p = c
    · rw [← hpc]; exact hrowp j hj
    · have := h p j hp hj
      rw [mget_rowOp n c p hc D Z hp hj, mget_rowOp n c p hc D Z' hp hj, if_neg hpc, if_neg hpc, if_pos rfl, if_pos rfl,
        hrowp j hj] at this
      exact sub_left_injective this
  intro i j hi hj
  by_cases h1 : i = c
  · rw [h1]; exact hrowc j hj
  · by_cases h2 : i = p
    · rw [h2]; exact hrowp j hj
    · have := h i j hi hj
      rw [mget_rowOp n c p hc D Z hi hj, mget_rowOp n c p hc D Z' hi hj, if_neg h1, if_neg h1, if_neg h2, if_neg h2,
        hrowp j hj] at this
      exact sub_left_injective this

/-- one step preserves the solution set of `D·X = Z` exactly -/
theorem rowOp_solution_iff (n c p : Nat) (hc : c < n) (hp : p < n) (D : Mat K) (ha : mget D p c ≠ 0) (Z X : Mat K) :
    EntryEq n (matMul n (rowOp n c p D D) X) (rowOp n c p D Z) ↔ EntryEq n (matMul n D X) Z := by
  constructor
  · intro h
    exact rowOp_inj n c p hc hp D ha ((rowOp_matMul n c p hc hp D D X).symm.trans h)
  · intro h
    exact (rowOp_matMul n c p hc hp D D X).trans (rowOp_congr n c p hc hp D h)

/-- columns `< c` of `D` are unit vectors -/
def ColInv (n c : Nat) (D : Mat K) : Prop := ∀ i j, i < n → j < c → j < n → mget D i j = if i = j then 1 else 0

theorem rowOp_colInv (n c p : Nat) (hc : c < n) (hcp : c ≤ p) (hp : p < n) (D : Mat K) (ha : mget D p c ≠ 0)
    (h : ColInv n c D) : ColInv n (c + 1) (rowOp n c p D D) := by
  intro i j hi hj hjn
  rw [mget_rowOp n c p hc D D hi hjn]
  by_cases hjc : j = c
  · subst hjc
    by_cases h1 : i = j
    · rw [if_pos h1, if_pos h1, div_self ha]
    · rw [if_neg h1, if_neg h1, div_self ha, mul_one]
      unfold mult
      rw [if_neg h1]
      split <;> exact sub_self _
  · have hj' : j < c := by omega
    have hpj : mget D p j = 0 := by rw [h p j hp hj' hjn, if_neg (by omega)]
    have hcj : mget D c j = 0 := by rw [h c j hc hj' hjn, if_neg (by omega)]
    rw [hpj, zero_div, mul_zero, sub_zero]
    by_cases h1 : i = c
    · rw [if_pos h1, if_neg (by omega)]
    · rw [if_neg h1]
      by_cases h2 : i = p
      · rw [if_pos h2, hcj, if_neg (by omega)]
      · rw [if_neg h2, h i j hi hj' hjn]

section
variable [DecidableEq K]

/-- what the elimination loop guarantees at the end, for an arbitrary invariant preserved by its steps -/
theorem elimLoop_induct (n : Nat) (Inv : Nat → Mat K → Mat K → Prop)
    (hstep : ∀ c D N D' N', c < n → elimStep n c D N = some (D', N') → Inv c D N → Inv (c + 1) D' N') :
    ∀ (m c : Nat) (D N F : Mat K), c + m = n → Inv c D N → elimLoop n m c D N = some F → ∃ Dn, Inv n Dn F := by
  intro m
  induction m with
  | zero =>
    intro c D N F hcm hinv h
    simp only [elimLoop, Option.some.injEq] at h
    subst h
    have : c = n := by omega
    subst this
    exact ⟨D, hinv⟩
  | succ m ih =>
    intro c D N F hcm hinv h
    rw [elimLoop] at h
    split at h
    · exact absurd h (by simp)
    · rename_i D' N' hs
      exact ih (c + 1) D' N' F (by omega) (hstep c D N D' N' (by omega) hs hinv) h

/-- **`solve` is correct**: whenever the Gauss–Jordan model returns `F`, `D·F = N`, and `F` is the only solution -/
theorem solve_correct (n : Nat) (D N F : Mat K) (h : solve n D N = some F) :
    EntryEq n (matMul n D F) N ∧ ∀ X, EntryEq n (matMul n D X) N → EntryEq n X F := by
  unfold solve at h
  obtain ⟨Dn, hcol, hsol⟩ := elimLoop_induct n
    (fun c Dc Nc => ColInv n c Dc ∧ ∀ X, EntryEq n (matMul n Dc X) Nc ↔ EntryEq n (matMul n D X) N)
    (by
      intro c Dc Nc D' N' hc hs ⟨hcol, hsol⟩
      obtain ⟨p, hp1, hp2, hp3, hD', hN'⟩ := elimStep_eq n c Dc Nc D' N' hs
      have hp : p < n := by omega
      subst hD' hN'
      exact ⟨rowOp_colInv n c p hc hp1 hp Dc hp3 hcol,
        fun X => (rowOp_solution_iff n c p hc hp Dc hp3 Nc X).trans (hsol X)⟩)
    n 0 D N F (by omega) ⟨fun i j _ hj => absurd hj (by omega), fun X => Iff.rfl⟩ h
  have hI : EntryEq n Dn (ident n) := fun i j hi hj => by rw [hcol i j hi hj hj, mget_ident n hi hj]
  have key : ∀ X, EntryEq n X F ↔ EntryEq n (matMul n D X) N := fun X =>
    ⟨fun hx => (hsol X).mp ((matMul_ident_left n Dn X hI).trans hx),
     fun hx => (matMul_ident_left n Dn X hI).symm.trans ((hsol X).mpr hx)⟩
  exact ⟨(key F).mp (EntryEq.refl n F), fun X hx => (key X).mpr hx⟩
end

/-! completeness: `solve` fails only for a singular `D` -/

theorem rowOp_zero (n c p : Nat) (hc : c < n) (hp : p < n) (D : Mat K) {Z : Mat K} (hZ : EntryZero n Z) :
    EntryZero n (rowOp n c p D Z) := by
  intro i j hi hj
  rw [mget_rowOp n c p hc D Z hi hj, hZ p j hp hj, hZ c j hc hj, hZ i j hi hj]
  split <;> simp

theorem rowOp_kernel_iff (n c p : Nat) (hc : c < n) (hp : p < n) (D : Mat K) (ha : mget D p c ≠ 0) (X : Mat K) :
    EntryZero n (matMul n (rowOp n c p D D) X) ↔ EntryZero n (matMul n D X) := by
  have hz : EntryZero n (tab n fun _ _ => (0 : K)) := fun i j hi hj => mget_tab _ hi hj
  have h := rowOp_solution_iff n c p hc hp D ha (tab n fun _ _ => (0 : K)) X
  constructor
  · intro h0
    have : EntryEq n (matMul n (rowOp n c p D D) X) (rowOp n c p D (tab n fun _ _ => (0 : K))) :=
      fun i j hi hj => by rw [h0 i j hi hj, rowOp_zero n c p hc hp D hz i j hi hj]
    exact fun i j hi hj => by rw [h.mp this i j hi hj, hz i j hi hj]
  · intro h0
    have : EntryEq n (matMul n D X) (tab n fun _ _ => (0 : K)) := fun i j hi hj => by rw [h0 i j hi hj, hz i j hi hj]
    exact fun i j hi hj => by rw [h.mpr this i j hi hj, rowOp_zero n c p hc hp D hz i j hi hj]

section
variable [DecidableEq K]

theorem findPivot_none (D : Mat K) (c : Nat) : ∀ (m r : Nat), findPivot D c m r = none →
    ∀ i, r ≤ i → i < r + m → mget D i c = 0 := by
  intro m
  induction m with
  | zero => intro r _ i h1 h2; omega
  | succ m ih =>
    intro r h i h1 h2
    rw [findPivot] at h
    split at h
    · rename_i h0
      by_cases hir : i = r
      · rw [hir]; exact h0
      · exact ih (r + 1) h i (by omega) (by omega)
    · exact absurd h (by simp)

theorem elimStep_none (n c : Nat) (D N : Mat K) (h : elimStep n c D N = none) :
    findPivot D c (n - c) c = none := by
  unfold elimStep at h
  split at h
  · assumption
  · exact absurd h (by simp)

/-- a failing pivot search in a matrix whose first `c` columns are unit vectors exhibits a kernel vector -/
theorem kernel_of_no_pivot (n c : Nat) (hc : c < n) (D : Mat K) (hcol : ColInv n c D)
    (hz : ∀ i, c ≤ i → i < n → mget D i c = 0) :
    ∃ X : Mat K, ¬ EntryZero n X ∧ EntryZero n (matMul n D X) := by
  refine ⟨tab n fun k j => if j = 0 then (if k = c then 1 else if k < c then - mget D k c else 0) else 0, ?_, ?_⟩
  · intro h
    have := h c 0 hc (by omega)
    rw [mget_tab _ hc (by omega)] at this
    simp at this
  · intro i j hi hj
    rw [mget_matMul n D _ hi hj]
    by_cases hj0 : j = 0
    · subst hj0
      rw [Finset.sum_congr rfl (g := fun k => (if k = c then mget D i c else 0) +
          (if i = k then (if k < c then - mget D k c else 0) else 0)) fun k hk => by
        have hk' := Finset.mem_range.mp hk
        rw [mget_tab _ hk' hj]
        simp only [if_true]
        by_cases h1 : k = c
        · subst h1; simp
        · by_cases h2 : k < c
          · simp only [h1, h2, if_true, if_false, zero_add]
            rw [hcol i k hi h2 hk']
            split <;> simp
          · rw [if_neg h1, if_neg h2, if_neg h1]; simp [h2]]
      rw [Finset.sum_add_distrib, Finset.sum_ite_eq', if_pos (Finset.mem_range.mpr hc), Finset.sum_ite_eq,
        if_pos (Finset.mem_range.mpr hi)]
      by_cases h3 : i < c
      · rw [if_pos h3]; ring
      · rw [if_neg h3, add_zero]; exact hz i (by omega) hi
    · exact Finset.sum_eq_zero fun k hk => by rw [mget_tab _ (Finset.mem_range.mp hk) hj, if_neg hj0, mul_zero]

theorem elimLoop_none (n : Nat) (D0 : Mat K) : ∀ (m c : Nat) (D N : Mat K), c + m = n → ColInv n c D →
    (∀ X, EntryZero n (matMul n D X) ↔ EntryZero n (matMul n D0 X)) → elimLoop n m c D N = none →
    ∃ X : Mat K, ¬ EntryZero n X ∧ EntryZero n (matMul n D0 X) := by
  intro m
  induction m with
  | zero => intro c D N _ _ _ h; simp [elimLoop] at h
  | succ m ih =>
    intro c D N hcm hcol hker h
    rw [elimLoop] at h
    split at h
    · rename_i hs
      have hfp := findPivot_none D c _ _ (elimStep_none n c D N hs)
      obtain ⟨X, hX0, hX⟩ := kernel_of_no_pivot n c (by omega) D hcol (fun i h1 h2 => hfp i h1 (by omega))
      exact ⟨X, hX0, (hker X).mp hX⟩
    · rename_i D' N' hs
      obtain ⟨p, hp1, hp2, hp3, hD', hN'⟩ := elimStep_eq n c D N D' N' hs
      have hp : p < n := by omega
      have hc : c < n := by omega
      subst hD' hN'
      exact ih (c + 1) _ _ (by omega) (rowOp_colInv n c p hc hp1 hp D hp3 hcol)
        (fun X => (rowOp_kernel_iff n c p hc hp D hp3 X).trans (hker X)) h

/-- **`solve` succeeds exactly when `D` has a trivial kernel** (is invertible): it fails only if some pivot column is
entirely zero, which exhibits a non-zero `X` with `D·X = 0` -/
theorem solve_isSome_iff (n : Nat) (D N : Mat K) :
    (solve n D N).isSome = true ↔ ∀ X, EntryZero n (matMul n D X) → EntryZero n X := by
  constructor
  · intro h X hX
    obtain ⟨F, hF⟩ := Option.isSome_iff_exists.mp h
    obtain ⟨hDF, huniq⟩ := solve_correct n D N F hF
    -- F + X is another solution, hence equal to F
    have hsol : EntryEq n (matMul n D (matAdd n F X)) N := by
      intro i j hi hj
      rw [mget_matMul n D _ hi hj, ← hDF i j hi hj, mget_matMul n D F hi hj]
      have h0 := hX i j hi hj
      rw [mget_matMul n D X hi hj] at h0
      rw [Finset.sum_congr rfl fun k hk => by rw [mget_matAdd n F X (Finset.mem_range.mp hk) hj, mul_add],
        Finset.sum_add_distrib, h0, add_zero]
    intro i j hi hj
    have := huniq _ hsol i j hi hj
    rw [mget_matAdd n F X hi hj] at this
    exact add_eq_left.mp this
  · intro h
    by_contra hn
    have hnone : solve n D N = none := by
      cases hs : solve n D N with
      | none => rfl
      | some F => rw [hs] at hn; simp at hn
    unfold solve at hnone
    obtain ⟨X, hX0, hX⟩ := elimLoop_none n D n 0 D N (by omega) (fun i j _ hj => absurd hj (by omega)) (fun X => Iff.rfl) hnone
    exact hX0 (h X hX)
end

end CogentModel.Expm
