/-
  Lemmas about the contiguous form of a feature slice, `get_slice(allow_gaps=True)` (Model/FeatureSeq.lean
  `contigIdx` / `getSliceContig`): relation to the spliced form and the hull of sorted spans.
-/
import CogentModel.Model.FeatureSeq
import CogentModel.Proofs.FeatureView
import CogentModel.Proofs.FeatureOnView
import CogentModel.Proofs.FeatureStrided
import CogentModel.Proofs.FeatureCopy
namespace CogentModel.FeatureView
open CogentModel.View CogentModel.SeqWrap CogentModel.FeatureSpec

theorem sliceIdx_realOf (f : Feat) : sliceIdx f = (realOf f.spans).flatMap fun p => irange p.1 p.2 := by
  unfold sliceIdx realOf
  induction f.spans with
  | nil => rfl
  | cons x xs ih => cases x <;> simp [List.flatMap_cons, ih]

theorem contigIdx_single (f : Feat) (a b : Int) (h : realOf f.spans = [(a, b)]) : contigIdx f = sliceIdx f := by
  rw [sliceIdx_realOf, contigIdx, h]
  simp [mapStart, mapEnd]

theorem mapStart_sorted (p : Int × Int) (r : List (Int × Int))
    (hs : (p :: r).Pairwise (fun a b => a.2 ≤ b.1)) (hp : ∀ q ∈ p :: r, q.1 < q.2) :
    mapStart (p :: r) = p.1 := by
  induction r generalizing p with
  | nil => rfl
  | cons q r ih =>
    have hq := ih q (List.Pairwise.of_cons hs) (fun x hx => hp x (List.mem_cons_of_mem _ hx))
    simp only [mapStart, hq]
    have h1 := (List.pairwise_cons.mp hs).1 q (List.mem_cons_self ..)
    have h2 := hp p (List.mem_cons_self ..)
    omega

theorem mapEnd_sorted (p : Int × Int) (r : List (Int × Int))
    (hs : (p :: r).Pairwise (fun a b => a.2 ≤ b.1)) (hp : ∀ q ∈ p :: r, q.1 < q.2) :
    mapEnd (p :: r) = ((p :: r).getLast (List.cons_ne_nil _ _)).2 := by
  induction r generalizing p with
  | nil => rfl
  | cons q r ih =>
    have hq := ih q (List.Pairwise.of_cons hs) (fun x hx => hp x (List.mem_cons_of_mem _ hx))
    simp only [mapEnd, hq, List.getLast_cons (List.cons_ne_nil q r)]
    have hl : (q :: r).getLast (List.cons_ne_nil _ _) ∈ q :: r := List.getLast_mem _
    have h1 := (List.pairwise_cons.mp hs).1 _ hl
    have h2 := hp _ (List.mem_cons_of_mem _ hl)
    omega

/-! ## the contiguous form composed with `featureOnView` (wave 2) -/

/-- spans as `make_feature` leaves them: ordered, pairwise disjoint, non-empty -/
def Disjoint (D : List (Int × Int)) : Prop := D.Pairwise (fun a b => a.2 ≤ b.1) ∧ ∀ q ∈ D, q.1 < q.2

theorem seg_head (a b : Int) (h : a < b) : (seg a b).head? = some a := by
  unfold seg
  have : (b - a).toNat = (b - a).toNat - 1 + 1 := by omega
  rw [this, List.range_succ_eq_map]
  simp

theorem seg_last (a b : Int) (h : a < b) : (seg a b).getLast? = some (b - 1) := by
  have := seg_succ a (b - 1) (by omega)
  rw [show b - 1 + 1 = b by omega] at this
  rw [this]; simp

theorem seg_ne_nil (a b : Int) (h : a < b) : seg a b ≠ [] := by
  intro hh; have := seg_head a b h; rw [hh] at this; cases this

theorem flatMap_seg_head (c : Int) (p : Int × Int) (r : List (Int × Int)) (hp : p.1 < p.2) :
    ((p :: r).flatMap (fun q => seg (c + q.1) (c + q.2))).head? = some (c + p.1) := by
  rw [List.flatMap_cons, List.head?_append, seg_head _ _ (by omega)]; rfl

theorem flatMap_seg_last (c : Int) (D : List (Int × Int)) (hne : D ≠ []) (hp : ∀ q ∈ D, q.1 < q.2) :
    (D.flatMap (fun q => seg (c + q.1) (c + q.2))).getLast? = some (c + (D.getLast hne).2 - 1) := by
  induction D with
  | nil => exact absurd rfl hne
  | cons p r ih =>
    rw [List.flatMap_cons]
    cases r with
    | nil =>
      simp only [List.flatMap_nil, List.append_nil, List.getLast_singleton]
      rw [seg_last _ _ (by have := hp p List.mem_cons_self; omega)]
    | cons q r' =>
      have := ih (List.cons_ne_nil _ _) (fun x hx => hp x (List.mem_cons_of_mem _ hx))
      rw [List.getLast?_append, this]
      simp [List.getLast_cons]

theorem hull_flatMap (c : Int) (D : List (Int × Int)) (hne : D ≠ []) (hp : ∀ q ∈ D, q.1 < q.2) :
    hullOf (D.flatMap (fun q => seg (c + q.1) (c + q.2))) = seg (c + (D.head hne).1) (c + (D.getLast hne).2) := by
  unfold hullOf
  rw [flatMap_seg_last c D hne hp]
  cases D with
  | nil => exact absurd rfl hne
  | cons p r =>
    rw [flatMap_seg_head c p r (hp p List.mem_cons_self)]
    simp only [List.head_cons]
    congr 1; omega

theorem contigIdx_disjoint (f : Feat) (D : List (Int × Int)) (h : realOf f.spans = D) (hne : D ≠ []) (hd : Disjoint D) :
    contigIdx f = seg (D.head hne).1 (D.getLast hne).2 := by
  cases D with
  | nil => exact absurd rfl hne
  | cons p r =>
    unfold contigIdx
    rw [h]
    simp only []
    rw [mapStart_sorted p r hd.1 hd.2, mapEnd_sorted p r hd.1 hd.2]
    rfl

theorem clipped_disjoint (L p0 : Int) (spans : List (Int × Int)) (hs : Disjoint spans) :
    Disjoint ((spans.map (fun sp => (sp.1 - p0, sp.2 - p0))).filterMap (clipped L)) := by
  constructor
  · apply List.Pairwise.filterMap (R := fun a b : Int × Int => a.2 ≤ b.1)
    · intro a a' haa b hb b' hb'
      unfold clipped at hb hb'
      split at hb <;> split at hb' <;> simp_all
      obtain ⟨rfl, rfl⟩ := hb; obtain ⟨rfl, rfl⟩ := hb'
      simp only []; omega
    · rw [List.pairwise_map]
      exact hs.1.imp (fun h => by simp only []; omega)
  · intro q hq
    obtain ⟨sp, _, h2⟩ := List.mem_filterMap.mp hq
    unfold clipped at h2
    split at h2
    · simp only [Option.some.injEq] at h2; subst h2; simp only []; omega
    · cases h2

theorem mirror_disjoint (L : Int) (C : List (Int × Int)) (hC : Disjoint C) :
    Disjoint ((C.map (fun p => (L - p.2, L - p.1))).reverse) := by
  constructor
  · rw [List.pairwise_reverse, List.pairwise_map]
    exact hC.1.imp (fun h => by simp only []; omega)
  · intro q hq
    obtain ⟨x, hx, rfl⟩ := List.mem_map.mp (List.mem_reverse.mp hq)
    have := hC.2 x hx
    simp only []; omega

theorem featureOnView_contig_spec (v : View) (h : UnitView v) (hl : 0 < len v) (minus : Bool) (spans : List (Int × Int))
    (hsp : ∀ sp ∈ spans, 0 ≤ sp.1 ∧ sp.1 < sp.2) (hdis : spans.Pairwise (fun a b => a.2 ≤ b.1)) :
    ∃ f, featureOnView v minus spans = .ok f ∧
      contigPositions v f = denoteContig spans minus (segStart v) (segStart v + len v) := by
  have hD : Disjoint spans := ⟨hdis, fun q hq => (hsp q hq).2⟩
  have hsorted : spans.Pairwise (fun a b => a.1 ≤ b.1) :=
    (List.Pairwise.and_mem.mp hdis).imp (fun ⟨ha, _, hab⟩ => by have := hsp _ ha; omega)
  have hrel1 : ∀ sp ∈ spans.map (fun sp => (sp.1 - segStart v, sp.2 - segStart v)), sp.1 ≤ sp.2 := by
    intro sp hm
    obtain ⟨x, hx, rfl⟩ := List.mem_map.mp hm
    have := hsp x hx
    simp only []; omega
  have hrel2 : (spans.map (fun sp => (sp.1 - segStart v, sp.2 - segStart v))).Pairwise (fun a b => a.1 ≤ b.1) := by
    rw [List.pairwise_map]
    exact hsorted.imp (fun hab => by simp only []; omega)
  obtain ⟨f, hf, hrev, hreal⟩ := makeFeature_spec (len v) (decide (v.step < 0)) minus _ hl hrel1 hrel2
  have hlen := len_unit v h
  have hCd := clipped_disjoint (len v) (segStart v) spans hD
  have hcore := positions_core (segStart v) (len v) spans
  generalize hC : (spans.map (fun sp => (sp.1 - segStart v, sp.2 - segStart v))).filterMap (clipped (len v)) = C at hreal hCd hcore
  refine ⟨f, ?_, ?_⟩
  · unfold featureOnView
    rw [relSpans_eq v h hl spans (fun sp hx => by have := hsp sp hx; omega)]
    exact hf
  · unfold contigPositions denoteContig
    simp only []
    rw [← hcore, hrev]
    by_cases hne : C = []
    · -- nothing of the feature is retained
      subst hne
      have : realOf f.spans = [] := by rw [realOf_eq, hreal]; split <;> rfl
      simp [contigIdx, this, hullOf]
      cases minus <;> cases decide (v.step < 0) <;> rfl
    · rw [hull_flatMap (segStart v) C hne hCd.2]
      rcases h.2 with hs | hs
      · have e1 : decide (v.step < 0) = false := by rw [hs]; rfl
        have hvp : viewPos v = fun i => segStart v + i := by
          funext i; unfold viewPos segStart; rw [hs]; simp
        rw [e1] at hreal
        simp only [Bool.false_eq_true, if_false] at hreal
        rw [contigIdx_disjoint f C (by rw [realOf_eq, hreal]) hne hCd, hvp, seg_map_add, e1]
        cases minus <;> simp
      · have e1 : decide (v.step < 0) = true := by rw [hs]; rfl
        have hvp : viewPos v = fun i => (segStart v + len v - 1) - i := by
          funext i; unfold viewPos segStart; rw [hlen]; rw [hs]; simp; omega
        rw [e1] at hreal
        simp only [if_true] at hreal
        have hne' : (C.map (fun p => (len v - p.2, len v - p.1))).reverse ≠ [] := by simpa using hne
        rw [contigIdx_disjoint f _ (by rw [realOf_eq, hreal]) hne' (mirror_disjoint (len v) C hCd), hvp, seg_map_rev, e1]
        have e2 : (((C.map (fun p => (len v - p.2, len v - p.1))).reverse).head hne').1 = len v - (C.getLast hne).2 := by
          simp [List.head_reverse, List.getLast_map]
        have e3 : (((C.map (fun p => (len v - p.2, len v - p.1))).reverse).getLast hne').2 = len v - (C.head hne).1 := by
          simp [List.getLast_reverse, List.head_map]
        rw [e2, e3]
        have e4 : segStart v + len v - 1 - (len v - (C.head hne).1) + 1 = segStart v + (C.head hne).1 := by omega
        have e5 : segStart v + len v - 1 - (len v - (C.getLast hne).2) + 1 = segStart v + (C.getLast hne).2 := by omega
        rw [e4, e5]
        cases minus <;> simp

theorem hull_bounds (ps : List Int) (lo hi : Int) (h : ∀ x ∈ ps, lo ≤ x ∧ x < hi) :
    ∀ x ∈ hullOf ps, lo ≤ x ∧ x < hi := by
  intro x hx
  unfold hullOf at hx
  split at hx
  · rename_i a b ha hb
    have h1 := h a (List.mem_of_mem_head? ha)
    have h2 := h b (List.mem_of_mem_getLast? hb)
    have := (mem_seg _ _ _).mp hx
    omega
  · cases hx

theorem denoteContig_bounds (spans : List (Int × Int)) (minus : Bool) (p0 p1 x : Int)
    (h : x ∈ (denoteContig spans minus p0 p1).1) : p0 ≤ x ∧ x < p1 := by
  unfold denoteContig at h
  simp only [] at h
  have hx : x ∈ hullOf (spans.flatMap (fun sp => seg (max sp.1 p0) (min sp.2 p1))) := by
    cases minus <;> simpa using h
  refine hull_bounds _ p0 p1 ?_ x hx
  intro y hy
  obtain ⟨sp, _, hy'⟩ := List.mem_flatMap.mp hy
  have := (mem_seg _ _ _).mp hy'
  omega

theorem getSliceContig_spec (comp : Char → Char) (hcomp : ∀ x, comp (comp x) = x) (s : Seq) (hw : WF s)
    (hn : s.nucleic = true) (hu : UnitView s.v) (hl : 0 < len s.v) (minus : Bool) (spans : List (Int × Int))
    (hsp : ∀ sp ∈ spans, 0 ≤ sp.1 ∧ sp.1 < sp.2) (hdis : spans.Pairwise (fun a b => a.2 ≤ b.1)) :
    ∃ f, featureOnView s.v minus spans = .ok f ∧
      getSliceContig comp s f =
        (denoteContig spans minus (segStart s.v) (segStart s.v + len s.v)).1.map
          (fun p => (if minus then comp else id) (s.parent[(p - s.v.offset).toNat]!)) := by
  obtain ⟨f, hf, hpos⟩ := featureOnView_contig_spec s.v hu hl minus spans hsp hdis
  refine ⟨f, hf, ?_⟩
  have hidx : ∀ i ∈ contigIdx f, 0 ≤ i ∧ i < len s.v := by
    intro i hi
    have hm : viewPos s.v i ∈ (contigPositions s.v f).1 := by
      unfold contigPositions
      simp only []
      split
      · rw [List.mem_reverse]; exact List.mem_map.mpr ⟨i, hi, rfl⟩
      · exact List.mem_map.mpr ⟨i, hi, rfl⟩
    rw [hpos] at hm
    have hb := denoteContig_bounds _ _ _ _ _ hm
    rw [viewPos_seg s.v hu i] at hb
    split at hb <;> omega
  have hjoin : (contigIdx f).map (fun i => (str comp s)[i.toNat]!) =
      ((contigIdx f).map (viewPos s.v)).map
        (fun p => (if s.v.step < 0 ∧ s.nucleic then comp else id) (s.parent[(p - s.v.offset).toNat]!)) := by
    rw [List.map_map]
    apply List.map_congr_left
    intro i hi
    have := hidx i hi
    exact str_getElem comp s hw hu i this.1 this.2
  unfold getSliceContig
  simp only [hjoin]
  unfold contigPositions at hpos
  generalize hD : denoteContig spans minus (segStart s.v) (segStart s.v + len s.v) = D at hpos
  obtain ⟨D1, D2⟩ := D
  have hD2 : D2 = minus := by
    have : (denoteContig spans minus (segStart s.v) (segStart s.v + len s.v)).2 = minus := rfl
    rw [hD] at this; exact this
  simp only [Prod.mk.injEq] at hpos
  obtain ⟨h1, h2⟩ := hpos
  subst hD2
  rw [← h1, ← h2]
  by_cases hstep : s.v.step < 0 <;> cases hr : f.reversed <;>
    simp [hstep, hn, hr, List.map_reverse, List.map_map, Function.comp, hcomp]
end CogentModel.FeatureView
