/-
  Lemmas about the contiguous form of a feature slice, `get_slice(allow_gaps=True)` (Model/FeatureSeq.lean
  `contigIdx` / `getSliceContig`): relation to the spliced form and the hull of sorted spans.
-/
import CogentModel.Model.FeatureSeq
import CogentModel.Proofs.FeatureView
namespace CogentModel.FeatureView
open CogentModel.View CogentModel.SeqWrap

theorem sliceIdx_realOf (f : Feat) : sliceIdx f = (realOf f.spans).flatMap fun p => irange p.1 p.2 := by
  unfold sliceIdx realOf
  induction f.spans with
  | nil => rfl
  | cons x xs ih => cases x <;> simp [List.flatMap_cons, ih]

theorem contigIdx_single (f : Feat) (a b : Int) (h : realOf f.spans = [(a, b)]) : contigIdx f = sliceIdx f := by
  rw [sliceIdx_realOf, contigIdx, h]
  simp [mapStart, mapEnd]

theorem mapStart_sorted (p : Int × Int) (r : List (Int × Int))
    (hs : (p :: r).Pairwise (fun a b => a.2 ≤ b.1)) (hp : ∀ q ∈ p :: r, q.1 < q.2) :
    mapStart (p :: r) = p.1 := by
  induction r generalizing p with
  | nil => rfl
  | cons q r ih =>
    have hq := ih q (List.Pairwise.of_cons hs) (fun x hx => hp x (List.mem_cons_of_mem _ hx))
    simp only [mapStart, hq]
    have h1 := (List.pairwise_cons.mp hs).1 q (List.mem_cons_self ..)
    have h2 := hp p (List.mem_cons_self ..)
    omega

theorem mapEnd_sorted (p : Int × Int) (r : List (Int × Int))
    (hs : (p :: r).Pairwise (fun a b => a.2 ≤ b.1)) (hp : ∀ q ∈ p :: r, q.1 < q.2) :
    mapEnd (p :: r) = ((p :: r).getLast (List.cons_ne_nil _ _)).2 := by
  induction r generalizing p with
  | nil => rfl
  | cons q r ih =>
    have hq := ih q (List.Pairwise.of_cons hs) (fun x hx => hp x (List.mem_cons_of_mem _ hx))
    simp only [mapEnd, hq, List.getLast_cons (List.cons_ne_nil q r)]
    have hl : (q :: r).getLast (List.cons_ne_nil _ _) ∈ q :: r := List.getLast_mem _
    have h1 := (List.pairwise_cons.mp hs).1 _ hl
    have h2 := hp _ (List.mem_cons_of_mem _ hl)
    omega
end CogentModel.FeatureView
