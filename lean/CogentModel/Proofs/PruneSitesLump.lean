import Mathlib.Algebra.BigOperators.Ring.Finset
import Mathlib.Algebra.Field.Basic
import CogentModel.Proofs.PruneSites
/-!
Lumping of the bin-level hidden chain onto the two patches (`PatchSiteDistribution.get_weighted_sum_lhs` + the forward loop
over patches = the forward loop over bins), and stationarity of the bin probabilities under the bin-level matrix.
-/
namespace CogentModel.PruneSites
open CogentModel.Prune Finset

section semiring
variable {R : Type} [CommSemiring R]

/-- patch-level view of a bin-level vector: `W[a] = Σ_{b : patch b = a} v[b]` -/
def lumpW (nb : Nat) (p : Nat → Nat) (v : Nat → R) (a : Nat) : R := ∑ b ∈ range nb, if p b = a then v b else 0

theorem sum_fiber (nb k : Nat) (p : Nat → Nat) (hp : ∀ b, b < nb → p b < k) (f : Nat → R) :
    ∑ b ∈ range nb, f b = ∑ a ∈ range k, ∑ b ∈ range nb, if p b = a then f b else 0 := by
  rw [Finset.sum_comm]
  refine Finset.sum_congr rfl fun b hb => ?_
  rw [Finset.sum_ite_eq (range k) (p b) (fun _ => f b)]
  simp [hp b (Finset.mem_range.mp hb)]

theorem lump_key (nb k : Nat) (p : Nat → Nat) (hp : ∀ b, b < nb → p b < k) (T : Mat R) (v w : Nat → R)
    (hw : ∀ a, a < k → w a = lumpW nb p v a) (a : Nat) :
    ∑ b ∈ range nb, v b * T (p b) a = ∑ i ∈ range k, w i * T i a := by
  rw [sum_fiber nb k p hp]
  refine Finset.sum_congr rfl fun i hi => ?_
  rw [hw i (Finset.mem_range.mp hi)]
  unfold lumpW
  rw [Finset.sum_mul]
  refine Finset.sum_congr rfl fun b _ => ?_
  by_cases h : p b = i <;> simp [h]

theorem step_lump (nb k : Nat) (p : Nat → Nat) (hp : ∀ b, b < nb → p b < k) (T : Mat R) (cond lh : Nat → R) (v w : Vec R)
    (hw : ∀ a, a < k → w.get a = lumpW nb p v.get a) (a : Nat) :
    (step k T w (fun a => ∑ b ∈ range nb, if p b = a then lh b * cond b else 0)).get a
      = lumpW nb p (step nb (fun b c => T (p b) (p c) * cond c) v lh).get a := by
  rw [step_get]
  unfold lumpW
  simp only [step_get]
  rw [Finset.mul_sum]
  refine Finset.sum_congr rfl fun c _ => ?_
  by_cases h : p c = a
  · subst h
    simp only [if_true]
    rw [← lump_key nb k p hp T v.get w.get hw (p c)]
    have : ∑ b ∈ range nb, v.get b * (T (p b) (p c) * cond c) = (∑ b ∈ range nb, v.get b * T (p b) (p c)) * cond c := by
      rw [Finset.sum_mul]
      refine Finset.sum_congr rfl fun b _ => ?_
      ring
    rw [this]
    ring
  · simp [h]

theorem forwardGo_lump (nb k : Nat) (p : Nat → Nat) (hp : ∀ b, b < nb → p b < k) (T : Mat R) (cond : Nat → R) :
    ∀ (es : List (Nat → R)) (v w : Vec R), (∀ a, a < k → w.get a = lumpW nb p v.get a) →
      ∀ a, a < k →
        (forwardGo k T (es.map fun lh a => ∑ b ∈ range nb, if p b = a then lh b * cond b else 0) w).get a
          = lumpW nb p (forwardGo nb (fun b c => T (p b) (p c) * cond c) es v).get a
  | [], v, w, hw, a, ha => by simpa [forwardGo] using hw a ha
  | lh :: es, v, w, hw, a, ha => by
    simp only [List.map_cons, forwardGo]
    exact forwardGo_lump nb k p hp T cond es _ _ (fun a' _ => step_lump nb k p hp T cond lh v w hw a') a ha

/-- **Lumping.**  A hidden chain over `nb` bins whose move `b → c` has probability `T[patch b, patch c] · cond[c]`
is, for the likelihood, the chain over the `k` patches with matrix `T` whose emission in patch `a` is
`Σ_{c ∈ a} lh[c] · cond[c]`, started from the lumped initial vector. -/
theorem forward_lump (nb k : Nat) (p : Nat → Nat) (hp : ∀ b, b < nb → p b < k) (T : Mat R) (cond ib : Nat → R)
    (es : List (Nat → R)) :
    forward k T (lumpW nb p ib) (es.map fun lh a => ∑ b ∈ range nb, if p b = a then lh b * cond b else 0)
      = forward nb (fun b c => T (p b) (p c) * cond c) ib es := by
  unfold forward
  rw [sumOver_eq, sumOver_eq, sum_fiber nb k p hp]
  refine Finset.sum_congr rfl fun a ha => ?_
  exact forwardGo_lump nb k p hp T cond es ⟨ib⟩ ⟨lumpW nb p ib⟩ (fun _ _ => rfl) a (Finset.mem_range.mp ha)

end semiring

section field
variable {R : Type} [Field R]

theorem alloc_lt (n b : Nat) : alloc n b < npatch n := by
  unfold npatch alloc
  split <;> split <;> omega

theorem patchProbs_eq (bprobs : List R) (a : Nat) :
    patchProbs bprobs a = lumpW bprobs.length (alloc bprobs.length) (fun b => bprobs.getD b 0) a := by
  simp [patchProbs, lumpW, sumOver_eq]

theorem site_hmm_eq_bin_forward (bprobs : List R) (switch : R) (lhs : List (List R)) (index : List Nat) :
    siteHmm bprobs switch lhs index
      = forward bprobs.length (binMatrix bprobs switch) (fun b => bprobs.getD b 0) (binEmissions lhs index) := by
  have h1 : patchProbs bprobs = lumpW bprobs.length (alloc bprobs.length) (fun b => bprobs.getD b 0) :=
    funext fun a => patchProbs_eq bprobs a
  have h2 : siteEmissions bprobs lhs index
      = (binEmissions lhs index).map fun lh a =>
          ∑ b ∈ range bprobs.length, if alloc bprobs.length b = a then lh b * condProbs bprobs b else 0 := by
    simp only [siteEmissions, binEmissions, List.map_map]
    refine List.map_congr_left fun u _ => ?_
    funext a
    simp [patchEmission, sumOver_eq]
  show forward (npatch bprobs.length) (switchMatrix switch (patchProbs bprobs)) (patchProbs bprobs) (siteEmissions bprobs lhs index) = _
  rw [h2]
  conv_lhs => arg 3; rw [h1]
  unfold binMatrix
  exact forward_lump bprobs.length (npatch bprobs.length) (alloc bprobs.length) (fun b _ => alloc_lt _ b)
    (switchMatrix switch (patchProbs bprobs)) (condProbs bprobs) (fun b => bprobs.getD b 0) (binEmissions lhs index)

theorem binMatrix_stationary (bprobs : List R) (switch : R)
    (h1 : ∑ b ∈ range bprobs.length, bprobs.getD b 0 = 1)
    (hpos : ∀ a, a < npatch bprobs.length → patchProbs bprobs a ≠ 0) (c : Nat) :
    ∑ b ∈ range bprobs.length, bprobs.getD b 0 * binMatrix bprobs switch b c = bprobs.getD c 0 := by
  have hp : ∀ b, b < bprobs.length → alloc bprobs.length b < npatch bprobs.length := fun b _ => alloc_lt _ b
  have hsum : ∑ a ∈ range (npatch bprobs.length), patchProbs bprobs a = 1 := by
    rw [← h1, sum_fiber bprobs.length (npatch bprobs.length) (alloc bprobs.length) hp]
    refine Finset.sum_congr rfl fun a _ => ?_
    rw [patchProbs_eq]; rfl
  unfold binMatrix
  have : ∑ b ∈ range bprobs.length, bprobs.getD b 0 *
        (switchMatrix switch (patchProbs bprobs) (alloc bprobs.length b) (alloc bprobs.length c) * condProbs bprobs c)
      = (∑ b ∈ range bprobs.length, bprobs.getD b 0 *
          switchMatrix switch (patchProbs bprobs) (alloc bprobs.length b) (alloc bprobs.length c)) * condProbs bprobs c := by
    rw [Finset.sum_mul]
    refine Finset.sum_congr rfl fun b _ => ?_
    ring
  rw [this, lump_key bprobs.length (npatch bprobs.length) (alloc bprobs.length) hp _ _ (patchProbs bprobs)
    (fun a _ => patchProbs_eq bprobs a),
    switchMatrix_stationary (npatch bprobs.length) switch (patchProbs bprobs) hsum _ (alloc_lt _ c)]
  unfold condProbs
  rw [mul_div_cancel₀ _ (hpos _ (alloc_lt _ c))]

end field
end CogentModel.PruneSites
