import CogentModel.Model.ControllerLf
import CogentModel.Proofs.CtlInv
/-! # C07 — likelihood-function level operations leave the block stack as they found it (helper lemmas) -/
namespace CogentModel.Ctl
variable {V : Type} [Inhabited V]

/-- an op list that gives back the block stack and the suspension flag it found -/
def Frame (g : Graph V) (ops : List (Op V)) : Prop :=
  ∀ s : St V, (run g s ops).stack = s.stack ∧ (run g s ops).suspended = s.suspended

theorem run_append (g : Graph V) (s : St V) (a b : List (Op V)) :
    run g s (a ++ b) = run g (run g s a) b := by
  induction a generalizing s with
  | nil => rfl
  | cons o a ih => simp only [List.cons_append, run]; exact ih _

theorem updateLoop_frame (g : Graph V) : ∀ (ks : List Nat) (t : St V),
    (updateLoop g ks t).stack = t.stack ∧ (updateLoop g ks t).suspended = t.suspended := by
  intro ks
  induction ks with
  | nil => intro t; exact ⟨rfl, rfl⟩
  | cons a ks ih =>
    intro t
    unfold updateLoop
    split
    · obtain ⟨h1, h2⟩ := ih { updateOne g t a with changed := (updateOne g t a).changed ++ clients g a }
      obtain ⟨_, _, f3, f4, _⟩ := updateOne_fields g t a
      exact ⟨h1.trans f4, h2.trans f3⟩
    · exact ih t

theorem updateIntermediate_frame (g : Graph V) (t : St V) :
    (updateIntermediate g t).stack = t.stack ∧ (updateIntermediate g t).suspended = t.suspended := by
  unfold updateIntermediate
  split
  · exact ⟨rfl, rfl⟩
  · exact updateLoop_frame g _ t

theorem frame_nil (g : Graph V) : Frame g [] := fun _ => ⟨rfl, rfl⟩

theorem frame_append (g : Graph V) {a b : List (Op V)} (ha : Frame g a) (hb : Frame g b) :
    Frame g (a ++ b) := by
  intro s
  rw [run_append]
  obtain ⟨h1, h2⟩ := hb (run g s a)
  obtain ⟨h3, h4⟩ := ha s
  exact ⟨h1.trans h3, h2.trans h4⟩

theorem frame_assign (g : Graph V) (k : Nat) (v : V) : Frame g [Op.assign k v] := by
  intro s
  show (updateIntermediate g _).stack = _ ∧ (updateIntermediate g _).suspended = _
  exact updateIntermediate_frame g _

theorem frame_flatMap (g : Graph V) {α : Type} (f : α → List (Op V)) :
    ∀ (l : List α), (∀ a, a ∈ l → Frame g (f a)) → Frame g (l.flatMap f) := by
  intro l
  induction l with
  | nil => intro _; exact frame_nil g
  | cons a l ih =>
    intro h
    rw [List.flatMap_cons]
    exact frame_append g (h a (by simp)) (ih (fun b hb => h b (by simp [hb])))

/-- a block around a framed body is framed, whether it is left normally or by an exception -/
theorem frame_block (g : Graph V) {body : List (Op V)} (hb : Frame g body) (closing : Op V)
    (hc : closing = Op.exit ∨ closing = Op.xexit) : Frame g ([Op.enter] ++ body ++ [closing]) := by
  intro s
  rw [run_append, run_append]
  obtain ⟨h1, h2⟩ := hb (run g s [Op.enter])
  have he : (run g s [Op.enter]).stack = s.suspended :: s.stack := rfl
  rw [he] at h1
  generalize run g (run g s [Op.enter]) body = t at h1 h2
  rcases hc with rfl | rfl
  · show (step g t Op.exit).stack = _ ∧ (step g t Op.exit).suspended = _
    unfold step
    rw [h1]
    exact updateIntermediate_frame g _
  · show (step g t Op.xexit).stack = _ ∧ (step g t Op.xexit).suspended = _
    unfold step
    rw [h1]
    exact updateIntermediate_frame g _

theorem frame_simple (g : Graph V) (o : Simple V) : Frame g (compileSimple o) := by
  cases o with
  | setParam k v => exact frame_assign g k v
  | setMotifProbs ms =>
    show Frame g (ms.map _)
    induction ms with
    | nil => exact frame_nil g
    | cons p ms ih => exact frame_append g (a := [Op.assign p.1 p.2]) (frame_assign g _ _) ih
  | setAlignment loci =>
    apply frame_block g _ Op.exit (Or.inl rfl)
    apply frame_flatMap
    intro p _
    obtain ⟨a, aln, m⟩ := p
    cases m with
    | none => exact frame_assign g a aln
    | some q => exact frame_append g (a := [Op.assign a aln]) (frame_assign g _ _) (frame_assign g q.1 q.2)

theorem frame_lf (g : Graph V) (o : LfOp V) : Frame g (compileLf o) := by
  cases o with
  | simple s => exact frame_simple g s
  | postponed body =>
    exact frame_block g (frame_flatMap g _ body (fun a _ => frame_simple g a)) Op.exit (Or.inl rfl)
  | postponedRaises body =>
    exact frame_block g (frame_flatMap g _ body (fun a _ => frame_simple g a)) Op.xexit (Or.inr rfl)

end CogentModel.Ctl
