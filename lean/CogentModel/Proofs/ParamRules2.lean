import CogentModel.Proofs.ParamRules
import CogentModel.Model.ParamRules2
/-! # C07 — exported parameter rules over TWO scope dimensions (edge × locus): helper lemmas -/
set_option linter.unusedVariables false
set_option linter.unusedSimpArgs false
namespace CogentModel.Rules2
open CogentModel.Rules (Setting clampVar orElse truthy upd)

theorem mem_cells (d : Defn) (c : Cell) : c ∈ cells d ↔ c.1 < d.nEdges ∧ c.2 < d.nLoci := by
  obtain ⟨e, l⟩ := c
  simp only [cells, List.mem_flatMap, List.mem_range, List.mem_map, Prod.mk.injEq]
  constructor
  · rintro ⟨a, ha, b, hb, h1, h2⟩; subst h1; subst h2; exact ⟨ha, hb⟩
  · rintro ⟨h1, h2⟩; exact ⟨e, h1, l, h2, rfl, rfl⟩

theorem mem_rect (d : Defn) (es ls : Option (List Nat)) (c : Cell) :
    c ∈ rect d es ls ↔ c.1 ∈ selDim d.nEdges es ∧ c.2 ∈ selDim d.nLoci ls := by
  obtain ⟨e, l⟩ := c
  simp only [rect, List.mem_flatMap, List.mem_map, Prod.mk.injEq]
  constructor
  · rintro ⟨a, ha, b, hb, h1, h2⟩; subst h1; subst h2; exact ⟨ha, hb⟩
  · rintro ⟨h1, h2⟩; exact ⟨e, h1, l, h2, rfl, rfl⟩

theorem selDim_lt (n : Nat) (cs : Option (List Nat)) (x : Nat) (h : x ∈ selDim n cs) : x < n := by
  unfold selDim at h
  cases cs with
  | none => simpa using h
  | some l =>
    simp only [] at h
    split at h
    · simpa using h
    · exact List.mem_range.1 (List.mem_filter.1 h).1

theorem selDim_nodup (n : Nat) (cs : Option (List Nat)) : (selDim n cs).Nodup := by
  unfold selDim
  cases cs with
  | none => exact List.nodup_range
  | some es =>
    simp only []
    split
    · exact List.nodup_range
    · exact List.nodup_range.filter _

/-! ### first occurrences -/

theorem firsts_sub (s : St) : ∀ (L : List Cell) (f : Cell), f ∈ firsts s L → f ∈ L := by
  intro L
  induction L with
  | nil => intro f h; simp [firsts] at h
  | cons c cs ih =>
    intro f h
    simp only [firsts, List.mem_cons, List.mem_filter] at h
    rcases h with h | h
    · simp [h]
    · exact List.mem_cons_of_mem _ (ih f h.1)

theorem firsts_rep (s : St) : ∀ (L : List Cell) (x : Cell), x ∈ L → ∃ f, f ∈ firsts s L ∧ s.cid f = s.cid x := by
  intro L
  induction L with
  | nil => intro x h; simp at h
  | cons c cs ih =>
    intro x hx
    by_cases hc : s.cid x = s.cid c
    · exact ⟨c, by simp [firsts], hc.symm⟩
    · rcases List.mem_cons.1 hx with h | h
      · exact absurd (by rw [h]) hc
      · obtain ⟨f, hf, hfx⟩ := ih x h
        refine ⟨f, ?_, hfx⟩
        simp only [firsts, List.mem_cons, List.mem_filter]
        right
        refine ⟨hf, ?_⟩
        simp [hfx, hc]

theorem firsts_inj (s : St) : ∀ (L : List Cell) (a b : Cell), a ∈ firsts s L → b ∈ firsts s L →
    s.cid a = s.cid b → a = b := by
  intro L
  induction L with
  | nil => intro a b h; simp [firsts] at h
  | cons c cs ih =>
    intro a b ha hb hab
    simp only [firsts, List.mem_cons, List.mem_filter, bne_iff_ne, ne_eq] at ha hb
    rcases ha with ha | ha <;> rcases hb with hb | hb
    · rw [ha, hb]
    · exact absurd (by rw [← hab, ha]) hb.2
    · exact absurd (by rw [hab, hb]) ha.2
    · exact ih a b ha.1 hb.1 hab

theorem firsts_nodup (s : St) : ∀ (L : List Cell), (firsts s L).Nodup := by
  intro L
  induction L with
  | nil => simp [firsts]
  | cons c cs ih =>
    simp only [firsts, List.nodup_cons, List.mem_filter, bne_iff_ne, ne_eq]
    exact ⟨fun h => by simp at h, ih.filter _⟩

theorem mem_group (d : Defn) (s : St) (f x : Cell) : x ∈ group d s f ↔ x ∈ cells d ∧ s.cid x = s.cid f := by
  simp [group]

theorem mem_projE (d : Defn) (s : St) (f : Cell) (e : Nat) :
    e ∈ projE d s f ↔ e < d.nEdges ∧ ∃ l, l < d.nLoci ∧ s.cid (e, l) = s.cid f := by
  simp only [projE, List.mem_filter, List.mem_range, List.any_eq_true, mem_group, mem_cells, beq_iff_eq]
  constructor
  · rintro ⟨he, ⟨a, b⟩, ⟨⟨_, hb⟩, hc⟩, h⟩
    simp only at h hb
    subst h
    exact ⟨he, b, hb, hc⟩
  · rintro ⟨he, l, hl, hc⟩
    exact ⟨he, (e, l), ⟨⟨he, hl⟩, hc⟩, rfl⟩

theorem mem_projL (d : Defn) (s : St) (f : Cell) (l : Nat) :
    l ∈ projL d s f ↔ l < d.nLoci ∧ ∃ e, e < d.nEdges ∧ s.cid (e, l) = s.cid f := by
  simp only [projL, List.mem_filter, List.mem_range, List.any_eq_true, mem_group, mem_cells, beq_iff_eq]
  constructor
  · rintro ⟨he, ⟨a, b⟩, ⟨⟨ha, _⟩, hc⟩, h⟩
    simp only at h ha
    subst h
    exact ⟨he, a, ha, hc⟩
  · rintro ⟨hl, e, he, hc⟩
    exact ⟨hl, (e, l), ⟨⟨he, hl⟩, hc⟩, rfl⟩


/-- every Var in use holds a value inside its bounds (what `assign_all` establishes by clamping) -/
def Good : Setting → Prop
  | .var lo v hi => lo ≤ v ∧ v ≤ hi
  | .const _ => True

def WFSt (d : Defn) (s : St) : Prop := ∀ c, c ∈ cells d → Good (s.setting c)

/-- one `assign_all` scope: all cells of `G` get one new setting object -/
def assignGroup (t : St) (G : List Cell) (σ : Setting) : St :=
  { asg := fun e l => if G.contains (e, l) then t.next else t.asg e l, store := upd t.store t.next σ,
    next := t.next + 1 }

theorem len_one_eq {l : List Cell} (h : l.length = 1) (a b : Cell) (ha : a ∈ l) (hb : b ∈ l) : a = b := by
  match l, h with
  | [x], _ =>
    simp at ha hb
    rw [ha, hb]

theorem short_eq {l : List Nat} (h : ¬ 2 ≤ l.length) (a b : Nat) (ha : a ∈ l) (hb : b ∈ l) : a = b := by
  match l, h with
  | [], _ => simp at ha
  | [x], _ =>
    simp at ha hb
    rw [ha, hb]
  | x :: y :: l, h => simp at h

theorem nGroups_one (d : Defn) (s : St) (h : nGroups d s = 1) (x y : Cell) (hx : x ∈ cells d) (hy : y ∈ cells d) :
    s.cid x = s.cid y := by
  obtain ⟨f1, hf1, h1⟩ := firsts_rep s (cells d) x hx
  obtain ⟨f2, hf2, h2⟩ := firsts_rep s (cells d) y hy
  rw [← h1, ← h2, len_one_eq h f1 f2 hf1 hf2]

theorem selDim_some (n : Nat) (l : List Nat) (hne : ∃ a, a ∈ l) (hsub : ∀ x, x ∈ l → x < n) (x : Nat) :
    x ∈ selDim n (some l) ↔ x ∈ l := by
  obtain ⟨a, ha⟩ := hne
  have : l.isEmpty = false := by
    cases l with
    | nil => simp at ha
    | cons b l => rfl
  simp only [selDim, this, Bool.false_eq_true, if_false, List.mem_filter, List.mem_range, List.contains_iff_mem]
  exact ⟨fun h => h.2, fun h => ⟨hsub x h, h⟩⟩

theorem self_projE (d : Defn) (s : St) (f x : Cell) (hx : x ∈ cells d) (h : s.cid x = s.cid f) : x.1 ∈ projE d s f :=
  (mem_projE d s f x.1).2 ⟨((mem_cells d x).1 hx).1, x.2, ((mem_cells d x).1 hx).2, h⟩

theorem self_projL (d : Defn) (s : St) (f x : Cell) (hx : x ∈ cells d) (h : s.cid x = s.cid f) : x.2 ∈ projL d s f :=
  (mem_projL d s f x.2).2 ⟨((mem_cells d x).1 hx).2, x.1, ((mem_cells d x).1 hx).1, h⟩

theorem selE_rule (d : Defn) (s : St) (f : Cell) (hf : f ∈ cells d) (e : Nat) :
    e ∈ selDim d.nEdges (ruleOf d s f).edges ↔ e ∈ projE d s f := by
  have hfc := (mem_cells d f).1 hf
  by_cases hcond : (nGroups d s = 1 || decide (d.nEdges ≤ 1)) = true
  · have : (ruleOf d s f).edges = none := by simp only [ruleOf, hcond, if_true]
    rw [this]
    simp only [selDim, List.mem_range]
    constructor
    · intro he
      simp only [Bool.or_eq_true, decide_eq_true_eq] at hcond
      rcases hcond with h1 | h1
      · exact self_projE d s f (e, f.2) ((mem_cells d _).2 ⟨he, hfc.2⟩)
          (nGroups_one d s h1 _ _ ((mem_cells d _).2 ⟨he, hfc.2⟩) hf)
      · have : e = f.1 := by omega
        rw [this]
        exact self_projE d s f f hf rfl
    · intro h; exact ((mem_projE d s f e).1 h).1
  · have : (ruleOf d s f).edges = some (projE d s f) := by simp only [ruleOf, hcond, if_false]; simp
    rw [this]
    exact selDim_some _ _ ⟨f.1, self_projE d s f f hf rfl⟩ (fun x hx => ((mem_projE d s f x).1 hx).1) e

theorem selL_rule (d : Defn) (s : St) (f : Cell) (hf : f ∈ cells d) (l : Nat) :
    l ∈ selDim d.nLoci (ruleOf d s f).loci ↔ l ∈ projL d s f := by
  have hfc := (mem_cells d f).1 hf
  by_cases hcond : (nGroups d s = 1 || decide (d.nLoci ≤ 1)) = true
  · have : (ruleOf d s f).loci = none := by simp only [ruleOf, hcond, if_true]
    rw [this]
    simp only [selDim, List.mem_range]
    constructor
    · intro he
      simp only [Bool.or_eq_true, decide_eq_true_eq] at hcond
      rcases hcond with h1 | h1
      · exact self_projL d s f (f.1, l) ((mem_cells d _).2 ⟨hfc.1, he⟩)
          (nGroups_one d s h1 _ _ ((mem_cells d _).2 ⟨hfc.1, he⟩) hf)
      · have : l = f.2 := by omega
        rw [this]
        exact self_projL d s f f hf rfl
    · intro h; exact ((mem_projL d s f l).1 h).1
  · have : (ruleOf d s f).loci = some (projL d s f) := by simp only [ruleOf, hcond, if_false]; simp
    rw [this]
    exact selDim_some _ _ ⟨f.2, self_projL d s f f hf rfl⟩ (fun x hx => ((mem_projL d s f x).1 hx).1) l

/-- the rectangle an exported rule names is the product of the projections of its scope -/
theorem mem_ruleRect (d : Defn) (s : St) (f : Cell) (hf : f ∈ cells d) (c : Cell) :
    c ∈ rect d (ruleOf d s f).edges (ruleOf d s f).loci ↔ c.1 ∈ projE d s f ∧ c.2 ∈ projL d s f := by
  rw [mem_rect, selE_rule d s f hf, selL_rule d s f hf]

theorem covers_iff (d : Defn) (s : St) (f : Cell) (hf : f ∈ cells d) (c : Cell) :
    covers d (ruleOf d s f) c = true ↔ c.1 ∈ projE d s f ∧ c.2 ∈ projL d s f := by
  unfold covers
  rw [List.contains_iff_mem, mem_ruleRect d s f hf]

/-- the rectangle of a rule contains the scope of its setting object -/
theorem covers_own (d : Defn) (s : St) (f x : Cell) (hf : f ∈ cells d) (hx : x ∈ cells d) (h : s.cid x = s.cid f) :
    covers d (ruleOf d s f) x = true :=
  (covers_iff d s f hf x).2 ⟨self_projE d s f x hx h, self_projL d s f x hx h⟩

theorem covers_cell (d : Defn) (s : St) (f : Cell) (hf : f ∈ cells d) (c : Cell) (h : covers d (ruleOf d s f) c = true) :
    c ∈ cells d := by
  have := (covers_iff d s f hf c).1 h
  exact (mem_cells d c).2 ⟨((mem_projE d s f _).1 this.1).1, ((mem_projL d s f _).1 this.2).1⟩

/-! ### one exported rule applied to any state -/

theorem badDim_rule (n other : Nat) (l : List Nat) (hnd : l.Nodup) (hsub : ∀ x, x ∈ l → x < n) (ho : 1 ≤ other) :
    badDim n (some l) other = false := by
  simp only [badDim, Bool.and_eq_false_imp, Bool.not_eq_true', List.any_eq_false, Bool.or_eq_true, decide_eq_true_eq,
    not_or, Nat.not_le, Nat.not_lt]
  intro _ x hx
  refine ⟨hsub x hx, ?_⟩
  rw [hnd.count]
  simp [hx]; exact ho

theorem projE_nodup (d : Defn) (s : St) (f : Cell) : (projE d s f).Nodup := List.nodup_range.filter _
theorem projL_nodup (d : Defn) (s : St) (f : Cell) : (projL d s f).Nodup := List.nodup_range.filter _

theorem badScope_rule (d : Defn) (s : St) (f : Cell) (hf : f ∈ cells d) :
    badScope d (ruleOf d s f).edges (ruleOf d s f).loci = false := by
  have hE : 1 ≤ (selDim d.nEdges (ruleOf d s f).edges).length :=
    List.length_pos_of_mem ((selE_rule d s f hf f.1).2 (self_projE d s f f hf rfl))
  have hL : 1 ≤ (selDim d.nLoci (ruleOf d s f).loci).length :=
    List.length_pos_of_mem ((selL_rule d s f hf f.2).2 (self_projL d s f f hf rfl))
  unfold badScope
  rw [Bool.or_eq_false_iff]
  constructor
  · cases he : (ruleOf d s f).edges with
    | none => rfl
    | some es =>
      have : es = projE d s f := by
        simp only [ruleOf] at he
        split at he
        · cases he
        · cases he; rfl
      rw [this]
      exact badDim_rule _ _ _ (projE_nodup d s f) (fun x hx => ((mem_projE d s f x).1 hx).1) hL
  · cases he : (ruleOf d s f).loci with
    | none => rfl
    | some es =>
      have : es = projL d s f := by
        simp only [ruleOf] at he
        split at he
        · cases he
        · cases he; rfl
      rw [this]
      exact badDim_rule _ _ _ (projL_nodup d s f) (fun x hx => ((mem_projL d s f x).1 hx).1) hE

theorem scopes_rule (d : Defn) (s : St) (f : Cell) (hf : f ∈ cells d) :
    scopes d (ruleOf d s f).edges (ruleOf d s f).loci (indepOf d (ruleOf d s f).isIndependent)
      = [rect d (ruleOf d s f).edges (ruleOf d s f).loci] := by
  have hfR : f ∈ rect d (ruleOf d s f).edges (ruleOf d s f).loci :=
    (mem_ruleRect d s f hf f).2 ⟨self_projE d s f f hf rfl, self_projL d s f f hf rfl⟩
  have hne : (rect d (ruleOf d s f).edges (ruleOf d s f).loci).isEmpty = false := by
    cases hg : rect d (ruleOf d s f).edges (ruleOf d s f).loci with
    | nil => rw [hg] at hfR; simp at hfR
    | cons a l => rfl
  have hind : (ruleOf d s f).isIndependent =
      if d.indepDefault && (decide (2 ≤ (projE d s f).length) || decide (2 ≤ (projL d s f).length)) then some false
      else none := rfl
  unfold scopes indepOf
  by_cases hi : d.indepDefault = true
  · by_cases hg : (decide (2 ≤ (projE d s f).length) || decide (2 ≤ (projL d s f).length)) = true
    · rw [hind]
      simp only [hi, hg, Bool.and_self, if_true, Bool.false_eq_true, if_false, hne]
    · rw [hind]
      simp only [hi, hg, Bool.true_and, Bool.false_eq_true, if_false, if_true]
      simp only [Bool.or_eq_true, decide_eq_true_eq, not_or] at hg
      have h1 : selDim d.nEdges (ruleOf d s f).edges = [f.1] :=
        Rules.eq_singleton_of (selDim_nodup _ _)
          (fun x hx => short_eq hg.1 x f.1 ((selE_rule d s f hf x).1 hx) (self_projE d s f f hf rfl))
          ((selE_rule d s f hf f.1).2 (self_projE d s f f hf rfl))
      have h2 : selDim d.nLoci (ruleOf d s f).loci = [f.2] :=
        Rules.eq_singleton_of (selDim_nodup _ _)
          (fun x hx => short_eq hg.2 x f.2 ((selL_rule d s f hf x).1 hx) (self_projL d s f f hf rfl))
          ((selL_rule d s f hf f.2).2 (self_projL d s f f hf rfl))
      simp [rect, h1, h2]
  · have hi' : d.indepDefault = false := by simpa using hi
    rw [hind]
    simp only [hi', Bool.false_and, Bool.false_eq_true, if_false, hne]

/-- (A) an exported rule applied to ANY state assigns its rectangle to one new object holding the
exported setting: all assertions pass, one scope, and the clamps are no-ops -/
theorem setRule_ruleOf (d : Defn) (s : St) (hwf : WFSt d s) (f : Cell) (hf : f ∈ cells d) (t : St) :
    setRule d t (ruleOf d s f)
      = .ok (assignGroup t (rect d (ruleOf d s f).edges (ruleOf d s f).loci) (s.setting f)) := by
  have hsc := scopes_rule d s f hf
  have hcheck := badScope_rule d s f hf
  have hw := hwf f hf
  have e1 : (ruleOf d s f).isConstant = !(s.setting f).isVar := rfl
  have e2 : (ruleOf d s f).init = settingInit (s.setting f) := rfl
  have e3 : (ruleOf d s f).lower = settingLower (s.setting f) := rfl
  have e4 : (ruleOf d s f).upper = settingUpper (s.setting f) := rfl
  have e5 : (ruleOf d s f).value = settingValue (s.setting f) := rfl
  unfold setRule assignAll valueArg
  rw [hcheck, hsc, e1, e2, e3, e4, e5]
  cases hs : s.setting f with
  | const v =>
    simp [Setting.isVar, settingInit, settingLower, settingUpper, settingValue, truthy, mkSettings, mkSetting, orElse,
      assignScopes, assignGroup]
  | var lo v hi =>
    rw [hs] at hw
    have c1 : ¬ hi < lo := Rat.not_lt.2 (Rat.le_trans hw.1 hw.2)
    have c2 : ¬ v < lo := Rat.not_lt.2 hw.1
    have c3 : ¬ hi < v := Rat.not_lt.2 hw.2
    simp [Setting.isVar, settingInit, settingLower, settingUpper, settingValue, truthy, mkSettings, mkSetting, orElse,
      clampVar, assignScopes, assignGroup, c1, c2, c3]

/-! ### all exported rules applied in order -/

/-- position of `x` in `l` -/
def pos : List Cell → Cell → Nat
  | [], _ => 0
  | a :: l, x => if x = a then 0 else pos l x + 1

theorem pos_inj : ∀ (l : List Cell) (a b : Cell), a ∈ l → b ∈ l → pos l a = pos l b → a = b := by
  intro l
  induction l with
  | nil => intro a b ha; simp at ha
  | cons c l ih =>
    intro a b ha hb h
    simp only [pos] at h
    by_cases hac : a = c <;> by_cases hbc : b = c
    · rw [hac, hbc]
    · simp [hac, hbc] at h
    · simp [hac, hbc] at h
    · simp only [hac, hbc, if_false, Nat.add_right_cancel_iff] at h
      exact ih a b (by simpa [hac] using ha) (by simpa [hbc] using hb) h

theorem pos_lt : ∀ (l : List Cell) (a : Cell), a ∈ l → pos l a < l.length := by
  intro l
  induction l with
  | nil => intro a ha; simp at ha
  | cons c l ih =>
    intro a ha
    simp only [pos]
    by_cases hac : a = c
    · simp [hac]
    · simp only [hac, if_false, List.length_cons]
      have := ih a (by simpa [hac] using ha)
      omega

theorem lastCover_cons (d : Defn) (s : St) (c f : Cell) (fs : List Cell) :
    lastCover d s c (f :: fs) = pick (lastCover d s c fs) (covers d (ruleOf d s f) c) f := rfl

theorem lastCover_mem (d : Defn) (s : St) (c : Cell) : ∀ (fs : List Cell) (g : Cell),
    lastCover d s c fs = some g → g ∈ fs ∧ covers d (ruleOf d s g) c = true := by
  intro fs
  induction fs with
  | nil => intro g h; simp [lastCover] at h
  | cons f fs ih =>
    intro g h
    rw [lastCover_cons] at h
    cases hl : lastCover d s c fs with
    | some g' =>
      rw [hl] at h
      simp only [pick, Option.some.injEq] at h
      subst h
      exact ⟨List.mem_cons_of_mem _ (ih g' hl).1, (ih g' hl).2⟩
    | none =>
      rw [hl] at h
      simp only [pick] at h
      by_cases hc : covers d (ruleOf d s f) c = true
      · simp only [hc, if_true, Option.some.injEq] at h
        subst h
        exact ⟨by simp, hc⟩
      · simp [hc] at h

theorem lastCover_none (d : Defn) (s : St) (c : Cell) : ∀ (fs : List Cell),
    lastCover d s c fs = none → ∀ f, f ∈ fs → covers d (ruleOf d s f) c = false := by
  intro fs
  induction fs with
  | nil => intro _ f hf; simp at hf
  | cons f fs ih =>
    intro h g hg
    rw [lastCover_cons] at h
    cases hl : lastCover d s c fs with
    | some g' => rw [hl] at h; simp [pick] at h
    | none =>
      rw [hl] at h
      simp only [pick] at h
      by_cases hc : covers d (ruleOf d s f) c = true
      · simp [hc] at h
      · rcases List.mem_cons.1 hg with hg | hg
        · rw [hg]; simpa using hc
        · exact ih hl g hg

/-- the rule found is the LAST one covering the cell -/
theorem lastCover_last (d : Defn) (s : St) (c : Cell) : ∀ (fs : List Cell), fs.Nodup → ∀ (g : Cell),
    lastCover d s c fs = some g → ∀ f, f ∈ fs → covers d (ruleOf d s f) c = true → pos fs f ≤ pos fs g := by
  intro fs
  induction fs with
  | nil => intro _ g h; simp [lastCover] at h
  | cons a fs ih =>
    intro hnd g h f hf hc
    have hnd' := List.nodup_cons.1 hnd
    rw [lastCover_cons] at h
    by_cases hfa : f = a
    · simp [pos, hfa]
    · have hf' : f ∈ fs := by simpa [hfa] using hf
      cases hl : lastCover d s c fs with
      | some g' =>
        rw [hl] at h
        simp only [pick, Option.some.injEq] at h
        subst h
        have hg := (lastCover_mem d s c fs g' hl).1
        have hga : g' ≠ a := by intro h; subst h; exact hnd'.1 hg
        have := ih hnd'.2 g' hl f hf' hc
        simp only [pos, hfa, hga, if_false]
        omega
      | none =>
        have := lastCover_none d s c fs hl f hf'
        rw [this] at hc
        cases hc

theorem lastCover_exists (d : Defn) (s : St) (c : Cell) (fs : List Cell) (f : Cell) (hf : f ∈ fs)
    (hc : covers d (ruleOf d s f) c = true) : ∃ g, lastCover d s c fs = some g := by
  cases hl : lastCover d s c fs with
  | some g => exact ⟨g, rfl⟩
  | none =>
    have := lastCover_none d s c fs hl f hf
    rw [this] at hc
    cases hc

theorem cid_assignGroup (t : St) (G : List Cell) (σ : Setting) (x : Cell) :
    (assignGroup t G σ).cid x = if G.contains x then t.next else t.cid x := rfl

/-- (B) folding the exported rules from the left: a cell ends with the object made by the LAST rule whose
rectangle contains it -/
theorem applyRules_fold (d : Defn) (s : St) (hwf : WFSt d s) :
    ∀ (fs : List Cell) (t0 : St), fs.Nodup → (∀ f, f ∈ fs → f ∈ cells d) →
      ∃ t, applyRules d t0 (fs.map (ruleOf d s)) = .ok t ∧ t.next = t0.next + fs.length ∧
        (∀ x g, lastCover d s x fs = some g → t.cid x = t0.next + pos fs g) ∧
        (∀ x, lastCover d s x fs = none → t.cid x = t0.cid x) ∧
        (∀ g, g ∈ fs → t.store (t0.next + pos fs g) = s.setting g) ∧
        (∀ i, i < t0.next → t.store i = t0.store i) := by
  intro fs
  induction fs with
  | nil =>
    intro t0 _ _
    refine ⟨t0, rfl, by simp, ?_, fun _ _ => rfl, ?_, fun _ _ => rfl⟩
    · intro x g h; simp [lastCover] at h
    · intro g hg; simp at hg
  | cons f fs ih =>
    intro t0 hnd hsub
    have hfc : f ∈ cells d := hsub f (by simp)
    have hnd' := List.nodup_cons.1 hnd
    simp only [List.map_cons, applyRules, setRule_ruleOf d s hwf f hfc t0]
    generalize hR : rect d (ruleOf d s f).edges (ruleOf d s f).loci = R
    have hcov : ∀ x, covers d (ruleOf d s f) x = R.contains x := by intro x; rw [← hR]; rfl
    obtain ⟨t, h1, h2, h3, h4, h5, h6⟩ := ih (assignGroup t0 R (s.setting f)) hnd'.2
      (fun g hg => hsub g (by simp [hg]))
    have hnext : (assignGroup t0 R (s.setting f)).next = t0.next + 1 := rfl
    have hstore : ∀ i, (assignGroup t0 R (s.setting f)).store i = if i = t0.next then s.setting f else t0.store i := by
      intro i; simp [assignGroup, upd]
    refine ⟨t, h1, ?_, ?_, ?_, ?_, ?_⟩
    · rw [h2, hnext]; simp; omega
    · intro x g hg
      rw [lastCover_cons] at hg
      cases hl : lastCover d s x fs with
      | some g' =>
        rw [hl] at hg
        simp only [pick, Option.some.injEq] at hg
        subst hg
        have hgm := (lastCover_mem d s x fs g' hl).1
        have hga : g' ≠ f := by intro h; subst h; exact hnd'.1 hgm
        rw [h3 x g' hl, hnext]
        simp only [pos, hga, if_false]
        omega
      | none =>
        rw [hl] at hg
        simp only [pick] at hg
        by_cases hc : covers d (ruleOf d s f) x = true
        · simp only [hc, if_true, Option.some.injEq] at hg
          subst hg
          rw [h4 x hl, cid_assignGroup, ← hcov, hc]
          simp [pos]
        · simp [hc] at hg
    · intro x hx
      rw [lastCover_cons] at hx
      cases hl : lastCover d s x fs with
      | some g' => rw [hl] at hx; simp [pick] at hx
      | none =>
        rw [hl] at hx
        simp only [pick] at hx
        by_cases hc : covers d (ruleOf d s f) x = true
        · simp [hc] at hx
        · rw [h4 x hl, cid_assignGroup, ← hcov]
          simp [hc]
    · intro g hg
      rcases List.mem_cons.1 hg with hgf | hgfs
      · subst hgf
        simp only [pos, if_true, Nat.add_zero]
        rw [h6 t0.next (by rw [hnext]; omega), hstore]; simp
      · have hgne : g ≠ f := by intro h; subst h; exact hnd'.1 hgfs
        have := h5 g hgfs
        rw [hnext] at this
        simp only [pos, hgne, if_false]
        rw [← this]; congr 1; omega
    · intro i hi
      rw [h6 i (by rw [hnext]; omega), hstore]
      have : i ≠ t0.next := by omega
      simp [this]

/-! ### the round trip, and exactly when it works -/

theorem orderSound_iff (d : Defn) (s : St) : orderSound d s = true ↔
    ∀ x, x ∈ cells d → ∃ g, lastCover d s x (firsts s (cells d)) = some g ∧ s.cid g = s.cid x := by
  unfold orderSound
  rw [List.all_eq_true]
  constructor
  · intro h x hx
    have := h x hx
    cases hl : lastCover d s x (firsts s (cells d)) with
    | none => rw [hl] at this; simp [ownsLast] at this
    | some g =>
      rw [hl] at this
      exact ⟨g, rfl, by simpa [ownsLast] using this⟩
  · intro h x hx
    obtain ⟨g, hg, hc⟩ := h x hx
    rw [hg]
    simp [ownsLast, hc]

/-- every cell is covered by some exported rule (its own) -/
theorem lastCover_total (d : Defn) (s : St) (x : Cell) (hx : x ∈ cells d) :
    ∃ g, lastCover d s x (firsts s (cells d)) = some g := by
  obtain ⟨f, hf, hfx⟩ := firsts_rep s (cells d) x hx
  exact lastCover_exists d s x _ f hf (covers_own d s f x (firsts_sub s _ f hf) hx hfx.symm)

theorem firsts_congr (s t : St) : ∀ (L : List Cell),
    (∀ a b, a ∈ L → b ∈ L → (t.cid a = t.cid b ↔ s.cid a = s.cid b)) → firsts t L = firsts s L := by
  intro L
  induction L with
  | nil => intro _; rfl
  | cons c cs ih =>
    intro h
    simp only [firsts]
    rw [ih (fun a b ha hb => h a b (List.mem_cons_of_mem _ ha) (List.mem_cons_of_mem _ hb))]
    congr 1
    apply List.filter_congr
    intro x hx
    have hx' : x ∈ c :: cs := List.mem_cons_of_mem _ (firsts_sub s cs x hx)
    have := h x c hx' (by simp)
    show (t.cid x != t.cid c) = (s.cid x != s.cid c)
    rw [Bool.eq_iff_iff, bne_iff_ne, bne_iff_ne]
    exact ⟨fun h1 h2 => h1 (this.2 h2), fun h1 h2 => h1 (this.1 h2)⟩

/-- (C) **round trip** under `orderSound` -/
theorem roundtrip (d : Defn) (s : St) (hwf : WFSt d s) (hos : orderSound d s = true) :
    ∃ s', applyRules d (fresh d) (exportRules d s) = .ok s' ∧
      (∀ c, c ∈ cells d → s'.setting c = s.setting c) ∧
      (∀ c1 c2, c1 ∈ cells d → c2 ∈ cells d → (s'.cid c1 = s'.cid c2 ↔ s.cid c1 = s.cid c2)) ∧
      nfp d s' = nfp d s := by
  obtain ⟨t, h1, _, h3, _, h5, _⟩ := applyRules_fold d s hwf (firsts s (cells d)) (fresh d) (firsts_nodup s _)
    (firsts_sub s _)
  have hos' := (orderSound_iff d s).1 hos
  have hset : ∀ c, c ∈ cells d → t.setting c = s.setting c := by
    intro c hc
    obtain ⟨g, hg, hgc⟩ := hos' c hc
    have hgm := (lastCover_mem d s c _ g hg).1
    show t.store (t.cid c) = s.store (s.cid c)
    rw [h3 c g hg, h5 g hgm, ← hgc]; rfl
  have hpart : ∀ c1 c2, c1 ∈ cells d → c2 ∈ cells d → (t.cid c1 = t.cid c2 ↔ s.cid c1 = s.cid c2) := by
    intro c1 c2 hc1 hc2
    obtain ⟨g1, hg1, hgc1⟩ := hos' c1 hc1
    obtain ⟨g2, hg2, hgc2⟩ := hos' c2 hc2
    have hm1 := (lastCover_mem d s c1 _ g1 hg1).1
    have hm2 := (lastCover_mem d s c2 _ g2 hg2).1
    rw [h3 c1 g1 hg1, h3 c2 g2 hg2, ← hgc1, ← hgc2]
    constructor
    · intro h
      rw [pos_inj _ g1 g2 hm1 hm2 (by omega)]
    · intro h
      rw [firsts_inj s _ g1 g2 hm1 hm2 h]
  refine ⟨t, h1, hset, hpart, ?_⟩
  unfold nfp
  rw [firsts_congr s t (cells d) hpart]
  congr 1
  apply List.filter_congr
  intro f hf
  rw [hset f (firsts_sub s _ f hf)]

/-- the rules always import without an exception, whatever the order does -/
theorem applyRules_ok (d : Defn) (s : St) (hwf : WFSt d s) :
    ∃ s', applyRules d (fresh d) (exportRules d s) = .ok s' := by
  obtain ⟨t, h1, _⟩ := applyRules_fold d s hwf (firsts s (cells d)) (fresh d) (firsts_nodup s _) (firsts_sub s _)
  exact ⟨t, h1⟩

/-- **necessity**: if the re-imported state shares setting objects exactly as the original did, the export
order was sound -/
theorem sharing_orderSound (d : Defn) (s : St) (hwf : WFSt d s) (t : St)
    (ht : applyRules d (fresh d) (exportRules d s) = .ok t)
    (hshare : ∀ c1 c2, c1 ∈ cells d → c2 ∈ cells d → (t.cid c1 = t.cid c2 ↔ s.cid c1 = s.cid c2)) :
    orderSound d s = true := by
  obtain ⟨t', h1, _, h3, _, _, _⟩ := applyRules_fold d s hwf (firsts s (cells d)) (fresh d) (firsts_nodup s _)
    (firsts_sub s _)
  have : t' = t := by
    have := h1.symm.trans ht
    exact Except.ok.inj this
  subst this
  generalize hF : firsts s (cells d) = F at *
  have hFsub : ∀ f, f ∈ F → f ∈ cells d := by intro f hf; rw [← hF] at hf; exact firsts_sub s _ f hf
  have hFnd : F.Nodup := by rw [← hF]; exact firsts_nodup s _
  have hFinj : ∀ a b, a ∈ F → b ∈ F → s.cid a = s.cid b → a = b := by
    intro a b ha hb; rw [← hF] at ha hb; exact firsts_inj s _ a b ha hb
  -- every first cell is last covered by its own rule
  have key : ∀ k f, f ∈ F → F.length - pos F f ≤ k → lastCover d s f F = some f := by
    intro k
    induction k with
    | zero =>
      intro f hf hk
      have := pos_lt F f hf
      omega
    | succ k ih =>
      intro f hf hk
      have hfc := hFsub f hf
      obtain ⟨g, hg⟩ := lastCover_exists d s f F f hf (covers_own d s f f hfc hfc rfl)
      have hgm := (lastCover_mem d s f F g hg).1
      have hle := lastCover_last d s f F hFnd g hg f hf (covers_own d s f f hfc hfc rfl)
      by_cases hpe : pos F g = pos F f
      · rw [hg, pos_inj F g f hgm hf hpe]
      · exfalso
        have hlt := pos_lt F g hgm
        have hgg := ih g hgm (by omega)
        have e1 := h3 f g hg
        have e2 := h3 g g hgg
        have := (hshare f g hfc (hFsub g hgm)).1 (by rw [e1, e2])
        have := hFinj f g hf hgm this
        subst this
        exact hpe rfl
  rw [orderSound_iff, hF]
  intro x hx
  obtain ⟨f, hf, hfx⟩ := firsts_rep s (cells d) x hx
  rw [hF] at hf
  have hff := key F.length f hf (by omega)
  obtain ⟨g, hg⟩ := lastCover_exists d s x F f hf (covers_own d s f x (hFsub f hf) hx hfx.symm)
  have hgm := (lastCover_mem d s x F g hg).1
  have e1 := h3 x g hg
  have e2 := h3 f f hff
  have := (hshare x f hx (hFsub f hf)).2 hfx.symm
  rw [e1, e2] at this
  have hgf : g = f := pos_inj F g f hgm hf (by omega)
  exact ⟨g, hg, by rw [hgf, hfx]⟩

theorem allRect_orderSound (d : Defn) (s : St) (h : allRect d s = true) : orderSound d s = true := by
  rw [orderSound_iff]
  intro x hx
  obtain ⟨g, hg⟩ := lastCover_total d s x hx
  obtain ⟨hgm, hgc⟩ := lastCover_mem d s x _ g hg
  unfold allRect at h
  rw [List.all_eq_true] at h
  have := h g hgm
  rw [List.all_eq_true] at this
  have := this x hx
  rw [hgc] at this
  simp only [Bool.not_true, Bool.false_or, beq_iff_eq] at this
  exact ⟨g, hg, this.symm⟩

/-- `orderSound` spelled out without `lastCover`: no rule exported AFTER a cell's own rule covers the cell -/
theorem orderSound_spec (d : Defn) (s : St) : orderSound d s = true ↔
    ∀ x f g, x ∈ cells d → f ∈ firsts s (cells d) → g ∈ firsts s (cells d) → s.cid f = s.cid x →
      covers d (ruleOf d s g) x = true → pos (firsts s (cells d)) g ≤ pos (firsts s (cells d)) f := by
  rw [orderSound_iff]
  constructor
  · intro h x f g hx hf hg hfx hcov
    obtain ⟨g0, hg0, hgc⟩ := h x hx
    have hm := (lastCover_mem d s x _ g0 hg0).1
    have : g0 = f := firsts_inj s _ g0 f hm hf (hgc.trans hfx.symm)
    subst this
    exact lastCover_last d s x _ (firsts_nodup s _) g0 hg0 g hg hcov
  · intro h x hx
    obtain ⟨f, hf, hfx⟩ := firsts_rep s (cells d) x hx
    obtain ⟨g0, hg0⟩ := lastCover_total d s x hx
    obtain ⟨hm, hcov⟩ := lastCover_mem d s x _ g0 hg0
    have h1 := h x f g0 hx hf hm hfx hcov
    have h2 := lastCover_last d s x _ (firsts_nodup s _) g0 hg0 f hf
      (covers_own d s f x (firsts_sub s _ f hf) hx hfx.symm)
    have : g0 = f := pos_inj _ g0 f hm hf (by omega)
    exact ⟨g0, hg0, by rw [this, hfx]⟩

/-! ### every state reached by `set_param_rule` calls is well formed -/

/-- ids in use are below the fresh-id counter, and every Var in use is within its bounds -/
def Inv2 (d : Defn) (s : St) : Prop := (∀ c, c ∈ cells d → s.cid c < s.next) ∧ WFSt d s

theorem clampVar_good (lo v hi : Rat) (σ : Setting) (h : clampVar lo v hi = .ok σ) : Good σ := by
  have := Rules.clampVar_good lo v hi σ h
  cases σ <;> exact this

theorem mkSetting_good (d : Defn) (s : St) (sc : List Cell) (value lower upper : Option Rat) (c : Bool)
    (σ : Setting) (h : mkSetting d s sc value lower upper c = .ok σ) : Good σ := by
  unfold mkSetting at h
  cases c with
  | true => simp only [if_true, Except.ok.injEq] at h; subst h; trivial
  | false =>
    simp only [Bool.false_eq_true, if_false] at h
    exact clampVar_good _ _ _ σ h

theorem mkSettings_good (d : Defn) (s : St) (value lower upper : Option Rat) (c : Bool) :
    ∀ (scs : List (List Cell)) (l : List (List Cell × Setting)),
      mkSettings d s value lower upper c scs = .ok l → ∀ p, p ∈ l → Good p.2 := by
  intro scs
  induction scs with
  | nil => intro l h p hp; simp [mkSettings] at h; subst h; simp at hp
  | cons sc scs ih =>
    intro l h p hp
    simp only [mkSettings] at h
    cases h1 : mkSetting d s sc value lower upper c with
    | error e => rw [h1] at h; simp at h
    | ok σ =>
      rw [h1] at h
      simp only [] at h
      cases h2 : mkSettings d s value lower upper c scs with
      | error e => rw [h2] at h; simp at h
      | ok l' =>
        rw [h2] at h
        simp only [Except.ok.injEq] at h
        subst h
        rcases List.mem_cons.1 hp with hp | hp
        · subst hp; exact mkSetting_good d s sc value lower upper c σ h1
        · exact ih l' h2 p hp

theorem assignScopes_inv (d : Defn) : ∀ (l : List (List Cell × Setting)) (s : St),
    Inv2 d s → (∀ p, p ∈ l → Good p.2) → Inv2 d (assignScopes s l) := by
  intro l
  induction l with
  | nil => intro s h _; exact h
  | cons p l ih =>
    intro s h hg
    obtain ⟨sc, σ⟩ := p
    simp only [assignScopes]
    apply ih _ _ (fun p hp => hg p (by simp [hp]))
    refine ⟨?_, ?_⟩
    · intro c hc
      show (if sc.contains (c.1, c.2) then s.next else s.asg c.1 c.2) < s.next + 1
      have : s.asg c.1 c.2 < s.next := h.1 c hc
      split <;> omega
    · intro c hc
      show Good (upd s.store s.next σ (if sc.contains (c.1, c.2) then s.next else s.asg c.1 c.2))
      by_cases hcc : sc.contains (c.1, c.2) = true
      · simp only [hcc, if_true, upd]
        exact hg (sc, σ) (by simp)
      · have hlt : s.asg c.1 c.2 < s.next := h.1 c hc
        have hne : s.asg c.1 c.2 ≠ s.next := by omega
        simp only [hcc, Bool.false_eq_true, if_false, upd, hne]
        exact h.2 c hc

theorem setRule_inv (d : Defn) (s s' : St) (r : RuleArgs) (h : setRule d s r = .ok s') (hI : Inv2 d s) :
    Inv2 d s' := by
  unfold setRule at h
  split at h
  · cases h
  · split at h
    · cases h
    · unfold assignAll at h
      split at h
      · cases h
      · split at h
        · cases h
        · rename_i l hl
          cases h
          exact assignScopes_inv d l s hI (mkSettings_good d s _ _ _ _ _ l hl)

theorem fresh_inv (d : Defn) (hd : d.dLo ≤ d.dVal ∧ d.dVal ≤ d.dHi) : Inv2 d (fresh d) := by
  unfold fresh
  split
  · refine ⟨fun c hc => ?_, fun c _ => hd⟩
    obtain ⟨h1, h2⟩ := (mem_cells d c).1 hc
    show c.1 * d.nLoci + c.2 < d.nEdges * d.nLoci
    have : (c.1 + 1) * d.nLoci ≤ d.nEdges * d.nLoci := Nat.mul_le_mul_right _ h1
    rw [Nat.add_mul] at this
    omega
  · exact ⟨fun c _ => Nat.zero_lt_one, fun c _ => hd⟩

end CogentModel.Rules2
