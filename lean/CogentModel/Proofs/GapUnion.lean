/-
  C18 / gap merging, part F: `_gap_union` is the position-wise maximum; it dominates every input and stays well formed.
-/
import CogentModel.Proofs.GapDict
namespace CogentModel.GapMerge

theorem dget_mapKeys (K : List Int) (f : Int → Int) (x : Int) :
    dget (K.map fun k => (k, f k)) x = if x ∈ K then some (f x) else none := by
  induction K with
  | nil => simp [dget]
  | cons k r ih =>
    simp only [List.map_cons, dget, ih, List.mem_cons]
    by_cases h : k = x
    · subst h; simp
    · have : ¬ x = k := fun e => h e.symm
      simp [h, this]

theorem keys_mapKeys (K : List Int) (f : Int → Int) : keys (K.map fun k => (k, f k)) = K := by
  simp [keys, List.map_map, Function.comp_def]

theorem mem_keysUnion (a b : Gaps) (x : Int) : x ∈ keysUnion a b ↔ x ∈ keys a ∨ x ∈ keys b := by
  simp only [keysUnion, List.mem_append, List.mem_filter]
  constructor
  · rintro (h | ⟨h, _⟩)
    · exact Or.inl h
    · exact Or.inr h
  · rintro (h | h)
    · exact Or.inl h
    · by_cases ha : x ∈ keys a
      · exact Or.inl ha
      · exact Or.inr ⟨h, by simp [(dget_none_iff a x).mpr ha]⟩

theorem keysUnion_nodup (a b : Gaps) (ha : (keys a).Nodup) (hb : (keys b).Nodup) : (keysUnion a b).Nodup := by
  simp only [keysUnion]
  rw [List.nodup_append]
  refine ⟨ha, List.Pairwise.filter _ hb, ?_⟩
  intro x hx y hy hxy
  subst hxy
  simp only [List.mem_filter] at hy
  have hn : dget a x = none := by
    cases hd : dget a x with
    | none => rfl
    | some v => rw [hd] at hy; simp at hy
  exact (dget_none_iff a x).mp hn hx

theorem gl_of_not_mem (g : Gaps) (x : Int) (h : x ∉ keys g) : gl g x = 0 := by
  simp [gl, (dget_none_iff g x).mpr h]

theorem gl_pos_of_mem (g : Gaps) (hpos : ∀ e ∈ g, 0 < e.2) (x : Int) (h : x ∈ keys g) : 0 < gl g x := by
  cases hd : dget g x with
  | none => exact absurd h ((dget_none_iff g x).mp hd)
  | some v =>
    have := hpos _ (dget_some_mem g x v hd)
    simpa [gl, hd] using this

theorem gl_mergedGaps (a b : Gaps) (ha : ∀ e ∈ a, 0 ≤ e.2) (hb : ∀ e ∈ b, 0 ≤ e.2) (x : Int) :
    gl (mergedGaps a b) x = max (gl a x) (gl b x) := by
  unfold mergedGaps
  split
  · rename_i h; subst h
    have := gl_nonneg b hb x
    simp only [gl, dget, Option.getD_none] at this ⊢
    omega
  · split
    · rename_i _ h; subst h
      have := gl_nonneg a ha x
      simp only [gl, dget, Option.getD_none] at this ⊢
      omega
    · have e := dget_mapKeys (keysUnion a b) (fun k => max ((dget a k).getD 0) ((dget b k).getD 0)) x
      simp only [gl] at e ⊢
      rw [e]
      by_cases hx : x ∈ keysUnion a b
      · simp [hx]
      · have hx' : x ∉ keys a ∧ x ∉ keys b :=
          ⟨fun h => hx ((mem_keysUnion a b x).mpr (Or.inl h)), fun h => hx ((mem_keysUnion a b x).mpr (Or.inr h))⟩
        have h1 := gl_of_not_mem a x hx'.1
        have h2 := gl_of_not_mem b x hx'.2
        simp only [gl] at h1 h2
        simp [hx, h1, h2]

/-- well-formed gap dict of a row over a sequence of length `len` -/
structure GapsOK (g : Gaps) (len : Int) : Prop where
  nodup : (keys g).Nodup
  pos : ∀ e ∈ g, 0 < e.2
  range : ∀ k ∈ keys g, 0 ≤ k ∧ k ≤ len

theorem gapsOK_nil (len : Int) : GapsOK [] len := ⟨by simp, by simp, by simp⟩

theorem GapsOK.nonneg {g : Gaps} {len : Int} (h : GapsOK g len) : ∀ e ∈ g, 0 ≤ e.2 :=
  fun e he => by have := h.pos e he; omega

theorem mergedGaps_ok (a b : Gaps) (len : Int) (ha : GapsOK a len) (hb : GapsOK b len) : GapsOK (mergedGaps a b) len := by
  unfold mergedGaps
  split
  · exact hb
  · split
    · exact ha
    · refine ⟨?_, ?_, ?_⟩
      · rw [keys_mapKeys]; exact keysUnion_nodup a b ha.nodup hb.nodup
      · intro e he
        obtain ⟨k, hk, rfl⟩ := List.mem_map.mp he
        simp only
        rcases (mem_keysUnion a b k).mp hk with h | h
        · have := gl_pos_of_mem a ha.pos k h
          simp only [gl] at this; omega
        · have := gl_pos_of_mem b hb.pos k h
          simp only [gl] at this; omega
      · intro k hk
        rw [keys_mapKeys] at hk
        rcases (mem_keysUnion a b k).mp hk with h | h
        · exact ha.range k h
        · exact hb.range k h

theorem gapUnion_spec (len : Int) (l : List Gaps) : ∀ acc : Gaps, GapsOK acc len → (∀ g ∈ l, GapsOK g len) →
    GapsOK (gapUnion l acc) len ∧ (∀ x, gl acc x ≤ gl (gapUnion l acc) x) ∧
      (∀ g ∈ l, ∀ x, gl g x ≤ gl (gapUnion l acc) x) := by
  induction l with
  | nil => intro acc hacc _; exact ⟨hacc, fun x => Int.le_refl _, by simp⟩
  | cons g r ih =>
    intro acc hacc hl
    have hg := hl g List.mem_cons_self
    have hm := mergedGaps_ok acc g len hacc hg
    obtain ⟨h1, h2, h3⟩ := ih (mergedGaps acc g) hm (fun g' hg' => hl g' (List.mem_cons_of_mem _ hg'))
    have hgl := gl_mergedGaps acc g hacc.nonneg hg.nonneg
    simp only [gapUnion]
    refine ⟨h1, fun x => ?_, fun g' hg' x => ?_⟩
    · have := h2 x; rw [hgl x] at this; omega
    · rcases List.mem_cons.mp hg' with rfl | hg''
      · have := h2 x; rw [hgl x] at this; omega
      · exact h3 g' hg'' x

end CogentModel.GapMerge
