import CogentModel.Proofs.IndelMapSliceAux
namespace CogentModel.IndelMap
open CogentModel.Gapped List CogentModel

theorem wf_emptyMap (n : Int) (h : 0 ≤ n) : WF (emptyMap n) :=
  ⟨h, rfl, by simp [emptyMap], by simp [emptyMap], by intro p hp; simp [emptyMap] at hp⟩

/-- in-range core of `getitem_spec`: WF and pattern of the result -/
theorem getitem_inrange (m : IMap) (h : WF m) (start stop : Int) (h0 : 0 ≤ start) (hlt : start < stop)
    (hle : stop ≤ len m) (r : IMap)
    (hr : (if m.gapPos = [] then Except.ok (emptyMap (stop - start)) else getitemGaps m start stop) = .ok r) :
    WF r ∧ pattern (abs r) = ((pattern (abs m)).drop start.toNat).take (stop - start).toNat := by
  by_cases hg : m.gapPos = []
  · rw [if_pos hg] at hr
    cases hr
    have hsi : ∀ x, seqIndexNN m x = x := by intro x; unfold seqIndexNN; rw [if_pos (Or.inl hg)]
    refine result_spec m h start stop h0 hlt hle _ ?_ ?_ ?_ ?_
    · rw [hg]; cases m.cumLens <;> rfl
    · rw [hg]; cases m.cumLens <;> rfl
    · rw [hsi, hsi]; rfl
    · intro hh; exact absurd rfl hh
  · rw [if_neg hg] at hr
    exact getitemGaps_spec m h hg start stop h0 hlt hle r hr

/-- `__getitem__` after the `None` defaults have been filled in -/
def getitemTail (m : IMap) (start0 stop0 : Int) : Except Err IMap :=
  let start := if start0 ≥ 0 then start0 else len m + start0
  let stop := if stop0 ≥ 0 then stop0 else len m + stop0
  if start < 0 ∨ stop < 0 then .error .indexError else
  let stop := min stop (len m)
  if start ≥ stop then .ok (emptyMap 0) else
  if m.gapPos = [] then .ok (emptyMap (stop - start)) else
  getitemGaps m start stop

theorem getitem_eq_tail (m : IMap) (a b : Option Int) :
    getitem m a b none = getitemTail m (a.getD 0) (b.getD (len m)) := by
  cases a <;> cases b <;> rfl

/-- **`IndelMap.__getitem__` agrees with slicing the gapped string**, for every `start`/`stop`
(`None`, negative, beyond the end): whenever the call returns a map, that map is well formed and
denotes `s[a:b]` (residues renumbered). -/
theorem getitem_spec' (m : IMap) (h : WF m) (a b : Option Int) (r : IMap)
    (hr : getitem m a b none = .ok r) : WF r ∧ abs r = Gapped.slice (abs m) a b := by
  have hlen : ((abs m).length : Int) = len m := len_eq' m h
  have hlen0 : 0 ≤ len m := by omega
  rw [getitem_eq_tail] at hr
  unfold getitemTail at hr
  generalize hs0 : a.getD 0 = start0 at hr
  generalize he0 : b.getD (len m) = stop0 at hr
  generalize hs1 : (if start0 ≥ 0 then start0 else len m + start0) = start at hr
  generalize he1 : (if stop0 ≥ 0 then stop0 else len m + stop0) = stop at hr
  simp only [] at hr
  by_cases herr : start < 0 ∨ stop < 0
  · rw [if_pos herr] at hr; cases hr
  · rw [if_neg herr] at hr
    have hstart0 : 0 ≤ start := by omega
    have hstop0 : 0 ≤ stop := by omega
    -- what `slice.indices` gives
    have hidx := View.indices_pos' ((abs m).length : Int) (by omega) a b 1 (by omega)
    rw [hlen] at hidx
    have hS : View.clampP (a.getD 0) (len m) = min start (len m) := by
      rw [hs0]; unfold View.clampP
      by_cases hx : start0 < 0
      · rw [if_pos hx]; rw [if_neg (by omega)] at hs1; omega
      · rw [if_neg hx]; rw [if_pos (by omega)] at hs1; omega
    have hE : View.clampP (b.getD (len m)) (len m) = min stop (len m) := by
      rw [he0]; unfold View.clampP
      by_cases hy : stop0 < 0
      · rw [if_pos hy]; rw [if_neg (by omega)] at he1; omega
      · rw [if_neg hy]; rw [if_pos (by omega)] at he1; omega
    have hslice : PySlice.slice (abs m) a b 1 =
        ((abs m).drop (min start (len m)).toNat).take (min stop (len m) - min start (len m)).toNat := by
      rw [slice_step1, hlen, hidx, hS, hE]
    unfold Gapped.slice rebase
    rw [hslice]
    by_cases hge : start ≥ min stop (len m)
    · rw [if_pos hge] at hr
      cases hr
      refine ⟨wf_emptyMap 0 (by omega), ?_⟩
      have : (min stop (len m) - min start (len m)).toNat = 0 := by omega
      rw [this]
      simp [abs, emptyMap, absFrom, seg, pattern, ofPattern, ofPatternFrom]
    · rw [if_neg hge] at hr
      obtain ⟨hwf, hpat⟩ := getitem_inrange m h start (min stop (len m)) hstart0 (by omega) (by omega) r hr
      refine ⟨hwf, ?_⟩
      rw [abs_eq_ofPattern r hwf, hpat]
      have e1 : min start (len m) = start := by omega
      rw [e1]
      simp only [pattern, map_take, map_drop]

end CogentModel.IndelMap
