import CogentModel.Proofs.AlnDisplay
namespace CogentModel.Aln
open CogentModel.IndelMap CogentModel.Gapped List CogentModel

/-- python's conversion of a possibly negative index -/
def conv (n x : Int) : Int := if x ≥ 0 then x else n + x

theorem slice_conv {α} [Inhabited α] (xs : List α) (a b : Option Int)
    (h0 : 0 ≤ conv xs.length (a.getD 0)) (h1 : 0 ≤ conv xs.length (b.getD xs.length)) :
    PySlice.slice xs a b 1 =
      (xs.drop (min (conv xs.length (a.getD 0)) xs.length).toNat).take
        (min (conv xs.length (b.getD xs.length)) xs.length - min (conv xs.length (a.getD 0)) xs.length).toNat := by
  have hidx := View.indices_pos' (xs.length : Int) (by omega) a b 1 (by omega)
  have hS : View.clampP (a.getD 0) xs.length = min (conv xs.length (a.getD 0)) xs.length := by
    unfold View.clampP conv at *
    by_cases hx : a.getD 0 < 0
    · rw [if_pos hx, if_neg (by omega)]; rw [if_neg (by omega)] at h0; omega
    · rw [if_neg hx, if_pos (by omega)]
  have hE : View.clampP (b.getD xs.length) xs.length = min (conv xs.length (b.getD xs.length)) xs.length := by
    unfold View.clampP conv at *
    by_cases hy : b.getD (xs.length : Int) < 0
    · rw [if_pos hy, if_neg (by omega)]; rw [if_neg (by omega)] at h1; omega
    · rw [if_neg hy, if_pos (by omega)]
  rw [slice_step1, hidx, hS, hE]

theorem seqLen_eq_cntF (g : Gapped) : seqLen g = cntF (pattern g) := by
  induction g with
  | nil => rfl
  | cons o r ih =>
    cases o with
    | none => simp only [seqLen, cntF, pattern] at *; simpa using ih
    | some k => simp only [seqLen, cntF, pattern] at *; simpa using ih

theorem seqIndex_eq_cntF (g : Gapped) (i : Nat) : seqIndex g i = cntF ((pattern g).take i) := by
  unfold seqIndex; rw [seqLen_eq_cntF]; simp [pattern, map_take]

theorem seqLen_absFrom (gp : List Int) : ∀ (cum : List Int) (next prevCum pl : Int),
    (∀ p ∈ gp, next ≤ p ∧ p ≤ pl) → gp.Pairwise (· < ·) → next ≤ pl →
    seqLen (absFrom next prevCum gp cum pl) = (pl - next).toNat := by
  induction gp with
  | nil =>
    intro cum next prevCum pl _ _ _
    have : absFrom next prevCum [] cum pl = seg next pl := by cases cum <;> rfl
    rw [this, seqLen_seg]
  | cons p ps ih =>
    intro cum next prevCum pl hr hs hn
    cases cum with
    | nil => simp only [absFrom]; rw [seqLen_seg]
    | cons c cs =>
      have hp := hr p (by simp)
      have hs' := pairwise_cons.mp hs
      have ihh := ih cs p c pl
        (fun q hq => ⟨Int.le_of_lt (hs'.1 q hq), (hr q (by simp [hq])).2⟩) hs'.2 hp.2
      simp only [absFrom]
      rw [seqLen_append, seqLen_append, seqLen_seg, seqLen_gapCols, ihh]; omega

theorem seqLen_abs (m : IMap) (h : WF m) : seqLen (abs m) = m.parentLength.toNat := by
  have := seqLen_absFrom m.gapPos m.cumLens 0 0 m.parentLength (fun p hp => h.pos_range p hp) h.pos_sorted h.pl_nonneg
  simpa [IndelMap.abs] using this

theorem seqIdxT_beyond (T : List Trip) : ∀ (col next pl ai : Int), TSorted col T → TRel col next T →
    (∀ t ∈ T, t.1 ≤ pl) → next ≤ pl → endColT col next T pl ≤ ai →
    seqIdxT col next T ai = pl + (ai - endColT col next T pl) := by
  induction T with
  | nil => intro col next pl ai _ _ _ _ h; simp only [seqIdxT, endColT] at *; omega
  | cons t r ih =>
    intro col next pl ai hs hr hp hn h
    obtain ⟨p, s, e⟩ := t
    obtain ⟨h1, h2, h3⟩ := hs
    obtain ⟨r1, r2⟩ := hr
    have hpp : p ≤ pl := hp (p, s, e) (by simp)
    simp only [endColT] at h ⊢
    -- the end column is at least the end of this gap
    have hge : ∀ (T' : List Trip) (c nx : Int), (∀ t ∈ T', t.1 ≤ pl) → nx ≤ pl → TSorted c T' → c ≤ endColT c nx T' pl := by
      intro T'
      induction T' with
      | nil => intro c nx _ hnx _; simp only [endColT]; omega
      | cons t' r' ih' =>
        intro c nx hp' _ hs'
        obtain ⟨p', s', e'⟩ := t'
        simp only [endColT]
        have := ih' e' p' (fun t ht => hp' t (by simp [ht])) (hp' (p', s', e') (by simp))
          (tsorted_mono _ _ _ (by omega) hs'.2.2)
        have := hs'.1; have := hs'.2.1; omega
    have hee := hge r e p (fun t ht => hp t (by simp [ht])) hpp (tsorted_mono _ _ _ (by omega) h3)
    simp only [seqIdxT]
    rw [if_neg (by omega)]
    by_cases c2 : ai ≤ e
    · have hae : ai = e := by omega
      subst hae
      rw [if_pos c2]
      have := ih ai p pl ai (tsorted_mono _ _ _ (by omega) h3) r2 (fun t ht => hp t (by simp [ht])) hpp h
      rw [seqIdxT_at_col r ai p h3] at this
      exact this
    · rw [if_neg c2]
      exact ih e p pl ai (tsorted_mono _ _ _ (by omega) h3) r2 (fun t ht => hp t (by simp [ht])) hpp h

theorem seqIndexNN_beyond (m : IMap) (h : WF m) (x : Int) (hx : len m ≤ x) :
    seqIndexNN m x = m.parentLength + (x - len m) := by
  have hTs : TSorted 0 (trips 0 m.gapPos m.cumLens) := by
    have := trips_sorted m.gapPos m.cumLens (-1) 0 h.inc; simpa using this
  have hTr : TRel 0 0 (trips 0 m.gapPos m.cumLens) := by
    have := trips_rel m.gapPos m.cumLens 0 0; simpa using this
  have hend : endColT 0 0 (trips 0 m.gapPos m.cumLens) m.parentLength = len m := by
    have := endColT_trips m.gapPos m.cumLens 0 0 m.parentLength h.len_eq
    simp only [Int.add_zero] at this
    rw [this, len_eq_lastOr m h]
  rw [seqIndexNN_eq_T m h]
  have := seqIdxT_beyond (trips 0 m.gapPos m.cumLens) 0 0 m.parentLength x hTs hTr
    (by intro t ht
        have : t.1 ∈ m.gapPos := by
          rw [← trips_map_pos m.gapPos m.cumLens 0 h.len_eq]; exact mem_map_of_mem ht
        exact (h.pos_range _ this).2)
    h.pl_nonneg (by rw [hend]; exact hx)
  rw [this, hend]

end CogentModel.Aln
