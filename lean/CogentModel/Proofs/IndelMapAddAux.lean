import CogentModel.Proofs.IndelMapReversed
namespace CogentModel.IndelMap
open CogentModel.Gapped List CogentModel

def shiftG (d : Int) (G : List (Int × Int)) : List (Int × Int) := G.map fun g => (d + g.1, g.2)

theorem patG_shift (G : List (Int × Int)) : ∀ (d next pl : Int),
    patG (d + next) (shiftG d G) (d + pl) = patG next G pl := by
  induction G with
  | nil => intro d next pl; simp only [shiftG, map_nil, patG]; congr 1; omega
  | cons g r ih =>
    intro d next pl
    obtain ⟨p, l⟩ := g
    have := ih d p pl
    simp only [shiftG, map_cons, patG] at this ⊢
    rw [this]
    have : d + p - (d + next) = p - next := by omega
    rw [this]

theorem replicate_toNat_add {α} (a : α) (x y : Int) (hx : 0 ≤ x) (hy : 0 ≤ y) :
    replicate (x + y).toNat a = replicate x.toNat a ++ replicate y.toNat a := by
  rw [replicate_append_replicate]; congr 1; omega

theorem patG_append (pla plb : Int) (hb : 0 ≤ plb) (G2 : List (Int × Int)) (h2 : ∀ g ∈ G2, 0 ≤ g.1)
    (G1 : List (Int × Int)) : ∀ (next : Int), next ≤ pla → (∀ g ∈ G1, g.1 ≤ pla) →
    patG next (G1 ++ shiftG pla G2) (pla + plb) = patG next G1 pla ++ patG 0 G2 plb := by
  induction G1 with
  | nil =>
    intro next hn _
    cases G2 with
    | nil =>
      simp only [shiftG, map_nil, append_nil, patG]
      have : pla + plb - next = (pla - next) + (plb - 0) := by omega
      rw [this, replicate_toNat_add _ _ _ (by omega) (by omega)]
    | cons g r =>
      obtain ⟨p, l⟩ := g
      have hp := h2 (p, l) (by simp)
      have hs := patG_shift r pla p plb
      simp only [shiftG] at hs
      simp only [shiftG, map_cons, nil_append, patG, hs]
      have : pla + p - next = (pla - next) + (p - 0) := by omega
      rw [this, replicate_toNat_add _ _ _ (by omega) (by simpa using hp), append_assoc]
  | cons g r ih =>
    intro next hn hr
    obtain ⟨p, l⟩ := g
    have hp := hr (p, l) (by simp)
    simp only [cons_append, patG, append_assoc]
    rw [ih p hp (fun g hg => hr g (by simp [hg]))]

theorem diffsFrom_append (xs : List Int) : ∀ (pc : Int) (ys : List Int),
    diffsFrom pc (xs ++ ys) = diffsFrom pc xs ++ diffsFrom (lastOr pc xs) ys := by
  induction xs with
  | nil => intro pc ys; rfl
  | cons x r ih => intro pc ys; simp only [cons_append, diffsFrom, lastOr, ih]

theorem diffsFrom_map_add (ys : List Int) : ∀ (d pc : Int),
    diffsFrom (d + pc) (ys.map (d + ·)) = diffsFrom pc ys := by
  induction ys with
  | nil => intro _ _; rfl
  | cons y r ih => intro d pc; simp only [map_cons, diffsFrom, ih]; congr 1; omega

theorem dropLast_append_lastD : ∀ (xs : List Int), xs ≠ [] → xs = xs.dropLast ++ [lastD xs] := by
  intro xs
  induction xs with
  | nil => intro h; exact absurd rfl h
  | cons x r ih =>
    intro _
    cases r with
    | nil => simp [lastD]
    | cons y r' =>
      rw [lastD_cons_cons, dropLast_cons₂, cons_append, ← ih (by simp)]

theorem lastOr_eq_lastD (d : Int) : ∀ (xs : List Int), xs ≠ [] → lastOr d xs = lastD xs := by
  intro xs h
  cases xs with
  | nil => exact absurd rfl h
  | cons x r => rw [lastD_cons]; rfl

theorem zip_shift (gp L : List Int) (d : Int) : zip (gp.map (d + ·)) L = shiftG d (zip gp L) := by
  rw [zip_map_left]; rfl

end CogentModel.IndelMap
