/-
  C18 helper lemmas for the gap-dict model: merging a single pairwise alignment returns it unchanged.
-/
import CogentModel.Model.GapMerge
namespace CogentModel.GapMerge

theorem dget_of_mem_nodup (g : Gaps) (hnd : (g.map (·.1)).Nodup) (p l : Int) (hm : (p, l) ∈ g) : dget g p = some l := by
  induction g with
  | nil => simp at hm
  | cons x r ih =>
    obtain ⟨k, v⟩ := x
    simp only [List.map_cons, List.nodup_cons] at hnd
    simp only [dget]
    rcases List.mem_cons.mp hm with e | hm'
    · cases e; simp
    · have hk : k ≠ p := by
        intro e; subst e
        exact hnd.1 (List.mem_map.mpr ⟨(k, l), hm', rfl⟩)
      rw [if_neg hk]
      exact ih hnd.2 hm'

theorem gapDifference_self (g r : Gaps) (hsub : ∀ x ∈ r, dget g x.1 = some x.2) : gapDifference g r = ([], []) := by
  induction r with
  | nil => rfl
  | cons x r ih =>
    obtain ⟨p, l⟩ := x
    have h1 := hsub (p, l) List.mem_cons_self
    have ih' := ih (fun y hy => hsub y (List.mem_cons_of_mem _ hy))
    simp only [gapDifference, ih']
    simp only at h1
    rw [h1]
    simp

theorem dropCommon_length_le (a b : List (Option Nat)) : (dropCommon a b).length ≤ a.length := by
  induction a generalizing b with
  | nil => cases b <;> simp [dropCommon]
  | cons x r ih =>
    cases b with
    | nil => simp [dropCommon]
    | cons y r2 =>
      simp only [dropCommon]
      split
      · have := ih r2; simp only [List.length_cons]; omega
      · have := ih r2; simp only [List.length_cons]; omega

theorem dropCommon_eq_zip (a b : List (Option Nat)) (hl : a.length = b.length)
    (hk : (dropCommon a b).length = a.length) : dropCommon a b = List.zip a b := by
  induction a generalizing b with
  | nil => cases b <;> simp [dropCommon]
  | cons x r ih =>
    cases b with
    | nil => simp at hl
    | cons y r2 =>
      simp only [dropCommon] at hk ⊢
      split
      · rename_i hc
        rw [if_pos hc] at hk
        have := dropCommon_length_le r r2
        simp only [List.length_cons] at hk
        omega
      · rename_i hc
        rw [if_neg hc] at hk
        simp only [List.length_cons, Nat.add_right_cancel_iff] at hk hl
        rw [ih r2 hl hk]; rfl

/-- merging one well-formed pairwise alignment gives back exactly that alignment (either variant of
`_gaps_for_injection`) -/
theorem keepsAll_single (fixed : Bool) (reflen : Int) (rg og : Gaps) (len : Int)
    (hv : pairValid reflen (rg, og, len) = true) : keepsAll fixed reflen [(rg, og, len)] = true := by
  simp only [pairValid, gapsValid, Bool.and_eq_true, decide_eq_true_eq, beq_iff_eq] at hv
  obtain ⟨⟨⟨⟨_, ⟨_, hnd⟩⟩, _⟩, hlen⟩, hkeep⟩ := hv
  have hu : gapUnion [rg] [] = rg := by simp [gapUnion, mergedGaps]
  have hself : gapDifference rg rg = ([], []) :=
    gapDifference_self rg rg (fun x hx => dget_of_mem_nodup rg hnd x.1 x.2 hx)
  have hcomb : combinedRefseqGaps rg rg = [] := by
    simp [combinedRefseqGaps, hself, updateDiff, subsetToAlign]
  have hinj : gapsForInjection fixed og [] len = .ok og := by
    simp [gapsForInjection, sortGaps, injectLoop]
  simp only [keepsAll, pairwiseToMultiple, List.map_cons, List.map_nil, hu, injectAll, hcomb, hinj, keepsList,
    keepsPair, Bool.and_true, Bool.and_eq_true, beq_iff_eq]
  exact ⟨hlen, dropCommon_eq_zip _ _ hlen hkeep⟩

end CogentModel.GapMerge
