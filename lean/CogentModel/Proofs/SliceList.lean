import CogentModel.Proofs.ViewChain
/-! Plain-list facts about `PySlice.slice` / `PySlice.index`: they commute with `List.map`, and `xs[::-1] = xs.reverse`. -/
namespace CogentModel.View
open CogentModel

theorem sliceIdx_mem_range_nat (n : Nat) (a b : Option Int) (c : Int) (hc : c ≠ 0) :
    ∀ j ∈ PySlice.sliceIdx n a b c, 0 ≤ j ∧ j < (n : Int) := by
  have := sliceIdx_mem_range (n : Int) (by omega) a b c hc
  rwa [Int.toNat_natCast] at this

theorem getElem!_of_lt {α} [Inhabited α] (xs : List α) (j : Int) (h0 : 0 ≤ j) (h1 : j < xs.length) :
    ∃ h : j.toNat < xs.length, xs[j.toNat]! = xs[j.toNat] := by
  have h : j.toNat < xs.length := by omega
  refine ⟨h, ?_⟩
  rw [getElem!_def, List.getElem?_eq_getElem h]

theorem slice_map {α β} [Inhabited α] [Inhabited β] (g : α → β) (xs : List α) (a b : Option Int)
    (c : Int) (hc : c ≠ 0) :
    PySlice.slice (xs.map g) a b c = (PySlice.slice xs a b c).map g := by
  unfold PySlice.slice
  rw [List.length_map, List.map_map]
  apply List.map_congr_left
  intro j hj
  obtain ⟨h0, h1⟩ := sliceIdx_mem_range_nat xs.length a b c hc j hj
  obtain ⟨h, e⟩ := getElem!_of_lt xs j h0 h1
  have h' : j.toNat < (xs.map g).length := by rw [List.length_map]; exact h
  simp only [Function.comp]
  rw [e, getElem!_def, List.getElem?_eq_getElem h', List.getElem_map]

theorem index_map {α β} (g : α → β) (xs : List α) (i : Int) :
    PySlice.index (xs.map g) i = (PySlice.index xs i).map g := by
  unfold PySlice.index
  simp only [List.length_map, List.getElem?_map]
  split
  · rfl
  split
  · rfl
  · rfl

theorem sliceIdx_rev (n : Nat) :
    PySlice.sliceIdx n none none (-1) = (List.range n).map fun (i : Nat) => (n : Int) - 1 + (i : Int) * (-1) := by
  unfold PySlice.sliceIdx
  rw [indices_neg _ _ _ _ (by omega)]
  simp only []
  apply rangeList_eq_of
  · unfold PySlice.rangeLen
    simp only [show ¬ ((-1 : Int) > 0) by omega, if_false, show ((-1 : Int) < 0) by omega, if_true]
    split
    · have : ((n : Int) - 1 - -1 - 1) / (- -1) + 1 = n := by
        rw [show (- -1 : Int) = 1 by omega, Int.ediv_one]; omega
      rw [this, Int.toNat_natCast]
    · omega
  · intro _; exact ⟨rfl, rfl⟩

theorem slice_rev {α} [Inhabited α] (xs : List α) : PySlice.slice xs none none (-1) = xs.reverse := by
  unfold PySlice.slice
  rw [sliceIdx_rev, List.map_map]
  apply List.ext_getElem
  · simp
  · intro i h1 h2
    simp only [List.length_map, List.length_range] at h1
    simp only [List.getElem_map, List.getElem_range, Function.comp, List.getElem_reverse]
    have e : ((xs.length : Int) - 1 + (i : Int) * (-1)).toNat = xs.length - 1 - i := by omega
    rw [e, getElem!_def, List.getElem?_eq_getElem (by omega)]

end CogentModel.View
