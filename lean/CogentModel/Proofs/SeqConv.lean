import CogentModel.Model.SeqConv
import CogentModel.Proofs.SeqWrap
/-! Chains that also convert DNA <-> RNA read exactly as the plain-string chain. -/
namespace CogentModel.SeqConv
open CogentModel CogentModel.View CogentModel.SeqWrap

theorem len_full (n o N : Int) (hn : 0 ≤ n) :
    len { start := 0, stop := n, step := 1, offset := o, seqLen := N } = n := by
  apply len_eq_of_bounds_fwd _ n (by show (0:Int) < 1; omega) (by show (0:Int) ≤ n; exact hn)
  · show n - 0 ≤ n * 1; omega
  · show n * 1 < n - 0 + 1; omega

/-- a wrapper built from a plain string displays that string -/
theorem str_ofString (comp : Char → Char) (t : List Char) (b : Bool) :
    str comp (SeqWrap.ofString t b) = t := by
  have hv : value (SeqWrap.ofString t b) = t := by
    rw [value_eq_elems' _ (wf_ofString t b)]
    unfold elems
    have hl : len (SeqWrap.ofString t b).v = (t.length : Int) := len_full _ _ _ (by omega)
    rw [hl, Int.toNat_natCast, List.map_map]
    apply List.ext_getElem
    · simp
    · intro i h1 h2
      simp only [List.getElem_map, List.getElem_range, Function.comp]
      have hf : first (SeqWrap.ofString t b).v = 0 := rfl
      have hs : (SeqWrap.ofString t b).v.step = 1 := rfl
      have hp : (SeqWrap.ofString t b).parent = t := rfl
      rw [hf, hs, hp]
      have e : ((0 : Int) + (i : Int) * 1).toNat = i := by omega
      rw [e, getElem!_def, List.getElem?_eq_getElem h2]
  unfold str
  have : ¬ ((SeqWrap.ofString t b).v.step < 0 ∧ (SeqWrap.ofString t b).nucleic = true) := by
    intro h; have : (SeqWrap.ofString t b).v.step = 1 := rfl; omega
  rw [if_neg this, hv]

/-- well-formed nucleic sequence -/
def WFc (c : CSeq) : Prop := WF c.q ∧ c.q.nucleic = true

theorem wfc_ofString (t : List Char) (rna : Bool) : WFc (ofString t rna) :=
  ⟨wf_ofString t true, rfl⟩

theorem compOf_invol (cd cr : Char → Char) (hd : ∀ x, cd (cd x) = x) (hr : ∀ x, cr (cr x) = x)
    (rna : Bool) : ∀ x, compOf cd cr rna (compOf cd cr rna x) = x := by
  cases rna <;> simp [compOf, hd, hr]

theorem convert_spec (cd cr conv : Char → Char) (c : CSeq) (toRna : Bool) (h : WFc c) :
    WFc (convert cd cr conv c toRna) ∧ (convert cd cr conv c toRna).rna = toRna ∧
    cstr cd cr (convert cd cr conv c toRna) =
      (if c.rna = toRna then cstr cd cr c else (cstr cd cr c).map conv) := by
  unfold convert
  split
  · rename_i he; exact ⟨h, he, rfl⟩
  · refine ⟨⟨wf_ofString _ true, rfl⟩, rfl, ?_⟩
    unfold cstr
    exact str_ofString _ _ _

/-- an op is admissible: no zero slice step -/
def COp.ok : COp → Prop
  | .slice _ _ c => c ≠ some 0
  | _ => True

theorem relabel_ok (c c' : CSeq) (r : Except Err Seq) (h : relabel c r = .ok c') :
    ∃ q', r = .ok q' ∧ c' = { q := q', rna := c.rna } := by
  cases r with
  | error e => cases h
  | ok q' => exact ⟨q', rfl, (Except.ok.inj h).symm⟩

theorem relabel_err (c : CSeq) (e : Err) (r : Except Err Seq) (h : relabel c r = .error e) :
    r = .error e := by
  cases r with
  | error e' => rw [Except.error.inj h]
  | ok q' => cases h

theorem step1_spec (cd cr toR toD : Char → Char) (hd : ∀ x, cd (cd x) = x) (hr : ∀ x, cr (cr x) = x)
    (c : CSeq) (op : COp) (h : WFc c) (hop : op.ok) :
    (∀ c', step1 cd cr toR toD c op = .ok c' →
      specStep cd cr toR toD (c.rna, cstr cd cr c) op = some (c'.rna, cstr cd cr c') ∧ WFc c') ∧
    (∀ e, step1 cd cr toR toD c op = .error e →
      specStep cd cr toR toD (c.rna, cstr cd cr c) op = none) := by
  have hinv := compOf_invol cd cr hd hr c.rna
  have base : ∀ sop : SOp, SOp.ok c.q.nucleic sop →
      (∀ q', SeqWrap.step1 c.q sop = .ok q' →
        SeqWrap.specStep (compOf cd cr c.rna) true (cstr cd cr c) sop = some (str (compOf cd cr c.rna) q') ∧
        WFc { q := q', rna := c.rna }) ∧
      (∀ e, SeqWrap.step1 c.q sop = .error e →
        SeqWrap.specStep (compOf cd cr c.rna) true (cstr cd cr c) sop = none) := by
    intro sop hsop
    obtain ⟨a, b⟩ := SeqWrap.step1_spec (compOf cd cr c.rna) hinv c.q sop h.1 hsop
    rw [h.2] at a b
    constructor
    · intro q' hq
      obtain ⟨x, y, z⟩ := a q' hq
      exact ⟨x, y, z⟩
    · exact b
  cases op with
  | slice a b s =>
    obtain ⟨ok, er⟩ := base (.slice a b s) hop
    constructor
    · intro c' hc
      obtain ⟨q', hq, rfl⟩ := relabel_ok c c' _ hc
      obtain ⟨x, y⟩ := ok q' hq
      simp only [SeqWrap.specStep, Option.some.injEq] at x
      exact ⟨by simp only [specStep, x]; rfl, y⟩
    · intro e he
      have := er e (relabel_err c e _ he)
      simp [SeqWrap.specStep] at this
  | index i =>
    obtain ⟨ok, er⟩ := base (.index i) trivial
    constructor
    · intro c' hc
      obtain ⟨q', hq, rfl⟩ := relabel_ok c c' _ hc
      obtain ⟨x, y⟩ := ok q' hq
      refine ⟨?_, y⟩
      simp only [SeqWrap.specStep] at x
      simp only [specStep]
      cases hidx : PySlice.index (cstr cd cr c) i with
      | none => rw [hidx] at x; simp at x
      | some ch =>
        rw [hidx] at x
        simp only [Option.map_some, Option.some.injEq] at x ⊢
        rw [x]; rfl
    · intro e he
      have := er e (relabel_err c e _ he)
      simp only [SeqWrap.specStep, Option.map_eq_none_iff] at this
      simp only [specStep, this, Option.map_none]
  | rc =>
    obtain ⟨ok, er⟩ := base .rc (by show c.q.nucleic = true; exact h.2)
    constructor
    · intro c' hc
      obtain ⟨q', hq, rfl⟩ := relabel_ok c c' _ hc
      obtain ⟨x, y⟩ := ok q' hq
      simp only [SeqWrap.specStep, Option.some.injEq] at x
      exact ⟨by simp only [specStep, x]; rfl, y⟩
    · intro e he
      have := er e (relabel_err c e _ he)
      simp [SeqWrap.specStep] at this
  | toRna =>
    constructor
    · intro c' hc
      have hc' := (Except.ok.inj hc).symm
      obtain ⟨w, r, s⟩ := convert_spec cd cr toR c true h
      rw [hc']
      refine ⟨?_, w⟩
      simp only [specStep, Option.some.injEq]
      rw [r, s]
      by_cases hq : c.rna = true <;> simp [hq]
    · intro e he; cases he
  | toDna =>
    constructor
    · intro c' hc
      have hc' := (Except.ok.inj hc).symm
      obtain ⟨w, r, s⟩ := convert_spec cd cr toD c false h
      rw [hc']
      refine ⟨?_, w⟩
      simp only [specStep, Option.some.injEq]
      rw [r, s]
      by_cases hq : c.rna = false <;> simp [hq]
    · intro e he; cases he

theorem runOps_spec (cd cr toR toD : Char → Char) (hd : ∀ x, cd (cd x) = x) (hr : ∀ x, cr (cr x) = x)
    (ops : List COp) (c : CSeq) (h : WFc c) (hops : ∀ op ∈ ops, op.ok) :
    (∀ c', runOps cd cr toR toD c ops = .ok c' →
      specRun cd cr toR toD (c.rna, cstr cd cr c) ops = some (c'.rna, cstr cd cr c') ∧ WFc c') ∧
    (∀ e, runOps cd cr toR toD c ops = .error e →
      specRun cd cr toR toD (c.rna, cstr cd cr c) ops = none) := by
  induction ops generalizing c with
  | nil =>
    constructor
    · intro c' hw; simp only [runOps, Except.ok.injEq] at hw; subst hw; exact ⟨rfl, h⟩
    · intro e hw; simp [runOps] at hw
  | cons op ops ih =>
    obtain ⟨hok, herr⟩ := step1_spec cd cr toR toD hd hr c op h (hops op (by simp))
    unfold runOps specRun
    cases hs : step1 cd cr toR toD c op with
    | error e' =>
      constructor
      · intro c' hw; simp at hw
      · intro e _; rw [herr e' hs]; rfl
    | ok u =>
      obtain ⟨h1, hu⟩ := hok u hs
      rw [h1]
      simp only [Option.bind_some]
      exact ih u hu (fun o ho => hops o (by simp [ho]))

theorem cstr_length (cd cr : Char → Char) (c : CSeq) (h : WFc c) :
    ((cstr cd cr c).length : Int) = length c := by
  unfold cstr length SeqWrap.length
  rw [str_length _ _ h.1, Int.toNat_of_nonneg (len_nonneg _)]

end CogentModel.SeqConv
