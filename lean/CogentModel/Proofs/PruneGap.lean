import CogentModel.Model.PruneGap
import CogentModel.Proofs.PruneCompress
import CogentModel.Proofs.PruneFullLength
/-! Helper lemmas for `Model/PruneGap.lean` -/
namespace CogentModel.Prune

section
variable {κ S : Type} [DecidableEq κ]

theorem indexedGo_len : ∀ (vals : List κ) (st : Indexed κ), st.uniq.length = st.counts.length →
    (indexedGo vals st).uniq.length = (indexedGo vals st).counts.length
  | [], st, h => by simpa [indexedGo] using h
  | key :: rest, st, h => by
    rw [indexedGo]
    exact indexedGo_len rest _ (indexedStep_inv (fun _ => (0 : Nat)) st key h).1

theorem indexed_len (vals : List κ) : (indexed vals).uniq.length = (indexed vals).counts.length :=
  indexedGo_len vals _ rfl

omit [DecidableEq κ] in
theorem wls_append_zero [AddCommMonoid S] (g : κ → S) : ∀ (u : List κ) (c : List Nat) (k : κ), u.length = c.length →
    weightedLogSum g (u ++ [k]) (c ++ [0]) = weightedLogSum g u c
  | [], [], k, _ => by simp [weightedLogSum, nsmulR]
  | [], _ :: _, _, h => by simp at h
  | _ :: _, [], _, h => by simp at h
  | x :: us, y :: cs, k, h => by
    simp only [List.cons_append, weightedLogSum]
    rw [wls_append_zero g us cs k (by simpa using h)]

theorem indexed_index_lt (vals : List κ) : ∀ i ∈ (indexed vals).index, i < (indexed vals).uniq.length := by
  have h := indexedGo_indexInv (fun _ : κ => (0 : Nat)) vals { uniq := [], counts := [], index := [] } [] ⟨by simp, by simp⟩
  exact h.1

end
end CogentModel.Prune
