/-
  C05 — lemmas tying the TRANSLATED decision logic (`Gen/C05Inst.lean`) to the hand model
  (`Model/RateMatrix.lean` isInstWord / isAnyIndel / isInstCodon, `Model/C05GenPrelude.lean` backendFor / runBackend).
  No Mathlib needed.
-/
import CogentModel.Gen.C05Inst
import CogentModel.Model.RateMatrix
namespace CogentModel.C05GenProofs
open CogentModel.C05Gen CogentModel.Gen.C05Inst CogentModel.RateMatrix
set_option linter.unusedSimpArgs false

theorem beq_dec {α : Type} [DecidableEq α] [BEq α] [LawfulBEq α] (a b : α) : (a == b) = decide (a = b) := by
  by_cases h : a = b <;> simp [h]

theorem countZip_ne (x y : List Nat) : countZip (fun X Y => X != Y) x y = nDiffs x y := by
  induction x generalizing y with
  | nil => simp [countZip, nDiffs]
  | cons a xs ih => cases y with
    | nil => simp [countZip, nDiffs]
    | cons b ys => simp [countZip, nDiffs, ih]

/-- state correspondence -/
theorem loop_eq (g : Nat) (li : Bool) (gm : List Nat) (x : List Nat) :
    ∀ (y : List Nat) (i : Nat) (gs ge gst : Option Nat) (strand : Nat),
    (∀ k, k < x.length → charAt gm (i + k) = g) →
    (gs.isSome → gst = some strand) → strand < 2 →
    isAnyIndelLoop li gm i x y gs ge gst = anyIndelLoop g x y gs.isSome ge.isSome strand := by
  induction x with
  | nil => intro y i gs ge gst strand _ _ _; simp [isAnyIndelLoop, anyIndelLoop]
  | cons a xs ih =>
    intro y i gs ge gst strand hg hs hlt
    cases y with
    | nil => simp [isAnyIndelLoop, anyIndelLoop]
    | cons b ys =>
      have hG : charAt gm i = g := by simpa using hg 0 (by simp)
      have hg' : ∀ k, k < xs.length → charAt gm (i + 1 + k) = g := by
        intro k hk
        have := hg (k + 1) (by simp; omega)
        rwa [show i + (k + 1) = i + 1 + k by omega] at this
      simp only [isAnyIndelLoop, anyIndelLoop, hG]
      by_cases hab : a = b
      · subst hab
        cases gs with
        | none => simpa using ih ys (i+1) none ge gst strand hg' (by simp) hlt
        | some s => simpa using ih ys (i+1) (some s) (some i) gst strand hg' hs hlt
      · by_cases hag : a = g <;> by_cases hbg : b = g
        · exact absurd (hag.trans hbg.symm) hab
        · -- a = g, b ≠ g : strand 0
          subst hag
          cases gs with
          | none =>
            have := ih ys (i+1) (some i) ge (some 0) 0 hg' (by simp) (by omega)
            simpa [index2, hab, hbg] using this
          | some s =>
            have hst : gst = some strand := hs (by simp)
            subst hst
            cases ge with
            | some e => simp [hab, hbg]
            | none =>
              have := ih ys (i+1) (some s) none (some strand) strand hg' (by simp) hlt
              simp [index2, hab, hbg, this]
        · -- a ≠ g, b = g : strand 1
          subst hbg
          cases gs with
          | none =>
            have := ih ys (i+1) (some i) ge (some 1) 1 hg' (by simp) (by omega)
            simpa [index2, hab, hag] using this
          | some s =>
            have hst : gst = some strand := hs (by simp)
            subst hst
            cases ge with
            | some e => simp [hab, hag]
            | none =>
              have := ih ys (i+1) (some s) none (some strand) strand hg' (by simp) hlt
              simp [index2, hab, hag, this]
        · simp [hab, hag, hbg]

theorem anyIndel_eq (g : Nat) (li : Bool) (gm x y : List Nat) (hg : ∀ k, k < x.length → charAt gm k = g) :
    CogentModel.Gen.C05Inst.isAnyIndel li gm x y = CogentModel.RateMatrix.isAnyIndel g x y := by
  unfold CogentModel.Gen.C05Inst.isAnyIndel CogentModel.RateMatrix.isAnyIndel
  by_cases h : x = y
  · simp [h]
  · have := loop_eq g li gm x y 0 none none none 0 (by simpa using hg) (by simp) (by omega)
    simp [h, this]

theorem inst_eq (g : Nat) (gm x y : List Nat) (hg : ∀ k, k < x.length → charAt gm k = g) :
    isInstantaneous longIndels gm x y = isInstWord g x y := by
  unfold isInstantaneous isInstWord
  have h := anyIndel_eq g true gm x y hg
  simp [countZip_ne, longIndels, h, beq_dec]

theorem codon_eq (g : Nat) (li : Bool) (x y : List Nat) :
    codonIsInstantaneous li (List.replicate x.length g) x y = isInstCodon g x y := by
  unfold codonIsInstantaneous isInstCodon
  simp only [countZip_ne]
  have hm : x.map (fun _ => g) = List.replicate x.length g := List.map_const' ..
  rw [hm]
  generalize List.replicate x.length g = gm
  by_cases h1 : x = gm <;> by_cases h2 : y = gm <;> simp [h1, h2, beq_dec, bne]

theorem expSelect_eq (s : String) : expSelect s = backendFor s := by
  unfold expSelect backendFor backendTable expTable
  simp only [List.lookup]
  by_cases h1 : s = "eigen"
  · subst h1; decide
  by_cases h2 : s = "checked"
  · subst h2; decide
  by_cases h3 : s = "pade"
  · subst h3; decide
  by_cases h4 : s = "either"
  · subst h4; decide
  have e1 : (s == "eigen") = false := by simpa using h1
  have e2 : (s == "checked") = false := by simpa using h2
  have e3 : (s == "pade") = false := by simpa using h3
  have e4 : (s == "either") = false := by simpa using h4
  simp [e1, e2, e3, e4]

theorem eigenPadeCall_eq {E : Type} (fast checked : Except ErrKind E) (pade : E) (e : Backend) :
    eigenPadeCall (runBackend fast checked pade e) (runBackend fast checked pade eigenPadeFallback)
      = runBackend fast checked pade (.eigenPade e) := by
  simp only [eigenPadeCall, tryExcept, eigenPadeCaught, eigenPadeFallback, runBackend]
  cases runBackend fast checked pade e with
  | ok r => rfl
  | error k => cases k <;> simp

end CogentModel.C05GenProofs
