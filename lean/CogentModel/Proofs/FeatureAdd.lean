import CogentModel.Proofs.FeatureOnView
import CogentModel.Proofs.GffBlocksAB
import CogentModel.Model.FeatureAdd
/-! C04: add_feature on a view (round trip with get_features); lost spans of a single span add up. -/
namespace CogentModel.FeatureView
theorem single_span_map (L s e : Int) (minus : Bool) (hL : 0 < L) (hse : s < e) (hi : max s 0 < min e L) :
    makeFeature L false minus [(s, e)] =
      .ok { spans := (if s < 0 then [MSpan.lost (-s)] else []) ++ [MSpan.span (max s 0) (min e L)] ++
                     (if e > L then [MSpan.lost (e - L)] else []),
            reversed := minus } := by
  obtain ⟨c, hc⟩ : ∃ c, clipSpan L (s, e) = some c := by
    cases h : clipSpan L (s, e) with
    | none => exact absurd hi (clip_none L s e (by omega) h)
    | some c => exact ⟨c, rfl⟩
  obtain ⟨h0, h1, h2, h3, h4, _⟩ := clip_some L s e hL (by omega) c hc
  have hc2 : c.2 = min e L := by
    unfold clipSpan at hc
    simp only [] at hc
    rw [show min s e = s by omega, show max s e = e by omega] at hc
    obtain ⟨c1, c2⟩ := c
    (repeat' split at hc) <;> simp only [Option.some.injEq, reduceCtorEq, Prod.mk.injEq] at hc <;> simp only [] <;> omega
  obtain ⟨c1, c2⟩ := c
  simp only [] at h3 hc2
  subst h3 hc2
  have hloc : locate L (max s 0, min e L) = .ok [MSpan.span (max s 0) (min e L)] := by
    unfold locate
    have n1 : ¬ ((max s 0, min e L).1 > (max s 0, min e L).2 ∨ min (max s 0, min e L).1 (max s 0, min e L).2 < 0) := by simp only []; omega
    have n2 : ¬ ((max s 0, min e L).1 > L) := by simp only []; omega
    have n3 : ¬ ((max s 0, min e L).2 > L) := by simp only []; omega
    simp only [n1, n2, n3, if_false]
  unfold makeFeature spansFromLocations
  simp only [List.filterMap_cons, List.filterMap_nil, hc, firstLastOk, List.head?_cons, List.getLast?_singleton,
    mapExcept, hloc, List.flatten_cons, List.flatten_nil, List.append_nil, minOfSpans, maxOfSpans]
  have f1 : ¬ (max s 0 > min e L) := by omega
  simp only [f1, decide_false, Bool.not_false, Bool.not_true, Bool.false_eq_true, if_false]
  have m1 : min s e = s := by omega
  have m2 : max s e = e := by omega
  simp only [m1, m2]
  have r0 : (minus != false) = minus := by cases minus <;> rfl
  rw [r0]
  by_cases hs : s < 0 <;> by_cases he : e > L
  · have a : -s ≠ 0 := by omega
    have b : e - L ≠ 0 := by omega
    simp only [hs, he, if_true, a, b, ne_eq, not_false_eq_true, or_self]
  · have a : -s ≠ 0 := by omega
    simp only [hs, he, if_true, if_false, a, ne_eq, not_false_eq_true, not_true_eq_false, or_false, List.append_nil]
  · have b : e - L ≠ 0 := by omega
    simp only [hs, he, if_true, if_false, b, ne_eq, not_false_eq_true, not_true_eq_false, false_or, List.nil_append]
  · simp only [hs, he, if_false, ne_eq, not_true_eq_false, or_self, List.nil_append, List.append_nil]
end CogentModel.FeatureView
namespace CogentModel.FeatureView
open CogentModel.View CogentModel.FeatureSpec CogentModel.AnnotDb

/-- spans given on a view: inside it, ascending and disjoint -/
def ViewSpans (L : Int) (spans : List (Int × Int)) : Prop :=
  (∀ sp ∈ spans, 0 ≤ sp.1 ∧ sp.1 < sp.2 ∧ sp.2 ≤ L) ∧ spans.Pairwise (fun a b => a.2 ≤ b.1)

theorem filterMap_clipped_id (L : Int) (l : List (Int × Int)) (h : ∀ sp ∈ l, 0 ≤ sp.1 ∧ sp.1 < sp.2 ∧ sp.2 ≤ L) :
    l.filterMap (clipped L) = l := by
  induction l with
  | nil => rfl
  | cons sp rest ih =>
    have := h sp List.mem_cons_self
    have hc : clipped L sp = some sp := by
      unfold clipped
      have : max sp.1 0 < min sp.2 L := by omega
      simp only [this, if_true, Option.some.injEq]
      apply Prod.ext <;> simp only [] <;> omega
    simp only [List.filterMap_cons, hc, ih (fun z hz => h z (List.mem_cons_of_mem _ hz))]

theorem sort_mirror (L : Int) (spans : List (Int × Int)) (h : ViewSpans L spans) :
    sortSpans (spans.map fun sp => (L - sp.2, L - sp.1)) = (spans.map fun sp => (L - sp.2, L - sp.1)).reverse := by
  apply sorted_perm_eq _ _ (sortSpans_sorted _)
  · unfold Sorted
    rw [List.pairwise_reverse, List.pairwise_map]
    have hp : spans.Pairwise (fun a b => a.2 ≤ b.1 ∧ a.1 < a.2 ∧ b.1 < b.2) := by
      have := List.Pairwise.and_mem.mp h.2
      exact this.imp (fun ⟨ha, hb, hab⟩ => ⟨hab, (h.1 _ ha).2.1, (h.1 _ hb).2.1⟩)
    exact hp.imp (fun ⟨h1, h2, h3⟩ => by unfold PLe; simp only []; omega)
  · exact (sortSpans_perm _).trans (List.reverse_perm _).symm

/-- full form: additionally the Feature `add_feature` itself returns (`make_feature` on `rel_spans` with the db strand)
is the very feature a later `get_features` on the same view builds from the record -/
theorem added_feature_spec_full (v : View) (h : UnitView v) (hl : 0 < len v) (hoff : 0 ≤ v.offset) (minus : Bool)
    (spans : List (Int × Int)) (hs : ViewSpans (len v) spans) :
    ∃ db dm f, addFeatureRecord v spans minus = .ok (db, dm) ∧ featureOnView v dm db = .ok f ∧
      realSpans f.spans = spans ∧ f.reversed = minus ∧
      makeFeature (len v) (decide (v.step < 0)) dm (addRelSpans v spans) = .ok f := by
  have hlen := len_unit v h
  have hI := h.1
  obtain ⟨hn, hinv⟩ := hI
  rcases h.2 with hstep | hstep
  · -- forward view
    rw [hstep] at hinv hlen
    simp at hinv hlen
    have hps : parentStart v = .ok (segStart v) := by unfold parentStart segStart; simp [hstep]
    have e0 : ¬ (v.step < 0) := by omega
    refine ⟨spans.map (fun sp => (sp.1 + segStart v, sp.2 + segStart v)), minus, ?_⟩
    have hseg : segStart v = v.offset + v.start := by unfold segStart; simp [hstep]
    have hrel : mapExcept (relSpan v) (spans.map (fun sp => (sp.1 + segStart v, sp.2 + segStart v))) = .ok spans := by
      have := relSpans_eq v h hl (spans.map (fun sp => (sp.1 + segStart v, sp.2 + segStart v))) (by
        intro sp hm
        obtain ⟨x, hx, rfl⟩ := List.mem_map.mp hm
        have := hs.1 x hx
        simp only []; omega)
      rw [this, List.map_map]
      congr 1
      conv => rhs; rw [← List.map_id spans]
      apply List.map_congr_left
      intro sp _
      simp only [Function.comp, id]
      apply Prod.ext <;> simp only [] <;> omega
    obtain ⟨f, hf, hrev, hreal⟩ := makeFeature_spec (len v) (decide (v.step < 0)) minus spans hl
      (fun sp hx => by have := hs.1 sp hx; omega)
      (hs.2.imp_of_mem (fun {a b} ha hb hab => by have := hs.1 a ha; omega))
    have e1 : decide (v.step < 0) = false := decide_eq_false e0
    refine ⟨f, ?_, ?_, ?_, ?_, ?_⟩
    · unfold addFeatureRecord; rw [hps]; simp only [e0, if_false]
    · unfold featureOnView; rw [hrel]; exact hf
    · rw [hreal, e1]; simp only [Bool.false_eq_true, if_false]
      exact filterMap_clipped_id _ _ hs.1
    · rw [hrev, e1]; cases minus <;> rfl
    · unfold addRelSpans; rw [if_neg e0]; exact hf
  · -- reverse complemented view
    rw [hstep] at hinv hlen
    simp at hinv hlen
    have e0 : v.step < 0 := by omega
    have hps : parentStart v = .ok (segStart v) := by
      unfold parentStart segStart
      have : v.stop < 0 := by omega
      simp [hstep, this]; omega
    let mir : List (Int × Int) := (spans.map fun sp => (len v - sp.2, len v - sp.1)).reverse
    have hmirV : ∀ sp ∈ mir, 0 ≤ sp.1 ∧ sp.1 < sp.2 ∧ sp.2 ≤ len v := by
      intro sp hm
      obtain ⟨x, hx, rfl⟩ := List.mem_map.mp (List.mem_reverse.mp hm)
      have := hs.1 x hx
      simp only []; omega
    refine ⟨mir.map (fun sp => (sp.1 + segStart v, sp.2 + segStart v)), !minus, ?_⟩
    have hrel : mapExcept (relSpan v) (mir.map (fun sp => (sp.1 + segStart v, sp.2 + segStart v))) = .ok mir := by
      have hseg0 : 0 ≤ segStart v := by unfold segStart; simp [hstep]; omega
      have := relSpans_eq v h hl (mir.map (fun sp => (sp.1 + segStart v, sp.2 + segStart v))) (by
        intro sp hm
        obtain ⟨x, hx, rfl⟩ := List.mem_map.mp hm
        have := hmirV x hx
        simp only []; omega)
      rw [this, List.map_map]
      conv => rhs; rw [← List.map_id mir]
      congr 1
      apply List.map_congr_left
      intro sp _
      simp only [Function.comp, id]
      apply Prod.ext <;> simp only [] <;> omega
    have hsortedMir : mir.Pairwise (fun a b => a.1 ≤ b.1) := by
      simp only [mir]
      rw [List.pairwise_reverse, List.pairwise_map]
      exact hs.2.imp_of_mem (fun {a b} ha hb hab => by
        have := hs.1 a ha; have := hs.1 b hb; simp only []; omega)
    obtain ⟨f, hf, hrev, hreal⟩ := makeFeature_spec (len v) (decide (v.step < 0)) (!minus) mir hl
      (fun sp hx => by have := hmirV sp hx; omega) hsortedMir
    have e1 : decide (v.step < 0) = true := decide_eq_true e0
    refine ⟨f, ?_, ?_, ?_, ?_, ?_⟩
    · unfold addFeatureRecord; rw [hps]; simp only [e0, if_true]
      rw [sort_mirror (len v) spans hs]
    · unfold featureOnView; rw [hrel]; exact hf
    · rw [hreal, e1]; simp only [if_true]
      rw [filterMap_clipped_id _ _ hmirV]
      simp only [mir, List.map_reverse, List.reverse_reverse, List.map_map]
      conv => rhs; rw [← List.map_id spans]
      apply List.map_congr_left
      intro sp _
      simp only [Function.comp, id]
      apply Prod.ext <;> simp only [] <;> omega
    · rw [hrev, e1]; cases minus <;> rfl
    · unfold addRelSpans; rw [if_pos e0, sort_mirror (len v) spans hs]; exact hf

theorem added_feature_spec (v : View) (h : UnitView v) (hl : 0 < len v) (hoff : 0 ≤ v.offset) (minus : Bool)
    (spans : List (Int × Int)) (hs : ViewSpans (len v) spans) :
    ∃ db dm f, addFeatureRecord v spans minus = .ok (db, dm) ∧ featureOnView v dm db = .ok f ∧
      realSpans f.spans = spans ∧ f.reversed = minus := by
  obtain ⟨db, dm, f, h1, h2, h3, h4, _⟩ := added_feature_spec_full v h hl hoff minus spans hs
  exact ⟨db, dm, f, h1, h2, h3, h4⟩

/-- the whole of `add_feature` (Model/FeatureAdd.lean `addFeature`): record + returned feature -/
theorem addFeature_spec (v : View) (h : UnitView v) (hl : 0 < len v) (hoff : 0 ≤ v.offset) (minus : Bool)
    (spans : List (Int × Int)) (hs : ViewSpans (len v) spans) :
    ∃ db dm f, addFeature v spans minus = .ok ((db, dm), f) ∧ featureOnView v dm db = .ok f ∧
      realSpans f.spans = spans ∧ f.reversed = minus := by
  obtain ⟨db, dm, f, h1, h2, h3, h4, h5⟩ := added_feature_spec_full v h hl hoff minus spans hs
  refine ⟨db, dm, f, ?_, h2, h3, h4⟩
  unfold addFeature
  rw [h1]
  simp only [liftErr, h5]
end CogentModel.FeatureView
