import CogentModel.Model.PhyloNames
/-! C09: `TreeBuilder._unique_name` never hands out a name twice. -/
namespace CogentModel.Phylo

theorem usedGet_none_iff (u : Used) (k : String) : usedGet u k = none ↔ k ∉ usedKeys u := by
  induction u with
  | nil => simp [usedGet, usedKeys]
  | cons p u ih =>
    obtain ⟨k', v⟩ := p
    by_cases h : k' = k
    · simp [usedGet, usedKeys, h]
    · simp only [usedGet, h, if_false, ih, usedKeys, List.map_cons, List.mem_cons, not_or]
      constructor
      · intro hh; exact ⟨fun e => h e.symm, hh⟩
      · intro hh; exact hh.2

theorem usedKeys_set_mem (u : Used) (k : String) (v : Int) (h : k ∈ usedKeys u) :
    usedKeys (usedSet u k v) = usedKeys u := by
  induction u with
  | nil => simp [usedKeys] at h
  | cons p u ih =>
    obtain ⟨k', v'⟩ := p
    by_cases hk : k' = k
    · simp [usedSet, usedKeys, hk]
    · have : k ∈ usedKeys u := by
        simp only [usedKeys, List.map_cons, List.mem_cons] at h
        rcases h with h | h
        · exact absurd h.symm hk
        · exact h
      simp only [usedSet, hk, if_false, usedKeys, List.map_cons] at ih ⊢
      rw [ih this]

theorem usedKeys_set_not_mem (u : Used) (k : String) (v : Int) (h : k ∉ usedKeys u) :
    usedKeys (usedSet u k v) = usedKeys u ++ [k] := by
  induction u with
  | nil => simp [usedSet, usedKeys]
  | cons p u ih =>
    obtain ⟨k', v'⟩ := p
    simp only [usedKeys, List.map_cons, List.mem_cons, not_or] at h
    have hk : ¬ k' = k := fun e => h.1 e.symm
    simp only [usedSet, hk, if_false, usedKeys, List.map_cons, List.cons_append] at ih ⊢
    rw [ih h.2]

/-- keys at least as long as the candidate: the recursion of `_unique_name` strictly decreases it -/
def longKeys (u : Used) (name : String) : Nat :=
  ((usedKeys u).filter fun k => decide (name.length ≤ k.length)).length

theorem longKeys_le (u : Used) (name : String) : longKeys u name ≤ u.length := by
  unfold longKeys usedKeys
  exact Nat.le_trans (List.length_filter_le _ _) (by simp)

theorem longKeys_lt (ks : List String) (name name' : String) (hmem : name ∈ ks) (hlen : name.length < name'.length) :
    (ks.filter fun k => decide (name'.length ≤ k.length)).length <
      (ks.filter fun k => decide (name.length ≤ k.length)).length := by
  induction ks with
  | nil => simp at hmem
  | cons k ks ih =>
    have hmono : (ks.filter fun k => decide (name'.length ≤ k.length)).length ≤
        (ks.filter fun k => decide (name.length ≤ k.length)).length := by
      clear ih hmem
      induction ks with
      | nil => simp
      | cons a ks ih2 =>
        simp only [List.filter_cons]
        by_cases h1 : name'.length ≤ a.length
        · have h2 : name.length ≤ a.length := by omega
          simp [h1, h2, ih2]
        · by_cases h2 : name.length ≤ a.length
          · simp [h1, h2]; omega
          · simp [h1, h2, ih2]
    simp only [List.filter_cons]
    rcases List.mem_cons.1 hmem with rfl | hm
    · have h1 : ¬ name'.length ≤ name.length := by omega
      simp [h1]; omega
    · have := ih hm
      by_cases h1 : name'.length ≤ k.length
      · have h2 : name.length ≤ k.length := by omega
        simp [h1, h2, this]
      · by_cases h2 : name.length ≤ k.length
        · simp [h1, h2]; omega
        · simp [h1, h2, this]

theorem suffix_longer (name : String) (n : Int) : name.length < (name ++ "." ++ toString n).length := by
  have h1 : ".".length = 1 := by decide
  simp only [String.length_append, h1]
  omega

/-- the result of `_unique_name` is a name that was NOT in use, and it is in use afterwards -/
theorem uniqueNameFuel_fresh : ∀ (fuel : Nat) (u : Used) (name : String), longKeys u name < fuel →
    (uniqueNameFuel fuel u name).2 ∉ usedKeys u ∧
    (uniqueNameFuel fuel u name).2 ∈ usedKeys (uniqueNameFuel fuel u name).1 ∧
    ∀ k ∈ usedKeys u, k ∈ usedKeys (uniqueNameFuel fuel u name).1
  | 0, u, name, h => by omega
  | fuel + 1, u, name, h => by
    unfold uniqueNameFuel
    split
    next c hg =>
      have hm : name ∈ usedKeys u := by
        by_cases hh : name ∈ usedKeys u
        · exact hh
        · rw [(usedGet_none_iff u name).2 hh] at hg
          cases hg
      have hk := usedKeys_set_mem u name (c + 1) hm
      have hlt : longKeys (usedSet u name (c + 1)) (name ++ "." ++ toString (c + 1)) < fuel := by
        have := longKeys_lt (usedKeys u) name (name ++ "." ++ toString (c + 1)) hm (suffix_longer name (c + 1))
        unfold longKeys at h ⊢
        rw [hk]
        omega
      have ih := uniqueNameFuel_fresh fuel (usedSet u name (c + 1)) (name ++ "." ++ toString (c + 1)) hlt
      simp only [hk] at ih
      exact ih
    next hg =>
      have hn : name ∉ usedKeys u := (usedGet_none_iff u name).1 hg
      simp only [usedKeys_set_not_mem u name 1 hn]
      exact ⟨hn, by simp, fun k hk => by simp [hk]⟩

theorem uniqueName_fresh (u : Used) (l : Option String) :
    (uniqueName u l).2 ∉ usedKeys u ∧ (uniqueName u l).2 ∈ usedKeys (uniqueName u l).1 ∧
    ∀ k ∈ usedKeys u, k ∈ usedKeys (uniqueName u l).1 := by
  unfold uniqueName
  exact uniqueNameFuel_fresh _ _ _ (Nat.lt_succ_of_le (longKeys_le _ _))

theorem assignFrom_fresh : ∀ (ls : List (Option String)) (u : Used),
    (assignFrom u ls).Nodup ∧ ∀ x ∈ assignFrom u ls, x ∉ usedKeys u
  | [], u => by simp [assignFrom]
  | l :: ls, u => by
    obtain ⟨h1, h2, h3⟩ := uniqueName_fresh u l
    obtain ⟨ih1, ih2⟩ := assignFrom_fresh ls (uniqueName u l).1
    simp only [assignFrom, List.nodup_cons, List.mem_cons]
    refine ⟨⟨fun hmem => ih2 _ hmem h2, ih1⟩, ?_⟩
    rintro x (rfl | hx)
    · exact h1
    · exact fun hk => ih2 x hx (h3 x hk)

theorem assignNames_nodup (labels : List (Option String)) : (assignNames labels).Nodup :=
  (assignFrom_fresh labels _).1

/-- `make_tree`: pairwise distinct unless the late renaming of an unnamed root hits a node called "root" -/
theorem makeTreeNames_nodup (labels : List (Option String))
    (h : labels.getLast? = some none → "root" ∉ (assignNames labels).dropLast) :
    (makeTreeNames labels).Nodup := by
  unfold makeTreeNames
  by_cases hl : labels.getLast? = some none
  · simp only [hl, if_true]
    have hn := assignNames_nodup labels
    have hsub : (assignNames labels).dropLast.Sublist (assignNames labels) := List.dropLast_sublist _
    have hd := hn.sublist hsub
    rw [List.nodup_append]
    refine ⟨hd, by simp, ?_⟩
    intro a ha b hb
    simp only [List.mem_singleton] at hb
    subst hb
    intro e; subst e
    exact h hl ha
  · simp only [hl, if_false]
    exact assignNames_nodup labels

end CogentModel.Phylo
