import CogentModel.Proofs.AlnSliceSpec
namespace CogentModel.Aln
open CogentModel.IndelMap CogentModel.Gapped List CogentModel

/-- what an alignment of the annotatable class shows: name ↦ gapped string -/
def showA (a : AlnA) : AlnD := a.map fun p => (p.1, gapped p.2)
def ofStrings (d : AlnD) : AlnA := d.map fun p => (p.1, rowOfString p.2)

def AllWF (a : AlnA) : Prop := ∀ p ∈ a, RowWF p.2

theorem rowWF_ofString (s : List Char) : RowWF (rowOfString s) := by
  refine ⟨fromGapped_wf' _, ?_⟩
  simp only [rowOfString, fromGapped]
  congr 1
  induction s with
  | nil => rfl
  | cons c r ih => by_cases hc : isGap c = true <;> simp [hc, filter_cons, ih]

/-- total row functions -/
theorem mapRows_total (f : Row → Except Err Row) (g : List Char → List Char)
    (hf : ∀ r r', RowWF r → f r = .ok r' → RowWF r' ∧ gapped r' = g (gapped r)) :
    ∀ (a a' : AlnA), AllWF a → mapRows f a = .ok a' →
      AllWF a' ∧ showA a' = (showA a).map fun p => (p.1, g p.2) := by
  intro a
  induction a with
  | nil => intro a' _ h; simp only [mapRows] at h; cases h; exact ⟨by intro p hp; simp at hp, rfl⟩
  | cons x xs ih =>
    intro a' hwf h
    obtain ⟨n, r⟩ := x
    simp only [mapRows] at h
    cases hfr : f r with
    | error e => rw [hfr] at h; cases hm : mapRows f xs <;> rw [hm] at h <;> cases h
    | ok r' =>
      cases hm : mapRows f xs with
      | error e => rw [hfr, hm] at h; cases h
      | ok rest =>
        rw [hfr, hm] at h
        cases h
        obtain ⟨i1, i2⟩ := ih rest (fun p hp => hwf p (by simp [hp])) hm
        obtain ⟨j1, j2⟩ := hf r r' (hwf (n, r) (by simp)) hfr
        refine ⟨?_, ?_⟩
        · intro p hp
          rcases mem_cons.mp hp with rfl | hp'
          · exact j1
          · exact i1 p hp'
        · simp only [showA, map_cons] at i2 ⊢
          rw [j2, i2]

/-- partial row functions against partial string functions -/
theorem mapRows_partial (f : Row → Except Err Row) (g : List Char → Except Err (List Char))
    (hf : ∀ r r', RowWF r → f r = .ok r' → RowWF r' ∧ g (gapped r) = .ok (gapped r')) :
    ∀ (a a' : AlnA), AllWF a → mapRows f a = .ok a' →
      AllWF a' ∧ mapDense g (showA a) = .ok (showA a') := by
  intro a
  induction a with
  | nil => intro a' _ h; simp only [mapRows] at h; cases h; exact ⟨by intro p hp; simp at hp, rfl⟩
  | cons x xs ih =>
    intro a' hwf h
    obtain ⟨n, r⟩ := x
    simp only [mapRows] at h
    cases hfr : f r with
    | error e => rw [hfr] at h; cases hm : mapRows f xs <;> rw [hm] at h <;> cases h
    | ok r' =>
      cases hm : mapRows f xs with
      | error e => rw [hfr, hm] at h; cases h
      | ok rest =>
        rw [hfr, hm] at h
        cases h
        obtain ⟨i1, i2⟩ := ih rest (fun p hp => hwf p (by simp [hp])) hm
        obtain ⟨j1, j2⟩ := hf r r' (hwf (n, r) (by simp)) hfr
        refine ⟨?_, ?_⟩
        · intro p hp
          rcases mem_cons.mp hp with rfl | hp'
          · exact j1
          · exact i1 p hp'
        · simp only [showA, map_cons, mapDense] at i2 ⊢
          rw [j2, i2]

theorem slice_single {α} [Inhabited α] (xs : List α) (i : Int) (h0 : 0 ≤ i) (h1 : i < xs.length) :
    PySlice.slice xs (some i) (some (i + 1)) 1 = [xs[i.toNat]'(by omega)] ∧
    PySlice.index xs i = some (xs[i.toNat]'(by omega)) := by
  constructor
  · rw [slice_nonneg xs i (i + 1) h0 (by omega)]
    have a1 : (min i xs.length).toNat = i.toNat := by omega
    have a2 : (min (i + 1) xs.length - min i xs.length).toNat = 1 := by omega
    rw [a1, a2]
    apply ext_getElem
    · simp; omega
    · intro k hk1 hk2
      simp at hk2
      subst hk2
      simp
  · unfold PySlice.index
    simp only [h0, h1, and_self, if_true]
    exact getElem?_eq_getElem (by omega)

theorem index_of_conv {α} (xs : List α) (i n : Int) (hn : n = xs.length)
    (h : 0 ≤ conv n i ∧ conv n i < n) : PySlice.index xs i = PySlice.index xs (conv n i) := by
  subst hn
  by_cases h0 : 0 ≤ i
  · have hc : conv (xs.length : Int) i = i := by unfold conv; rw [if_pos h0]
    rw [hc]
  · have hc : conv (xs.length : Int) i = xs.length + i := by unfold conv; rw [if_neg h0]
    rw [hc] at h ⊢
    unfold PySlice.index
    have c1 : ¬ (0 ≤ i ∧ i < (xs.length : Int)) := by omega
    have c2 : (-(xs.length : Int) ≤ i ∧ i < 0) := by omega
    have c3 : (0 ≤ (xs.length : Int) + i ∧ (xs.length : Int) + i < xs.length) := by omega
    simp only [c1, c2, c3, if_false, if_true, and_self]
    congr 2; omega

/-- integer indexing of a row shows the character in that column (Python index semantics) -/
theorem rowInt_spec (r r' : Row) (h : RowWF r) (i : Int) (hr : rowInt r i = .ok r') :
    RowWF r' ∧ ∃ c, PySlice.index (gapped r) i = some c ∧ gapped r' = [c] := by
  have hgl : ((gapped r).length : Int) = len r.map := by
    rw [gapped_total r h, length_map]; exact len_eq' r.map h.1
  unfold rowInt at hr
  simp only [] at hr
  have hc : (if i < 0 then i + len r.map else i) = conv (len r.map) i := by
    unfold conv; split <;> split <;> omega
  rw [hc] at hr
  by_cases hin : 0 ≤ conv (len r.map) i ∧ conv (len r.map) i < len r.map
  · rw [if_pos hin] at hr
    obtain ⟨hw, hsl⟩ := rowSlice_spec r r' h _ _ hr
    refine ⟨hw, ?_⟩
    obtain ⟨s1, s2⟩ := slice_single (gapped r) (conv (len r.map) i) hin.1 (by rw [hgl]; exact hin.2)
    refine ⟨_, ?_, by rw [hsl, s1]⟩
    rw [index_of_conv (gapped r) i (len r.map) hgl.symm hin]
    exact s2
  · rw [if_neg hin] at hr; cases hr

end CogentModel.Aln
