import CogentModel.Model.AnnotDbX
import CogentModel.Spec.AnnotDbX
import CogentModel.Proofs.AnnotDb
/-! Helper lemmas for the extended C17 model (rows without location, `on_alignment`). -/
deriving instance DecidableEq for Except

namespace CogentModel.AnnotDb
open CogentModel.Gen.C17Sql CogentModel.Gen.C17Query CogentModel.AnnotDbSpec

/-- side condition of the interval clauses, per row: none unless both bounds come with `allow_partial` -/
def XWinHyp (q : Query) (r : XRec) : Prop :=
  (q.allowPartial = false ∨ q.start = none ∨ q.stop = none) ∨
    ((r.located = true → r.row.start < r.row.stop) ∧ WindowOk q)

theorem xWindow_spec (ok : ClausesOk) (q : Query) (r : XRec) (h : XWinHyp q r) :
    xWindow q r = xWindowMatch q r := by
  unfold xWindow xWindowMatch
  cases hl : r.located
  · unfold windowConds
    cases q.start <;> cases q.stop <;> simp
  · have hw : (windowConds q).all (fun c => c r.row) = windowMatch q r.row := by
      rcases h with h | ⟨h1, h2⟩
      · exact windowConds_spec_nonpartial ok q r.row h
      · exact windowConds_spec ok q r.row (h1 hl) h2
    rw [← hw]
    unfold windowConds
    cases q.start <;> cases q.stop <;> simp

theorem xCols_spec (q : Query) (r : Rec) : (columnConds q).all (fun c => c r) = xColsMatch q r := by
  unfold columnConds xColsMatch
  simp only [List.all_append, optCond_spec]

/-- rows of the gff / gb table: the table is asked without `on_alignment` -/
theorem xRow_main (ok : ClausesOk) (q : Query) (oa : Option Bool) (r : XRec) (hr : r.onAln = none)
    (hoa : oa ≠ some true) (h : XWinHyp q r) : xRowMatches q none r = xSpecMatch q oa r := by
  unfold xRowMatches xSpecMatch
  rw [xCols_spec, xWindow_spec ok q r h]
  have : oaMatch oa r = true := by
    unfold oaMatch isAlignmentFeature
    rcases oa with _ | _ | _ <;> simp_all
  simp [oaCond, this]

theorem xRow_main_aln (q : Query) (r : XRec) (hr : r.onAln = none) : xSpecMatch q (some true) r = false := by
  unfold xSpecMatch oaMatch isAlignmentFeature
  simp [hr]

/-- rows of the `user` table: `on_alignment = ?` with 0 / 1 stored -/
theorem xRow_user (ok : ClausesOk) (q : Query) (oa : Option Bool) (r : XRec) (hr : r.onAln.isSome = true)
    (h : XWinHyp q r) : xRowMatches q oa r = xSpecMatch q oa r := by
  unfold xRowMatches xSpecMatch
  rw [xCols_spec, xWindow_spec ok q r h]
  have : oaCond oa r = oaMatch oa r := by
    unfold oaCond oaMatch isAlignmentFeature
    obtain ⟨b, hb⟩ := Option.isSome_iff_exists.mp hr
    rcases oa with _ | _ | _ <;> cases b <;> simp [hb]
  rw [this, Bool.and_comm (xColsMatch q r.row)]

theorem filter_false_of {α} (p : α → Bool) (l : List α) (h : ∀ a ∈ l, p a = false) : l.filter p = [] := by
  induction l with
  | nil => rfl
  | cons a l ih =>
    simp only [List.filter_cons, h a (List.mem_cons_self ..), Bool.false_eq_true, if_false]
    exact ih fun b hb => h b (List.mem_cons_of_mem _ hb)

theorem hasSubL_pp (l : List Char) : hasSubL ['%', '%'] l = hasDoublePercent l := by
  induction l with
  | nil => rfl
  | cons c cs ih =>
    unfold hasSubL
    rw [ih]
    cases cs with
    | nil => simp [hasDoublePercent, List.isPrefixOf]
    | cons d ds =>
      by_cases h1 : c = '%' <;> by_cases h2 : d = '%' <;>
        simp [hasDoublePercent, List.isPrefixOf, h1, h2, eq_comm (a := '%')]

theorem gbAddRecords_length (seqid : String) (n : Nat) (fs : List GbFeature) :
    (gbAddRecords seqid n fs).1.length = fs.length := by
  induction fs generalizing n with
  | nil => rfl
  | cons f fs ih => simp only [gbAddRecords, List.length_cons, ih]

end CogentModel.AnnotDb
