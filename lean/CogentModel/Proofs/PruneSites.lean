import Mathlib.Algebra.BigOperators.Ring.Finset
import Mathlib.Algebra.BigOperators.Ring.List
import Mathlib.Algebra.BigOperators.Group.List.Basic
import Mathlib.Tactic.Ring
import Mathlib.Algebra.BigOperators.Group.Finset.Sigma
import CogentModel.Model.PruneSites
import CogentModel.Proofs.Prune
import CogentModel.Proofs.PruneCompress
/-!
Helper lemmas for the second part of C02: several loci, hidden Markov chain over site classes.
-/
namespace CogentModel.PruneSites
open CogentModel.Prune Finset

/-! ### loci -/

theorem sumDefn_eq {S : Type} [AddCommMonoid S] (xs : List S) : sumDefn xs = xs.sum := by
  unfold sumDefn
  have h : ∀ (ys : List S) (a : S), ys.foldl (· + ·) a = a + ys.sum := by
    intro ys
    induction ys with
    | nil => simp
    | cons y ys ih => intro a; simp [List.foldl_cons, ih, add_assoc]
  simpa using h xs 0

/-! ### the forward loop as a sum over paths -/

section semiring
variable {R : Type} [CommSemiring R]

theorem step_get (k : Nat) (M : Mat R) (sp : Vec R) (e : Nat → R) (j : Nat) :
    (step k M sp e).get j = (∑ i ∈ range k, sp.get i * M i j) * e j := by
  simp [step, sumOver_eq]

/-- the pre-fix loop body is the present one run with the transposed matrix -/
theorem stepOld_eq (k : Nat) (M : Mat R) (sp : Vec R) (e : Nat → R) :
    stepOld k M sp e = step k (transpose M) sp e := by
  unfold stepOld step transpose
  congr 1
  funext j
  congr 2
  funext i
  exact mul_comm _ _

theorem forwardOldGo_eq (k : Nat) (M : Mat R) :
    ∀ (es : List (Nat → R)) (sp : Vec R), forwardOldGo k M es sp = forwardGo k (transpose M) es sp
  | [], _ => rfl
  | e :: es, sp => by rw [forwardOldGo, forwardGo, stepOld_eq, forwardOldGo_eq k M es]

theorem forwardOld_eq (k : Nat) (M : Mat R) (init : Nat → R) (es : List (Nat → R)) :
    forwardOld k M init es = forward k (transpose M) init es := by
  unfold forwardOld forward
  rw [forwardOldGo_eq]

/-- sum over the paths of length `n+1`, split by the first state -/
theorem sum_paths_succ (k n : Nat) (f : List Nat → R) :
    ((paths k (n + 1)).map f).sum = ∑ z ∈ range k, ((paths k n).map fun zs => f (z :: zs)).sum := by
  simp only [paths]
  rw [sum_map_flatMap, list_range_sum]
  refine Finset.sum_congr rfl fun z _ => ?_
  rw [List.map_map]
  rfl

theorem forwardGo_sum (k : Nat) (M : Mat R) :
    ∀ (es : List (Nat → R)) (sp : Vec R),
      sumOver k (forwardGo k M es sp).get
        = ∑ p ∈ range k, sp.get p * ((paths k es.length).map (chainW M p es)).sum
  | [], sp => by simp [forwardGo, paths, chainW, sumOver_eq]
  | e :: es, sp => by
    rw [forwardGo, forwardGo_sum k M es]
    simp only [List.length_cons]
    have hr : ∀ p, ((paths k (es.length + 1)).map (chainW M p (e :: es))).sum
        = ∑ z ∈ range k, (M p z * e z) * ((paths k es.length).map (chainW M z es)).sum := by
      intro p
      rw [sum_paths_succ]
      refine Finset.sum_congr rfl fun z _ => ?_
      rw [← List.sum_map_mul_left]
      rfl
    simp only [hr, step_get, Finset.mul_sum, Finset.sum_mul]
    rw [Finset.sum_comm]
    refine Finset.sum_congr rfl fun p _ => Finset.sum_congr rfl fun z _ => ?_
    ring

/-- the loop of `log_dot_reduce`, for ANY matrix, initial vector and emissions: a sum over all paths with a
state `z_{-1}` in front of the first site, the matrix entered as `M[z_{t-1}, z_t]` -/
theorem forward_eq_pre (k : Nat) (M : Mat R) (init : Nat → R) (es : List (Nat → R)) :
    forward k M init es = bruteHmmPre k init M es := by
  rw [forward, forwardGo_sum, bruteHmmPre, sum_paths_succ]
  refine Finset.sum_congr rfl fun p _ => ?_
  rw [← List.sum_map_mul_left]
  rfl

/-- with a stationary initial distribution the extra state in front disappears -/
theorem pre_eq_brute (k : Nat) (π : Nat → R) (T : Mat R)
    (hst : ∀ z, z < k → ∑ p ∈ range k, π p * T p z = π z) (e : Nat → R) (es : List (Nat → R)) :
    bruteHmmPre k π T (e :: es) = bruteHmm k π T (e :: es) := by
  rw [bruteHmmPre, bruteHmm, sum_paths_succ]
  simp only [List.length_cons]
  rw [sum_paths_succ]
  have hl : ∀ p, ((paths k (es.length + 1)).map fun zs => pathWPre π T (e :: es) (p :: zs)).sum
      = ∑ z ∈ range k, π p * ((T p z * e z) * ((paths k es.length).map (chainW T z es)).sum) := by
    intro p
    rw [sum_paths_succ]
    refine Finset.sum_congr rfl fun z _ => ?_
    rw [← List.sum_map_mul_left, ← List.sum_map_mul_left]
    rfl
  simp only [hl]
  rw [Finset.sum_comm]
  refine Finset.sum_congr rfl fun z hz => ?_
  have hr : ((paths k es.length).map fun zs => pathW π T (e :: es) (z :: zs)).sum
      = (π z * e z) * ((paths k es.length).map (chainW T z es)).sum := by
    rw [← List.sum_map_mul_left]
    rfl
  have : (∑ p ∈ range k, π p * ((T p z * e z) * ((paths k es.length).map (chainW T z es)).sum))
      = (∑ p ∈ range k, π p * T p z) * (e z * ((paths k es.length).map (chainW T z es)).sum) := by
    rw [Finset.sum_mul]
    refine Finset.sum_congr rfl fun p _ => ?_
    ring
  rw [this, hst z (Finset.mem_range.mp hz), hr]
  ring

end semiring

/-! ### the switch matrix -/

section ring
variable {R : Type} [CommRing R]

theorem switchMatrix_eq (s : R) (p : Nat → R) (i j : Nat) :
    switchMatrix s p i j = p j * s + (if i = j then 1 - s else 0) := by
  unfold switchMatrix
  by_cases h : i = j <;> simp [h]; ring

theorem switchMatrix_rows (k : Nat) (s : R) (p : Nat → R) (hp : ∑ j ∈ range k, p j = 1) (i : Nat) (hi : i < k) :
    ∑ j ∈ range k, switchMatrix s p i j = 1 := by
  simp only [switchMatrix_eq, Finset.sum_add_distrib, ← Finset.sum_mul, hp]
  rw [Finset.sum_ite_eq (range k) i]
  simp [hi]

theorem switchMatrix_stationary (k : Nat) (s : R) (p : Nat → R) (hp : ∑ j ∈ range k, p j = 1) (j : Nat) (hj : j < k) :
    ∑ i ∈ range k, p i * switchMatrix s p i j = p j := by
  simp only [switchMatrix_eq, mul_add, Finset.sum_add_distrib, ← Finset.sum_mul, hp, mul_ite, mul_zero]
  rw [Finset.sum_ite_eq' (range k) j]
  simp [hj]
  ring

theorem switchMatrix_balance (s : R) (p : Nat → R) (i j : Nat) :
    p i * switchMatrix s p i j = p j * switchMatrix s p j i := by
  simp only [switchMatrix_eq]
  by_cases h : i = j
  · subst h; rfl
  · have h' : ¬ j = i := fun e => h e.symm
    simp [h, h']
    ring

theorem switchMatrix_symm (s : R) (p : Nat → R) (hu : ∀ i j, p i = p j) (i j : Nat) :
    switchMatrix s p i j = switchMatrix s p j i := by
  simp only [switchMatrix_eq, hu i j]
  by_cases h : i = j
  · subst h; rfl
  · have h' : ¬ j = i := fun e => h e.symm
    simp [h, h']

end ring

/-! ### a matrix that is symmetric on the states `< k` can be used in either orientation -/

theorem paths_lt (k : Nat) : ∀ (n : Nat) (zs : List Nat), zs ∈ paths k n → ∀ z ∈ zs, z < k
  | 0, zs, h => by simp [paths] at h; subst h; simp
  | n + 1, zs, h => by
    simp only [paths, List.mem_flatMap, List.mem_range, List.mem_map] at h
    obtain ⟨z, hz, zs', hzs', rfl⟩ := h
    intro y hy
    rcases List.mem_cons.mp hy with rfl | hy
    · exact hz
    · exact paths_lt k n zs' hzs' y hy

theorem chainW_congr {R : Type} [Mul R] [One R] (k : Nat) (T T' : Mat R)
    (h : ∀ i j, i < k → j < k → T i j = T' i j) :
    ∀ (es : List (Nat → R)) (zs : List Nat) (prev : Nat), prev < k → (∀ z ∈ zs, z < k) →
      chainW T prev es zs = chainW T' prev es zs
  | [], _, _, _, _ => by simp [chainW]
  | _ :: _, [], _, _, _ => by simp [chainW]
  | e :: es, z :: zs, prev, hp, hz => by
    have hzk : z < k := hz z (by simp)
    simp only [chainW]
    rw [h prev z hp hzk, chainW_congr k T T' h es zs z hzk (fun y hy => hz y (by simp [hy]))]

theorem bruteHmmPre_congr {R : Type} [CommSemiring R] (k : Nat) (init : Nat → R) (T T' : Mat R)
    (h : ∀ i j, i < k → j < k → T i j = T' i j) (es : List (Nat → R)) :
    bruteHmmPre k init T es = bruteHmmPre k init T' es := by
  unfold bruteHmmPre
  congr 1
  refine List.map_congr_left fun zs hzs => ?_
  have hlt := paths_lt k _ zs hzs
  cases zs with
  | nil => rfl
  | cons p zs =>
    simp only [pathWPre]
    rw [chainW_congr k T T' h es zs p (hlt p (by simp)) (fun y hy => hlt y (by simp [hy]))]

end CogentModel.PruneSites
