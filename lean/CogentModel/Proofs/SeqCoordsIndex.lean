import CogentModel.Proofs.SeqCoords
import CogentModel.Proofs.ViewIndexFull
/-! `parent_coordinates()` / `annotation_offset` of `seq[i]` after any chain (string level, with seqid and offset). -/
namespace CogentModel.SeqCoords
open CogentModel CogentModel.View CogentModel.SeqWrap

/-- **`parent_coordinates()` of `seq[i]` after any chain** of slices / indexing / rc from
`make_seq(t, name=sid, annotation_offset=o)`: whenever the displayed string has an `i`-th character `ch`
(python indexing, negative from the end), `seq[i]` succeeds, displays `[ch]`, and reports
`(sid, o + x, o + x + 1, strand of seq)` for a parent position `x` with `0 ≤ x < len(t)` at which the parent
holds `ch` (complemented iff `seq` is a reversed nucleic acid); `annotation_offset` of the result is `o + x`.
Otherwise `seq[i]` raises `IndexError`. -/
theorem parent_coordinates_index' (comp : Char → Char) (hcomp : ∀ x, comp (comp x) = x)
    (t : List Char) (nucleic : Bool) (o : Int) (sid : Option String) (ops : List SOp) (s' : ASeq) (i : Int)
    (hops : ∀ op ∈ ops, SOp.ok nucleic op) (hs : runOps (ofString t nucleic o sid) ops = .ok s') :
    (∀ ch, PySlice.index (str comp s'.q) i = some ch →
      ∃ s'' x, step1 s' (.index i) = .ok s'' ∧ str comp s''.q = [ch] ∧
        parentCoordinates s'' = .ok (sid, o + x, o + x + 1, if s'.q.v.step < 0 then -1 else 1) ∧
        annotationOffset s'' = .ok (o + x) ∧ 0 ≤ x ∧ x < t.length ∧
        ch = (if s'.q.v.step < 0 ∧ nucleic then comp (t[x.toNat]!) else t[x.toNat]!)) ∧
    (PySlice.index (str comp s'.q) i = none → step1 s' (.index i) = .error .indexError) := by
  obtain ⟨hwf, hn, hk, _⟩ := runOps_keep comp hcomp t o sid ops (ofString t nucleic o sid) s'
    (wf_ofString t nucleic o sid) hops hs
  have hn' : s'.q.nucleic = nucleic := hn
  obtain ⟨f1, f2⟩ := str_getitemI_full comp s'.q i hwf
  constructor
  · intro ch hch
    have hne : str comp s'.q ≠ [] := by
      intro he; rw [he] at hch; simp [PySlice.index] at hch
    obtain ⟨k1, k2, k3⟩ : Keep t o sid s' := by
      rcases hk ⟨rfl, rfl, rfl⟩ with x | x
      · exact x
      · exact absurd x hne
    obtain ⟨q', x, hg, hwf', hstr', _, hpar, hnuc, hsg, hps, hpe, x0, x1, hce⟩ := f1 ch hch
    have hsl : q'.v.seqLen = s'.q.v.seqLen := by rw [hwf'.2, hwf.2, hpar]
    refine ⟨{ q := q', seqid := if q'.v.seqLen = s'.q.v.seqLen then s'.seqid else none }, x, ?_, hstr', ?_, ?_,
      x0, by rw [← k2]; exact x1, by rw [← k2, ← hn']; exact hce⟩
    · show rewrap s' (getitemI s'.q i) = _
      rw [hg]; rfl
    · unfold parentCoordinates
      simp only []
      rw [hps, hpe, if_pos hsl, k1, k3]
      by_cases hv : s'.q.v.step < 0
      · rw [if_pos hv, if_pos (hsg.2 hv)]
      · rw [if_neg hv, if_neg (fun hh => hv (hsg.1 hh))]
    · unfold annotationOffset
      simp only []
      rw [hps, k1]
  · intro hnone
    show rewrap s' (getitemI s'.q i) = _
    rw [f2 hnone]; rfl

end CogentModel.SeqCoords
