import CogentModel.Proofs.IndelMapAdd2
namespace CogentModel.IndelMap
open CogentModel.Gapped List CogentModel

theorem toNat_mul_nat (x : Int) (n : Nat) : (x * (n : Int)).toNat = x.toNat * n := by
  rcases Int.lt_or_le x 0 with h | h
  · have h1 : x * (n : Int) ≤ 0 := Int.mul_nonpos_of_nonpos_of_nonneg (by omega) (by omega)
    have h2 : x.toNat = 0 := by omega
    rw [h2]; omega
  · obtain ⟨m, rfl⟩ := Int.eq_ofNat_of_zero_le h
    rw [← Int.natCast_mul, Int.toNat_natCast, Int.toNat_natCast]

theorem flatMap_replicate {α} (n k : Nat) (b : α) :
    (replicate n b).flatMap (fun x => replicate k x) = replicate (n * k) b := by
  induction n with
  | zero => simp
  | succ n ih => rw [replicate_succ, flatMap_cons, ih, replicate_append_replicate]; congr 1; rw [Nat.succ_mul]; omega

theorem diffsFrom_scale (cum : List Int) (k : Int) : ∀ pc,
    diffsFrom (pc * k) (cum.map (· * k)) = (diffsFrom pc cum).map (· * k) := by
  induction cum with
  | nil => intro _; rfl
  | cons c cs ih => intro pc; simp only [map_cons, diffsFrom, ih, Int.sub_mul]

theorem patG_scale (k : Nat) (G : List (Int × Int)) : ∀ (next pl : Int),
    patG (next * k) (G.map fun g => (g.1 * k, g.2 * k)) (pl * k) =
      (patG next G pl).flatMap (fun x => replicate k x) := by
  induction G with
  | nil => intro next pl; simp only [map_nil, patG, ← Int.sub_mul, toNat_mul_nat, flatMap_replicate]
  | cons g r ih =>
    intro next pl
    obtain ⟨p, l⟩ := g
    simp only [map_cons, patG, flatMap_append, ih, ← Int.sub_mul, toNat_mul_nat, flatMap_replicate]

/-- **`IndelMap.__mul__`** (amino-acid → codon coordinates): the map of the string with every
column repeated `k` times -/
theorem mul_spec' (m : IMap) (h : WF m) (k : Nat) (hk : 0 < k) :
    ∃ r, mul m k = .ok r ∧ WF r ∧ abs r = Gapped.scaled (abs m) k := by
  have hkz : (0 : Int) < k := by omega
  have hmono : ∀ a b : Int, a < b → a * k < b * k := fun a b hab => Int.mul_lt_mul_of_pos_right hab hkz
  have hwf : WF ⟨m.gapPos.map (· * k), m.cumLens.map (· * k), m.parentLength * k⟩ := by
    refine ⟨Int.mul_nonneg h.pl_nonneg (by omega), by simp [h.len_eq], h.pos_sorted.map _ hmono, ?_, ?_⟩
    · have := h.cum_sorted.map (· * (k : Int)) hmono
      simpa using this
    · intro q hq
      obtain ⟨p, hp, rfl⟩ := mem_map.mp hq
      have := h.pos_range p hp
      exact ⟨Int.mul_nonneg this.1 (by omega), Int.mul_le_mul_of_nonneg_right this.2 (by omega)⟩
  refine ⟨_, ?_, hwf, ?_⟩
  · unfold mul mk
    rw [if_neg (by simp [h.len_eq]), if_neg]
    intro ⟨hne, hgt⟩
    have h3 : lastD (m.gapPos.map (· * (k : Int))) ≤ m.parentLength * k := (hwf.pos_range _ (lastD_mem _ hne)).2
    omega
  · rw [abs_eq_ofPattern _ hwf]
    unfold Gapped.scaled
    congr 1
    rw [pattern_abs_G, pattern_abs_G m]
    have h1 := diffsFrom_scale m.cumLens k 0
    simp only [Int.zero_mul] at h1
    have h2 := patG_scale k (zip m.gapPos (diffsFrom 0 m.cumLens)) 0 m.parentLength
    simp only [Int.zero_mul] at h2
    rw [← h2]
    simp only [h1]
    congr 1
    rw [zip_map]; rfl

end CogentModel.IndelMap
