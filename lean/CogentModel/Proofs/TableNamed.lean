/-  C20 — lemmas about the NAMED layer of the table model (what the driver runs): name resolution, the
    index-column-first order of sub-tables, filtered/count/row_indices, distinct_values, with_new_column,
    inner_join (header, rows, index_name), natural join keys, appended with the title column, column
    selection, and sorted (key record = keyT of the requested transforms; order of the result). -/
import CogentModel.Proofs.TableOpsLemmas
namespace CogentModel.TableOps
variable {α : Type}

/-! ### name resolution (`Columns._get_keys_`) -/

theorem idxOf_ok (t : Table) (n : String) (i : Nat) (h : t.idxOf n = .ok i) :
    i < t.header.length ∧ t.name i = n := by
  unfold Table.idxOf at h
  cases e : t.header.idxOf? n with
  | none => simp [e] at h
  | some j =>
    simp only [e, Except.ok.injEq] at h
    subst h
    obtain ⟨hj, hv, _⟩ := List.idxOf?_eq_some_iff.1 e
    exact ⟨hj, by simp [Table.name, List.getD_eq_getElem?_getD, hj, hv]⟩

/-- resolving a list of column names succeeds iff every name is a column; the positions name the columns -/
theorem idxsOf_ok (t : Table) (names : List String) (sel : List Nat) (h : t.idxsOf names = .ok sel) :
    sel.map t.name = names ∧ (∀ j ∈ sel, j < t.header.length) ∧ sel.length = names.length := by
  unfold Table.idxsOf at h
  induction names generalizing sel with
  | nil => simp [List.mapM_nil, pure, Except.pure] at h; subst h; simp
  | cons n ns ih =>
    rw [List.mapM_cons] at h
    cases e1 : t.idxOf n with
    | error e => simp [e1, bind, Except.bind] at h
    | ok i =>
      cases e2 : List.mapM t.idxOf ns with
      | error e => simp [e1, e2, bind, Except.bind] at h
      | ok is =>
        simp [e1, e2, bind, Except.bind, pure, Except.pure] at h
        subst h
        obtain ⟨a, b, c⟩ := ih is e2
        obtain ⟨hi, hn⟩ := idxOf_ok t n i e1
        refine ⟨by simp [hn, a], ?_, by simp [c]⟩
        intro j hj
        simp at hj
        rcases hj with rfl | hj
        · exact hi
        · exact b j hj

/-- the index column is absent from the request, or it is asked for first (and only once) -/
def IndexOK (t : Table) (names : List String) : Prop :=
  match t.index with
  | none => True
  | some k => k ∉ names ∨ ∃ rest, names = k :: rest ∧ k ∉ rest

theorem filter_ne_of_not_mem (k : String) (l : List String) (h : k ∉ l) : l.filter (· ≠ k) = l := by
  induction l with
  | nil => rfl
  | cons a l ih =>
    simp only [List.mem_cons, not_or] at h
    have : a ≠ k := fun e => h.1 e.symm
    rw [List.filter_cons]
    simp only [ne_eq, this, not_false_eq_true, decide_true, if_true]
    rw [ih h.2]

/-- under `IndexOK` the sub-table `table[:, columns]` has its columns in the requested order -/
theorem subNames_of_indexOK (t : Table) (names : List String) (h : IndexOK t names) : t.subNames names = names := by
  unfold Table.subNames
  unfold IndexOK at h
  cases hk : t.index with
  | none => rfl
  | some k =>
    simp only [hk] at h ⊢
    rcases h with h | ⟨rest, rfl, hr⟩
    · simp [h]
    · have := filter_ne_of_not_mem k rest hr
      simp only [List.contains_cons, beq_self_eq_true, Bool.true_or, if_true, List.filter_cons, ne_eq,
        not_true_eq_false, decide_false, Bool.false_eq_true, if_false]
      exact congrArg (k :: ·) this

/-- a named table is well formed: one column per header name, all columns equally long -/
structure Table.WFT (t : Table) : Prop where
  ncols : t.cols.length = t.header.length
  wf : WF t.cols
  idx : ∀ k, t.index = some k → k ∈ t.header

/-! ### filtered / count / get_row_indices -/

theorem named_filtered (t : Table) (p : List Cell → Bool) (names : List String) (r : Table)
    (hi : IndexOK t names) (h : t.filtered p names = .ok r) :
    (nrows t.cols = 0 ∧ r = t) ∨
    ∃ sel, t.idxsOf names = .ok sel ∧ r.header = t.header ∧ r.index = t.index ∧
      r.rows = TableRows.filtered dfl p sel t.rows := by
  unfold Table.filtered at h
  by_cases h0 : nrows t.cols = 0
  · simp [h0, pure, Except.pure] at h; exact Or.inl ⟨h0, h.symm⟩
  · right
    simp only [h0, if_false] at h
    rw [subNames_of_indexOK t names hi] at h
    cases e : t.idxsOf names with
    | error x => simp [e, bind, Except.bind] at h
    | ok sel =>
      simp [e, bind, Except.bind, pure, Except.pure] at h
      subst h
      exact ⟨sel, rfl, rfl, rfl, filteredCols_rows dfl p sel t.cols⟩

theorem named_count (t : Table) (p : List Cell → Bool) (names : List String) (n : Nat)
    (hi : IndexOK t names) (h : t.count p names = .ok n) :
    (nrows t.cols = 0 ∧ n = 0) ∨
    ∃ sel, t.idxsOf names = .ok sel ∧ n = (TableRows.filtered dfl p sel t.rows).length := by
  unfold Table.count at h
  by_cases h0 : nrows t.cols = 0
  · simp [h0, pure, Except.pure] at h; exact Or.inl ⟨h0, h.symm⟩
  · right
    simp only [h0, if_false] at h
    rw [subNames_of_indexOK t names hi] at h
    cases e : t.idxsOf names with
    | error x => simp [e, bind, Except.bind] at h
    | ok sel =>
      simp [e, bind, Except.bind, pure, Except.pure] at h
      subst h
      refine ⟨sel, rfl, ?_⟩
      have := filteredCols_rows dfl p sel t.cols
      unfold Table.rows
      rw [← this]
      by_cases hc : t.cols = []
      · simp [hc, filterIdx, nrows] at h0
      · unfold filteredCols
        rw [rowsOf_takeRows dfl _ t.cols hc]
        simp

theorem named_row_indices (t : Table) (p : List Cell → Bool) (names : List String) (negate : Bool) (m : List Bool)
    (hi : IndexOK t names) (h : t.rowIndices p names negate = .ok m) :
    ∃ sel, t.idxsOf names = .ok sel ∧
      m = t.rows.map (fun row => p (TableRows.proj dfl sel row) != negate) := by
  unfold Table.rowIndices at h
  rw [subNames_of_indexOK t names hi] at h
  cases e : t.idxsOf names with
  | error x => simp [e, bind, Except.bind] at h
  | ok sel =>
    simp [e, bind, Except.bind, pure, Except.pure] at h
    subst h
    refine ⟨sel, rfl, ?_⟩
    simp [Table.rows, rowsOf, rowAt_selectCols]


/-! ### distinct values, derived column, column selection -/

theorem named_distinct_values (t : Table) (names : List String) (res : List (List Key)) (hw : t.WFT)
    (hne : names ≠ []) (hi : IndexOK t names) (h : t.distinctValues names = .ok res) :
    ∃ sel, t.idxsOf names = .ok sel ∧ res.Nodup ∧
      ∀ k, k ∈ res ↔ TableRows.isDistinctValue dfl Cell.key sel t.rows k := by
  unfold Table.distinctValues at h
  rw [subNames_of_indexOK t names hi] at h
  cases e : t.idxsOf names with
  | error x => simp [e, bind, Except.bind] at h
  | ok sel =>
    simp [e, bind, Except.bind, pure, Except.pure] at h
    subst h
    obtain ⟨_, hb, hl⟩ := idxsOf_ok t names sel e
    have hs : sel ≠ [] := by intro e0; subst e0; simp at hl; exact hne (List.eq_nil_of_length_eq_zero hl.symm)
    refine ⟨sel, rfl, nodup_setOfList _ _ List.nodup_nil, ?_⟩
    intro k
    unfold distinctCols TableRows.isDistinctValue Table.rows
    rw [mem_setOfList, rowsOf_selectCols dfl sel t.cols hw.wf hs (fun j hj => hw.ncols ▸ hb j hj)]
    simp only [TableRows.select, List.map_map, List.not_mem_nil, false_or]
    rfl

theorem named_with_new_column (t : Table) (newName : String) (f : List Cell → Cell) (names : List String)
    (r : Table) (hw : t.WFT) (hc : t.cols ≠ []) (hnew : newName ∉ t.header) (hi : IndexOK t names)
    (h : t.withNewColumn newName f names = .ok r) :
    ∃ sel, t.idxsOf names = .ok sel ∧ r.header = t.header ++ [newName] ∧ r.index = t.index ∧
      r.rows = TableRows.withNewColumn dfl f sel t.rows := by
  unfold Table.withNewColumn at h
  rw [subNames_of_indexOK t names hi] at h
  cases e : t.idxsOf names with
  | error x => simp [e, bind, Except.bind] at h
  | ok sel =>
    simp [e, bind, Except.bind, pure, Except.pure] at h
    subst h
    -- no column is called `newName`: nothing is dropped
    have hk : (List.range t.header.length).filter (fun j => !decide (t.name j = newName)) = List.range t.header.length := by
      apply List.filter_eq_self.2
      intro j hj
      simp only [List.mem_range] at hj
      simp only [Bool.not_eq_eq_eq_not, Bool.not_true, decide_eq_false_iff_not]
      intro e2
      apply hnew
      rw [← e2]
      simp [Table.name, List.getD_eq_getElem?_getD, hj]
    have hsel : selectCols (List.range t.header.length) t.cols = t.cols := by
      rw [← hw.ncols]
      unfold selectCols
      apply List.ext_getElem
      · simp
      · intro i h1 h2
        simp at h1
        simp [List.getD_eq_getElem?_getD, h1]
    have hnames : (List.range t.header.length).map t.name = t.header := by
      apply List.ext_getElem
      · simp
      · intro i h1 h2
        simp at h1
        simp [Table.name, List.getD_eq_getElem?_getD, h1]
    refine ⟨sel, rfl, ?_, ?_, ?_⟩
    · simp only [hk, hnames]
    · simp only [hk, hnames]
      cases hx : t.index with
      | none => rfl
      | some k =>
        have hm : k ∈ t.header := hw.idx k hx
        simp [hm]
        intro hall
        exfalso
        obtain ⟨x, hxl, hxv⟩ := List.getElem_of_mem hm
        have hnx : t.name x = k := by simp [Table.name, List.getD_eq_getElem?_getD, hxl, hxv]
        exact hall x hxl (fun e2 => hnew (by rw [← e2, hnx]; exact hm)) hnx
    · simp only [hk, hsel]
      exact withNewColumnCols_rows dfl f sel t.cols hc


/-! ### inner_join / joined -/

theorem filter_range_getD (l : List String) (p : String → Bool) :
    ((List.range l.length).filter (fun j => p (l.getD j ""))).map (fun j => l.getD j "") = l.filter p := by
  induction l with
  | nil => simp
  | cons a l ih =>
    rw [List.length_cons, List.range_succ_eq_map, List.filter_cons]
    simp only [List.getD_cons_zero, List.filter_map, List.map_map]
    have e : ((fun j => (a :: l).getD j "") ∘ Nat.succ) = fun j => l.getD j "" := by
      funext j; simp
    have e2 : ((fun j => p ((a :: l).getD j "")) ∘ Nat.succ) = fun j => p (l.getD j "") := by
      funext j; simp
    by_cases hp : p a = true
    · simp only [hp, if_true, List.map_cons, List.getD_cons_zero, List.filter_cons, e2]
      rw [List.map_map, e, ih]
    · simp only [hp, Bool.false_eq_true, if_false, List.filter_cons, e2]
      rw [List.map_map, e, ih]

/-- what `keepIndexIfUnique` returns is either nothing or the original index_name -/
theorem keepIndexIfUnique_cases (idx : Option String) (header : List String) (cols : List (List Cell)) :
    keepIndexIfUnique idx header cols = none ∨ keepIndexIfUnique idx header cols = idx := by
  unfold keepIndexIfUnique
  cases idx with
  | none => simp
  | some k =>
    simp only
    cases header.idxOf? k with
    | none => simp
    | some i =>
      simp only
      split
      · right; rfl
      · left; rfl

/-- **inner_join on named tables**: key columns given by name (resolved through `_get_keys_`), the result's
header is `self`'s header followed by the non-key columns of `other` with the prefix, its rows are the
nested-loop join of the two row lists, and the index_name is `self`'s or none. -/
theorem named_inner_join (t u : Table) (ks ko : List String) (pre : String) (r : Table)
    (hwt : t.WFT) (hwu : u.WFT) (hc : t.cols ≠ []) (hks : ks ≠ []) (hko : ko ≠ [])
    (hit : IndexOK t ks) (hiu : IndexOK u ko) (h : t.innerJoin u ks ko pre = .ok r) :
    ∃ kS kO, t.idxsOf ks = .ok kS ∧ u.idxsOf ko = .ok kO ∧
      r.header = t.header ++ (u.header.filter (fun c => !ko.contains c)).map (pre ++ ·) ∧
      r.rows = TableRows.innerJoin dfl Cell.key kS kO
        ((List.range u.header.length).filter fun j => !(ko.contains (u.name j))) t.rows u.rows ∧
      (r.index = none ∨ r.index = t.index) := by
  unfold Table.innerJoin at h
  rw [subNames_of_indexOK t ks hit, subNames_of_indexOK u ko hiu] at h
  cases e1 : t.idxsOf ks with
  | error x => simp [e1, bind, Except.bind] at h
  | ok kS =>
    cases e2 : u.idxsOf ko with
    | error x => simp [e1, e2, bind, Except.bind] at h
    | ok kO =>
      simp only [e1, e2, bind, Except.bind] at h
      split at h
      · simp [throw, throwThe, MonadExceptOf.throw] at h
      · simp only [pure, Except.pure, Except.ok.injEq] at h
        subst h
        obtain ⟨_, hbS, hlS⟩ := idxsOf_ok t ks kS e1
        obtain ⟨_, hbO, hlO⟩ := idxsOf_ok u ko kO e2
        have hsS : kS ≠ [] := by
          intro e0; subst e0; simp at hlS; exact hks (List.eq_nil_of_length_eq_zero hlS.symm)
        have hsO : kO ≠ [] := by
          intro e0; subst e0; simp at hlO; exact hko (List.eq_nil_of_length_eq_zero hlO.symm)
        refine ⟨kS, kO, rfl, rfl, ?_, ?_, keepIndexIfUnique_cases _ _ _⟩
        · simp only [List.append_cancel_left_eq]
          have := filter_range_getD u.header (fun c => !ko.contains c)
          rw [← this, List.map_map]
          rfl
        · exact innerJoinCols_rows dfl Cell.key kS kO _ t.cols u.cols hc hwt.wf hwu.wf hsS hsO
            (fun j hj => hwt.ncols ▸ hbS j hj) (fun j hj => hwu.ncols ▸ hbO j hj)

/-- `joined(other)` without key columns is the natural join BY NAME: the same list of names — the columns
the two tables share, in `self`'s order — is used for both tables -/
theorem natural_keys_by_name (t u : Table) :
    (t.naturalKeys u).1 = (t.naturalKeys u).2 ∧
    ∀ c, c ∈ (t.naturalKeys u).1 ↔ c ∈ t.header ∧ c ∈ u.header := by
  refine ⟨rfl, ?_⟩
  intro c
  simp [Table.naturalKeys]


/-! ### appended with the title column -/

/-- a table with its title written in front of every row -/
def withTitle (x : α) (tab : List (List α)) : List (List α) := List.replicate (nrows tab) x :: tab

theorem nrows_withTitle (x : α) (tab : List (List α)) : nrows (withTitle x tab) = nrows tab := by
  simp [withTitle, nrows]

theorem wf_withTitle (x : α) (tab : List (List α)) (hw : WF tab) : WF (withTitle x tab) := by
  intro c hc
  rw [nrows_withTitle]
  simp only [withTitle, List.mem_cons] at hc
  rcases hc with rfl | hc
  · simp
  · exact hw c hc

theorem rowsOf_withTitle (dflt x : α) (tab : List (List α)) :
    rowsOf dflt (withTitle x tab) = (rowsOf dflt tab).map (x :: ·) := by
  unfold rowsOf
  rw [nrows_withTitle, List.map_map]
  apply List.map_congr_left
  intro i hi
  have hi' : i < nrows tab := by simpa using hi
  simp [withTitle, rowAt, List.getD_eq_getElem?_getD, hi']

theorem appendCols_withTitle (titles : List α) (tabs : List (List (List α))) (hl : titles.length = tabs.length)
    (hne : tabs ≠ []) :
    appendCols (List.zipWith withTitle titles tabs) = titleCol titles tabs :: appendCols tabs := by
  induction tabs generalizing titles with
  | nil => exact absurd rfl hne
  | cons tab rest ih =>
    cases titles with
    | nil => simp at hl
    | cons x xs =>
      cases rest with
      | nil =>
        cases xs with
        | nil => simp [appendCols, titleCol, withTitle]
        | cons _ _ => simp at hl
      | cons tab2 rest2 =>
        cases xs with
        | nil => simp at hl
        | cons x2 xs2 =>
          have ih' := ih (x2 :: xs2) (by simpa using hl) (by simp)
          simp only [List.zipWith_cons_cons] at ih' ⊢
          simp only [appendCols]
          rw [ih']
          simp [withTitle, titleCol]

theorem appendedWithTitle_eq (dflt : α) (titles : List α) (tabs : List (List (List α)))
    (hl : titles.length = tabs.length) :
    TableRows.appended ((List.zipWith withTitle titles tabs).map (rowsOf dflt))
      = TableRows.appendedWithTitle titles (tabs.map (rowsOf dflt)) := by
  induction tabs generalizing titles with
  | nil => cases titles <;> simp [TableRows.appended, TableRows.appendedWithTitle]
  | cons tab rest ih =>
    cases titles with
    | nil => simp at hl
    | cons x xs =>
      have ih' := ih xs (by simpa using hl)
      simp only [TableRows.appended, TableRows.appendedWithTitle] at ih' ⊢
      simp only [List.zipWith_cons_cons, List.map_cons, List.flatMap_cons, List.zip_cons_cons, id]
      rw [ih', rowsOf_withTitle]

/-- `appended(new_column, …)`: every row of every table gets that table's title in front -/
theorem appended_with_title_rows (dflt : α) (titles : List α) (tabs : List (List (List α))) (L : Nat)
    (hl : titles.length = tabs.length) (hw : ∀ t ∈ tabs, WF t) (hL : ∀ t ∈ tabs, t.length = L) (hne : tabs ≠ []) :
    rowsOf dflt (titleCol titles tabs :: appendCols tabs)
      = TableRows.appendedWithTitle titles (tabs.map (rowsOf dflt)) := by
  rw [← appendCols_withTitle titles tabs hl hne, ← appendedWithTitle_eq dflt titles tabs hl]
  have hz : ∀ w ∈ List.zipWith withTitle titles tabs, WF w ∧ w.length = L + 1 := by
    intro w hw'
    obtain ⟨i, hi, rfl⟩ := List.getElem_of_mem hw'
    simp only [List.length_zipWith] at hi
    have h2 : i < tabs.length := by omega
    simp only [List.getElem_zipWith]
    exact ⟨wf_withTitle _ _ (hw _ (List.getElem_mem h2)), by simp [withTitle, hL _ (List.getElem_mem h2)]⟩
  exact (appendCols_rows dflt _ (L + 1) (fun w hw' => (hz w hw').1) (fun w hw' => (hz w hw').2)
    (by
      intro e
      have := congrArg List.length e
      simp only [List.length_zipWith, List.length_nil] at this
      have : tabs.length = 0 := by omega
      exact hne (List.eq_nil_of_length_eq_zero this))).1

/-- aligning a table to `self`'s column order (`appended` matches columns BY NAME) -/
theorem alignTo_rows (t u : Table) (a : List (List Cell)) (hu : u.WFT) (hh : t.header ≠ [])
    (h : t.alignTo u = .ok a) :
    ∃ sel, u.idxsOf t.header = .ok sel ∧ a = selectCols sel u.cols ∧
      rowsOf dfl a = TableRows.select dfl sel u.rows ∧ WF a ∧ a.length = t.header.length := by
  unfold Table.alignTo at h
  split at h
  · cases h
  · cases e : u.idxsOf t.header with
    | error x => simp [e] at h
    | ok sel =>
      simp only [e, Except.ok.injEq] at h
      subst h
      obtain ⟨_, hb, hl⟩ := idxsOf_ok u t.header sel e
      have hs : sel ≠ [] := by
        intro e0; subst e0; simp at hl; exact hh (List.eq_nil_of_length_eq_zero hl.symm)
      refine ⟨sel, rfl, rfl, rowsOf_selectCols dfl sel u.cols hu.wf hs (fun j hj => hu.ncols ▸ hb j hj), ?_, by
        simp [selectCols, hl]⟩
      intro c hc
      rw [nrows_selectCols sel u.cols hu.wf hs (fun j hj => hu.ncols ▸ hb j hj)]
      simp only [selectCols, List.mem_map] at hc
      obtain ⟨j, hj, rfl⟩ := hc
      have hj' : j < u.cols.length := hu.ncols ▸ hb j hj
      simp only [List.getD_eq_getElem?_getD, List.getElem?_eq_getElem hj', Option.getD_some]
      exact hu.wf _ (List.getElem_mem hj')


theorem mapM_ok_get {β γ : Type} (f : β → Except String γ) (l : List β) (r : List γ)
    (h : l.mapM f = .ok r) :
    r.length = l.length ∧ ∀ i (h1 : i < l.length) (h2 : i < r.length), f l[i] = .ok r[i] := by
  induction l generalizing r with
  | nil => simp [List.mapM_nil, pure, Except.pure] at h; subst h; simp
  | cons a l ih =>
    rw [List.mapM_cons] at h
    cases e1 : f a with
    | error e => simp [e1, bind, Except.bind] at h
    | ok b =>
      cases e2 : l.mapM f with
      | error e => simp [e1, e2, bind, Except.bind] at h
      | ok bs =>
        simp [e1, e2, bind, Except.bind, pure, Except.pure] at h
        subst h
        obtain ⟨hl, hg⟩ := ih bs e2
        refine ⟨by simp [hl], ?_⟩
        intro i h1 h2
        cases i with
        | zero => simpa using e1
        | succ i => simpa using hg i (by simpa using h1) (by simpa using h2)

/-- **appended on named tables**: columns are matched by name and brought into `self`'s order; with a
`new_column` every row gets its table's title in front; the index_name is `self`'s or none. -/
theorem named_appended (t : Table) (newCol : Option String) (others : List Table) (r : Table)
    (hw : ∀ u ∈ t :: others, u.WFT) (hh : t.header ≠ []) (h : t.appended newCol others = .ok r) :
    ∃ Rs : List (List (List Cell)),
      Rs.length = (t :: others).length ∧
      (∀ i (h1 : i < (t :: others).length) (h2 : i < Rs.length), ∃ sel,
        ((t :: others)[i]).idxsOf t.header = .ok sel ∧ Rs[i] = TableRows.select dfl sel ((t :: others)[i]).rows) ∧
      (r.index = none ∨ r.index = t.index) ∧
      match newCol with
      | none => r.header = t.header ∧ r.rows = TableRows.appended Rs
      | some n => r.header = n :: t.header ∧
          r.rows = TableRows.appendedWithTitle ((t :: others).map fun u => Cell.str u.title) Rs := by
  unfold Table.appended at h
  cases e : (t :: others).mapM t.alignTo with
  | error x => simp [e, bind, Except.bind] at h
  | ok aligned =>
    obtain ⟨hlen0, hget⟩ := mapM_ok_get t.alignTo (t :: others) aligned e
    have key : ∀ i (h1 : i < (t :: others).length) (h2 : i < aligned.length), ∃ sel,
        ((t :: others)[i]).idxsOf t.header = .ok sel ∧
        rowsOf dfl aligned[i] = TableRows.select dfl sel ((t :: others)[i]).rows ∧ WF aligned[i] ∧
        aligned[i].length = t.header.length := by
      intro i h1 h2
      obtain ⟨sel, a1, _, a3, a4, a5⟩ :=
        alignTo_rows t ((t :: others)[i]) aligned[i] (hw _ (List.getElem_mem h1)) hh (hget i h1 h2)
      exact ⟨sel, a1, a3, a4, a5⟩
    have hwf : ∀ a ∈ aligned, WF a := by
      intro a ha
      obtain ⟨i, hi, rfl⟩ := List.getElem_of_mem ha
      obtain ⟨_, _, _, h4, _⟩ := key i (hlen0 ▸ hi) hi
      exact h4
    have hlen : ∀ a ∈ aligned, a.length = t.header.length := by
      intro a ha
      obtain ⟨i, hi, rfl⟩ := List.getElem_of_mem ha
      obtain ⟨_, _, _, _, h5⟩ := key i (hlen0 ▸ hi) hi
      exact h5
    have hne : aligned ≠ [] := by
      intro e0; subst e0; simp at hlen0
    refine ⟨aligned.map (rowsOf dfl), by simp [hlen0], ?_, ?_⟩
    · intro i h1 h2
      have h2' : i < aligned.length := by simpa using h2
      obtain ⟨sel, a1, a3, _⟩ := key i h1 h2'
      exact ⟨sel, a1, by simp [a3]⟩
    cases newCol with
    | none =>
      simp [e, bind, Except.bind, pure, Except.pure] at h
      subst h
      exact ⟨keepIndexIfUnique_cases _ _ _, rfl, (appendCols_rows dfl aligned _ hwf hlen hne).1⟩
    | some n =>
      simp only [e, bind, Except.bind] at h
      split at h
      · simp [throw, throwThe, MonadExceptOf.throw] at h
      · simp only [pure, Except.pure, Except.ok.injEq] at h
        subst h
        refine ⟨keepIndexIfUnique_cases _ _ _, rfl, ?_⟩
        have hl : ((t :: others).map fun u => Cell.str u.title).length = aligned.length := by
          simp [hlen0]
        exact appended_with_title_rows dfl _ aligned _ hl hwf hlen hne


/-! ### column selection: the index column is shown first -/

theorem subNames_ne_nil (t : Table) (names : List String) (h : names ≠ []) : t.subNames names ≠ [] := by
  unfold Table.subNames
  cases t.index with
  | none => exact h
  | some k => simp only; split <;> simp [h]

/-- `table[:, columns]` / `get_columns`: the selected columns, with the index column FIRST if it is among them
(`subNames`), each row restricted to those columns -/
theorem named_take_cols (t : Table) (names : List String) (r : Table) (hw : t.WFT) (hne : names ≠ [])
    (h0 : nrows t.cols ≠ 0) (h : t.takeCols names = .ok r) :
    ∃ sel, t.idxsOf (t.subNames names) = .ok sel ∧ r.header = t.subNames names ∧
      r.rows = TableRows.select dfl sel t.rows := by
  unfold Table.takeCols at h
  cases e : t.idxsOf (t.subNames names) with
  | error x => simp [e, bind, Except.bind] at h
  | ok sel =>
    simp [e, bind, Except.bind, h0, pure, Except.pure] at h
    subst h
    obtain ⟨_, hb, hl⟩ := idxsOf_ok t _ sel e
    have hs : sel ≠ [] := by
      intro e0; subst e0; simp at hl
      exact subNames_ne_nil t names hne (List.eq_nil_of_length_eq_zero hl.symm)
    exact ⟨sel, rfl, rfl, rowsOf_selectCols dfl sel t.cols hw.wf hs (fun j hj => hw.ncols ▸ hb j hj)⟩

/-! ### transposed -/

theorem mapM_map_except {β γ δ : Type} (f : γ → Except String δ) (g : β → γ) (l : List β) :
    (l.map g).mapM f = l.mapM (fun x => f (g x)) := by
  induction l with
  | nil => rfl
  | cons a l ih => simp [List.mapM_cons, ih]

/-- `Table.transposed` on the named layer: the result's header is the new column name followed by `str()` of the
selected column's cells (row order); its first column holds the OTHER column names (the order `table[:, columns]`
shows them in); the column made from a row holds that row's other cells in the same order. -/
theorem named_transposed (t : Table) (newName : String) (selectAs : Option String) (r : Table) (hw : t.WFT)
    (h : t.transposed newName selectAs = .ok r) :
    let sname := selectAs.getD (t.header.headD "")
    let columns := t.subNames (sname :: t.header.filter (· ≠ sname))
    ∃ s sel names, t.idxsOf columns = .ok (s :: sel) ∧ (s :: sel).map t.name = columns ∧
      t.rows.mapM (fun row => match (row.getD s dfl).pyStr with | some x => pure x | none => throw "unmodelled") = Except.ok names ∧
      r.header = newName :: names ∧
      r.cols = (sname :: t.header.filter (· ≠ sname)).tail.map Cell.str :: t.rows.map (TableOps.proj dfl sel) := by
  intro sname columns
  unfold Table.transposed at h
  simp only [bind, Except.bind, Except.mapError, pure, Except.pure] at h
  cases e1 : t.idxOf (selectAs.getD (t.header.headD "")) with
  | error x => rw [e1] at h; simp at h
  | ok si =>
    rw [e1] at h
    simp only [] at h
    split at h
    · simp [throw, throwThe, MonadExceptOf.throw] at h
    · cases e2 : t.idxsOf (t.subNames ((selectAs.getD (t.header.headD "")) :: t.header.filter (· ≠ (selectAs.getD (t.header.headD ""))))) with
      | error x => rw [e2] at h; simp at h
      | ok sel0 =>
        rw [e2] at h
        obtain ⟨hn, hb, hl⟩ := idxsOf_ok t _ sel0 e2
        have hs : sel0 ≠ [] := by
          intro e0; subst e0; simp at hl
          exact subNames_ne_nil t _ (by simp) (List.eq_nil_of_length_eq_zero hl.symm)
        have hd := rowsOf_selectCols dfl sel0 t.cols hw.wf hs (fun j hj => hw.ncols ▸ hb j hj)
        obtain ⟨s, sel, rfl⟩ := List.exists_cons_of_ne_nil hs
        simp only [hd] at h
        unfold TableRows.select at h
        rw [mapM_map_except] at h
        generalize e3 : List.mapM (m := Except String) (β := String) _ (rowsOf dfl t.cols) = M at h
        cases M with
        | error x => simp at h
        | ok names =>
          simp only [Except.ok.injEq] at h
          subst h
          refine ⟨s, sel, names, rfl, hn, ?_, rfl, ?_⟩
          · rw [← e3]; unfold Table.rows
            congr 1
          · simp [Table.rows, sname, TableRows.proj, TableOps.proj]

/-- with the index column absent or selected as the header column, `table[:, columns]` keeps the requested order:
the column named by `select_as_header` supplies the new column names, the other columns follow in header order -/
theorem named_transposed_indexOK (t : Table) (newName : String) (selectAs : Option String) (r : Table) (hw : t.WFT)
    (hi : IndexOK t (selectAs.getD (t.header.headD "") :: t.header.filter (· ≠ selectAs.getD (t.header.headD ""))))
    (h : t.transposed newName selectAs = .ok r) :
    ∃ s sel names, t.name s = selectAs.getD (t.header.headD "") ∧
      sel.map t.name = t.header.filter (· ≠ selectAs.getD (t.header.headD "")) ∧
      t.rows.mapM (fun row => match (row.getD s dfl).pyStr with | some x => pure x | none => throw "unmodelled") = Except.ok names ∧
      r.header = newName :: names ∧
      r.cols = (sel.map fun j => Cell.str (t.name j)) :: t.rows.map (TableOps.proj dfl sel) := by
  obtain ⟨s, sel, names, _, hn, hm, hh, hc⟩ := named_transposed t newName selectAs r hw h
  rw [subNames_of_indexOK t _ hi] at hn
  simp only [List.map_cons, List.cons.injEq] at hn
  refine ⟨s, sel, names, hn.1, hn.2, hm, hh, ?_⟩
  rw [hc, List.tail_cons, ← hn.2, List.map_map]; rfl

/-! ### sorted: the key record of the model is `keyT` of the requested transforms -/

/-- the per-field transform `Table.sorted` applies: identity, `_reverse_num`, or the negated dense rank -/
def fieldT (k : ColKind) (rev : Bool) (u : List SKey) : SKey → SKey :=
  if rev then (if k = .num then revNumField else fun f => .num (-((denseRank SKey.le u f : Nat) : Rat))) else id

def sortSpec : List ColKind → List Bool → List (List SKey) → List (Bool × (SKey → SKey))
  | k :: ks, rv :: rvs, u :: us => (rv, fieldT k rv u) :: sortSpec ks rvs us
  | _, _, _ => []

/-- a key cell `sorted` can handle: it has a key field, and in a numeric column it is a number -/
def CellOK (k : ColKind) (c : Cell) : Prop :=
  c.skey ≠ none ∧ (k = .num → ∃ q, c.skey = some (.num q))

def skeyD (c : Cell) : SKey := c.skey.getD (.bool false)

theorem keyField_eq (k : ColKind) (rv : Bool) (u : List SKey) (c : Cell) (h : CellOK k c) :
    keyField k rv u c = .ok (fieldT k rv u (skeyD c)) := by
  obtain ⟨h1, h2⟩ := h
  unfold keyField fieldT skeyD
  cases rv with
  | false =>
    cases hs : c.skey with
    | none => exact absurd hs h1
    | some f => simp
  | true =>
    simp only [if_true]
    by_cases hk : k = .num
    · subst hk
      obtain ⟨q, hq⟩ := h2 rfl
      cases c <;> simp [Cell.skey] at hq <;> simp [reverseCell, Cell.skey, revNumField, hq]
    · cases hs : c.skey with
      | none => exact absurd hs h1
      | some f =>
        simp only [hk, if_false, Option.getD_some]
        cases k <;> simp at hk <;> simp [reverseCell, hs]

theorem sortKeyOf_eq_keyT (sel : List Nat) (kinds : List ColKind) (revs : List Bool) (uniqs : List (List SKey))
    (r : List Cell)
    (hok : ∀ x ∈ (TableOps.proj dfl sel r).zip (kinds.zip (revs.zip uniqs)), CellOK x.2.1 x.1)
    (hl1 : kinds.length = sel.length) (hl2 : revs.length = sel.length) (hl3 : uniqs.length = sel.length) :
    sortKeyOf sel kinds revs uniqs r = keyT (sortSpec kinds revs uniqs) ((TableOps.proj dfl sel r).map skeyD) := by
  unfold sortKeyOf
  have hlp : (TableOps.proj dfl sel r).length = sel.length := by simp [TableOps.proj]
  generalize TableOps.proj dfl sel r = cells at hok hlp
  induction cells generalizing sel kinds revs uniqs with
  | nil => cases kinds <;> cases revs <;> cases uniqs <;> simp [sortSpec, keyT]
  | cons c cs ih =>
    cases sel with
    | nil => simp at hlp
    | cons j js =>
      cases kinds with
      | nil => simp at hl1
      | cons k ks =>
        cases revs with
        | nil => simp at hl2
        | cons rv rvs =>
          cases uniqs with
          | nil => simp at hl3
          | cons u us =>
            have hc : CellOK k c := hok (c, k, rv, u) (by simp)
            simp only [List.zip_cons_cons, List.map_cons, sortSpec, keyT, keyField_eq k rv u c hc]
            congr 1
            exact ih js ks rvs us (by simpa using hl1) (by simpa using hl2) (by simpa using hl3)
              (fun x hx => hok x (by simp [hx])) (by simpa using hlp)


theorem cellOK_of_kind (col : List Cell) (h : colKind col ≠ .obj) : ∀ c ∈ col, CellOK (colKind col) c := by
  intro c hc
  unfold colKind at h ⊢
  split at h
  · rename_i h1
    simp only [h1, if_true]
    have := (List.all_eq_true.1 h1) c hc
    cases c <;> simp at this <;> simp [CellOK, Cell.skey]
  · rename_i h1
    split at h
    · rename_i h2
      simp only [h1, h2, if_true, if_false]
      have := (List.all_eq_true.1 h2) c hc
      cases c <;> simp at this <;> simp [CellOK, Cell.skey]
    · rename_i h2
      split at h
      · rename_i h3
        simp only [h1, h2, h3, if_true, if_false]
        have := (List.all_eq_true.1 h3) c hc
        cases c <;> simp at this <;> simp [CellOK, Cell.skey]
      · exact absurd rfl h

theorem checkKinds_ok (ks : List ColKind) (h : checkKinds ks = .ok ()) : ∀ k ∈ ks, k ≠ .obj := by
  induction ks with
  | nil => simp
  | cons k ks ih =>
    unfold checkKinds at h
    split at h
    · cases h
    · rename_i hk
      intro x hx
      simp at hx
      rcases hx with rfl | hx
      · exact hk
      · exact ih h x hx

/-- the raw key fields of row `i`: one per key column -/
def fieldsAt (cols : List (List Cell)) (sel : List Nat) (i : Nat) : List SKey :=
  sel.map fun j => skeyD ((cols.getD j []).getD i dfl)

theorem proj_rowAt (cols : List (List Cell)) (sel : List Nat) (i : Nat) :
    (TableOps.proj dfl sel (rowAt dfl cols i)).map skeyD = fieldsAt cols sel i := by
  simp only [TableOps.proj, fieldsAt, List.map_map]
  apply List.map_congr_left
  intro j _
  simp only [Function.comp, rowAt, List.getD_eq_getElem?_getD, List.getElem?_map]
  cases cols[j]? <;> simp

theorem getD_mem (col : List Cell) (i : Nat) (hi : i < col.length) : col.getD i dfl ∈ col := by
  simp [List.getD_eq_getElem?_getD, hi]

theorem mem_uniqOf (col : List Cell) (i : Nat) (hi : i < col.length) (f : SKey) (hf : (col.getD i dfl).skey = some f) :
    f ∈ uniqOf col := by
  unfold uniqOf
  rw [mem_setOfList]
  right
  rw [List.mem_filterMap]
  exact ⟨col.getD i dfl, getD_mem col i hi, hf⟩

theorem allOK_sortSpec (cols : List (List Cell)) (n : Nat) (hw : ∀ c ∈ cols, c.length = n) (i i' : Nat)
    (hi : i < n) (hi' : i' < n) (sel : List Nat) (revs : List Bool) (hl : revs.length = sel.length)
    (hb : ∀ j ∈ sel, j < cols.length) (hk : ∀ j ∈ sel, colKind (cols.getD j []) ≠ .obj) :
    AllOK (sortSpec (sel.map fun j => colKind (cols.getD j [])) revs (sel.map fun j => uniqOf (cols.getD j [])))
      (fieldsAt cols sel i) (fieldsAt cols sel i') := by
  induction sel generalizing revs with
  | nil => cases revs <;> simp [sortSpec, fieldsAt, AllOK] at hl ⊢
  | cons j js ih =>
    cases revs with
    | nil => simp at hl
    | cons rv rvs =>
      simp only [List.map_cons, sortSpec, fieldsAt, AllOK]
      refine ⟨?_, ih rvs (by simpa using hl) (fun j hj => hb j (by simp [hj])) (fun j hj => hk j (by simp [hj]))⟩
      have hj : j < cols.length := hb j (by simp)
      have hcol : cols.getD j [] = cols[j] := by simp [List.getD_eq_getElem?_getD, hj]
      have hlen : (cols.getD j []).length = n := by rw [hcol]; exact hw _ (List.getElem_mem hj)
      have hko := hk j (by simp)
      have ok1 := cellOK_of_kind _ hko ((cols.getD j []).getD i dfl) (getD_mem _ i (hlen ▸ hi))
      have ok2 := cellOK_of_kind _ hko ((cols.getD j []).getD i' dfl) (getD_mem _ i' (hlen ▸ hi'))
      unfold fieldT
      cases rv with
      | false => simpa using fieldOK_asc _ _
      | true =>
        simp only [if_true]
        by_cases hn : colKind (cols.getD j []) = .num
        · simp only [hn, if_true]
          obtain ⟨p, hp⟩ := ok1.2 hn
          obtain ⟨q, hq⟩ := ok2.2 hn
          simp only [skeyD, hp, hq, Option.getD_some]
          exact fieldOK_descNum p q
        · simp only [hn, if_false]
          obtain ⟨f1, hf1⟩ := Option.ne_none_iff_exists'.1 ok1.1
          obtain ⟨f2, hf2⟩ := Option.ne_none_iff_exists'.1 ok2.1
          simp only [skeyD, hf1, hf2, Option.getD_some]
          exact fieldOK_descRank _ f1 f2 (mem_uniqOf _ i (hlen ▸ hi) f1 hf1) (mem_uniqOf _ i' (hlen ▸ hi') f2 hf2)


theorem sortedCols_congr {κ : Type} (dflt : α) (le : κ → κ → Bool) (k1 k2 : List α → κ) (cols : List (List α))
    (h : ∀ r ∈ rowsOf dflt cols, k1 r = k2 r) : sortedCols dflt le k1 cols = sortedCols dflt le k2 cols := by
  unfold sortedCols
  rw [List.map_congr_left h]

theorem zip_cellOK (cols : List (List Cell)) (n : Nat) (hw : ∀ c ∈ cols, c.length = n) (i : Nat) (hi : i < n)
    (sel : List Nat) (revs : List Bool) (hb : ∀ j ∈ sel, j < cols.length)
    (hk : ∀ j ∈ sel, colKind (cols.getD j []) ≠ .obj) :
    ∀ x ∈ (sel.map fun j => (cols.getD j []).getD i dfl).zip
        ((sel.map fun j => colKind (cols.getD j [])).zip (revs.zip (sel.map fun j => uniqOf (cols.getD j [])))),
      CellOK x.2.1 x.1 := by
  induction sel generalizing revs with
  | nil => simp
  | cons j js ih =>
    cases revs with
    | nil => simp
    | cons rv rvs =>
      intro x hx
      simp only [List.map_cons, List.zip_cons_cons, List.mem_cons] at hx
      rcases hx with rfl | hx
      · have hj : j < cols.length := hb j (by simp)
        have hlen : (cols.getD j []).length = n := by
          simp [List.getD_eq_getElem?_getD, hj, hw _ (List.getElem_mem hj)]
        exact cellOK_of_kind _ (hk j (by simp)) _ (getD_mem _ i (hlen ▸ hi))
      · exact ih rvs (fun j hj => hb j (by simp [hj])) (fun j hj => hk j (by simp [hj])) x hx

theorem proj_rowAt' (cols : List (List Cell)) (sel : List Nat) (i : Nat) :
    TableOps.proj dfl sel (rowAt dfl cols i) = sel.map fun j => (cols.getD j []).getD i dfl := by
  simp only [TableOps.proj]
  apply List.map_congr_left
  intro j _
  simp only [rowAt, List.getD_eq_getElem?_getD, List.getElem?_map]
  cases cols[j]? <;> simp

/-- the raw key fields of a row -/
def rowFields (sel : List Nat) (row : List Cell) : List SKey := (TableOps.proj dfl sel row).map skeyD

/-- **`sorted` on named tables** (column-list logic `sortColumns`, names resolved, ≥ 2 rows): the header and
index_name are unchanged, the rows are a permutation of the table's rows, and they are ordered by the
requested keys in the requested directions (first differing key field decides; descending for the columns
named in `reverse`). -/
theorem named_sorted (t : Table) (columns : Option (List String)) (reverse : List String) (r : Table)
    (hw : t.WFT) (h2 : 2 ≤ nrows t.cols) (h : t.sorted columns reverse = .ok r) :
    ∃ sel, t.idxsOf (sortColumns t.header columns reverse) = .ok sel ∧ r.header = t.header ∧ r.index = t.index ∧
      r.rows.Perm t.rows ∧
      r.rows.Pairwise (fun a b =>
        mixedLe ((sortColumns t.header columns reverse).map (reverse.contains ·)) (rowFields sel a) (rowFields sel b) = true) := by
  unfold Table.sorted at h
  simp only at h
  cases e1 : t.idxsOf (sortColumns t.header columns reverse) with
  | error x => simp [e1] at h
  | ok sel =>
    simp only [e1] at h
    cases e2 : checkReverse t (sortColumns t.header columns reverse) (nrows t.cols) reverse with
    | error x => simp [e2] at h
    | ok _ =>
      simp only [e2] at h
      have hn : ¬ nrows t.cols ≤ 1 := by omega
      simp only [hn, if_false] at h
      cases e3 : checkKinds (sel.map fun j => colKind (t.cols.getD j [])) with
      | error x => rw [e3] at h; cases h
      | ok _ =>
        simp only [e3, Except.ok.injEq] at h
        subst h
        obtain ⟨_, hb, hl⟩ := idxsOf_ok t _ sel e1
        have hb' : ∀ j ∈ sel, j < t.cols.length := fun j hj => hw.ncols ▸ hb j hj
        have hk : ∀ j ∈ sel, colKind (t.cols.getD j []) ≠ .obj := by
          intro j hj
          exact checkKinds_ok _ e3 _ (List.mem_map_of_mem hj)
        have hwf : ∀ c ∈ t.cols, c.length = nrows t.cols := hw.wf
        let revs := (sortColumns t.header columns reverse).map (reverse.contains ·)
        let kinds := sel.map fun j => colKind (t.cols.getD j [])
        let uniqs := sel.map fun j => uniqOf (t.cols.getD j [])
        have hrl : revs.length = sel.length := by simp [revs, hl]
        -- on the rows of the table the model's key is `keyT` of the requested transforms
        have hkey : ∀ row ∈ rowsOf dfl t.cols,
            sortKeyOf sel kinds revs uniqs row = keyT (sortSpec kinds revs uniqs) (rowFields sel row) := by
          intro row hrow
          simp only [rowsOf, List.mem_map, List.mem_range] at hrow
          obtain ⟨i, hi, rfl⟩ := hrow
          apply sortKeyOf_eq_keyT
          · rw [proj_rowAt']
            exact zip_cellOK t.cols _ hwf i hi sel revs hb' hk
          · simp [kinds]
          · exact hrl
          · simp [uniqs]
        refine ⟨sel, rfl, rfl, rfl, ?_⟩
        show (rowsOf dfl (sortedCols dfl lexLe (sortKeyOf sel kinds revs uniqs) t.cols)).Perm (rowsOf dfl t.cols) ∧ _
        rw [sortedCols_congr dfl lexLe _ _ t.cols hkey]
        obtain ⟨hperm, hsorted⟩ := sortedCols_perm_sorted dfl lexLe lexLe_trans lexLe_total
          (fun row => keyT (sortSpec kinds revs uniqs) (rowFields sel row)) t.cols
        refine ⟨hperm, ?_⟩
        unfold TableRows.SortedBy at hsorted
        show (rowsOf dfl (sortedCols dfl lexLe (fun row => keyT (sortSpec kinds revs uniqs) (rowFields sel row)) t.cols)).Pairwise _
        refine hsorted.imp_of_mem ?_
        intro a b ha hb2 hab
        have ha' := (hperm.mem_iff).1 ha
        have hb2' := (hperm.mem_iff).1 hb2
        simp only [rowsOf, List.mem_map, List.mem_range] at ha' hb2'
        obtain ⟨i, hi, rfl⟩ := ha'
        obtain ⟨i', hi', rfl⟩ := hb2'
        have hall := allOK_sortSpec t.cols _ hwf i i' hi hi' sel revs hrl hb' hk
        have e4 : rowFields sel (rowAt dfl t.cols i) = fieldsAt t.cols sel i := proj_rowAt t.cols sel i
        have e5 : rowFields sel (rowAt dfl t.cols i') = fieldsAt t.cols sel i' := proj_rowAt t.cols sel i'
        dsimp only at hab
        rw [e4, e5] at hab ⊢
        rw [lexLe_keyT _ _ _ hall] at hab
        have e6 : (sortSpec kinds revs uniqs).map (·.1) = revs := by
          have : ∀ (ks : List ColKind) (rs : List Bool) (us : List (List SKey)), ks.length = rs.length →
              us.length = rs.length → (sortSpec ks rs us).map (·.1) = rs := by
            intro ks rs us
            induction rs generalizing ks us with
            | nil => intro _ _; cases ks <;> cases us <;> simp [sortSpec]
            | cons x xs ihx =>
              intro h1 h3
              cases ks with
              | nil => simp at h1
              | cons k ks =>
                cases us with
                | nil => simp at h3
                | cons u us => simp [sortSpec, ihx ks us (by simpa using h1) (by simpa using h3)]
          exact this kinds revs uniqs (by simp [kinds, hrl]) (by simp [uniqs, hrl])
        rw [e6] at hab
        exact hab


/-! ### the index_name rule of results -/

/-- a result that was given its index_name through `keepIndexIfUnique` never fails on first use
(`Table.observe`: the column exists and holds unique values) -/
theorem observe_keepIndex_ok (idx : Option String) (header : List String) (cols : List (List Cell)) (title : String)
    (hw : WF cols) (hn : cols.length = header.length) :
    ∃ r, Table.observe { header := header, cols := cols, title := title,
                         index := keepIndexIfUnique idx header cols } = .ok r := by
  unfold Table.observe keepIndexIfUnique
  cases idx with
  | none => exact ⟨_, rfl⟩
  | some k =>
    simp only
    cases e : header.idxOf? k with
    | none => exact ⟨_, rfl⟩
    | some i =>
      simp only
      obtain ⟨hi, _, _⟩ := List.idxOf?_eq_some_iff.1 e
      have hi' : i < cols.length := hn ▸ hi
      have hlen : (cols.getD i []).length = nrows cols := by
        simp only [List.getD_eq_getElem?_getD, List.getElem?_eq_getElem hi', Option.getD_some]
        exact hw _ (List.getElem_mem hi')
      by_cases hu : (setOfList [] ((cols.getD i []).map Cell.key)).length = nrows cols
      · simp only [hu, if_true, e]
        have hlen' : nrows cols = (cols[i]?.getD []).length := by
          rw [← hlen]; simp [List.getD_eq_getElem?_getD]
        simp [hlen']
      · simp only [hu, if_false]
        exact ⟨_, rfl⟩

/-! ### the open finding, as a witness on the model -/

def cexT : Table := { header := ["k", "a"], cols := [[.str "p", .str "q"], [.str "x", .str "y"]], index := some "k" }
def cexP (r : List Cell) : Bool := r.getD 0 .missing == .str "y"

end CogentModel.TableOps
