import CogentModel.Proofs.IndelMapAlignIdx2
namespace CogentModel.IndelMap
open CogentModel.Gapped List CogentModel

theorem alignIndex_residues (n : Nat) : ∀ (s : Nat) (rest : Gapped) (j : Nat),
    alignIndex ((range' s n).map some ++ rest) j = if j < n then j else n + alignIndex rest (j - n) := by
  induction n with
  | zero => intro s rest j; simp
  | succ n ih =>
    intro s rest j
    rw [range'_succ]
    cases j with
    | zero => simp [alignIndex]
    | succ j =>
      simp only [map_cons, cons_append, alignIndex, ih (s + 1) rest j]
      by_cases h : j < n
      · rw [if_pos h, if_pos (by omega)]
      · rw [if_neg h, if_neg (by omega)]
        have : j + 1 - (n + 1) = j - n := by omega
        rw [this]; omega

theorem alignIndex_gaps (n : Nat) (rest : Gapped) (j : Nat) :
    alignIndex (replicate n none ++ rest) j = n + alignIndex rest j := by
  induction n with
  | zero => simp
  | succ n ih => simp only [replicate_succ, cons_append, alignIndex, ih]; omega

/-- the recursive scan gives the column at which residue `k` is displayed -/
theorem alignRec_spec (gp : List Int) : ∀ (cum : List Int) (next prevCum pl k : Int),
    (∀ p ∈ gp, next ≤ p ∧ p ≤ pl) → gp.Pairwise (· < ·) → (prevCum :: cum).Pairwise (· < ·) →
    0 ≤ next → next ≤ k → k < pl →
    alignRec prevCum gp cum k - (next + prevCum) =
      (alignIndex (absFrom next prevCum gp cum pl) (k - next).toNat : Int) := by
  induction gp with
  | nil =>
    intro cum next prevCum pl k _ _ _ h0 h1 h2
    have e1 : absFrom next prevCum [] cum pl = seg next pl := by cases cum <;> rfl
    have e2 : alignRec prevCum [] cum k = k + prevCum := by cases cum <;> rfl
    rw [e1, e2]
    have := alignIndex_residues (pl - next).toNat next.toNat [] (k - next).toNat
    simp only [append_nil] at this
    unfold seg
    rw [this, if_pos (by omega)]; omega
  | cons p ps ih =>
    intro cum next prevCum pl k hr hs hc h0 h1 h2
    cases cum with
    | nil =>
      simp only [absFrom, alignRec]
      have := alignIndex_residues (pl - next).toNat next.toNat [] (k - next).toNat
      simp only [append_nil] at this
      unfold seg
      rw [this, if_pos (by omega)]; omega
    | cons c cs =>
      have hp := hr p (by simp)
      have hs' := pairwise_cons.mp hs
      have hc' := pairwise_cons.mp hc
      have hcc := hc'.1 c (by simp)
      simp only [absFrom, alignRec, append_assoc]
      unfold seg gapCols
      rw [alignIndex_residues]
      by_cases c1 : k < p
      · rw [if_pos c1, if_pos (by omega)]; omega
      · rw [if_neg c1, if_neg (by omega), alignIndex_gaps]
        have ihh := ih cs p c pl k
          (fun q hq => ⟨Int.le_of_lt (hs'.1 q hq), (hr q (by simp [hq])).2⟩) hs'.2 hc'.2 (by omega) (by omega) h2
        have e : (k - next).toNat - (p - next).toNat = (k - p).toNat := by omega
        rw [e]
        omega

theorem align_index_spec' (m : IMap) (h : WF m) (k : Int) (h0 : 0 ≤ k) (h1 : k < m.parentLength) :
    getAlignIndex m k false = .ok (alignIndex (abs m) k.toNat : Int) := by
  rw [getAlignIndex_nn m h k h0 false]
  simp only [Bool.false_eq_true, if_false]
  have := alignRec_spec m.gapPos m.cumLens 0 0 m.parentLength k (fun p hp => h.pos_range p hp)
    h.pos_sorted h.cum_sorted (by omega) h0 h1
  simp only [Int.add_zero, Int.sub_zero] at this
  rw [this]; rfl

/-- `slice_stop=True`: one past the column of the previous residue (0 for `k = 0`) -/
theorem align_index_stop_spec' (m : IMap) (h : WF m) (k : Int) (h0 : 0 ≤ k) (h1 : k ≤ m.parentLength) :
    getAlignIndex m k true =
      .ok (if k = 0 then 0 else (alignIndex (abs m) (k - 1).toNat : Int) + 1) := by
  rw [getAlignIndex_nn m h k h0 true]
  simp only [if_true]
  rw [alignRecStop_eq]
  by_cases hk : k = 0
  · subst hk
    simp only [if_true]
    congr 1
    have hinc := h.inc
    cases hg : m.gapPos with
    | nil => cases m.cumLens <;> simp [alignRec]
    | cons p ps =>
      rw [hg] at hinc
      cases hc : m.cumLens with
      | nil => simp [alignRec]
      | cons c cs =>
        rw [hc] at hinc
        have := hinc.1
        simp only [alignRec]
        rw [if_pos (by omega)]; omega
  · rw [if_neg hk]
    have := alignRec_spec m.gapPos m.cumLens 0 0 m.parentLength (k - 1) (fun p hp => h.pos_range p hp)
      h.pos_sorted h.cum_sorted (by omega) (by omega) (by omega)
    simp only [Int.add_zero, Int.sub_zero] at this
    rw [this]; rfl

end CogentModel.IndelMap
