import Mathlib.Algebra.BigOperators.Group.List.Basic
import Mathlib.Algebra.Order.Group.Nat
import Mathlib.Tactic.Ring
import CogentModel.Model.Prune
/-!
Sanity of the first-principles definition: with `keep ≡ true`, `labelings m t` is exactly the set of
all assignments of a state `< m` to every node of `t`, and there are `m ^ (number of nodes)` of them.
-/
namespace CogentModel.Prune

variable {R α : Type}

def LTree.kids : LTree R α → List (LTree R α)
  | .leaf _ _ _ => []
  | .node _ _ cs => cs

theorem LTree.allStates_eq (p : Nat → Bool) (l : LTree R α) :
    l.allStates p = (p l.state && LTree.allStatesL p l.kids) := by
  cases l <;> simp [LTree.allStates, LTree.state, LTree.kids, LTree.allStatesL]

abbrev allKeep : α → Nat → Bool := fun _ _ => true

mutual
theorem mem_labelingsAt (m : Nat) : ∀ (t : PTree R α) (s : Nat) (l : LTree R α),
    l ∈ labelingsAt allKeep m t s ↔
      (l.erase = t ∧ l.state = s ∧ LTree.allStatesL (fun x => decide (x < m)) l.kids = true)
  | .leaf P a, s, l => by
    cases l with
    | leaf P' a' s' =>
      simp only [labelingsAt, allKeep, if_true, List.mem_singleton, LTree.leaf.injEq, LTree.erase,
        PTree.leaf.injEq, LTree.state, LTree.kids, LTree.allStatesL, and_true]
      tauto
    | node P' s' ls => simp [labelingsAt, allKeep, LTree.erase]
  | .node P cs, s, l => by
    cases l with
    | leaf P' a' s' => simp [labelingsAt, LTree.erase]
    | node P' s' ls =>
      simp only [labelingsAt, List.mem_map, LTree.node.injEq, LTree.erase, PTree.node.injEq, LTree.state,
        LTree.kids]
      constructor
      · rintro ⟨ls', hls', rfl, rfl, rfl⟩
        have := (mem_labelingsL m cs ls').mp hls'
        exact ⟨⟨rfl, this.1⟩, rfl, this.2⟩
      · rintro ⟨⟨rfl, h1⟩, rfl, h2⟩
        exact ⟨ls, (mem_labelingsL m cs ls).mpr ⟨h1, h2⟩, rfl, rfl, rfl⟩
theorem mem_labelingsL (m : Nat) : ∀ (cs : List (PTree R α)) (ls : List (LTree R α)),
    ls ∈ labelingsL allKeep m cs ↔
      (LTree.eraseL ls = cs ∧ LTree.allStatesL (fun x => decide (x < m)) ls = true)
  | [], ls => by
    cases ls <;> simp [labelingsL, LTree.eraseL, LTree.allStatesL]
  | c :: cs, ls => by
    cases ls with
    | nil => simp [labelingsL, LTree.eraseL]
    | cons l ls' =>
      simp only [labelingsL, List.mem_flatMap, List.mem_range, List.mem_map, List.cons.injEq, LTree.eraseL,
        LTree.allStatesL, Bool.and_eq_true]
      constructor
      · rintro ⟨s', hs', l', hl', ls'', hls'', rfl, rfl⟩
        obtain ⟨e1, e2, e3⟩ := (mem_labelingsAt m c s' l').mp hl'
        obtain ⟨f1, f2⟩ := (mem_labelingsL m cs ls'').mp hls''
        refine ⟨⟨e1, f1⟩, ?_, f2⟩
        rw [LTree.allStates_eq, e2, e3]; simp [hs']
      · rintro ⟨⟨e1, f1⟩, hl, f2⟩
        rw [LTree.allStates_eq] at hl
        simp only [Bool.and_eq_true, decide_eq_true_eq] at hl
        exact ⟨l.state, hl.1, l, (mem_labelingsAt m c l.state l).mpr ⟨e1, rfl, hl.2⟩, ls',
          (mem_labelingsL m cs ls').mpr ⟨f1, f2⟩, rfl, rfl⟩
end

/-- the enumeration is exactly "every node gets a state below `m`" -/
theorem mem_labelings (m : Nat) (t : PTree R α) (l : LTree R α) :
    l ∈ labelings allKeep m t ↔ (l.erase = t ∧ l.allStates (fun x => decide (x < m)) = true) := by
  simp only [labelings, List.mem_flatMap, List.mem_range, mem_labelingsAt, LTree.allStates_eq,
    Bool.and_eq_true, decide_eq_true_eq]
  constructor
  · rintro ⟨s, hs, e1, e2, e3⟩
    exact ⟨e1, by rw [e2]; exact hs, e3⟩
  · rintro ⟨e1, hs, e3⟩
    exact ⟨l.state, hs, e1, rfl, e3⟩

theorem sum_map_const {ι : Type} (xs : List ι) (k : Nat) : (xs.map fun _ => k).sum = xs.length * k := by
  induction xs with
  | nil => simp
  | cons x xs ih => simp [Nat.succ_mul, Nat.add_comm]

theorem length_labelingsAt_indep (m : Nat) (t : PTree R α) (s : Nat) :
    (labelingsAt allKeep m t s).length = (labelingsAt allKeep m t 0).length := by
  cases t <;> simp [labelingsAt, allKeep]

mutual
theorem length_labelingsAt (m : Nat) : ∀ (t : PTree R α) (s : Nat),
    (labelingsAt allKeep m t s).length * m = m ^ t.numNodes
  | .leaf P a, s => by simp [labelingsAt, allKeep, PTree.numNodes]
  | .node P cs, s => by
    simp only [labelingsAt, List.length_map, PTree.numNodes, length_labelingsL m cs]
    rw [Nat.pow_add, Nat.pow_one, Nat.mul_comm]
theorem length_labelingsL (m : Nat) : ∀ (cs : List (PTree R α)),
    (labelingsL allKeep m cs).length = m ^ PTree.numNodesL cs
  | [] => by simp [labelingsL, PTree.numNodesL]
  | c :: cs => by
    simp only [labelingsL, List.length_flatMap, List.length_map, sum_map_const]
    have h : ∀ s' ∈ List.range m,
        (labelingsAt allKeep m c s').length * (labelingsL allKeep m cs).length
          = (labelingsAt allKeep m c 0).length * (labelingsL allKeep m cs).length :=
      fun s' _ => by rw [length_labelingsAt_indep m c s']
    rw [List.map_congr_left h, sum_map_const, List.length_range, length_labelingsL m cs, PTree.numNodesL,
      Nat.pow_add, ← length_labelingsAt m c 0]
    ring
end

theorem length_labelings (m : Nat) (t : PTree R α) : (labelings allKeep m t).length = m ^ t.numNodes := by
  have h : ∀ s ∈ List.range m, (labelingsAt allKeep m t s).length = (labelingsAt allKeep m t 0).length :=
    fun s _ => length_labelingsAt_indep m t s
  simp only [labelings, List.length_flatMap]
  rw [List.map_congr_left h, sum_map_const, List.length_range, Nat.mul_comm, length_labelingsAt]

end CogentModel.Prune
