import CogentModel.Model.SeqFormats
import CogentModel.Spec.FastaText
import CogentModel.Proofs.SeqFormats
/-! Helper lemmas for C06: the three FASTA parsers on well-formed texts that are not writer shaped. -/
namespace CogentModel.SeqFormats
open CogentModel.Splitlines CogentModel.SeqSpec CogentModel.FastaText

/-! ### terminated lines -> `splitlines` -/

/-- a text given as (content, terminator) lines -/
def rawTL (tl : List (Str × Term)) : Str := tl.flatMap (fun p => p.1 ++ eol p.2)

/-- only the last line may be unterminated, and then it is not empty -/
def tlOk : List (Str × Term) → Prop
  | [] => True
  | [p] => p.2 = .eof → p.1 ≠ []
  | p :: q :: r => p.2 ≠ .eof ∧ tlOk (q :: r)

theorem crlfAux_noCR_app : ∀ (c X : Str), (∀ d ∈ c, d ≠ '\r') → crlfAux false (c ++ X) = c ++ crlfAux false X
  | [], _, _ => rfl
  | d :: ds, X, h => by
    have hd : d ≠ '\r' := h d List.mem_cons_self
    have ih := crlfAux_noCR_app ds X (fun x hx => h x (List.mem_cons_of_mem _ hx))
    simp [crlfAux, hd, ih]

theorem crlfAux_lf (R : Str) : crlfAux false ('\n' :: R) = '\n' :: crlfAux false R := by
  simp [crlfAux]

theorem crlfAux_crlf (R : Str) : crlfAux false ('\r' :: '\n' :: R) = '\r' :: crlfAux false R := by
  simp [crlfAux]

theorem splitCore_line_brk {l : Str} (h : ∀ c ∈ l, isBreak c = false) {b : Char} (hb : isBreak b = true) (r : Str) :
    splitCore (l ++ b :: r) = l :: splitCore r := by
  induction l with
  | nil => simp [splitCore, hb]
  | cons c cs ih =>
    have hc := h c List.mem_cons_self
    have := ih (fun d hd => h d (List.mem_cons_of_mem _ hd))
    simp [splitCore, hc, this, consHead]

theorem splitCore_single : ∀ {l : Str}, l ≠ [] → (∀ c ∈ l, isBreak c = false) → splitCore l = [l]
  | [], h, _ => absurd rfl h
  | [c], _, h => by simp [splitCore, h c List.mem_cons_self, consHead]
  | c :: c2 :: cs, _, h => by
    have ih := splitCore_single (l := c2 :: cs) (by simp) (fun d hd => h d (List.mem_cons_of_mem _ hd))
    have hc := h c List.mem_cons_self
    rw [splitCore]
    simp only [hc, Bool.false_eq_true, if_false, ih, consHead]

theorem noBreak_noCR {c : Str} (h : ∀ d ∈ c, isBreak d = false) : ∀ d ∈ c, d ≠ '\r' := by
  intro d hd e
  have := h d hd
  subst e
  exact absurd this (by decide)

/-- the lines of a text of terminated lines are the contents -/
theorem pySplitlines_rawTL : ∀ (tl : List (Str × Term)), (∀ p ∈ tl, ∀ c ∈ p.1, isBreak c = false) → tlOk tl →
    pySplitlines (rawTL tl) = tl.map (·.1)
  | [], _, _ => by simp [rawTL, pySplitlines, crlfAux, splitCore]
  | (c, t) :: rest, hnb, hok => by
    have hc := hnb (c, t) List.mem_cons_self
    have hrest : ∀ p ∈ rest, ∀ x ∈ p.1, isBreak x = false := fun p hp => hnb p (List.mem_cons_of_mem _ hp)
    have hokr : tlOk rest := by
      cases rest with
      | nil => trivial
      | cons q r => exact hok.2
    have ih := pySplitlines_rawTL rest hrest hokr
    unfold pySplitlines at ih ⊢
    simp only [rawTL, List.flatMap_cons, List.append_assoc, List.map_cons] at ih ⊢
    rw [crlfAux_noCR_app _ _ (noBreak_noCR hc)]
    cases t with
    | lf =>
      rw [show eol Term.lf = ['\n'] from rfl]
      simp only [List.cons_append, List.nil_append]
      rw [crlfAux_lf, splitCore_line_brk hc (by decide), ih]
    | crlf =>
      rw [show eol Term.crlf = ['\r', '\n'] from rfl]
      simp only [List.cons_append, List.nil_append]
      rw [crlfAux_crlf, splitCore_line_brk hc (by decide), ih]
    | eof =>
      cases rest with
      | nil =>
        have hne : c ≠ [] := hok rfl
        rw [show eol Term.eof = [] from rfl]
        simp only [List.flatMap_nil, List.append_nil, List.map_nil, crlfAux]
        exact splitCore_single hne hc
      | cons q r => exact absurd rfl hok.1

/-! ### whitespace -/

theorem dropWhile_all_app {p : Char → Bool} : ∀ (a b : Str), (∀ c ∈ a, p c = true) → (a ++ b).dropWhile p = b.dropWhile p
  | [], _, _ => rfl
  | c :: cs, b, h => by
    have hc := h c List.mem_cons_self
    have ih := dropWhile_all_app cs b (fun d hd => h d (List.mem_cons_of_mem _ hd))
    simp [List.dropWhile, hc, ih]

theorem dropWhile_all {p : Char → Bool} (a : Str) (h : ∀ c ∈ a, p c = true) : a.dropWhile p = [] := by
  have := dropWhile_all_app a [] h
  simpa using this

/-- `strip` of blanks, a label, blanks = the label -/
theorem stripBy_around {p : Char → Bool} {pre name post : Str} (hpre : ∀ c ∈ pre, p c = true)
    (hpost : ∀ c ∈ post, p c = true) (hh : ∀ c, name.head? = some c → p c = false)
    (hl : ∀ c, name.getLast? = some c → p c = false) : stripBy p (pre ++ name ++ post) = name := by
  unfold stripBy rstripBy
  rw [List.append_assoc, dropWhile_all_app _ _ hpre]
  cases hn : name with
  | nil =>
    simp only [List.nil_append]
    rw [dropWhile_all post hpost]; rfl
  | cons a as =>
    rw [← hn, dropWhile_id_of_head (s := name ++ post) (by
      intro c hc; apply hh c; rw [hn] at hc ⊢; simpa using hc)]
    rw [List.reverse_append, dropWhile_all_app _ _ (fun c hc => hpost c (List.mem_reverse.mp hc))]
    rw [dropWhile_id_of_head (by rw [List.head?_reverse]; exact hl), List.reverse_reverse]

theorem filter_dropWhile {p : Char → Bool} : ∀ (l : Str), (l.dropWhile p).filter (fun c => !p c) = l.filter (fun c => !p c)
  | [] => rfl
  | c :: cs => by
    by_cases h : p c = true
    · simp [List.dropWhile, h, filter_dropWhile cs]
    · simp [List.dropWhile, h]

theorem removeWs_strip (l : Str) : removeWs (strip l) = removeWs l := by
  unfold removeWs strip stripBy rstripBy
  rw [List.filter_reverse, filter_dropWhile, ← List.filter_reverse, List.reverse_reverse, filter_dropWhile]

theorem clean_snoc_strip (seq : List Str) (l : Str) : clean (seq ++ [strip l]) = clean seq ++ removeWs l := by
  unfold clean
  simp only [List.flatten_append, List.flatten_cons, List.flatten_nil, List.append_nil]
  rw [removeWs, List.filter_append]
  exact congrArg _ (removeWs_strip l)

/-! ### the line based parsers on general body lines -/

theorem bodyChar_facts {c : Char} (h : bodyChar c = true) :
    c ≠ '#' ∧ c ≠ '>' ∧ isBreak c = false ∧ isSpaceStr c = isBT c := by
  simp only [bodyChar, Bool.or_eq_true] at h
  rcases h with h | h
  · refine ⟨seqChar_not_hash h, ?_, printable_not_break (seqChar_printable h), ?_⟩
    · intro e; have := seqChar_not_label h; subst e; simp at this
    · rw [seqChar_not_space h]
      have h1 : c ≠ ' ' := seqChar_ne_space h
      have h2 : c ≠ '\t' := by
        intro e
        have := seqChar_printable h
        subst e
        exact absurd this (by decide)
      simp [isBT, h1, h2]
  · simp only [isBT, Bool.or_eq_true, decide_eq_true_eq] at h
    rcases h with h | h <;> subst h <;> decide

/-- the non-empty lines, stripped: what the line parsers append to `seq` -/
def kept (cs : List Str) : List Str := (cs.filter (fun c => !c.isEmpty)).map strip

theorem strictGo_body (label : Option Str) : ∀ (cs seq rest : List Str),
    (∀ c ∈ cs, ∀ x ∈ c, bodyChar x = true) →
    strictGo ['>'] label seq (cs ++ rest) = strictGo ['>'] label (seq ++ kept cs) rest
  | [], seq, rest, _ => by simp [kept]
  | c :: cs, seq, rest, h => by
    have hc := h c List.mem_cons_self
    have ih := fun s => strictGo_body label cs s rest (fun x hx => h x (List.mem_cons_of_mem _ hx))
    simp only [List.cons_append]
    rw [strictGo_cons]
    cases hce : c with
    | nil => simp [kept, ih]
    | cons a as =>
      have ha := bodyChar_facts (hc a (by rw [hce]; exact List.mem_cons_self))
      have h1 : ¬ (a = '#') := ha.1
      have h2 : ¬ (a = '>') := ha.2.1
      simp only [List.isEmpty_cons, List.head?_cons, Option.some.injEq, h1, decide_false, Bool.or_self,
        Bool.false_eq_true, if_false, isLabel, List.contains_cons, List.contains_nil, Bool.or_false, beq_iff_eq, h2]
      rw [ih (seq ++ [strip (a :: as)])]
      congr 1
      simp [kept]

theorem fasterGo_body (label : Option Str) : ∀ (cs seq rest : List Str),
    (∀ c ∈ cs, ∀ x ∈ c, bodyChar x = true) →
    fasterGo ['>'] label seq (cs ++ rest) = fasterGo ['>'] label (seq ++ kept cs) rest
  | [], seq, rest, _ => by simp [kept]
  | c :: cs, seq, rest, h => by
    have hc := h c List.mem_cons_self
    have ih := fun s => fasterGo_body label cs s rest (fun x hx => h x (List.mem_cons_of_mem _ hx))
    simp only [List.cons_append]
    rw [fasterGo_cons]
    cases hce : c with
    | nil => simp [kept, ih]
    | cons a as =>
      have ha := bodyChar_facts (hc a (by rw [hce]; exact List.mem_cons_self))
      have h2 : ¬ (a = '>') := ha.2.1
      simp only [List.isEmpty_cons, Bool.false_eq_true, if_false, isLabel, List.contains_cons, List.contains_nil,
        Bool.or_false, beq_iff_eq, h2]
      rw [ih]
      simp [kept]

theorem removeWs_append (a b : Str) : removeWs (a ++ b) = removeWs a ++ removeWs b := by
  simp [removeWs]

theorem clean_kept : ∀ (cs : List Str), clean (kept cs) = removeWs cs.flatten
  | [] => by simp [kept, clean, removeWs]
  | c :: cs => by
    have ih := clean_kept cs
    cases hc : c with
    | nil => simpa [kept] using ih
    | cons a as =>
      have : kept ((a :: as) :: cs) = strip (a :: as) :: kept cs := by simp [kept]
      rw [this]
      unfold clean at ih ⊢
      rw [List.flatten_cons, List.flatten_cons, removeWs_append, removeWs_append, removeWs_strip, ih]

theorem removeWs_body {s : Str} (h : ∀ x ∈ s, bodyChar x = true) : removeWs s = s.filter (fun c => !isBT c) := by
  unfold removeWs
  apply List.filter_congr
  intro x hx
  rw [(bodyChar_facts (h x hx)).2.2.2]

/-! ### the facts packed into `wfRec` / `wfFile` -/

structure RecFacts (g : GRec) : Prop where
  pre : ∀ c ∈ g.pre, isBT c = true
  post : ∀ c ∈ g.post, isBT c = true
  namePrintable : ∀ c ∈ g.name, printable c = true
  nameHead : g.name.head? ≠ some ' '
  nameLast : g.name.getLast? ≠ some ' '
  body : ∀ l ∈ g.body, ∀ x ∈ l.content, bodyChar x = true
  nonEmpty : ∃ l ∈ g.body, l.content ≠ []

theorem wfRec_facts {last : Bool} {g : GRec} (h : wfRec last g = true) : RecFacts g ∧ bodyOk last g.body = true := by
  simp only [wfRec, wfLabel, Bool.and_eq_true, List.all_eq_true, List.any_eq_true, bne_iff_ne, ne_eq,
    Bool.not_eq_true'] at h
  obtain ⟨⟨⟨⟨⟨h1, h2⟩, ⟨h3, h4⟩, h5⟩, h6⟩, h7⟩, h8⟩ := h
  refine ⟨⟨h1, h2, h3, h4, h5, h6, ?_⟩, h8⟩
  obtain ⟨l, hl, hne⟩ := h7
  exact ⟨l, hl, by intro e; rw [e] at hne; simp at hne⟩

theorem wfFile_facts : ∀ {gs : List GRec}, wfFile gs = true → ∀ g ∈ gs, RecFacts g
  | [], _, g, hg => by simp at hg
  | [g0], h, g, hg => by
    simp at hg; subst hg
    exact (wfRec_facts (last := true) (by simpa [wfFile] using h)).1
  | g0 :: g1 :: gs, h, g, hg => by
    simp only [wfFile, Bool.and_eq_true] at h
    rcases List.mem_cons.mp hg with e | e
    · subst e; exact (wfRec_facts h.1).1
    · exact wfFile_facts h.2 g e

theorem isBT_space {c : Char} (h : isBT c = true) : isSpaceStr c = true ∧ isSpaceBytes c = true ∧
    isBreak c = false ∧ c ≠ '\n' ∧ c ≠ '>' := by
  simp only [isBT, Bool.or_eq_true, decide_eq_true_eq] at h
  rcases h with h | h <;> subst h <;> decide

theorem RecFacts.label_noNl {g : GRec} (f : RecFacts g) : ∀ c ∈ labelRest g, c ≠ '\n' ∧ isBreak c = false := by
  intro c hc
  simp only [labelRest, List.mem_append] at hc
  rcases hc with (h | h) | h
  · exact ⟨(isBT_space (f.pre c h)).2.2.2.1, (isBT_space (f.pre c h)).2.2.1⟩
  · exact ⟨printable_ne_nl (f.namePrintable c h), printable_not_break (f.namePrintable c h)⟩
  · exact ⟨(isBT_space (f.post c h)).2.2.2.1, (isBT_space (f.post c h)).2.2.1⟩

theorem RecFacts.strip_label {g : GRec} (f : RecFacts g) : strip (labelRest g) = g.name := by
  unfold strip labelRest
  apply stripBy_around (fun c hc => (isBT_space (f.pre c hc)).1) (fun c hc => (isBT_space (f.post c hc)).1)
  · intro c hc
    rw [printable_space (f.namePrintable c (List.mem_of_head? hc))]
    have : c ≠ ' ' := by rintro rfl; exact f.nameHead hc
    simpa using this
  · intro c hc
    rw [printable_space (f.namePrintable c (List.mem_of_getLast? hc))]
    have : c ≠ ' ' := by rintro rfl; exact f.nameLast hc
    simpa using this

/-- the contents of the body lines -/
def bodyContents (g : GRec) : List Str := g.body.map (·.content)

theorem flatten_bodyContents (g : GRec) : (bodyContents g).flatten = g.body.flatMap (·.content) := by
  unfold bodyContents
  induction g.body with
  | nil => rfl
  | cons l ls ih => simp [ih]

theorem RecFacts.kept_ne_nil {g : GRec} (f : RecFacts g) : kept (bodyContents g) ≠ [] := by
  obtain ⟨l, hl, hne⟩ := f.nonEmpty
  unfold kept bodyContents
  intro e
  have hmem : l.content ∈ (g.body.map (·.content)).filter (fun c => !c.isEmpty) := by
    rw [List.mem_filter]
    refine ⟨List.mem_map.mpr ⟨l, hl, rfl⟩, ?_⟩
    cases h : l.content <;> simp_all
  have := List.mem_map_of_mem (f := strip) hmem
  rw [e] at this
  simp at this

theorem RecFacts.clean_kept {g : GRec} (f : RecFacts g) : clean (kept (bodyContents g)) = residues g := by
  rw [SeqFormats.clean_kept, flatten_bodyContents, removeWs_body, residues]
  intro x hx
  obtain ⟨l, hl, hxl⟩ := List.mem_flatMap.mp hx
  exact f.body l hl x hxl

/-- all lines of the file, without terminators -/
def gLines (gs : List GRec) : List Str := gs.flatMap (fun g => ('>' :: labelRest g) :: bodyContents g)

theorem strictGo_grecs : ∀ (gs : List GRec) (label : Str) (seq : List Str), (∀ g ∈ gs, RecFacts g) → seq ≠ [] →
    strictGo ['>'] (some label) seq (gLines gs) = .ok ((label, clean seq) :: records gs)
  | [], label, seq, _, hs => by
    have : seq.isEmpty = false := by cases seq <;> simp at hs ⊢
    simp [gLines, strictGo, this, records]
  | g :: gs, label, seq, hf, hs => by
    have f := hf g List.mem_cons_self
    have hse : seq.isEmpty = false := by cases seq <;> simp at hs ⊢
    have ih := strictGo_grecs gs g.name (kept (bodyContents g)) (fun x hx => hf x (List.mem_cons_of_mem _ hx)) f.kept_ne_nil
    simp only [gLines, List.flatMap_cons, List.cons_append] at ih ⊢
    rw [strictGo_cons]
    simp only [List.isEmpty_cons, List.head?_cons, Option.some.injEq, show ¬ ('>' = '#') by decide, decide_false,
      Bool.or_self, Bool.false_eq_true, if_false, isLabel, List.contains_cons, beq_self_eq_true, Bool.true_or, if_true,
      hse, List.drop_one, List.tail_cons, f.strip_label]
    rw [strictGo_body (some g.name) (bodyContents g) [] _ (by
      intro c hc x hx
      obtain ⟨l, hl, rfl⟩ := List.mem_map.mp hc
      exact f.body l hl x hx)]
    simp only [List.nil_append]
    rw [ih, f.clean_kept]
    simp [Except.map, records]

theorem strictParser_grecs (gs : List GRec) (hne : gs ≠ []) (hf : ∀ g ∈ gs, RecFacts g) :
    strictParser ['>'] (gLines gs) = .ok (records gs) := by
  cases gs with
  | nil => exact absurd rfl hne
  | cons g gs =>
    have f := hf g List.mem_cons_self
    have ih := strictGo_grecs gs g.name (kept (bodyContents g)) (fun x hx => hf x (List.mem_cons_of_mem _ hx)) f.kept_ne_nil
    unfold strictParser
    simp only [gLines, List.flatMap_cons, List.cons_append] at ih ⊢
    rw [strictGo_cons]
    simp only [List.isEmpty_cons, List.head?_cons, Option.some.injEq, show ¬ ('>' = '#') by decide, decide_false,
      Bool.or_self, Bool.false_eq_true, if_false, isLabel, List.contains_cons, beq_self_eq_true, Bool.true_or, if_true,
      List.isEmpty_nil, Bool.not_true, List.drop_one, List.tail_cons, f.strip_label]
    rw [strictGo_body (some g.name) (bodyContents g) [] _ (by
      intro c hc x hx
      obtain ⟨l, hl, rfl⟩ := List.mem_map.mp hc
      exact f.body l hl x hx)]
    simp only [List.nil_append]
    rw [ih, f.clean_kept]
    simp [records]

theorem fasterGo_grecs : ∀ (gs : List GRec) (label : Str) (seq : List Str), (∀ g ∈ gs, RecFacts g) → seq ≠ [] →
    fasterGo ['>'] (some label) seq (gLines gs) = (label, clean seq) :: records gs
  | [], label, seq, _, hs => by
    have : seq.isEmpty = false := by cases seq <;> simp at hs ⊢
    simp [gLines, fasterGo, this, records]
  | g :: gs, label, seq, hf, hs => by
    have f := hf g List.mem_cons_self
    have hse : seq.isEmpty = false := by cases seq <;> simp at hs ⊢
    have ih := fasterGo_grecs gs g.name (kept (bodyContents g)) (fun x hx => hf x (List.mem_cons_of_mem _ hx)) f.kept_ne_nil
    simp only [gLines, List.flatMap_cons, List.cons_append] at ih ⊢
    rw [fasterGo_cons]
    simp only [List.isEmpty_cons, Bool.false_eq_true, if_false, isLabel, List.contains_cons, beq_self_eq_true,
      Bool.true_or, if_true, hse, List.drop_one, List.tail_cons, f.strip_label]
    rw [fasterGo_body (some g.name) (bodyContents g) [] _ (by
      intro c hc x hx
      obtain ⟨l, hl, rfl⟩ := List.mem_map.mp hc
      exact f.body l hl x hx)]
    simp only [List.nil_append]
    rw [ih, f.clean_kept]
    simp [records]

theorem fasterParser_grecs (gs : List GRec) (hf : ∀ g ∈ gs, RecFacts g) :
    fasterParser ['>'] (gLines gs) = records gs := by
  cases gs with
  | nil => simp [fasterParser, gLines, fasterGo, records]
  | cons g gs =>
    have f := hf g List.mem_cons_self
    have ih := fasterGo_grecs gs g.name (kept (bodyContents g)) (fun x hx => hf x (List.mem_cons_of_mem _ hx)) f.kept_ne_nil
    unfold fasterParser
    simp only [gLines, List.flatMap_cons, List.cons_append] at ih ⊢
    rw [fasterGo_cons]
    simp only [List.isEmpty_cons, Bool.false_eq_true, if_false, isLabel, List.contains_cons, beq_self_eq_true,
      Bool.true_or, if_true, List.isEmpty_nil, List.drop_one, List.tail_cons, f.strip_label]
    rw [fasterGo_body (some g.name) (bodyContents g) [] _ (by
      intro c hc x hx
      obtain ⟨l, hl, rfl⟩ := List.mem_map.mp hc
      exact f.body l hl x hx)]
    simp only [List.nil_append]
    rw [ih, f.clean_kept]
    simp [records]

/-! ### the text of a general file as terminated lines -/

def bodyTL (body : List GLine) : List (Str × Term) := body.map (fun l => (l.content, l.term))
def allTL (gs : List GRec) : List (Str × Term) :=
  gs.flatMap (fun g => ('>' :: labelRest g, labelTerm g) :: bodyTL g.body)

theorem rawTL_append (a b : List (Str × Term)) : rawTL (a ++ b) = rawTL a ++ rawTL b := by simp [rawTL]

theorem rawTL_bodyTL (body : List GLine) : rawTL (bodyTL body) = bodyRaw body := by
  unfold rawTL bodyTL bodyRaw lineRaw
  induction body with
  | nil => rfl
  | cons l ls ih => simp [ih]

theorem fileRaw_eq_rawTL : ∀ (gs : List GRec), fileRaw gs = rawTL (allTL gs)
  | [] => by simp [fileRaw, allTL, rawTL]
  | g :: gs => by
    have ih := fileRaw_eq_rawTL gs
    simp only [fileRaw, allTL, List.flatMap_cons] at ih ⊢
    rw [rawTL_append, ← ih]
    congr 1
    rw [show (('>' :: labelRest g, labelTerm g) :: bodyTL g.body) = [('>' :: labelRest g, labelTerm g)] ++ bodyTL g.body from rfl,
      rawTL_append, rawTL_bodyTL]
    simp [rawTL, recRaw]

theorem allTL_contents : ∀ (gs : List GRec), (allTL gs).map (·.1) = gLines gs
  | [] => rfl
  | g :: gs => by
    have ih := allTL_contents gs
    simp only [allTL, gLines, List.flatMap_cons, List.map_append, List.map_cons] at ih ⊢
    rw [ih]
    simp [bodyTL, bodyContents]

def noEof (tl : List (Str × Term)) : Prop := ∀ p ∈ tl, p.2 ≠ Term.eof

theorem tlOk_noEof_append : ∀ (a b : List (Str × Term)), noEof a → tlOk b → tlOk (a ++ b)
  | [], _, _, hb => hb
  | [p], b, ha, hb => by
    cases b with
    | nil => intro e; exact absurd e (ha p List.mem_cons_self)
    | cons q r => exact ⟨ha p List.mem_cons_self, hb⟩
  | p :: p2 :: ps, b, ha, hb =>
    ⟨ha p List.mem_cons_self, tlOk_noEof_append (p2 :: ps) b (fun x hx => ha x (List.mem_cons_of_mem _ hx)) hb⟩

theorem bodyOk_false_noEof : ∀ (body : List GLine), bodyOk false body = true → noEof (bodyTL body)
  | [], _ => by intro p hp; simp [bodyTL] at hp
  | [l], h => by
    intro p hp
    simp only [bodyTL, List.map_cons, List.map_nil, List.mem_singleton] at hp
    subst hp
    simpa [bodyOk] using h
  | l :: l2 :: ls, h => by
    simp only [bodyOk, Bool.and_eq_true, bne_iff_ne, ne_eq] at h
    intro p hp
    rcases List.mem_cons.mp hp with e | e
    · subst e; exact h.1
    · exact bodyOk_false_noEof (l2 :: ls) h.2 p e

theorem bodyOk_tlOk : ∀ (last : Bool) (body : List GLine), bodyOk last body = true → tlOk (bodyTL body)
  | _, [], _ => trivial
  | last, [l], h => by
    intro e
    simp only [bodyOk, Bool.or_eq_true, bne_iff_ne, ne_eq, Bool.and_eq_true, Bool.not_eq_true'] at h
    rcases h with h | h
    · exact absurd e h
    · intro e2; simp only [bodyTL] at e2; rw [e2] at h; simp at h
  | last, l :: l2 :: ls, h => by
    simp only [bodyOk, Bool.and_eq_true, bne_iff_ne, ne_eq] at h
    exact ⟨h.1, bodyOk_tlOk last (l2 :: ls) h.2⟩

theorem labelTerm_ne_eof (g : GRec) : labelTerm g ≠ Term.eof := by
  unfold labelTerm; split <;> simp

theorem wfFile_tlOk : ∀ (gs : List GRec), wfFile gs = true → tlOk (allTL gs)
  | [], _ => trivial
  | [g], h => by
    have hb := (wfRec_facts (last := true) (by simpa [wfFile] using h)).2
    simp only [allTL, List.flatMap_cons, List.flatMap_nil, List.append_nil]
    have := tlOk_noEof_append [('>' :: labelRest g, labelTerm g)] (bodyTL g.body)
      (by intro p hp; simp at hp; subst hp; exact labelTerm_ne_eof g) (bodyOk_tlOk true _ hb)
    simpa using this
  | g :: g2 :: gs, h => by
    simp only [wfFile, Bool.and_eq_true] at h
    have hb := (wfRec_facts h.1).2
    have ih := wfFile_tlOk (g2 :: gs) h.2
    simp only [allTL, List.flatMap_cons] at ih ⊢
    apply tlOk_noEof_append _ _ _ ih
    intro p hp
    rcases List.mem_cons.mp hp with e | e
    · subst e; exact labelTerm_ne_eof g
    · exact bodyOk_false_noEof _ hb p e

theorem allTL_noBreak (gs : List GRec) (hf : ∀ g ∈ gs, RecFacts g) :
    ∀ p ∈ allTL gs, ∀ c ∈ p.1, isBreak c = false := by
  intro p hp c hc
  simp only [allTL, List.mem_flatMap, List.mem_cons] at hp
  obtain ⟨g, hg, hp | hp⟩ := hp
  · subst hp
    rcases List.mem_cons.mp hc with e | e
    · subst e; decide
    · exact ((hf g hg).label_noNl c e).2
  · simp only [bodyTL, List.mem_map] at hp
    obtain ⟨l, hl, rfl⟩ := hp
    exact (bodyChar_facts ((hf g hg).body l hl c hc)).2.2.1

/-- the lines `splitlines` finds in a well-formed general file -/
theorem pySplitlines_fileRaw (gs : List GRec) (h : wfFile gs = true) : pySplitlines (fileRaw gs) = gLines gs := by
  rw [fileRaw_eq_rawTL, pySplitlines_rawTL _ (allTL_noBreak gs (wfFile_facts h)) (wfFile_tlOk gs h), allTL_contents]

/-! ### the bytes based parser on a general file -/

theorem noSplit_append : ∀ (a : Str) (bol : Bool) (b : Str), NoSplit bol a → (∀ bol', NoSplit bol' b) → NoSplit bol (a ++ b)
  | [], bol, b, _, hb => hb bol
  | c :: cs, bol, b, ha, hb => ⟨ha.1, noSplit_append cs _ b ha.2 hb⟩

theorem noSplit_noGt : ∀ (c : Str) (bol : Bool), (∀ x ∈ c, x ≠ '>') → NoSplit bol c
  | [], _, _ => trivial
  | x :: xs, bol, h =>
    ⟨fun ⟨_, e⟩ => h x List.mem_cons_self e, noSplit_noGt xs _ (fun y hy => h y (List.mem_cons_of_mem _ hy))⟩

theorem noSplit_noNl : ∀ (c : Str), (∀ x ∈ c, x ≠ '\n') → NoSplit false c
  | [], _ => trivial
  | x :: xs, h => by
    refine ⟨fun hh => absurd hh.1 (by decide), ?_⟩
    have : decide (x = '\n') = false := by simpa using h x List.mem_cons_self
    rw [this]
    exact noSplit_noNl xs (fun y hy => h y (List.mem_cons_of_mem _ hy))

theorem eol_noGt (t : Term) : ∀ x ∈ eol t, x ≠ '>' := by
  cases t <;> simp [eol] <;> decide

theorem bodyRaw_noGt {g : GRec} (f : RecFacts g) : ∀ x ∈ bodyRaw g.body, x ≠ '>' := by
  intro x hx
  simp only [bodyRaw, lineRaw, List.mem_flatMap, List.mem_append] at hx
  obtain ⟨l, hl, h | h⟩ := hx
  · exact (bodyChar_facts (f.body l hl x h)).2.1
  · exact eol_noGt _ x h

theorem noSplit_recRaw {g : GRec} (f : RecFacts g) : NoSplit false (recRaw g) := by
  unfold recRaw
  rw [List.append_assoc]
  apply noSplit_append _ _ _ (noSplit_noNl _ (fun x hx => (f.label_noNl x hx).1))
  intro bol'
  apply noSplit_noGt
  intro x hx
  rcases List.mem_append.mp hx with h | h
  · exact eol_noGt _ x h
  · exact bodyRaw_noGt f x h

theorem bodyRaw_last : ∀ (body : List GLine), body ≠ [] → bodyOk false body = true → (bodyRaw body).getLast? = some '\n'
  | [], h, _ => absurd rfl h
  | [l], _, h => by
    have ht : l.term ≠ Term.eof := by simpa [bodyOk] using h
    simp only [bodyRaw, List.flatMap_cons, List.flatMap_nil, List.append_nil, lineRaw]
    cases hh : l.term with
    | lf => simp [eol]
    | crlf => simp [eol, List.getLast?_append]
    | eof => exact absurd hh ht
  | l :: l2 :: ls, _, h => by
    simp only [bodyOk, Bool.and_eq_true] at h
    have ih := bodyRaw_last (l2 :: ls) (by simp) h.2
    simp only [bodyRaw, List.flatMap_cons] at ih ⊢
    rw [List.getLast?_append, ih]; rfl

theorem recRaw_last {g : GRec} (f : RecFacts g) (h : bodyOk false g.body = true) : (recRaw g).getLast? = some '\n' := by
  unfold recRaw
  obtain ⟨l, hl, _⟩ := f.nonEmpty
  have hne : g.body ≠ [] := by intro e; rw [e] at hl; simp at hl
  rw [List.getLast?_append, bodyRaw_last g.body hne h]; rfl

/-- all records but the last end with a newline -/
def endsOk : List Str → Prop
  | [] => True
  | [_] => True
  | p :: q :: r => p.getLast? = some '\n' ∧ endsOk (q :: r)

theorem splitLabelStart_pieces : ∀ (ps : List Str) (p : Str), (∀ x ∈ p :: ps, NoSplit false x) → endsOk (p :: ps) →
    splitLabelStart false (p ++ ps.flatMap (fun x => '>' :: x)) = p :: ps
  | [], p, h, _ => by simpa using splitLabelStart_none _ _ (h p List.mem_cons_self)
  | q :: ps, p, h, he => by
    have ih := splitLabelStart_pieces ps q (fun x hx => h x (List.mem_cons_of_mem _ hx)) he.2
    simp only [List.flatMap_cons, List.cons_append]
    rw [splitLabelStart_sep _ _ _ (h p List.mem_cons_self) he.1, ih]

theorem wfFile_endsOk : ∀ (gs : List GRec), wfFile gs = true → endsOk (gs.map recRaw)
  | [], _ => trivial
  | [g], _ => trivial
  | g :: g2 :: gs, h => by
    simp only [wfFile, Bool.and_eq_true] at h
    obtain ⟨f, hb⟩ := wfRec_facts h.1
    exact ⟨recRaw_last f hb, wfFile_endsOk (g2 :: gs) h.2⟩

theorem convDel_body {x : Char} (h : bodyChar x = true) :
    (!(x = '\n' || x = '\r' || x = '\t' || x = ' ')) = !isBT x := by
  simp only [bodyChar, Bool.or_eq_true] at h
  rcases h with h | h
  · rw [printable_not_convDel (seqChar_printable h) (seqChar_ne_space h)]
    have h2 : x ≠ '\t' := by
      intro e
      have := seqChar_printable h
      subst e
      exact absurd this (by decide)
    simp [isBT, seqChar_ne_space h, h2]
  · simp only [isBT, Bool.or_eq_true, decide_eq_true_eq] at h
    rcases h with h | h <;> subst h <;> decide

theorem filter_bodyRaw : ∀ (body : List GLine), (∀ l ∈ body, ∀ x ∈ l.content, bodyChar x = true) →
    (bodyRaw body).filter (fun c => !(c = '\n' || c = '\r' || c = '\t' || c = ' ')) =
      (body.flatMap (·.content)).filter (fun c => !isBT c)
  | [], _ => rfl
  | l :: ls, h => by
    have ih := filter_bodyRaw ls (fun x hx => h x (List.mem_cons_of_mem _ hx))
    simp only [bodyRaw, lineRaw, List.flatMap_cons, List.filter_append] at ih ⊢
    rw [ih]
    have h1 : l.content.filter (fun c => !(c = '\n' || c = '\r' || c = '\t' || c = ' ')) = l.content.filter (fun c => !isBT c) := by
      apply List.filter_congr
      intro x hx
      exact convDel_body (h l List.mem_cons_self x hx)
    have h2 : (eol l.term).filter (fun c => !(c = '\n' || c = '\r' || c = '\t' || c = ' ')) = [] := by
      cases l.term <;> simp [eol]
    rw [h1, h2]; simp

theorem bytesRecord_recRaw {g : GRec} (f : RecFacts g) : bytesRecord (recRaw g) = some (g.name, upper (residues g)) := by
  -- recRaw g = (labelRest g ++ cr) ++ '\n' :: bodyRaw
  have hshape : ∃ cr : Str, (∀ c ∈ cr, c = '\r') ∧ recRaw g = (labelRest g ++ cr) ++ '\n' :: bodyRaw g.body := by
    unfold recRaw labelTerm
    by_cases hc : g.crlf = true
    · exact ⟨['\r'], by simp, by simp [hc, eol]⟩
    · exact ⟨[], by simp, by simp [hc, eol]⟩
  obtain ⟨cr, hcr, hraw⟩ := hshape
  have hnl : '\n' ∉ labelRest g ++ cr := by
    intro hm
    rcases List.mem_append.mp hm with h | h
    · exact (f.label_noNl _ h).1 rfl
    · exact absurd (hcr _ h) (by decide)
  obtain ⟨h1, h2⟩ := takeWhile_nl hnl (bodyRaw g.body)
  have hne : (recRaw g).isEmpty = false := by rw [hraw]; cases labelRest g ++ cr <;> simp
  have hcont : (recRaw g).contains '\n' = true := by rw [hraw]; simp
  have hlabel : bstrip (labelRest g ++ cr) = g.name := by
    unfold bstrip labelRest
    rw [List.append_assoc]
    apply stripBy_around (fun c hc => (isBT_space (f.pre c hc)).2.1)
    · intro c hc
      rcases List.mem_append.mp hc with h | h
      · exact (isBT_space (f.post c h)).2.1
      · rw [hcr c h]; decide
    · intro c hc
      rw [printable_bspace (f.namePrintable c (List.mem_of_head? hc))]
      have : c ≠ ' ' := by rintro rfl; exact f.nameHead hc
      simpa using this
    · intro c hc
      rw [printable_bspace (f.namePrintable c (List.mem_of_getLast? hc))]
      have : c ≠ ' ' := by rintro rfl; exact f.nameLast hc
      simpa using this
  unfold bytesRecord
  simp only [hne, hcont, Bool.false_eq_true, if_false, Bool.not_true]
  rw [hraw, h1, h2, hlabel]
  simp only [List.drop_one, List.tail_cons]
  unfold convertBytes
  rw [filter_bodyRaw g.body f.body]
  rfl

theorem fastaBytes_grecs (gs : List GRec) (h : wfFile gs = true) :
    fastaBytes (fileRaw gs) = (records gs).map (fun r => (r.1, upper r.2)) := by
  have hf := wfFile_facts h
  cases gs with
  | nil => simp [fastaBytes, fileRaw, splitLabelStart, bytesRecord, records]
  | cons g gs =>
    have hpieces := splitLabelStart_pieces (gs.map recRaw) (recRaw g)
      (by
        intro x hx
        rcases List.mem_cons.mp hx with e | e
        · subst e; exact noSplit_recRaw (hf g List.mem_cons_self)
        · obtain ⟨y, hy, rfl⟩ := List.mem_map.mp e
          exact noSplit_recRaw (hf y (List.mem_cons_of_mem _ hy)))
      (by simpa using wfFile_endsOk (g :: gs) h)
    have hflat : (gs.map recRaw).flatMap (fun x => '>' :: x) = gs.flatMap (fun g => '>' :: recRaw g) := by
      simp [List.flatMap_map]
    rw [hflat] at hpieces
    unfold fastaBytes fileRaw
    simp only [List.flatMap_cons, List.cons_append, splitLabelStart, Bool.true_and, decide_true, if_true]
    rw [hpieces, filterMap_pieces]
    have hall : ∀ (xs : List GRec), (∀ x ∈ xs, RecFacts x) →
        (xs.map recRaw).filterMap bytesRecord = (records xs).map (fun r => (r.1, upper r.2)) := by
      intro xs
      induction xs with
      | nil => intro _; simp [records]
      | cons x xs ih =>
        intro hx
        have := bytesRecord_recRaw (hx x List.mem_cons_self)
        simp only [List.map_cons, List.filterMap_cons, this, records]
        rw [ih (fun y hy => hx y (List.mem_cons_of_mem _ hy))]
        simp [records]
    have h2 := hall (g :: gs) hf
    simp only [List.map_cons, List.filterMap_cons] at h2
    exact h2

end CogentModel.SeqFormats
