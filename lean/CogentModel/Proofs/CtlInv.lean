import CogentModel.Model.Controller
/-! # C07 — dirty-set propagation of the ParameterController (helper lemmas) -/
namespace CogentModel.Ctl
variable {V : Type} [Inhabited V]

def WF (g : Graph V) : Prop := ∀ k, k < g.length → ∀ a, a ∈ (defn g k).args → a < k

/-- definition `k` holds what its rule says, given the current values / settings -/
def LocalOK (g : Graph V) (s : St V) (k : Nat) : Prop :=
  match defn g k with
  | .leaf => s.values k = s.setting k
  | .derived args f => s.values k = f (args.map s.values)

theorem LocalOK.congr {g : Graph V} {s s' : St V} {k : Nat} (h : LocalOK g s k)
    (hk : s'.values k = s.values k) (ha : ∀ a, a ∈ (defn g k).args → s'.values a = s.values a)
    (hs : s'.setting k = s.setting k) : LocalOK g s' k := by
  unfold LocalOK at *
  cases hd : defn g k with
  | leaf => simp [hd] at h ⊢; rw [hk, hs, h]
  | derived args f =>
    simp [hd] at h ⊢
    have : args.map s'.values = args.map s.values := by
      apply List.map_congr_left
      intro a ha'
      exact ha a (by simp [hd, Defn.args, ha'])
    rw [this, hk, h]

theorem mem_clients {g : Graph V} {k j : Nat} (hj : j < g.length) (h : k ∈ (defn g j).args) :
    j ∈ clients g k := by
  simp [clients, hj, h]

theorem updateOne_fields (g : Graph V) (s : St V) (k : Nat) :
    (updateOne g s k).setting = s.setting ∧ (updateOne g s k).changed = s.changed ∧
    (updateOne g s k).suspended = s.suspended ∧ (updateOne g s k).stack = s.stack ∧
    ∀ j, j ≠ k → (updateOne g s k).values j = s.values j := by
  unfold updateOne
  cases defn g k <;> simp [upd] <;> intro j hj <;> simp [hj]

theorem updateOne_ok (g : Graph V) (hwf : WF g) (s : St V) (k : Nat) (hk : k < g.length) :
    LocalOK g (updateOne g s k) k := by
  unfold LocalOK updateOne
  cases hd : defn g k with
  | leaf => simp [upd]
  | derived args f =>
    have : args.map (upd s.values k (f (args.map s.values))) = args.map s.values := by
      apply List.map_congr_left
      intro a ha
      have : a < k := hwf k hk a (by simp [hd, Defn.args, ha])
      have : a ≠ k := by omega
      simp [upd, this]
    simp only []
    rw [this]
    simp [upd]

theorem updateLoop_spec (g : Graph V) (hwf : WF g) :
    ∀ (ks : List Nat) (s : St V), ks.Pairwise (· < ·) → (∀ x, x ∈ ks → x < g.length) →
      (∀ j, j < g.length → j ∉ ks → ∀ x, x ∈ ks → j < x) →
      (∀ j, j < g.length → j ∉ ks → LocalOK g s j) →
      (∀ j, j ∈ ks → j ∉ s.changed → LocalOK g s j) →
      (∀ j, j < g.length → LocalOK g (updateLoop g ks s) j) ∧
      (updateLoop g ks s).setting = s.setting ∧ (updateLoop g ks s).suspended = s.suspended ∧
      (updateLoop g ks s).stack = s.stack := by
  intro ks
  induction ks with
  | nil =>
    intro s _ _ _ hdone _
    exact ⟨fun j hj => hdone j hj (by simp), rfl, rfl, rfl⟩
  | cons k ks ih =>
    intro s hp hlt hlow hdone hpend
    have hp' := (List.pairwise_cons.1 hp)
    have hkn : k < g.length := hlt k (by simp)
    have hlt' : ∀ x, x ∈ ks → x < g.length := fun x hx => hlt x (by simp [hx])
    have hlow' : ∀ j, j < g.length → j ∉ ks → ∀ x, x ∈ ks → j < x := by
      intro j hj hjk x hx
      by_cases hjk' : j = k
      · subst hjk'; exact hp'.1 x hx
      · exact hlow j hj (by simp [hjk', hjk]) x (by simp [hx])
    unfold updateLoop
    by_cases hc : s.changed.contains k = true
    · simp only [hc, if_true]
      obtain ⟨f1, f2, f3, f4, f5⟩ := updateOne_fields g s k
      have := ih { updateOne g s k with changed := (updateOne g s k).changed ++ clients g k } hp'.2 hlt' hlow' ?_ ?_
      · obtain ⟨a, b, c, d⟩ := this
        exact ⟨a, b.trans f1, c.trans f3, d.trans f4⟩
      · intro j hj hjk
        by_cases hjk' : j = k
        · subst hjk'
          apply (updateOne_ok g hwf s j hj).congr rfl (fun _ _ => rfl) rfl
        · have hjlt : j < k := hlow j hj (by simp [hjk', hjk]) k (by simp)
          apply (hdone j hj (by simp [hjk', hjk])).congr
          · exact f5 j hjk'
          · intro a ha
            have : a < j := hwf j hj a ha
            exact f5 a (by omega)
          · show (updateOne g s k).setting j = _; rw [f1]
      · intro j hj hjc
        have hjk : j ≠ k := by
          have := hp'.1 j hj; omega
        have hjn := hlt' j hj
        simp only [List.mem_append, not_or] at hjc
        rw [f2] at hjc
        apply (hpend j (by simp [hj]) hjc.1).congr
        · exact f5 j hjk
        · intro a ha
          apply f5
          intro hak
          subst hak
          exact hjc.2 (mem_clients hjn ha)
        · show (updateOne g s k).setting j = _; rw [f1]
    · simp only [hc]
      apply ih s hp'.2 hlt' hlow'
      · intro j hj hjk
        by_cases hjk' : j = k
        · subst hjk'
          exact hpend j (by simp) (by simpa using hc)
        · exact hdone j hj (by simp [hjk', hjk])
      · intro j hj hjc
        exact hpend j (by simp [hj]) hjc

/-- every definition that is not marked dirty is locally consistent -/
def J (g : Graph V) (s : St V) : Prop := ∀ k, k < g.length → k ∉ s.changed → LocalOK g s k

/-- the `old` flags on the stack: the outermost frame saved `False`, inner ones `True` -/
def StackOK : Bool → List Bool → Prop
  | susp, [] => susp = false
  | susp, old :: rest => susp = true ∧ StackOK old rest

structure Inv (g : Graph V) (s : St V) : Prop where
  j : J g s
  stack : StackOK s.suspended s.stack
  clean : s.suspended = false → s.changed = []

theorem updateIntermediate_spec (g : Graph V) (hwf : WF g) (s : St V) (hJ : J g s) :
    J g (updateIntermediate g s) ∧ (s.suspended = false → (updateIntermediate g s).changed = []) ∧
    (updateIntermediate g s).suspended = s.suspended ∧ (updateIntermediate g s).stack = s.stack ∧
    (updateIntermediate g s).setting = s.setting := by
  unfold updateIntermediate
  cases hs : s.suspended with
  | true => simp [hJ, hs]
  | false =>
    simp only [Bool.false_eq_true, if_false]
    obtain ⟨a, b, c, d⟩ := updateLoop_spec g hwf (List.range g.length) s List.pairwise_lt_range
      (fun x hx => by simpa using hx) (fun j hj hjn => absurd (by simpa using hj) hjn)
      (fun j hj hjn => absurd (by simpa using hj) hjn) (fun j hj hjc => hJ j (by simpa using hj) hjc)
    refine ⟨fun k hk _ => ?_, ?_, c.trans hs, d, b⟩
    · exact (a k hk).congr rfl (fun _ _ => rfl) rfl
    · simp

theorem step_inv (g : Graph V) (hwf : WF g) (s : St V) (o : Op V) (hI : Inv g s) :
    Inv g (step g s o) := by
  cases o with
  | xexit =>
    unfold step
    cases hst : s.stack with
    | nil => simp only []; exact hI
    | cons old rest =>
      simp only []
      have hso := hI.stack
      rw [hst] at hso
      have hJ0 : J g { s with suspended := old, stack := rest } := hI.j
      obtain ⟨a, b, c, d, _⟩ := updateIntermediate_spec g hwf _ hJ0
      refine ⟨a, ?_, ?_⟩
      · rw [c, d]; exact hso.2
      · intro h; rw [c] at h; exact b h
  | enter =>
    exact ⟨hI.j, ⟨rfl, hI.stack⟩, fun h => by simp [step] at h⟩
  | assign k v =>
    have hJ0 : J g { s with setting := upd s.setting k v, changed := s.changed ++ [k] } := by
      intro j hj hjc
      simp only [List.mem_append, List.mem_singleton, not_or] at hjc
      exact LocalOK.congr (hI.j j hj hjc.1) rfl (fun _ _ => rfl) (by simp [upd, hjc.2])
    obtain ⟨a, b, c, d, _⟩ := updateIntermediate_spec g hwf _ hJ0
    refine ⟨a, ?_, ?_⟩
    · show StackOK (updateIntermediate g _).suspended (updateIntermediate g _).stack
      rw [c, d]; exact hI.stack
    · intro h
      have h' : (updateIntermediate g { s with setting := upd s.setting k v, changed := s.changed ++ [k] }).suspended = false := h
      rw [c] at h'
      exact b h'
  | exit =>
    unfold step
    cases hst : s.stack with
    | nil => simp only []; exact hI
    | cons old rest =>
      simp only []
      have hso := hI.stack
      rw [hst] at hso
      have hJ0 : J g { s with suspended := old, stack := rest } := hI.j
      obtain ⟨a, b, c, d, _⟩ := updateIntermediate_spec g hwf _ hJ0
      refine ⟨a, ?_, ?_⟩
      · rw [c, d]; exact hso.2
      · intro h; rw [c] at h; exact b h

end CogentModel.Ctl
