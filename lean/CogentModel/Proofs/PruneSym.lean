import Mathlib.Algebra.BigOperators.Ring.Finset
import Mathlib.Algebra.BigOperators.Group.Finset.Sigma
import Mathlib.Algebra.BigOperators.Group.List.Basic
import Mathlib.Data.List.Perm.Basic
import Mathlib.Tactic.Ring
import CogentModel.Proofs.Prune
import CogentModel.Proofs.PruneCompress
/-!
Helper lemmas for C11: invariance of the modelled likelihood under column permutation and
repetition, child reordering, leaf relabelling, re-rooting (reversible case) and edge splitting.
-/
namespace CogentModel.Prune
open Finset

/-! ### columns -/
section columns
variable {κ S : Type} [AddCommMonoid S]

theorem lnLPlain_perm (g : κ → S) {cols cols' : List κ} (h : cols.Perm cols') :
    lnLPlain g cols = lnLPlain g cols' :=
  (h.map g).sum_eq

theorem lnLPlain_repeat_each (g : κ → S) (k : Nat) : ∀ cols : List κ,
    lnLPlain g (cols.flatMap (List.replicate k)) = k • lnLPlain g cols
  | [] => by simp [lnLPlain]
  | c :: cs => by
    have ih := lnLPlain_repeat_each g k cs
    simp only [lnLPlain] at ih ⊢
    simp only [List.flatMap_cons, List.map_append, List.sum_append, List.map_replicate,
      List.sum_replicate, List.map_cons, List.sum_cons, ih, nsmul_add]

theorem lnLPlain_repeat_all (g : κ → S) (cols : List κ) : ∀ k : Nat,
    lnLPlain g (List.replicate k cols).flatten = k • lnLPlain g cols
  | 0 => by simp [lnLPlain]
  | k + 1 => by
    have ih := lnLPlain_repeat_all g cols k
    simp only [lnLPlain] at ih ⊢
    simp only [List.replicate_succ, List.flatten_cons, List.map_append, List.sum_append, ih, succ_nsmul]
    rw [add_comm]

end columns

section semiring
variable {R : Type} [CommSemiring R] {α : Type}

omit [CommSemiring R] in
@[simp] theorem PTree.mat_node (P : Mat R) (cs : List (PTree R α)) : (PTree.node P cs).mat = P := rfl
omit [CommSemiring R] in
@[simp] theorem PTree.mat_leaf (P : Mat R) (a : α) : (PTree.leaf P a : PTree R α).mat = P := rfl
omit [CommSemiring R] in
@[simp] theorem PTree.mat_setMat (Q : Mat R) (t : PTree R α) : (t.setMat Q).mat = Q := by cases t <;> rfl

/-! ### children in any order -/
theorem prodUp_perm (m : Nat) (prof : α → Nat → R) {cs cs' : List (PTree R α)} (h : cs.Perm cs') (s : Nat) :
    (prodUp m prof cs).get s = (prodUp m prof cs').get s := by
  induction h with
  | nil => rfl
  | cons x _ ih => simp only [prodUp_cons, ih]
  | swap x y l => simp only [prodUp_cons]; rw [mul_left_comm]
  | trans _ _ ih1 ih2 => rw [ih1, ih2]

theorem prodUp_ext (m : Nat) (prof : α → Nat → R) (cs cs' : List (PTree R α))
    (h : ∀ s, (prodUp m prof cs).get s = (prodUp m prof cs').get s) :
    prodUp m prof cs = prodUp m prof cs' := by
  cases h1 : prodUp m prof cs; cases h2 : prodUp m prof cs'
  congr 1; funext s; simpa [h1, h2] using h s

mutual
/-- `Reorder t t'`: `t'` is `t` with the children of any number of nodes (at any depth) reordered -/
inductive Reorder : PTree R α → PTree R α → Prop
  | leaf (P : Mat R) (a : α) : Reorder (.leaf P a) (.leaf P a)
  | node (P : Mat R) (cs ds cs' : List (PTree R α)) : ReorderL cs ds → ds.Perm cs' →
      Reorder (.node P cs) (.node P cs')
inductive ReorderL : List (PTree R α) → List (PTree R α) → Prop
  | nil : ReorderL [] []
  | cons (c d : PTree R α) (cs ds : List (PTree R α)) : Reorder c d → ReorderL cs ds →
      ReorderL (c :: cs) (d :: ds)
end

mutual
theorem plh_reorder (m : Nat) (prof : α → Nat → R) :
    ∀ {t t' : PTree R α}, Reorder t t' → t.mat = t'.mat ∧ plh m prof t = plh m prof t'
  | _, _, .leaf P a => ⟨rfl, rfl⟩
  | _, _, .node P cs ds cs' hl hp => by
    refine ⟨rfl, ?_⟩
    rw [plh_node, plh_node, prodUp_reorderL m prof hl]
    exact prodUp_ext m prof _ _ (prodUp_perm m prof hp)
theorem prodUp_reorderL (m : Nat) (prof : α → Nat → R) :
    ∀ {cs ds : List (PTree R α)}, ReorderL cs ds → prodUp m prof cs = prodUp m prof ds
  | _, _, .nil => rfl
  | _, _, .cons c d cs ds h hl => by
    obtain ⟨hm, hp⟩ := plh_reorder m prof h
    simp only [prodUp]
    rw [hm, hp, prodUp_reorderL m prof hl]
end

/-! ### leaves are looked up by name -/
mutual
theorem plh_mapLeaves {β : Type} (m : Nat) (prof : β → Nat → R) (f : α → β) :
    ∀ t : PTree R α, plh m prof (t.mapLeaves f) = plh m (fun a => prof (f a)) t
  | .leaf P a => by simp [PTree.mapLeaves, plh]
  | .node P cs => by
    simp only [PTree.mapLeaves, plh_node]
    exact prodUp_mapLeaves m prof f cs
theorem prodUp_mapLeaves {β : Type} (m : Nat) (prof : β → Nat → R) (f : α → β) :
    ∀ cs : List (PTree R α), prodUp m prof (PTree.mapLeavesL f cs) = prodUp m (fun a => prof (f a)) cs
  | [] => by simp [PTree.mapLeavesL, prodUp]
  | c :: cs => by
    have hm : (c.mapLeaves f).mat = c.mat := by cases c <;> simp [PTree.mapLeaves, PTree.mat]
    simp only [PTree.mapLeavesL, prodUp]
    rw [hm, plh_mapLeaves m prof f c, prodUp_mapLeaves m prof f cs]
end

theorem lookupRow_perm {κ δ : Type} [DecidableEq κ] (d : δ) {rows rows' : List (κ × δ)}
    (h : rows.Perm rows') (hn : (rows.map Prod.fst).Nodup) (a : κ) :
    lookupRow d rows a = lookupRow d rows' a := by
  induction h with
  | nil => rfl
  | cons x _ ih =>
    obtain ⟨k, v⟩ := x
    simp only [List.map_cons, List.nodup_cons] at hn
    simp only [lookupRow, ih hn.2]
  | swap x y l =>
    obtain ⟨k, v⟩ := x
    obtain ⟨k', v'⟩ := y
    simp only [List.map_cons, List.nodup_cons, List.mem_cons, not_or] at hn
    simp only [lookupRow]
    by_cases h1 : k = a <;> by_cases h2 : k' = a <;> simp [h1, h2]
    exact absurd (h2.trans h1.symm) hn.1.1
  | trans h1 _ ih1 ih2 =>
    rw [ih1 hn, ih2 ((h1.map Prod.fst).nodup_iff.mp hn)]

/-! ### moving the root across an edge (pulley principle) -/

/-- detailed balance of `P` with respect to `π` on the states `< m` -/
def DetailedBalance (m : Nat) (π : Nat → R) (P : Mat R) : Prop :=
  ∀ i j, i < m → j < m → π i * P i j = π j * P j i

theorem lh_reroot_step (m : Nat) (π : Nat → R) (prof : α → Nat → R) (P0 P0' P : Mat R)
    (cs ds : List (PTree R α)) (hdb : DetailedBalance m π P) :
    lh m π prof (.node P0 (.node P cs :: ds)) = lh m π prof (.node P0' (.node P ds :: cs)) := by
  simp only [lh_eq, plh_node, prodUp_cons, up_get, PTree.mat_node]
  simp only [Finset.sum_mul]
  rw [Finset.sum_comm]
  refine Finset.sum_congr rfl fun j hj => Finset.sum_congr rfl fun i hi => ?_
  have := hdb i j (Finset.mem_range.mp hi) (Finset.mem_range.mp hj)
  calc P i j * (prodUp m prof cs).get j * (prodUp m prof ds).get i * π i
      = (π i * P i j) * ((prodUp m prof cs).get j * (prodUp m prof ds).get i) := by ring
    _ = (π j * P j i) * ((prodUp m prof cs).get j * (prodUp m prof ds).get i) := by rw [this]
    _ = P j i * (prodUp m prof ds).get i * (prodUp m prof cs).get j * π j := by ring

/-- root placements reachable by moving the root across edges and reordering its children -/
inductive Reroot : PTree R α → PTree R α → Prop
  | refl (t : PTree R α) : Reroot t t
  | move (P0 P0' P : Mat R) (cs ds : List (PTree R α)) :
      Reroot (.node P0 (.node P cs :: ds)) (.node P0' (.node P ds :: cs))
  | perm (P0 : Mat R) (cs cs' : List (PTree R α)) : cs.Perm cs' → Reroot (.node P0 cs) (.node P0 cs')
  | trans (t u v : PTree R α) : Reroot t u → Reroot u v → Reroot t v

omit [CommSemiring R] in
theorem mem_edgeMatsL_perm {cs cs' : List (PTree R α)} (h : cs.Perm cs') (Q : Mat R) :
    Q ∈ PTree.edgeMatsL cs ↔ Q ∈ PTree.edgeMatsL cs' := by
  induction h with
  | nil => exact Iff.rfl
  | cons x _ ih => simp only [PTree.edgeMatsL, List.mem_cons, List.mem_append, ih]
  | swap x y l => simp only [PTree.edgeMatsL, List.mem_cons, List.mem_append]; tauto
  | trans _ _ ih1 ih2 => exact ih1.trans ih2

theorem lh_reroot (m : Nat) (π : Nat → R) (prof : α → Nat → R) {t t' : PTree R α} (h : Reroot t t')
    (hdb : ∀ P ∈ t.edgeMats, DetailedBalance m π P) :
    lh m π prof t = lh m π prof t' ∧ ∀ P ∈ t'.edgeMats, DetailedBalance m π P := by
  induction h with
  | refl t => exact ⟨rfl, hdb⟩
  | move P0 P0' P cs ds =>
    refine ⟨lh_reroot_step m π prof P0 P0' P cs ds (hdb P (by simp [PTree.edgeMats, PTree.edgeMatsL, PTree.mat])), ?_⟩
    intro Q hQ
    apply hdb Q
    simp only [PTree.edgeMats, PTree.edgeMatsL, PTree.mat, List.mem_cons, List.mem_append] at hQ ⊢
    tauto
  | perm P0 cs cs' hp =>
    refine ⟨?_, fun Q hQ => hdb Q ((mem_edgeMatsL_perm hp Q).mpr (by simpa [PTree.edgeMats] using hQ))⟩
    simp only [lh_eq, plh_node]
    exact Finset.sum_congr rfl fun s _ => by rw [prodUp_perm m prof hp s]
  | trans t u v _ _ ih1 ih2 =>
    obtain ⟨e1, d1⟩ := ih1 hdb
    obtain ⟨e2, d2⟩ := ih2 d1
    exact ⟨e1.trans e2, d2⟩

/-! ### splitting an edge through a unary node -/

theorem plh_setMat (m : Nat) (prof : α → Nat → R) (Q : Mat R) (t : PTree R α) :
    plh m prof (t.setMat Q) = plh m prof t := by
  cases t <;> simp [PTree.setMat, plh]

theorem up_split (m : Nat) (prof : α → Nat → R) (P1 P2 : Mat R) (x : PTree R α)
    (h : x.mat = matMul m P1 P2) (s : Nat) :
    (up m prof (.node P1 [x.setMat P2])).get s = (up m prof x).get s := by
  simp only [up_get, plh_node, prodUp_cons, prodUp_nil, mul_one, PTree.mat_node, PTree.mat_setMat, plh_setMat,
    h, matMul, sumOver_eq]
  simp only [Finset.mul_sum, Finset.sum_mul]
  rw [Finset.sum_comm]
  refine Finset.sum_congr rfl fun s' _ => Finset.sum_congr rfl fun s1 _ => ?_
  ring

mutual
/-- `Split m t t'`: `t'` is `t` with one edge (the one above `t`, or one further down) replaced by two
edges through a unary node whose matrices multiply to the original one -/
inductive Split (m : Nat) : PTree R α → PTree R α → Prop
  | here (x : PTree R α) (P1 P2 : Mat R) : x.mat = matMul m P1 P2 → Split m x (.node P1 [x.setMat P2])
  | under (P : Mat R) (cs cs' : List (PTree R α)) : SplitL m cs cs' → Split m (.node P cs) (.node P cs')
inductive SplitL (m : Nat) : List (PTree R α) → List (PTree R α) → Prop
  | head (c c' : PTree R α) (cs : List (PTree R α)) : Split m c c' → SplitL m (c :: cs) (c' :: cs)
  | tail (c : PTree R α) (cs cs' : List (PTree R α)) : SplitL m cs cs' → SplitL m (c :: cs) (c :: cs')
end

mutual
theorem up_splitRel (m : Nat) (prof : α → Nat → R) :
    ∀ {t t' : PTree R α}, Split m t t' → ∀ s, (up m prof t).get s = (up m prof t').get s
  | _, _, .here x P1 P2 h, s => (up_split m prof P1 P2 x h s).symm
  | _, _, .under P cs cs' hl, s => by
    simp only [up_get, plh_node, PTree.mat_node]
    exact Finset.sum_congr rfl fun s' _ => by rw [prodUp_splitRel m prof hl s']
theorem prodUp_splitRel (m : Nat) (prof : α → Nat → R) :
    ∀ {cs cs' : List (PTree R α)}, SplitL m cs cs' → ∀ s, (prodUp m prof cs).get s = (prodUp m prof cs').get s
  | _, _, .head c c' cs h, s => by rw [prodUp_cons, prodUp_cons, up_splitRel m prof h s]
  | _, _, .tail c cs cs' hl, s => by rw [prodUp_cons, prodUp_cons, prodUp_splitRel m prof hl s]
end

end semiring
end CogentModel.Prune
