import CogentModel.Proofs.IndelMapAssemble2
namespace CogentModel.IndelMap
open CogentModel.Gapped List

theorem ends_le_last (gp : List Int) : ∀ (cum : List Int) (pp pc : Int), Inc pp pc gp cum →
    ∀ x ∈ gapEnds gp cum, x ≤ lastD (gapEnds gp cum) := by
  induction gp with
  | nil => intro cum _ _ _ x hx; cases cum <;> simp [gapEnds] at hx
  | cons p ps ih =>
    intro cum pp pc h x hx
    cases cum with
    | nil => simp [gapEnds] at hx
    | cons c cs =>
      obtain ⟨h1, h2, h3⟩ := h
      cases ps with
      | nil =>
        cases cs with
        | nil => simp only [gapEnds, mem_singleton] at hx; subst hx; simp [gapEnds, lastD]
        | cons _ _ => simp [Inc] at h3
      | cons p' ps' =>
        cases cs with
        | nil => simp [Inc] at h3
        | cons c' cs' =>
          simp only [gapEnds, mem_cons] at hx
          simp only [gapEnds, lastD_cons_cons]
          have hlastmem : lastD ((p' + c') :: gapEnds ps' cs') ∈ gapEnds (p' :: ps') (c' :: cs') := by
            simpa [gapEnds] using lastD_mem ((p' + c') :: gapEnds ps' cs') (by simp)
          rcases hx with rfl | hx
          · have := inc_ends_gt _ _ _ _ h3 _ hlastmem; omega
          · exact ih (c' :: cs') p c h3 x (by simpa [gapEnds] using hx)

theorem dropT_all (T : List Trip) (start : Int) (h : ∀ t ∈ T, t.2.2 ≤ start) : dropT start T = [] := by
  induction T with
  | nil => rfl
  | cons t r ih =>
    obtain ⟨p, s, e⟩ := t
    have := h (p, s, e) (by simp)
    simp only [dropT]
    rw [if_pos this]
    exact ih (fun t ht => h t (by simp [ht]))

theorem takeT_of_lt (T : List Trip) (stop : Int) (h : TSorted stop T) : takeT stop T = [] := by
  cases T with
  | nil => rfl
  | cons t r =>
    obtain ⟨p, s, e⟩ := t
    obtain ⟨h1, h2, _⟩ := h
    simp only [takeT]
    rw [if_neg (by omega), if_neg (by omega)]

/-- the gap in which `start` falls, found by `searchsorted`, is the head of `dropT` -/
theorem locate (start : Int) (h0 : 0 ≤ start) (T : List Trip) : ∀ (lo : Int), TSorted lo T →
    getN (T.map (·.2.1)) (ssLeft (T.map (·.2.2)) start) ≤ start →
    start < getN (T.map (·.2.2)) (ssLeft (T.map (·.2.2)) start) →
    ∃ R, dropT start T = (getN (T.map (·.1)) (ssLeft (T.map (·.2.2)) start), start,
                          getN (T.map (·.2.2)) (ssLeft (T.map (·.2.2)) start)) :: R ∧
      TSorted (getN (T.map (·.2.2)) (ssLeft (T.map (·.2.2)) start) + 1) R := by
  induction T with
  | nil => intro lo _ _ h2; simp [ssLeft, getN_nil] at h2; omega
  | cons t r ih =>
    intro lo hs ha hb
    obtain ⟨p, s, e⟩ := t
    obtain ⟨h1, h2, h3⟩ := hs
    simp only [map_cons, ssLeft] at ha hb ⊢
    by_cases c : e < start
    · simp only [c, if_true, getN_cons_succ] at ha hb ⊢
      obtain ⟨R, hR1, hR2⟩ := ih (e + 1) h3 ha hb
      refine ⟨R, ?_, hR2⟩
      simp only [dropT]; rw [if_pos (by omega)]; exact hR1
    · simp only [c, if_false, getN_cons_zero] at ha hb ⊢
      refine ⟨r, ?_, h3⟩
      simp only [dropT]; rw [if_neg (by omega), if_pos ha]

/-- everything `__getitem__` returns for an in-range interval of a map with gaps -/
theorem getitemGaps_spec (m : IMap) (h : WF m) (hne : m.gapPos ≠ []) (start stop : Int) (h0 : 0 ≤ start)
    (hlt : start < stop) (hle : stop ≤ len m) (r : IMap) (hr : getitemGaps m start stop = .ok r) :
    WF r ∧ pattern (abs r) = ((pattern (abs m)).drop start.toNat).take (stop - start).toNat := by
  have hl := h.len_eq
  have hinc := h.inc
  have hTs : TSorted 0 (trips 0 m.gapPos m.cumLens) := by
    have := trips_sorted m.gapPos m.cumLens (-1) 0 hinc; simpa using this
  have hTr : TRel 0 0 (trips 0 m.gapPos m.cumLens) := by
    have := trips_rel m.gapPos m.cumLens 0 0; simpa using this
  obtain ⟨p, ps, hg⟩ : ∃ p ps, m.gapPos = p :: ps := by
    cases hh : m.gapPos with
    | nil => exact absurd hh hne
    | cons p ps => exact ⟨p, ps, rfl⟩
  obtain ⟨c, cs, hc⟩ : ∃ c cs, m.cumLens = c :: cs := by
    cases hh : m.cumLens with
    | nil => rw [hg, hh] at hl; simp at hl
    | cons c cs => exact ⟨c, cs, rfl⟩
  have hlastE : lastD (gapEnds m.gapPos m.cumLens) = lastD m.gapPos + lastD m.cumLens :=
    lastD_gapEnds _ _ hl hne
  have hpc : 0 ≤ p ∧ 0 < c := by
    rw [hg, hc] at hinc; obtain ⟨a1, a2, _⟩ := hinc; omega
  have hpcmem : p + c ∈ gapEnds m.gapPos m.cumLens := by rw [hg, hc]; simp [gapEnds]
  have hplast : p + c ≤ lastD m.gapPos + lastD m.cumLens := by
    rw [← hlastE]; exact ends_le_last _ _ _ _ hinc _ hpcmem
  by_cases c1 : stop < m.gapPos.headD 0 ∨ start ≥ lastD m.gapPos + lastD m.cumLens
  · -- no gap inside the interval
    have hr' : r = emptyMap (stop - start) := by
      unfold getitemGaps at hr; simp only [c1, if_true] at hr; cases hr; rfl
    subst hr'
    have hT' : takeT stop (dropT start (trips 0 m.gapPos m.cumLens)) = [] ∧
        seqIndexNN m stop - seqIndexNN m start = stop - start := by
      rcases c1 with c1 | c1
      · have hhd : m.gapPos.headD 0 = p := by rw [hg]; rfl
        rw [hhd] at c1
        constructor
        · rw [hg, hc]
          simp only [trips, dropT]
          rw [if_neg (by omega), if_neg (by omega)]
          simp only [takeT]
          rw [if_neg (by omega), if_neg (by omega)]
        · unfold seqIndexNN
          rw [hhd, if_pos (Or.inr c1), if_pos (Or.inr (by omega))]
      · constructor
        · rw [dropT_all _ start]; · rfl
          intro t ht
          have : t.2.2 ∈ gapEnds m.gapPos m.cumLens := by
            rw [← trips_map_end m.gapPos m.cumLens 0]; exact mem_map_of_mem ht
          have := ends_le_last _ _ _ _ hinc _ this
          omega
        · have hhd : m.gapPos.headD 0 = p := by rw [hg]; rfl
          unfold seqIndexNN
          simp only [hne, false_or, hhd, hlastE]
          rw [if_neg (by omega), if_pos (by omega), if_neg (by omega), if_pos (by omega)]
          omega
    exact result_spec m h start stop h0 hlt hle _ (by rw [hT'.1]; rfl) (by rw [hT'.1]; rfl)
      (by rw [hT'.2]; rfl) (by intro hh; exact absurd rfl hh)
  · by_cases c2 : getN (gapStarts m.gapPos m.cumLens) (ssLeft (gapEnds m.gapPos m.cumLens) start) ≤ start ∧
              start < getN (gapEnds m.gapPos m.cumLens) (ssLeft (gapEnds m.gapPos m.cumLens) start) ∧
              stop ≤ getN (gapEnds m.gapPos m.cumLens) (ssLeft (gapEnds m.gapPos m.cumLens) start)
    · -- the whole interval lies inside one gap
      have hr' : r = ⟨[0], [stop - start], 0⟩ := by
        unfold getitemGaps at hr; simp only [c1, if_false, c2, and_self, if_true] at hr; cases hr; rfl
      subst hr'
      obtain ⟨c2a, c2b, c2c⟩ := c2
      unfold gapStarts at c2a
      rw [← trips_map_start m.gapPos m.cumLens 0, ← trips_map_end m.gapPos m.cumLens 0] at c2a
      rw [← trips_map_end m.gapPos m.cumLens 0] at c2b c2c
      obtain ⟨R, hR1, hR2⟩ := locate start h0 _ 0 hTs c2a c2b
      generalize hpl : getN ((trips 0 m.gapPos m.cumLens).map (·.1)) (ssLeft ((trips 0 m.gapPos m.cumLens).map (·.2.2)) start) = pL at *
      generalize hel : getN ((trips 0 m.gapPos m.cumLens).map (·.2.2)) (ssLeft ((trips 0 m.gapPos m.cumLens).map (·.2.2)) start) = eL at *
      have hrel := dropT_rel _ 0 0 start hTs hTr h0
      rw [hR1] at hrel
      have hsh : seqIdxT 0 0 (trips 0 m.gapPos m.cumLens) start = pL := by
        have := hrel.1; omega
      have hstop : seqIdxT 0 0 (trips 0 m.gapPos m.cumLens) stop = pL := by
        rw [← seqIdxT_comp _ 0 0 start stop hTs h0 (by omega), hR1, hsh]
        simp only [seqIdxT]
        rw [if_neg (by omega), if_pos c2c]
      have hT' : takeT stop (dropT start (trips 0 m.gapPos m.cumLens)) = [(pL, start, stop)] := by
        rw [hR1]
        simp only [takeT]
        by_cases d : eL ≤ stop
        · have : eL = stop := by omega
          subst this
          rw [if_pos d, takeT_of_lt R _ (tsorted_mono _ _ _ (by omega) hR2)]
        · rw [if_neg d, if_pos hlt]
      refine result_spec m h start stop h0 hlt hle _ ?_ ?_ ?_ ?_
      · rw [hT', seqIndexNN_eq_T m h, hsh]; simp
      · rw [hT']; simp [cumsum, cumsumFrom, tlen]
      · rw [seqIndexNN_eq_T m h, seqIndexNN_eq_T m h, hsh, hstop]; simp
      · intro _; simp [lastD]
    · -- the general path
      rw [getitemGaps_general m h hne start stop h0 hlt c1 c2] at hr
      obtain ⟨hr1, hr2⟩ := mk_ok _ _ _ r hr
      subst hr1
      exact result_spec m h start stop h0 hlt hle _ rfl rfl rfl hr2

end CogentModel.IndelMap
