import CogentModel.Proofs.AlnRefine1
/-! `take_positions` (both polarities) on a row refines column selection on the string. -/
namespace CogentModel.Aln
open CogentModel.IndelMap CogentModel.Gapped List CogentModel

theorem denseTake_cons (s : List Char) (i : Int) (rest : List Int) :
    denseTake s (i :: rest) = (match PySlice.index s i, denseTake s rest with
      | some c, .ok tl => .ok (c :: tl)
      | none, _ => .error .indexError
      | _, .error e => .error e) := rfl

theorem takePositions_go_spec (r : Row) (h : RowWF r) : ∀ (cols : List Int) (s : List Char),
    rowTakePositions.go r cols = .ok s → denseTake (gapped r) cols = .ok s := by
  intro cols
  induction cols with
  | nil => intro s hs; simp only [rowTakePositions.go] at hs; cases hs; rfl
  | cons i rest ih =>
    intro s hs
    simp only [rowTakePositions.go] at hs
    cases hri : rowInt r i with
    | error e => rw [hri] at hs; cases hgo : rowTakePositions.go r rest <;> rw [hgo] at hs <;> cases hs
    | ok x =>
      cases hgo : rowTakePositions.go r rest with
      | error e => rw [hri, hgo] at hs; cases hs
      | ok tl =>
        rw [hri, hgo] at hs
        cases hs
        obtain ⟨_, c, hc1, hc2⟩ := rowInt_spec r x h i hri
        rw [denseTake_cons, hc1, ih tl hgo, hc2]
        rfl

theorem rowTakePositions_spec (r r' : Row) (h : RowWF r) (cols : List Int)
    (hr : rowTakePositions r cols = .ok r') :
    RowWF r' ∧ denseTake (gapped r) cols = .ok (gapped r') := by
  unfold rowTakePositions at hr
  cases hgo : rowTakePositions.go r cols with
  | error e => rw [hgo] at hr; cases hr
  | ok s =>
    rw [hgo] at hr
    cases hr
    exact ⟨rowWF_ofString s, by rw [gapped_rowOfString]; exact takePositions_go_spec r h cols s hgo⟩

theorem denseTake_range (s : List Char) (p : Int → Bool) : ∀ (t pre : List Char), s = pre ++ t →
    denseTake s (((range' pre.length t.length).map fun (i : Nat) => (i : Int)).filter p) =
      .ok (((t.zipIdx pre.length).filter fun q => p (q.2 : Int)).map (·.1)) := by
  intro t
  induction t with
  | nil => intro pre _; simp [denseTake]
  | cons c t' ih =>
    intro pre hs
    have ihh := ih (pre ++ [c]) (by rw [hs]; simp)
    simp only [length_append, length_singleton] at ihh
    simp only [length_cons, range'_succ, map_cons, zipIdx_cons, filter_cons]
    by_cases hp : p (pre.length : Int) = true
    · simp only [hp, if_true, map_cons]
      rw [denseTake_cons, ihh]
      have hidx : PySlice.index s (pre.length : Int) = some c := by
        unfold PySlice.index
        have h1 : (0 : Int) ≤ pre.length ∧ (pre.length : Int) < s.length := by
          rw [hs]; simp only [length_append, length_cons]; omega
        simp only [h1, and_self, if_true, Int.toNat_natCast]
        rw [hs]; simp
      rw [hidx]
    · simp only [hp, Bool.false_eq_true, if_false]
      exact ihh

theorem denseTakeNeg_eq (s : List Char) (cols : List Int) :
    denseTake s (((range s.length).map fun (i : Nat) => (i : Int)).filter fun i => !cols.contains i) =
      .ok (denseTakeNeg s cols) := by
  have := denseTake_range s (fun i => !cols.contains i) s [] rfl
  simpa [denseTakeNeg, range_eq_range'] using this

theorem rowTakePositionsNeg_spec (r r' : Row) (h : RowWF r) (cols : List Int)
    (hr : rowTakePositionsNeg r cols = .ok r') :
    RowWF r' ∧ gapped r' = denseTakeNeg (gapped r) cols := by
  unfold rowTakePositionsNeg at hr
  obtain ⟨w, hd⟩ := rowTakePositions_spec r r' h _ hr
  refine ⟨w, ?_⟩
  have hl : (len r.map).toNat = (gapped r).length := by
    have : ((gapped r).length : Int) = len r.map := by
      rw [gapped_total r h, length_map]; exact len_eq' r.map h.1
    omega
  rw [hl, denseTakeNeg_eq] at hd
  exact (Except.ok.inj hd).symm


theorem mapDense_ok (g : List Char → List Char) : ∀ (d : AlnD),
    mapDense (fun s => Except.ok (g s)) d = .ok (d.map fun p => (p.1, g p.2)) := by
  intro d
  induction d with
  | nil => rfl
  | cons x xs ih => obtain ⟨n, s⟩ := x; simp only [mapDense, ih, map_cons]

end CogentModel.Aln
