/-
  C18 helper lemmas, part 2: the table built by scans is the pure function `V`, and `V` satisfies the
  Bellman recurrence entry by entry.
-/
import CogentModel.Proofs.PairHMMOrder
namespace CogentModel.PairHMM
set_option linter.unusedSectionVars false

section scan
variable {α : Type}

theorem scanRev_head (f : Nat → Option α → α) (n : Nat) : (scanRev f n).head? = some (nthScan f n) := by
  cases n with
  | zero => rfl
  | succ k => simp [scanRev, nthScan, scanRev_head f k]

theorem scanList_succ (f : Nat → Option α → α) (n : Nat) :
    scanList f (n + 1) = scanList f n ++ [nthScan f (n + 1)] := by
  simp [scanList, scanRev, nthScan, scanRev_head]

theorem scanList_length (f : Nat → Option α → α) (n : Nat) : (scanList f n).length = n + 1 := by
  induction n with
  | zero => rfl
  | succ k ih => rw [scanList_succ]; simp [ih]

theorem scanList_getD (f : Nat → Option α → α) (n j : Nat) (d : α) (h : j ≤ n) :
    (scanList f n).getD j d = nthScan f j := by
  induction n with
  | zero =>
    have : j = 0 := by omega
    subst this; rfl
  | succ k ih =>
    rw [scanList_succ]
    by_cases hj : j ≤ k
    · have hl : j < (scanList f k).length := by rw [scanList_length]; omega
      rw [List.getD_eq_getElem?_getD, List.getElem?_append_left hl, ← List.getD_eq_getElem?_getD]
      exact ih hj
    · have : j = k + 1 := by omega
      subst this
      have hl : (scanList f k).length ≤ k + 1 := by rw [scanList_length]; omega
      rw [List.getD_eq_getElem?_getD, List.getElem?_append_right hl]
      simp [scanList_length]

end scan

variable {S : Type} [Add S] [LT S] [DecidableLT S]

/-- row `i` of the table as a pure function -/
def Vrow (h : HMM S) (loc : Bool) (m : Nat) (i : Nat) : List (Cell S) := nthScan (rowOf h loc m) i

/-- cell `(i, j)` of the table as a pure function (`[]` outside `j ≤ m`) -/
def V (h : HMM S) (loc : Bool) (m : Nat) (i j : Nat) : Cell S := (Vrow h loc m i).getD j []

theorem look_tableOf (h : HMM S) (loc : Bool) (n m i j : Nat) (hi : i ≤ n) :
    look (tableOf h loc n m) i j = V h loc m i j := by
  simp only [look, tableOf, V, Vrow]
  rw [scanList_getD _ _ _ _ hi]

theorem Vrow_zero (h : HMM S) (loc : Bool) (m : Nat) : Vrow h loc m 0 = rowOf h loc m 0 none := rfl
theorem Vrow_succ (h : HMM S) (loc : Bool) (m i : Nat) :
    Vrow h loc m (i + 1) = rowOf h loc m (i + 1) (some (Vrow h loc m i)) := rfl

theorem V_eq_nth (h : HMM S) (loc : Bool) (m i j : Nat) (hj : j ≤ m) :
    V h loc m i j = nthScan (rowStep h loc i (match i with | 0 => none | k + 1 => some (Vrow h loc m k))) j := by
  cases i with
  | zero => simp only [V, Vrow_zero, rowOf]; rw [scanList_getD _ _ _ _ hj]
  | succ k => simp only [V, Vrow_succ, rowOf]; rw [scanList_getD _ _ _ _ hj]

/-- the cell-level Bellman equation: cell `(i, j)` is `cellOf` of its three neighbours -/
theorem V_cell (h : HMM S) (loc : Bool) (m i j : Nat) (hj : j ≤ m) :
    V h loc m i j = cellOf h loc i j
      (if i = 0 ∨ j = 0 then [] else V h loc m (i - 1) (j - 1))
      (if i = 0 then [] else V h loc m (i - 1) j)
      (if j = 0 then [] else V h loc m i (j - 1)) := by
  rw [V_eq_nth h loc m i j hj]
  cases j with
  | zero =>
    cases i with
    | zero => simp [nthScan, rowStep]
    | succ k => simp [nthScan, rowStep, V]
  | succ j' =>
    have hj' : j' ≤ m := by omega
    cases i with
    | zero =>
      have e1 : V h loc m 0 j' = nthScan (rowStep h loc 0 none) j' := V_eq_nth h loc m 0 j' hj'
      simp only [nthScan, rowStep, Option.getD_some, Nat.add_sub_cancel, e1]
      simp
    | succ k =>
      have e1 : V h loc m (k + 1) j' = nthScan (rowStep h loc (k + 1) (some (Vrow h loc m k))) j' :=
        V_eq_nth h loc m (k + 1) j' hj'
      simp only [nthScan, rowStep, Option.getD_some, Nat.add_sub_cancel, e1]
      simp [V]

/-! ### entries of a cell -/

theorem cellEntries_length (h : HMM S) (loc : Bool) (i j : Nat) (diag up left : Cell S) (ds : List (Bool × Bool)) (s : Nat) :
    (cellEntries h loc i j diag up left ds s).length = ds.length := by
  induction ds generalizing s with
  | nil => rfl
  | cons d r ih => simp [cellEntries, ih]

theorem cellEntries_getD (h : HMM S) (loc : Bool) (i j : Nat) (diag up left : Cell S) (ds : List (Bool × Bool)) (s q : Nat)
    (hq : q < ds.length) (dflt : Option S × Nat) :
    (cellEntries h loc i j diag up left ds s).getD q dflt =
      cellEntry h loc i j (s + q) (ds.getD q (false, false)) (pickSrc (ds.getD q (false, false)) diag up left) := by
  induction ds generalizing s q with
  | nil => simp at hq
  | cons d r ih =>
    cases q with
    | zero => simp [cellEntries]
    | succ q =>
      simp only [cellEntries, List.getD_cons_succ]
      rw [ih (s + 1) q (by simpa using hq)]
      simp [Nat.add_assoc, Nat.add_comm 1 q]

theorem V_length (h : HMM S) (loc : Bool) (m i j : Nat) (hj : j ≤ m) : (V h loc m i j).length = h.k := by
  rw [V_cell h loc m i j hj, cellOf]
  split
  · rw [cellEntries_length]; rfl
  · simp [HMM.k]

/-- the source cell a state reads, as a function of the table -/
theorem pickSrc_V (h : HMM S) (loc : Bool) (m i j : Nat) (d : Bool × Bool) (hd : (d.1 || d.2) = true)
    (hi : ¬ (i < d.1.toNat ∨ j < d.2.toNat)) :
    pickSrc d (if i = 0 ∨ j = 0 then [] else V h loc m (i - 1) (j - 1)) (if i = 0 then [] else V h loc m (i - 1) j)
      (if j = 0 then [] else V h loc m i (j - 1)) = V h loc m (i - d.1.toNat) (j - d.2.toNat) := by
  obtain ⟨dx, dy⟩ := d
  cases dx <;> cases dy <;> simp [pickSrc, Bool.toNat] at * <;> omega

/-- the entry-level Bellman equation -/
theorem V_entry (h : HMM S) (loc : Bool) (m i j : Nat) (hj : j ≤ m) (q : Nat) (hq : q < h.k)
    (hd : ((h.dir (q + 1)).1 || (h.dir (q + 1)).2) = true) (dflt : Option S × Nat) :
    (V h loc m i j).getD q dflt =
      if cellOK loc i j then
        cellEntry h loc i j (q + 1) (h.dir (q + 1)) (V h loc m (i - (h.dir (q + 1)).1.toNat) (j - (h.dir (q + 1)).2.toNat))
      else (none, 0) := by
  rw [V_cell h loc m i j hj, cellOf]
  have hdir : h.dir (q + 1) = h.dirs.getD q (false, false) := by simp [HMM.dir]
  split
  · rw [cellEntries_getD _ _ _ _ _ _ _ _ _ q hq, Nat.add_comm 1 q, ← hdir]
    by_cases hi : (i < (h.dir (q + 1)).1.toNat ∨ j < (h.dir (q + 1)).2.toNat)
    · simp [cellEntry, hi]
    · rw [pickSrc_V h loc m i j _ hd hi]
  · have hq' : q < h.dirs.length := hq
    simp [List.getD_eq_getElem?_getD, hq']

end CogentModel.PairHMM
