import CogentModel.Model.Progressive
/-! # C18 — lemmas for the progressive column-merge model (core only, no Mathlib) -/
namespace CogentModel.Progressive


theorem skipped_same (d : Bool) (s e : Nat) : (skipped d s e).filterMap (dimOf d) = List.range' s (e - s) := by
  unfold skipped
  rw [List.filterMap_map]
  have : (dimOf d ∘ fun p => if d then ((none : Option Nat), some p) else (some p, none)) = some := by
    funext p; cases d <;> simp [dimOf]
  rw [this]; simp

theorem skipped_other (d : Bool) (s e : Nat) : (skipped d s e).filterMap (dimOf (!d)) = [] := by
  unfold skipped
  rw [List.filterMap_map]
  have : (dimOf (!d) ∘ fun p => if d then ((none : Option Nat), some p) else (some p, none)) = fun _ => none := by
    funext p; cases d <;> simp [dimOf]
  rw [this]; simp

theorem range'_join (a b c : Nat) (h1 : a ≤ b) (h2 : b < c) :
    List.range' a (b - a) ++ b :: List.range' (b + 1) (c - (b + 1)) = List.range' a (c - a) := by
  have : b :: List.range' (b + 1) (c - (b + 1)) = List.range' b (c - b) := by
    have : c - b = (c - (b + 1)) + 1 := by omega
    rw [this, List.range'_succ]
  rw [this]
  have h := @List.range'_append a (b - a) (c - b) 1
  have e1 : a + 1 * (b - a) = b := by omega
  have e2 : b - a + (c - b) = c - a := by omega
  rw [e1, e2] at h; exact h

/-- the loop emits every remaining column of both children exactly once, in order -/
theorem pogLoop_complete (n1 n2 : Nat) : ∀ (ap : List Pos) (u0 u1 : Nat), apValid n1 n2 ap u0 u1 = true →
    (pogLoop n1 n2 ap u0 u1).filterMap (dimOf false) = List.range' u0 (n1 - u0) ∧
    (pogLoop n1 n2 ap u0 u1).filterMap (dimOf true) = List.range' u1 (n2 - u1)
  | [], u0, u1, _ => by
    have a := skipped_same false u0 n1
    have b := skipped_other false u0 n1
    have c := skipped_same true u1 n2
    have d := skipped_other true u1 n2
    simp only [Bool.not_false, Bool.not_true] at b d
    simp [pogLoop, List.filterMap_append, a, b, c, d]
  | (a, b) :: r, u0, u1, h => by
    simp only [apValid, Bool.and_eq_true] at h
    obtain ⟨⟨ha, hb⟩, hr⟩ := h
    have ih := pogLoop_complete n1 n2 r _ _ hr
    have hfin : ∀ (r : List Pos) (v0 v1 : Nat), apValid n1 n2 r v0 v1 = true → v0 ≤ n1 ∧ v1 ≤ n2 := by
      intro r; induction r with
      | nil => intro v0 v1 h; simpa [apValid] using h
      | cons p r ih2 =>
        intro v0 v1 h
        simp only [apValid, Bool.and_eq_true] at h
        obtain ⟨⟨h1, h2⟩, h3⟩ := h
        have := ih2 _ _ h3
        rcases p with ⟨_ | x, _ | y⟩ <;> simp [nextUpto] at this h1 h2 ⊢ <;> omega
    have hb' := hfin r _ _ hr
    have s0 := skipped_same false; have o0 := skipped_other false
    have s1 := skipped_same true; have o1 := skipped_other true
    simp only [Bool.not_false, Bool.not_true] at o0 o1
    cases a with
    | none =>
      cases b with
      | none => simpa [pogLoop, skipTo, nextUpto, dimOf, List.filterMap_append] using ih
      | some y =>
        simp only [nextUpto] at ih hb'
        simp at hb
        refine ⟨?_, ?_⟩
        · simp [pogLoop, skipTo, nextUpto, List.filterMap_append, o1, dimOf]
          simpa [dimOf] using ih.1
        · simp only [pogLoop, skipTo, nextUpto, List.filterMap_append, s1, List.nil_append]
          rw [List.filterMap_cons]; simp only [dimOf, if_true]
          rw [ih.2]; exact range'_join u1 y n2 hb (by omega)
    | some x =>
      simp at ha
      cases b with
      | none =>
        simp only [nextUpto] at ih hb'
        refine ⟨?_, ?_⟩
        · simp only [pogLoop, skipTo, nextUpto, List.filterMap_append, s0, List.nil_append]
          rw [List.filterMap_cons]; simp only [dimOf]
          rw [ih.1]; exact range'_join u0 x n1 ha (by omega)
        · simp [pogLoop, skipTo, nextUpto, List.filterMap_append, o0, dimOf]
          simpa [dimOf] using ih.2
      | some y =>
        simp at hb
        simp only [nextUpto] at ih hb'
        refine ⟨?_, ?_⟩
        · simp only [pogLoop, skipTo, nextUpto, List.filterMap_append, s0, o1, List.nil_append]
          rw [List.filterMap_cons]; simp only [dimOf]
          rw [ih.1]; exact range'_join u0 x n1 ha (by omega)
        · simp only [pogLoop, skipTo, nextUpto, List.filterMap_append, s1, o0, List.nil_append]
          rw [List.filterMap_cons]; simp only [dimOf, if_true]
          rw [ih.2]; exact range'_join u1 y n2 hb (by omega)


theorem pogTraceback_complete (n1 n2 : Nat) (ap : List Pos) (h : apValid n1 n2 ap 0 0 = true) :
    (pogTraceback n1 n2 ap).filterMap (dimOf false) = List.range' 0 n1 ∧
    (pogTraceback n1 n2 ap).filterMap (dimOf true) = List.range' 0 n2 := by
  simpa [pogTraceback] using pogLoop_complete n1 n2 ap 0 0 h

/-- the columns the DP aligned are kept, in order (no hypothesis) -/
theorem pogLoop_sublist (n1 n2 : Nat) : ∀ (ap : List Pos) (u0 u1 : Nat), ap.Sublist (pogLoop n1 n2 ap u0 u1)
  | [], _, _ => List.nil_sublist _
  | p :: r, u0, u1 => by
    unfold pogLoop
    refine List.Sublist.trans ?_ (List.sublist_append_right _ _)
    refine List.Sublist.trans ?_ (List.sublist_append_right _ _)
    exact (pogLoop_sublist n1 n2 r _ _).cons_cons p

/-! ### rows -/
section rows
variable {α : Type}

theorem degap_insertGapAt : ∀ (c : Nat) (r : Row α), degap (insertGapAt c r) = degap r
  | _, [] => by simp [insertGapAt, degap]
  | 0, some x :: r => by simp [insertGapAt, degap]
  | c + 1, some x :: r => by
    have := degap_insertGapAt c r
    simp only [degap] at this ⊢
    simp [insertGapAt, this]
  | 0, none :: r => by
    have := degap_insertGapAt 0 r
    simp only [degap] at this ⊢
    simp [insertGapAt, this]
  | c + 1, none :: r => by
    have := degap_insertGapAt (c + 1) r
    simp only [degap] at this ⊢
    simp [insertGapAt, this]

theorem length_insertGapAt : ∀ (c : Nat) (r : Row α), (insertGapAt c r).length = r.length + 1
  | _, [] => by simp [insertGapAt]
  | 0, some x :: r => by simp [insertGapAt]
  | c + 1, some x :: r => by simp [insertGapAt, length_insertGapAt c r]
  | 0, none :: r => by simp [insertGapAt, length_insertGapAt 0 r]
  | c + 1, none :: r => by simp [insertGapAt, length_insertGapAt (c + 1) r]

theorem foldl_insert_degap (cs : List Nat) : ∀ (r : Row α),
    degap (cs.foldl (fun r c => insertGapAt c r) r) = degap r ∧
    (cs.foldl (fun r c => insertGapAt c r) r).length = r.length + cs.length := by
  induction cs with
  | nil => intro r; simp
  | cons c cs ih =>
    intro r
    have := ih (insertGapAt c r)
    simp only [List.foldl_cons, List.length_cons]
    rw [this.1, this.2, degap_insertGapAt, length_insertGapAt]
    exact ⟨rfl, by omega⟩

theorem colGaps_length (d : Bool) : ∀ (full : List Pos) (k : Nat),
    (colGaps d full k).length + (full.filterMap (dimOf d)).length = full.length
  | [], _ => by simp [colGaps]
  | p :: r, k => by
    unfold colGaps
    cases h : dimOf d p with
    | none => simp [h]; have := colGaps_length d r k; omega
    | some c => simp [h]; have := colGaps_length d r (k + 1); omega

theorem pinnedMerge_spec (d : Bool) (full : List Pos) (row : Row α) :
    degap (pinnedMerge d full row) = degap row ∧
    (pinnedMerge d full row).length + (full.filterMap (dimOf d)).length = row.length + full.length := by
  have h := foldl_insert_degap (colGaps d full 0) row
  have l := colGaps_length d full 0
  unfold pinnedMerge
  exact ⟨h.1, by rw [h.2]; omega⟩

theorem map_range'_getElem (row : Row α) : ∀ (pre : Row α),
    (List.range' pre.length row.length).map (fun c => ((pre ++ row)[c]?).getD none) = row := by
  induction row with
  | nil => intro pre; simp
  | cons x r ih =>
    intro pre
    have := ih (pre ++ [x])
    simp only [List.length_append, List.length_cons, List.length_nil, List.append_assoc, List.cons_append,
      List.nil_append] at this
    rw [List.length_cons, List.range'_succ, List.map_cons, this]
    simp

theorem specMerge_eq (d : Bool) (full : List Pos) (row : Row α) :
    project d full (specMerge d full row) = (full.filterMap (dimOf d)).map (fun c => (row[c]?).getD none) ∧
    degap (specMerge d full row) = degap ((full.filterMap (dimOf d)).map (fun c => (row[c]?).getD none)) := by
  induction full with
  | nil => simp [project, specMerge, degap]
  | cons p r ih =>
    simp only [specMerge, degap] at ih ⊢
    cases h : dimOf d p with
    | none => simp [project, h, ih.1, ih.2]
    | some c =>
      simp [project, h, ih.1]
      have e := ih.2
      simp only [List.filterMap_map] at e
      cases hc : row[c]?.getD none <;> simp [List.filterMap_map] <;> exact e

theorem specMerge_spec (d : Bool) (full : List Pos) (row : Row α)
    (h : full.filterMap (dimOf d) = List.range' 0 row.length) :
    project d full (specMerge d full row) = row ∧ degap (specMerge d full row) = degap row ∧
    (specMerge d full row).length = full.length := by
  have e := specMerge_eq d full row
  have m := map_range'_getElem row []
  simp only [List.length_nil, List.nil_append] at m
  rw [h, m] at e
  exact ⟨e.1, e.2, by simp [specMerge]⟩

theorem mergeRow_spec (fixed d : Bool) (full : List Pos) (row : Row α)
    (h : full.filterMap (dimOf d) = List.range' 0 row.length) :
    degap (mergeRow fixed d full row) = degap row ∧ (mergeRow fixed d full row).length = full.length := by
  cases fixed with
  | true => have := specMerge_spec d full row h; exact ⟨this.2.1, this.2.2⟩
  | false =>
    have := pinnedMerge_spec d full row
    rw [h] at this
    have e : mergeRow false d full row = pinnedMerge d full row := by simp [mergeRow]
    rw [e]
    exact ⟨this.1, by have := this.2; simp at this; omega⟩

end rows

/-! ### trees -/
namespace GTree
variable {α : Type}

theorem rows_spec (fixed : Bool) : ∀ (t : GTree α), t.valid = true →
    (t.rows fixed).map degap = t.leaves ∧ ∀ r ∈ t.rows fixed, r.length = t.width
  | leaf s, _ => by simp [rows, leaves, width, degap, List.filterMap_map]
  | node l r ap, h => by
    simp only [valid, Bool.and_eq_true] at h
    obtain ⟨⟨hl, hr⟩, hap⟩ := h
    have il := rows_spec fixed l hl
    have ir := rows_spec fixed r hr
    have c := pogTraceback_complete l.width r.width ap hap
    have ml : ∀ x ∈ l.rows fixed, degap (mergeRow fixed false (pogTraceback l.width r.width ap) x) = degap x ∧
        (mergeRow fixed false (pogTraceback l.width r.width ap) x).length = (pogTraceback l.width r.width ap).length :=
      fun x hx => mergeRow_spec fixed false _ x (by rw [il.2 x hx]; exact c.1)
    have mr : ∀ x ∈ r.rows fixed, degap (mergeRow fixed true (pogTraceback l.width r.width ap) x) = degap x ∧
        (mergeRow fixed true (pogTraceback l.width r.width ap) x).length = (pogTraceback l.width r.width ap).length :=
      fun x hx => mergeRow_spec fixed true _ x (by rw [ir.2 x hx]; exact c.2)
    refine ⟨?_, ?_⟩
    · simp only [rows, leaves, List.map_append, List.map_map]
      rw [← il.1, ← ir.1]
      congr 1
      · exact List.map_congr_left fun x hx => (ml x hx).1
      · exact List.map_congr_left fun x hx => (mr x hx).1
    · intro x hx
      simp only [rows, List.mem_append, List.mem_map] at hx
      rcases hx with ⟨y, hy, rfl⟩ | ⟨y, hy, rfl⟩
      · exact (ml y hy).2
      · exact (mr y hy).2

/-- repaired merge: the parent's rows restricted to a child's columns are the child's rows -/
theorem keeps_children (l r : GTree α) (ap : List Pos) (h : (node l r ap).valid = true) :
    ((node l r ap).rows true).map (project false (node l r ap).full) =
      l.rows true ++ (r.rows true).map (fun x => project false (node l r ap).full (specMerge true (node l r ap).full x)) ∧
    (((node l r ap).rows true).take (l.rows true).length).map (project false (node l r ap).full) = l.rows true ∧
    (((node l r ap).rows true).drop (l.rows true).length).map (project true (node l r ap).full) = r.rows true := by
  simp only [valid, Bool.and_eq_true] at h
  obtain ⟨⟨hl, hr⟩, hap⟩ := h
  have il := rows_spec true l hl
  have ir := rows_spec true r hr
  have c := pogTraceback_complete l.width r.width ap hap
  have pl : (l.rows true).map (fun x => project false (pogTraceback l.width r.width ap)
      (mergeRow true false (pogTraceback l.width r.width ap) x)) = l.rows true := by
    conv => rhs; rw [← List.map_id (l.rows true)]
    exact List.map_congr_left fun x hx => (specMerge_spec false _ x (by rw [il.2 x hx]; exact c.1)).1
  have pr : (r.rows true).map (fun x => project true (pogTraceback l.width r.width ap)
      (mergeRow true true (pogTraceback l.width r.width ap) x)) = r.rows true := by
    conv => rhs; rw [← List.map_id (r.rows true)]
    exact List.map_congr_left fun x hx => (specMerge_spec true _ x (by rw [ir.2 x hx]; exact c.2)).1
  have hlen : ((l.rows true).map (mergeRow true false (pogTraceback l.width r.width ap))).length = (l.rows true).length := by simp
  refine ⟨?_, ?_, ?_⟩
  · simp only [rows, full, List.map_append, List.map_map, Function.comp_def]
    rw [pl]; rfl
  · simp only [rows, full]
    rw [← hlen, List.take_left', List.map_map]; exact pl; rfl
  · simp only [rows, full]
    rw [← hlen, List.drop_left', List.map_map]; exact pr; rfl

end GTree

end CogentModel.Progressive
