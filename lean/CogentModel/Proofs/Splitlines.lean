import CogentModel.Model.Splitlines
/-! Helper lemmas for C06: `iter_splitlines` is independent of the chunking. -/
namespace CogentModel.Splitlines

/-- the text uses `'\n'` as its only line boundary (true of every file read in text mode with
universal newlines that has no VT/FF/FS/GS/RS/NEL/LS/PS control characters) -/
def NlOnly (s : List Char) : Prop := ∀ c ∈ s, isBreak c = true → c = '\n'

instance (s : List Char) : Decidable (NlOnly s) := by unfold NlOnly; infer_instance

theorem isBreak_nl : isBreak '\n' = true := by decide

theorem nlOnly_append {a b : List Char} : NlOnly (a ++ b) ↔ NlOnly a ∧ NlOnly b := by
  unfold NlOnly
  constructor
  · intro h
    exact ⟨fun c hc => h c (List.mem_append_left _ hc), fun c hc => h c (List.mem_append_right _ hc)⟩
  · rintro ⟨ha, hb⟩ c hc
    rcases List.mem_append.mp hc with h | h
    · exact ha c h
    · exact hb c h

theorem nlOnly_cons {c : Char} {s : List Char} : NlOnly (c :: s) ↔ (isBreak c = true → c = '\n') ∧ NlOnly s := by
  unfold NlOnly
  constructor
  · intro h
    exact ⟨h c (List.mem_cons_self), fun d hd => h d (List.mem_cons_of_mem _ hd)⟩
  · rintro ⟨h1, h2⟩ d hd
    rcases List.mem_cons.mp hd with h | h
    · subst h; exact h1
    · exact h2 d h

theorem crlf_id_of_noCR : ∀ (s : List Char), (∀ c ∈ s, c ≠ '\r') → crlfAux false s = s
  | [], _ => rfl
  | c :: cs, h => by
    have hc : c ≠ '\r' := h c List.mem_cons_self
    have ih := crlf_id_of_noCR cs (fun d hd => h d (List.mem_cons_of_mem _ hd))
    simp [crlfAux, hc, ih]

theorem nlOnly_noCR {s : List Char} (h : NlOnly s) : ∀ c ∈ s, c ≠ '\r' := by
  intro c hc heq
  have := h c hc (by subst heq; decide)
  subst heq
  exact absurd this (by decide)

theorem pySplitlines_eq_core {s : List Char} (h : NlOnly s) : pySplitlines s = splitCore s := by
  unfold pySplitlines
  rw [crlf_id_of_noCR s (nlOnly_noCR h)]

theorem splitCore_eq_nil {s : List Char} : splitCore s = [] ↔ s = [] := by
  cases s with
  | nil => simp [splitCore]
  | cons c cs =>
    simp only [splitCore]
    split
    · simp
    · cases h : splitCore cs <;> simp [consHead]

theorem consHead_ne_nil (c : Char) (ls : List (List Char)) : consHead c ls ≠ [] := by
  cases ls <;> simp [consHead]

theorem consHead_append (c : Char) {a : List (List Char)} (b : List (List Char)) (ha : a ≠ []) :
    consHead c (a ++ b) = consHead c a ++ b := by
  cases a with
  | nil => exact absurd rfl ha
  | cons l ls => simp [consHead]

/-- every line of `splitCore s` consists of non-boundary characters of `s` -/
theorem mem_splitCore : ∀ (s : List Char) (l : List Char), l ∈ splitCore s →
    ∀ c ∈ l, c ∈ s ∧ isBreak c = false
  | [], l, hl => by simp [splitCore] at hl
  | d :: ds, l, hl => by
    intro c hc
    simp only [splitCore] at hl
    split at hl
    · rcases List.mem_cons.mp hl with h | h
      · subst h; simp at hc
      · have := mem_splitCore ds l h c hc
        exact ⟨List.mem_cons_of_mem _ this.1, this.2⟩
    · rename_i hd
      cases hs : splitCore ds with
      | nil =>
        rw [hs] at hl
        simp [consHead] at hl
        subst hl
        simp at hc
        subst hc
        exact ⟨List.mem_cons_self, by simpa using hd⟩
      | cons l0 ls =>
        rw [hs] at hl
        simp only [consHead] at hl
        rcases List.mem_cons.mp hl with h | h
        · subst h
          rcases List.mem_cons.mp hc with h2 | h2
          · subst h2; exact ⟨List.mem_cons_self, by simpa using hd⟩
          · have := mem_splitCore ds l0 (by rw [hs]; exact List.mem_cons_self) c h2
            exact ⟨List.mem_cons_of_mem _ this.1, this.2⟩
        · have := mem_splitCore ds l (by rw [hs]; exact List.mem_cons_of_mem _ h) c hc
          exact ⟨List.mem_cons_of_mem _ this.1, this.2⟩

/-- the carried remainder, written with `splitCore` -/
def carryC (data : List Char) : List Char :=
  let last := ((splitCore data).getLast?).getD []
  if endsWithNl data then last ++ ['\n'] else last

theorem endsWithNl_cons (c : Char) {cs : List Char} (h : cs ≠ []) : endsWithNl (c :: cs) = endsWithNl cs := by
  unfold endsWithNl
  cases cs with
  | nil => exact absurd rfl h
  | cons d ds => simp [List.getLast?_cons_cons]

/-- **the carry-over lemma**: splitting `data ++ rest` = the complete lines of `data`, then the
split of (what `iter_splitlines` carries over) `++ rest`. -/
theorem splitCore_carry : ∀ (data : List Char), data ≠ [] → NlOnly data → ∀ rest : List Char,
    splitCore (data ++ rest) = (splitCore data).dropLast ++ splitCore (carryC data ++ rest)
  | [], h, _, _ => absurd rfl h
  | c :: cs, _, hnl, rest => by
    have hnl' := nlOnly_cons.mp hnl
    by_cases hcs : cs = []
    · subst hcs
      by_cases hb : isBreak c = true
      · have hc : c = '\n' := hnl'.1 hb
        subst hc
        simp [splitCore, carryC, endsWithNl, isBreak_nl]
      · have hne : c ≠ '\n' := by intro h; subst h; exact hb isBreak_nl
        simp [splitCore, carryC, endsWithNl, hb, consHead, hne]
    · have ih := splitCore_carry cs hcs hnl'.2 rest
      have hsne : splitCore cs ≠ [] := fun h => hcs (splitCore_eq_nil.mp h)
      have hend : endsWithNl (c :: cs) = endsWithNl cs := endsWithNl_cons c hcs
      by_cases hb : isBreak c = true
      · -- a newline followed by more text
        have hlast : (splitCore (c :: cs)).getLast? = (splitCore cs).getLast? := by
          simp only [splitCore, hb, if_true]
          cases hs : splitCore cs with
          | nil => exact absurd hs hsne
          | cons l ls => simp [List.getLast?_cons_cons]
        have hcarry : carryC (c :: cs) = carryC cs := by
          unfold carryC; simp only [hlast, hend]
        have hdrop : (splitCore (c :: cs)).dropLast = [] :: (splitCore cs).dropLast := by
          simp only [splitCore, hb, if_true]
          cases hs : splitCore cs with
          | nil => exact absurd hs hsne
          | cons l ls => simp [List.dropLast]
        rw [hcarry, hdrop]
        simp only [List.cons_append, splitCore, hb, if_true, ih]
      · -- an ordinary character followed by more text
        cases hs : splitCore cs with
        | nil => exact absurd hs hsne
        | cons l ls =>
          by_cases hls : ls = []
          · subst hls
            have hcarry : carryC (c :: cs) = c :: carryC cs := by
              unfold carryC
              simp only [splitCore, hb, hs, consHead, hend, List.getLast?_singleton, Option.getD_some]
              split <;> simp
            rw [hcarry]
            simp only [List.cons_append, splitCore, hb, hs, consHead]
            rw [ih, hs]
            simp
          · have hcarry : carryC (c :: cs) = carryC cs := by
              unfold carryC
              simp only [splitCore, hb, hs, consHead, hend]
              cases ls with
              | nil => exact absurd rfl hls
              | cons l2 ls2 => simp [List.getLast?_cons_cons]
            have hdrop : (splitCore (c :: cs)).dropLast = consHead c (splitCore cs).dropLast := by
              simp only [splitCore, hb, hs, consHead]
              cases ls with
              | nil => exact absurd rfl hls
              | cons l2 ls2 => simp [List.dropLast]
            have hdne : (splitCore cs).dropLast ≠ [] := by
              rw [hs]
              cases ls with
              | nil => exact absurd rfl hls
              | cons l2 ls2 => simp [List.dropLast]
            rw [hcarry, hdrop]
            simp only [List.cons_append, splitCore, hb]
            rw [ih, consHead_append c _ hdne]
            simp

theorem carryC_nlOnly {data : List Char} (_h : NlOnly data) : NlOnly (carryC data) := by
  unfold carryC
  have hlast : NlOnly (((splitCore data).getLast?).getD []) := by
    intro c hc hb
    cases hl : (splitCore data).getLast? with
    | none => rw [hl] at hc; simp at hc
    | some l =>
      rw [hl] at hc
      simp only [Option.getD_some] at hc
      have := mem_splitCore data l (List.mem_of_getLast? hl) c hc
      rw [this.2] at hb
      exact absurd hb (by simp)
  simp only []
  split
  · exact nlOnly_append.mpr ⟨hlast, by intro c hc _; simpa using hc⟩
  · exact hlast

theorem carry_eq {data : List Char} (h : NlOnly data) : carry data = carryC data := by
  unfold carry carryC
  rw [pySplitlines_eq_core h]

theorem emitted_eq {data : List Char} (h : NlOnly data) : emitted data = (splitCore data).dropLast := by
  unfold emitted
  rw [pySplitlines_eq_core h]

/-- the loop invariant of `iter_splitlines` -/
theorem iterGo_eq : ∀ (chunks : List (List Char)) (last : List Char),
    (∀ ch ∈ chunks, ch ≠ []) → NlOnly (last ++ chunks.flatten) →
    iterGo last chunks = splitCore (last ++ chunks.flatten)
  | [], last, _, hnl => by
    simp only [List.flatten_nil, List.append_nil] at hnl ⊢
    unfold iterGo
    by_cases hl : last = []
    · subst hl; simp [splitCore]
    · have : last.isEmpty = false := by cases last <;> simp at hl ⊢
      simp [this, pySplitlines_eq_core hnl]
  | ch :: rest, last, hne, hnl => by
    have hch : ch ≠ [] := hne ch List.mem_cons_self
    have hemp : ch.isEmpty = false := by cases ch <;> simp at hch ⊢
    simp only [List.flatten_cons] at hnl ⊢
    rw [← List.append_assoc] at hnl ⊢
    have hd : NlOnly (last ++ ch) := (nlOnly_append.mp hnl).1
    have hr : NlOnly rest.flatten := (nlOnly_append.mp hnl).2
    have hdne : last ++ ch ≠ [] := by simp [hch]
    unfold iterGo
    simp only [hemp, Bool.false_eq_true, if_false]
    rw [carry_eq hd, emitted_eq hd]
    rw [iterGo_eq rest (carryC (last ++ ch)) (fun x hx => hne x (List.mem_cons_of_mem _ hx))
      (nlOnly_append.mpr ⟨carryC_nlOnly hd, hr⟩)]
    exact (splitCore_carry (last ++ ch) hdne hd rest.flatten).symm

end CogentModel.Splitlines
