import CogentModel.Proofs.AlnRefine2
import CogentModel.Proofs.AlnMono
import CogentModel.Proofs.IndelMapSliceTotal
namespace CogentModel.Aln
open CogentModel.IndelMap CogentModel.Gapped List CogentModel

/-- **slicing a well-formed row never raises** unless a bound lies below `-len` -/
theorem rowSlice_total (r : Row) (h : RowWF r) (a b : Option Int)
    (ha : ∀ x, a = some x → -len r.map ≤ x) (hb : ∀ y, b = some y → -len r.map ≤ y) :
    ∃ r', rowSlice r a b = .ok r' := by
  obtain ⟨hw, hp⟩ := h
  have hn0 : 0 ≤ len r.map := by have := len_eq' r.map hw; omega
  obtain ⟨nm, hnm⟩ := getitem_total' r.map hw a b ha hb
  rw [rowSlice_eq]
  unfold rowSliceN
  rw [hnm]
  simp only []
  -- both sequence indices exist
  have hsI : getSeqIndex r.map (a.getD 0) = .ok (seqIndexNN r.map (conv (len r.map) (a.getD 0))) ∧
      0 ≤ conv (len r.map) (a.getD 0) := by
    unfold getSeqIndex conv
    cases a with
    | none => simp
    | some x =>
      have := ha x rfl
      simp only [Option.getD_some]
      by_cases hx : x < 0
      · simp only [hx, if_true]; rw [if_neg (by omega), if_neg (by omega)]; exact ⟨rfl, by omega⟩
      · simp only [hx, if_false]; rw [if_pos (by omega)]; exact ⟨rfl, by omega⟩
  have heI : getSeqIndex r.map (bPrime b (len r.map)) = .ok (seqIndexNN r.map (conv (len r.map) (bPrime b (len r.map)))) ∧
      0 ≤ conv (len r.map) (bPrime b (len r.map)) := by
    have hbp : -len r.map ≤ bPrime b (len r.map) := by
      cases b with
      | none => simp only [bPrime]; omega
      | some y => have := hb y rfl; simp only [bPrime]; split <;> omega
    unfold getSeqIndex conv
    by_cases hx : bPrime b (len r.map) < 0
    · simp only [hx, if_true]; rw [if_neg (by omega), if_neg (by omega)]; exact ⟨rfl, by omega⟩
    · simp only [hx, if_false]; rw [if_pos (by omega)]; exact ⟨rfl, by omega⟩
  rw [hsI.1, heI.1]
  simp only []
  by_cases hc : nm.parentLength ≠ 0 ∧
      seqIndexNN r.map (conv (len r.map) (a.getD 0)) > seqIndexNN r.map (conv (len r.map) (bPrime b (len r.map)))
  · -- impossible: a non-empty result means start < stop, and the sequence index is monotone
    exfalso
    rw [getitem_eq_tail] at hnm
    obtain ⟨i1, i2, i3, i4⟩ := getitemTail_inv _ _ _ _ hnm
    by_cases hcase : conv (len r.map) (a.getD 0) ≥ min (conv (len r.map) (b.getD (len r.map))) (len r.map)
    · have := i3 hcase; rw [this] at hc; exact hc.1 rfl
    · have hbp : conv (len r.map) (bPrime b (len r.map)) = conv (len r.map) (b.getD (len r.map)) := by
        cases b with
        | none => rfl
        | some x =>
          simp only [bPrime, Option.getD_some]
          by_cases hx0 : x = 0
          · exfalso
            subst hx0
            have hz : conv (len r.map) ((some (0 : Int)).getD (len r.map)) = 0 := by simp [conv]
            rw [hz] at hcase
            omega
          · rw [if_neg hx0]
      rw [hbp] at hc
      have := seqIndexNN_mono r.map hw _ _ i1 (show conv (len r.map) (a.getD 0) ≤ conv (len r.map) (b.getD (len r.map)) by omega)
      omega
  · rw [if_neg hc]; exact ⟨_, rfl⟩

end CogentModel.Aln
