import CogentModel.Model.AtomicSite
import CogentModel.Proofs.AtomicProgLemmas
/-! C19: (1) the `tmpdir=` route of `atomic_write` at every crash point and under a fault at every call; (2) the bare-object
protocol run through the statement-language semantics; (3) the configuration a covered call site induces. Core Lean only. -/
namespace CogentModel.AtomicSite
open CogentModel.AtomicWrite CogentModel.AtomicProg

/-! ### (1) the `tmpdir=` route -/

theorem programTmp_eq (c : Cfg) :
    programTmp c .unlinkFile = preTmp c ++ [⟨.rename c.tmpfile c.dest, .commitRename⟩, cleanupTmp c] := by
  simp [programTmp, preTmp, cleanupTmp]

theorem preTmp_length (c : Cfg) : (preTmp c).length = c.chunks.length + 2 := by simp [preTmp, writes]

theorem programTmp_length (c : Cfg) : (programTmp c .unlinkFile).length = c.chunks.length + 4 := by
  simp [programTmp_eq, preTmp_length]

theorem programTmp_cons (c : Cfg) : programTmp c .unlinkFile = ⟨.openW c.tmpfile, .enter⟩ ::
    (writes c c.chunks ++ [closeInstr c, ⟨.rename c.tmpfile c.dest, .commitRename⟩, ⟨.unlink c.tmpfile, .commitUnlink⟩]) := by
  simp [programTmp]

/-- **one injected fault on the `tmpdir=` route**: whichever call `k` raises, the structured code issues the first `k` calls,
the failing one and `handlerTmp`; the exception reaches the caller unless the failing call is the final (suppressed) unlink -/
theorem runWith_hand_tmpdir_fault (c : Cfg) (hz : c.zipMember = none) (hcb : c.closeInBody = false)
    (k : Nat) (hk : k < c.chunks.length + 4) :
    runWith hand c false (some k) = ⟨faultTraceTmp c k, decide (k < c.chunks.length + 3), none⟩ := by
  unfold faultTraceTmp handlerTmp
  rw [programTmp_cons]
  match k, hk with
  | 0, _ =>
    simp [runWith, runWithBody, hand, handCleanup, run, callPrim, Prim.instr, cleanupTmp]
  | j + 1, hk =>
    by_cases hj : j < c.chunks.length
    · have : j + 1 ≤ (writes c c.chunks).length := by rw [writes_length]; omega
      have h1 : j + 1 ≤ c.chunks.length := by omega
      simp [runWith, runWithBody, hand, handCleanup, run, callPrim, Prim.instr, runWrites_some, hj, h1,
        List.take_append_of_le_length this, closeInstr, hcb, cleanupTmp]
      omega
    · have e0 := runWrites_pass c c.chunks 0
      have e1 := runWrites_pass c c.chunks 1
      have e2 := runWrites_pass c c.chunks 2
      have t1 := take_writes_add c c.chunks
      simp only [Nat.add_zero] at e0
      by_cases h0 : j = c.chunks.length
      · subst h0
        simp [runWith, runWithBody, hand, handCleanup, run, callPrim, Prim.instr, e0, t1, closeInstr, hcb, cleanupTmp] <;> omega
      · by_cases h1 : j = c.chunks.length + 1
        · subst h1
          simp [runWith, runWithBody, hand, handCleanup, run, callPrim, Prim.instr, e1, hz, t1, closeInstr, hcb, cleanupTmp] <;> omega
        · have h2 : j = c.chunks.length + 2 := by omega
          subst h2
          simp [runWith, runWithBody, hand, handCleanup, run, callPrim, Prim.instr, e2, hz, t1, closeInstr, hcb, cleanupTmp] <;> omega

/-- a file or nothing (not a directory, not an archive) -/
def fileOrNone : Option Node → Prop
  | none => True
  | some (.file _) => True
  | _ => False

/-- the calls of `preTmp`: open / write / close of the temp file -/
def onTmp (c : Cfg) (i : Instr) : Prop :=
  i.call = .openW c.tmpfile ∨ (∃ ch, i.call = .write c.tmpfile ch) ∨ i.call = .close c.tmpfile

theorem preTmp_onTmp (c : Cfg) : ∀ i ∈ preTmp c, onTmp c i := by
  intro i hi
  simp only [preTmp, writes, List.mem_append, List.mem_cons, List.mem_map, List.not_mem_nil, or_false] at hi
  rcases hi with (rfl | ⟨ch, _, rfl⟩) | rfl
  · exact Or.inl rfl
  · exact Or.inr (Or.inl ⟨ch, rfl⟩)
  · exact Or.inr (Or.inr rfl)

theorem onTmp_writesTo (c : Cfg) (i : Instr) (h : onTmp c i) (q : Path) (hq : q ≠ c.tmpfile) : writesTo i.call q = false := by
  rcases h with h | ⟨ch, h⟩ | h <;> simp [h, writesTo, hq]

theorem step_onTmp (c : Cfg) (S S' : FS) (call : Call)
    (h : call = .openW c.tmpfile ∨ (∃ ch, call = .write c.tmpfile ch) ∨ call = .close c.tmpfile)
    (hS : fileOrNone (S c.tmpfile)) (hr : step S call = .ok S') : fileOrNone (S' c.tmpfile) := by
  rcases h with rfl | ⟨ch, rfl⟩ | rfl
  · simp only [step] at hr
    split at hr
    · cases hr
    · split at hr
      · cases hr; simp [upd, fileOrNone]
      · cases hr
  · simp only [step] at hr
    split at hr
    · cases hr; simp [upd, fileOrNone]
    · cases hr
  · simp only [step] at hr; cases hr; exact hS

theorem runInstr_onTmp (c : Cfg) (S S' : FS) (i : Instr) (h : onTmp c i) (hS : fileOrNone (S c.tmpfile))
    (hr : runInstr S i = .ok S') : fileOrNone (S' c.tmpfile) := by
  unfold runInstr at hr
  split at hr
  · next fs'' hs => cases hr; exact step_onTmp c S _ i.call h hS hs
  · split at hr
    · cases hr; exact hS
    · cases hr

theorem exec_onTmp (c : Cfg) (l : List Instr) (hl : ∀ i ∈ l, onTmp c i) (S : FS) (hS : fileOrNone (S c.tmpfile)) :
    fileOrNone ((exec S l).1 c.tmpfile) := by
  induction l generalizing S with
  | nil => exact hS
  | cons i is ih =>
    cases hr : runInstr S i with
    | ok S' =>
      rw [exec_cons_ok _ _ _ _ hr]
      exact ih (fun j hj => hl j (List.mem_cons_of_mem _ hj)) S' (runInstr_onTmp c S S' i (hl i List.mem_cons_self) hS hr)
    | error e => rw [exec_cons_err _ _ _ _ hr]; exact hS

/-- `_cleanup` on the `tmpdir=` route: the temp file is gone afterwards, nothing else changes, nothing propagates -/
theorem exec_cleanupTmp (c : Cfg) (S : FS) (hS : fileOrNone (S c.tmpfile)) :
    (exec S [cleanupTmp c]).2 = none ∧ (exec S [cleanupTmp c]).1 c.tmpfile = none ∧
    ∀ q, q ≠ c.tmpfile → (exec S [cleanupTmp c]).1 q = S q := by
  cases hv : S c.tmpfile with
  | none => simp [exec, runInstr, step, cleanupTmp, hv]
  | some n =>
    cases n with
    | file d => simp [exec, runInstr, step, cleanupTmp, hv, upd]; intro q hq; simp [hq]
    | dir => rw [hv] at hS; cases hS
    | archive ms t => rw [hv] at hS; cases hS

theorem take_le_pre (c : Cfg) (k : Nat) (hk : k ≤ c.chunks.length + 2) :
    (programTmp c .unlinkFile).take k = (preTmp c).take k := by
  rw [programTmp_eq, List.take_append_of_le_length (by rw [preTmp_length]; exact hk)]

/-- before the rename nothing but the temp file has been touched -/
theorem crashTmp_before (c : Cfg) (fs : FS) (k : Nat) (hk : k ≤ c.chunks.length + 2) (q : Path) (hq : q ≠ c.tmpfile) :
    crashStateTmp c fs k q = fs q := by
  unfold crashStateTmp
  rw [take_le_pre c k hk]
  exact exec_frame _ _ _ (fun i hi => onTmp_writesTo c i (preTmp_onTmp c i (List.mem_of_mem_take hi)) q hq)

theorem crashTmp_before_file (c : Cfg) (fs : FS) (hf : fileOrNone (fs c.tmpfile)) (k : Nat) (hk : k ≤ c.chunks.length + 2) :
    fileOrNone (crashStateTmp c fs k c.tmpfile) := by
  unfold crashStateTmp
  rw [take_le_pre c k hk]
  exact exec_onTmp c _ (fun i hi => preTmp_onTmp c i (List.mem_of_mem_take hi)) fs hf

/-- from the rename on the state is the committed one (the final unlink finds nothing and changes nothing) -/
theorem crashTmp_after (c : Cfg) (fs : FS) (h : WFtmp c fs) (k : Nat) (hk : c.chunks.length + 3 ≤ k) :
    crashStateTmp c fs k = tmpCommitted c fs := by
  unfold crashStateTmp
  by_cases h3 : k = c.chunks.length + 3
  · have e : (programTmp c .unlinkFile).take k = preTmp c ++ [⟨.rename c.tmpfile c.dest, .commitRename⟩] := by
      rw [programTmp_eq, h3, show c.chunks.length + 3 = (preTmp c).length + 1 from by rw [preTmp_length],
        List.take_length_add_append]; rfl
    have hp : exec fs (preTmp c) = (tmpState c fs, none) := exec_preTmp c fs h
    rw [e, exec_append_ok _ _ _ (by rw [hp]), hp, exec_cons_ok _ _ _ _ (run_rename_tmp c fs h)]; rfl
  · rw [List.take_of_length_le (by rw [programTmp_length]; omega), exec_programTmp_unlink c fs h]

/-- a fault before the final unlink on the `tmpdir=` route: after the handler the temp file is gone and nothing else has changed -/
theorem faultTmp_before (c : Cfg) (fs : FS) (hf : fileOrNone (fs c.tmpfile)) (k : Nat) (hk : k < c.chunks.length + 3) :
    faultStateTmp c fs k c.tmpfile = none ∧ ∀ q, q ≠ c.tmpfile → faultStateTmp c fs k q = fs q := by
  have hS := crashTmp_before_file c fs hf k (by omega)
  have hcl := exec_cleanupTmp c (crashStateTmp c fs k) hS
  have e : exec (crashStateTmp c fs k) (handlerTmp c k) = exec (crashStateTmp c fs k) [cleanupTmp c] := by
    unfold handlerTmp
    split
    · rfl
    · split
      · rw [exec_cons_ok _ _ _ _ (show runInstr _ ⟨.close c.tmpfile, .exitClose⟩ = .ok _ from rfl)]
      · simp [hk]
  unfold faultStateTmp
  rw [e]
  exact ⟨hcl.2.1, fun q hq => by rw [hcl.2.2 q hq]; exact crashTmp_before c fs k (by omega) q hq⟩

/-- the final unlink raising is suppressed: the committed state stays -/
theorem faultTmp_last (c : Cfg) (fs : FS) (h : WFtmp c fs) :
    faultStateTmp c fs (c.chunks.length + 3) = tmpCommitted c fs := by
  unfold faultStateTmp handlerTmp
  have a : ¬ (c.chunks.length + 3 = 0) := by omega
  have b : ¬ (c.chunks.length + 3 ≤ c.chunks.length) := by omega
  simp only [a, b, if_false, Nat.lt_irrefl, exec]
  exact crashTmp_after c fs h _ (Nat.le_refl _)

/-! ### (2) the bare-object protocol -/

theorem isEmpty_false (c : Cfg) (hne : c.chunks ≠ []) : c.chunks.isEmpty = false := by
  cases h : c.chunks with
  | nil => exact absurd h hne
  | cons a b => rfl

/-- **no fault**: driven as a bare object (at least one write) the class issues exactly the flat program -/
theorem runBare_hand_none (c : Cfg) (hc : c.commit = .replace) (hne : c.chunks ≠ []) :
    runBare handBare c true none = ⟨program c, false, none⟩ := by
  have hemp := isEmpty_false c hne
  cases hz : c.zipMember with
  | none =>
    rw [program_replace c hz hc]
    simp [runBare, runBareOpened, hemp, handBare, hand, handCleanup, run, callPrim, runWrites_none, Prim.instr, hz]
  | some m =>
    rw [program_zip c m hz]
    simp [runBare, runBareOpened, hemp, handBare, hand, handCleanup, run, callPrim, runWrites_none, Prim.instr, hz]

theorem runBare_hand_fault (c : Cfg) (hz : c.zipMember = none) (hc : c.commit = .replace) (hg : c.guarded = true)
    (hcb : c.closeInBody = false) (hne : c.chunks ≠ [])
    (k : Nat) (hk : k < (program c).length) :
    runBare handBare c true (some k) = ⟨bareFaultTrace c k, decide (k + 1 < (program c).length), none⟩ := by
  have hlen : (program c).length = c.chunks.length + 5 := by simp [program_replace c hz hc, writes]
  have hemp := isEmpty_false c hne
  rw [hlen] at hk ⊢
  unfold bareFaultTrace
  by_cases hlt : k < c.chunks.length + 2
  · -- the constructor, the unguarded open or a write raises: the trace stops there
    simp only [hlt, if_true]
    rw [program_replace c hz hc]
    match k, hlt with
    | 0, _ => simp [runBare, handBare, hand, run, callPrim, Prim.instr]
    | 1, _ => simp [runBare, runBareOpened, hemp, handBare, hand, run, callPrim, Prim.instr]
    | j + 2, hlt =>
      have hj : j < c.chunks.length := by omega
      have : j + 1 ≤ (writes c c.chunks).length := by rw [writes_length]; omega
      simp [runBare, runBareOpened, hemp, handBare, hand, run, callPrim, Prim.instr, runWrites_some, hj,
        List.take_append_of_le_length this]
      omega
  · -- `close()` = `__exit__(None, None, None)`: as inside a with-block
    simp only [hlt, if_false]
    unfold faultTrace
    obtain ⟨j, rfl⟩ : ∃ j, k = j + 2 := ⟨k - 2, by omega⟩
    have e0 := runWrites_pass c c.chunks 0
    have e1 := runWrites_pass c c.chunks 1
    have e2 := runWrites_pass c c.chunks 2
    have t1 := take_writes_add c c.chunks
    simp only [Nat.add_zero] at e0
    by_cases h0 : j = c.chunks.length
    · subst h0
      rw [phaseAt_close, program_replace c hz hc]
      simp [runBare, runBareOpened, hemp, handBare, hand, handCleanup, run, callPrim, Prim.instr, handler, hg, e0, t1, closeInstr, hcb]
    · by_cases h1 : j = c.chunks.length + 1
      · subst h1
        rw [phaseAt_commit0, post_replace c hz hc, program_replace c hz hc]
        simp [runBare, runBareOpened, hemp, handBare, hand, handCleanup, run, callPrim, Prim.instr, handler, hg, e1, hz, t1, closeInstr, hcb]
      · have h2 : j = c.chunks.length + 2 := by omega
        subst h2
        rw [phaseAt_last_replace c hz hc, program_replace c hz hc]
        simp [runBare, runBareOpened, hemp, handBare, hand, handCleanup, run, callPrim, Prim.instr, handler, e2, hz, t1, closeInstr, hcb]

/-! ### (3) call sites -/

theorem covered_cfg (s : Site) (h : s.covered = true) (j : Job) : s.cfg j = (plainJob j).cfg := by
  simp only [Site.covered, Bool.and_eq_true, Bool.not_eq_eq_eq_not, Bool.not_true, beq_iff_eq] at h
  obtain ⟨⟨⟨⟨⟨h1, h2⟩, h3⟩, h4⟩, h5⟩, h6⟩ := h
  simp [Site.cfg, Job.cfg, plainJob, h1, h2, h3, h4, h5, h6]

end CogentModel.AtomicSite
