import CogentModel.Gen.C15Tree
import CogentModel.Proofs.NJLemmas
import CogentModel.Proofs.UPGMALemmas
import Mathlib.Tactic.SplitIfs
/-! Helper definitions / lemmas for `Props/C15TreeGen.lean` (the TRANSLATED nj.py / UPGMA.py code equals the hand models):
congruence of the two argmin folds in the entries they read, the list surgery of `join`, the abstraction `toU` from the
PhyloNode records of the translated code to the trees of the hand model and the simulation relation `Rel`/`RelL`, the
translated loop bodies iterated (`genIter`, `genNjLoop`). -/
namespace CogentModel.C15
open CogentModel.NJ CogentModel.UPGMA CogentModel.TreeNp CogentModel.Gen

theorem fsi_rfl (m : Mat) (n : Nat) : C15Tree.find_smallest_index n (get m) = findSmallest m n := rfl

theorem tab_congr (n : Nat) (f g : Nat → Nat → Rat) (h : ∀ a b, a < n → b < n → f a b = g a b) : tab n f = tab n g := by
  unfold tab
  apply List.map_congr_left
  intro a ha
  apply List.map_congr_left
  intro b hb
  exact h a b (List.mem_range.mp ha) (List.mem_range.mp hb)

theorem list_join_eq (nodes : List T) (L i j : Nat) (new : T) (hn : nodes.length = L) (hi : i < L) (hj : j < L) :
    lpop (lset (lset nodes i new) j ((lset nodes i new).getD (L - 1) default)) = joinNodes nodes L i j new := by
  unfold joinNodes lset lpop
  apply List.ext_getElem?
  intro a
  by_cases ha : a < L - 1
  · have ha' : a < L := by omega
    rw [List.getElem?_dropLast]
    simp only [List.length_set, hn, ha, if_true, List.getElem?_map, List.getElem?_range ha, Option.map_some]
    rw [List.getElem?_set]
    by_cases haj : j = a
    · subst haj
      simp only [if_true, List.length_set, hn, ha', src, List.getD_eq_getElem?_getD, List.getElem?_set]
      by_cases hi2 : i = L - 1
      · subst hi2
        have h0 : 0 < L := by omega
        simp [h0]
      · have : ¬ (L - 1 = i) := fun h => hi2 h.symm
        simp [hi2, this]
    · have : ¬ (a = j) := fun h => haj h.symm
      simp only [haj, if_false, src, this, List.getElem?_set, List.getD_eq_getElem?_getD]
      by_cases hia : i = a
      · subst hia; simp [hn, ha']
      · have : ¬ (a = i) := fun h => hia h.symm
        simp [hia, this, hn, ha']
  · rw [List.getElem?_dropLast]
    simp [hn, ha]

/-- the tree a PhyloNode stands for (child lengths are stored on the children) -/
def toU : PN → U
  | .mk _ [c1, c2] _ _ => .node (toU c1) c1.length (toU c2) c2.length
  | .mk name _ _ _ => .tip name

/-- what the hand model keeps of a PhyloNode -/
def Rel (p : PN) (e : Entry) : Prop :=
  e.tree = toU p ∧ ∀ d, branch e d = (if p.children ≠ [] then d - (p.children.getD 0 default).tipLength else d)

theorem toU_with (p : PN) (l t : Rat) : toU ((p.withLength l).withTipLength t) = toU p := by
  cases p with
  | mk n cs l0 t0 =>
    simp only [PN.withLength, PN.withTipLength]
    match cs with
    | [] => simp [toU]
    | [_] => simp [toU]
    | [_, _] => simp [toU]
    | _ :: _ :: _ :: _ => simp [toU]

theorem length_with (p : PN) (l t : Rat) : ((p.withLength l).withTipLength t).length = l := by
  cases p; rfl

/-- the `length` that `condense_node_order` gives to a node joined at height `d` -/
def genLen (d : Rat) (p : PN) : Rat := if p.children ≠ [] then d - (p.children.getD 0 default).tipLength else d

theorem tipLength_with (p : PN) (l t : Rat) : ((p.withLength l).withTipLength t).tipLength = t := by
  cases p; rfl

theorem branch_rel (p : PN) (e : Entry) (d : Rat) (h : Rel p e) : branch e d = genLen d p := h.2 d

theorem rel_default : Rel default default := by
  refine ⟨rfl, fun d => ?_⟩
  have h1 : (default : Entry).isTip = false := rfl
  have h2 : (default : Entry).height = 0 := rfl
  have h3 : (default : PN).children = [] := rfl
  simp [branch, h1, h2, h3]

def RelO : Option PN → Option Entry → Prop
  | none, none => True
  | some p, some e => Rel p e
  | _, _ => False

def RelL (order : List (Option PN)) (eo : List (Option Entry)) : Prop :=
  order.length = eo.length ∧ ∀ a, RelO (order.getD a none) (eo.getD a none)

theorem getD_set_set {α : Type} (l : List (Option α)) (i j a : Nat) (v : Option α) :
    ((l.set i v).set j none).getD a none =
      if j = a then none else if i = a ∧ i < l.length then v else l.getD a none := by
  simp only [List.getD_eq_getElem?_getD, List.getElem?_set, List.length_set]
  split_ifs <;> simp_all
  all_goals (try omega)

theorem relO_getD (x : Option PN) (y : Option Entry) (h : RelO x y) : Rel (x.getD default) (y.getD default) := by
  cases x <;> cases y
  · exact rel_default
  · exact h.elim
  · exact h.elim
  · exact h

theorem argminRavel_fold (n : Nat) (hpos : 0 < n) (f g : Arr) (h : ∀ a b, a < n → b < n → f a b = g a b) :
    ∀ (l : List Nat) (best : Nat), (∀ x ∈ l, x < n * n) → best < n * n →
      l.foldl (fun best idx => if f (idx / n) (idx % n) < f (best / n) (best % n) then idx else best) best =
      l.foldl (fun best idx => if g (idx / n) (idx % n) < g (best / n) (best % n) then idx else best) best ∧
      l.foldl (fun best idx => if f (idx / n) (idx % n) < f (best / n) (best % n) then idx else best) best < n * n := by
  intro l
  induction l with
  | nil => intro best _ hb; exact ⟨rfl, hb⟩
  | cons x xs ih =>
    intro best hl hb
    have hx : x < n * n := hl x (by simp)
    have e : ∀ z, z < n * n → f (z / n) (z % n) = g (z / n) (z % n) := fun z hz =>
      h _ _ (Nat.div_lt_of_lt_mul hz) (Nat.mod_lt _ hpos)
    simp only [List.foldl_cons]
    have hb' : (if f (x / n) (x % n) < f (best / n) (best % n) then x else best) < n * n := by
      split_ifs <;> assumption
    have := ih _ (fun y hy => hl y (by simp [hy])) hb'
    rw [e x hx, e best hb] at this ⊢
    exact this

theorem argminRavel_congr (n : Nat) (f g : Arr) (h : ∀ a b, a < n → b < n → f a b = g a b) :
    argminRavel n f = argminRavel n g := by
  unfold argminRavel
  by_cases hn : n = 0
  · subst hn; simp
  have hpos : 0 < n := Nat.pos_of_ne_zero hn
  exact (argminRavel_fold n hpos f g h _ 0 (fun x hx => List.mem_range.mp hx) (Nat.mul_pos hpos hpos)).1

theorem argminRavel_lt (n : Nat) (hpos : 0 < n) (f : Arr) : argminRavel n f < n * n :=
  (argminRavel_fold n hpos f f (fun _ _ _ _ => rfl) _ 0 (fun _ hx => List.mem_range.mp hx) (Nat.mul_pos hpos hpos)).2

/-- the array the translated code works on agrees with the model's matrix inside the n×n box -/
def Agree (n : Nat) (arr : Arr) (m : Mat) : Prop := ∀ a b, a < n → b < n → arr a b = get m a b

theorem find_smallest_agree (n : Nat) (arr : Arr) (m : Mat) (h : Agree n arr m) :
    C15Tree.find_smallest_index n arr = findSmallest m n := by
  rw [← fsi_rfl]
  simp only [C15Tree.find_smallest_index]
  rw [argminRavel_congr n arr (get m) h]

theorem findSmallest_lt (n : Nat) (hpos : 0 < n) (m : Mat) : (findSmallest m n).1 < n ∧ (findSmallest m n).2 < n := by
  rw [← fsi_rfl]
  simp only [C15Tree.find_smallest_index, pydivmod]
  exact ⟨Nat.div_lt_of_lt_mul (argminRavel_lt n hpos _), Nat.mod_lt _ hpos⟩

theorem setDiag_agree (n : Nat) (big : Rat) (arr : Arr) (m : Mat) (h : Agree n arr m) :
    Agree n (setDiag arr big) (resetDiag m n big) := by
  intro a b ha hb
  unfold resetDiag
  rw [get_tab n _ a b ha hb]
  simp only [setDiag]
  rw [h a b ha hb]

theorem condense_matrix_agree (n : Nat) (big : Rat) (arr : Arr) (m : Mat) (i j : Nat) (hi : i < n) (hj : j < n)
    (h : Agree n arr m) : Agree n (C15Tree.condense_matrix arr (i, j) big) (condenseMatrix m n i j big) := by
  intro a b ha hb
  unfold condenseMatrix
  rw [get_tab n _ a b ha hb]
  simp only [C15Tree.condense_matrix, setRow, setCol, constV, avgTake0, newVec]
  rw [h a b ha hb, h i b hi hb, h j b hj hb, h i a hi ha, h j a hj ha]
  split_ifs <;> simp_all

/-- `UPGMA_cluster`: the translated loop body iterated -/
def genIter (n : Nat) (big : Rat) : Nat → Arr × List (Option PN) × Option PN → Arr × List (Option PN) × Option PN
  | 0, s => s
  | k + 1, s => genIter n big k (C15Tree.UPGMA_cluster_step n big s.1 s.2.1)

/-- the arguments `upgma` passes to `UPGMA_cluster` (`inputs_from_dict_array`: `array += eye * BIG_NUM`, one PhyloNode per name) -/
def genInit (n : Nat) (d : Mat) (big : Rat) : Arr × List (Option PN) × Option PN :=
  (fun a b => if a = b then get d a b + big else get d a b, (List.range n).map fun a => some (PN.mk a [] 0 0), none)

theorem genInit_rel (n : Nat) (d : Mat) (big : Rat) :
    Agree n (genInit n d big).1 (init n d big).m ∧ RelL (genInit n d big).2.1 (init n d big).order ∧
      RelO (genInit n d big).2.2 (init n d big).tree := by
  refine ⟨?_, ⟨by simp [genInit, init], ?_⟩, trivial⟩
  · intro a b ha hb
    simp only [genInit, init]
    rw [get_tab n _ a b ha hb]
  · intro a
    simp only [genInit, init, List.getD_eq_getElem?_getD, List.getElem?_map]
    by_cases ha : a < n
    · simp only [List.getElem?_range ha, Option.map_some, Option.getD_some]
      exact ⟨by simp [toU], fun d' => by simp [branch, PN.children]⟩
    · have : (List.range n)[a]? = none := by simp; omega
      simp only [this, Option.map_none, Option.getD_none]
      trivial

def offStep (L : Nat) (f : Nat → Nat → Rat) (best : Option (Nat × Nat)) (idx : Nat) : Option (Nat × Nat) :=
  let a := idx / L
  let b := idx % L
  if a = b then best
  else match best with
    | none => some (a, b)
    | some (x, y) => if f a b < f x y then some (a, b) else best

theorem argminOff_eq (L : Nat) (f : Nat → Nat → Rat) :
    argminOff L f = ((List.range (L * L)).foldl (offStep L f) none).getD (0, 1) := rfl

def InBox (L : Nat) (best : Option (Nat × Nat)) : Prop := ∀ p, best = some p → p.1 < L ∧ p.2 < L

theorem argminOff_fold (L : Nat) (hpos : 0 < L) (f g : Nat → Nat → Rat) (h : ∀ a b, a < L → b < L → f a b = g a b) :
    ∀ (l : List Nat) (best : Option (Nat × Nat)), (∀ x ∈ l, x < L * L) → InBox L best →
      l.foldl (offStep L f) best = l.foldl (offStep L g) best ∧ InBox L (l.foldl (offStep L f) best) := by
  intro l
  induction l with
  | nil => intro best _ hb; exact ⟨rfl, hb⟩
  | cons x xs ih =>
    intro best hl hb
    have hx : x < L * L := hl x (by simp)
    have ha : x / L < L := Nat.div_lt_of_lt_mul hx
    have hbb : x % L < L := Nat.mod_lt _ hpos
    simp only [List.foldl_cons]
    have e : offStep L f best x = offStep L g best x := by
      unfold offStep
      cases best with
      | none => rfl
      | some p =>
        obtain ⟨h1, h2⟩ := hb p rfl
        simp only [h _ _ ha hbb, h _ _ h1 h2]
    have hb' : InBox L (offStep L f best x) := by
      unfold offStep
      simp only []
      split_ifs with h0
      · exact hb
      · cases best with
        | none => intro p hp; cases hp; exact ⟨ha, hbb⟩
        | some q =>
          simp only []
          split_ifs
          · intro p hp; cases hp; exact ⟨ha, hbb⟩
          · exact hb
    have := ih _ (fun y hy => hl y (by simp [hy])) hb'
    rw [e] at this ⊢
    exact this

theorem argminOff_congr (L : Nat) (f g : Nat → Nat → Rat) (h : ∀ a b, a < L → b < L → f a b = g a b) :
    argminOff L f = argminOff L g := by
  rw [argminOff_eq, argminOff_eq]
  by_cases hn : L = 0
  · subst hn; simp
  have hpos : 0 < L := Nat.pos_of_ne_zero hn
  rw [(argminOff_fold L hpos f g h _ none (fun x hx => List.mem_range.mp hx) (fun p hp => by cases hp)).1]

theorem argminOff_lt (L : Nat) (h2 : 2 ≤ L) (f : Nat → Nat → Rat) : (argminOff L f).1 < L ∧ (argminOff L f).2 < L := by
  rw [argminOff_eq]
  have hb := (argminOff_fold L (by omega) f f (fun _ _ _ _ => rfl) _ none (fun x hx => List.mem_range.mp hx) (fun p hp => by cases hp)).2
  cases hr : (List.range (L * L)).foldl (offStep L f) none with
  | none => simp; omega
  | some p => exact hb p hr

/-- one pass of `for L in range(len(names), 3, -1)` of `gnj(keep=1)` in terms of the TRANSLATED functions: the first off-diagonal
minimum of the translated score matrix is joined by the translated `join`; the returned array is materialised with the side
`len(nodes)` it has after the slice -/
def genNjStep (pt : PT) : PT :=
  let s := argminOff pt.L (C15Tree.score_matrix pt.L (get pt.d) pt.score)
  let r := C15Tree.join pt.L (get pt.d) pt.nodes pt.score s.1 s.2
  { L := r.2.1.length, d := tab r.2.1.length r.1, nodes := r.2.1, score := r.2.2 }

def genNjLoop : Nat → PT → PT
  | 0, pt => pt
  | fuel + 1, pt => if pt.L ≤ 3 then pt else genNjLoop fuel (genNjStep pt)

theorem joinNodes_length (nodes : List T) (L i j : Nat) (new : T) : (joinNodes nodes L i j new).length = L - 1 := by
  simp [joinNodes]

/-- the root `asScoreTreeTuple` builds, with the TRANSLATED `lengths` (the zip with the nodes and `convert`'s `max(0.0, ·)` as in the model) -/
def genFinish (pt : PT) : Root :=
  (List.range 3).map fun a => (clamp0 (C15Tree.final_lengths 3 (get pt.d) a), pt.nodes.getD a default)

end CogentModel.C15
