import CogentModel.Proofs.IndelMapInv
namespace CogentModel.IndelMap
open CogentModel.Gapped

/-- strictly increasing gap positions and cumulative lengths (recursive form of `WF`) -/
def Inc (pp pc : Int) : List Int → List Int → Prop
  | p :: ps, c :: cs => pp < p ∧ pc < c ∧ Inc p c ps cs
  | [], [] => True
  | _, _ => False

theorem inc_of_pairwise (gp : List Int) : ∀ (cum : List Int) (pp pc : Int),
    gp.length = cum.length → (∀ p ∈ gp, pp < p) → gp.Pairwise (· < ·) → (pc :: cum).Pairwise (· < ·) →
    Inc pp pc gp cum := by
  induction gp with
  | nil => intro cum pp pc hl _ _ _; cases cum with | nil => trivial | cons c cs => simp at hl
  | cons p ps ih =>
    intro cum pp pc hl hr hs hc
    cases cum with
    | nil => simp at hl
    | cons c cs =>
      have hs' := List.pairwise_cons.mp hs
      have hc' := List.pairwise_cons.mp hc
      exact ⟨hr p (by simp), hc'.1 c (by simp), ih cs p c (by simpa using hl) hs'.1 hs'.2 hc'.2⟩

theorem WF.inc {m : IMap} (h : WF m) : Inc (-1) 0 m.gapPos m.cumLens :=
  inc_of_pairwise _ _ _ _ h.len_eq (fun p hp => by have := (h.pos_range p hp).1; omega) h.pos_sorted h.cum_sorted

theorem inc_ends_gt : ∀ (gp cum : List Int) (pp pc : Int), Inc pp pc gp cum →
    ∀ x ∈ gapEnds gp cum, pp + pc < x := by
  intro gp
  induction gp with
  | nil => intro cum pp pc _ x hx; cases cum <;> simp [gapEnds] at hx
  | cons p ps ih =>
    intro cum pp pc h x hx
    cases cum with
    | nil => simp [gapEnds] at hx
    | cons c cs =>
      obtain ⟨h1, h2, h3⟩ := h
      simp only [gapEnds, List.mem_cons] at hx
      rcases hx with rfl | hx
      · omega
      · have := ih cs p c h3 x hx; omega

theorem lastD_mem : ∀ (xs : List Int), xs ≠ [] → lastD xs ∈ xs := by
  intro xs
  induction xs with
  | nil => intro h; exact absurd rfl h
  | cons x r ih =>
    intro _
    cases r with
    | nil => simp [lastD]
    | cons y r' => simp only [lastD]; exact List.mem_cons_of_mem _ (ih (by simp))

theorem lastD_cons_cons (x y : Int) (r : List Int) : lastD (x :: y :: r) = lastD (y :: r) := rfl

/-- recursive scan: sequence index of alignment column `ai` -/
def seqIdxRec (prevCum : Int) : List Int → List Int → Int → Int
  | p :: ps, c :: cs, ai =>
    if ai < p + prevCum then ai - prevCum else if ai ≤ p + c then p else seqIdxRec c ps cs ai
  | _, _, ai => ai - prevCum

/-- the index-arithmetic body of `get_seq_index`, generalised by the previous cumulative length -/
def siCore (prevCum : Int) (gp cum : List Int) (ai : Int) : Int :=
  if ai ≥ lastD (gapEnds gp cum) then ai - lastD cum else
  if ai < getN (startsFrom prevCum gp cum) (ssLeft (gapEnds gp cum) ai) then
    ai - (if ssLeft (gapEnds gp cum) ai = 0 then prevCum else getN cum (ssLeft (gapEnds gp cum) ai - 1))
  else if ai = getN (gapEnds gp cum) (ssLeft (gapEnds gp cum) ai) then ai - getN cum (ssLeft (gapEnds gp cum) ai)
  else getN gp (ssLeft (gapEnds gp cum) ai)

theorem getN_cons_succ (x : Int) (xs : List Int) (k : Nat) : getN (x :: xs) (k + 1) = getN xs k := by
  simp [getN]
theorem getN_cons_zero (x : Int) (xs : List Int) : getN (x :: xs) 0 = x := by simp [getN]

theorem siCore_eq_rec (ps : List Int) : ∀ (p c : Int) (cs : List Int) (pp prevCum ai : Int),
    Inc pp prevCum (p :: ps) (c :: cs) →
    siCore prevCum (p :: ps) (c :: cs) ai = seqIdxRec prevCum (p :: ps) (c :: cs) ai := by
  induction ps with
  | nil =>
    intro p c cs pp prevCum ai h
    obtain ⟨h1, h2, h3⟩ := h
    cases cs with
    | cons _ _ => simp [Inc] at h3
    | nil =>
      simp only [siCore, gapEnds, lastD, startsFrom, ssLeft, seqIdxRec]
      split
      · (repeat' split) <;> omega
      · have : ¬ (p + c < ai) := by omega
        simp only [this, if_false, getN_cons_zero, if_true]
        (repeat' split) <;> omega
  | cons p' ps ih =>
    intro p c cs pp prevCum ai h
    obtain ⟨h1, h2, h3⟩ := h
    cases cs with
    | nil => simp [Inc] at h3
    | cons c' cs =>
      have ihh := ih p' c' cs p c ai h3
      have hgt : p + c < lastD (gapEnds (p' :: ps) (c' :: cs)) :=
        inc_ends_gt _ _ _ _ h3 _ (lastD_mem _ (by simp [gapEnds]))
      simp only [seqIdxRec] at ihh ⊢
      rw [← ihh]
      simp only [siCore, gapEnds, lastD_cons_cons, startsFrom, ssLeft] at *
      by_cases hbig : ai ≥ lastD ((p' + c') :: gapEnds ps cs)
      · simp only [hbig, if_true]
        have a1 : ¬ ai < p + prevCum := by omega
        have a2 : ¬ ai ≤ p + c := by omega
        simp [a1, a2]
      · simp only [hbig, if_false]
        by_cases hlt : p + c < ai
        · have a1 : ¬ ai < p + prevCum := by omega
          have a2 : ¬ ai ≤ p + c := by omega
          simp only [hlt, if_true, getN_cons_succ, a1, a2, if_false, Nat.add_sub_cancel]
          simp only [Nat.succ_ne_zero, if_false]
          by_cases hk : (if p' + c' < ai then ssLeft (gapEnds ps cs) ai + 1 else 0) = 0
          · simp only [hk, getN_cons_zero, if_true]
          · obtain ⟨k, hk'⟩ : ∃ k, (if p' + c' < ai then ssLeft (gapEnds ps cs) ai + 1 else 0) = k + 1 :=
              ⟨_, (Nat.succ_pred_eq_of_ne_zero hk).symm⟩
            simp only [hk', getN_cons_succ, Nat.succ_ne_zero, if_false, Nat.add_sub_cancel]
        · simp only [hlt, if_false, getN_cons_zero, if_true]
          (repeat' split) <;> omega

end CogentModel.IndelMap
