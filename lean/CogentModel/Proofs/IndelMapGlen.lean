import CogentModel.Proofs.IndelMapMerge
namespace CogentModel.IndelMap
open CogentModel.Gapped List CogentModel

theorem gapsBefore_residues (n : Nat) : ∀ (s : Nat) (rest : Gapped) (k : Nat),
    gapsBefore ((range' s n).map some ++ rest) k = if k < n then 0 else gapsBefore rest (k - n) := by
  induction n with
  | zero => intro s rest k; simp
  | succ n ih =>
    intro s rest k
    rw [range'_succ]
    cases k with
    | zero => simp [gapsBefore]
    | succ k =>
      simp only [map_cons, cons_append, gapsBefore, ih (s + 1) rest k]
      by_cases h : k < n
      · rw [if_pos h, if_pos (by omega)]
      · rw [if_neg h, if_neg (by omega)]
        congr 1; omega

theorem gapsBefore_gaps_pos (n : Nat) (rest : Gapped) (k : Nat) :
    gapsBefore (replicate n none ++ rest) (k + 1) = gapsBefore rest (k + 1) := by
  induction n with
  | zero => simp
  | succ n ih => simp only [replicate_succ, cons_append, gapsBefore, ih]

theorem gapsBefore_gaps_zero (n : Nat) (rest : Gapped) :
    gapsBefore (replicate n none ++ rest) 0 = n + gapsBefore rest 0 := by
  induction n with
  | zero => simp
  | succ n ih => simp only [replicate_succ, cons_append, gapsBefore, ih]; omega

/-- the gap length the map holds at position `p` is the gap run standing before residue `p` -/
theorem glen_spec_from (gp : List Int) : ∀ (cum : List Int) (next prevCum pl p : Int),
    gp.length = cum.length → (∀ q ∈ gp, next ≤ q ∧ q ≤ pl) → gp.Pairwise (· < ·) →
    (prevCum :: cum).Pairwise (· < ·) → 0 ≤ next → next ≤ p → p ≤ pl →
    ((gapsBefore (absFrom next prevCum gp cum pl) (p - next).toNat : Nat) : Int) =
      lenAt p gp (diffsFrom prevCum cum) := by
  induction gp with
  | nil =>
    intro cum next prevCum pl p hl _ _ _ h0 h1 h2
    cases cum with
    | cons _ _ => simp at hl
    | nil =>
      simp only [absFrom, diffsFrom, lenAt]
      have := gapsBefore_residues (pl - next).toNat next.toNat [] (p - next).toNat
      simp only [append_nil] at this
      unfold seg
      rw [this]
      split <;> simp [gapsBefore]
  | cons q qs ih =>
    intro cum next prevCum pl p hl hr hs hc h0 h1 h2
    cases cum with
    | nil => simp at hl
    | cons c cs =>
      have hq := hr q (by simp)
      have hs' := pairwise_cons.mp hs
      have hc' := pairwise_cons.mp hc
      have hcc := hc'.1 c (by simp)
      simp only [absFrom, diffsFrom, lenAt, append_assoc]
      unfold seg gapCols
      rw [gapsBefore_residues]
      by_cases c1 : p < q
      · rw [if_pos (by omega), if_neg (by omega)]
        have : p ∉ qs := fun hm => by have := hs'.1 p hm; omega
        rw [lenAt_not_mem p qs _ this]; simp
      · rw [if_neg (by omega)]
        by_cases c2 : p = q
        · subst c2
          have e0 : (p - next).toNat - (p - next).toNat = 0 := by omega
          rw [e0, gapsBefore_gaps_zero, if_pos rfl]
          have hn : p ∉ qs := fun hm => by have := hs'.1 p hm; omega
          rw [lenAt_not_mem p qs _ hn]
          -- what follows starts with a residue (or is empty)
          have hrest : gapsBefore (absFrom p c qs cs pl) 0 = 0 := by
            cases qs with
            | nil =>
              have : absFrom p c [] cs pl = seg p pl := by cases cs <;> rfl
              rw [this]; unfold seg
              cases hn' : (pl - p).toNat with
              | zero => simp [gapsBefore]
              | succ n' => rw [range'_succ]; simp [gapsBefore]
            | cons q2 qs2 =>
              cases cs with
              | nil => simp at hl
              | cons c2 cs2 =>
                have := hs'.1 q2 (by simp)
                simp only [absFrom]
                unfold seg
                have hpos : (q2 - p).toNat = ((q2 - p).toNat - 1) + 1 := by omega
                rw [hpos, range'_succ]; simp [gapsBefore]
          rw [hrest]; omega
        · rw [if_neg (fun e => c2 e.symm)]
          have hk : (p - next).toNat - (q - next).toNat = ((p - q).toNat - 1) + 1 := by omega
          rw [hk, gapsBefore_gaps_pos]
          have ihh := ih cs q c pl p (by simpa using hl)
            (fun x hx => ⟨Int.le_of_lt (hs'.1 x hx), (hr x (by simp [hx])).2⟩) hs'.2 hc'.2 (by omega) (by omega) h2
          have e2 : (p - q).toNat - 1 + 1 = (p - q).toNat := by omega
          rw [e2, ihh]; omega

theorem glen_spec' (m : IMap) (h : WF m) (p : Int) (h0 : 0 ≤ p) (h1 : p ≤ m.parentLength) :
    glen m p = (gapsBefore (abs m) p.toNat : Int) := by
  have := glen_spec_from m.gapPos m.cumLens 0 0 m.parentLength p h.len_eq (fun q hq => h.pos_range q hq)
    h.pos_sorted h.cum_sorted (by omega) h0 h1
  simp only [Int.sub_zero] at this
  rw [glen, gapLengths, ← this]; rfl

end CogentModel.IndelMap
