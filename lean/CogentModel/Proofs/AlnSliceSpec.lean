import CogentModel.Proofs.AlnSliceAux
namespace CogentModel.Aln
open CogentModel.IndelMap CogentModel.Gapped List CogentModel

/-- the row invariant: a well-formed map over exactly as many residues as the data has -/
def RowWF (r : Row) : Prop := WF r.map ∧ r.map.parentLength = r.data.length

theorem gapped_total (r : Row) (h : RowWF r) : gapped r = (IndelMap.abs r.map).map (dispCol r.data) := by
  obtain ⟨hw, hp⟩ := h
  unfold gapped
  rw [absSpans_eq_abs _ hw, abs_eq_ofPattern _ hw, ofPattern]
  apply display_total
  rw [← seqLen_eq_cntF, seqLen_abs _ hw]; omega

theorem getSeqIndex_ok (m : IMap) (x s : Int) (h : getSeqIndex m x = .ok s) :
    0 ≤ conv (len m) x ∧ s = seqIndexNN m (conv (len m) x) := by
  unfold getSeqIndex at h
  unfold conv
  by_cases hx : x < 0
  · simp only [hx, if_true] at h
    rw [if_neg (by omega)]
    by_cases h2 : len m + x < 0
    · rw [if_pos h2] at h; cases h
    · rw [if_neg h2] at h; cases h; exact ⟨by omega, rfl⟩
  · simp only [hx, if_false] at h
    rw [if_pos (by omega)]
    cases h; exact ⟨by omega, rfl⟩

def bPrime (b : Option Int) (n : Int) : Int :=
  match b with | none => n | some x => if x = 0 then n else x

/-- `rowSlice` with the `or` defaults written as functions of `a`, `b` -/
def rowSliceN (r : Row) (a b : Option Int) : Except Err Row :=
  match getitem r.map a b none with
  | .error e => .error e
  | .ok nm =>
    match getSeqIndex r.map (a.getD 0), getSeqIndex r.map (bPrime b (len r.map)) with
    | .error e, _ => .error e
    | _, .error e => .error e
    | .ok s, .ok e =>
      if nm.parentLength ≠ 0 ∧ s > e then .error .runtimeError
      else .ok ⟨nm, if nm.parentLength ≠ 0 then PySlice.slice r.data (some s) (some e) 1 else []⟩

theorem rowSlice_eq (r : Row) (a b : Option Int) : rowSlice r a b = rowSliceN r a b := by
  cases a <;> cases b <;> rfl

theorem getitemTail_inv (m : IMap) (s0 e0 : Int) (nm : IMap) (h : getitemTail m s0 e0 = .ok nm) :
    0 ≤ conv (len m) s0 ∧ 0 ≤ conv (len m) e0 ∧
    (conv (len m) s0 ≥ min (conv (len m) e0) (len m) → nm = emptyMap 0) ∧
    (conv (len m) s0 < min (conv (len m) e0) (len m) →
      (if m.gapPos = [] then Except.ok (emptyMap (min (conv (len m) e0) (len m) - conv (len m) s0))
       else getitemGaps m (conv (len m) s0) (min (conv (len m) e0) (len m))) = .ok nm) := by
  unfold getitemTail at h
  unfold conv
  simp only [] at h
  by_cases herr : (if s0 ≥ 0 then s0 else len m + s0) < 0 ∨ (if e0 ≥ 0 then e0 else len m + e0) < 0
  · rw [if_pos herr] at h; cases h
  · rw [if_neg herr] at h
    refine ⟨by omega, by omega, ?_, ?_⟩
    · intro hge; rw [if_pos hge] at h; cases h; rfl
    · intro hlt; rw [if_neg (by omega)] at h; exact h

theorem slice_nonneg {α} [Inhabited α] (xs : List α) (s e : Int) (hs : 0 ≤ s) (he : 0 ≤ e) :
    PySlice.slice xs (some s) (some e) 1 =
      (xs.drop (min s xs.length).toNat).take (min e xs.length - min s xs.length).toNat := by
  have := slice_conv xs (some s) (some e) (by simp [conv]; split <;> omega) (by simp [conv]; split <;> omega)
  simp only [Option.getD_some, conv] at this
  rw [if_pos (by omega), if_pos (by omega)] at this
  exact this

/-- **row slicing refines string slicing** and keeps the row invariant -/
theorem rowSlice_spec (r r' : Row) (h : RowWF r) (a b : Option Int) (hr : rowSlice r a b = .ok r') :
    RowWF r' ∧ gapped r' = PySlice.slice (gapped r) a b 1 := by
  obtain ⟨hw, hp⟩ := h
  have hlenabs : ((IndelMap.abs r.map).length : Int) = len r.map := len_eq' r.map hw
  have hn0 : 0 ≤ len r.map := by omega
  have hgl : ((gapped r).length : Int) = len r.map := by
    rw [gapped_total r ⟨hw, hp⟩, length_map]; exact hlenabs
  rw [rowSlice_eq] at hr
  unfold rowSliceN at hr
  cases hg : getitem r.map a b none with
  | error e => rw [hg] at hr; cases hr
  | ok nm =>
    rw [hg] at hr
    simp only [] at hr
    cases hsI : getSeqIndex r.map (a.getD 0) with
    | error e => rw [hsI] at hr; cases hr
    | ok s =>
      cases heI : getSeqIndex r.map (bPrime b (len r.map)) with
      | error e => rw [hsI, heI] at hr; cases hr
      | ok e =>
        rw [hsI, heI] at hr
        simp only [] at hr
        obtain ⟨hs0, hsv⟩ := getSeqIndex_ok _ _ _ hsI
        obtain ⟨he0', hev⟩ := getSeqIndex_ok _ _ _ heI
        rw [getitem_eq_tail] at hg
        obtain ⟨i1, i2, i3, i4⟩ := getitemTail_inv _ _ _ _ hg
        generalize hstart : conv (len r.map) (a.getD 0) = start at *
        generalize hstop : conv (len r.map) (b.getD (len r.map)) = stop at *
        -- the string side
        have hRHS : PySlice.slice (gapped r) a b 1 =
            (((IndelMap.abs r.map).drop (min start (len r.map)).toNat).take
              (min stop (len r.map) - min start (len r.map)).toNat).map (dispCol r.data) := by
          rw [gapped_total r ⟨hw, hp⟩, View.slice_map _ _ _ _ _ (by omega)]
          congr 1
          have := slice_conv (IndelMap.abs r.map) a b (by rw [hlenabs, hstart]; exact i1) (by rw [hlenabs, hstop]; exact i2)
          rw [hlenabs, hstart, hstop] at this
          exact this
        by_cases hcase : start ≥ min stop (len r.map)
        · -- empty slice
          have hnm := i3 hcase
          subst hnm
          have hr' : r' = ⟨emptyMap 0, []⟩ := by
            simp only [emptyMap, ne_eq, not_true_eq_false, false_and, if_false] at hr
            cases hr; rfl
          subst hr'
          refine ⟨⟨wf_emptyMap 0 (by omega), rfl⟩, ?_⟩
          rw [hRHS]
          have : (min stop (len r.map) - min start (len r.map)).toNat = 0 := by omega
          rw [this]
          simp [gapped, absSpans, spans, emptyMap, expandSp, seg]
        · have hlt : start < min stop (len r.map) := by omega
          obtain ⟨hwn, hpat⟩ := getitem_inrange r.map hw start (min stop (len r.map)) i1 hlt (by omega) nm (i4 hlt)
          have e1 : min start (len r.map) = start := by omega
          rw [e1] at hRHS
          -- the pattern of the slice and its residue count
          generalize hpat' : ((pattern (IndelMap.abs r.map)).drop start.toNat).take (min stop (len r.map) - start).toNat = pat' at *
          have habsn : IndelMap.abs nm = ofPatternFrom 0 pat' := by
            rw [abs_eq_ofPattern nm hwn, hpat]; rfl
          have hcnt : (nm.parentLength.toNat) = cntF pat' := by
            rw [← seqLen_abs nm hwn, habsn, seqLen_ofPatternFrom]
          have hsN : (seqIndexNN r.map start) = (cntF ((pattern (IndelMap.abs r.map)).take start.toNat) : Int) := by
            rw [seq_index_spec' r.map hw start i1 (by omega), seqIndex_eq_cntF]
          have hstopN : seqIndexNN r.map (min stop (len r.map)) =
              (cntF ((pattern (IndelMap.abs r.map)).take (min stop (len r.map)).toNat) : Int) := by
            rw [seq_index_spec' r.map hw _ (by omega) (by omega), seqIndex_eq_cntF]
          have hcnt2 : cntF pat' = cntF ((pattern (IndelMap.abs r.map)).take (min stop (len r.map)).toNat)
              - cntF ((pattern (IndelMap.abs r.map)).take start.toNat) := by
            rw [← hpat']
            have := cntF_take_drop (pattern (IndelMap.abs r.map)) start.toNat (min stop (len r.map)).toNat (by omega)
            rw [← this]; congr 2; omega
          have hmono : cntF ((pattern (IndelMap.abs r.map)).take start.toNat) ≤
              cntF ((pattern (IndelMap.abs r.map)).take (min stop (len r.map)).toNat) := by
            have e2 : (pattern (IndelMap.abs r.map)).take (min stop (len r.map)).toNat =
                (pattern (IndelMap.abs r.map)).take start.toNat ++
                  ((pattern (IndelMap.abs r.map)).drop start.toNat).take ((min stop (len r.map)).toNat - start.toNat) := by
              rw [← take_append_drop start.toNat ((pattern (IndelMap.abs r.map)).take (min stop (len r.map)).toNat), take_take, drop_take]
              congr 2; omega
            rw [e2, cntF_append]; omega
          have htot : cntF ((pattern (IndelMap.abs r.map)).take (min stop (len r.map)).toNat) ≤ r.data.length := by
            have : cntF ((pattern (IndelMap.abs r.map)).take (min stop (len r.map)).toNat) ≤ cntF (pattern (IndelMap.abs r.map)) := by
              conv => rhs; rw [← take_append_drop (min stop (len r.map)).toNat (pattern (IndelMap.abs r.map))]
              rw [cntF_append]; omega
            rw [← seqLen_eq_cntF, seqLen_abs _ hw] at this; omega
          -- the string side in `ofPatternFrom` form
          have hRHS2 : PySlice.slice (gapped r) a b 1 =
              (ofPatternFrom (cntF ((pattern (IndelMap.abs r.map)).take start.toNat)) pat').map (dispCol r.data) := by
            rw [hRHS]
            congr 1
            conv => lhs; rw [abs_eq_ofPattern r.map hw, ofPattern]
            rw [drop_ofPatternFrom, take_ofPatternFrom, hpat']
            simp
          rw [hRHS2]
          by_cases hz : nm.parentLength = 0
          · have hr' : r' = ⟨nm, []⟩ := by
              simp only [hz, ne_eq, not_true_eq_false, false_and, if_false] at hr
              cases hr; rfl
            subst hr'
            refine ⟨⟨hwn, by simpa using hz⟩, ?_⟩
            unfold gapped
            simp only []
            rw [absSpans_eq_abs _ hwn, habsn]
            have hc0 : cntF pat' = 0 := by omega
            have := display_shift r.data (cntF ((pattern (IndelMap.abs r.map)).take start.toNat)) 0 (by omega) pat' 0 (by omega)
            simpa using this
          · have hnse : ¬ (nm.parentLength ≠ 0 ∧ s > e) := by
              intro hc; rw [if_pos hc] at hr; cases hr
            have hr' : r' = ⟨nm, PySlice.slice r.data (some s) (some e) 1⟩ := by
              rw [if_neg hnse, if_pos hz] at hr; cases hr; rfl
            subst hr'
            have hse : s ≤ e := by
              by_cases hh : s > e
              · exact absurd ⟨hz, hh⟩ hnse
              · omega
            -- `stop` is not the literal 0 here, so the row's stop is the map's stop
            have hbp : conv (len r.map) (bPrime b (len r.map)) = stop := by
              rw [← hstop]
              cases b with
              | none => rfl
              | some x =>
                simp only [bPrime, Option.getD_some]
                by_cases hx0 : x = 0
                · exfalso
                  subst hx0
                  simp only [Option.getD_some, conv] at hstop
                  rw [if_pos (by omega)] at hstop
                  omega
                · rw [if_neg hx0]
            rw [hbp] at hev he0'
            have hsval : s = (cntF ((pattern (IndelMap.abs r.map)).take start.toNat) : Int) := by rw [hsv, hsN]
            have heval : min e r.data.length = (cntF ((pattern (IndelMap.abs r.map)).take (min stop (len r.map)).toNat) : Int) := by
              by_cases hsl : stop ≤ len r.map
              · have e3 : min stop (len r.map) = stop := by omega
                rw [e3] at hstopN htot ⊢
                rw [hev, hstopN]; omega
              · have e3 : min stop (len r.map) = len r.map := by omega
                rw [e3] at hstopN htot ⊢
                have hb := seqIndexNN_beyond r.map hw stop (by omega)
                have hb2 := seqIndexNN_beyond r.map hw (len r.map) (by omega)
                rw [hev, hb, ← hstopN, hb2]; omega
            have hdata : PySlice.slice r.data (some s) (some e) 1 =
                (r.data.drop (cntF ((pattern (IndelMap.abs r.map)).take start.toNat))).take (cntF pat') := by
              rw [slice_nonneg r.data s e (by omega) (by omega)]
              have a1 : (min s r.data.length).toNat = cntF ((pattern (IndelMap.abs r.map)).take start.toNat) := by omega
              have a2 : (min e r.data.length - min s r.data.length).toNat = cntF pat' := by omega
              rw [a1, a2]
            refine ⟨⟨hwn, ?_⟩, ?_⟩
            · simp only []
              have hnn := hwn.pl_nonneg
              rw [hdata, length_take, length_drop]; omega
            · unfold gapped
              simp only []
              rw [absSpans_eq_abs _ hwn, habsn, hdata]
              have := display_shift r.data (cntF ((pattern (IndelMap.abs r.map)).take start.toNat)) (cntF pat') (by omega) pat' 0 (by omega)
              simpa using this

end CogentModel.Aln
