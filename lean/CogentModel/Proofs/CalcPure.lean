import CogentModel.Model.Calculator
import CogentModel.Proofs.CalcInv
import CogentModel.Proofs.CalcReach
/-! # C07 — a `calculator(x)` call raises exactly when a fresh evaluation at `x` raises, so the
calculator is a pure function of `x` whatever its history (helper lemmas) -/
namespace CogentModel.Calc
variable {V : Type} [Inhabited V]

/-- the function the calculator computes: last cell of a from-scratch evaluation at `values`
(`none`: some calc raises) -/
def objective (g : Graph V) (values : List V) : Option V :=
  (evalFresh g (fun j => values.getD j default)).map (fun l => l.getD (g.n - 1) default)

theorem evalFresh_coh (g : Graph V) (hwf : g.WF) (x : Nat → V) (vs : List V) (h : evalFresh g x = some vs) :
    Coh g (fun k => vs.getD k default) x :=
  fun k hk => (evalFrom_sound g hwf x g.cells [] vs rfl h).2 k (Nat.zero_le _) hk

theorem coh_congr_opt (g : Graph V) (hwf : g.WF) (c x x' : Nat → V) (hx : ∀ j, j < g.nOpt → x j = x' j)
    (h : Coh g c x) : Coh g c x' := by
  intro k hk
  apply (h k hk).congr rfl (fun _ _ => rfl)
  intro hopt
  exact (hx k ((hwf.2.1 k hk).1 hopt)).symm

/-- a fresh evaluation only reads the optimiser-parameter entries of the vector -/
theorem evalFresh_congr_opt (g : Graph V) (hwf : g.WF) (x x' : Nat → V) (hx : ∀ j, j < g.nOpt → x j = x' j) :
    evalFresh g x = evalFresh g x' := by
  cases h : evalFresh g x with
  | some vs =>
    have := coh_congr_opt g hwf _ x x' hx (evalFresh_coh g hwf x vs h)
    rw [coh_evalFresh g hwf _ x' this, ← coh_evalFresh g hwf _ x (evalFresh_coh g hwf x vs h), h]
  | none =>
    cases h' : evalFresh g x' with
    | none => rfl
    | some vs =>
      have := coh_congr_opt g hwf _ x' x (fun j hj => (hx j hj).symm) (evalFresh_coh g hwf x' vs h')
      rw [coh_evalFresh g hwf _ x this] at h
      cases h

/-- a `change` call that raises: a fresh evaluation at the requested vector raises too -/
theorem change_fails_fresh_fails [DecidableEq V] (g : Graph V) (hwf : g.WF) (s : St V) (ch : List (Nat × V))
    (hI : Inv g s) (hv : ValidCh g ch) (hr : (change g s ch).2 = none) :
    evalFresh g (patch s.lastValues ch) = none := by
  obtain ⟨h1, h2, h3⟩ := afterUndo_spec g s ch hI hv
  obtain ⟨_, _, _, hno⟩ := applyChanges_spec g hwf (afterUndo s ch).1 (afterUndo s ch).2 h3 h1 h2
  have hx : patch (afterUndo s ch).1.lastValues (afterUndo s ch).2 = patch s.lastValues ch :=
    funext (afterUndo_patch s ch hv.2)
  have hno' := hno hr
  rw [hx] at hno'
  cases h : evalFresh g (patch s.lastValues ch) with
  | none => rfl
  | some vs => exact absurd (evalFresh_coh g hwf _ vs h) (hno' _)

/-- **the calculator is a pure function**: from any state satisfying the invariant,
`calculator(values)` returns `objective g values` — the same value, or the same raise, as a
calculation from scratch -/
theorem call_eq_objective [DecidableEq V] (g : Graph V) (hwf : g.WF) (hpos : 0 < g.n) (s : St V) (hI : Inv g s)
    (values : List V) : (call g s values).2 = objective g values := by
  have hv := (show ValidCh g (diffVec g s values) from by
    -- same argument as `call_changes_valid` (kept local: that theorem lives in Props)
    unfold diffVec ValidCh
    constructor
    · intro p hp
      obtain ⟨i, hi, h⟩ := List.mem_filterMap.1 hp
      split at h
      · cases h
      · cases h; simpa using hi
    · have key : ∀ (l : List Nat), l.Nodup →
          ((l.filterMap (fun i =>
            if s.lastValues i = values.getD i default then none
            else some (i, values.getD i default))).map Prod.fst).Nodup := by
        intro l
        induction l with
        | nil => intro _; simp
        | cons a l ih =>
          intro hnd
          have hnd' := List.nodup_cons.1 hnd
          simp only [List.filterMap_cons]
          split
          · exact ih hnd'.2
          · rename_i b hb
            simp only [List.map_cons, List.nodup_cons]
            refine ⟨?_, ih hnd'.2⟩
            have hb1 : b.1 = a := by
              split at hb
              · cases hb
              · cases hb; rfl
            rw [hb1]
            intro hmem
            obtain ⟨q, hq, hqa⟩ := List.mem_map.1 hmem
            obtain ⟨i, hi, h⟩ := List.mem_filterMap.1 hq
            have : q.1 = i := by
              split at h
              · cases h
              · cases h; rfl
            apply hnd'.1
            rw [← hqa, this]; exact hi
      exact key _ List.nodup_range)
  have hreq : ∀ j, j < g.nOpt → patch s.lastValues (diffVec g s values) j = values.getD j default :=
    fun j hj => patch_diffVec g s values j hj
  unfold objective
  rw [← evalFresh_congr_opt g hwf _ _ hreq]
  cases hr : (call g s values).2 with
  | none =>
    have := change_fails_fresh_fails g hwf s _ hI hv hr
    rw [this]; rfl
  | some v =>
    obtain ⟨hI', hret⟩ := change_spec g hwf s _ hI hv
    have hlast : ∀ j, (change g s (diffVec g s values)).1.lastValues j = patch s.lastValues (diffVec g s values) j :=
      fun j => change_reaches g hwf s _ hI hv v hr j
    have hfun : (change g s (diffVec g s values)).1.lastValues = patch s.lastValues (diffVec g s values) :=
      funext hlast
    rw [← hfun, coh_evalFresh g hwf _ _ hI'.cur, hret v hr]
    simp only [Option.map_some, Option.some.injEq]
    exact (getD_map_range _ g.n (g.n - 1) (by omega)).symm

end CogentModel.Calc
