import CogentModel.Proofs.ExpmBridge
/-! C05: the Padé and Taylor exponentiators as matrix functions of `Q`: semiconjugation, commutation, fixed left vectors, reversibility. -/
set_option linter.unusedSimpArgs false

namespace CogentModel.Expm
open CogentModel.RateMatrix Finset Matrix
set_option linter.unusedSectionVars false

variable {K : Type*} [Field K] {n : Nat}

/-- semiconjugation is preserved by the Padé loop: if `S·a = b·S` then `S·N(a) = N(b)·S`, `S·D(a) = D(b)·S` -/
theorem padeLoop_semiconj (S : Matrix (Fin n) (Fin n) K) (A B : Mat K) (q : Nat) (hAB : S * toM n A = toM n B * S) :
    ∀ (m k : Nat) (c : K) (XA NA DA XB NB DB : Mat K),
      S * toM n XA = toM n XB * S → S * toM n NA = toM n NB * S → S * toM n DA = toM n DB * S →
      S * toM n (padeLoop n A q m k c XA NA DA).1 = toM n (padeLoop n B q m k c XB NB DB).1 * S ∧
      S * toM n (padeLoop n A q m k c XA NA DA).2 = toM n (padeLoop n B q m k c XB NB DB).2 * S := by
  intro m
  induction m with
  | zero => intro k c XA NA DA XB NB DB _ hN hD; exact ⟨hN, hD⟩
  | succ m ih =>
    intro k c XA NA DA XB NB DB hX hN hD
    rw [padeLoop, padeLoop]
    have hX' : S * toM n (matMul n A XA) = toM n (matMul n B XB) * S := by
      rw [toM_matMul, toM_matMul, ← Matrix.mul_assoc, hAB, Matrix.mul_assoc, hX, Matrix.mul_assoc]
    have hcX : ∀ c' : K, S * toM n (matScale n c' (matMul n A XA)) = toM n (matScale n c' (matMul n B XB)) * S := by
      intro c'; rw [toM_matScale, toM_matScale, Matrix.mul_smul, hX', Matrix.smul_mul]
    apply ih _ _ _ _ _ _ _ _ hX'
    · rw [toM_matAdd, toM_matAdd, Matrix.mul_add, Matrix.add_mul, hN, hcX]
    · split
      · rw [toM_matAdd, toM_matAdd, Matrix.mul_add, Matrix.add_mul, hD, hcX]
      · rw [toM_matSub, toM_matSub, Matrix.mul_sub, Matrix.sub_mul, hD, hcX]

theorem padeND_semiconj (S : Matrix (Fin n) (Fin n) K) (A B : Mat K) (q : Nat) (hAB : S * toM n A = toM n B * S) :
    S * toM n (padeND n A q).1 = toM n (padeND n B q).1 * S ∧ S * toM n (padeND n A q).2 = toM n (padeND n B q).2 * S := by
  unfold padeND
  have hc : ∀ c' : K, S * toM n (matScale n c' A) = toM n (matScale n c' B) * S := by
    intro c'; rw [toM_matScale, toM_matScale, Matrix.mul_smul, hAB, Matrix.smul_mul]
  apply padeLoop_semiconj S A B q hAB _ _ _ _ _ _ _ _ _ hAB
  · rw [toM_matAdd, toM_matAdd, toM_ident, Matrix.mul_add, Matrix.add_mul, hc, Matrix.mul_one, Matrix.one_mul]
  · rw [toM_matSub, toM_matSub, toM_ident, Matrix.mul_sub, Matrix.sub_mul, hc, Matrix.mul_one, Matrix.one_mul]

/-- transposition: the loop run on `aᵀ` produces the transposes -/
theorem padeLoop_transpose (A B : Mat K) (q : Nat) (hAB : toM n B = (toM n A)ᵀ) :
    ∀ (m k : Nat) (c : K) (XA NA DA XB NB DB : Mat K),
      toM n XB = (toM n XA)ᵀ → Commute (toM n A) (toM n XA) → toM n NB = (toM n NA)ᵀ → toM n DB = (toM n DA)ᵀ →
      toM n (padeLoop n B q m k c XB NB DB).1 = (toM n (padeLoop n A q m k c XA NA DA).1)ᵀ ∧
      toM n (padeLoop n B q m k c XB NB DB).2 = (toM n (padeLoop n A q m k c XA NA DA).2)ᵀ := by
  intro m
  induction m with
  | zero => intro k c XA NA DA XB NB DB _ _ hN hD; exact ⟨hN, hD⟩
  | succ m ih =>
    intro k c XA NA DA XB NB DB hX hcomm hN hD
    rw [padeLoop, padeLoop]
    have hX' : toM n (matMul n B XB) = (toM n (matMul n A XA))ᵀ := by
      rw [toM_matMul, toM_matMul, hAB, hX, ← Matrix.transpose_mul, hcomm.eq]
    have hcX : ∀ c' : K, toM n (matScale n c' (matMul n B XB)) = (toM n (matScale n c' (matMul n A XA)))ᵀ := by
      intro c'; rw [toM_matScale, toM_matScale, hX', Matrix.transpose_smul]
    apply ih _ _ _ _ _ _ _ _ hX'
    · rw [toM_matMul]; exact (Commute.refl _).mul_right hcomm
    · rw [toM_matAdd, toM_matAdd, hN, hcX, Matrix.transpose_add]
    · split
      · rw [toM_matAdd, toM_matAdd, hD, hcX, Matrix.transpose_add]
      · rw [toM_matSub, toM_matSub, hD, hcX, Matrix.transpose_sub]

theorem padeND_transpose (A B : Mat K) (q : Nat) (hAB : toM n B = (toM n A)ᵀ) :
    toM n (padeND n B q).1 = (toM n (padeND n A q).1)ᵀ ∧ toM n (padeND n B q).2 = (toM n (padeND n A q).2)ᵀ := by
  unfold padeND
  have hc : ∀ c' : K, toM n (matScale n c' B) = (toM n (matScale n c' A))ᵀ := by
    intro c'; rw [toM_matScale, toM_matScale, hAB, Matrix.transpose_smul]
  apply padeLoop_transpose A B q hAB _ _ _ _ _ _ _ _ _ hAB (Commute.refl _)
  · rw [toM_matAdd, toM_matAdd, toM_ident, hc, Matrix.transpose_add, Matrix.transpose_one]
  · rw [toM_matSub, toM_matSub, toM_ident, hc, Matrix.transpose_sub, Matrix.transpose_one]

/-! generic matrix facts -/
theorem semiconj_inv {S D E : Matrix (Fin n) (Fin n) K} (h : S * D = E * S) (hD : IsUnit D.det) (hE : IsUnit E.det) :
    S * D⁻¹ = E⁻¹ * S := by
  calc S * D⁻¹ = E⁻¹ * E * S * D⁻¹ := by rw [Matrix.nonsing_inv_mul _ hE, Matrix.one_mul]
    _ = E⁻¹ * (S * D) * D⁻¹ := by rw [h, Matrix.mul_assoc E⁻¹ E S]
    _ = E⁻¹ * S := by rw [Matrix.mul_assoc, Matrix.mul_assoc, Matrix.mul_nonsing_inv _ hD, Matrix.mul_one]

theorem semiconj_pow {S F G : Matrix (Fin n) (Fin n) K} (h : S * F = G * S) : ∀ m : Nat, S * F ^ m = G ^ m * S := by
  intro m
  induction m with
  | zero => simp
  | succ m ih => rw [pow_succ, pow_succ, ← Matrix.mul_assoc, ih, Matrix.mul_assoc, h, Matrix.mul_assoc]

section
variable [DecidableEq K]

/-- the scaled argument of the Padé approximant -/
def padeArg (n : Nat) (Q : Mat K) (t : K) (j : Nat) : Mat K := matDivS n (matScale n t Q) (pow2 j)

theorem toM_padeArg (Q : Mat K) (t : K) (j : Nat) : toM n (padeArg n Q t j) = (pow2 j : K)⁻¹ • (t • toM n Q) := by
  unfold padeArg; rw [toM_matDivS, toM_matScale]

/-- `padeCore` in Mathlib terms -/
theorem padeCore_toM (Q : Mat K) (t : K) (q j : Nat) (P : Mat K) (h : padeCore n Q t q j = some P) :
    IsUnit (toM n (padeND n (padeArg n Q t j) q).2).det ∧
    toM n P = ((toM n (padeND n (padeArg n Q t j) q).2)⁻¹ * toM n (padeND n (padeArg n Q t j) q).1) ^ (2 ^ j) := by
  unfold padeCore at h
  simp only [] at h
  split at h
  · exact absurd h (by simp)
  · rename_i F hF
    injection h with h; subst h
    obtain ⟨hu, hFm⟩ := toM_solve n _ _ F hF
    exact ⟨hu, by rw [toM_sqN, hFm]; rfl⟩

/-- master lemma: semiconjugation `S·(t•Q) = (t•Q')·S` passes to the Padé results -/
theorem padeCore_semiconj (S : Matrix (Fin n) (Fin n) K) (Q Q' : Mat K) (t : K) (q j : Nat) (P P' : Mat K)
    (hS : S * toM n Q = toM n Q' * S) (h : padeCore n Q t q j = some P) (h' : padeCore n Q' t q j = some P') :
    S * toM n P = toM n P' * S := by
  obtain ⟨hu, hP⟩ := padeCore_toM Q t q j P h
  obtain ⟨hu', hP'⟩ := padeCore_toM Q' t q j P' h'
  have hA : S * toM n (padeArg n Q t j) = toM n (padeArg n Q' t j) * S := by
    rw [toM_padeArg, toM_padeArg, Matrix.mul_smul, Matrix.mul_smul, hS, Matrix.smul_mul, Matrix.smul_mul]
  obtain ⟨hN, hD⟩ := padeND_semiconj S _ _ q hA
  rw [hP, hP']
  apply semiconj_pow
  rw [← Matrix.mul_assoc, semiconj_inv hD hu hu', Matrix.mul_assoc, hN, Matrix.mul_assoc]

/-- `P·Q = Q·P` -/
theorem padeCore_commute (Q : Mat K) (t : K) (q j : Nat) (P : Mat K) (h : padeCore n Q t q j = some P) :
    toM n Q * toM n P = toM n P * toM n Q :=
  padeCore_semiconj (toM n Q) Q Q t q j P P rfl h h

/-- numerator and inverse denominator commute -/
theorem padeND_comm (A : Mat K) (q : Nat) :
    toM n (padeND n A q).1 * toM n (padeND n A q).2 = toM n (padeND n A q).2 * toM n (padeND n A q).1 := by
  have h1 := (padeND_semiconj (toM n A) A A q rfl).1
  exact (padeND_semiconj (toM n (padeND n A q).1) A A q h1.symm).2

/-- `πQ = 0 ⇒ πP = π`, in the form `Π·P = Π` for any matrix `Π` with `Π·Q = 0` -/
theorem padeCore_left_fixed (S : Matrix (Fin n) (Fin n) K) (Q : Mat K) (t : K) (q j : Nat) (P : Mat K)
    (hS : S * toM n Q = 0) (h : padeCore n Q t q j = some P) : S * toM n P = S := by
  obtain ⟨P0, hP0, hI⟩ := padeCore_zero n (tab n fun _ _ => (0 : K)) q j
  -- run the approximant on the zero generator at the same `t`: it is the identity
  have hz : EntryZero n (tab n fun _ _ => (0 : K)) := fun i j hi hj => mget_tab _ hi hj
  have hA0 : EntryZero n (padeArg n (tab n fun _ _ => (0 : K)) t j) := by
    unfold padeArg; exact entryZero_matDivS n _ _ (entryZero_matScale n _ _ hz)
  obtain ⟨hN0, hD0⟩ := padeND_zero n _ q hA0
  have hN1 : toM n (padeND n (padeArg n (tab n fun _ _ => (0 : K)) t j) q).1 = 1 := by
    rw [(entryEq_iff n _ _).mp hN0, toM_ident]
  have hD1 : toM n (padeND n (padeArg n (tab n fun _ _ => (0 : K)) t j) q).2 = 1 := by
    rw [(entryEq_iff n _ _).mp hD0, toM_ident]
  obtain ⟨hu, hP⟩ := padeCore_toM Q t q j P h
  have hA : S * toM n (padeArg n Q t j) = toM n (padeArg n (tab n fun _ _ => (0 : K)) t j) * S := by
    rw [toM_padeArg, toM_padeArg, Matrix.mul_smul, Matrix.mul_smul, hS, (entryZero_iff n _).mp hz]
    simp
  obtain ⟨hN, hD⟩ := padeND_semiconj S _ _ q hA
  rw [hN1, Matrix.one_mul] at hN
  rw [hD1, Matrix.one_mul] at hD
  have hDinv : S * (toM n (padeND n (padeArg n Q t j) q).2)⁻¹ = S := by
    have := semiconj_inv (E := (1 : Matrix (Fin n) (Fin n) K)) (by rw [hD, Matrix.one_mul]) hu (by simp)
    simpa using this
  have hF : S * ((toM n (padeND n (padeArg n Q t j) q).2)⁻¹ * toM n (padeND n (padeArg n Q t j) q).1) =
      (1 : Matrix (Fin n) (Fin n) K) * S := by
    rw [← Matrix.mul_assoc, hDinv, hN, Matrix.one_mul]
  rw [hP, semiconj_pow hF, one_pow, Matrix.one_mul]

/-- detailed balance: `Δ·Q = Qᵀ·Δ ⇒ Δ·P = Pᵀ·Δ` -/
theorem padeCore_reversible (S : Matrix (Fin n) (Fin n) K) (Q : Mat K) (t : K) (q j : Nat) (P : Mat K)
    (hS : S * toM n Q = (toM n Q)ᵀ * S) (h : padeCore n Q t q j = some P) : S * toM n P = (toM n P)ᵀ * S := by
  obtain ⟨hu, hP⟩ := padeCore_toM Q t q j P h
  let B : Mat K := ofM n (toM n (padeArg n Q t j))ᵀ
  have hB : toM n B = (toM n (padeArg n Q t j))ᵀ := toM_ofM n _
  have hA : S * toM n (padeArg n Q t j) = toM n B * S := by
    rw [hB, toM_padeArg, Matrix.mul_smul, Matrix.mul_smul, hS, Matrix.transpose_smul, Matrix.transpose_smul,
      Matrix.smul_mul, Matrix.smul_mul]
  obtain ⟨hN, hD⟩ := padeND_semiconj S _ _ q hA
  obtain ⟨hNt, hDt⟩ := padeND_transpose (padeArg n Q t j) B q hB
  rw [hNt] at hN
  rw [hDt] at hD
  have hut : IsUnit ((toM n (padeND n (padeArg n Q t j) q).2)ᵀ).det := by rw [Matrix.det_transpose]; exact hu
  have hcomm := padeND_comm (n := n) (padeArg n Q t j) q
  set N := toM n (padeND n (padeArg n Q t j) q).1 with hNdef
  set D := toM n (padeND n (padeArg n Q t j) q).2 with hDdef
  -- D⁻¹ N = N D⁻¹
  have hND : N * D⁻¹ = D⁻¹ * N := semiconj_inv hcomm hu hu
  have hF : S * (D⁻¹ * N) = (D⁻¹ * N)ᵀ * S := by
    rw [← Matrix.mul_assoc, semiconj_inv hD hu hut, Matrix.mul_assoc, hN, ← Matrix.mul_assoc, ← hND,
      Matrix.transpose_mul, Matrix.transpose_nonsing_inv]
  rw [hP, semiconj_pow hF, Matrix.transpose_pow]
end

/-! Taylor: a generic induction over the partial sums -/
section taylor
variable [LT K] [DecidableLT K] [LE K] [DecidableLE K]

theorem taylorLoop_induct (A : Mat K) (PT PE : Matrix (Fin n) (Fin n) K → Prop)
    (hT : ∀ M (c : K), PT M → PT (M * (c • toM n A)))
    (hE : ∀ E M (c : K), PE E → PT M → PE (E + M * (c • toM n A))) :
    ∀ (m k : Nat) (eA trm : Mat K), PE (toM n eA) → PT (toM n trm) →
      PE (toM n (taylorLoop n A m k eA trm).1) ∧ PT (toM n (taylorLoop n A m k eA trm).2) := by
  intro m
  induction m with
  | zero => intro k eA trm h1 h2; exact ⟨h1, h2⟩
  | succ m ih =>
    intro k eA trm h1 h2
    rw [taylorLoop]
    apply ih
    · rw [toM_matAdd, toM_matMul, toM_matDivS]; exact hE _ _ _ h1 h2
    · rw [toM_matMul, toM_matDivS]; exact hT _ _ h2

theorem taylorExtend_induct (rtol atol : K) (A : Mat K) (PT PE : Matrix (Fin n) (Fin n) K → Prop)
    (hT : ∀ M (c : K), PT M → PT (M * (c • toM n A)))
    (hE : ∀ E M (c : K), PE E → PT M → PE (E + M * (c • toM n A))) :
    ∀ (fuel k : Nat) (eA trm : Mat K), PE (toM n eA) → PT (toM n trm) →
      PE (toM n (taylorExtend n rtol atol A fuel k eA trm).1) := by
  intro fuel
  induction fuel with
  | zero => intro k eA trm h1 _; exact h1
  | succ fuel ih =>
    intro k eA trm h1 h2
    rw [taylorExtend]
    split
    · exact h1
    · apply ih
      · rw [toM_matAdd, toM_matMul, toM_matDivS]; exact hE _ _ _ h1 h2
      · rw [toM_matMul, toM_matDivS]; exact hT _ _ h2

/-- every partial sum the Taylor exponentiator can return satisfies `PE`, for predicates closed as stated -/
theorem taylor_induct (rtol atol : K) (Q : Mat K) (t : K) (q fuel : Nat) (PT PE : Matrix (Fin n) (Fin n) K → Prop)
    (h1T : PT 1) (h1E : PE 1)
    (hT : ∀ M (c : K), PT M → PT (M * (c • (t • toM n Q))))
    (hE : ∀ E M (c : K), PE E → PT M → PE (E + M * (c • (t • toM n Q)))) :
    PE (toM n (taylor n rtol atol Q t q fuel).1) := by
  unfold taylor taylorFixed
  have ha : toM n (matScale n t Q) = t • toM n Q := toM_matScale n t Q
  obtain ⟨h1, h2⟩ := taylorLoop_induct (matScale n t Q) PT PE (by rw [ha]; exact hT) (by rw [ha]; exact hE)
    (q - 1) 1 (ident n) (ident n) (by rw [toM_ident]; exact h1E) (by rw [toM_ident]; exact h1T)
  exact taylorExtend_induct rtol atol (matScale n t Q) PT PE (by rw [ha]; exact hT) (by rw [ha]; exact hE) _ _ _ _ h1 h2

omit [LT K] [DecidableLT K] [LE K] [DecidableLE K] in
theorem comm_step {S M Qm : Matrix (Fin n) (Fin n) K} (c t : K) (hS : S * Qm = Qm * S) (h : S * M = M * S) :
    S * (M * (c • (t • Qm))) = M * (c • (t • Qm)) * S := by
  simp only [Matrix.mul_smul, Matrix.smul_mul]
  rw [← Matrix.mul_assoc, h, Matrix.mul_assoc, hS, Matrix.mul_assoc]

omit [LT K] [DecidableLT K] [LE K] [DecidableLE K] in
theorem rev_step {S M Qm : Matrix (Fin n) (Fin n) K} (c t : K) (hS : S * Qm = Qmᵀ * S) (hc : Commute Qm M)
    (h : S * M = Mᵀ * S) : S * (M * (c • (t • Qm))) = (M * (c • (t • Qm)))ᵀ * S := by
  simp only [Matrix.mul_smul, Matrix.smul_mul, Matrix.transpose_smul]
  rw [← Matrix.mul_assoc, h, Matrix.mul_assoc, hS, ← Matrix.mul_assoc, ← Matrix.transpose_mul, hc.eq]

theorem taylor_commute (rtol atol : K) (Q : Mat K) (t : K) (q fuel : Nat) (S : Matrix (Fin n) (Fin n) K)
    (hS : S * toM n Q = toM n Q * S) :
    S * toM n (taylor n rtol atol Q t q fuel).1 = toM n (taylor n rtol atol Q t q fuel).1 * S := by
  apply taylor_induct rtol atol Q t q fuel (fun M => S * M = M * S) (fun M => S * M = M * S)
  · simp
  · simp
  · intro M c h; exact comm_step c t hS h
  · intro E M c hE h
    rw [Matrix.mul_add, Matrix.add_mul, hE, comm_step c t hS h]

theorem taylor_left_fixed (rtol atol : K) (Q : Mat K) (t : K) (q fuel : Nat) (S : Matrix (Fin n) (Fin n) K)
    (hS : S * toM n Q = 0) : S * toM n (taylor n rtol atol Q t q fuel).1 = S := by
  apply taylor_induct rtol atol Q t q fuel (fun M => S * M * toM n Q = 0) (fun E => S * E = S)
  · simp [hS]
  · simp
  · intro M c h
    simp only [Matrix.mul_smul, Matrix.smul_mul]
    rw [← Matrix.mul_assoc, h]; simp
  · intro E M c hE h
    rw [Matrix.mul_add, hE]
    simp only [Matrix.mul_smul]
    rw [← Matrix.mul_assoc, h]; simp

theorem taylor_reversible (rtol atol : K) (Q : Mat K) (t : K) (q fuel : Nat) (S : Matrix (Fin n) (Fin n) K)
    (hS : S * toM n Q = (toM n Q)ᵀ * S) :
    S * toM n (taylor n rtol atol Q t q fuel).1 = (toM n (taylor n rtol atol Q t q fuel).1)ᵀ * S := by
  apply taylor_induct rtol atol Q t q fuel (fun M => Commute (toM n Q) M ∧ S * M = Mᵀ * S) (fun E => S * E = Eᵀ * S)
  · exact ⟨Commute.one_right _, by simp⟩
  · simp
  · intro M c ⟨hc, h⟩
    exact ⟨hc.mul_right (((Commute.refl _).smul_right _).smul_right _), rev_step c t hS hc h⟩
  · intro E M c hE ⟨hc, h⟩
    rw [Matrix.mul_add, Matrix.transpose_add, Matrix.add_mul, hE, rev_step c t hS hc h]
end taylor

/-! helpers to pass between `Matrix` statements and the model's `sumTo` / `mget` -/

theorem leftvec_hyp (n : Nat) (Q : Mat K) (pi : Vec K)
    (h : ∀ j, j < n → sumTo n (fun i => vget pi i * mget Q i j) = 0) :
    (Matrix.of fun (_ : Fin n) (k : Fin n) => vget pi k.val) * toM n Q = 0 := by
  ext i j
  rw [Matrix.mul_apply, Matrix.zero_apply, ← h j.val j.isLt, sumTo_eq_sum,
    ← Fin.sum_univ_eq_sum_range (fun k => vget pi k * mget Q k j) n]
  rfl

theorem leftvec_concl (n : Nat) (P : Mat K) (pi : Vec K)
    (h : (Matrix.of fun (_ : Fin n) (k : Fin n) => vget pi k.val) * toM n P =
      Matrix.of fun (_ : Fin n) (k : Fin n) => vget pi k.val) (j : Nat) (hj : j < n) :
    sumTo n (fun i => vget pi i * mget P i j) = vget pi j := by
  have := congrFun (congrFun h ⟨j, hj⟩) ⟨j, hj⟩
  rw [Matrix.mul_apply] at this
  rw [sumTo_eq_sum, ← Fin.sum_univ_eq_sum_range (fun k => vget pi k * mget P k j) n]
  exact this

theorem diag_hyp (n : Nat) (Q : Mat K) (pi : Vec K)
    (h : ∀ i j, i < n → j < n → vget pi i * mget Q i j = vget pi j * mget Q j i) :
    (Matrix.diagonal fun k : Fin n => vget pi k.val) * toM n Q = (toM n Q).transpose * Matrix.diagonal fun k : Fin n => vget pi k.val := by
  ext i j
  rw [Matrix.diagonal_mul, Matrix.mul_diagonal, Matrix.transpose_apply, toM_apply, toM_apply, h i j i.isLt j.isLt, mul_comm]

theorem diag_concl (n : Nat) (P : Mat K) (pi : Vec K)
    (h : (Matrix.diagonal fun k : Fin n => vget pi k.val) * toM n P = (toM n P).transpose * Matrix.diagonal fun k : Fin n => vget pi k.val)
    (i j : Nat) (hi : i < n) (hj : j < n) : vget pi i * mget P i j = vget pi j * mget P j i := by
  have := congrFun (congrFun h ⟨i, hi⟩) ⟨j, hj⟩
  rw [Matrix.diagonal_mul, Matrix.mul_diagonal, Matrix.transpose_apply, toM_apply, toM_apply] at this
  rw [this, mul_comm]


end CogentModel.Expm
