import CogentModel.Proofs.ViewSlice
/-! Integer indexing (`getitemInt`) agrees with Python indexing of the displayed positions. -/
namespace CogentModel.View
open CogentModel

theorem getIndex_err (v : View) (i : Int) (h : len v = 0 ∨ len v ≤ i ∨ i < -len v) :
    getIndex v i = .error .indexError := by
  have hn := len_nonneg v
  unfold getIndex pyabs
  simp only [Bool.false_eq_true, false_and, and_false, if_false, not_false_eq_true, true_and]
  (repeat' split) <;> first | rfl | omega

theorem getIndex_ok (v : View) (i : Int) (hn : len v ≠ 0) (h1 : -len v ≤ i) (h2 : i < len v) :
    getIndex v i = .ok (if v.step > 0
      then ((if i ≥ 0 then v.start + i * v.step else v.start + len v * v.step + i * pyabs v.step),
            (if i ≥ 0 then v.start + i * v.step else v.start + len v * v.step + i * pyabs v.step) + 1, 1)
      else ((if i ≥ 0 then v.start + i * v.step else v.start + len v * v.step + i * v.step),
            (if i ≥ 0 then v.start + i * v.step else v.start + len v * v.step + i * v.step) - 1, -1)) := by
  unfold getIndex
  simp only [Bool.false_eq_true, false_and, and_false, if_false, not_false_eq_true, true_and]
  rw [if_neg hn, if_neg (by omega), if_neg (by unfold pyabs; split <;> omega)]
  split <;> rfl

theorem elems_length (v : View) : (elems v).length = (len v).toNat := by
  unfold elems; simp

theorem elems_getElem? (v : View) (j : Int) (h0 : 0 ≤ j) (hj : j < len v) :
    (elems v)[j.toNat]? = some (first v + j * v.step) := by
  unfold elems
  have : j.toNat < (len v).toNat := by omega
  rw [List.getElem?_map, List.getElem?_range this]
  simp only [Option.map_some, Int.toNat_of_nonneg h0]

theorem index_elems (v : View) (i : Int) :
    PySlice.index (elems v) i =
      if 0 ≤ i ∧ i < len v then some (first v + i * v.step)
      else if -len v ≤ i ∧ i < 0 then some (first v + (i + len v) * v.step) else none := by
  have hn := len_nonneg v
  unfold PySlice.index
  simp only [elems_length, Int.toNat_of_nonneg hn]
  split
  · rename_i h; rw [elems_getElem? v i h.1 h.2]
  split
  · rename_i h; rw [elems_getElem? v (i + len v) (by omega) (by omega)]
  rfl

theorem elems_single_fwd (s o N : Int) :
    elems { start := s, stop := s + 1, step := 1, offset := o, seqLen := N } = [s] := by
  have hl : len { start := s, stop := s + 1, step := 1, offset := o, seqLen := N } = 1 := by
    unfold len
    show pyabs (Int.fdiv (s - (s + 1)) 1) = 1
    have : s - (s + 1) = -1 := by omega
    rw [this]; rfl
  unfold elems
  rw [hl]
  simp [first]

theorem elems_single_rev (s o N : Int) :
    elems { start := s, stop := s - 1, step := -1, offset := o, seqLen := N } = [s + N] := by
  have hl : len { start := s, stop := s - 1, step := -1, offset := o, seqLen := N } = 1 := by
    unfold len
    show pyabs (Int.fdiv (s - (s - 1)) (-1)) = 1
    have : s - (s - 1) = 1 := by omega
    rw [this]; rfl
  unfold elems
  rw [hl]
  simp [first]

theorem getitemInt_eq (v : View) (i : Int) (r : Int × Int × Int) (h : getIndex v i = .ok r) :
    getitemInt v i = remk v r.1 r.2.1 r.2.2 := by
  unfold getitemInt
  rw [h]; rfl

theorem getitemInt_spec (v : View) (h : Inv v) (i : Int) :
    (∀ w, getitemInt v i = .ok w → ∃ x, PySlice.index (elems v) i = some x ∧ elems w = [x]) ∧
    (∀ e, getitemInt v i = .error e → PySlice.index (elems v) i = none) := by
  have hn := len_nonneg v
  by_cases hr : len v ≠ 0 ∧ -len v ≤ i ∧ i < len v
  · obtain ⟨hn0, h1, h2⟩ := hr
    have hn' : 0 < len v := by omega
    rw [getitemInt_eq v i _ (getIndex_ok v i hn0 h1 h2), index_elems]
    obtain ⟨hN, hI | hI⟩ := h
    · obtain ⟨hk, i0, i1, i2⟩ := hI
      obtain ⟨_, kit1, kit2⟩ := len_fwd' v hk i1
      have hk' : v.step > 0 := hk
      have hf : first v = v.start := by simp [first, hk]
      have ha : pyabs v.step = v.step := by unfold pyabs; rw [if_neg (by omega)]
      simp only [hk', if_true, ha]
      generalize hval : (if i ≥ 0 then v.start + i * v.step else v.start + len v * v.step + i * v.step) = val
      have f1 := clampP_cases i (len v) v.step hk hn
      have hvv : 0 ≤ val ∧ val + 1 ≤ v.seqLen ∧
          val = first v + (if i ≥ 0 then i else i + len v) * v.step := by
        rw [hf]
        have e : (if i ≥ 0 then i else i + len v) * v.step
            = if i ≥ 0 then i * v.step else i * v.step + len v * v.step := by
          split
          · rfl
          · ring
        rw [e]
        rcases f1 with a | a | a | a <;> omega
      obtain ⟨v0, v1, v2⟩ := hvv
      rw [remk_pos_eq v val (val + 1) 1 hN (by omega) v0 (by omega), min_eq_right v1, if_pos (by omega)]
      constructor
      · intro w hw
        rw [← Except.ok.inj hw, elems_single_fwd]
        by_cases hi : 0 ≤ i
        · rw [if_pos ⟨hi, h2⟩]
          refine ⟨_, rfl, ?_⟩
          rw [v2, if_pos hi]
        · rw [if_neg (by omega), if_pos ⟨h1, by omega⟩]
          refine ⟨_, rfl, ?_⟩
          rw [v2, if_neg hi]
      · intro e he; cases he
    · obtain ⟨hk, i0, i1, i2⟩ := hI
      obtain ⟨_, kit1, kit2⟩ := len_rev' v hk i1
      have hk' : ¬ v.step > 0 := by omega
      have hf : first v = v.start + v.seqLen := by simp [first, hk']
      simp only [hk', if_false]
      generalize hval : (if i ≥ 0 then v.start + i * v.step else v.start + len v * v.step + i * v.step) = val
      have hkk : 0 < -v.step := by omega
      have f1 := clampP_cases i (len v) (-v.step) hkk hn
      have e1 : i * v.step = -(i * -v.step) := by ring
      have e2 : len v * v.step = -(len v * -v.step) := by ring
      have hvv : val ≤ -1 ∧ -v.seqLen - 1 ≤ val - 1 ∧ ¬ (val < -v.seqLen ∨ val < val - 1) ∧
          val + v.seqLen = first v + (if i ≥ 0 then i else i + len v) * v.step := by
        rw [hf]
        have e : (if i ≥ 0 then i else i + len v) * v.step
            = if i ≥ 0 then i * v.step else i * v.step + len v * v.step := by
          split
          · rfl
          · ring
        rw [e]
        rcases f1 with a | a | a | a <;> omega
      obtain ⟨v0, v1, v3, v2⟩ := hvv
      rw [remk_neg_eq v val (val - 1) (-1) hN (by omega) v0 v1 (by omega), if_neg v3]
      constructor
      · intro w hw
        rw [← Except.ok.inj hw, elems_single_rev]
        by_cases hi : 0 ≤ i
        · rw [if_pos ⟨hi, h2⟩]
          refine ⟨_, rfl, ?_⟩
          rw [v2, if_pos hi]
        · rw [if_neg (by omega), if_pos ⟨h1, by omega⟩]
          refine ⟨_, rfl, ?_⟩
          rw [v2, if_neg hi]
      · intro e he; cases he
  · have herr : getIndex v i = .error .indexError := getIndex_err v i (by omega)
    have hg : getitemInt v i = .error .indexError := by
      unfold getitemInt; rw [herr]; rfl
    rw [hg]
    constructor
    · intro w hw; cases hw
    · intro e _
      rw [index_elems, if_neg (by omega), if_neg (by omega)]

end CogentModel.View
