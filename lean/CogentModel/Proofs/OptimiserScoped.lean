import CogentModel.Model.ScopedRules
/-! Helper lemmas for C16 `scoped_rules_preserve_values`. -/
namespace CogentModel.ScopedRules

variable {S V : Type} [DecidableEq S]

/-- well-formedness of the two keyed rule lists under which the nested values are preserved -/
structure WF (chars : S → List S) (kr kn : List (Rule S V)) : Prop where
  /-- dict keys are faithful: equal keys mean the same parameter and the same scope (holds when
  parameter names are not edge names and no rule has an empty `edges` list) -/
  key : ∀ r ∈ kr, ∀ n ∈ kn, keyEq r n = true → r.par = n.par ∧ ∀ e, covers r e = covers n e
  /-- scopes of one parameter are disjoint in the rich rules … -/
  richDisj : ∀ r1 ∈ kr, ∀ r2 ∈ kr, r1.par = r2.par → ∀ e, covers r1 e = true → covers r2 e = true → r1 = r2
  /-- … and in the null rules -/
  nullDisj : ∀ n1 ∈ kn, ∀ n2 ∈ kn, n1.par = n2.par → ∀ e, covers n1 e = true → covers n2 e = true → n1 = n2
  /-- the singular `"edge": name` form of a null rule is not mangled into characters
  (single-character names, or the list form) -/
  quirk : ∀ n ∈ kn, nullEnames chars n = n.edges

theorem updateAll_mem (chars : S → List S) (kr kn : List (Rule S V)) :
    ∀ (l out : List (Rule S V)), updateAll chars kr kn l = .ok out →
      ∀ o ∈ out, ∃ r ∈ l, ∃ a, updateOne chars kr kn r = .ok a ∧ o ∈ a := by
  intro l
  induction l with
  | nil =>
    intro out h o ho
    simp [updateAll] at h
    subst h
    cases ho
  | cons r rs ih =>
    intro out h o ho
    unfold updateAll at h
    split at h
    · cases h
    · rename_i a ha
      split at h
      · cases h
      · rename_i b hb
        cases h
        rcases List.mem_append.mp ho with h1 | h2
        · exact ⟨r, List.mem_cons_self, a, ha, h1⟩
        · obtain ⟨r', hr', a', h3, h4⟩ := ih b hb o h2
          exact ⟨r', List.mem_cons_of_mem _ hr', a', h3, h4⟩

theorem covers_some {r : Rule S V} {es : List S} (h : r.edges = some es) (e : S) :
    covers r e = es.contains e := by
  unfold covers; rw [h]

theorem updateOne_sound (chars : S → List S) (kr kn : List (Rule S V)) (wf : WF chars kr kn)
    (r : Rule S V) (hr : r ∈ kr) (a : List (Rule S V)) (ha : updateOne chars kr kn r = .ok a)
    (o : Rule S V) (ho : o ∈ a) (e : S) (hoe : covers o e = true)
    (n : Rule S V) (hn : n ∈ kn) (hpar : n.par = o.par) (hne : covers n e = true) : o.val = n.val := by
  unfold updateOne at ha
  split at ha
  · -- same key
    rename_i n0 hfind
    have hk : keyEq r n0 = true := by simpa using List.find?_some hfind
    have hn0 : n0 ∈ kn := List.mem_of_find?_eq_some hfind
    cases ha
    simp only [List.mem_singleton] at ho
    subst ho
    obtain ⟨hp, hc⟩ := wf.key r hr n0 hn0 hk
    have hce : covers r e = true := by simpa [covers] using hoe
    have : n = n0 := wf.nullDisj n hn n0 hn0 (by rw [hpar]; exact hp) e hne (by rw [← hc e]; exact hce)
    rw [this]
  · rename_i hfind
    have hnokey : ∀ x ∈ kn, keyEq r x = false := by
      intro x hx
      have := List.find?_eq_none.mp hfind x hx
      simpa using this
    -- n is a candidate match whenever the rich rule covers e with an explicit scope
    have key_n : ∀ es, r.edges = some es → covers r e = true → r.par = n.par →
        n ∈ matchesFor chars (kn.filter (fun n => !(kr.any (fun r' => keyEq r' n)))) r := by
      intro es hes hre hp
      unfold matchesFor
      rw [List.mem_filter]
      refine ⟨?_, ?_⟩
      · rw [List.mem_filter]
        refine ⟨hn, ?_⟩
        simp only [Bool.not_eq_true', List.any_eq_false]
        intro r' hr' hk'
        obtain ⟨hp', hc'⟩ := wf.key r' hr' n hn hk'
        have : r' = r := wf.richDisj r' hr' r hr (by rw [hp', hp]) e (by rw [hc' e]; exact hne) hre
        subst this
        rw [hnokey n hn] at hk'
        cases hk'
      · rw [hes]
        simp only [Bool.and_eq_true, beq_iff_eq]
        refine ⟨hp.symm, ?_⟩
        unfold overlaps
        rw [wf.quirk n hn]
        cases hne' : n.edges with
        | none => rfl
        | some ns =>
          simp only [List.any_eq_true]
          refine ⟨e, ?_, ?_⟩
          · have := hne; rw [covers_some hne'] at this; simpa using this
          · have := hre; rw [covers_some hes] at this; exact this
    split at ha
    · -- free rich rule
      rename_i hnone
      cases ha
      unfold extend at ho
      rw [List.mem_flatMap] at ho
      obtain ⟨m, hm, ho⟩ := ho
      rw [List.mem_map] at ho
      obtain ⟨e', he', rfl⟩ := ho
      have hee : e = e' := by
        simp [covers] at hoe
        exact hoe
      subst hee
      unfold matchesFor at hm
      rw [List.mem_filter] at hm
      obtain ⟨hm1, hm2⟩ := hm
      rw [List.mem_filter] at hm1
      simp only [Bool.and_eq_true, beq_iff_eq] at hm2
      have hmc : covers m e = true := by
        cases hme : m.edges with
        | none => simp [covers, hme]
        | some es' =>
          rw [hme] at he'
          simp at he'
          rw [covers_some hme]
          simpa using he'
      have : n = m := wf.nullDisj n hn m hm1.1 (by rw [hpar]; simp [hm2.1]) e hne hmc
      rw [this]
    · rename_i es hes
      dsimp only at ha
      split at ha
      · rename_i hms
        cases ha
        simp only [List.mem_singleton] at ho
        subst ho
        have := key_n es hes hoe hpar.symm
        rw [hms] at this
        cases this
      · rename_i m hms
        cases ha
        simp only [List.mem_singleton] at ho
        subst ho
        have hre : covers r e = true := by simpa [covers] using hoe
        have := key_n es hes hre (by simpa using hpar.symm)
        rw [hms] at this
        simp only [List.mem_singleton] at this
        rw [this]
      · cases ha

end CogentModel.ScopedRules
