import CogentModel.Model.ScopedRules
/-! Helper lemmas for C16 `scoped_rules_preserve_values`. -/
namespace CogentModel.ScopedRules

variable {S V : Type} [DecidableEq S]

/-- well-formedness of the two keyed rule lists under which the nested values are preserved -/
structure WF (chars : S → List S) (kr kn : List (Rule S V)) : Prop where
  /-- dict keys are faithful: equal keys mean the same parameter and the same scope (holds when
  parameter names are not edge names and no rule has an empty `edges` list) -/
  key : ∀ r ∈ kr, ∀ n ∈ kn, keyEq r n = true → r.par = n.par ∧ ∀ e, covers r e = covers n e
  /-- scopes of one parameter are disjoint in the rich rules … -/
  richDisj : ∀ r1 ∈ kr, ∀ r2 ∈ kr, r1.par = r2.par → ∀ e, covers r1 e = true → covers r2 e = true → r1 = r2
  /-- … and in the null rules -/
  nullDisj : ∀ n1 ∈ kn, ∀ n2 ∈ kn, n1.par = n2.par → ∀ e, covers n1 e = true → covers n2 e = true → n1 = n2
  /-- the singular `"edge": name` form of a null rule is not mangled into characters
  (single-character names, or the list form) -/
  quirk : ∀ n ∈ kn, nullEnames chars n = n.edges

theorem updateAll_mem (chars : S → List S) (kr kn : List (Rule S V)) :
    ∀ (l out : List (Rule S V)), updateAll chars kr kn l = .ok out →
      ∀ o ∈ out, ∃ r ∈ l, ∃ a, updateOne chars kr kn r = .ok a ∧ o ∈ a := by
  intro l
  induction l with
  | nil =>
    intro out h o ho
    simp [updateAll] at h
    subst h
    cases ho
  | cons r rs ih =>
    intro out h o ho
    unfold updateAll at h
    split at h
    · cases h
    · rename_i a ha
      split at h
      · cases h
      · rename_i b hb
        cases h
        rcases List.mem_append.mp ho with h1 | h2
        · exact ⟨r, List.mem_cons_self, a, ha, h1⟩
        · obtain ⟨r', hr', a', h3, h4⟩ := ih b hb o h2
          exact ⟨r', List.mem_cons_of_mem _ hr', a', h3, h4⟩

theorem covers_some {r : Rule S V} {es : List S} (h : r.edges = some es) (e : S) :
    covers r e = es.contains e := by
  unfold covers; rw [h]

theorem updateOne_sound (chars : S → List S) (kr kn : List (Rule S V)) (wf : WF chars kr kn)
    (r : Rule S V) (hr : r ∈ kr) (a : List (Rule S V)) (ha : updateOne chars kr kn r = .ok a)
    (o : Rule S V) (ho : o ∈ a) (e : S) (hoe : covers o e = true)
    (n : Rule S V) (hn : n ∈ kn) (hpar : n.par = o.par) (hne : covers n e = true) : o.val = n.val := by
  unfold updateOne at ha
  split at ha
  · -- same key
    rename_i n0 hfind
    have hk : keyEq r n0 = true := by simpa using List.find?_some hfind
    have hn0 : n0 ∈ kn := List.mem_of_find?_eq_some hfind
    cases ha
    simp only [List.mem_singleton] at ho
    subst ho
    obtain ⟨hp, hc⟩ := wf.key r hr n0 hn0 hk
    have hce : covers r e = true := by simpa [covers] using hoe
    have : n = n0 := wf.nullDisj n hn n0 hn0 (by rw [hpar]; exact hp) e hne (by rw [← hc e]; exact hce)
    rw [this]
  · rename_i hfind
    have hnokey : ∀ x ∈ kn, keyEq r x = false := by
      intro x hx
      have := List.find?_eq_none.mp hfind x hx
      simpa using this
    -- n is a candidate match whenever the rich rule covers e with an explicit scope
    have key_n : ∀ es, r.edges = some es → covers r e = true → r.par = n.par →
        n ∈ matchesFor chars (kn.filter (fun n => !(kr.any (fun r' => keyEq r' n)))) r := by
      intro es hes hre hp
      unfold matchesFor
      rw [List.mem_filter]
      refine ⟨?_, ?_⟩
      · rw [List.mem_filter]
        refine ⟨hn, ?_⟩
        simp only [Bool.not_eq_true', List.any_eq_false]
        intro r' hr' hk'
        obtain ⟨hp', hc'⟩ := wf.key r' hr' n hn hk'
        have : r' = r := wf.richDisj r' hr' r hr (by rw [hp', hp]) e (by rw [hc' e]; exact hne) hre
        subst this
        rw [hnokey n hn] at hk'
        cases hk'
      · rw [hes]
        simp only [Bool.and_eq_true, beq_iff_eq]
        refine ⟨hp.symm, ?_⟩
        unfold overlaps
        rw [wf.quirk n hn]
        cases hne' : n.edges with
        | none => rfl
        | some ns =>
          simp only [List.any_eq_true]
          refine ⟨e, ?_, ?_⟩
          · have := hne; rw [covers_some hne'] at this; simpa using this
          · have := hre; rw [covers_some hes] at this; exact this
    split at ha
    · -- free rich rule
      rename_i hnone
      cases ha
      unfold extend at ho
      rw [List.mem_flatMap] at ho
      obtain ⟨m, hm, ho⟩ := ho
      rw [List.mem_map] at ho
      obtain ⟨e', he', rfl⟩ := ho
      have hee : e = e' := by
        simp [covers] at hoe
        exact hoe
      subst hee
      unfold matchesFor at hm
      rw [List.mem_filter] at hm
      obtain ⟨hm1, hm2⟩ := hm
      rw [List.mem_filter] at hm1
      simp only [Bool.and_eq_true, beq_iff_eq] at hm2
      have hmc : covers m e = true := by
        cases hme : m.edges with
        | none => simp [covers, hme]
        | some es' =>
          rw [hme] at he'
          simp at he'
          rw [covers_some hme]
          simpa using he'
      have : n = m := wf.nullDisj n hn m hm1.1 (by rw [hpar]; simp [hm2.1]) e hne hmc
      rw [this]
    · rename_i es hes
      dsimp only at ha
      split at ha
      · rename_i hms
        cases ha
        simp only [List.mem_singleton] at ho
        subst ho
        have := key_n es hes hoe hpar.symm
        rw [hms] at this
        cases this
      · rename_i m hms
        cases ha
        simp only [List.mem_singleton] at ho
        subst ho
        have hre : covers r e = true := by simpa [covers] using hoe
        have := key_n es hes hre (by simpa using hpar.symm)
        rw [hms] at this
        simp only [List.mem_singleton] at this
        rw [this]
      · cases ha

/-! ## audit addition: the same result under a weaker, REACHABLE well-formedness

`WF.quirk` demands `nullEnames chars n = n.edges` for EVERY null rule.  With the real `chars`
(characters of the name) this is false for every null rule written `"edge": "Human"` — and every rule
list produced by `get_param_rules()` contains such rules (the per-edge `length` rules), so `WF` never
holds on the rule lists `initialise_from_nested` really passes.  The proof only needs the clause for
null rules that are NOT key-matched by a rich rule (those are the only ones that reach the
name-matching loop); `WFr` states exactly that. -/

structure WFr (chars : S → List S) (kr kn : List (Rule S V)) : Prop where
  key : ∀ r ∈ kr, ∀ n ∈ kn, keyEq r n = true → r.par = n.par ∧ ∀ e, covers r e = covers n e
  richDisj : ∀ r1 ∈ kr, ∀ r2 ∈ kr, r1.par = r2.par → ∀ e, covers r1 e = true → covers r2 e = true → r1 = r2
  nullDisj : ∀ n1 ∈ kn, ∀ n2 ∈ kn, n1.par = n2.par → ∀ e, covers n1 e = true → covers n2 e = true → n1 = n2
  /-- only for the null remainder (`set(nulld) - set(richd)`) -/
  quirk : ∀ n ∈ kn, (∀ r ∈ kr, keyEq r n = false) → nullEnames chars n = n.edges

theorem WF.toWFr {chars : S → List S} {kr kn : List (Rule S V)} (h : WF chars kr kn) : WFr chars kr kn :=
  ⟨h.key, h.richDisj, h.nullDisj, fun n hn _ => h.quirk n hn⟩

theorem updateOne_sound_r (chars : S → List S) (kr kn : List (Rule S V)) (wf : WFr chars kr kn)
    (r : Rule S V) (hr : r ∈ kr) (a : List (Rule S V)) (ha : updateOne chars kr kn r = .ok a)
    (o : Rule S V) (ho : o ∈ a) (e : S) (hoe : covers o e = true)
    (n : Rule S V) (hn : n ∈ kn) (hpar : n.par = o.par) (hne : covers n e = true) : o.val = n.val := by
  unfold updateOne at ha
  split at ha
  · rename_i n0 hfind
    have hk : keyEq r n0 = true := by simpa using List.find?_some hfind
    have hn0 : n0 ∈ kn := List.mem_of_find?_eq_some hfind
    cases ha
    simp only [List.mem_singleton] at ho
    subst ho
    obtain ⟨hp, hc⟩ := wf.key r hr n0 hn0 hk
    have hce : covers r e = true := by simpa [covers] using hoe
    have : n = n0 := wf.nullDisj n hn n0 hn0 (by rw [hpar]; exact hp) e hne (by rw [← hc e]; exact hce)
    rw [this]
  · rename_i hfind
    have hnokey : ∀ x ∈ kn, keyEq r x = false := by
      intro x hx
      have := List.find?_eq_none.mp hfind x hx
      simpa using this
    -- when the rich rule covers e, n is not key-matched by ANY rich rule
    have hrem : covers r e = true → r.par = n.par → ∀ r' ∈ kr, keyEq r' n = false := by
      intro hre hp r' hr'
      cases hk' : keyEq r' n with
      | false => rfl
      | true =>
        exfalso
        obtain ⟨hp', hc'⟩ := wf.key r' hr' n hn hk'
        have : r' = r := wf.richDisj r' hr' r hr (by rw [hp', hp]) e (by rw [hc' e]; exact hne) hre
        subst this
        rw [hnokey n hn] at hk'
        cases hk'
    have key_n : ∀ es, r.edges = some es → covers r e = true → r.par = n.par →
        n ∈ matchesFor chars (kn.filter (fun n => !(kr.any (fun r' => keyEq r' n)))) r := by
      intro es hes hre hp
      have hrem' := hrem hre hp
      unfold matchesFor
      rw [List.mem_filter]
      refine ⟨?_, ?_⟩
      · rw [List.mem_filter]
        refine ⟨hn, ?_⟩
        simp only [Bool.not_eq_true', List.any_eq_false]
        intro r' hr' hk'
        rw [hrem' r' hr'] at hk'
        cases hk'
      · rw [hes]
        simp only [Bool.and_eq_true, beq_iff_eq]
        refine ⟨hp.symm, ?_⟩
        unfold overlaps
        rw [wf.quirk n hn hrem']
        cases hne' : n.edges with
        | none => rfl
        | some ns =>
          simp only [List.any_eq_true]
          refine ⟨e, ?_, ?_⟩
          · have := hne; rw [covers_some hne'] at this; simpa using this
          · have := hre; rw [covers_some hes] at this; exact this
    split at ha
    · rename_i hnone
      cases ha
      unfold extend at ho
      rw [List.mem_flatMap] at ho
      obtain ⟨m, hm, ho⟩ := ho
      rw [List.mem_map] at ho
      obtain ⟨e', he', rfl⟩ := ho
      have hee : e = e' := by
        simp [covers] at hoe
        exact hoe
      subst hee
      unfold matchesFor at hm
      rw [List.mem_filter] at hm
      obtain ⟨hm1, hm2⟩ := hm
      rw [List.mem_filter] at hm1
      simp only [Bool.and_eq_true, beq_iff_eq] at hm2
      have hmc : covers m e = true := by
        cases hme : m.edges with
        | none => simp [covers, hme]
        | some es' =>
          rw [hme] at he'
          simp at he'
          rw [covers_some hme]
          simpa using he'
      have : n = m := wf.nullDisj n hn m hm1.1 (by rw [hpar]; simp [hm2.1]) e hne hmc
      rw [this]
    · rename_i es hes
      dsimp only at ha
      split at ha
      · rename_i hms
        cases ha
        simp only [List.mem_singleton] at ho
        subst ho
        have := key_n es hes hoe hpar.symm
        rw [hms] at this
        cases this
      · rename_i m hms
        cases ha
        simp only [List.mem_singleton] at ho
        subst ho
        have hre : covers r e = true := by simpa [covers] using hoe
        have := key_n es hes hre (by simpa using hpar.symm)
        rw [hms] at this
        simp only [List.mem_singleton] at this
        rw [this]
      · cases ha

/-! ### soundness of the executable check `wfrB` -/

theorem sameSet_contains {x y : List S} (h : sameSet x y = true) (e : S) : x.contains e = y.contains e := by
  unfold sameSet at h
  rw [Bool.and_eq_true, List.all_eq_true, List.all_eq_true] at h
  obtain ⟨h1, h2⟩ := h
  cases hx : x.contains e with
  | true =>
    have := h1 e (by simpa using hx)
    exact this.symm
  | false =>
    cases hy : y.contains e with
    | false => rfl
    | true =>
      have := h2 e (by simpa using hy)
      rw [hx] at this
      cases this

theorem scopeEq_covers {a b : Rule S V} (h : scopeEq a b = true) (e : S) : covers a e = covers b e := by
  unfold scopeEq at h
  unfold covers
  cases ha : a.edges with
  | none =>
    cases hb : b.edges with
    | none => rfl
    | some y => rw [ha, hb] at h; cases h
  | some x =>
    cases hb : b.edges with
    | none => rw [ha, hb] at h; cases h
    | some y =>
      rw [ha, hb] at h
      exact sameSet_contains h e

theorem disjointScopes_false {a b : Rule S V} {e : S} (ha : covers a e = true) (hb : covers b e = true) :
    disjointScopes a b = false := by
  unfold disjointScopes
  cases hae : a.edges with
  | none => rfl
  | some x =>
    cases hbe : b.edges with
    | none => rfl
    | some y =>
      rw [covers_some hae] at ha
      rw [covers_some hbe] at hb
      simp only [List.all_eq_false]
      exact ⟨e, by simpa using ha, by simpa using hb⟩

theorem pairwiseDisj_spec [DecidableEq V] {l : List (Rule S V)} (h : pairwiseDisj l = true) :
    ∀ r1 ∈ l, ∀ r2 ∈ l, r1.par = r2.par → ∀ e, covers r1 e = true → covers r2 e = true → r1 = r2 := by
  intro r1 h1 r2 h2 hp e c1 c2
  unfold pairwiseDisj at h
  rw [List.all_eq_true] at h
  have := h r1 h1
  rw [List.all_eq_true] at this
  have := this r2 h2
  rw [disjointScopes_false c1 c2] at this
  simp [hp] at this
  exact this

theorem wfrB_sound [DecidableEq V] {chars : S → List S} {kr kn : List (Rule S V)}
    (h : wfrB chars kr kn = true) : WFr chars kr kn := by
  unfold wfrB at h
  simp only [Bool.and_eq_true] at h
  obtain ⟨⟨⟨hk, hr⟩, hn⟩, hq⟩ := h
  refine ⟨?_, pairwiseDisj_spec hr, pairwiseDisj_spec hn, ?_⟩
  · intro r hr' n hn' hke
    rw [List.all_eq_true] at hk
    have := hk r hr'
    rw [List.all_eq_true] at this
    have := this n hn'
    rw [hke] at this
    simp only [Bool.not_true, Bool.false_or, Bool.and_eq_true, beq_iff_eq] at this
    exact ⟨this.1, scopeEq_covers this.2⟩
  · intro n hn' hrem
    rw [List.all_eq_true] at hq
    have := hq n hn'
    rw [Bool.or_eq_true] at this
    rcases this with h1 | h2
    · rw [List.any_eq_true] at h1
      obtain ⟨r, hr', hke⟩ := h1
      rw [hrem r hr'] at hke
      cases hke
    · exact of_decide_eq_true h2

/-! ### (audit) explicitly scoped rich rules are never dropped or re-scoped -/

theorem updateAll_sub (chars : S → List S) (kr kn : List (Rule S V)) :
    ∀ (l out : List (Rule S V)), updateAll chars kr kn l = .ok out →
      ∀ r ∈ l, ∃ a, updateOne chars kr kn r = .ok a ∧ ∀ o ∈ a, o ∈ out := by
  intro l
  induction l with
  | nil => intro out _ r hr; cases hr
  | cons x xs ih =>
    intro out h r hr
    unfold updateAll at h
    split at h
    · cases h
    · rename_i a ha
      split at h
      · cases h
      · rename_i b hb
        cases h
        rcases List.mem_cons.mp hr with rfl | hr'
        · exact ⟨a, ha, fun o ho => List.mem_append_left _ ho⟩
        · obtain ⟨a', h1, h2⟩ := ih b hb r hr'
          exact ⟨a', h1, fun o ho => List.mem_append_right _ (h2 o ho)⟩

theorem updateOne_keeps_scope (chars : S → List S) (kr kn : List (Rule S V)) (r : Rule S V)
    (es : List S) (hes : r.edges = some es) (a : List (Rule S V))
    (ha : updateOne chars kr kn r = .ok a) : ∃ v, a = [{ r with val := v }] := by
  unfold updateOne at ha
  split at ha
  · rename_i n0 _
    cases ha
    exact ⟨n0.val, rfl⟩
  · split at ha
    · rename_i hnone
      rw [hes] at hnone
      cases hnone
    · dsimp only at ha
      split at ha
      · cases ha; exact ⟨r.val, rfl⟩
      · rename_i m _; cases ha; exact ⟨m.val, rfl⟩
      · cases ha

end CogentModel.ScopedRules
