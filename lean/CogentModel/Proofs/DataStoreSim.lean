import CogentModel.Proofs.DataStore
namespace CogentModel.DataStore
open CogentModel.KV CogentModel.DataStoreDict

variable {D : Type} {H : D → D} {cfg : Cfg} {sfx : Str} {ids : List Str} {lost : List Str} {s : Dir D} {d : Dict D}

/-! ### evaluation of the specification step -/

theorem rej_write_false {i : Str} (data : D) (hm : d.mode ≠ .r) (hc : d.mode = .a → cN sfx i ∉ keys d.completed) :
    rejects .directory sfx d (.write i data) = false := by
  cases hmode : d.mode with
  | r => exact absurd hmode hm
  | w => simp [rejects, hmode]
  | a => simp [rejects, hmode, has_false_of_not_mem (hc hmode)]

theorem rej_write_true {i : Str} (data : D) (h : d.mode = .r ∨ (d.mode = .a ∧ cN sfx i ∈ keys d.completed)) :
    rejects .directory sfx d (.write i data) = true := by
  rcases h with h | ⟨h1, h2⟩
  · simp [rejects, h]
  · simp [rejects, h1, has_true_of_mem h2]

theorem rej_writeNc_false {i : Str} (data : D) (hm : d.mode ≠ .r)
    (hc : d.mode = .a → cN sfx i ∉ keys d.completed) (hn : d.mode = .a → ncN i ∉ keys d.notCompleted) :
    rejects .directory sfx d (.writeNc i data) = false := by
  cases hmode : d.mode with
  | r => exact absurd hmode hm
  | w => simp [rejects, hmode]
  | a => simp [rejects, hmode, has_false_of_not_mem (hc hmode), has_false_of_not_mem (hn hmode)]

theorem rej_writeNc_true {i : Str} (data : D) (h : d.mode = .r ∨ (d.mode = .a ∧ cN sfx i ∈ keys d.completed)) :
    rejects .directory sfx d (.writeNc i data) = true := by
  rcases h with h | ⟨h1, h2⟩
  · simp [rejects, h]
  · simp [rejects, h1, has_true_of_mem h2]

theorem rej_drop {i : Str} : rejects .directory sfx d (.drop i : Op D) = decide (d.mode = .r) := by
  simp [rejects]

theorem rej_writeLog {i : Str} (data : D) : rejects .directory sfx d (.writeLog i data) = decide (d.mode = .r) := by
  simp [rejects]

theorem specStep_rej {op : Op D} (h : rejects .directory sfx d op = true) : specStep .directory sfx d op = d := by
  simp [specStep, h]

theorem specStep_acc {op : Op D} (h : rejects .directory sfx d op = false) :
    specStep .directory sfx d op = DataStoreDict.apply .directory sfx d op := by
  simp [specStep, h]

theorem expect_rej {op : Op D} {b : Bool} (h : rejects .directory sfx d op = true) :
    expectRes sfx d b op = .err .ioError := by
  simp [expectRes, h]

theorem lost_rej {op : Op D} (h : rejects .directory sfx d op = true) : lostStep sfx d lost op = lost := by
  cases op <;> simp [lostStep, h]

theorem isEmpty_false_of_ne {i : Str} (hi : i ≠ []) : i.isEmpty = false := by
  cases i with
  | nil => exact absurd rfl hi
  | cons _ _ => rfl

/-! ### effect of `drop_not_completed(unique_id)` -/

theorem dropNc_effect (hy : hyg sfx ids = true) (p : DropPre sfx ids s) {i : Str} (hi : i ∈ ids)
    (hro : s.mode ≠ .r) :
    (dropNc s i).2 = .done none ∧
    (dropNc s i).1.mode = s.mode ∧ (dropNc s i).1.sfx = s.sfx ∧ (dropNc s i).1.root = s.root ∧
    (dropNc s i).1.cCache = s.cCache ∧ (dropNc s i).1.ncDir = s.ncDir ∧
    (dropNc s i).1.nc = del s.nc (ncN i) ∧
    ((ncN i ∈ keys s.nc → (dropNc s i).1.md5 = del s.md5 (dropMd5 (ncN i))) ∧
     (ncN i ∉ keys s.nc → (dropNc s i).1.md5 = s.md5)) ∧
    (dropNc s i).1.ncCache.Nodup ∧
    (∀ n, n ∈ (dropNc s i).1.ncCache ↔ n ∈ keys (del s.nc (ncN i))) ∧
    (dropNc s i).1.logs = s.logs ∧ (dropNc s i).1.logsDir = s.logsDir := by
  obtain ⟨hnd, hmem⟩ := populateNc_pre hy p
  rw [dropNc_key hy p hi hro]
  by_cases hin : ncN i ∈ keys s.nc
  · rw [if_pos hin]
    refine ⟨rfl, rfl, rfl, rfl, rfl, rfl, rfl, ⟨fun _ => rfl, fun h => absurd hin h⟩, hnd.erase _, ?_, rfl, rfl⟩
    intro n
    rw [hnd.mem_erase_iff, hmem, mem_keys_del]
  · rw [if_neg hin]
    refine ⟨rfl, rfl, rfl, rfl, rfl, rfl, (del_of_not_mem _ _ hin).symm, ⟨fun h => absurd h hin, fun _ => rfl⟩, hnd, ?_, rfl, rfl⟩
    intro n
    rw [hmem, del_of_not_mem _ _ hin]

theorem dropPre_of_sim (hy : hyg sfx ids = true) (h : Sim H sfx ids lost s d) : DropPre sfx ids s := by
  refine ⟨h.hsfx, h.nc ▸ h.ndN, ?_, ?_, ?_, ?_⟩
  · rw [h.nc]; exact h.fromN
  · rw [h.nc]; exact h.cacheN
  · intro hd; rw [h.nc]; exact h.ncDir hd
  · intro n hn
    rw [h.nc] at hn
    obtain ⟨j, hj, rfl⟩ := h.fromN n hn
    rw [(hyg_id hy hj).dmd5]
    have hs := (mem_keys_iff _ _).mp hn
    cases hg : get d.notCompleted (ncN j) with
    | none => simp [hg] at hs
    | some v => simp [has, h.md5N _ v hg]

/-- `Sim` after dropping one not-completed record (the completed side may have changed to `C`) -/
theorem sim_after_drop {s' : Dir D} {i : Str} {lost' : List Str}
    (C : KV D) (h : Sim H sfx ids lost s d)
    (hmode : s'.mode = d.mode) (hsfx : s'.sfx = sfx) (hroot : s'.root = C)
    (hnc : s'.nc = del d.notCompleted (ncN i)) (hlogs : s'.logs = d.logs) (hlogsDir : s'.logsDir = true)
    (hndC : (keys C).Nodup) (hfromC : ∀ n ∈ keys C, ∃ j ∈ ids, n = cN sfx j)
    (hcacheC : s'.cCache = [] ∨ (s'.cCache.Nodup ∧ ∀ n, n ∈ s'.cCache ↔ n ∈ keys C))
    (hcn : s'.ncCache.Nodup) (hcm : ∀ n, n ∈ s'.ncCache ↔ n ∈ keys (del d.notCompleted (ncN i)))
    (hdir : s'.ncDir = s.ncDir)
    (hmdN : ∀ n v, n ≠ ncN i → get d.notCompleted n = some v → get s'.md5 (mdOf sfx n) = some (H v))
    (hmdC : ∀ n v, get C n = some v → get s'.md5 (mdOf sfx n) = if n ∈ lost' then none else some (H v))
    (hmdX : ∀ n ∈ keys (del d.notCompleted (ncN i)), ∀ c ∈ keys C, mdOf sfx c ≠ mdOf sfx n)
    (hlost : ∀ n ∈ lost', n ∈ keys C) :
    Sim H sfx ids lost' s' { d with completed := C, notCompleted := del d.notCompleted (ncN i) } := by
  refine ⟨hmode, hsfx, hroot, hnc, hlogs, hlogsDir, hndC, nodup_del _ _ h.ndN, hfromC, ?_, hcacheC,
    Or.inr ⟨hcn, hcm⟩, ?_, hmdC, hmdX, hlost, ?_⟩
  · intro n hn
    exact h.fromN n ((mem_keys_del _ _ _).mp hn).2
  · intro n v hg
    simp only [get_del] at hg
    by_cases hk : n = ncN i
    · simp [hk] at hg
    · simp only [hk, if_false] at hg
      exact hmdN n v hk hg
  · intro hd
    rw [hdir] at hd
    simp [h.ncDir hd, del]

theorem drop_sim (hy : hyg sfx ids = true) (h : Sim H sfx ids lost s d) {i : Str} (hi : i ∈ ids) :
    Sim H sfx ids lost (dropNc s i).1 (specStep .directory sfx d (.drop i)) ∧
    (dropNc s i).2 = expectRes sfx d s.ncDir (.drop i) := by
  have hine := isEmpty_false_of_ne (ne_nil_of_hyg hy hi)
  by_cases hr : s.mode = .r
  · have hm : d.mode = .r := h.hmode ▸ hr
    have hrej : rejects .directory sfx d (.drop i : Op D) = true := by rw [rej_drop]; simp [hm]
    rw [specStep_rej hrej, expect_rej hrej]
    unfold dropNc
    rw [if_pos hr]
    exact ⟨h, rfl⟩
  · have hm : d.mode ≠ .r := h.hmode ▸ hr
    have hrej : rejects .directory sfx d (.drop i : Op D) = false := by rw [rej_drop]; simp [hm]
    have p := dropPre_of_sim hy h
    obtain ⟨er, e1, e2, e3, e4, e5, e6, e7, e8, e9, e10, e11⟩ := dropNc_effect hy p hi hr
    refine ⟨?_, by rw [er]; simp [expectRes, hrej, hine]⟩
    rw [specStep_acc hrej]
    have hdeq : DataStoreDict.apply .directory sfx d (.drop i : Op D) =
        { d with completed := d.completed, notCompleted := del d.notCompleted (ncN i) } := by
      simp [DataStoreDict.apply, hine]
    rw [hdeq]
    have hid := hyg_id hy hi
    apply sim_after_drop d.completed h
    · rw [e1, h.hmode]
    · rw [e2, h.hsfx]
    · rw [e3, h.root]
    · rw [e6, h.nc]
    · rw [e10, h.logs]
    · rw [e11, h.logsDir]
    · exact h.ndC
    · exact h.fromC
    · rw [e4]; exact h.cacheC
    · exact e8
    · intro n; rw [e9 n, h.nc]
    · exact e5
    · intro n v hne hg
      have hmd := h.md5N n v hg
      by_cases hin : ncN i ∈ keys s.nc
      · rw [e7.1 hin, get_del]
        obtain ⟨j, hj, rfl⟩ := h.fromN n (mem_of_get_some hg)
        have : mdOf sfx (ncN j) ≠ dropMd5 (ncN i) := by
          rw [hid.dmd5]
          intro e
          exact hne ((hyg_pair hy hj hi).mdN e)
        simp only [this, if_false]
        exact hmd
      · rw [e7.2 hin]; exact hmd
    · intro n v hg
      by_cases hin : ncN i ∈ keys s.nc
      · rw [e7.1 hin, get_del, hid.dmd5]
        have hin' : ncN i ∈ keys d.notCompleted := h.nc ▸ hin
        have : mdOf sfx n ≠ mdOf sfx (ncN i) := h.md5X _ hin' n (mem_of_get_some hg)
        simp only [this, if_false]
        exact h.md5C n v hg
      · rw [e7.2 hin]; exact h.md5C n v hg
    · intro n hn c hc
      exact h.md5X n ((mem_keys_del _ _ _).mp hn).2 c hc
    · exact h.lostSub

/-! ### `write` -/

/-- the state right after the file and md5 writes of `_write` -/
def afterWrite (H : D → D) (sp : Dir D) (c : Str) (data : D) : Dir D :=
  { sp with root := put sp.root c data, md5 := put sp.md5 (mdOf sfx c) (H data) }

theorem lost_write_acc {i : Str} (data : D) (h : rejects .directory sfx d (.write i data) = false) :
    lostStep sfx d lost (.write i data) = if has d.notCompleted (ncN i) then cN sfx i :: lost else lost := by
  simp [lostStep, h]

theorem write_core_sim (hy : hyg sfx ids = true) {sp : Dir D} (hs : Sim H sfx ids lost sp d) (hf : Full sp d)
    {i : Str} (data : D) (hi : i ∈ ids) (hnr : sp.mode ≠ .r) (hnl : cN sfx i ∉ keys d.completed) :
    (dropNc (afterWrite (sfx := sfx) H sp (cN sfx i) data) i).2 = .done none ∧
    Sim H sfx ids (if has d.notCompleted (ncN i) then cN sfx i :: lost else lost)
      { (dropNc (afterWrite (sfx := sfx) H sp (cN sfx i) data) i).1 with
        cCache := (dropNc (afterWrite (sfx := sfx) H sp (cN sfx i) data) i).1.cCache ++ [cN sfx i] }
      { d with completed := put d.completed (cN sfx i) data, notCompleted := del d.notCompleted (ncN i) } := by
  have hid := hyg_id hy hi
  have p0 := dropPre_of_sim hy hs
  have p : DropPre sfx ids (afterWrite (sfx := sfx) H sp (cN sfx i) data) := by
    refine ⟨p0.hsfx, p0.nd, p0.from_, p0.cache, p0.dir, ?_⟩
    intro n hn
    have := p0.md n hn
    simp only [afterWrite, has, get_put] at this ⊢
    by_cases e : dropMd5 n = mdOf sfx (cN sfx i) <;> simp [e, this]
  have hro : (afterWrite (sfx := sfx) H sp (cN sfx i) data).mode ≠ .r := by
    simpa [afterWrite] using hnr
  obtain ⟨er, e1, e2, e3, e4, e5, e6, e7, e8, e9, e10, e11⟩ := dropNc_effect hy p hi hro
  refine ⟨er, ?_⟩
  generalize dropNc (afterWrite (sfx := sfx) H sp (cN sfx i) data) i = x at er e1 e2 e3 e4 e5 e6 e7 e8 e9 e10 e11 ⊢
  obtain ⟨s2, r⟩ := x
  simp only [afterWrite] at er e1 e2 e3 e4 e5 e6 e7 e8 e9 e10 e11 ⊢
  have hcC : sp.cCache.Nodup ∧ ∀ n, n ∈ sp.cCache ↔ n ∈ keys d.completed := ⟨hf.cnd, hf.cmem⟩
  have hlive : has d.notCompleted (ncN i) = true ↔ ncN i ∈ keys sp.nc := by
    rw [hs.nc]; exact ⟨fun h => (mem_keys_iff _ _).mpr h, fun h => (mem_keys_iff _ _).mp h⟩
  have hcfresh : cN sfx i ∉ lost := fun hl => hnl (hs.lostSub _ hl)
  apply sim_after_drop (put d.completed (cN sfx i) data) hs
  · show s2.mode = d.mode
    rw [e1, hs.hmode]
  · show s2.sfx = sfx
    rw [e2, hs.hsfx]
  · show s2.root = _
    rw [e3, hs.root]
  · show s2.nc = _
    rw [e6, hs.nc]
  · show s2.logs = _
    rw [e10, hs.logs]
  · show s2.logsDir = true
    rw [e11, hs.logsDir]
  · exact nodup_put _ _ _ hs.ndC
  · intro n hn
    rcases (mem_keys_put _ _ _ _).mp hn with e | hn'
    · exact ⟨i, hi, e⟩
    · exact hs.fromC n hn'
  · right
    show (s2.cCache ++ [cN sfx i]).Nodup ∧ ∀ n, n ∈ s2.cCache ++ [cN sfx i] ↔ n ∈ keys (put d.completed (cN sfx i) data)
    rw [e4]
    constructor
    · apply List.nodup_append.mpr
      refine ⟨hcC.1, by simp, ?_⟩
      intro a ha b hb
      simp only [List.mem_singleton] at hb
      subst hb
      intro e; subst e
      exact hnl ((hcC.2 _).mp ha)
    · intro n
      rw [List.mem_append, List.mem_singleton, mem_keys_put, hcC.2 n]
      exact Or.comm
  · exact e8
  · intro n
    show n ∈ s2.ncCache ↔ _
    rw [e9 n, hs.nc]
  · show s2.ncDir = sp.ncDir
    exact e5
  · -- md5 of the surviving not-completed records
    intro n v hne hg
    show get s2.md5 (mdOf sfx n) = some (H v)
    obtain ⟨j, hj, rfl⟩ := hs.fromN n (mem_of_get_some hg)
    have h1 : mdOf sfx (ncN j) ≠ mdOf sfx (cN sfx i) := by
      intro e
      exact hne ((hyg_pair hy hi hj).mdX e.symm).symm
    have h2 : mdOf sfx (ncN j) ≠ dropMd5 (ncN i) := by
      rw [hid.dmd5]
      intro e
      exact hne ((hyg_pair hy hj hi).mdN e)
    by_cases hin : ncN i ∈ keys sp.nc
    · rw [e7.1 hin, get_del, get_put]
      simp only [h1, h2, if_false]
      exact hs.md5N _ v hg
    · rw [e7.2 hin, get_put]
      simp only [h1, if_false]
      exact hs.md5N _ v hg
  · -- md5 of the completed records: exact
    intro n v hg
    show get s2.md5 (mdOf sfx n) = _
    rw [get_put] at hg
    by_cases hn : n = cN sfx i
    · subst hn
      simp only [if_true] at hg
      cases hg
      by_cases hin : ncN i ∈ keys sp.nc
      · have hl : has d.notCompleted (ncN i) = true := hlive.mpr hin
        rw [e7.1 hin, get_del, hid.dmd5, hid.mdSame]
        simp [hl]
      · have hl : has d.notCompleted (ncN i) = false := by
          cases hb : has d.notCompleted (ncN i) with
          | false => rfl
          | true => exact absurd (hlive.mp hb) hin
        rw [e7.2 hin, get_put]
        simp [hl, hcfresh]
    · simp only [hn, if_false] at hg
      have hmem := mem_of_get_some hg
      obtain ⟨j, hj, rfl⟩ := hs.fromC n hmem
      have h1 : mdOf sfx (cN sfx j) ≠ mdOf sfx (cN sfx i) := fun e => hn ((hyg_pair hy hj hi).mdC e)
      have hlost_iff : (cN sfx j ∈ (if has d.notCompleted (ncN i) then cN sfx i :: lost else lost)) ↔ cN sfx j ∈ lost := by
        split
        · simp [hn]
        · exact Iff.rfl
      have hbase := hs.md5C _ v hg
      by_cases hin : ncN i ∈ keys sp.nc
      · rw [e7.1 hin, get_del, get_put, hid.dmd5, ← hid.mdSame]
        simp only [h1, if_false]
        rw [hbase]
        by_cases hl : cN sfx j ∈ lost
        · simp [hl, hlost_iff.mpr hl]
        · have : ¬ cN sfx j ∈ (if has d.notCompleted (ncN i) then cN sfx i :: lost else lost) :=
            fun h => hl (hlost_iff.mp h)
          simp [hl, this]
      · rw [e7.2 hin, get_put]
        simp only [h1, if_false]
        rw [hbase]
        by_cases hl : cN sfx j ∈ lost
        · simp [hl, hlost_iff.mpr hl]
        · have : ¬ cN sfx j ∈ (if has d.notCompleted (ncN i) then cN sfx i :: lost else lost) :=
            fun h => hl (hlost_iff.mp h)
          simp [hl, this]
  · -- no surviving not-completed record shares an md5 file with a completed record
    intro n hn c hc
    obtain ⟨hne, hn'⟩ := (mem_keys_del _ _ _).mp hn
    rcases (mem_keys_put _ _ _ _).mp hc with e | hc'
    · subst e
      obtain ⟨j, hj, rfl⟩ := hs.fromN n hn'
      intro e
      exact hne ((hyg_pair hy hi hj).mdX e).symm
    · exact hs.md5X n hn' c hc'
  · intro n hn
    apply (mem_keys_put _ _ _ _).mpr
    split at hn
    · rcases List.mem_cons.mp hn with e | hn'
      · exact Or.inl e
      · exact Or.inr (hs.lostSub n hn')
    · exact Or.inr (hs.lostSub n hn)

theorem write_sim (hy : hyg sfx ids = true) (h : Sim H sfx ids lost s d) {i : Str} (data : D) (hi : i ∈ ids)
    (hw : d.mode = .w → cN sfx i ∉ keys d.completed) :
    Sim H sfx ids (lostStep sfx d lost (.write i data)) (write cfg H s i data).1 (specStep .directory sfx d (.write i data)) ∧
    (write cfg H s i data).2 = expectRes sfx d s.ncDir (.write i data) := by
  obtain ⟨hs', hf⟩ := sim_populate hy h
  unfold write
  rw [writeCore_root hy h hi data]
  by_cases hr : s.mode = .r
  · have hrej := rej_write_true (sfx := sfx) (i := i) data (Or.inl (h.hmode ▸ hr))
    rw [if_pos hr, specStep_rej hrej, lost_rej hrej, expect_rej hrej]
    exact ⟨h, rfl⟩
  · rw [if_neg hr]
    by_cases hin : cN sfx i ∈ keys d.completed
    · rw [if_pos hin]
      have ha : s.mode = .a := by
        cases hm : s.mode with
        | r => exact absurd hm hr
        | w => exact absurd hin (hw (h.hmode ▸ hm))
        | a => rfl
      have hrej := rej_write_true (sfx := sfx) (i := i) data (Or.inr ⟨h.hmode ▸ ha, hin⟩)
      rw [if_pos ha, specStep_rej hrej, lost_rej hrej, expect_rej hrej]
      exact ⟨hs', rfl⟩
    · rw [if_neg hin]
      have hnr : (populate s).mode ≠ .r := by rw [hs'.hmode, ← h.hmode]; exact hr
      obtain ⟨er, hsim⟩ := write_core_sim hy hs' hf data hi hnr hin
      have hrej := rej_write_false (sfx := sfx) (i := i) data (h.hmode ▸ hr) (fun _ => hin)
      have hacc : specStep .directory sfx d (.write i data) =
          { d with completed := put d.completed (cN sfx i) data, notCompleted := del d.notCompleted (ncN i) } := by
        rw [specStep_acc hrej]; rfl
      rw [hacc, lost_write_acc data hrej]
      have hexp : expectRes sfx d s.ncDir (.write i data) = .done (some (cN sfx i)) := by
        simp [expectRes, hrej]
      rw [hexp]
      simp only [afterWrite] at er hsim
      dsimp only
      generalize dropNc _ i = x at er hsim ⊢
      obtain ⟨s2, r⟩ := x
      simp only at er
      subst er
      exact ⟨hsim, rfl⟩

/-! ### `write_not_completed` -/

theorem writeCore_ro {sub : Sub} {uid suffix : Str} {data : D} (hr : s.mode = .r) :
    writeCore cfg H s sub uid suffix data = (s, .err .ioError) := by
  unfold writeCore; rw [if_pos hr]

@[simp] theorem populateC_nc (s : Dir D) : (populateC s).nc = s.nc := by unfold populateC; split <;> rfl
@[simp] theorem populateC_ncDir (s : Dir D) : (populateC s).ncDir = s.ncDir := by unfold populateC; split <;> rfl
@[simp] theorem populate_ncDir (s : Dir D) : (populate s).ncDir = s.ncDir := by simp [populate]

theorem not_mem_of_has_false {m : KV D} {k : Str} (h : has m k = false) : k ∉ keys m := by
  intro hk; rw [has_true_of_mem hk] at h; cases h

theorem sim_ncDir_true (h : Sim H sfx ids lost s d) : Sim H sfx ids lost { s with ncDir := true } d :=
  sim_congr h rfl rfl rfl rfl rfl h.logsDir rfl (fun hd => by cases hd) h.cacheC h.cacheN

theorem sim_logsDir_true (h : Sim H sfx ids lost s d) : Sim H sfx ids lost { s with logsDir := true } d :=
  sim_congr h rfl rfl rfl rfl rfl rfl rfl id h.cacheC h.cacheN

theorem writeNc_sim (hy : hyg sfx ids = true) (h : Sim H sfx ids lost s d) {i : Str} (data : D) (hi : i ∈ ids)
    (hn : d.mode = .a → ncN i ∉ keys d.notCompleted) (hw : d.mode = .w → cN sfx i ∉ keys d.completed)
    (hj : ncN i ∉ keys d.completed) :
    Sim H sfx ids lost (writeNc cfg H s i data).1 (specStep .directory sfx d (.writeNc i data)) ∧
    (writeNc cfg H s i data).2 = expectRes sfx d s.ncDir (.writeNc i data) := by
  have hid := hyg_id hy hi
  unfold writeNc
  by_cases hr : s.mode = .r
  · -- read-only: `_write` raises; the directory may have been created before (code as it is)
    have hrej := rej_writeNc_true (sfx := sfx) (i := i) data (Or.inl (h.hmode ▸ hr))
    rw [specStep_rej hrej, expect_rej hrej]
    by_cases hc : (cfg.roWriteNoMkdir && decide (s.mode = .r)) = true
    · rw [if_pos hc]; dsimp only; rw [writeCore_ro hr]
      exact ⟨h, rfl⟩
    · rw [if_neg hc]; dsimp only; rw [writeCore_ro (s := { s with ncDir := true }) hr]
      exact ⟨sim_ncDir_true h, rfl⟩
  · have hc' : (cfg.roWriteNoMkdir && decide (s.mode = .r)) = false := by simp [hr]
    simp only [hc', Bool.false_eq_true, if_false]
    have h0 := sim_ncDir_true h
    obtain ⟨hs', hf⟩ := sim_populate hy h0
    rw [writeCore_nc hy h0 hi data hj]
    rw [if_neg hr]
    by_cases hin : cN sfx i ∈ keys d.completed ∧ s.mode = .a
    · have hrej := rej_writeNc_true (sfx := sfx) (i := i) data (Or.inr ⟨h.hmode ▸ hin.2, hin.1⟩)
      rw [if_pos hin, specStep_rej hrej, expect_rej hrej]
      exact ⟨hs', rfl⟩
    · rw [if_neg hin]
      have hnc : cN sfx i ∉ keys d.completed := by
        cases hm : s.mode with
        | r => exact absurd hm hr
        | w => exact hw (h.hmode ▸ hm)
        | a => exact fun hc => hin ⟨hc, hm⟩
      have hrej := rej_writeNc_false (sfx := sfx) (i := i) data (h.hmode ▸ hr) (fun _ => hnc) hn
      have hacc : specStep .directory sfx d (.writeNc i data) =
          { d with notCompleted := put d.notCompleted (ncN i) data } := by
        rw [specStep_acc hrej]; rfl
      have hexp : expectRes sfx d s.ncDir (.writeNc i data) = .done (some (ncPrefix ++ ncN i)) := by
        simp [expectRes, hrej]
      rw [hacc, hexp]
      dsimp only
      refine ⟨?_, rfl⟩
      -- everything but the member list
      have key : ∀ c' : List Str, c'.Nodup → (∀ n, n ∈ c' ↔ n ∈ keys (put d.notCompleted (ncN i) data)) →
          Sim H sfx ids lost
            { populate ({ s with ncDir := true } : Dir D) with
              nc := put (populate ({ s with ncDir := true } : Dir D)).nc (ncN i) data,
              md5 := put (populate ({ s with ncDir := true } : Dir D)).md5 (mdOf sfx (ncN i)) (H data),
              ncCache := c' }
            { d with notCompleted := put d.notCompleted (ncN i) data } := by
        intro c' hcn hcm
        refine ⟨hs'.hmode, hs'.hsfx, hs'.root, ?_, hs'.logs, hs'.logsDir, h.ndC, nodup_put _ _ _ h.ndN, h.fromC, ?_,
          hs'.cacheC, Or.inr ⟨hcn, hcm⟩, ?_, ?_, ?_, h.lostSub, ?_⟩
        · show put (populate { s with ncDir := true }).nc (ncN i) data = put d.notCompleted (ncN i) data
          rw [hs'.nc]
        · intro n hn'
          rcases (mem_keys_put _ _ _ _).mp hn' with e | hn''
          · exact ⟨i, hi, e⟩
          · exact h.fromN n hn''
        · intro n v hg
          show get (put (populate { s with ncDir := true }).md5 (mdOf sfx (ncN i)) (H data)) (mdOf sfx n) = some (H v)
          rw [get_put] at hg
          by_cases hk : n = ncN i
          · subst hk
            simp only [if_true] at hg
            cases hg
            simp [get_put]
          · simp only [hk, if_false] at hg
            obtain ⟨j, hj', rfl⟩ := h.fromN n (mem_of_get_some hg)
            have : mdOf sfx (ncN j) ≠ mdOf sfx (ncN i) := fun e => hk ((hyg_pair hy hj' hi).mdN e)
            rw [get_put]
            simp only [this, if_false]
            exact hs'.md5N _ v hg
        · intro n v hg
          show get (put (populate { s with ncDir := true }).md5 (mdOf sfx (ncN i)) (H data)) (mdOf sfx n) = _
          have hmem := mem_of_get_some hg
          obtain ⟨j, hj', rfl⟩ := h.fromC n hmem
          have : mdOf sfx (cN sfx j) ≠ mdOf sfx (ncN i) := by
            intro e
            have := (hyg_pair hy hj' hi).mdX e
            exact hnc (((cN_eq_iff sfx j i).mpr this) ▸ hmem)
          rw [get_put]
          simp only [this, if_false]
          exact hs'.md5C _ v hg
        · intro n hn' c hc
          rcases (mem_keys_put _ _ _ _).mp hn' with e | hn''
          · subst e
            obtain ⟨j, hj', rfl⟩ := h.fromC c hc
            intro e
            have := (hyg_pair hy hj' hi).mdX e
            exact hnc (((cN_eq_iff sfx j i).mpr this) ▸ hc)
          · exact h.md5X n hn'' c hc
        · intro hd
          have : (populate ({ s with ncDir := true } : Dir D)).ncDir = true := by simp
          change (populate ({ s with ncDir := true } : Dir D)).ncDir = false at hd
          rw [this] at hd; cases hd
      by_cases hk : ncN i ∈ keys d.notCompleted
      · -- rewritten record: already listed
        have hc : (populate ({ s with ncDir := true } : Dir D)).ncCache.contains (ncN i) = true :=
          List.contains_iff_mem.mpr ((hf.nmem _).mpr hk)
        simp only [hc, if_true]
        apply key _ hf.nnd
        intro n
        rw [hf.nmem n, mem_keys_put]
        constructor
        · exact Or.inr
        · rintro (e | e)
          · exact e ▸ hk
          · exact e
      · have hc : (populate ({ s with ncDir := true } : Dir D)).ncCache.contains (ncN i) = false := by
          cases hb : (populate ({ s with ncDir := true } : Dir D)).ncCache.contains (ncN i) with
          | false => rfl
          | true => exact absurd ((hf.nmem _).mp (List.contains_iff_mem.mp hb)) hk
        simp only [hc, Bool.false_eq_true, if_false]
        apply key
        · apply List.nodup_append.mpr
          refine ⟨hf.nnd, by simp, ?_⟩
          intro a ha b hb
          simp only [List.mem_singleton] at hb
          subst hb
          intro e; subst e
          exact hk ((hf.nmem _).mp ha)
        · intro n
          rw [List.mem_append, List.mem_singleton, mem_keys_put, hf.nmem n]
          exact Or.comm

/-! ### `drop_not_completed()` (all) -/

theorem nodup_map_of_inj_on {l : List Str} (f : Str → Str) (h : ∀ x ∈ l, ∀ y ∈ l, f x = f y → x = y)
    (hn : l.Nodup) : (l.map f).Nodup := by
  induction l with
  | nil => simp
  | cons a l ih =>
    obtain ⟨ha, hl⟩ := List.nodup_cons.mp hn
    simp only [List.map_cons]
    apply List.nodup_cons.mpr
    constructor
    · intro hm
      obtain ⟨b, hb, e⟩ := List.mem_map.mp hm
      have := h a (by simp) b (List.mem_cons_of_mem _ hb) e.symm
      exact ha (this ▸ hb)
    · exact ih (fun x hx y hy => h x (List.mem_cons_of_mem _ hx) y (List.mem_cons_of_mem _ hy)) hl

theorem dict_eta_nc (d : Dict D) (h : d.notCompleted = []) : ({ d with notCompleted := [] } : Dict D) = d := by
  cases d; simp_all

theorem dropAll_sim (hy : hyg sfx ids = true) (h : Sim H sfx ids lost s d) :
    Sim H sfx ids lost (dropNc s []).1 (specStep .directory sfx d (.drop [])) ∧
    (dropNc s []).2 = expectRes sfx d s.ncDir (.drop []) := by
  by_cases hr : s.mode = .r
  · have hm : d.mode = .r := h.hmode ▸ hr
    have hrej : rejects .directory sfx d (.drop [] : Op D) = true := by rw [rej_drop]; simp [hm]
    rw [specStep_rej hrej, expect_rej hrej]
    unfold dropNc
    rw [if_pos hr]
    exact ⟨h, rfl⟩
  · have hm : d.mode ≠ .r := h.hmode ▸ hr
    have hrej : rejects .directory sfx d (.drop [] : Op D) = false := by rw [rej_drop]; simp [hm]
    have hacc : specStep .directory sfx d (.drop [] : Op D) = { d with notCompleted := [] } := by
      rw [specStep_acc hrej]; simp [DataStoreDict.apply]
    rw [hacc]
    have p := dropPre_of_sim hy h
    obtain ⟨hnd, hmem⟩ := populateNc_pre hy p
    unfold dropNc
    rw [if_neg hr]
    simp only [dropKey_nil]
    by_cases hdir : s.ncDir = true
    · -- the directory exists: every listed record is removed, then the directory
      have hexp : expectRes sfx d s.ncDir (.drop [] : Op D) = .done none := by
        simp [expectRes, hrej, hdir]
      rw [hexp]
      have hinj : ((populateNc s).ncCache.map dropMd5).Nodup := by
        apply nodup_map_of_inj_on _ _ hnd
        intro x hx y hy' e
        obtain ⟨j, hj, rfl⟩ := p.from_ x ((hmem x).mp hx)
        obtain ⟨j', hj', rfl⟩ := p.from_ y ((hmem y).mp hy')
        rw [(hyg_id hy hj).dmd5, (hyg_id hy hj').dmd5] at e
        exact (hyg_pair hy hj hj').mdN e
      have hhas : ∀ m ∈ (populateNc s).ncCache, has (populateNc s).nc m = true ∧ has (populateNc s).md5 (dropMd5 m) = true := by
        intro m hm'
        have := (hmem m).mp hm'
        simp only [populateNc_nc, populateNc_md5]
        exact ⟨has_true_of_mem this, p.md m this⟩
      obtain ⟨s', e, q1, q2, q3, q4, q5, q5a, q5b, q6, q7⟩ :=
        dropLoop_all (populateNc s).ncCache (populateNc s) hnd hinj hhas
      rw [e]
      have hnil : s'.nc = [] := by
        apply eq_nil_of_keys
        intro x hx
        have := (mem_keys_iff _ _).mp hx
        rw [q6 x] at this
        by_cases hxm : x ∈ (populateNc s).ncCache
        · simp [hxm] at this
        · simp only [hxm, if_false, populateNc_nc] at this
          exact hxm ((hmem x).mpr ((mem_keys_iff _ _).mpr this))
      have hd' : s'.ncDir = true := by rw [q4]; simpa using hdir
      simp only [dropFinish, List.isEmpty_nil, Bool.not_true, Bool.false_eq_true, if_false, hd', hnil]
      refine ⟨⟨?_, ?_, ?_, ?_, ?_, ?_, h.ndC, by simp [keys], h.fromC, by simp [keys], ?_, Or.inl rfl, ?_, ?_, ?_,
        h.lostSub, fun _ => rfl⟩, trivial⟩
      · show s'.mode = d.mode
        rw [q1]; simp [h.hmode]
      · show s'.sfx = sfx
        rw [q2]; simp [h.hsfx]
      · show s'.root = d.completed
        rw [q3]; simp [h.root]
      · rfl
      · show s'.logs = d.logs
        rw [q5a]; simp [h.logs]
      · show s'.logsDir = true
        rw [q5b]; simp [h.logsDir]
      · show s'.cCache = [] ∨ _
        rw [q5]; simpa using h.cacheC
      · intro n v hg; simp [KV.get] at hg
      · intro n v hg
        show get s'.md5 (mdOf sfx n) = _
        rw [q7 (mdOf sfx n)]
        have hnot : mdOf sfx n ∉ (populateNc s).ncCache.map dropMd5 := by
          intro hmm
          obtain ⟨m, hm', e'⟩ := List.mem_map.mp hmm
          have hmk : m ∈ keys d.notCompleted := h.nc ▸ (hmem m).mp hm'
          obtain ⟨j, hj, rfl⟩ := h.fromN m hmk
          rw [(hyg_id hy hj).dmd5] at e'
          exact h.md5X _ hmk n (mem_of_get_some hg) e'.symm
        simp only [hnot, if_false, populateNc_md5]
        exact h.md5C n v hg
      · intro n hn; simp [keys] at hn
    · -- the directory does not exist (nothing is listed); `rmdir` raises
      have hdf : s.ncDir = false := by simpa using hdir
      have hexp : expectRes sfx d s.ncDir (.drop [] : Op D) = .err .fileNotFound := by
        simp [expectRes, hrej, hdf]
      rw [hexp]
      have hdn : d.notCompleted = [] := h.ncDir hdf
      have hsn : s.nc = [] := by rw [h.nc]; exact hdn
      have hc : (populateNc s).ncCache = [] := by
        apply List.eq_nil_iff_forall_not_mem.mpr
        intro a ha
        have := (hmem a).mp ha
        rw [hsn] at this
        simp [keys] at this
      rw [hc]
      simp only [dropLoop, dropFinish, List.isEmpty_nil, Bool.not_true, Bool.false_eq_true, if_false,
        populateNc_ncDir, hdf, Bool.not_false, if_true]
      rw [dict_eta_nc d hdn, populateNc_eq s, hc]
      exact ⟨sim_congr h rfl rfl rfl rfl rfl h.logsDir rfl id h.cacheC (Or.inl rfl), trivial⟩

/-! ### the remaining operations, one step, whole histories -/

@[simp] theorem populateC_logs' (s : Dir D) : (populateC s).logs = s.logs := by unfold populateC; split <;> rfl
@[simp] theorem populateC_logsDir (s : Dir D) : (populateC s).logsDir = s.logsDir := by unfold populateC; split <;> rfl
@[simp] theorem populate_logs (s : Dir D) : (populate s).logs = s.logs := by simp [populate]
@[simp] theorem populate_logsDir (s : Dir D) : (populate s).logsDir = s.logsDir := by simp [populate]

theorem writeLog_sim (hy : hyg sfx ids = true) (h : Sim H sfx ids lost s d) (i : Str) (data : D)
    (hfile : (resolve sfx sLog i).file = logName .directory i)
    (hslash : (resolve sfx sLog i).file.contains '/' = false)
    (hpre : startsWith (resolve sfx sLog i).chk1 ncPrefix = false)
    (happ : d.mode = .a → (resolve sfx sLog i).chk1 ∉ keys d.completed) :
    Sim H sfx ids lost (writeLog cfg H s i data).1 (specStep .directory sfx d (.writeLog i data)) ∧
    (writeLog cfg H s i data).2 = expectRes sfx d s.ncDir (.writeLog i data) := by
  unfold writeLog
  by_cases hr : s.mode = .r
  · have hrej : rejects .directory sfx d (.writeLog i data) = true := by
      rw [rej_writeLog]; simp [← h.hmode, hr]
    rw [specStep_rej hrej, expect_rej hrej]
    by_cases hc : (cfg.roWriteNoMkdir && decide (s.mode = .r)) = true
    · rw [if_pos hc]; dsimp only; rw [writeCore_ro hr]
      exact ⟨h, rfl⟩
    · rw [if_neg hc]; dsimp only; rw [writeCore_ro (s := { s with logsDir := true }) hr]
      exact ⟨sim_logsDir_true h, rfl⟩
  · have hc' : (cfg.roWriteNoMkdir && decide (s.mode = .r)) = false := by simp [hr]
    simp only [hc', Bool.false_eq_true, if_false]
    have h0 := sim_logsDir_true h
    obtain ⟨hs', hf⟩ := sim_populate hy h0
    have hm : d.mode ≠ .r := h.hmode ▸ hr
    have hrej : rejects .directory sfx d (.writeLog i data) = false := by rw [rej_writeLog]; simp [hm]
    have hacc : specStep .directory sfx d (.writeLog i data) =
        { d with logs := put d.logs (logName .directory i) data } := by
      rw [specStep_acc hrej]; rfl
    have hexp : expectRes sfx d s.ncDir (.writeLog i data) = .done none := by simp [expectRes, hrej]
    rw [hacc, hexp]
    have hsx : (populate ({ s with logsDir := true } : Dir D)).sfx = sfx := hs'.hsfx
    have hmo : (populate ({ s with logsDir := true } : Dir D)).mode = s.mode := by rw [hs'.hmode, h.hmode]
    have hcont : (contains (populate ({ s with logsDir := true } : Dir D)) (resolve sfx sLog i).chk1 && decide (s.mode = .a)) = false := by
      cases hb : contains (populate ({ s with logsDir := true } : Dir D)) (resolve sfx sLog i).chk1 with
      | false => rfl
      | true =>
        have hmem := (contains_iff hf _ hpre).mp hb
        have hna : ¬ s.mode = .a := fun e => happ (h.hmode ▸ e) hmem
        simp [hna]
    have hsl : ¬ '/' ∈ (resolve sfx sLog i).file := by
      simpa [List.contains_eq_mem] using hslash
    have hr' : ¬ ({ s with logsDir := true } : Dir D).mode = .r := hr
    have hres : writeCore cfg H ({ s with logsDir := true } : Dir D) .logs i sLog data =
        ({ populate ({ s with logsDir := true } : Dir D) with
            logs := put (populate ({ s with logsDir := true } : Dir D)).logs (resolve sfx sLog i).file data },
         .done none) := by
      unfold writeCore
      rw [if_neg hr']
      simp [hsx, hmo, hcont, writeBody, writeFile, hsl]
    rw [hres]
    refine ⟨?_, rfl⟩
    exact ⟨hs'.hmode, hs'.hsfx, hs'.root, hs'.nc, by rw [hfile]; show put (populate _).logs _ _ = _; rw [hs'.logs],
      hs'.logsDir, h.ndC, h.ndN, h.fromC, h.fromN, hs'.cacheC, hs'.cacheN, hs'.md5N, hs'.md5C, h.md5X, h.lostSub, hs'.ncDir⟩

theorem reopen_sim (h : Sim H sfx ids lost s d) (m : Mode) :
    Sim H sfx ids lost (reopen cfg s m) (specStep .directory sfx d (.reopen m)) := by
  have : specStep .directory sfx d (.reopen m : Op D) = { d with mode := m } := by
    simp [specStep, rejects, DataStoreDict.apply]
  rw [this]
  refine ⟨rfl, h.hsfx, h.root, h.nc, h.logs, ?_, h.ndC, h.ndN, h.fromC, h.fromN, Or.inl rfl, Or.inl rfl, h.md5N, h.md5C,
    h.md5X, h.lostSub, ?_⟩
  · show (s.logsDir || _) = true
    simp [h.logsDir]
  · intro hd
    have hd' : (s.ncDir || !(cfg.roOpenNoMkdir && m == .r)) = false := hd
    have : s.ncDir = false := by
      cases hs : s.ncDir with
      | false => rfl
      | true => simp [hs] at hd'
    exact h.ncDir this

theorem has_false_iff {m : KV D} {k : Str} : has m k = false ↔ k ∉ keys m :=
  ⟨not_mem_of_has_false, has_false_of_not_mem⟩

theorem lost_other {op : Op D} (h : ∀ i data, op ≠ .write i data) : lostStep sfx d lost op = lost := by
  cases op <;> simp_all [lostStep]

/-- one operation preserves the simulation, and returns / raises what the dictionary model says -/
theorem step_sim (hy : hyg sfx ids = true) (h : Sim H sfx ids lost s d) (op : Op D)
    (hs : safe sfx ids d op = true) :
    Sim H sfx ids (lostStep sfx d lost op) (step cfg H s op).1 (specStep .directory sfx d op) ∧
    (step cfg H s op).2 = expectRes sfx d s.ncDir op := by
  cases op with
  | write i data =>
    simp only [safe, Bool.and_eq_true, Bool.or_eq_true, List.contains_iff_mem, bne_iff_ne, ne_eq,
      Bool.not_eq_true', has_false_iff] at hs
    apply write_sim hy h data hs.1
    intro hw
    rcases hs.2 with h1 | h1
    · exact absurd hw h1
    · exact h1
  | writeNc i data =>
    simp only [safe, Bool.and_eq_true, Bool.or_eq_true, List.contains_iff_mem, bne_iff_ne, ne_eq,
      Bool.not_eq_true', has_false_iff] at hs
    obtain ⟨⟨⟨h1, h2⟩, h3⟩, h4⟩ := hs
    rw [lost_other (by intro i' d' e; cases e)]
    apply writeNc_sim hy h data h1 _ _ h4
    · intro ha
      rcases h2 with h2 | h2
      · exact absurd ha h2
      · exact h2
    · intro hw
      rcases h3 with h3 | h3
      · exact absurd hw h3
      · exact h3
  | writeLog i data =>
    simp only [safe, Bool.and_eq_true, Bool.or_eq_true, bne_iff_ne, ne_eq, Bool.not_eq_true', has_false_iff,
      decide_eq_true_eq] at hs
    obtain ⟨⟨⟨h1, h2⟩, h3⟩, h4⟩ := hs
    rw [lost_other (by intro i' d' e; cases e)]
    apply writeLog_sim hy h i data h1 h2 h3
    intro ha
    rcases h4 with h4 | h4
    · exact absurd ha h4
    · exact h4
  | drop i =>
    simp only [safe, Bool.or_eq_true, List.contains_iff_mem, List.isEmpty_iff] at hs
    rw [lost_other (by intro i' d' e; cases e)]
    rcases hs with h1 | h1
    · subst h1; exact dropAll_sim hy h
    · exact drop_sim hy h h1
  | reopen m =>
    rw [lost_other (by intro i' d' e; cases e)]
    exact ⟨reopen_sim h m, by simp [step, expectRes, rejects]⟩
  | observe =>
    have : specStep .directory sfx d (.observe : Op D) = d := by simp [specStep, rejects, DataStoreDict.apply]
    rw [this, lost_other (by intro i' d' e; cases e)]
    exact ⟨(sim_populate hy h).1, by simp [step, expectRes, rejects]⟩
  | unlock =>
    have : specStep .directory sfx d (.unlock : Op D) = d := by simp [specStep, rejects, DataStoreDict.apply]
    rw [this, lost_other (by intro i' d' e; cases e)]
    exact ⟨h, by simp [step, expectRes, rejects]⟩

/-- whole histories -/
theorem run_sim (hy : hyg sfx ids = true) (ops : List (Op D)) :
    ∀ (s : Dir D) (d : Dict D) (lost : List Str), Sim H sfx ids lost s d → safeHist sfx ids d ops = true →
      Sim H sfx ids (lostRun sfx d lost ops) (run cfg H s ops) (specRun .directory sfx d ops) := by
  induction ops with
  | nil => intro s d lost h _; exact h
  | cons op ops ih =>
    intro s d lost h hs
    simp only [safeHist, Bool.and_eq_true] at hs
    exact ih _ _ _ (step_sim hy h op hs.1).1 hs.2

theorem sim_create (mode : Mode) : Sim H sfx ids [] (Dir.create mode sfx : Dir D) (Dict.empty mode) := by
  refine ⟨rfl, rfl, rfl, rfl, rfl, rfl, ?_, ?_, ?_, ?_, Or.inl rfl, Or.inl rfl, ?_, ?_, ?_, ?_, fun _ => rfl⟩
  all_goals simp [Dict.empty, keys, KV.get]

/-! ### what a simulation says about the observations -/

/-- Observations of a store whose caches have just been read (`populate`): the listed completed /
not-completed ids are exactly the dictionary's keys, without repetition; `read()` returns the
dictionary's value; the log records are the dictionary's; the not-completed checksums are those of
the content; a completed member's checksum is that of its content, except (exactly) for the
records in `lost`, whose md5 file is missing. -/
theorem obs_of_sim (hy : hyg sfx ids = true) (h : Sim H sfx ids lost s d) :
    let s' := populate s
    s'.cCache.Nodup ∧ (∀ n, n ∈ s'.cCache ↔ n ∈ keys d.completed) ∧
    s'.ncCache.Nodup ∧ (∀ n, n ∈ s'.ncCache ↔ n ∈ keys d.notCompleted) ∧
    (∀ n, get s'.root n = get d.completed n) ∧ (∀ n, get s'.nc n = get d.notCompleted n) ∧
    obsLogs s' = d.logs ∧
    (∀ n v, get d.notCompleted n = some v → get s'.md5 (md5Lookup s'.sfx n) = some (H v)) ∧
    (∀ n v, get d.completed n = some v →
      get s'.md5 (md5Lookup s'.sfx n) = if n ∈ lost then none else some (H v)) := by
  obtain ⟨hs', hf⟩ := sim_populate hy h
  refine ⟨hf.cnd, hf.cmem, hf.nnd, hf.nmem, ?_, ?_, ?_, ?_, ?_⟩
  · intro n; rw [hs'.root]
  · intro n; rw [hs'.nc]
  · simp [obsLogs, h.logsDir, h.logs]
  · intro n v hg; rw [hs'.hsfx]; exact hs'.md5N n v hg
  · intro n v hg; rw [hs'.hsfx]; exact hs'.md5C n v hg

/-! ### small helpers for `Props/C13.lean` -/

theorem safeHist_append_reopen (sfx : Str) (ids : List Str) (m : Mode) (ops : List (Op D)) :
    ∀ d : Dict D, safeHist sfx ids d (ops ++ [.reopen m]) = safeHist sfx ids d ops := by
  induction ops with
  | nil => intro d; simp [safeHist, safe]
  | cons op ops ih => intro d; simp [safeHist, ih]

theorem specRun_append_reopen (sfx : Str) (m : Mode) (ops : List (Op D)) : ∀ d0 : Dict D,
    (specRun .directory sfx d0 (ops ++ [.reopen m])).completed = (specRun .directory sfx d0 ops).completed ∧
    (specRun .directory sfx d0 (ops ++ [.reopen m])).notCompleted = (specRun .directory sfx d0 ops).notCompleted ∧
    (specRun .directory sfx d0 (ops ++ [.reopen m])).logs = (specRun .directory sfx d0 ops).logs := by
  induction ops with
  | nil => intro d0; simp [specRun, specStep, rejects, DataStoreDict.apply]
  | cons op ops ih => intro d0; simp only [List.cons_append, specRun]; exact ih _

theorem lostRun_append_reopen (sfx : Str) (m : Mode) (ops : List (Op D)) : ∀ (d0 : Dict D) (l : List Str),
    lostRun sfx d0 l (ops ++ [.reopen m]) = lostRun sfx d0 l ops := by
  induction ops with
  | nil => intro d0 l; simp [lostRun, lostStep]
  | cons op ops ih => intro d0 l; simp only [List.cons_append, lostRun]; exact ih _ _

@[simp] theorem populateC_root (s : Dir D) : (populateC s).root = s.root := by unfold populateC; split <;> rfl
@[simp] theorem populateC_md5 (s : Dir D) : (populateC s).md5 = s.md5 := by unfold populateC; split <;> rfl
@[simp] theorem populateC_logs (s : Dir D) : (populateC s).logs = s.logs := by unfold populateC; split <;> rfl

end CogentModel.DataStore
