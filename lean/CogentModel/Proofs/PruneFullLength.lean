import Mathlib.Data.List.Basic
import Mathlib.Data.List.GetD
import CogentModel.Proofs.PruneCompress
/-!
Helper lemmas for C02, part 4: `likelihoods[self.index]` (get_full_length_likelihoods) gives every
alignment column the value of its own pattern.
-/
namespace CogentModel.Prune

section
variable {κ S : Type} [DecidableEq κ] [Zero S]

/-- invariant of the `_indexed` loop after the columns `done` have been processed -/
def IndexInv (g : κ → S) (st : Indexed κ) (done : List κ) : Prop :=
  (∀ i ∈ st.index, i < st.uniq.length) ∧
  st.index.map (fun i => (st.uniq.map g).getD i 0) = done.map g

theorem indexedStep_indexInv (g : κ → S) (st : Indexed κ) (done : List κ) (key : κ)
    (h : IndexInv g st done) : IndexInv g (indexedStep st key) (done ++ [key]) := by
  obtain ⟨hb, hm⟩ := h
  unfold indexedStep
  by_cases hi : st.uniq.idxOf key < st.uniq.length
  · simp only [hi, if_true]
    refine ⟨?_, ?_⟩
    · intro i hi'
      simp only [List.mem_append, List.mem_singleton] at hi'
      rcases hi' with h1 | h1
      · exact hb i h1
      · subst h1; exact hi
    · simp only [List.map_append, hm, List.map_cons, List.map_nil]
      congr 2
      rw [List.getD_eq_getElem (hn := by simpa using hi)]
      simp [List.getElem_idxOf hi]
  · simp only [hi, if_false]
    refine ⟨?_, ?_⟩
    · intro i hi'
      simp only [List.mem_append, List.mem_singleton] at hi'
      simp only [List.length_append, List.length_singleton]
      rcases hi' with h1 | h1
      · exact Nat.lt_succ_of_lt (hb i h1)
      · omega
    · simp only [List.map_append, List.map_cons, List.map_nil]
      congr 1
      · rw [← hm]
        refine List.map_congr_left fun i hi' => ?_
        have := hb i hi'
        rw [List.getD_append _ _ _ _ (by simpa using this)]
      · rw [List.getD_append_right _ _ _ _ (by simp)]; simp

theorem indexedGo_indexInv (g : κ → S) : ∀ (vals : List κ) (st : Indexed κ) (done : List κ),
    IndexInv g st done → IndexInv g (indexedGo vals st) (done ++ vals)
  | [], st, done, h => by simpa [indexedGo] using h
  | key :: rest, st, done, h => by
    have := indexedGo_indexInv g rest _ _ (indexedStep_indexInv g st done key h)
    simpa [indexedGo] using this

theorem fullLength_eq (g : κ → S) (cols : List κ) : fullLength g cols = cols.map g := by
  have h := indexedGo_indexInv g cols { uniq := [], counts := [], index := [] } []
    ⟨by simp, by simp⟩
  simpa [fullLength, indexed] using h.2

end
end CogentModel.Prune
