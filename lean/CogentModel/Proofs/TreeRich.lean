import CogentModel.Model.TreeRich
/-! Helper lemmas for the C10 tree rich-dict round trip. -/
namespace CogentModel.TreeRich

theorem dictGet_set_same {β} (d : List (String × β)) (k : String) (v : β) :
    dictGet (dictSet d k v) k = some v := by
  induction d with
  | nil => simp [dictSet, dictGet]
  | cons p d ih =>
    obtain ⟨k', v'⟩ := p
    by_cases h : k' = k
    · simp [dictSet, dictGet, h]
    · simp [dictSet, dictGet, h, ih]

theorem dictGet_set_other {β} (d : List (String × β)) (k k2 : String) (v : β) (h : k2 ≠ k) :
    dictGet (dictSet d k v) k2 = dictGet d k2 := by
  induction d with
  | nil =>
    have : ¬ k = k2 := fun e => h e.symm
    simp [dictSet, dictGet, this]
  | cons p d ih =>
    obtain ⟨k', v'⟩ := p
    by_cases h1 : k' = k
    · subst h1
      have : ¬ k' = k2 := fun e => h e.symm
      simp [dictSet, dictGet, this]
    · by_cases h2 : k' = k2
      · subst h2
        simp [dictSet, dictGet, h1]
      · simp [dictSet, dictGet, h1, h2, ih]

/-- the attribute dict built by assignment in traversal order: with unique names every node finds its own entry,
and keys that are not node names are untouched -/
theorem foldl_attrs {V} (t : List (NodeRec V)) :
    ∀ (d : List (String × Attr V)), (names t).Nodup →
      (∀ n ∈ t, dictGet (t.foldl (fun d n => dictSet d n.name (n.length, n.params)) d) n.name
          = some (n.length, n.params)) ∧
      (∀ k, k ∉ names t → dictGet (t.foldl (fun d n => dictSet d n.name (n.length, n.params)) d) k = dictGet d k) := by
  induction t with
  | nil => intro d _; simp [names]
  | cons a t ih =>
    intro d hnd
    simp only [names, List.map_cons, List.nodup_cons] at hnd
    obtain ⟨ha, hnd⟩ := hnd
    obtain ⟨h1, h2⟩ := ih (dictSet d a.name (a.length, a.params)) hnd
    refine ⟨?_, ?_⟩
    · intro n hn
      simp only [List.mem_cons] at hn
      rcases hn with rfl | hn
      · simp only [List.foldl_cons]
        rw [h2 _ ha, dictGet_set_same]
      · simpa only [List.foldl_cons] using h1 n hn
    · intro k hk
      simp only [names, List.map_cons, List.mem_cons, not_or] at hk
      simp only [List.foldl_cons]
      rw [h2 k hk.2, dictGet_set_other _ _ _ _ hk.1]

theorem attrs_lookup {V} (t : List (NodeRec V)) (hnd : (names t).Nodup) :
    ∀ n ∈ t, dictGet (edgeAttributes t) n.name = some (n.length, n.params) :=
  (foldl_attrs t [] hnd).1

/-- a name that is neither "" nor already used is taken as it is -/
theorem uniqueName_fresh (fuel : Nat) (used : Used) (n : String) (hne : n ≠ "") (hfree : dictGet used n = none) :
    uniqueName (fuel + 1) used n = (n, dictSet used n 1) := by
  simp [uniqueName, hne, hfree]

/-- with unique, unreserved names and a root called "root" the parser gives every node its own name back -/
theorem parseNames_id {V} (t : List (NodeRec V)) :
    ∀ (used : Used), (names t).Nodup → (∀ n ∈ names t, n ≠ "") →
      (names t).getLast? = some "root" →
      (∀ n ∈ (names t).dropLast, dictGet used n = none) →
      parseNames used (printedNames t) = names t := by
  induction t with
  | nil => intro _ _ _ _ _; rfl
  | cons a t ih =>
    intro used hnd hne hlast hfree
    cases t with
    | nil =>
      simp only [names, List.map_cons, List.map_nil, List.getLast?_singleton, Option.some.injEq] at hlast
      simp [printedNames, parseNames, names, hlast]
    | cons b t =>
      have hnd' := hnd
      simp only [names, List.map_cons, List.nodup_cons] at hnd'
      have ha_ne : a.name ≠ "" := hne a.name (by simp [names])
      have ha_free : dictGet used a.name = none := hfree a.name (by simp [names])
      have hstep : uniqueName (used.length + 2) used a.name = (a.name, dictSet used a.name 1) :=
        uniqueName_fresh _ used a.name ha_ne ha_free
      have hrec := ih (dictSet used a.name 1)
        (by simpa [names] using hnd'.2)
        (fun n hn => hne n (by simp only [names, List.map_cons, List.mem_cons] at hn ⊢; exact Or.inr hn))
        (by simpa [names, List.getLast?_cons_cons] using hlast)
        (by
          intro n hn
          have hn_mem : n ∈ names (b :: t) := (List.dropLast_sublist _).subset hn
          have hna : n ≠ a.name := by
            intro e; subst e
            exact hnd'.1 (by simpa [names] using hn_mem)
          rw [dictGet_set_other _ _ _ _ hna]
          exact hfree n (by simp only [names, List.map_cons, List.dropLast_cons_cons, List.mem_cons] at hn ⊢; exact Or.inr hn))
      obtain ⟨x, xs, hx⟩ : ∃ x xs, printedNames (b :: t) = x :: xs := by
        cases t <;> simp [printedNames]
      simp only [printedNames]
      rw [hx] at hrec ⊢
      simp only [parseNames, hstep]
      simp only [names, List.map_cons] at hrec ⊢
      rw [hrec]

theorem zipRebuild_id {V} (attrs : List (String × Attr V)) (t : List (NodeRec V))
    (h : ∀ n ∈ t, dictGet attrs n.name = some (n.length, n.params)) :
    zipRebuild attrs (names t) (t.map (·.arity)) = t := by
  induction t with
  | nil => rfl
  | cons a t ih =>
    have ha := h a (by simp)
    simp only [names, List.map_cons, zipRebuild, rebuild, ha]
    congr 1
    exact ih (fun n hn => h n (by simp [hn]))

/-- the round trip of the rich dict of a tree is the identity on every tree whose node names are unique,
not one of the builder's reserved spellings, and whose root is called "root" -/
theorem roundtrip_id {V} (t : List (NodeRec V)) (h : WF t) : roundtrip t = t := by
  obtain ⟨hnd, hres, hroot⟩ := h
  have hp : parseNames [("edge", -1)] (printedNames t) = names t := by
    apply parseNames_id t _ hnd (fun n hn => (hres n hn).1) hroot
    intro n hn
    have := (hres n ((List.dropLast_sublist _).subset hn)).2
    have hne : ¬ "edge" = n := fun e => this e.symm
    simp [dictGet, hne]
  simp only [roundtrip, fromRich, toRich, hp]
  exact zipRebuild_id _ t (attrs_lookup t hnd)

end CogentModel.TreeRich
