/-
  C18 / gap merging, part E: the repaired `_gaps_for_injection`: `seq_position` maps an alignment column to the
  residue whose gap run contains it, and the injection loop adds each reference gap to that run.
-/
import CogentModel.Proofs.GapCombined
namespace CogentModel.GapMerge

/-- first column of the gap run in front of residue `r` (with `tot` extra columns to the left) -/
def startZ (g : Gaps) (r : Int) : Int := r + sumLt g r

/-- lower bound: the position returned is at least `q0` when the column and all remaining gaps are -/
theorem seqPosAt_ge (s : Gaps) : ∀ (tot c q0 : Int), (∀ e ∈ s, q0 ≤ e.1) → q0 ≤ c - tot → q0 ≤ seqPosAt s tot c := by
  induction s with
  | nil => intro tot c q0 _ h; simpa [seqPosAt] using h
  | cons e r ih =>
    intro tot c q0 hk h
    obtain ⟨q, l⟩ := e
    have hq : q0 ≤ q := hk (q, l) List.mem_cons_self
    simp only [seqPosAt]
    split
    · exact h
    · split
      · exact hq
      · rename_i h1 h2
        exact ih (tot + l) c q0 (fun e he => hk e (List.mem_cons_of_mem _ he)) (by omega)

/-- **window lemma**: column `c` lies in the gap run (or on the residue) of the position `seq_position` returns -/
theorem seqPosAt_window (s : Gaps) (hs : SortedLT s) (hpos : ∀ e ∈ s, 0 < e.2) : ∀ (tot c : Int),
    seqPosAt s tot c + tot + sumLt s (seqPosAt s tot c) ≤ c ∧
    c ≤ seqPosAt s tot c + tot + sumLt s (seqPosAt s tot c) + gl s (seqPosAt s tot c) := by
  induction s with
  | nil => intro tot c; simp [seqPosAt, sumLt, sumIf, gl, dget]
  | cons e r ih =>
    intro tot c
    obtain ⟨q, l⟩ := e
    simp only [SortedLT, List.pairwise_cons] at hs
    have hl : 0 < l := hpos (q, l) List.mem_cons_self
    have hnn : ∀ e ∈ (q, l) :: r, 0 ≤ e.2 := fun e he => by have := hpos e he; omega
    have hrest : ∀ k ∈ keys r, q < k := fun k hk => by
      obtain ⟨e', he', hk'⟩ := List.mem_map.mp hk
      have := hs.1 e' he'; omega
    simp only [seqPosAt]
    split
    · rename_i h1
      -- column at or before the gap start
      have hz : sumLt ((q, l) :: r) (c - tot) = 0 := sumLt_all_ge _ _ (fun k hk => by
        simp only [keys_cons, List.mem_cons] at hk
        rcases hk with rfl | hk
        · omega
        · have := hrest k hk; omega)
      have := gl_nonneg ((q, l) :: r) hnn (c - tot)
      omega
    · split
      · rename_i h1 h2
        have hz : sumLt ((q, l) :: r) q = 0 := sumLt_all_ge _ _ (fun k hk => by
          simp only [keys_cons, List.mem_cons] at hk
          rcases hk with rfl | hk
          · omega
          · have := hrest k hk; omega)
        have hg : gl ((q, l) :: r) q = l := by simp [gl, dget]
        omega
      · rename_i h1 h2
        have ih' := ih hs.2 (fun e he => hpos e (List.mem_cons_of_mem _ he)) (tot + l) c
        have hge := seqPosAt_ge r (tot + l) c q (fun e he => by have := hs.1 e he; omega) (by omega)
        generalize seqPosAt r (tot + l) c = x at ih' hge
        by_cases hx : x = q
        · rw [hx] at ih' ⊢
          have hz : sumLt ((q, l) :: r) q = 0 := sumLt_all_ge _ _ (fun k hk => by
            simp only [keys_cons, List.mem_cons] at hk
            rcases hk with rfl | hk
            · omega
            · have := hrest k hk; omega)
          have hg : gl ((q, l) :: r) q = l := by simp [gl, dget]
          have hz' : sumLt r q = 0 := sumLt_all_ge _ _ (fun k hk => by have := hrest k hk; omega)
          have hg' : gl r q = 0 := by
            have : dget r q = none := (dget_none_iff r q).mpr (fun hk => by have := hrest q hk; omega)
            simp [gl, this]
          omega
        · have hlt : q < x := by omega
          have h3 : sumLt ((q, l) :: r) x = l + sumLt r x := by simp [sumLt, sumIf, hlt]
          have h4 : gl ((q, l) :: r) x = gl r x := by
            have : ¬ q = x := by omega
            simp [gl, dget, this]
          omega

/-- the windows of different positions are disjoint -/
theorem window_unique (g : Gaps) (hnd : (keys g).Nodup) (hnn : ∀ e ∈ g, 0 ≤ e.2) (c r r' : Int)
    (h1 : startZ g r ≤ c) (h2 : c ≤ startZ g r + gl g r) (h3 : startZ g r' ≤ c) (h4 : c ≤ startZ g r' + gl g r') :
    r = r' := by
  unfold startZ at *
  by_cases h : r = r'
  · exact h
  · rcases Int.lt_or_gt_of_ne h with hlt | hlt
    · have := sumLt_succ g hnd r
      have := sumLt_mono g hnn (r + 1) r' (by omega)
      omega
    · have := sumLt_succ g hnd r'
      have := sumLt_mono g hnn (r' + 1) r (by omega)
      omega

/-! ### the loop -/

theorem injectLoop_ok (a2s : GapOffset) (sO : Gaps) (len : Int) (ds : Gaps) : ∀ all : Gaps,
    (∀ e ∈ ds, 0 ≤ min len (seqPosAt sO 0 e.1)) →
    ∃ res, injectLoop true a2s sO len ds all = .ok res ∧
      ∀ r, gl res r = gl all r + sumIf (fun c => decide (min len (seqPosAt sO 0 c) = r)) ds := by
  induction ds with
  | nil => intro all _; exact ⟨all, rfl, fun r => by simp [sumIf]⟩
  | cons e rest ih =>
    intro all hpos
    obtain ⟨gp, gv⟩ := e
    have h0 := hpos (gp, gv) List.mem_cons_self
    simp only at h0
    simp only [injectLoop, injectPos, if_true]
    rw [if_neg (by omega)]
    obtain ⟨res, hres, hgl⟩ := ih (dset all (min len (seqPosAt sO 0 gp))
      (match dget all (min len (seqPosAt sO 0 gp)) with | some x => gv + x | none => gv))
      (fun e he => hpos e (List.mem_cons_of_mem _ he))
    refine ⟨res, hres, fun r => ?_⟩
    rw [hgl r, gl_dset]
    simp only [sumIf]
    by_cases hr : r = min len (seqPosAt sO 0 gp)
    · subst hr
      simp only [if_true, decide_true]
      cases hd : dget all (min len (seqPosAt sO 0 gp)) with
      | none => simp [gl, hd]
      | some x => simp [gl, hd]; omega
    · have : ¬ min len (seqPosAt sO 0 gp) = r := fun e => hr e.symm
      simp [hr, this]

end CogentModel.GapMerge
