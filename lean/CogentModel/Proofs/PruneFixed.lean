import Mathlib.Algebra.BigOperators.Ring.Finset
import CogentModel.Model.PruneFixed
import CogentModel.Proofs.Prune
import CogentModel.Proofs.PruneLinear
/-!
Helper lemmas for `Model/PruneFixed.lean`: a transformation applied to the partial-likelihood vector of one internal
node (the fixed-motif mask, an extra leaf below the node).
-/
namespace CogentModel.PruneFixed
open CogentModel.Prune Finset

section semiring
variable {R : Type} [CommSemiring R] {α : Type}

theorem mulVec_get (m : Nat) (u r : Vec R) (x : Nat) : (mulVec m u r).get x = u.get x * r.get x := by
  simp [mulVec]

theorem upWith_get (m : Nat) (P : Mat R) (v : Vec R) (x : Nat) :
    (upWith m P v).get x = ∑ s' ∈ range m, P x s' * v.get s' := by
  simp [upWith, sumOver_eq]

theorem maskVec_get (m s : Nat) (v : Vec R) (x : Nat) : (maskVec m s v).get x = if x = s then v.get x else 0 := by
  simp [maskVec]

/-! ### no transformation: the plain recursion -/
mutual
theorem plhMod_id (m : Nat) (prof : α → Nat → R) :
    ∀ (path : List Nat) (t : PTree R α), plhMod m prof id path t = plh m prof t
  | _, .leaf _ _ => by simp [plhMod, plh]
  | [], .node _ cs => by simp [plhMod, plh]
  | i :: path, .node _ cs => by
    rw [plhMod, plh_node]
    exact prodUpMod_id m prof i path cs
theorem prodUpMod_id (m : Nat) (prof : α → Nat → R) :
    ∀ (i : Nat) (path : List Nat) (cs : List (PTree R α)), prodUpMod m prof id i path cs = prodUp m prof cs
  | _, _, [] => by simp [prodUpMod, prodUp]
  | 0, path, c :: cs => by
    rw [prodUpMod, plhMod_id m prof path c, prodUp]
  | i + 1, path, c :: cs => by
    rw [prodUpMod, prodUpMod_id m prof i path cs, prodUp]
end

/-! ### two transformations that agree on the states `< m` -/
mutual
theorem plhMod_congr (m : Nat) (prof : α → Nat → R) (f g : Vec R → Vec R)
    (h : ∀ v x, x < m → (f v).get x = (g v).get x) :
    ∀ (path : List Nat) (t : PTree R α) (x : Nat), x < m →
      (plhMod m prof f path t).get x = (plhMod m prof g path t).get x
  | _, .leaf _ _, x, _ => by simp [plhMod]
  | [], .node _ cs, x, hx => by
    simp only [plhMod]
    exact h _ x hx
  | i :: path, .node _ cs, x, hx => by
    simp only [plhMod]
    exact prodUpMod_congr m prof f g h i path cs x hx
theorem prodUpMod_congr (m : Nat) (prof : α → Nat → R) (f g : Vec R → Vec R)
    (h : ∀ v x, x < m → (f v).get x = (g v).get x) :
    ∀ (i : Nat) (path : List Nat) (cs : List (PTree R α)) (x : Nat), x < m →
      (prodUpMod m prof f i path cs).get x = (prodUpMod m prof g i path cs).get x
  | _, _, [], x, _ => by simp [prodUpMod]
  | 0, path, c :: cs, x, hx => by
    simp only [prodUpMod, mulVec_get, upWith_get]
    congr 1
    refine Finset.sum_congr rfl fun s' hs' => ?_
    rw [plhMod_congr m prof f g h path c s' (Finset.mem_range.mp hs')]
  | i + 1, path, c :: cs, x, hx => by
    simp only [prodUpMod, mulVec_get]
    rw [prodUpMod_congr m prof f g h i path cs x hx]
end

/-! ### a family of transformations that sum to `g` on the states `< m`, applied at an existing internal node -/
mutual
theorem plhMod_sum {ι : Type} (m : Nat) (prof : α → Nat → R) (K : Finset ι) (fs : ι → Vec R → Vec R) (g : Vec R → Vec R)
    (h : ∀ v x, x < m → ∑ k ∈ K, (fs k v).get x = (g v).get x) :
    ∀ (path : List Nat) (t : PTree R α), isInternalAt path t = true → ∀ (x : Nat), x < m →
      ∑ k ∈ K, (plhMod m prof (fs k) path t).get x = (plhMod m prof g path t).get x
  | _, .leaf _ _, hv, _, _ => by simp [isInternalAt] at hv
  | [], .node _ cs, _, x, hx => by
    simp only [plhMod]
    exact h _ x hx
  | i :: path, .node _ cs, hv, x, hx => by
    simp only [plhMod]
    exact prodUpMod_sum m prof K fs g h i path cs (by simpa [isInternalAt] using hv) x hx
theorem prodUpMod_sum {ι : Type} (m : Nat) (prof : α → Nat → R) (K : Finset ι) (fs : ι → Vec R → Vec R) (g : Vec R → Vec R)
    (h : ∀ v x, x < m → ∑ k ∈ K, (fs k v).get x = (g v).get x) :
    ∀ (i : Nat) (path : List Nat) (cs : List (PTree R α)), isInternalAtL i path cs = true → ∀ (x : Nat), x < m →
      ∑ k ∈ K, (prodUpMod m prof (fs k) i path cs).get x = (prodUpMod m prof g i path cs).get x
  | _, _, [], hv, _, _ => by simp [isInternalAtL] at hv
  | 0, path, c :: cs, hv, x, hx => by
    simp only [prodUpMod, mulVec_get, upWith_get]
    rw [← Finset.sum_mul]
    congr 1
    rw [Finset.sum_comm]
    refine Finset.sum_congr rfl fun s' hs' => ?_
    rw [← Finset.mul_sum, plhMod_sum m prof K fs g h path c (by simpa [isInternalAtL] using hv) s' (Finset.mem_range.mp hs')]
  | i + 1, path, c :: cs, hv, x, hx => by
    simp only [prodUpMod, mulVec_get]
    rw [← Finset.mul_sum, prodUpMod_sum m prof K fs g h i path cs (by simpa [isInternalAtL] using hv) x hx]
end

/-! ### an extra subtree below the node = multiplying the node's vector by that subtree's contribution -/

omit [CommSemiring R] in
theorem addLeafAt_mat (l : PTree R α) : ∀ (path : List Nat) (t : PTree R α), (addLeafAt l path t).mat = t.mat
  | _, .leaf _ _ => by simp [addLeafAt, PTree.mat]
  | [], .node _ _ => by simp [addLeafAt, PTree.mat]
  | _ :: _, .node _ _ => by simp [addLeafAt, PTree.mat]

mutual
theorem plh_addLeafAt (m : Nat) (prof : α → Nat → R) (l : PTree R α) :
    ∀ (path : List Nat) (t : PTree R α),
      plh m prof (addLeafAt l path t) = plhMod m prof (fun v => mulVec m (up m prof l) v) path t
  | _, .leaf _ _ => by simp [addLeafAt, plhMod, plh]
  | [], .node _ cs => by simp [addLeafAt, plhMod, plh, prodUp, up]
  | i :: path, .node _ cs => by
    rw [addLeafAt, plh_node, plhMod]
    exact prodUp_addLeafAtL m prof l i path cs
theorem prodUp_addLeafAtL (m : Nat) (prof : α → Nat → R) (l : PTree R α) :
    ∀ (i : Nat) (path : List Nat) (cs : List (PTree R α)),
      prodUp m prof (addLeafAtL l i path cs) = prodUpMod m prof (fun v => mulVec m (up m prof l) v) i path cs
  | _, _, [] => by simp [addLeafAtL, prodUpMod, prodUp]
  | 0, path, c :: cs => by
    simp only [addLeafAtL, prodUp, prodUpMod, addLeafAt_mat]
    rw [plh_addLeafAt m prof l path c]
  | i + 1, path, c :: cs => by
    simp only [addLeafAtL, prodUp, prodUpMod]
    rw [prodUp_addLeafAtL m prof l i path cs]
end

/-- the likelihood only reads the root vector on the states `< m` -/
theorem dot_congr (m : Nat) (u v : Vec R) (π : Nat → R) (h : ∀ x, x < m → u.get x = v.get x) : dot m u π = dot m v π := by
  simp only [dot, sumOver_eq]
  refine Finset.sum_congr rfl fun x hx => ?_
  rw [h x (Finset.mem_range.mp hx)]

end semiring

end CogentModel.PruneFixed
