import CogentModel.Proofs.DistanceLemmas
import Mathlib.Tactic.SplitIfs
/-! Helper lemmas for C15: the loops of `_PairwiseDistance.run`, the duplicate aliasing and `_expand` (n sequences). -/
namespace CogentModel.Distance

/-- sequence `a` of the alignment (index array) -/
def sq (seqs : List (List Int)) (a : Nat) : List Int := seqs.getD a []

theorem beq_seq_eq (s1 s2 : List Int) (h : (s1 == s2) = true) : s1 = s2 := by simpa using h

theorem hasOffDiag_self (s : List Int) : hasOffDiag (countsOf s s) = false :=
  hasOffDiag_of_diagonal _ (countsOf_diagonal _ (zip_self_same s))

theorem cnt_swap' (cols : List Col) (x y : Int) : cnt (cols.map Prod.swap) x y = cnt cols y x := cnt_swap cols x y

theorem countsOf_swap (s₁ s₂ : List Int) : countsOf s₂ s₁ = tr (countsOf s₁ s₂) := by
  have hf : ofCounts (fill (s₂.zip s₁)) = tr (ofCounts (fill (s₁.zip s₂))) := by
    funext i j
    rw [zip_swap_int]
    show ((fill ((s₁.zip s₂).map Prod.swap) (i : Int) (j : Int) : Nat) : Rat) = ((fill (s₁.zip s₂) (j : Int) (i : Int) : Nat) : Rat)
    rw [fill_eq_cnt, fill_eq_cnt, cnt_swap]
  unfold countsOf
  rw [hf]
  funext i j
  by_cases h : i < 4 ∧ j < 4
  · rw [memo_apply _ i j h.1 h.2]; unfold tr; rw [memo_apply _ j i h.2 h.1]
  · rw [memo_out _ i j (by omega)]; unfold tr; rw [memo_out _ j i (by omega)]

theorem stat_tr (c : Calc) (m : M4) : stat c (tr m) = stat c m := by
  cases c
  · exact hammingStat_tr m
  · exact hammingStat_tr m
  · exact jc69Stat_tr m
  · exact tn93Stat_tr m
  · exact paralinearStat_tr m
  · exact logdetStat_tr true m
  · exact logdetStat_tr false m

theorem pairReport_symm (c : Calc) (s₁ s₂ : List Int) : pairReport c s₂ s₁ = pairReport c s₁ s₂ := by
  unfold pairReport
  rw [countsOf_swap, hasOffDiag_tr, stat_tr, total_tr]
  have : (s₂ == s₁) = (s₁ == s₂) := by
    by_cases h : s₁ = s₂
    · subst h; rfl
    · have h' : ¬ s₂ = s₁ := fun e => h e.symm
      simp [h, h']
  rw [this]

theorem pairStat_eq_report (c : Calc) (s₁ s₂ : List Int) (h : s₁ ≠ s₂) : pairStat c s₁ s₂ = pairReport c s₁ s₂ := by
  unfold pairStat pairReport
  have : (s₁ == s₂) = false := by simpa using h
  by_cases ho : hasOffDiag (countsOf s₁ s₂) = true
  · simp [ho]
  · have ho' : hasOffDiag (countsOf s₁ s₂) = false := by simpa using ho
    simp [ho', this]

theorem pairReport_self (c : Calc) (s : List Int) : pairReport c s s = .zero := by
  unfold pairReport
  rw [hasOffDiag_self]; simp

/-! ### the two nested loops of `run` -/

/-- pairs (a,b), a<b, already visited when the outer loop is at `i` and the inner loop is about to look at `jpos` -/
def visI (i jpos a b : Nat) : Prop := a < i ∨ (a = i ∧ b < jpos)

structure LoopInv (c : Calc) (seqs : List (List Int)) (vis : Nat → Nat → Prop) (bound : Nat) (st : RunState) : Prop where
  dup_sound : ∀ p ∈ st.duped, sq seqs p.1 = sq seqs p.2 ∧ p.1 ∉ st.dupes ∧ p.2 ∈ st.dupes ∧ p.1 < bound
  dup_complete : ∀ j ∈ st.dupes, ∃ i, (i, j) ∈ st.duped
  dists_ok : ∀ a b, a < b → b < seqs.length → vis a b → a ∉ st.dupes →
    b ∈ st.dupes ∨ (st.dists.get a b = some (pairStat c (sq seqs a) (sq seqs b)) ∧
      st.dists.get b a = some (pairStat c (sq seqs a) (sq seqs b)) ∧ sq seqs a ≠ sq seqs b)

theorem LoopInv.mono {c : Calc} {seqs : List (List Int)} {vis vis' : Nat → Nat → Prop} {bound bound' : Nat} {st : RunState}
    (h : LoopInv c seqs vis bound st) (hv : ∀ a b, a < b → b < seqs.length → vis' a b → vis a b) (hb : bound ≤ bound') :
    LoopInv c seqs vis' bound' st :=
  ⟨fun p hp => let ⟨h1, h2, h3, h4⟩ := h.dup_sound p hp; ⟨h1, h2, h3, by omega⟩, h.dup_complete,
   fun a b hab hb' hvis ha => h.dists_ok a b hab hb' (hv a b hab hb' hvis) ha⟩

theorem dictSet_get (d : Dict) (k : Nat × Nat) (v : Stat) (x y : Nat) :
    (dictSet d k v).get x y = if x = k.1 ∧ y = k.2 then some v else d.get x y := rfl

theorem contains_iff (l : List Nat) (x : Nat) : l.contains x = true ↔ x ∈ l := by simp

theorem innerStep_inv (c : Calc) (seqs : List (List Int)) (i j : Nat) (st : RunState) (hij : i < j)
    (hI : LoopInv c seqs (visI i j) (i + 1) st) (hi : i ∉ st.dupes) :
    LoopInv c seqs (visI i (j + 1)) (i + 1) (innerStep c seqs i st j) ∧ i ∉ (innerStep c seqs i st j).dupes := by
  unfold innerStep
  by_cases hj : st.dupes.contains j = true
  · rw [if_pos hj]
    have hj' : j ∈ st.dupes := (contains_iff _ _).1 hj
    refine ⟨⟨hI.dup_sound, hI.dup_complete, ?_⟩, hi⟩
    intro a b hab hb hvis ha
    rcases hvis with h | ⟨h1, h2⟩
    · exact hI.dists_ok a b hab hb (Or.inl h) ha
    · by_cases hbj : b = j
      · exact Or.inl (hbj ▸ hj')
      · exact hI.dists_ok a b hab hb (Or.inr ⟨h1, by omega⟩) ha
  · rw [if_neg hj]
    have hj' : j ∉ st.dupes := fun h => hj ((contains_iff _ _).2 h)
    by_cases hd : (!hasOffDiag (countsOf (seqs.getD i []) (seqs.getD j [])) && (seqs.getD i [] == seqs.getD j [])) = true
    · rw [if_pos hd]
      have heq : sq seqs i = sq seqs j := by
        rw [Bool.and_eq_true] at hd; exact beq_seq_eq _ _ hd.2
      refine ⟨⟨?_, ?_, ?_⟩, ?_⟩
      · intro p hp
        show sq seqs p.1 = sq seqs p.2 ∧ p.1 ∉ st.dupes ++ [j] ∧ p.2 ∈ st.dupes ++ [j] ∧ p.1 < i + 1
        have hp' : p ∈ st.duped ++ [(i, j)] := hp
        rw [List.mem_append, List.mem_singleton] at hp'
        rcases hp' with hp' | rfl
        · obtain ⟨h1, h2, h3, h4⟩ := hI.dup_sound p hp'
          refine ⟨h1, ?_, List.mem_append_left _ h3, h4⟩
          rw [List.mem_append, List.mem_singleton]
          rintro (h | h)
          · exact h2 h
          · omega
        · refine ⟨heq, ?_, List.mem_append_right _ (List.mem_singleton.2 rfl), by omega⟩
          rw [List.mem_append, List.mem_singleton]
          rintro (h | h)
          · exact hi h
          · omega
      · intro x hx
        have hx' : x ∈ st.dupes ++ [j] := hx
        rw [List.mem_append, List.mem_singleton] at hx'
        rcases hx' with hx' | rfl
        · obtain ⟨i', hi'⟩ := hI.dup_complete x hx'
          exact ⟨i', List.mem_append_left _ hi'⟩
        · exact ⟨i, List.mem_append_right _ (List.mem_singleton.2 rfl)⟩
      · intro a b hab hb hvis ha
        have ha' : a ∉ st.dupes := fun h => ha (List.mem_append_left _ h)
        show b ∈ st.dupes ++ [j] ∨ _
        by_cases hbj : b = j
        · exact Or.inl (List.mem_append_right _ (List.mem_singleton.2 hbj))
        · have hv : visI i j a b := by
            rcases hvis with h | ⟨h1, h2⟩
            · exact Or.inl h
            · exact Or.inr ⟨h1, by omega⟩
          rcases hI.dists_ok a b hab hb hv ha' with h | h
          · exact Or.inl (List.mem_append_left _ h)
          · exact Or.inr h
      · show i ∉ st.dupes ++ [j]
        rw [List.mem_append, List.mem_singleton]
        rintro (h | h)
        · exact hi h
        · omega
    · rw [if_neg hd]
      have hne : sq seqs i ≠ sq seqs j := by
        intro heq
        apply hd
        have heq' : seqs.getD i [] = seqs.getD j [] := heq
        rw [Bool.and_eq_true]
        constructor
        · rw [heq', hasOffDiag_self]; rfl
        · rw [heq']; simp
      refine ⟨⟨hI.dup_sound, hI.dup_complete, ?_⟩, hi⟩
      intro a b hab hb hvis ha
      show b ∈ st.dupes ∨
        ((dictSet (dictSet st.dists (i, j) _) (j, i) _).get a b = _ ∧ (dictSet (dictSet st.dists (i, j) _) (j, i) _).get b a = _ ∧ _)
      by_cases hcur : a = i ∧ b = j
      · obtain ⟨rfl, rfl⟩ := hcur
        right
        refine ⟨?_, ?_, hne⟩
        · rw [dictSet_get, dictSet_get]
          rw [if_neg (by intro h; exact absurd h.1 (by omega)), if_pos ⟨rfl, rfl⟩]; rfl
        · rw [dictSet_get, dictSet_get]
          rw [if_pos ⟨rfl, rfl⟩]; rfl
      · have hv : visI i j a b := by
          rcases hvis with h | ⟨h1, h2⟩
          · exact Or.inl h
          · exact Or.inr ⟨h1, by omega⟩
        rcases hI.dists_ok a b hab hb hv ha with h | ⟨h1, h2, h3⟩
        · exact Or.inl h
        · right
          refine ⟨?_, ?_, h3⟩
          · rw [dictSet_get, dictSet_get]
            rw [if_neg (by intro h; simp only at h; omega), if_neg (by intro h; simp only at h; exact hcur ⟨h.1, h.2⟩)]
            exact h1
          · rw [dictSet_get, dictSet_get]
            rw [if_neg (by intro h; simp only at h; exact hcur ⟨h.2, h.1⟩), if_neg (by intro h; simp only at h; omega)]
            exact h2

theorem innerFold_inv (c : Calc) (seqs : List (List Int)) (i : Nat) :
    ∀ (len s : Nat) (st : RunState), i < s → LoopInv c seqs (visI i s) (i + 1) st → i ∉ st.dupes →
      LoopInv c seqs (visI i (s + len)) (i + 1) ((List.range' s len).foldl (innerStep c seqs i) st) ∧
      i ∉ ((List.range' s len).foldl (innerStep c seqs i) st).dupes := by
  intro len
  induction len with
  | zero => intro s st _ hI hi; exact ⟨hI, hi⟩
  | succ len ih =>
    intro s st hs hI hi
    rw [List.range'_succ, List.foldl_cons]
    obtain ⟨h1, h2⟩ := innerStep_inv c seqs i s st hs hI hi
    have := ih (s + 1) _ (by omega) h1 h2
    rw [show s + 1 + len = s + (len + 1) by omega] at this
    exact this

theorem outerStep_inv (c : Calc) (seqs : List (List Int)) (i : Nat) (st : RunState) (hi : i + 1 < seqs.length)
    (hI : LoopInv c seqs (fun a _ => a < i) i st) :
    LoopInv c seqs (fun a _ => a < i + 1) (i + 1) (outerStep c seqs st i) := by
  unfold outerStep
  by_cases hd : st.dupes.contains i = true
  · rw [if_pos hd]
    have hd' : i ∈ st.dupes := (contains_iff _ _).1 hd
    refine ⟨fun p hp => let ⟨h1, h2, h3, h4⟩ := hI.dup_sound p hp; ⟨h1, h2, h3, by omega⟩, hI.dup_complete, ?_⟩
    intro a b hab hb hvis ha
    by_cases hai : a = i
    · exact absurd (hai ▸ hd') ha
    · exact hI.dists_ok a b hab hb (by omega) ha
  · rw [if_neg hd]
    have hd' : i ∉ st.dupes := fun h => hd ((contains_iff _ _).2 h)
    have h0 : LoopInv c seqs (visI i (i + 1)) (i + 1) st :=
      hI.mono (fun a b hab _ hv => by rcases hv with h | ⟨h1, h2⟩ <;> omega) (by omega)
    obtain ⟨h1, _⟩ := innerFold_inv c seqs i (seqs.length - (i + 1)) (i + 1) st (by omega) h0 hd'
    exact h1.mono (fun a b hab hb hv => by
      by_cases h : a < i
      · exact Or.inl h
      · exact Or.inr ⟨by omega, by omega⟩) (le_refl _)

theorem outerFold_inv (c : Calc) (seqs : List (List Int)) :
    ∀ (len s : Nat) (st : RunState), s + len + 1 ≤ seqs.length → LoopInv c seqs (fun a _ => a < s) s st →
      LoopInv c seqs (fun a _ => a < s + len) (s + len) ((List.range' s len).foldl (outerStep c seqs) st) := by
  intro len
  induction len with
  | zero => intro s st _ hI; exact hI
  | succ len ih =>
    intro s st hs hI
    rw [List.range'_succ, List.foldl_cons]
    have := ih (s + 1) _ (by omega) (outerStep_inv c seqs s st (by omega) hI)
    rw [show s + 1 + len = s + (len + 1) by omega] at this
    exact this

/-- what the two loops establish -/
theorem runLoops_inv (c : Calc) (seqs : List (List Int)) :
    LoopInv c seqs (fun a _ => a < seqs.length - 1) (seqs.length - 1) (runLoops c seqs) := by
  unfold runLoops
  have h0 : LoopInv c seqs (fun a _ => a < 0) 0 ⟨[], [], ⟨fun _ _ => none⟩, false⟩ :=
    ⟨fun p hp => absurd hp (List.not_mem_nil), fun j hj => absurd hj (List.not_mem_nil),
     fun a b _ _ hv _ => absurd hv (Nat.not_lt_zero a)⟩
  by_cases hn : seqs.length = 0
  · rw [hn]; exact h0
  · have := outerFold_inv c seqs (seqs.length - 1) 0 _ (by omega) h0
    simpa using this

/-! ### `_expand` -/

/-- the value `_expand` writes for `name` when expanding an alias of `i` -/
def expVal (pw : Dict) (i name : Nat) : Stat := if name = i then .zero else (pw.get i name).getD .invalid

theorem expandFold_closed (i j : Nat) (hij : i ≠ j) (pw : Dict) : ∀ (m x y : Nat),
    ((List.range' 0 m).foldl (expandName j i) pw).get x y =
      if x = j ∧ y ≠ j ∧ y < m then some (expVal pw i y)
      else if y = j ∧ x ≠ j ∧ x < m then some (expVal pw i x) else pw.get x y := by
  intro m
  induction m with
  | zero => intro x y; simp
  | succ m ih =>
    intro x y
    rw [List.range'_concat, List.foldl_append, List.foldl_cons, List.foldl_nil]
    simp only [Nat.one_mul, Nat.zero_add]
    generalize List.foldl (expandName j i) pw (List.range' 0 m) = F at ih ⊢
    unfold expandName
    by_cases hmj : m = j
    · rw [if_pos hmj, ih x y]
      subst hmj
      have e1 : (x = m ∧ y ≠ m ∧ y < m + 1) ↔ (x = m ∧ y ≠ m ∧ y < m) := by omega
      have e2 : (y = m ∧ x ≠ m ∧ x < m + 1) ↔ (y = m ∧ x ≠ m ∧ x < m) := by omega
      simp only [e1, e2]
    · rw [if_neg hmj]
      have hread : dictGet F (i, m) = pw.get i m := by
        show F.get i m = _
        rw [ih i m, if_neg (by intro h; exact hij h.1), if_neg (by intro h; exact hmj h.1)]
      rw [hread]
      have hv : (if m = i then Stat.zero else (pw.get i m).getD .invalid) = expVal pw i m := rfl
      rw [hv]
      rw [dictSet_get, dictSet_get]
      rw [ih x y]
      by_cases hA : x = m ∧ y = j
      · obtain ⟨rfl, rfl⟩ := hA
        rw [if_pos ⟨rfl, rfl⟩, if_neg (by intro h; exact hmj h.1), if_pos ⟨rfl, hmj, by omega⟩]
      · rw [if_neg hA]
        by_cases hB : x = j ∧ y = m
        · obtain ⟨rfl, rfl⟩ := hB
          rw [if_pos ⟨rfl, rfl⟩, if_pos ⟨rfl, hmj, by omega⟩]
        · rw [if_neg hB]
          by_cases h1 : x = j ∧ y ≠ j ∧ y < m
          · rw [if_pos h1, if_pos ⟨h1.1, h1.2.1, by omega⟩]
          · have h1' : ¬ (x = j ∧ y ≠ j ∧ y < m + 1) := by
              intro h; by_cases hym : y = m
              · exact hB ⟨h.1, hym⟩
              · exact h1 ⟨h.1, h.2.1, by omega⟩
            rw [if_neg h1, if_neg h1']
            by_cases h2 : y = j ∧ x ≠ j ∧ x < m
            · rw [if_pos h2, if_pos ⟨h2.1, h2.2.1, by omega⟩]
            · have h2' : ¬ (y = j ∧ x ≠ j ∧ x < m + 1) := by
                intro h; by_cases hxm : x = m
                · exact hA ⟨hxm, h.1⟩
                · exact h2 ⟨h.1, h.2.1, by omega⟩
              rw [if_neg h2, if_neg h2']

theorem expandOne_closed (n i j : Nat) (hij : i ≠ j) (pw : Dict) (x y : Nat) :
    (expandOne n pw (i, j)).get x y =
      if x = j ∧ y ≠ j ∧ y < n then some (expVal pw i y)
      else if y = j ∧ x ≠ j ∧ x < n then some (expVal pw i x) else pw.get x y :=
  expandFold_closed i j hij pw n x y

/-- every key between "settled" indices (non-duplicates and the duplicates in `P`) holds the pair's own report -/
def Settled (c : Calc) (seqs : List (List Int)) (dupes : List Nat) (P : Nat → Prop) (pw : Dict) : Prop :=
  ∀ x y, x < seqs.length → y < seqs.length → x ≠ y → (x ∉ dupes ∨ P x) → (y ∉ dupes ∨ P y) →
    pw.get x y = some (pairReport c (sq seqs x) (sq seqs y))

theorem settled_step (c : Calc) (seqs : List (List Int)) (dupes : List Nat) (P : Nat → Prop) (pw : Dict)
    (i j : Nat) (heq : sq seqs i = sq seqs j) (hi : i ∉ dupes) (hj : j ∈ dupes) (hin : i < seqs.length)
    (h : Settled c seqs dupes P pw) :
    Settled c seqs dupes (fun x => x = j ∨ P x) (expandOne seqs.length pw (i, j)) := by
  have hij : i ≠ j := fun e => hi (e ▸ hj)
  have hval : ∀ y, y < seqs.length → y ≠ j → (y ∉ dupes ∨ P y) →
      expVal pw i y = pairReport c (sq seqs i) (sq seqs y) := by
    intro y hy hyj hyP
    unfold expVal
    by_cases hyi : y = i
    · rw [if_pos hyi, hyi, pairReport_self]
    · rw [if_neg hyi, h i y hin hy (fun e => hyi e.symm) (Or.inl hi) hyP]; rfl
  intro x y hx hy hxy hxP hyP
  rw [expandOne_closed _ _ _ hij]
  by_cases hxj : x = j
  · have hyj : y ≠ j := fun e => hxy (hxj.trans e.symm)
    rw [if_pos ⟨hxj, hyj, hy⟩]
    have hyP' : y ∉ dupes ∨ P y := by
      rcases hyP with h | h | h
      · exact Or.inl h
      · exact absurd h hyj
      · exact Or.inr h
    rw [hval y hy hyj hyP', hxj, heq]
  · rw [if_neg (fun h => hxj h.1)]
    have hxP' : x ∉ dupes ∨ P x := by
      rcases hxP with h | h | h
      · exact Or.inl h
      · exact absurd h hxj
      · exact Or.inr h
    by_cases hyj : y = j
    · rw [if_pos ⟨hyj, hxj, hx⟩, hval x hx hxj hxP', hyj, ← heq, pairReport_symm]
    · rw [if_neg (fun h => hyj h.1)]
      have hyP' : y ∉ dupes ∨ P y := by
        rcases hyP with h | h | h
        · exact Or.inl h
        · exact absurd h hyj
        · exact Or.inr h
      exact h x y hx hy hxy hxP' hyP'

theorem settled_fold (c : Calc) (seqs : List (List Int)) (dupes : List Nat) :
    ∀ (l : List (Nat × Nat)) (P : Nat → Prop) (pw : Dict),
      (∀ p ∈ l, sq seqs p.1 = sq seqs p.2 ∧ p.1 ∉ dupes ∧ p.2 ∈ dupes ∧ p.1 < seqs.length) →
      Settled c seqs dupes P pw →
      Settled c seqs dupes (fun x => (∃ p ∈ l, p.2 = x) ∨ P x) (l.foldl (expandOne seqs.length) pw) := by
  intro l
  induction l with
  | nil =>
    intro P pw _ h x y hx hy hxy hxP hyP
    refine h x y hx hy hxy ?_ ?_
    · rcases hxP with h | ⟨p, hp, _⟩ | h
      · exact Or.inl h
      · cases hp
      · exact Or.inr h
    · rcases hyP with h | ⟨p, hp, _⟩ | h
      · exact Or.inl h
      · cases hp
      · exact Or.inr h
  | cons p l ih =>
    intro P pw hl h
    rw [List.foldl_cons]
    obtain ⟨h1, h2, h3, h4⟩ := hl p (List.mem_cons_self)
    have hstep := settled_step c seqs dupes P pw p.1 p.2 h1 h2 h3 h4 h
    have := ih (fun x => x = p.2 ∨ P x) _ (fun q hq => hl q (List.mem_cons_of_mem _ hq)) hstep
    intro x y hx hy hxy hxP hyP
    refine this x y hx hy hxy ?_ ?_
    · rcases hxP with h | ⟨q, hq, hqx⟩ | h
      · exact Or.inl h
      · rw [List.mem_cons] at hq
        rcases hq with rfl | hq
        · exact Or.inr (Or.inr (Or.inl hqx.symm))
        · exact Or.inr (Or.inl ⟨q, hq, hqx⟩)
      · exact Or.inr (Or.inr (Or.inr h))
    · rcases hyP with h | ⟨q, hq, hqy⟩ | h
      · exact Or.inl h
      · rw [List.mem_cons] at hq
        rcases hq with rfl | hq
        · exact Or.inr (Or.inr (Or.inl hqy.symm))
        · exact Or.inr (Or.inl ⟨q, hq, hqy⟩)
      · exact Or.inr (Or.inr (Or.inr h))

theorem expand_eq_fold (n : Nat) (st : RunState) : expand n st = st.duped.foldl (expandOne n) st.dists := by
  unfold expand
  cases h : st.duped with
  | nil => rfl
  | cons p l => rfl

/-- **the n-sequence statement**: after `run` and `_expand`, every off-diagonal key holds the report of that
pair taken alone -/
theorem expand_settled (c : Calc) (seqs : List (List Int)) (a b : Nat) (ha : a < seqs.length) (hb : b < seqs.length)
    (hab : a ≠ b) :
    (expand seqs.length (run c seqs)).get a b = some (pairReport c (sq seqs a) (sq seqs b)) := by
  have hI := runLoops_inv c seqs
  have hduped : (run c seqs).duped = (runLoops c seqs).duped := by
    unfold run clean; split <;> rfl
  have hdists : ∀ x y, x ∉ (runLoops c seqs).dupes → y ∉ (runLoops c seqs).dupes →
      (run c seqs).dists.get x y = (runLoops c seqs).dists.get x y := by
    intro x y hx hy
    unfold run clean
    split
    · rfl
    · show (if (runLoops c seqs).dupes.contains x || (runLoops c seqs).dupes.contains y then none else _) = _
      have h1 : (runLoops c seqs).dupes.contains x = false := by simpa using hx
      have h2 : (runLoops c seqs).dupes.contains y = false := by simpa using hy
      rw [h1, h2]; rfl
  have hbase : Settled c seqs (runLoops c seqs).dupes (fun _ => False) (run c seqs).dists := by
    intro x y hx hy hxy hxP hyP
    have hx' : x ∉ (runLoops c seqs).dupes := by rcases hxP with h | h; exact h; exact h.elim
    have hy' : y ∉ (runLoops c seqs).dupes := by rcases hyP with h | h; exact h; exact h.elim
    rw [hdists x y hx' hy']
    by_cases hlt : x < y
    · rcases hI.dists_ok x y hlt hy (by omega) hx' with h | ⟨h1, _, h3⟩
      · exact absurd h hy'
      · rw [h1, pairStat_eq_report c _ _ h3]
    · have hlt' : y < x := by omega
      rcases hI.dists_ok y x hlt' hx (by omega) hy' with h | ⟨_, h2, h3⟩
      · exact absurd h hx'
      · rw [h2, pairStat_eq_report c _ _ h3, pairReport_symm]
  have hfold := settled_fold c seqs (runLoops c seqs).dupes (run c seqs).duped (fun _ => False) (run c seqs).dists
    (by
      rw [hduped]
      intro p hp
      obtain ⟨h1, h2, h3, h4⟩ := hI.dup_sound p hp
      exact ⟨h1, h2, h3, by omega⟩) hbase
  rw [expand_eq_fold]
  have hcov : ∀ x, x ∉ (runLoops c seqs).dupes ∨ ((∃ p ∈ (run c seqs).duped, p.2 = x) ∨ False) := by
    intro x
    by_cases hx : x ∈ (runLoops c seqs).dupes
    · obtain ⟨i, hi⟩ := hI.dup_complete x hx
      exact Or.inr (Or.inl ⟨(i, x), hduped ▸ hi, rfl⟩)
    · exact Or.inl hx
  exact hfold a b ha hb hab (hcov a) (hcov b)
end CogentModel.Distance
