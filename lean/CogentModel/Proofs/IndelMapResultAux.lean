import CogentModel.Proofs.IndelMapBridge2
namespace CogentModel.IndelMap
open CogentModel.Gapped List

theorem endColT_trips (gp : List Int) : ∀ (cum : List Int) (next prevCum pl : Int), gp.length = cum.length →
    endColT (next + prevCum) next (trips prevCum gp cum) pl = pl + lastOr prevCum cum := by
  induction gp with
  | nil => intro cum next prevCum pl hl; cases cum with
    | nil => simp only [trips, endColT, lastOr]; omega
    | cons _ _ => simp at hl
  | cons p ps ih =>
    intro cum next prevCum pl hl
    cases cum with
    | nil => simp at hl
    | cons c cs =>
      simp only [trips, endColT, lastOr]
      exact ih cs p c pl (by simpa using hl)

theorem endColT_dropT (T : List Trip) : ∀ (col next pl start : Int), TSorted col T → col ≤ start →
    endColT start (seqIdxT col next T start) (dropT start T) pl = endColT col next T pl := by
  induction T with
  | nil => intro col next pl start _ _; simp only [endColT, seqIdxT, dropT]; omega
  | cons t r ih =>
    intro col next pl start hs h
    obtain ⟨p, s, e⟩ := t
    obtain ⟨h1, h2, h3⟩ := hs
    simp only [dropT, seqIdxT, endColT]
    by_cases c1 : e ≤ start
    · rw [if_pos c1, if_neg (by omega)]
      have ihh := ih e p pl start (tsorted_mono _ _ _ (by omega) h3) c1
      by_cases c2 : start ≤ e
      · have : start = e := by omega
        subst this
        rw [if_pos c2]
        rw [seqIdxT_at_col r start p h3] at ihh; exact ihh
      · rw [if_neg c2]; exact ihh
    · rw [if_neg c1]
      by_cases c2 : s ≤ start
      · rw [if_pos c2]; rfl
      · rw [if_neg c2]; rfl

theorem seqIdxT_ge_next (T : List Trip) : ∀ (col next ai : Int), TSorted col T → TRel col next T → col ≤ ai →
    next ≤ seqIdxT col next T ai := by
  induction T with
  | nil => intro col next ai _ _ h; simp only [seqIdxT]; omega
  | cons t r ih =>
    intro col next ai hs hr h
    obtain ⟨p, s, e⟩ := t
    obtain ⟨h1, h2, h3⟩ := hs
    obtain ⟨r1, r2⟩ := hr
    simp only [seqIdxT]
    split
    · omega
    · split
      · omega
      · have := ih e p ai (tsorted_mono _ _ _ (by omega) h3) r2 (by omega); omega

theorem trel_pos_le (T : List Trip) (col next : Int) (hs : TSorted col T) (hr : TRel col next T) :
    (T.map (·.1)).Pairwise (· < ·) ∧ ∀ t ∈ T, next ≤ t.1 := by
  cases T with
  | nil => simp
  | cons t r =>
    obtain ⟨p, s, e⟩ := t
    obtain ⟨h1, h2, h3⟩ := hs
    obtain ⟨r1, r2⟩ := hr
    obtain ⟨i1, i2⟩ := trel_pos_lt r e p h3 r2
    refine ⟨?_, ?_⟩
    · simp only [map_cons, pairwise_cons]
      refine ⟨?_, i1⟩
      intro q hq
      obtain ⟨t', ht', rfl⟩ := mem_map.mp hq
      exact i2 t' ht'
    · intro t' ht'
      rcases mem_cons.mp ht' with rfl | h'
      · show next ≤ p; omega
      · have := i2 t' h'; omega

theorem tsorted_tlen_pos (T : List Trip) : ∀ (col : Int), TSorted col T → ∀ t ∈ T, 0 < tlen t := by
  induction T with
  | nil => intro _ _ t ht; simp at ht
  | cons t0 r ih =>
    intro col hs t ht
    obtain ⟨p, s, e⟩ := t0
    obtain ⟨h1, h2, h3⟩ := hs
    rcases mem_cons.mp ht with rfl | h'
    · simp only [tlen]; omega
    · exact ih _ h3 t h'

theorem cumsumFrom_length (L : List Int) : ∀ acc, (cumsumFrom acc L).length = L.length := by
  induction L with
  | nil => intro _; rfl
  | cons x xs ih => intro acc; simp [cumsumFrom, ih]

theorem cumsumFrom_pairwise (L : List Int) : ∀ acc, (∀ x ∈ L, 0 < x) →
    (acc :: cumsumFrom acc L).Pairwise (· < ·) ∧ ∀ y ∈ cumsumFrom acc L, acc < y := by
  induction L with
  | nil => intro acc _; simp [cumsumFrom]
  | cons x xs ih =>
    intro acc h
    have hx := h x (by simp)
    obtain ⟨i1, i2⟩ := ih (acc + x) (fun y hy => h y (by simp [hy]))
    have hall : ∀ y ∈ cumsumFrom acc (x :: xs), acc < y := by
      intro y hy
      simp only [cumsumFrom, mem_cons] at hy
      rcases hy with rfl | hy
      · omega
      · have := i2 y hy; omega
    refine ⟨?_, hall⟩
    rw [pairwise_cons]
    exact ⟨hall, i1⟩

theorem pairwise_le_lastD : ∀ (xs : List Int), xs.Pairwise (· < ·) → ∀ x ∈ xs, x ≤ lastD xs := by
  intro xs
  induction xs with
  | nil => intro _ x hx; simp at hx
  | cons y r ih =>
    intro hp x hx
    have hp' := pairwise_cons.mp hp
    cases r with
    | nil => simp only [mem_singleton] at hx; subst hx; simp [lastD]
    | cons z r' =>
      rw [lastD_cons_cons]
      rcases mem_cons.mp hx with rfl | h'
      · have h1 := hp'.1 (lastD (z :: r')) (lastD_mem _ (by simp)); omega
      · exact ih hp'.2 x h'

end CogentModel.IndelMap
