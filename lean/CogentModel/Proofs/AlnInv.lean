import CogentModel.Model.Aln
import CogentModel.Proofs.IndelMapInv
/-! Helper lemmas for C03 (and the `spans`-expansion = `abs` lemma of C08). -/
namespace CogentModel.IndelMap
open CogentModel.Gapped

theorem seg_empty (a b : Int) (h : b ≤ a) : seg a b = [] := by
  unfold seg
  have : (b - a).toNat = 0 := by omega
  simp [this]

theorem spansFrom_first (gp cum : List Int) : spansFrom true 0 0 gp cum = spansFrom false 0 0 gp cum := by
  cases gp <;> cases cum <;> simp [spansFrom]

theorem spansFrom_expand (gp : List Int) : ∀ (cum : List Int) (prevPos prevCum pl : Int),
    gp.length = cum.length → 0 ≤ prevPos → (∀ p ∈ gp, prevPos ≤ p) → gp.Pairwise (· < ·) →
    (∀ p ∈ gp, p = 0 → prevCum = 0) →
    (spansFrom false prevPos prevCum gp cum).flatMap expandSp ++ seg (lastOr prevPos gp) pl
      = absFrom prevPos prevCum gp cum pl := by
  induction gp with
  | nil =>
    intro cum prevPos prevCum pl hl _ _ _ _
    cases cum with
    | nil => simp [spansFrom, absFrom, lastOr]
    | cons c cs => simp at hl
  | cons p ps ih =>
    intro cum prevPos prevCum pl hl h0 hr hs hz
    cases cum with
    | nil => simp at hl
    | cons c cs =>
      have hp := hr p (by simp)
      have hs' := List.pairwise_cons.mp hs
      have ihh := ih cs p c pl (by simpa using hl) (by omega)
        (fun q hq => Int.le_of_lt (hs'.1 q hq)) hs'.2
        (fun q hq hq0 => by have := hs'.1 q hq; omega)
      simp only [spansFrom, absFrom, lastOr]
      by_cases hp0 : p = 0
      · have hc := hz p (by simp) hp0
        subst hp0
        have : prevPos = 0 := by omega
        subst this; subst hc
        simp only [if_true, List.flatMap_append, List.flatMap_cons, List.flatMap_nil, expandSp, List.append_nil,
          seg_self, List.nil_append, Int.sub_zero, List.append_assoc]
        rw [ihh]
      · simp only [hp0, if_false, Bool.false_eq_true, List.flatMap_append, List.flatMap_cons, List.flatMap_nil,
          expandSp, List.append_nil, List.append_assoc]
        rw [ihh]

theorem absSpans_eq_abs (m : IMap) (h : WF m) : absSpans m = abs m := by
  unfold absSpans abs spans
  by_cases hg : m.gapPos = []
  · have hl := h.len_eq
    rw [hg] at hl
    have hc : m.cumLens = [] := by
      cases hc : m.cumLens with
      | nil => rfl
      | cons x xs => rw [hc] at hl; simp at hl
    simp [hg, hc, absFrom, expandSp]
  · simp only [hg, if_false]
    have key := spansFrom_expand m.gapPos m.cumLens 0 0 m.parentLength h.len_eq (by omega)
      (fun p hp => (h.pos_range p hp).1) h.pos_sorted (fun _ _ _ => rfl)
    rw [spansFrom_first, List.flatMap_append, ← key]
    congr 1
    obtain ⟨p, ps, hps⟩ : ∃ p ps, m.gapPos = p :: ps := by
      cases hh : m.gapPos with
      | nil => exact absurd hh hg
      | cons p ps => exact ⟨p, ps, rfl⟩
    have hlast : lastD m.gapPos = lastOr 0 m.gapPos := by rw [hps, lastD_cons]; rfl
    rw [hlast]
    split
    · simp [expandSp]
    · rename_i hlt
      simp [seg_empty _ _ (by omega : m.parentLength ≤ lastOr 0 m.gapPos)]
end CogentModel.IndelMap

namespace CogentModel.Aln
open CogentModel.IndelMap CogentModel.Gapped

theorem display_ofPattern (s : List Char) : ∀ (pre : List Char),
    (ofPatternFrom pre.length (s.map isGap)).filterMap
        (showCol (pre ++ s.filter (! isGap ·))) = s := by
  induction s with
  | nil => intro pre; simp [ofPatternFrom]
  | cons c r ih =>
    intro pre
    by_cases hc : isGap c = true
    · have hc' : c = '-' := by simpa [isGap] using hc
      simp only [List.map_cons, hc, ofPatternFrom, List.filterMap_cons, List.filter_cons, Bool.not_true, showCol]
      simp only [Bool.false_eq_true, if_false]
      rw [ih pre, hc']
    · have hc2 : isGap c = false := by simpa using hc
      simp only [List.map_cons, hc2, ofPatternFrom, List.filterMap_cons, List.filter_cons, Bool.not_false, if_true, showCol]
      have h1 : (pre ++ c :: List.filter (fun x => !isGap x) r)[pre.length]? = some c := by simp
      simp only [h1]
      have := ih (pre ++ [c])
      simp only [List.length_append, List.length_singleton, List.append_assoc, List.singleton_append] at this
      rw [this]

theorem gapped_rowOfString (s : List Char) : gapped (rowOfString s) = s := by
  unfold gapped rowOfString
  simp only
  rw [absSpans_eq_abs _ (fromGapped_wf' _), abs_fromGapped']
  have := display_ofPattern s []
  simpa [ofPattern] using this

end CogentModel.Aln
