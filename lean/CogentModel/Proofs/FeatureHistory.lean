import CogentModel.Proofs.FeatureOnView
/-!
  C04 (added by the audit): unit stride is preserved by every slice with step `None`/`1`/`-1`,
  by integer indexing and by `rc()`, so the per-view theorems of `Props/C04.lean` (stated for
  `UnitView`) apply after ANY such history.  Same combinator style as `Proofs/ViewSem.lean`
  (`Good`), for the predicate "the resulting step is 1 or -1".
-/
namespace CogentModel.View

/-- every successful result has unit stride -/
def StepU (r : Except Err View) : Prop := ∀ w, r = .ok w → (w.step = 1 ∨ w.step = -1)

theorem stepU_ite {c : Prop} [Decidable c] {x y : Except Err View} (hx : StepU x) (hy : StepU y) :
    StepU (if c then x else y) := by
  split <;> assumption

theorem stepU_ok {v : View} (h : v.step = 1 ∨ v.step = -1) : StepU (.ok v) := by
  intro w hw; cases hw; exact h

theorem stepU_err {e : Err} : StepU (.error e) := by
  intro w hw; cases hw

theorem stepU_zero (fl : Flavour) (v : View) : StepU (.ok (zero fl v)) := by
  intro w hw; cases hw; cases fl <;> simp [zero, zeroSlice, zeroSliceData]

theorem inputValsPos_stepOr1 (n : Int) (a b : Option Int) (k : Int) :
    (inputValsPos n a b k).2.2 = k ∨ (inputValsPos n a b k).2.2 = 1 := by
  unfold inputValsPos pyabs
  cases a <;> cases b <;> simp only [] <;> (repeat' split) <;> simp

theorem inputValsNeg_stepOr1 (n : Int) (a b : Option Int) (k : Int) :
    (inputValsNeg n a b k).2.2 = k ∨ (inputValsNeg n a b k).2.2 = 1 := by
  unfold inputValsNeg inputValsNegTail
  cases a <;> cases b <;> simp only [] <;> (repeat' split) <;> simp

theorem stepU_remk (v : View) (a b k : Int) (hk : k = 1 ∨ k = -1) : StepU (remk v a b k) := by
  intro w hw
  unfold remk mk at hw
  split at hw
  · cases hw
  · have h := Except.ok.inj hw
    rw [← h]
    simp only [Option.getD_some]
    split
    · rcases inputValsPos_stepOr1 v.seqLen (some a) (some b) k with h1 | h1 <;> rw [h1]
      · exact hk
      · exact Or.inl rfl
    · rcases inputValsNeg_stepOr1 v.seqLen (some a) (some b) k with h1 | h1 <;> rw [h1]
      · exact hk
      · exact Or.inl rfl

theorem unit_mul {a b : Int} (ha : a = 1 ∨ a = -1) (hb : b = 1 ∨ b = -1) : a * b = 1 ∨ a * b = -1 := by
  rcases ha with rfl | rfl <;> rcases hb with rfl | rfl <;> simp

theorem fwdFromFwd_stepU (fl : Flavour) (v : View) (hu : v.step = 1 ∨ v.step = -1) (a b c : Int)
    (hc : c = 1 ∨ c = -1) : StepU (fwdFromFwd fl v a b c) := by
  unfold fwdFromFwd
  repeat (first | exact stepU_zero fl v | exact stepU_remk v _ _ _ (unit_mul hu hc) | apply stepU_ite)

theorem fwdFromRev_stepU (fl : Flavour) (v : View) (hu : v.step = 1 ∨ v.step = -1) (a b c : Int)
    (hc : c = 1 ∨ c = -1) : StepU (fwdFromRev fl v a b c) := by
  unfold fwdFromRev
  repeat (first | exact stepU_zero fl v | exact stepU_remk v _ _ _ (unit_mul hu hc) | apply stepU_ite)

theorem revFromFwd_stepU (fl : Flavour) (v : View) (hu : v.step = 1 ∨ v.step = -1) (a b c : Int)
    (hc : c = 1 ∨ c = -1) : StepU (revFromFwd fl v a b c) := by
  unfold revFromFwd
  repeat (first | exact stepU_zero fl v | exact stepU_remk v _ _ _ (unit_mul hu hc) | apply stepU_ite)

theorem revFromRevTail_stepU (fl : Flavour) (v : View) (hu : v.step = 1 ∨ v.step = -1) (a b c : Int)
    (hc : c = 1 ∨ c = -1) : StepU (revFromRevTail fl v a b c) := by
  unfold revFromRevTail
  repeat (first | exact stepU_zero fl v | exact stepU_remk v _ _ _ (unit_mul hu hc) | apply stepU_ite)

theorem revFromRev_stepU (fl : Flavour) (v : View) (hu : v.step = 1 ∨ v.step = -1) (a b c : Int)
    (hc : c = 1 ∨ c = -1) : StepU (revFromRev fl v a b c) := by
  unfold revFromRev
  repeat (first | exact stepU_zero fl v | exact revFromRevTail_stepU fl v hu _ _ _ hc | apply stepU_ite)

/-- a slice step that keeps unit stride: `None`, `1` or `-1` -/
def unitStep (c : Option Int) : Prop := c = none ∨ c = some 1 ∨ c = some (-1)

instance (c : Option Int) : Decidable (unitStep c) := by unfold unitStep; infer_instance

theorem getitemSlice_stepU (fl : Flavour) (v : View) (hu : v.step = 1 ∨ v.step = -1) (a b c : Option Int)
    (hc : unitStep c) : StepU (getitemSlice fl v a b c) := by
  have hk : c.getD 1 = 1 ∨ c.getD 1 = -1 := by
    rcases hc with rfl | rfl | rfl <;> simp
  unfold getitemSlice
  apply stepU_ite
  · cases fl
    · exact stepU_remk v _ _ _ hu
    · exact stepU_ok hu
  repeat (first
    | exact stepU_zero fl v | exact stepU_ok hu | exact stepU_err
    | exact fwdFromFwd_stepU fl v hu _ _ _ hk | exact fwdFromRev_stepU fl v hu _ _ _ hk
    | exact revFromFwd_stepU fl v hu _ _ _ hk | exact revFromRev_stepU fl v hu _ _ _ hk
    | apply stepU_ite)

theorem getitemInt_stepU (v : View) (i : Int) : StepU (getitemInt v i) := by
  intro w hw
  unfold getitemInt at hw
  cases hg : getIndex v i with
  | error e => simp [hg, bind, Except.bind] at hw
  | ok r =>
    obtain ⟨a, b, c⟩ := r
    simp [hg, bind, Except.bind] at hw
    have hc : c = 1 ∨ c = -1 := by
      unfold getIndex at hg
      simp only [] at hg
      (repeat' split at hg) <;> cases hg <;> simp
    exact stepU_remk v a b c hc w hw

/-- with the `SeqView` flavour every result keeps `offset` or is the `_zero_slice` -/
def OffGood (v : View) (r : Except Err View) : Prop := ∀ w, r = .ok w → w.offset = v.offset ∨ w = zeroSlice

theorem og_ite {v : View} {c : Prop} [Decidable c] {x y : Except Err View} (hx : OffGood v x)
    (hy : OffGood v y) : OffGood v (if c then x else y) := by
  split <;> assumption

theorem og_zero (v : View) : OffGood v (.ok (zero .seqView v)) := by
  intro w hw; right; rw [← Except.ok.inj hw]; rfl

theorem og_self (v : View) : OffGood v (.ok v) := by
  intro w hw; left; rw [← Except.ok.inj hw]

theorem og_err {v : View} {e : Err} : OffGood v (.error e) := by
  intro w hw; cases hw

theorem og_remk (v : View) (a b K : Int) : OffGood v (remk v a b K) :=
  fun w hw => Or.inl (remk_seqLen v a b K w hw).2

theorem getitemSlice_offset (v w : View) (a b c : Option Int)
    (hw : getitemSlice .seqView v a b c = .ok w) : w.offset = v.offset ∨ w = zeroSlice := by
  have key : OffGood v (getitemSlice .seqView v a b c) := by
    unfold getitemSlice
    apply og_ite (og_remk v _ _ _)
    apply og_ite (og_self v)
    apply og_ite (og_zero v)
    simp only []
    unfold fwdFromFwd fwdFromRev revFromFwd revFromRev revFromRevTail
    repeat (first | exact og_zero v | exact og_remk v _ _ _ | exact og_err | apply og_ite)
  exact key w hw

theorem getitemInt_offset (v w : View) (i : Int) (hw : getitemInt v i = .ok w) :
    w.offset = v.offset := by
  unfold getitemInt at hw
  cases hg : getIndex v i with
  | error e => simp [hg, bind, Except.bind] at hw
  | ok r =>
    obtain ⟨a, b, c⟩ := r
    simp [hg, bind, Except.bind] at hw
    exact (remk_seqLen v a b c w hw).2

/-- a record over an empty parent is empty -/
theorem len_zero_of_seqLen_zero (v : View) (h : Inv v) (h0 : v.seqLen = 0) : len v = 0 := by
  apply len_eq_zero_of_eq
  rcases h.2 with hf | hr <;> omega

end CogentModel.View

namespace CogentModel.SeqWrap
open CogentModel.View CogentModel.FeatureView

/-- an op of a unit-stride history: slices with step `None`/`1`/`-1`, integer indexing, `rc` on nucleic acids -/
def SOp.unit (nucleic : Bool) : SOp → Prop
  | .slice _ _ c => unitStep c
  | .index _ => True
  | .rc => nucleic = true

instance (n : Bool) (op : SOp) : Decidable (op.unit n) := by cases op <;> unfold SOp.unit <;> infer_instance

theorem SOp.unit_ok {n : Bool} {op : SOp} (h : op.unit n) : op.ok n := by
  cases op with
  | slice a b c =>
    simp only [SOp.unit, unitStep] at h
    simp only [SOp.ok]
    rcases h with rfl | rfl | rfl <;> simp
  | index i => trivial
  | rc => exact h

theorem step1_unit (s s' : Seq) (op : SOp) (hw : WF s) (hu : UnitView s.v) (hop : op.unit s.nucleic)
    (h : step1 s op = .ok s') : WF s' ∧ UnitView s'.v ∧ s'.nucleic = s.nucleic := by
  cases op with
  | slice a b c =>
    obtain ⟨h1, h2⟩ := wf_getitem s s' a b c hw h
    refine ⟨h1, ⟨h1.1, ?_⟩, h2⟩
    simp only [step1, getitem] at h
    split at h
    · rename_i w hg
      cases h
      exact getitemSlice_stepU .seqView s.v hu.2 a b c hop w hg
    · cases h
  | index i =>
    obtain ⟨h1, h2⟩ := wf_getitemI s s' i hw h
    refine ⟨h1, ⟨h1.1, ?_⟩, h2⟩
    simp only [step1, getitemI] at h
    split at h
    · rename_i w hg
      cases h
      exact getitemInt_stepU s.v i w hg
    · cases h
  | rc =>
    obtain ⟨h1, h2⟩ := wf_getitem s s' none none (some (-1)) hw h
    refine ⟨h1, ⟨h1.1, ?_⟩, h2⟩
    simp only [step1, rcE, getitem] at h
    split at h
    · rename_i w hg
      cases h
      exact getitemSlice_stepU .seqView s.v hu.2 none none (some (-1)) (Or.inr (Or.inr rfl)) w hg
    · cases h

theorem runOps_unit (ops : List SOp) (s s' : Seq) (hw : WF s) (hu : UnitView s.v)
    (hops : ∀ op ∈ ops, op.unit s.nucleic) (h : runOps s ops = .ok s') :
    WF s' ∧ UnitView s'.v ∧ s'.nucleic = s.nucleic := by
  induction ops generalizing s with
  | nil => simp only [runOps, Except.ok.injEq] at h; subst h; exact ⟨hw, hu, rfl⟩
  | cons op ops ih =>
    unfold runOps at h
    cases hs : step1 s op with
    | error e => simp [hs] at h
    | ok u =>
      simp only [hs] at h
      obtain ⟨h1, h2, h3⟩ := step1_unit s u op hw hu (hops op (by simp)) hs
      obtain ⟨g1, g2, g3⟩ := ih u h1 h2 (fun o ho => by rw [h3]; exact hops o (by simp [ho])) h
      exact ⟨g1, g2, by rw [g3, h3]⟩

/-- what a history keeps: the parent string and the annotation offset -- or the parent is gone
(`_zero_slice`), and then every later view is empty -/
def SameParent (s s' : Seq) : Prop :=
  (s'.parent = s.parent ∧ s'.v.offset = s.v.offset ∧ s'.v.seqLen = s.v.seqLen) ∨ s'.v.seqLen = 0

theorem wrap_sameParent (s : Seq) (w : View) (h1 : w.seqLen = s.v.seqLen ∨ w = zeroSlice)
    (h2 : w.offset = s.v.offset ∨ w = zeroSlice) : SameParent s (wrap s w) := by
  rcases h1 with h1 | h1
  · rcases h2 with h2 | h2
    · left; simp [wrap, h1, h2]
    · right; subst h2; rfl
  · right; subst h1; rfl

theorem step1_sameParent (s s' : Seq) (op : SOp) (h : step1 s op = .ok s') : SameParent s s' := by
  cases op with
  | slice a b c =>
    simp only [step1, getitem] at h
    split at h
    · rename_i w hg
      cases h
      exact wrap_sameParent s w (getitemSlice_seqLen s.v w a b c hg) (getitemSlice_offset s.v w a b c hg)
    · cases h
  | index i =>
    simp only [step1, getitemI] at h
    split at h
    · rename_i w hg
      cases h
      exact wrap_sameParent s w (Or.inl (getitemInt_seqLen s.v w i hg)) (Or.inl (getitemInt_offset s.v w i hg))
    · cases h
  | rc =>
    simp only [step1, rcE, getitem] at h
    split at h
    · rename_i w hg
      cases h
      exact wrap_sameParent s w (getitemSlice_seqLen s.v w _ _ _ hg) (getitemSlice_offset s.v w _ _ _ hg)
    · cases h

theorem sameParent_trans (a b c : Seq) (h1 : SameParent a b) (h2 : SameParent b c) : SameParent a c := by
  rcases h2 with ⟨p2, o2, l2⟩ | z2
  · rcases h1 with ⟨p1, o1, l1⟩ | z1
    · left; exact ⟨p2.trans p1, o2.trans o1, l2.trans l1⟩
    · right; rw [l2]; exact z1
  · right; exact z2

theorem runOps_sameParent (ops : List SOp) (s s' : Seq) (h : runOps s ops = .ok s') : SameParent s s' := by
  induction ops generalizing s with
  | nil => simp only [runOps, Except.ok.injEq] at h; subst h; left; exact ⟨rfl, rfl, rfl⟩
  | cons op ops ih =>
    unfold runOps at h
    cases hs : step1 s op with
    | error e => simp [hs] at h
    | ok u =>
      simp only [hs] at h
      exact sameParent_trans s u s' (step1_sameParent s u op hs) (ih u h)

/-- a non-empty view reached by a history still reads the ORIGINAL parent string at the ORIGINAL offset -/
theorem runOps_parent (ops : List SOp) (s s' : Seq) (hw' : WF s') (h : runOps s ops = .ok s')
    (hl : 0 < len s'.v) : s'.parent = s.parent ∧ s'.v.offset = s.v.offset := by
  rcases runOps_sameParent ops s s' h with ⟨p, o, _⟩ | z
  · exact ⟨p, o⟩
  · have := len_zero_of_seqLen_zero s'.v hw'.1 z
    omega

end CogentModel.SeqWrap
