import CogentModel.Proofs.ClustalDecor
import CogentModel.Spec.ClustalDecoratedCheck
/-! soundness of the executable recogniser of decorated Clustal files -/
namespace CogentModel.Clustal
open CogentModel.SeqFormats CogentModel.ClustalSpec

theorem dropPrefix?_sound : ∀ (p l r : Str), dropPrefix? p l = some r → l = p ++ r
  | [], l, r, h => by simp [dropPrefix?] at h; simp [h]
  | _ :: _, [], r, h => by simp [dropPrefix?] at h
  | a :: p, b :: l, r, h => by
    unfold dropPrefix? at h
    by_cases hab : a = b
    · subst hab
      simp only [if_true] at h
      rw [dropPrefix?_sound p l r h]; rfl
    · simp [hab] at h

theorem mem_takeWhile_p (p : Char → Bool) : ∀ (s : Str) (c : Char), c ∈ s.takeWhile p → p c = true
  | [], _, h => by simp at h
  | a :: s, c, h => by
    by_cases ha : p a = true
    · rw [List.takeWhile_cons_of_pos ha] at h
      rcases List.mem_cons.mp h with rfl | h'
      · exact ha
      · exact mem_takeWhile_p p s c h'
    · rw [List.takeWhile_cons_of_neg ha] at h
      simp at h

theorem allWs_takeWhile (s : Str) : AllWs (s.takeWhile isSpaceStr) := by
  intro c hc
  exact mem_takeWhile_p _ _ _ hc

theorem isSeqLineOf_sound {n c l : Str} (h : isSeqLineOf n c l = true) : SeqLineOf n c l := by
  unfold isSeqLineOf at h
  cases h1 : dropPrefix? n l with
  | none => simp [h1] at h
  | some r1 =>
    simp only [h1, Bool.and_eq_true, Bool.not_eq_true'] at h
    obtain ⟨hw1, h⟩ := h
    cases h3 : dropPrefix? c (r1.dropWhile isSpaceStr) with
    | none => simp [h3] at h
    | some r3 =>
      simp only [h3, Bool.or_eq_true, Bool.and_eq_true, Bool.not_eq_true'] at h
      have e1 := dropPrefix?_sound _ _ _ h1
      have e3 := dropPrefix?_sound _ _ _ h3
      have er1 : r1 = r1.takeWhile isSpaceStr ++ (c ++ r3) := by
        rw [← e3]; exact (List.takeWhile_append_dropWhile).symm
      have hne1 : r1.takeWhile isSpaceStr ≠ [] := by
        intro e; rw [e] at hw1; simp at hw1
      rcases h with h | ⟨⟨hw2, hint⟩, hw3⟩
      · have : l = n ++ r1.takeWhile isSpaceStr ++ c ++ r3 := by
          rw [e1]; conv => lhs; rw [er1]
          simp [List.append_assoc]
        rw [this]
        exact .plain _ _ hne1 (allWs_takeWhile r1) (fun x hx => List.all_eq_true.mp h x hx)
      · have hne2 : r3.takeWhile isSpaceStr ≠ [] := by
          intro e; rw [e] at hw2; simp at hw2
        have er3 : r3 = r3.takeWhile isSpaceStr ++
            ((r3.dropWhile isSpaceStr).takeWhile (fun x => !isSpaceStr x) ++
              (r3.dropWhile isSpaceStr).dropWhile (fun x => !isSpaceStr x)) := by
          rw [List.takeWhile_append_dropWhile, List.takeWhile_append_dropWhile]
        have : l = n ++ r1.takeWhile isSpaceStr ++ c ++ r3.takeWhile isSpaceStr ++
            (r3.dropWhile isSpaceStr).takeWhile (fun x => !isSpaceStr x) ++
            (r3.dropWhile isSpaceStr).dropWhile (fun x => !isSpaceStr x) := by
          rw [e1]; conv => lhs; rw [er1, er3]
          simp [List.append_assoc]
        rw [this]
        refine .counted _ _ _ _ hne1 (allWs_takeWhile r1) hne2 (allWs_takeWhile r3) ?_ hint
          (fun x hx => List.all_eq_true.mp hw3 x hx)
        intro x hx
        have := mem_takeWhile_p _ _ _ hx
        simpa using this

theorem checkDecorated_sound' : ∀ (lines : List Str) (ps : List (Str × Str)),
    checkDecorated ps lines = true → Decorated ps lines
  | [], [], _ => .nil
  | [], _ :: _, h => by simp [checkDecorated] at h
  | l :: ls, ps, h => by
    unfold checkDecorated at h
    by_cases hl : isSeqLine l = true
    · simp only [hl, Bool.not_true, Bool.false_eq_true, if_false] at h
      cases ps with
      | nil => simp at h
      | cons p ps' =>
        simp only [Bool.and_eq_true] at h
        exact .seq p l (isSeqLineOf_sound h.1) (checkDecorated_sound' ls ps' h.2)
    · have hl' : isSeqLine l = false := by simpa using hl
      simp only [hl', Bool.not_false, if_true] at h
      exact .deco l hl' (checkDecorated_sound' ls ps h)

end CogentModel.Clustal
