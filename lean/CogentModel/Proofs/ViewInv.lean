import CogentModel.Model.View
/-! Helper lemmas for C01: the representation invariant of slice records. -/
namespace CogentModel.View

/-- The representation invariant of slice records: forward views hold
non-negative in-range bounds, reversed views hold negative indices. -/
def Inv (v : View) : Prop :=
  0 ≤ v.seqLen ∧
  ((0 < v.step ∧ 0 ≤ v.start ∧ v.start ≤ v.stop ∧ v.stop ≤ v.seqLen) ∨
   (v.step < 0 ∧ -v.seqLen - 1 ≤ v.stop ∧ v.stop ≤ v.start ∧ v.start ≤ -1))

instance (v : View) : Decidable (Inv v) := by unfold Inv; infer_instance

theorem inputValsNeg_inv (n : Int) (hn : 0 ≤ n) (start stop : Option Int) (k : Int) (hk : k < 0) :
    (0 < (inputValsNeg n start stop k).2.2 ∧ 0 ≤ (inputValsNeg n start stop k).1 ∧
      (inputValsNeg n start stop k).1 ≤ (inputValsNeg n start stop k).2.1 ∧ (inputValsNeg n start stop k).2.1 ≤ n) ∨
    ((inputValsNeg n start stop k).2.2 < 0 ∧ -n - 1 ≤ (inputValsNeg n start stop k).2.1 ∧
      (inputValsNeg n start stop k).2.1 ≤ (inputValsNeg n start stop k).1 ∧ (inputValsNeg n start stop k).1 ≤ -1) := by
  unfold inputValsNeg inputValsNegTail
  cases start <;> cases stop <;> simp only [] <;> (repeat' split) <;> simp only [] <;> omega

theorem inputValsPos_inv (n : Int) (hn : 0 ≤ n) (start stop : Option Int) (k : Int) (hk : 0 < k) :
    (0 < (inputValsPos n start stop k).2.2 ∧ 0 ≤ (inputValsPos n start stop k).1 ∧
      (inputValsPos n start stop k).1 ≤ (inputValsPos n start stop k).2.1 ∧ (inputValsPos n start stop k).2.1 ≤ n) ∨
    ((inputValsPos n start stop k).2.2 < 0 ∧ -n - 1 ≤ (inputValsPos n start stop k).2.1 ∧
      (inputValsPos n start stop k).2.1 ≤ (inputValsPos n start stop k).1 ∧ (inputValsPos n start stop k).1 ≤ -1) := by
  unfold inputValsPos pyabs
  cases start <;> cases stop <;> simp only [] <;> (repeat' split) <;> simp only [] <;> omega

theorem mk_inv' (n : Int) (hn : 0 ≤ n) (start stop step : Option Int) (offset : Int) (v : View)
    (h : mk n start stop step offset = .ok v) : Inv v := by
  unfold mk at h
  split at h
  · cases h
  · rename_i hs
    simp only [Except.ok.injEq] at h
    subst h
    refine ⟨hn, ?_⟩
    by_cases hpos : step.getD 1 > 0
    · simp only [hpos, if_true]
      exact inputValsPos_inv n hn start stop _ hpos
    · simp only [hpos, if_false]
      have hne : step.getD 1 ≠ 0 := by
        cases step with
        | none => simp
        | some s => simp at hs ⊢; exact hs
      exact inputValsNeg_inv n hn start stop _ (by omega)

theorem zero_inv (fl : Flavour) (v : View) (h : Inv v) : Inv (zero fl v) := by
  cases fl <;> simp [zero, zeroSlice, zeroSliceData, Inv] <;> exact h.1

end CogentModel.View
