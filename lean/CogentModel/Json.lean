/-
  A small import-free JSON value type with parser and printer, used by the
  driver line protocol.  Numbers are arbitrary precision integers; anything
  fractional travels as a string "num/den" and is parsed by `J.toRat?`.
  (Not part of any theorem: it is part of the correspondence harness.)
-/
namespace CogentModel

inductive J where
  | null
  | bool (b : Bool)
  | num (n : Int)
  | str (s : String)
  | arr (xs : List J)
  | obj (kvs : List (String × J))
  deriving Inhabited, Repr

namespace J

private def hexDigit (n : Nat) : Char :=
  if n < 10 then Char.ofNat (48 + n) else Char.ofNat (87 + n)

def escape (s : String) : String := Id.run do
  let mut out := "\""
  for c in s.toList do
    if c = '"' then out := out ++ "\\\""
    else if c = '\\' then out := out ++ "\\\\"
    else if c = '\n' then out := out ++ "\\n"
    else if c = '\r' then out := out ++ "\\r"
    else if c = '\t' then out := out ++ "\\t"
    else if c.toNat < 32 || c.toNat > 126 then
      let n := c.toNat
      if n < 65536 then
        out := out ++ "\\u" ++ String.ofList
          [hexDigit (n / 4096 % 16), hexDigit (n / 256 % 16), hexDigit (n / 16 % 16), hexDigit (n % 16)]
      else
        let m := n - 65536
        let hi := 0xD800 + m / 1024
        let lo := 0xDC00 + m % 1024
        for n in [hi, lo] do
          out := out ++ "\\u" ++ String.ofList
            [hexDigit (n / 4096 % 16), hexDigit (n / 256 % 16), hexDigit (n / 16 % 16), hexDigit (n % 16)]
    else out := out.push c
  return out.push '"'

partial def render : J → String
  | null => "null"
  | bool true => "true"
  | bool false => "false"
  | num n => toString n
  | str s => escape s
  | arr xs => "[" ++ ",".intercalate (xs.map render) ++ "]"
  | obj kvs => "{" ++ ",".intercalate (kvs.map fun (k, v) => escape k ++ ":" ++ render v) ++ "}"

/-- parser state: remaining characters -/
abbrev P := StateT (List Char) (Except String)

private def skipWs : P Unit := modify fun cs => cs.dropWhile fun c => c = ' ' || c = '\n' || c = '\t' || c = '\r'

private def peek : P (Option Char) := do return (← get).head?

private def next : P Char := do
  match (← get) with
  | [] => throw "unexpected end"
  | c :: cs => set cs; return c

private def expect (c : Char) : P Unit := do
  let d ← next
  if d ≠ c then throw s!"expected {c} got {d}"

private def hexVal (c : Char) : P Nat :=
  if '0' ≤ c ∧ c ≤ '9' then pure (c.toNat - 48)
  else if 'a' ≤ c ∧ c ≤ 'f' then pure (c.toNat - 87)
  else if 'A' ≤ c ∧ c ≤ 'F' then pure (c.toNat - 55)
  else throw "bad hex"

private def hex4 : P Nat := do
  let a ← hexVal (← next); let b ← hexVal (← next); let c ← hexVal (← next); let d ← hexVal (← next)
  return a * 4096 + b * 256 + c * 16 + d

private partial def parseStrBody (acc : String) : P String := do
  let c ← next
  if c = '"' then return acc
  else if c = '\\' then
    let e ← next
    match e with
    | 'n' => parseStrBody (acc.push '\n')
    | 't' => parseStrBody (acc.push '\t')
    | 'r' => parseStrBody (acc.push '\r')
    | 'b' => parseStrBody (acc.push (Char.ofNat 8))
    | 'f' => parseStrBody (acc.push (Char.ofNat 12))
    | 'u' =>
      let n ← hex4
      if 0xD800 ≤ n ∧ n < 0xDC00 then
        expect '\\'; expect 'u'
        let lo ← hex4
        parseStrBody (acc.push (Char.ofNat (65536 + (n - 0xD800) * 1024 + (lo - 0xDC00))))
      else parseStrBody (acc.push (Char.ofNat n))
    | c => parseStrBody (acc.push c)
  else parseStrBody (acc.push c)

private partial def parseDigits (acc : Nat) (any : Bool) : P (Nat × Bool) := do
  match (← peek) with
  | some c => if c.isDigit then do let _ ← next; parseDigits (acc * 10 + (c.toNat - 48)) true else return (acc, any)
  | none => return (acc, any)

mutual
private partial def parseVal : P J := do
  skipWs
  match (← peek) with
  | none => throw "empty"
  | some 'n' => for c in "null".toList do expect c
                return null
  | some 't' => for c in "true".toList do expect c
                return bool true
  | some 'f' => for c in "false".toList do expect c
                return bool false
  | some '"' => let _ ← next; return str (← parseStrBody "")
  | some '[' => let _ ← next; skipWs
                if (← peek) = some ']' then let _ ← next; return arr []
                parseArr []
  | some '{' => let _ ← next; skipWs
                if (← peek) = some '}' then let _ ← next; return obj []
                parseObj []
  | some '-' => let _ ← next
                let (n, ok) ← parseDigits 0 false
                if !ok then throw "bad number"
                return num (-(n : Int))
  | some c => if c.isDigit then do
                let (n, _) ← parseDigits 0 false
                return num n
              else throw s!"unexpected {c}"
private partial def parseArr (acc : List J) : P J := do
  let v ← parseVal
  skipWs
  let c ← next
  if c = ',' then parseArr (v :: acc)
  else if c = ']' then return arr (v :: acc).reverse
  else throw "bad array"
private partial def parseObj (acc : List (String × J)) : P J := do
  skipWs
  expect '"'
  let k ← parseStrBody ""
  skipWs; expect ':'
  let v ← parseVal
  skipWs
  let c ← next
  if c = ',' then parseObj ((k, v) :: acc)
  else if c = '}' then return obj ((k, v) :: acc).reverse
  else throw "bad object"
end

def parse (s : String) : Except String J :=
  match (parseVal.run s.toList) with
  | .ok (v, _) => .ok v
  | .error e => .error e

/-! accessors (all in `Except String`) -/

def get (j : J) (k : String) : Except String J :=
  match j with
  | obj kvs => match kvs.find? (·.1 = k) with
    | some (_, v) => pure v
    | none => throw s!"missing key {k}"
  | _ => throw s!"not an object (key {k})"

def get? (j : J) (k : String) : Option J :=
  match j with
  | obj kvs => (kvs.find? (·.1 = k)).map (·.2)
  | _ => none

def toInt : J → Except String Int
  | num n => pure n
  | _ => throw "not an int"

def toNat : J → Except String Nat
  | num n => if 0 ≤ n then pure n.toNat else throw "negative"
  | _ => throw "not a nat"

def toOptInt : J → Except String (Option Int)
  | null => pure none
  | num n => pure (some n)
  | _ => throw "not an int/null"

def toStr : J → Except String String
  | str s => pure s
  | _ => throw "not a string"

def toBool : J → Except String Bool
  | bool b => pure b
  | _ => throw "not a bool"

def toList : J → Except String (List J)
  | arr xs => pure xs
  | _ => throw "not an array"

def toListOf {α} (f : J → Except String α) (j : J) : Except String (List α) := do
  (← j.toList).mapM f

def toPairOf {α β} (f : J → Except String α) (g : J → Except String β) (j : J) : Except String (α × β) := do
  match ← j.toList with
  | [a, b] => return (← f a, ← g b)
  | _ => throw "not a pair"

/-- "num/den" or "num" or a JSON integer -/
def toRat : J → Except String Rat
  | num n => pure (n : Rat)
  | str s =>
    match s.splitOn "/" with
    | [a] => match a.toInt? with
      | some n => pure (n : Rat)
      | none => throw s!"bad rat {s}"
    | [a, b] => match a.toInt?, b.toNat? with
      | some n, some d => if d = 0 then throw "zero den" else pure ((n : Rat) / (d : Rat))
      | _, _ => throw s!"bad rat {s}"
    | _ => throw s!"bad rat {s}"
  | _ => throw "not a rat"

def ofRat (q : Rat) : J := str (toString q.num ++ "/" ++ toString q.den)
def ofInt (n : Int) : J := num n
def ofNat (n : Nat) : J := num n
def ofOptInt : Option Int → J
  | none => null
  | some n => num n
def ofList {α} (f : α → J) (xs : List α) : J := arr (xs.map f)
def ofStr (s : String) : J := str s

end J

/-- Generic driver loop: each line is `<cmd> <json>`; reply is one JSON line. -/
partial def driverLoop (handle : String → J → Except String J) : IO Unit := do
  let stdin ← IO.getStdin
  let stdout ← IO.getStdout
  let rec go : IO Unit := do
    let line ← stdin.getLine
    if line.isEmpty then return ()
    let line := String.ofList ((line.toList.reverse.dropWhile fun c => c = '\n' || c = '\r').reverse)
    let (cmd, rest) := match line.splitOn " " with
      | c :: r => (c, " ".intercalate r)
      | [] => ("", "")
    let res := do
      let j ← J.parse rest
      handle cmd j
    match res with
    | .ok j => stdout.putStrLn j.render
    | .error e => stdout.putStrLn (J.obj [("error", J.str e)]).render
    go
  go
  stdout.flush

end CogentModel
