import CogentModel.Json
import CogentModel.Model.Distance
import CogentModel.Model.NJ
import CogentModel.Model.UPGMA
open CogentModel

namespace C15Driver
open CogentModel.Distance

def r (q : Rat) : J := J.ofRat q

def statJ : Stat → J
  | .invalid => J.obj [("k", J.str "invalid")]
  | .nan => J.obj [("k", J.str "nan")]
  | .zero => J.obj [("k", J.str "zero")]
  | .absent => J.obj [("k", J.str "absent")]
  | .hamming t p d => J.obj [("k", J.str "hamming"), ("total", r t), ("p", r p), ("dist", r d)]
  | .jc69 t p f => J.obj [("k", J.str "jc69"), ("total", r t), ("p", r p), ("factor", r f)]
  | .tn93 t p c1 c2 c3 t1 t2 t3 =>
    J.obj [("k", J.str "tn93"), ("total", r t), ("p", r p), ("c", J.arr [r c1, r c2, r c3]), ("t", J.arr [r t1, r t2, r t3])]
  | .paralinear t p d pr => J.obj [("k", J.str "paralinear"), ("total", r t), ("p", r p), ("det", r d), ("prod", r pr)]
  | .logdetTK t p c d pr =>
    J.obj [("k", J.str "logdetTK"), ("total", r t), ("p", r p), ("coeff", r c), ("det", r d), ("prod", r pr)]
  | .logdet t p d => J.obj [("k", J.str "logdet"), ("total", r t), ("p", r p), ("det", r d)]

def parseCalc (s : String) : Except String Calc :=
  match s with
  | "hamming" => pure .hamming
  | "pdist" => pure .pdist
  | "jc69" => pure .jc69
  | "tn93" => pure .tn93
  | "paralinear" => pure .paralinear
  | "logdet" => pure .logdet
  | "logdet_notk" => pure .logdetNoTK
  | _ => throw s!"bad calc {s}"

def parseSeqs (j : J) : Except String (List (List Int)) := j.toListOf (J.toListOf J.toInt)

def parseMat (j : J) : Except String (List (List Rat)) := j.toListOf (J.toListOf J.toRat)

open CogentModel.NJ in
partial def treeJ : T → J
  | .tip x => J.obj [("t", J.num x)]
  | .bin l1 t1 l2 t2 => J.obj [("c", J.arr [J.arr [r l1, treeJ t1], J.arr [r l2, treeJ t2]])]

open CogentModel.UPGMA in
partial def utreeJ : U → J
  | .tip x => J.obj [("t", J.num x)]
  | .node c1 l1 c2 l2 => J.obj [("c", J.arr [J.arr [r l1, utreeJ c1], J.arr [r l2, utreeJ c2]])]

end C15Driver
open C15Driver CogentModel.Distance

def handle (cmd : String) (j : J) : Except String J :=
  match cmd with
  | "dist" => do
    let c ← parseCalc (← (← j.get "calc").toStr)
    let seqs ← parseSeqs (← j.get "seqs")
    let st := run c seqs
    let d := expand seqs.length st
    let n := seqs.length
    let mat := (List.range n).map fun a => (List.range n).map fun b => cell d a b
    pure (J.obj [("matrix", J.arr (mat.map fun row => J.arr (row.map statJ))),
                 ("raised", J.bool st.raised),
                 ("dupes", J.arr (st.dupes.map J.ofNat)),
                 ("duped", J.arr (st.duped.map fun p => J.arr [J.ofNat p.1, J.ofNat p.2]))])
  | "pair" => do
    let c ← parseCalc (← (← j.get "calc").toStr)
    let s1 ← (← j.get "s1").toListOf J.toInt
    let s2 ← (← j.get "s2").toListOf J.toInt
    let m := countsOf s1 s2
    pure (J.obj [("stat", statJ (stat c m)), ("dup", J.bool (!hasOffDiag m)),
                 ("counts", J.arr ((List.range 4).map fun a => J.arr ((List.range 4).map fun b => r (m a b))))])
  | "nj" => do
    let n ← (← j.get "n").toNat
    let d ← parseMat (← j.get "d")
    if n < 2 then throw "n < 2"
    let root := NJ.nj n d
    let joins := if n = 2 then [] else NJ.njTrace NJ.pickPair n (NJ.star n d)
    pure (J.obj [("root", J.arr (root.map fun p => J.arr [r p.1, treeJ p.2])),
                 ("joins", J.arr (joins.map fun p => J.arr [J.ofNat p.1, J.ofNat p.2])),
                 ("certified", J.bool (if n = 2 then false else NJ.njCertified n d))])
  | "upgma" => do
    let n ← (← j.get "n").toNat
    let d ← parseMat (← j.get "d")
    let big ← (← j.get "big").toRat
    match UPGMA.upgma n d big with
    | some t => pure (J.obj [("tree", utreeJ t), ("certified", J.bool (UPGMA.upgmaCertified n d big))])
    | none => pure (J.obj [("tree", J.null)])
  | _ => throw s!"unknown command {cmd}"

def main : IO Unit := driverLoop handle
