import CogentModel.Json
import CogentModel.Model.GeneticCode
import CogentModel.Spec.GeneticCode
import CogentModel.Gen.C12Code
import CogentModel.Model.GeneticCodeState
open CogentModel CogentModel.GC CogentModel.C12Tables CogentModel.GCP CogentModel.Gen.C12Code

def pyErrStr : PyErr → String
  | .valueError => "ValueError"
  | .alphabetError => "AlphabetError"
  | .invalidCodon => "InvalidCodonError"
  | .typeError => "TypeError"
  | .other => "Exception"

def exP {α} (f : α → J) : Except PyErr α → J
  | .ok a => f a
  | .error e => J.obj [("err", J.str (pyErrStr e))]

def itemJ : Item → J
  | .str s => J.str (String.ofList s)
  | .strs l => J.arr (l.map fun w => J.str (String.ofList w))

def findFull (codes : List (Nat × List Char × List Char)) (id : Nat) : Except String (List Char × List Char) :=
  match codes.find? (·.1 = id) with
  | some c => pure c.2
  | none => throw s!"no code {id}"

def errStr : Err → String
  | .valueError => "ValueError"
  | .alphabetError => "AlphabetError"
  | .invalidCodon => "InvalidCodonError"

def sJ (cs : List Char) : J := J.str (String.ofList cs)

def exJ {α} (f : α → J) : Except Err α → J
  | .ok a => f a
  | .error e => J.obj [("err", J.str (errStr e))]

def getS (j : J) (k : String) : Except String (List Char) := do
  pure (← (← j.get k).toStr).toList

def findCode (codes : List (Nat × List Char × List Char)) (id : Nat) : Except String (List Char) :=
  match codes.find? (·.1 = id) with
  | some c => pure c.2.1
  | none => throw s!"no code {id}"

def getMT (name : String) : Except String MT :=
  match name with
  | "olddna" => pure oldDna
  | "oldrna" => pure oldRna
  | "newdna" => pure newDna
  | "newrna" => pure newRna
  | s => throw s!"bad moltype {s}"

def codesJ (codes : List (Nat × List Char × List Char)) (names : List (Nat × String)) : J :=
  J.arr (codes.map fun (i, s, st) =>
    J.arr [J.num i, J.str ((names.find? (·.1 = i)).map (·.2) |>.getD ""), sJ s, sJ st])

def mtJ (mt : MT) : J :=
  J.obj [("chars", sJ mt.chars), ("gap", sJ [mt.gap]), ("missing", sJ [mt.missing]),
         ("ambig", J.arr (mt.ambig.map fun (k, v) => J.arr [sJ [k], sJ v])),
         ("compl", J.arr (mt.compl.map fun (k, v) => J.arr [sJ [k], sJ [v]]))]

def framesJ (fs : List (Bool × Nat × List Char)) : J :=
  J.arr (fs.map fun (m, k, t) => J.arr [J.str (if m then "-" else "+"), J.num k, sJ t])

def handle (cmd : String) (j : J) : Except String J :=
  match cmd with
  | "tables" =>
    pure (J.obj [("old_codes", codesJ oldCodes oldCodesNames), ("new_codes", codesJ newCodes newCodesNames),
                 ("olddna", mtJ oldDna), ("oldrna", mtJ oldRna), ("newdna", mtJ newDna), ("newrna", mtJ newRna)])
  | "codontable" => do
    -- every codon over the given alphabet through the four modelled look-ups
    let id ← (← j.get "code").toNat
    let alpha ← getS j "alpha"
    let cods := product3 alpha
    let nseq ← findCode newCodes id
    let g := mkNewGC newDna nseq
    let idxOf := fun (w : List Char) =>
      match w.map (monoIdx g.alpha) with
      | [a, b, c] => kmerIdx g.ns g.gci g.gi a b c
      | _ => 0
    let plus := cods.map fun w => g.plus (idxOf w)
    let minus := cods.map fun w => g.minus (idxOf w)
    let nget := cods.map (newGetItem newDna nseq)
    let oget ← match oldCodes.find? (·.1 = id) with
      | some c => pure (sJ (cods.map (oldGetItem c.2.1)))
      | none => pure J.null
    pure (J.obj [("plus", sJ plus), ("minus", sJ minus), ("newget", sJ nget), ("oldget", oget),
                 ("spec", sJ (cods.map (GCSpec.aa nseq)))])
  | "translate" => do
    let id ← (← j.get "code").toNat
    let s ← getS j "s"
    let start ← (← j.get "start").toNat
    match ← (← j.get "impl").toStr with
    | "new" => do
      let rc ← (← j.get "rc").toBool
      pure (sJ (newTranslate newDna (← findCode newCodes id) s start rc))
    | "old" => pure (exJ sJ (oldTranslate (← findCode oldCodes id) s start))
    | w => throw s!"bad impl {w}"
  | "sixframes" => do
    let id ← (← j.get "code").toNat
    let s ← getS j "s"
    match ← (← j.get "impl").toStr with
    | "new" => pure (framesJ (newSixframes newDna (← findCode newCodes id) s))
    | "old" => pure (exJ (fun fs => J.arr (fs.map sJ)) (oldSixframes oldDna (← findCode oldCodes id) s))
    | w => throw s!"bad impl {w}"
  | "seqtr" => do
    let id ← (← j.get "code").toNat
    let s ← getS j "s"
    let io ← (← j.get "incomplete_ok").toBool
    let is_ ← (← j.get "include_stop").toBool
    let ts ← (← j.get "trim_stop").toBool
    match ← (← j.get "impl").toStr with
    | "new" => pure (exJ sJ (newSeqGetTranslation newDna (← findCode newCodes id) s io is_ ts))
    | "old" => pure (exJ sJ (oldSeqGetTranslation (← findCode oldCodes id) s io is_ ts))
    | w => throw s!"bad impl {w}"
  | "sym" => do
    let name ← (← j.get "mt").toStr
    let mt ← getMT name
    let old := name.startsWith "old"
    let arg ← getS j "arg"
    match ← (← j.get "op").toStr with
    | "complement" => pure (sJ (if old then oldComplement mt arg else newComplement mt arg))
    | "rc" => pure (sJ (if old then oldRc mt arg else newRc mt arg))
    | "resolve" =>
      match arg with
      | [c] => pure (exJ sJ (if old then (oldResolve mt c).map toSet else newResolve mt c))
      | _ => throw "resolve: one symbol"
    | "what" => pure (sJ [if old then oldWhatAmbiguity mt arg else newDegenerateFromSeq mt arg])
    | "baseset" =>
      match arg with
      | [c] => pure (sJ (GCSpec.baseSet mt.chars mt.gap mt.missing mt.ambig c))
      | _ => throw "baseset: one symbol"
    | "wcset" =>
      -- spec side of `complement_is_set_complement`: the base set of the symbol, complemented base by base
      match arg with
      | [c] =>
        let u : Char := if name.endsWith "rna" then 'U' else 'T'
        pure (sJ (GCSpec.toSet ((GCSpec.baseSet mt.chars mt.gap mt.missing mt.ambig c).map (GCSpec.wcBase u))))
      | _ => throw "wcset: one symbol"
    | w => throw s!"bad op {w}"
  | "spec" => do
    -- the specification itself (validated against an independent Python oracle each run)
    let id ← (← j.get "code").toNat
    let s ← getS j "s"
    let code ← findCode newCodes id
    match ← (← j.get "what").toStr with
    | "sixframes" => pure (framesJ (GCSpec.sixframes code s))
    | "get_translation" => do
      let io ← (← j.get "incomplete_ok").toBool
      let is_ ← (← j.get "include_stop").toBool
      let ts ← (← j.get "trim_stop").toBool
      match GCSpec.getTranslation code s io is_ ts with
      | .pep p => pure (sJ p)
      | .rejected => pure (J.obj [("err", J.str "rejected")])
    | w => throw s!"bad what {w}"
  | "specgen" => do
    -- the general (RNA / lower case / gapped / ambiguous) specification, validated against the Python oracle
    let id ← (← j.get "code").toNat
    let s ← getS j "s"
    match ← (← j.get "impl").toStr with
    | "old" => pure (sJ (GCSpec.translateOld (← findCode oldCodes id) s))
    | "new" => pure (sJ (GCSpec.translateNew (← findCode newCodes id) s))
    | w => throw s!"bad impl {w}"
  | "coll" => do
    -- collection-level model: rows are gap-free strings
    let id ← (← j.get "code").toNat
    let rows := (← (← j.get "rows").toList)
    let rows ← rows.mapM fun r => do pure (← r.toStr).toList
    let old := (← (← j.get "impl").toStr) == "old"
    let seq ← findCode (if old then oldCodes else newCodes) id
    let getItem := if old then oldGetItem seq else newGetItem newDna seq
    let rowsJ := fun (rs : List (List Char)) => J.arr (rs.map sJ)
    match ← (← j.get "op").toStr with
    | "get_translation" => do
      let io ← (← j.get "incomplete_ok").toBool
      let is_ ← (← j.get "include_stop").toBool
      let ts ← (← j.get "trim_stop").toBool
      pure (exJ rowsJ (if old then oldCollGetTranslation seq rows io is_ ts else newCollGetTranslation newDna seq rows io is_ ts))
    | "has_terminal_stop" => pure (exJ J.bool (collHasTerminalStop getItem rows (← (← j.get "strict").toBool)))
    | "trim_stop_codons" => pure (exJ rowsJ (collTrimStopCodons getItem rows (← (← j.get "strict").toBool)))
    | "aln_trim_stop_codons" => pure (exJ rowsJ (alnTrimStopCodons getItem rows (← (← j.get "strict").toBool)))
    | w => throw s!"bad op {w}"
  | "collstate" => do
    -- DERIVED STATE of a new-style collection (Model/GeneticCodeState.lean): stored rows + reversed flags, `nrc` calls of rc()
    let id ← (← j.get "code").toNat
    let data := (← (← j.get "data").toList)
    let data ← data.mapM fun r => do
      let kv ← r.toList
      match kv with
      | [k, v] => pure ((← k.toStr).toList, (← v.toStr).toList)
      | _ => throw "bad data item"
    let seq ← findCode newCodes id
    let getItem := newGetItem newDna seq
    let rcf := newRc newDna
    let sd := GCS.SD.rcTimes (← (← j.get "nrc").toNat) (GCS.SD.fresh data)
    let fwd ← (← j.get "fwd").toBool
    let rowsJ := fun (rs : List (List Char)) => J.arr (rs.map sJ)
    let sdJ := fun (r : GCS.SD) => J.obj [("names", rowsJ r.names), ("rows", rowsJ (r.rows rcf)), ("stored", rowsJ (r.data.map (·.2)))]
    match ← (← j.get "op").toStr with
    | "display" => pure (sdJ sd)
    | "get_translation" => do
      let io ← (← j.get "incomplete_ok").toBool
      let is_ ← (← j.get "include_stop").toBool
      let ts ← (← j.get "trim_stop").toBool
      pure (exJ (fun r => rowsJ (r.rows List.reverse)) (GCS.SD.getTranslation fwd rcf newDna seq sd io is_ ts))
    | "has_terminal_stop" => pure (exJ J.bool (GCS.SD.hasTerminalStop rcf getItem sd (← (← j.get "strict").toBool)))
    | "trim_stop_codons" => pure (exJ (fun r => rowsJ (r.rows rcf)) (GCS.SD.trimStopCodons fwd rcf getItem sd (← (← j.get "strict").toBool)))
    | w => throw s!"bad op {w}"
  | "gen" => do
    -- the TRANSLATED functions (Gen/C12Code.lean, regenerated from the source each run), executed
    let id ← (← j.get "code").toNat
    let s ← getS j "s"
    let (oseq, ost) ← findFull oldCodes id
    let (nseq, _) ← findFull newCodes id
    let og := mkOldGC oseq ost
    let ng := mkNewGCO newDna nseq
    let dictJ := fun (d : List (List Char × List Char)) => J.arr (d.map fun kv => J.arr [sJ kv.1, sJ kv.2])
    let dictLJ := fun (d : List (List Char × List (List Char))) => J.arr (d.map fun kv => J.arr [sJ kv.1, J.arr (kv.2.map sJ)])
    match ← (← j.get "fn").toStr with
    | "objects" => pure (J.obj [("old_codons", dictJ og.codons), ("old_synonyms", dictLJ og.synonyms),
        ("old_start_codons", dictJ og.start_codons), ("new_codon_to_aa", dictJ ng.codon_to_aa),
        ("new_aa_to_codon", dictLJ ng.aa_to_codon)])
    | "old_getitem" => pure (exP itemJ (old_getitem og s))
    | "new_getitem" => pure (exP itemJ (new_getitem ng s))
    | "old_is_stop" => pure (exP J.bool (old_is_stop og s))
    | "new_is_stop" => pure (exP J.bool (new_is_stop ng s))
    | "old_is_start" => pure (exP J.bool (old_is_start og s))
    | "old_simple_rc" => pure (exP sJ (old_simple_rc s))
    | "new_get_start_codon_indices" => pure (exP (fun l => J.arr (l.map fun i => J.num i)) (new_get_start_codon_indices s))
    | "old_translate" => pure (exP sJ (old_translate og s (← (← j.get "start").toInt)))
    | "new_translate" => pure (exP sJ (new_translate ng (Dna.ofStr s) (← (← j.get "start").toInt) (← (← j.get "rc").toBool)))
    | "old_sixframes" => pure (exP (fun fs => J.arr (fs.map sJ)) (old_sixframes og s))
    | "new_sixframes" => pure (exP (fun fs => J.arr (fs.map fun x => J.arr [sJ x.1, J.num x.2.1, sJ x.2.2])) (new_sixframes ng (Dna.ofStr s)))
    | "env" =>
      -- the UNTRANSLATED environment of old `Sequence.get_translation` (tables / hand-modelled helpers), compared with the runtime objects
      let ambJ := fun (d : List (Char × List Char)) => J.arr (d.map fun kv => J.arr [sJ [kv.1], sJ kv.2])
      let pmJ := fun (p : PM) => J.obj [("nchars", J.num p.nchars), ("missing", sJ [p.missing]), ("ambiguities", ambJ p.ambigs)]
      pure (J.obj [("protein", pmJ (protMoltype "protein".toList)), ("protein_with_stop", pmJ (protMoltype "protein_with_stop".toList)),
        ("dna_ambiguities", ambJ (oldSeqOf oldDna []).ambigs), ("rna_ambiguities", ambJ (oldSeqOf oldRna []).ambigs),
        ("rna_to_dna_ambiguities", ambJ (NSeq.toDna (oldSeqOf oldRna [])).ambigs),
        ("codon_alphabet", J.arr ((OldGC.codonAlphabet og false).map sJ)), ("codon_alphabet_with_stop", J.arr ((OldGC.codonAlphabet og true).map sJ))])
    | "resolve" => do
      let mtn ← (← j.get "mt").toStr
      let q := oldSeqOf (← getMT mtn) []
      pure (exP (fun l => J.arr (l.map sJ)) (NSeq.resolveAmbiguity q s (OldGC.codonAlphabet og (← (← j.get "include_stop").toBool))))
    | "what" => do
      let ms := (← (← j.get "motifs").toList)
      let ms ← ms.mapM fun r => do pure (← r.toStr).toList
      pure (sJ (PM.whatAmbiguity (protMoltype s) ms))
    | fn => do
      let mtn ← (← j.get "mt").toStr
      let mt ← getMT mtn
      let q := if mtn.startsWith "old" then oldSeqOf mt s else newSeqOf mt s
      let strict := (← (← j.get "strict").toBool)
      match fn with
      | "new_seq_has_terminal_stop" => pure (exP J.bool (new_seq_has_terminal_stop q ng strict))
      | "old_seq_has_terminal_stop" => pure (exP J.bool (old_seq_has_terminal_stop q og strict))
      | "new_seq_trim_stop_codon" => pure (exP (fun r => sJ r.chars) (new_seq_trim_stop_codon q ng strict))
      | "old_seq_trim_stop_codon" => pure (exP (fun r => sJ r.chars) (old_seq_trim_stop_codon q og strict))
      | "old_seq_get_translation" =>
        pure (exP sJ (old_seq_get_translation q og (← (← j.get "incomplete_ok").toBool) (← (← j.get "include_stop").toBool)
          (← (← j.get "trim_stop").toBool)))
      | "new_seq_get_translation" =>
        pure (exP sJ (new_seq_get_translation q ng (← (← j.get "incomplete_ok").toBool) (← (← j.get "include_stop").toBool)
          (← (← j.get "trim_stop").toBool)))
      | w => throw s!"bad fn {w}"
  | _ => throw s!"unknown command {cmd}"

def main : IO Unit := driverLoop handle
