import CogentModel.Json
import CogentModel.Model.View
import CogentModel.Model.RichDict
import CogentModel.Spec.PySlice
import CogentModel.Model.TreeRich
import CogentModel.Gen.C10Registry
import CogentModel.Model.CollRich
import CogentModel.Gen.C10GetClass
open CogentModel CogentModel.View CogentModel.RichDict

def errStr10 : Err → String
  | .valueError => "ValueError"
  | .indexError => "IndexError"
  | .assertionError => "AssertionError"

def exJ10 {α} (f : α → J) : Except Err α → J
  | .ok a => f a
  | .error e => J.obj [("err", J.str (errStr10 e))]

def viewJ10 (v : View) : J :=
  J.obj [("start", J.num v.start), ("stop", J.num v.stop), ("step", J.num v.step),
         ("offset", J.num v.offset), ("seq_len", J.num v.seqLen),
         ("parent_start", exJ10 J.num (parentStart v)), ("parent_stop", exJ10 J.num (parentStop v))]

def pairJ (r : List Int × View) : J :=
  J.obj [("seq", J.arr (r.1.map J.num)), ("view", viewJ10 r.2), ("value", J.arr ((realise r.1 r.2).map J.num))]

def parseView (j : J) : Except String View := do
  pure { start := ← (← j.get "start").toInt, stop := ← (← j.get "stop").toInt,
         step := ← (← j.get "step").toInt, offset := ← (← j.get "offset").toInt,
         seqLen := ← (← j.get "seq_len").toInt }

def optList (j : J) : Except String (Option (List Int)) :=
  match j with
  | .null => pure none
  | _ => do pure (some (← j.toListOf J.toInt))

def indelJ (m : RichDict.IndelMap) : J :=
  J.obj [("gap_pos", J.arr (m.gapPos.map J.num)), ("cum_gap_lengths", J.arr (m.cumGapLengths.map J.num)),
         ("termini_unknown", J.bool m.terminiUnknown), ("parent_length", J.num m.parentLength)]

def parseSpan (j : J) : Except String SpanArgs := do
  match j.get? "length" with
  | some l => pure (.lost (← l.toInt))
  | none =>
    pure (.span (← (← j.get "start").toInt) (← (← j.get "end").toOptInt) (← (← j.get "tidy_start").toBool)
      (← (← j.get "tidy_end").toBool) (← (← j.get "reverse").toBool))

def spanStateJ : SpanState → J
  | .span s e ts te r => J.obj [("start", J.num s), ("end", J.num e), ("tidy_start", J.bool ts),
      ("tidy_end", J.bool te), ("reverse", J.bool r)]
  | .lost l => J.obj [("length", J.num l)]

def fstateJ (s : FeatureState) : J :=
  J.obj [("spans", J.arr (s.spans.map spanStateJ)), ("parent_length", J.num s.parentLength), ("length", J.num s.length)]

def parseNodeRec (j : J) : Except String (TreeRich.NodeRec String) := do
  let len ← match ← j.get "length" with
    | .null => pure none
    | l => do pure (some (← l.toStr))
  pure { name := ← (← j.get "name").toStr, length := len,
         params := ← (← j.get "params").toListOf (J.toPairOf J.toStr J.toStr),
         arity := ← (← j.get "arity").toNat }

def nodeRecJ (n : TreeRich.NodeRec String) : J :=
  J.obj [("name", J.str n.name), ("length", match n.length with | some l => J.str l | none => J.null),
         ("params", J.arr (n.params.map fun (k, v) => J.arr [J.str k, J.str v])), ("arity", J.num n.arity)]

def handle (cmd : String) (j : J) : Except String J :=
  match cmd with
  | "registry" => do
    -- the translated registry and emitted type strings, with the translated dispatch on each of them
    let ent (e : Registry.Entry) : J := J.obj [("key", J.str (String.ofList e.key)), ("func", J.str e.func), ("module", J.str e.module)]
    pure (J.obj [("table", J.arr (Gen.C10Registry.table.map ent)),
      ("emitted", J.arr (Gen.C10Registry.emitted.map fun e =>
        J.obj [("type", J.str (String.ofList e.typeStr)), ("cls", J.str e.cls), ("kind", J.str e.kind),
               ("key", match Gen.C10Registry.dispatch Gen.C10Registry.table e.typeStr with
                       | some x => J.str (String.ofList x.key) | none => J.null)]))])
  | "coll_dict" => do
    -- `for seq in self.seqs: data[seq.name] = …` then `.values()`: which row (index) sits under which key, in dict order
    let names ← (← j.get "names").toListOf J.toStr
    let rows : List (String × Nat) := names.zip (List.range names.length)
    let d := CollRich.seqsDict (fun r => r.1) (fun r => r.2) rows
    pure (J.obj [("keys", J.arr (d.map fun (k, _) => J.str k)), ("rows", J.arr (d.map fun (_, i) => J.num (i : Int)))])
  | "get_class" => do
    -- translated `_get_class` on provenance strings: (import_module argument, getattr argument) or the failed assert
    let ts ← (← j.get "types").toListOf J.toStr
    pure (J.arr (ts.map fun t => match Gen.C10GetClass.get_class t.toList with
      | .ok (m, c) => J.arr [J.str (String.ofList m), J.str (String.ofList c)]
      | .error e => J.obj [("err", J.str e)]))
  | "dispatch" => do
    -- the translated dispatch loop over a registry given by the caller (the REAL key order) on type strings
    let keys ← (← j.get "keys").toListOf J.toStr
    let tbl : List Registry.Entry := keys.map fun k => { key := k.toList, func := "", module := "" }
    let ts ← (← j.get "types").toListOf J.toStr
    pure (J.arr (ts.map fun t => match Gen.C10Registry.dispatch tbl t.toList with
      | some x => J.str (String.ofList x.key) | none => J.null))
  | "tree_rich" => do
    -- postorder node records of a tree -> records of deserialise_tree(to_rich_dict()) + the exported dict keys
    let t ← (← j.get "nodes").toListOf parseNodeRec
    let r := TreeRich.toRich t
    pure (J.obj [("newick_names", J.arr (r.names.map J.str)), ("attr_keys", J.arr (r.attrs.map fun (k, _) => J.str k)),
                 ("back", J.arr ((TreeRich.roundtrip t).map nodeRecJ))])
  | "rebase" => do
    -- parent is the list 0..n-1 (positions), so the reply names parent positions
    let n ← (← j.get "n").toNat
    let parent : List Int := (List.range n).map fun (i : Nat) => (i : Int)
    let v ← parseView j
    match ← (← j.get "path").toStr with
    | "view_rich" =>
      let r := toRich parent v
      pure (J.obj [("seq", J.arr (r.seq.map J.num)), ("step", J.num r.step)])
    | "dataview_rich" =>
      let r := toRichDataView parent v
      pure (J.obj [("seq", J.arr (r.seq.map J.num)), ("step", J.num r.step), ("offset", J.ofOptInt r.offset)])
    | "view_from_rich" => pure (exJ10 pairJ (fromRich (toRich parent v)))
    | "old" => pure (exJ10 pairJ (seqRoundtripOld parent v))
    | "copy_old" => pure (exJ10 pairJ (seqCopyOld parent v))
    | "new" => pure (exJ10 pairJ (seqRoundtripNew parent v))
    | "view_copy_new" => pure (exJ10 pairJ (viewCopyNew parent v))
    | "copy_new" => pure (exJ10 pairJ (seqCopyNew parent v))
    | "dataview" => pure (exJ10 pairJ (seqRoundtripDataView parent v))
    | p => throw s!"bad path {p}"
  | "coerce" => do
    -- `_coerce_to_seqview(data: SeqView, …, annotation_offset)` on its own (incl. the ValueError branch)
    let v ← parseView j
    pure (exJ10 viewJ10 (coerceOffset v (← (← j.get "annotation_offset").toInt)))
  | "indel" => do
    let r := RichDict.IndelMap.mk' (← (← j.get "gap_pos").toListOf J.toInt) (← optList (← j.get "cum"))
      (← optList (← j.get "lengths")) (← (← j.get "termini_unknown").toBool) (← (← j.get "parent_length").toInt)
    match r with
    | .error e => pure (J.obj [("err", J.str (errStr10 e))])
    | .ok m =>
      let t := m.toRich
      pure (J.obj [("built", indelJ m),
        ("rich", J.obj [("gap_pos", J.arr (t.gapPos.map J.num)), ("cum_gap_lengths", J.arr (t.cumGapLengths.map J.num)),
           ("termini_unknown", J.bool t.terminiUnknown), ("parent_length", J.num t.parentLength)]),
        ("back", exJ10 indelJ (RichDict.IndelMap.fromRich t))])
  | "fmap" => do
    let spans ← (← j.get "spans").toListOf parseSpan
    let m : RichDict.FeatureMap := { spans := spans, parentLength := ← (← j.get "parent_length").toInt }
    let b := RichDict.FeatureMap.build m
    pure (J.obj [("built", fstateJ b), ("json", fstateJ b.roundtripJson),
                 ("pickle", fstateJ b.roundtripPickle)])
  | "fstate" => do
    -- a LIVE map state (spans as they are now, e.g. after zeroed()) through the current JSON route
    let spans ← (← j.get "spans").toListOf parseSpan
    let live := spans.map fun a => match a with
      | .span s (some e) ts te r => SpanState.span s e ts te r
      | .span s none ts te r => SpanState.span s (s + 1) ts te r
      | .lost l => SpanState.lost l
    let st : FeatureState := { spans := live, parentLength := ← (← j.get "parent_length").toInt,
                               length := ← (← j.get "length").toInt }
    pure (J.obj [("json_live", fstateJ st.roundtripJson), ("pickle", fstateJ st.roundtripPickle)])
  | _ => throw s!"unknown command {cmd}"

def main : IO Unit := driverLoop handle
