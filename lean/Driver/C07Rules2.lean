import CogentModel.Json
import CogentModel.Model.ParamRules2
/-!
  C07 driver command `rules2`: one scalar parameter scoped over edge × locus (`Model/ParamRules2.lean`).
  No `main` here: `Driver/C07.lean` dispatches `| "rules2" => handleRules2 j`.

  request : {"nE", "nL", "lo", "val", "hi" ("num/den"), "indep", "ops": [{"edges", "loci", "is_independent",
             "is_constant", "value", "init", "lower", "upper"}]}     (null / missing = absent)
  response: {"init": snap, "steps": [snap | {"err": class}], "final": snap, "order_sound", "all_rect",
             "roundtrip": snap | {"err": class}}
  snap    : {"rules": [rule …] in EXPORT ORDER, "nfp", "classes": ids of the cells, edge major / locus minor}
-/
namespace C07R2
open CogentModel

def optRat (j : J) : Except String (Option Rat) :=
  match j with
  | .null => pure none
  | x => do pure (some (← x.toRat))

def optField (j : J) (k : String) : J := (j.get? k).getD .null

def optNats (j : J) : Except String (Option (List Nat)) :=
  match j with
  | .null => pure none
  | x => do pure (some (← x.toListOf J.toNat))

def parseRule (j : J) : Except String Rules2.RuleArgs := do
  let ind ← match optField j "is_independent" with
    | .null => pure none
    | x => do pure (some (← x.toBool))
  let c ← match optField j "is_constant" with
    | .null => pure false
    | x => x.toBool
  pure { edges := ← optNats (optField j "edges"), loci := ← optNats (optField j "loci"),
         isIndependent := ind, isConstant := c,
         value := ← optRat (optField j "value"), init := ← optRat (optField j "init"),
         lower := ← optRat (optField j "lower"), upper := ← optRat (optField j "upper") }

def oRatJ : Option Rat → J
  | none => .null
  | some q => J.ofRat q

def oNatsJ : Option (List Nat) → J
  | none => .null
  | some l => J.ofList J.ofNat l

def ruleJ (r : Rules2.RuleArgs) : J :=
  J.obj [("edges", oNatsJ r.edges), ("loci", oNatsJ r.loci),
         ("is_independent", match r.isIndependent with
                            | none => .null
                            | some b => .bool b),
         ("is_constant", .bool r.isConstant), ("value", oRatJ r.value), ("init", oRatJ r.init),
         ("lower", oRatJ r.lower), ("upper", oRatJ r.upper)]

def snap (d : Rules2.Defn) (s : Rules2.St) : J :=
  J.obj [("rules", J.ofList ruleJ (Rules2.exportRules d s)), ("nfp", J.ofNat (Rules2.nfp d s)),
         ("classes", J.ofList J.ofNat ((Rules2.cells d).map s.cid))]

/-- re-tabulate the function-valued state (otherwise every step wraps another closure) -/
def freeze (d : Rules2.Defn) (s : Rules2.St) : Rules2.St :=
  let a := (Array.range (d.nEdges * d.nLoci)).map (fun i => s.asg (i / d.nLoci) (i % d.nLoci))
  let st := (Array.range s.next).map s.store
  { s with asg := fun e l => if e < d.nEdges ∧ l < d.nLoci then a.getD (e * d.nLoci + l) 0 else 0,
           store := fun i => st.getD i (.var d.dLo d.dVal d.dHi) }

def run (d : Rules2.Defn) : Rules2.St → List Rules2.RuleArgs → List J
  | _, [] => []
  | s, r :: rs =>
    match Rules2.setRule d s r with
    | .error e => J.obj [("err", .str e)] :: run d s rs
    | .ok s' => let s'' := freeze d s'; snap d s'' :: run d s'' rs

def handle (j : J) : Except String J := do
  let d : Rules2.Defn := { nEdges := ← (← j.get "nE").toNat, nLoci := ← (← j.get "nL").toNat,
                           dLo := ← (← j.get "lo").toRat, dVal := ← (← j.get "val").toRat,
                           dHi := ← (← j.get "hi").toRat, indepDefault := ← (← j.get "indep").toBool }
  let ops ← (← j.get "ops").toListOf parseRule
  let s0 := freeze d (Rules2.fresh d)
  let steps := run d s0 ops
  let sEnd := ops.foldl (fun s r => match Rules2.setRule d s r with
    | .ok s' => freeze d s'
    | .error _ => s) s0
  -- the model's round trip: `Rules2.applyRules` (the function of the theorems) on `Rules2.fresh`
  let rt := Rules2.applyRules d (Rules2.fresh d) (Rules2.exportRules d sEnd)
  let rtJ := match rt with
    | .ok s' => snap d (freeze d s')
    | .error e => J.obj [("err", .str e)]
  pure (J.obj [("init", snap d s0), ("steps", J.arr steps), ("final", snap d sEnd),
               ("order_sound", .bool (Rules2.orderSound d sEnd)), ("all_rect", .bool (Rules2.allRect d sEnd)),
               ("roundtrip", rtJ)])

end C07R2

def handleRules2 (j : CogentModel.J) : Except String CogentModel.J := C07R2.handle j
