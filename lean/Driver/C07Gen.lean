import CogentModel.Json
import CogentModel.Model.GenRun
/-! driver commands that EXECUTE the generated (translated) definitions of Gen/C07Rules.lean: the translator's
self-test against the python originals -/
open CogentModel

namespace C07GenDrv
open CogentModel.Rules CogentModel.Rules.Prim

def optRat (j : J) : Except String (Option Rat) :=
  match j with
  | .null => pure none
  | x => do pure (some (← x.toRat))

def optField (j : J) (k : String) : J :=
  match j.get k with
  | .ok v => v
  | .error _ => .null

def oRatJ : Option Rat → J
  | none => .null
  | some r => J.ofRat r

def parseSetting (j : J) : Except String Setting := do
  match optField j "c" with
  | .null => do pure (.var (← (← j.get "lo").toRat) (← (← j.get "v").toRat) (← (← j.get "hi").toRat))
  | c => do pure (.const (← c.toRat))

def psettingJ : PSetting → J
  | .const v => J.obj [("c", oRatJ v)]
  | .var lo v hi => J.obj [("lo", oRatJ lo), ("v", oRatJ v), ("hi", oRatJ hi)]

def exJ {α : Type} (f : α → J) : Except String α → J
  | .ok a => J.obj [("ok", f a)]
  | .error e => J.obj [("err", .str e)]

/-- `genrules`: the four translated rule functions on one state / argument tuple -/
def handleGenRules (j : J) : Except String J := do
  let settings ← (← j.get "settings").toListOf parseSetting
  let d : Defn := { nEdges := settings.length, dLo := ← (← j.get "lo").toRat, dVal := ← (← j.get "val").toRat,
                    dHi := ← (← j.get "hi").toRat, indepDefault := false }
  let st : St := { asg := fun e => e, store := fun i => settings.getD i (.var d.dLo d.dVal d.dHi), next := settings.length }
  let scope ← (← j.get "scope").toListOf J.toNat
  let value ← optRat (optField j "value")
  let lower ← optRat (optField j "lower")
  let upper ← optRat (optField j "upper")
  let init ← optRat (optField j "init")
  let const ← match optField j "const" with
    | .null => pure none
    | x => do pure (some (← x.toBool))
  let isConst ← match optField j "is_constant" with
    | .null => pure false
    | x => x.toBool
  let ind ← match optField j "is_independent" with
    | .null => pure none
    | x => do pure (some (← x.toBool))
  let bJ := fun (r : PV × PV) => J.arr [oRatJ r.1, oRatJ r.2]
  let tJ := fun (r : PV × PV × PV × Bool × Option Bool) =>
    J.arr [oRatJ r.1, oRatJ r.2.1, oRatJ r.2.2.1, J.bool r.2.2.2.1, match r.2.2.2.2 with | none => .null | some b => J.bool b]
  pure (J.obj [
    ("bounds", exJ bJ (Gen.C07Rules.get_current_bounds d st scope)),
    ("mean", exJ oRatJ (Gen.C07Rules.get_mean_current_value d st scope)),
    ("setting", exJ psettingJ (Gen.C07Rules.assign_all_scope d st scope value lower upper const)),
    ("tail", exJ tJ (Gen.C07Rules.set_param_rule_tail ind isConst value lower init upper))])

/-- the calc function of the `gennl` test definitions (the harness hands the real `_NonLeafDefn` the same one) -/
def nlCalc (l : List Int) : Int := l.foldl (fun acc x => (acc * 31 + x + 7) % 1000003) 1

/-- `gennl`: the translated `_NonLeafDefn.update` on one definition: inputs (scope ↦ ordinal, values), the mapping
the definition held before (possibly stale) -/
def handleGenNL (j : J) : Except String J := do
  let args ← (← j.get "args").toListOf (fun a => do
    let ord ← (← a.get "ord").toListOf J.toNat
    let vals ← (← a.get "values").toListOf J.toOptInt
    pure ({ ord := fun t => ord.getD t 0, values := vals } : NonLeaf.Arg Int))
  let n ← (← j.get "n").toNat
  let asg0 ← (← j.get "asg").toListOf (fun a => a.toListOf J.toNat)
  let st : NonLeaf.St Int :=
    { scopes := List.range n, asg := fun t => asg0.getD t [], uniq := [], index := fun _ => 0, values := [] }
  match Gen.C07NonLeaf.update args nlCalc st with
  | .error e => pure (J.obj [("err", .str e)])
  | .ok r =>
    let lnJ := fun (l : List Nat) => J.arr (l.map (fun k => J.num (Int.ofNat k)))
    pure (J.obj [("asg", J.arr ((List.range n).map (fun t => lnJ (r.asg t)))),
                 ("uniq", J.arr (r.uniq.map lnJ)),
                 ("index", lnJ ((List.range n).map r.index)),
                 ("values", J.arr (r.values.map (fun v => match v with | none => J.null | some x => J.num x)))])

end C07GenDrv
