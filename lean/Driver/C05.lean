import CogentModel.Json
import CogentModel.Model.RateMatrix
import CogentModel.Model.Expm
open CogentModel CogentModel.RateMatrix CogentModel.Expm

def jVec (j : J) : Except String (Vec Rat) := do return (← j.toListOf J.toRat).toArray
def jMat (j : J) : Except String (Mat Rat) := do return ((← j.toListOf jVec)).toArray
def jNatVec (j : J) : Except String (Array Nat) := do return (← j.toListOf J.toNat).toArray
def jNatMat (j : J) : Except String (Array (Array Nat)) := do return (← j.toListOf jNatVec).toArray
def jPairs (j : J) : Except String (List (Nat × Nat)) := j.toListOf (J.toPairOf J.toNat J.toNat)
def jBoolMat (j : J) : Except String (Mat Bool) := do
  return ((← j.toListOf fun r => do return ((← r.toListOf J.toNat).map (· != 0)).toArray)).toArray

def vecJ (v : Vec Rat) : J := J.arr (v.toList.map J.ofRat)
def matJ (m : Mat Rat) : J := J.arr (m.toList.map vecJ)
def boolMatJ (m : Mat Bool) : J := J.arr (m.toList.map fun r => J.arr (r.toList.map fun b => J.num (if b then 1 else 0)))

/-- round to a multiple of 2^-160 (only to keep replies small; error < 1e-48) -/
def rnd (x : Rat) : Rat :=
  let s : Nat := 2 ^ 160
  ((Rat.floor (x * (s : Rat)) : Int) : Rat) / (s : Rat)
def matJr (m : Mat Rat) : J := J.arr (m.toList.map fun r => J.arr (r.toList.map fun x => J.ofRat (rnd x)))

def tol8 : Rat := 1 / 100000000
def rtol5 : Rat := 1 / 100000

/-- max |(A·B − C)_ij| -/
def residual (n : Nat) (A B C : Mat Rat) : Rat :=
  let M := matSub n (matMul n A B) C
  (List.range n).foldl (fun m i => (List.range n).foldl (fun m j => let x := absR (mget M i j); if m < x then x else m) m) 0

def handle (cmd : String) (j : J) : Except String J :=
  match cmd with
  | "inst" => do
    let words ← jNatMat (← j.get "words")
    let g ← (← j.get "gap").toNat
    let codon ← (← j.get "codon").toBool
    pure (boolMatJ (instMask codon g words))
  | "q" => do
    -- full Q construction from the structural data of a model + parameter values
    let n ← (← j.get "n").toNat
    let kind ← (← j.get "kind").toStr
    let mkind ← (← j.get "mprob").toStr
    let stationary ← (← j.get "stationary").toBool
    let params ← (← j.get "params").toListOf J.toRat
    let inst ← jBoolMat (← j.get "inst")
    let words ← jNatMat (← j.get "words")
    let L ← (← j.get "L").toNat
    -- motif probabilities: one vector (tuple / monomer / conditional) or L vectors (monomers)
    let mps ← (← j.get "mprobs").toListOf jVec
    let mp0 := mps.headD #[]
    let mp : Nat → Vec Rat := fun k => if mkind = "monomers" then mps.getD k #[] else mp0
    let (wp, W) : Vec Rat × Mat Rat :=
      if mkind = "tuple" then (mp0, weightSimple n mp0)
      else if mkind = "conditional" then (mp0, weightConditional words L inst mp0)
      else (wordProbsMonomer words L mp, weightMonomer words inst mp)
    let R : Option (Mat Rat) ←
      match kind with
      | "parametric" => do
        let preds ← (← j.get "preds").toListOf jPairs
        pure (exchParametric n (maskF n inst) preds params)
      | "empirical" => do
        let rm ← jMat (← j.get "rate_matrix")
        pure (some (tab n (mget rm)))
      | "general" => do
        let pick ← jNatMat (← j.get "pick")
        pure (some (exchGeneral n pick params))
      | "genstat" => do
        let pick ← jNatMat (← j.get "pick")
        let lic ← jPairs (← j.get "last_in_column")
        pure (exchGeneralStationary n tol8 pick lic wp params)
      | k => throw s!"bad kind {k}"
    match R with
    | none => pure (J.obj [("err", J.str "exch")])
    | some R =>
      let Q := if stationary then calcQStationary n R W wp else calcQGeneral n R wp
      pure (J.obj [("Q", matJ Q), ("R", matJ R), ("wprobs", vecJ wp), ("W", matJ W)])
  | "rates" => do
    let w ← jVec (← j.get "weights")
    let v ← jVec (← j.get "values")
    match ← (← j.get "kind").toStr with
    | "weighted" => pure (vecJ (ratesWeighted w v))
    | "monotonic" => pure (vecJ (ratesMonotonic w v))
    | "gamma" => pure (vecJ (ratesGamma w v))
    | k => throw s!"bad kind {k}"
  | "taylor" => do
    -- TaylorExponentiator(Q)(t) with self.q = q
    let n ← (← j.get "n").toNat
    let Q ← jMat (← j.get "Q")
    let t ← (← j.get "t").toRat
    let q ← (← j.get "q").toNat
    let fuel ← (← j.get "fuel").toNat
    let rtol ← match j.get? "rtol" with | some r => r.toRat | none => pure rtol5
    let atol ← match j.get? "atol" with | some r => r.toRat | none => pure tol8
    let (P, k) := taylor n rtol atol Q t q fuel
    pure (J.obj [("P", matJr P), ("k", J.num k)])
  | "expref" => do
    -- reference value of exp(tQ): fixed-order Taylor sum + exact remainder bound
    let n ← (← j.get "n").toNat
    let Q ← jMat (← j.get "Q")
    let t ← (← j.get "t").toRat
    let q ← (← j.get "q").toNat
    let A := matScale n t Q
    let (P, _) := taylorFixed n A q
    let nb := normInf n A
    pure (J.obj [("P", matJr P), ("norm", J.ofRat (rnd nb)),
      ("bound", match taylorRemainder nb q with | some b => J.ofRat (rnd b + 1 / ((2 ^ 160 : Nat) : Rat)) | none => J.null)])
  | "pade" => do
    let n ← (← j.get "n").toNat
    let Q ← jMat (← j.get "Q")
    let t ← (← j.get "t").toRat
    let (P, q, jj) :=
      match j.get? "q", j.get? "j" with
      | some (J.num q), some (J.num jj) => (padeCore n Q t q.toNat jj.toNat, q.toNat, jj.toNat)
      | _, _ => pade n Q t
    match P with
    | none => pure (J.obj [("err", J.str "singular"), ("q", J.num q), ("j", J.num jj)])
    | some P =>
      -- per-instance exact validation of the elimination: D·F = N where F is the unsquared solution
      let A := matDivS n (matScale n t Q) (pow2 jj)
      let (N, D) := padeND n A q
      let res := if n ≤ 6 then (match solve n D N with
        | some F => residual n D F N
        | none => 1) else 0
      pure (J.obj [("P", matJr P), ("q", J.num q), ("j", J.num jj), ("solve_residual", J.ofRat res)])
  | "eigen" => do
    -- EigenExponentiator.__call__ given the stored evT, evI and e = exp(t*roots): inner(evT*e, evI), then maximum(.,0)
    let n ← (← j.get "n").toNat
    let evT ← jMat (← j.get "evT")
    let evI ← jMat (← j.get "evI")
    let e ← jVec (← j.get "e")
    let raw := eigenCall n evT evI e
    pure (J.obj [("P", matJ (clip0 n raw)), ("raw", matJ raw)])
  | "solve" => do
    let n ← (← j.get "n").toNat
    let D ← jMat (← j.get "D")
    let N ← jMat (← j.get "N")
    match solve n D N with
    | none => pure (J.obj [("err", J.str "singular")])
    | some F => pure (J.obj [("F", matJ F), ("residual", J.ofRat (residual n D F N))])
  | _ => throw s!"unknown command {cmd}"

def main : IO Unit := driverLoop handle
