import CogentModel.Json
import CogentModel.Model.RateMatrix
import CogentModel.Model.Expm
import CogentModel.Model.PathProcess
import CogentModel.Gen.C05Inst
open CogentModel CogentModel.RateMatrix CogentModel.Expm CogentModel.PathProcess CogentModel.C05Gen

def jVec (j : J) : Except String (Vec Rat) := do return (← j.toListOf J.toRat).toArray
def jMat (j : J) : Except String (Mat Rat) := do return ((← j.toListOf jVec)).toArray
def jNatVec (j : J) : Except String (Array Nat) := do return (← j.toListOf J.toNat).toArray
def jNatMat (j : J) : Except String (Array (Array Nat)) := do return (← j.toListOf jNatVec).toArray
def jPairs (j : J) : Except String (List (Nat × Nat)) := j.toListOf (J.toPairOf J.toNat J.toNat)
def jBoolMat (j : J) : Except String (Mat Bool) := do
  return ((← j.toListOf fun r => do return ((← r.toListOf J.toNat).map (· != 0)).toArray)).toArray

def vecJ (v : Vec Rat) : J := J.arr (v.toList.map J.ofRat)
def matJ (m : Mat Rat) : J := J.arr (m.toList.map vecJ)
def boolMatJ (m : Mat Bool) : J := J.arr (m.toList.map fun r => J.arr (r.toList.map fun b => J.num (if b then 1 else 0)))

/-- round to a multiple of 2^-160 (only to keep replies small; error < 1e-48) -/
def rnd (x : Rat) : Rat :=
  let s : Nat := 2 ^ 160
  ((Rat.floor (x * (s : Rat)) : Int) : Rat) / (s : Rat)
def matJr (m : Mat Rat) : J := J.arr (m.toList.map fun r => J.arr (r.toList.map fun x => J.ofRat (rnd x)))

def tol8 : Rat := 1 / 100000000
def rtol5 : Rat := 1 / 100000

/-- max |(A·B − C)_ij| -/
def residual (n : Nat) (A B C : Mat Rat) : Rat :=
  let M := matSub n (matMul n A B) C
  (List.range n).foldl (fun m i => (List.range n).foldl (fun m j => let x := absR (mget M i j); if m < x then x else m) m) 0

def backendName : Backend → String
  | .pade => "pade"
  | .fast => "fast"
  | .checked => "checked"
  | .eigenPade e => "eigenPade(" ++ backendName e ++ ")"

def errName : ErrKind → String
  | .arithmetic => "arithmetic"
  | .linalg => "linalg"
  | .other => "other"

/-- outcome of a run: which exponentiator object is used (`E` = its name) or the kind of exception that escapes -/
def outcomeJ (r : Except ErrKind String) : J :=
  match r with
  | .ok s => J.str s
  | .error k => J.str ("raise:" ++ errName k)

def parseOutcome (tag : String) (s : String) : Except String (Except ErrKind String) :=
  match s with
  | "ok" => pure (.ok tag)
  | "arithmetic" => pure (.error .arithmetic)
  | "linalg" => pure (.error .linalg)
  | "other" => pure (.error .other)
  | k => throw s!"bad outcome {k}"

def handle (cmd : String) (j : J) : Except String J :=
  match cmd with
  | "instbox" => do
    -- the hand model's mask and the mask of the TRANSLATED predicates on the same words
    let words ← jNatMat (← j.get "words")
    let g ← (← j.get "gap").toNat
    let gm := (← jNatVec (← j.get "gapmotif")).toList
    let codon ← (← j.get "codon").toBool
    let gen : Mat Bool := tab words.size fun a b =>
      if codon then Gen.C05Inst.codonIsInstantaneous Gen.C05Inst.codonLongIndels gm (wordAt words a) (wordAt words b)
      else Gen.C05Inst.isInstantaneous Gen.C05Inst.longIndels gm (wordAt words a) (wordAt words b)
    pure (J.obj [("hand", boolMatJ (instMask codon g words)), ("gen", boolMatJ gen)])
  | "expselect" => do
    let expm ← (← j.get "expm").toStr
    let nm := fun (o : Option Backend) => match o with | some b => J.str (backendName b) | none => J.null
    pure (J.obj [("hand", nm (backendFor expm)), ("gen", nm (Gen.C05Inst.expSelect expm))])
  | "eigenpade" => do
    -- _EigenPade(eigen=<inner>)(Q) given the outcome of the inner constructor on Q
    let inner ← (← j.get "inner").toStr
    let o ← parseOutcome inner (← (← j.get "outcome").toStr)
    let b ← match inner with
      | "fast" => pure Backend.fast
      | "checked" => pure Backend.checked
      | k => throw s!"bad inner {k}"
    let other : Except ErrKind String := .error .other
    let fast := if inner = "fast" then o else other
    let checked := if inner = "checked" then o else other
    let hand := runBackend fast checked "pade" (.eigenPade b)
    let gen := Gen.C05Inst.eigenPadeCall (runBackend fast checked "pade" b) (runBackend fast checked "pade" Gen.C05Inst.eigenPadeFallback)
    pure (J.obj [("hand", outcomeJ hand), ("gen", outcomeJ gen)])
  | "path" => do
    let n ← (← j.get "n").toNat
    let mp ← jVec (← j.get "mp")
    let Ps ← (← j.get "Ps").toListOf jMat
    pure (J.obj [("dists", J.arr ((pathDists n mp Ps).map vecJ)),
      ("viaProduct", vecJ (vecMat n mp (pathProduct n Ps)))])
  | "mixens" => do
    let n ← (← j.get "n").toNat
    let pi ← jVec (← j.get "pi")
    let Q ← jMat (← j.get "Q")
    let t ← (← j.get "t").toRat
    let w ← jVec (← j.get "w")
    let r ← jVec (← j.get "r")
    pure (J.obj [("ens", J.ofRat (mixtureENS n pi Q t w r)), ("rate", J.ofRat (ensRate n pi Q))])
  | "inst" => do
    let words ← jNatMat (← j.get "words")
    let g ← (← j.get "gap").toNat
    let codon ← (← j.get "codon").toBool
    pure (boolMatJ (instMask codon g words))
  | "q" => do
    -- full Q construction from the structural data of a model + parameter values
    let n ← (← j.get "n").toNat
    let kind ← (← j.get "kind").toStr
    let mkind ← (← j.get "mprob").toStr
    let stationary ← (← j.get "stationary").toBool
    let params ← (← j.get "params").toListOf J.toRat
    let inst ← jBoolMat (← j.get "inst")
    let words ← jNatMat (← j.get "words")
    let L ← (← j.get "L").toNat
    -- motif probabilities: one vector (tuple / monomer / conditional) or L vectors (monomers)
    let mps ← (← j.get "mprobs").toListOf jVec
    let mp0 := mps.headD #[]
    let mp : Nat → Vec Rat := fun k => if mkind = "monomers" then mps.getD k #[] else mp0
    let (wp, W) : Vec Rat × Mat Rat :=
      if mkind = "tuple" then (mp0, weightSimple n mp0)
      else if mkind = "conditional" then (mp0, weightConditional words L inst mp0)
      else (wordProbsMonomer words L mp, weightMonomer words inst mp)
    let R : Option (Mat Rat) ←
      match kind with
      | "parametric" => do
        let preds ← (← j.get "preds").toListOf jPairs
        pure (exchParametric n (maskF n inst) preds params)
      | "empirical" => do
        let rm ← jMat (← j.get "rate_matrix")
        pure (some (tab n (mget rm)))
      | "general" => do
        let pick ← jNatMat (← j.get "pick")
        pure (some (exchGeneral n pick params))
      | "genstat" => do
        let pick ← jNatMat (← j.get "pick")
        let lic ← jPairs (← j.get "last_in_column")
        pure (exchGeneralStationary n tol8 pick lic wp params)
      | k => throw s!"bad kind {k}"
    match R with
    | none => pure (J.obj [("err", J.str "exch")])
    | some R =>
      let Q := if stationary then calcQStationary n R W wp else calcQGeneral n R wp
      pure (J.obj [("Q", matJ Q), ("R", matJ R), ("wprobs", vecJ wp), ("W", matJ W)])
  | "rates" => do
    let w ← jVec (← j.get "weights")
    let v ← jVec (← j.get "values")
    match ← (← j.get "kind").toStr with
    | "weighted" => pure (vecJ (ratesWeighted w v))
    | "monotonic" => pure (vecJ (ratesMonotonic w v))
    | "gamma" => pure (vecJ (ratesGamma w v))
    | k => throw s!"bad kind {k}"
  | "taylor" => do
    -- TaylorExponentiator(Q)(t) with self.q = q
    let n ← (← j.get "n").toNat
    let Q ← jMat (← j.get "Q")
    let t ← (← j.get "t").toRat
    let q ← (← j.get "q").toNat
    let fuel ← (← j.get "fuel").toNat
    let rtol ← match j.get? "rtol" with | some r => r.toRat | none => pure rtol5
    let atol ← match j.get? "atol" with | some r => r.toRat | none => pure tol8
    let (P, k) := taylor n rtol atol Q t q fuel
    pure (J.obj [("P", matJr P), ("k", J.num k)])
  | "expref" => do
    -- reference value of exp(tQ): fixed-order Taylor sum + exact remainder bound
    let n ← (← j.get "n").toNat
    let Q ← jMat (← j.get "Q")
    let t ← (← j.get "t").toRat
    let q ← (← j.get "q").toNat
    let A := matScale n t Q
    let (P, _) := taylorFixed n A q
    let nb := normInf n A
    pure (J.obj [("P", matJr P), ("norm", J.ofRat (rnd nb)),
      ("bound", match taylorRemainder nb q with | some b => J.ofRat (rnd b + 1 / ((2 ^ 160 : Nat) : Rat)) | none => J.null)])
  | "pade" => do
    let n ← (← j.get "n").toNat
    let Q ← jMat (← j.get "Q")
    let t ← (← j.get "t").toRat
    let (P, q, jj) :=
      match j.get? "q", j.get? "j" with
      | some (J.num q), some (J.num jj) => (padeCore n Q t q.toNat jj.toNat, q.toNat, jj.toNat)
      | _, _ => pade n Q t
    match P with
    | none => pure (J.obj [("err", J.str "singular"), ("q", J.num q), ("j", J.num jj)])
    | some P =>
      -- per-instance exact validation of the elimination: D·F = N where F is the unsquared solution
      let A := matDivS n (matScale n t Q) (pow2 jj)
      let (N, D) := padeND n A q
      let res := if n ≤ 6 then (match solve n D N with
        | some F => residual n D F N
        | none => 1) else 0
      pure (J.obj [("P", matJr P), ("q", J.num q), ("j", J.num jj), ("solve_residual", J.ofRat res)])
  | "eigen" => do
    -- EigenExponentiator.__call__ given the stored evT, evI and e = exp(t*roots): inner(evT*e, evI), then maximum(.,0)
    let n ← (← j.get "n").toNat
    let evT ← jMat (← j.get "evT")
    let evI ← jMat (← j.get "evI")
    let e ← jVec (← j.get "e")
    let raw := eigenCall n evT evI e
    pure (J.obj [("P", matJ (clip0 n raw)), ("raw", matJ raw)])
  | "solve" => do
    let n ← (← j.get "n").toNat
    let D ← jMat (← j.get "D")
    let N ← jMat (← j.get "N")
    match solve n D N with
    | none => pure (J.obj [("err", J.str "singular")])
    | some F => pure (J.obj [("F", matJ F), ("residual", J.ofRat (residual n D F N))])
  | _ => throw s!"unknown command {cmd}"

def main : IO Unit := driverLoop handle
