import CogentModel.Json
import CogentModel.Model.Calculator
import CogentModel.Model.Controller
import CogentModel.Model.ControllerLf
import CogentModel.Model.ControllerFail
import CogentModel.Model.ParamRules
import Driver.C07Rules2
import Driver.C07Gen
open CogentModel CogentModel.Calc

/-- the integer hash-combine calc used by the correspondence harness:
`v = ((Σ (i+3)·aᵢ)·mult + salt) mod 1000003`, raising when `rmod > 0 ∧ v mod rmod = rres` -/
def hashCalc (salt mult rmod rres : Int) (xs : List Int) : Option Int :=
  let rec go (i : Int) : List Int → Int
    | [] => 0
    | a :: as => (i + 3) * a + go (i + 1) as
  let v := Int.fmod (go 0 xs * mult + salt) 1000003
  if rmod > 0 && Int.fmod v rmod == rres then none else some v

def parseCell (j : J) : Except String (Cell Int) := do
  match ← (← j.get "k").toStr with
  | "opt" => do
    let c ← (← j.get "add").toInt
    pure (.opt (fun v => v + c))
  | "const" => do pure (.const (← (← j.get "v").toInt))
  | "eval" => do
    let args ← (← j.get "args").toListOf J.toNat
    pure (.eval (← (← j.get "rec").toBool) args
      (hashCalc (← (← j.get "salt").toInt) (← (← j.get "mult").toInt) (← (← j.get "rmod").toInt) (← (← j.get "rres").toInt)))
  | s => throw s!"bad cell kind {s}"

def parseGraph (j : J) : Except String (Graph Int) := do
  let cells ← (← j.get "cells").toListOf parseCell
  pure { cells := cells, nOpt := (cells.filter Cell.isOpt).length }

def parseChanges (j : J) : Except String (List (Nat × Int)) :=
  j.toListOf (J.toPairOf J.toNat J.toInt)

def snap (g : Graph Int) (s : St Int) (ret : Option Int) (raised : Bool) : J :=
  J.obj [("ret", J.ofOptInt ret), ("raised", J.bool raised),
         ("last", J.ofList J.num (lastVec g s)), ("cur", J.ofList J.num (curValues g s)),
         ("undo", J.ofList (fun p => J.arr [J.num p.1, J.num p.2]) s.lastUndo),
         ("sw", J.bool s.sw)]

/-- driver-only: re-tabulate the function-valued fields (extensionally the identity on ranks < n)
so that closures do not pile up over a long history -/
def freeze (g : Graph Int) (s : St Int) : St Int :=
  let n := g.n
  let tab {α : Type} (f : Nat → α) : Array α := (Array.range n).map f
  let v0 := tab (s.val false)
  let v1 := tab (s.val true)
  let p0 := tab (s.ptr false)
  let p1 := tab (s.ptr true)
  let h0 := tab (fun k => s.heap k false)
  let h1 := tab (fun k => s.heap k true)
  let sp := tab s.spare
  let lv := tab s.lastValues
  { s with
    val := fun b k => if b then v1.getD k 0 else v0.getD k 0
    ptr := fun b k => if b then p1.getD k false else p0.getD k false
    heap := fun k b => if b then h1.getD k 0 else h0.getD k 0
    spare := fun k => sp.getD k none
    lastValues := fun i => lv.getD i 0 }

def runOps (g : Graph Int) : St Int → List J → Except String (List J)
  | _, [] => pure []
  | s, op :: ops => do
    match ← op.toList with
    | [J.str "change", c] => do
      let ch ← parseChanges c
      let r := change g s ch
      let ok := let au := afterUndo s ch
                assertOK g { au.1 with sw := !au.1.sw, lastUndo := [] } (program g (au.2.map (·.1)))
      let o := match snap g r.1 r.2 r.2.isNone with
        | J.obj kvs => J.obj (kvs ++ [("assert_ok", J.bool ok)])
        | x => x
      pure (o :: (← runOps g (freeze g r.1) ops))
    | [J.str "call", v] => do
      let vs ← v.toListOf J.toInt
      let r := call g s vs
      pure (snap g r.1 r.2 r.2.isNone :: (← runOps g (freeze g r.1) ops))
    | _ => throw "bad op"

def optJ : Option (List Int) → J
  | none => J.null
  | some l => J.ofList J.num l

/-! ### ParameterController model -/

def parseDefn (j : J) : Except String (Ctl.Defn Int) := do
  match ← (← j.get "k").toStr with
  | "leaf" => pure .leaf
  | "derived" => do
    let args ← (← j.get "args").toListOf J.toNat
    let salt ← (← j.get "salt").toInt
    let mult ← (← j.get "mult").toInt
    pure (.derived args (fun xs => (hashCalc salt mult 0 0 xs).getD 0))
  | s => throw s!"bad defn kind {s}"

def parseCtlOp (j : J) : Except String (Ctl.Op Int) := do
  match ← j.toList with
  | [J.str "assign", k, v] => do pure (.assign (← k.toNat) (← v.toInt))
  | [J.str "enter"] => pure .enter
  | [J.str "exit"] => pure .exit
  | [J.str "xexit"] => pure .xexit
  | _ => throw "bad ctl op"

def ctlSnap (g : Ctl.Graph Int) (s : Ctl.St Int) : J :=
  J.obj [("values", J.ofList J.num ((List.range g.length).map s.values)),
         ("changed", J.ofList J.ofNat ((List.range g.length).filter (fun k => s.changed.contains k))),
         ("suspended", J.bool s.suspended), ("depth", J.ofNat s.stack.length)]

def ctlRun (g : Ctl.Graph Int) : Ctl.St Int → List (Ctl.Op Int) → List J
  | _, [] => []
  | s, o :: os => let s' := Ctl.step g s o; ctlSnap g s' :: ctlRun g s' os

/-- `genctl`: a history executed by the GENERATED controller methods (`C07.genStep`) -/
def parseGOp (j : J) : Except String (C07.GOp Int) := do
  match ← j.toList with
  | [J.str "assign", k, v] => do pure (.assign (← k.toNat) (← v.toInt))
  | [J.str "enter"] => pure .enter
  | [J.str "exit"] => pure .exit
  | [J.str "xexit"] => pure .xexit
  | [J.str "updall"] => pure .updateAll
  | [J.str "mkcalc"] => pure .makeCalc
  | [J.str "fromcalc", vs] => do
    let l ← vs.toListOf J.toInt
    pure (.fromCalc (fun k => l.getD k 0))
  | _ => throw "bad gen ctl op"

def genCtlRun (g : Ctl.Graph Int) : Ctl.St Int → List (C07.GOp Int) → List J
  | _, [] => []
  | s, o :: os =>
    match C07.genStep g s o with
    | .ok s' => (match ctlSnap g s' with
        | .obj kvs => J.obj (kvs ++ [("raised", J.bool false)])
        | x => x) :: genCtlRun g s' os
    | .error e => (match ctlSnap g s with
        | .obj kvs => J.obj (kvs ++ [("raised", J.bool true), ("exc", .str e)])
        | x => x) :: genCtlRun g s os

/-! ### scoped parameter rules model -/

def optRat (j : J) : Except String (Option Rat) :=
  match j with
  | .null => pure none
  | x => do pure (some (← x.toRat))

def optField (j : J) (k : String) : J := (j.get? k).getD .null

def parseRuleArgs (j : J) : Except String Rules.RuleArgs := do
  let edges ← match optField j "edges" with
    | .null => pure none
    | x => do pure (some (← x.toListOf J.toNat))
  let ind ← match optField j "is_independent" with
    | .null => pure none
    | x => do pure (some (← x.toBool))
  let c ← match optField j "is_constant" with
    | .null => pure false
    | x => x.toBool
  pure { edges := edges, isIndependent := ind, isConstant := c,
         value := ← optRat (optField j "value"), init := ← optRat (optField j "init"),
         lower := ← optRat (optField j "lower"), upper := ← optRat (optField j "upper") }

def oRatJ : Option Rat → J
  | none => .null
  | some q => J.ofRat q

def ruleJ (r : Rules.RuleArgs) : J :=
  J.obj [("edges", match r.edges with
                   | none => .null
                   | some es => J.ofList J.ofNat es),
         ("is_independent", match r.isIndependent with
                            | none => .null
                            | some b => .bool b),
         ("is_constant", .bool r.isConstant), ("value", oRatJ r.value), ("init", oRatJ r.init),
         ("lower", oRatJ r.lower), ("upper", oRatJ r.upper)]

def rulesSnap (d : Rules.Defn) (s : Rules.St) : J :=
  J.obj [("rules", J.ofList ruleJ (Rules.exportRules d s)), ("nfp", J.ofNat (Rules.nfp d s)),
         ("classes", J.ofList J.ofNat ((List.range d.nEdges).map s.asg))]

def rulesFreeze (d : Rules.Defn) (s : Rules.St) : Rules.St :=
  let a := (Array.range d.nEdges).map s.asg
  let st := (Array.range s.next).map s.store
  { s with asg := fun e => a.getD e (s.asg e), store := fun i => st.getD i (.var d.dLo d.dVal d.dHi) }

def rulesRun (d : Rules.Defn) : Rules.St → List Rules.RuleArgs → List J
  | _, [] => []
  | s, r :: rs =>
    match Rules.setRule d s r with
    | .error e => J.obj [("err", .str e)] :: rulesRun d s rs
    | .ok s' => let s'' := rulesFreeze d s'; rulesSnap d s'' :: rulesRun d s'' rs

/-! ### controller with definitions whose update() may raise -/

def parseDefnF (j : J) : Except String (CtlF.Defn Int) := do
  match ← (← j.get "k").toStr with
  | "leaf" => pure .leaf
  | "derived" => do
    let args ← (← j.get "args").toListOf J.toNat
    let salt ← (← j.get "salt").toInt
    let mult ← (← j.get "mult").toInt
    let rmod ← (← j.get "rmod").toInt
    let rres ← (← j.get "rres").toInt
    pure (.derived args (hashCalc salt mult rmod rres))
  | s => throw s!"bad defn kind {s}"

def ctlfSnap (n : Nat) (s : Ctl.St Int) (ok : Bool) : J :=
  J.obj [("values", J.ofList J.num ((List.range n).map s.values)),
         ("changed", J.ofList J.ofNat ((List.range n).filter (fun k => s.changed.contains k))),
         ("suspended", J.bool s.suspended), ("depth", J.ofNat s.stack.length), ("raised", J.bool (!ok))]

def ctlfRun (g : CtlF.Graph Int) : Ctl.St Int → List (Ctl.Op Int) → List J
  | _, [] => []
  | s, o :: os => let r := CtlF.step g s o; ctlfSnap g.length r.1 r.2 :: ctlfRun g r.1 os

/-! ### likelihood-function level ops compiled to controller ops -/

def opTag : Ctl.Op Int → J
  | .assign k _ => J.arr [J.str "assign", J.ofNat k]
  | .enter => J.arr [J.str "enter"]
  | .exit => J.arr [J.str "exit"]
  | .xexit => J.arr [J.str "xexit"]

def parseSimple (j : J) : Except String (Ctl.Simple Int) := do
  match ← (← j.get "op").toStr with
  | "setParam" => do pure (.setParam (← (← j.get "leaf").toNat) 0)
  | "setMotifProbs" => do
    let ls ← (← j.get "leaves").toListOf J.toNat
    pure (.setMotifProbs (ls.map (fun k => (k, 0))))
  | "setAlignment" => do
    let loci ← (← j.get "loci").toListOf (fun x => do
      let a ← (← x.get "aln").toNat
      let m ← match optField x "mprobs" with
        | .null => pure none
        | y => do pure (some ((← y.toNat), (0 : Int)))
      pure (a, (0 : Int), m))
    pure (.setAlignment loci)
  | s => throw s!"bad simple op {s}"

def handle (cmd : String) (j : J) : Except String J :=
  match cmd with
  | "ctlf" => do
    let g ← (← j.get "defns").toListOf parseDefnF
    let s0 ← (← j.get "settings").toListOf J.toInt
    let ops ← (← j.get "ops").toListOf parseCtlOp
    let r0 := CtlF.updateIntermediate g (CtlF.init0 g (fun i => s0.getD i 0))
    pure (J.obj [("init", ctlfSnap g.length r0.1 r0.2), ("steps", J.arr (ctlfRun g r0.1 ops))])
  | "rules2" => handleRules2 j
  | "genrules" => C07GenDrv.handleGenRules j
  | "gennl" => C07GenDrv.handleGenNL j
  | "genctl" => do
    let g ← (← j.get "defns").toListOf parseDefn
    let s0 ← (← j.get "settings").toListOf J.toInt
    let ops ← (← j.get "ops").toListOf parseGOp
    let st := Ctl.init g (fun i => s0.getD i 0)
    pure (J.obj [("init", ctlSnap g st), ("steps", J.arr (genCtlRun g st ops))])
  | "compile" => do
    let ops ← match optField j "block" with
      | .null => do pure (Ctl.compileLf (.simple (← parseSimple j)))
      | b => do
        let body ← (← j.get "body").toListOf parseSimple
        pure (Ctl.compileLf (if (← b.toStr) == "raises" then .postponedRaises body else .postponed body))
    pure (J.ofList opTag ops)
  | "rules" => do
    let d : Rules.Defn := { nEdges := ← (← j.get "n").toNat, dLo := ← (← j.get "lo").toRat,
                            dVal := ← (← j.get "val").toRat, dHi := ← (← j.get "hi").toRat,
                            indepDefault := ← (← j.get "indep").toBool }
    let ops ← (← j.get "ops").toListOf parseRuleArgs
    let s0 := Rules.fresh d
    let steps := rulesRun d s0 ops
    -- the state after the history, and the round trip of its exported rules on a fresh state
    let sEnd := ops.foldl (fun s r => match Rules.setRule d s r with
      | .ok s' => rulesFreeze d s'
      | .error _ => s) s0
    let rt := match Rules.applyRules d (Rules.fresh d) (Rules.exportRules d sEnd) with
      | .ok s' => rulesSnap d (rulesFreeze d s')
      | .error e => J.obj [("err", .str e)]
    pure (J.obj [("init", rulesSnap d s0), ("steps", J.arr steps), ("final", rulesSnap d sEnd), ("roundtrip", rt)])
  | "ctl" => do
    let g ← (← j.get "defns").toListOf parseDefn
    let s0 ← (← j.get "settings").toListOf J.toInt
    let ops ← (← j.get "ops").toListOf parseCtlOp
    let st := Ctl.init g (fun i => s0.getD i 0)
    pure (J.obj [("init", ctlSnap g st), ("steps", J.arr (ctlRun g st ops))])
  | "hist" => do
    let g ← parseGraph (← j.get "graph")
    let x0 ← (← j.get "x0").toListOf J.toInt
    match init g (fun i => x0.getD i 0) with
    | none => pure (J.obj [("init", J.str "raises")])
    | some s0 => do
      let steps ← runOps g (freeze g s0) (← (← j.get "ops").toList)
      pure (J.obj [("init", snap g s0 none false), ("steps", J.arr steps)])
  | "fresh" => do
    let g ← parseGraph (← j.get "graph")
    let x ← (← j.get "x").toListOf J.toInt
    pure (optJ (evalFresh g (fun i => x.getD i 0)))
  | "program" => do
    let g ← parseGraph (← j.get "graph")
    let c ← (← j.get "changed").toListOf J.toNat
    pure (J.ofList J.ofNat (program g c))
  | _ => throw s!"unknown command {cmd}"

def main : IO Unit := driverLoop handle
