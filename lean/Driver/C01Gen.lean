import CogentModel.Json
import CogentModel.Model.View
import CogentModel.Gen.C01View
/-! Driver commands for the C01 translator self-test: the GENERATED definitions of `Gen/C01View.lean`
(regenerated from the python source on every run) evaluated on explicit arguments. -/
namespace C01Gen
open CogentModel CogentModel.View

def errStr : Err → String
  | .valueError => "ValueError"
  | .indexError => "IndexError"
  | .assertionError => "AssertionError"

def exJ {α} (f : α → J) : Except Err α → J
  | .ok a => f a
  | .error e => J.obj [("err", J.str (errStr e))]

open CogentModel.Gen.C01View in
/-- the generated functions of one namespace, under uniform types -/
structure GenFns where
  inputValsPos : Int → Option Int → Option Int → Int → Int × Int × Int
  inputValsNeg : Int → Option Int → Option Int → Int → Int × Int × Int
  mkView : Int → Option Int → Option Int → Option Int → Int → Option Int → Except Err View
  len : View → Int
  isReversed : View → Bool
  parentStart : View → Except Err Int
  parentStop : View → Except Err Int
  getIndex : View → Int → Bool → Except Err (Int × Int × Int)
  absolutePosition : View → Int → Bool → Except Err Int
  relativePosition : View → Int → Bool → Except Err Int
  zeroSlice : View → Except Err View
  copy : View → Except Err View
  fwdFromFwd : View → Int → Int → Int → Except Err View
  fwdFromRev : View → Int → Int → Int → Except Err View
  revFromFwd : View → Int → Int → Int → Except Err View
  revFromRev : View → Int → Int → Int → Except Err View
  getitemInt : View → Int → Except Err View
  getitemSlice : View → Option Int → Option Int → Option Int → Except Err View
  richDictBounds : Option (View → Int × Int)
  annotationOffset : View → Except Err Int
  parentCoordinates : View → Except Err (Int × Int × Int)

open CogentModel.Gen.C01View in
def genOld : GenFns := {
  inputValsPos := GenOld.inputValsPos, inputValsNeg := GenOld.inputValsNeg, mkView := GenOld.mk, len := GenOld.len,
  isReversed := GenOld.isReversed, parentStart := GenOld.parentStart, parentStop := GenOld.parentStop,
  getIndex := GenOld.getIndex, absolutePosition := GenOld.absolutePosition, relativePosition := GenOld.relativePosition,
  zeroSlice := GenOld.zeroSlice, copy := GenOld.copy, fwdFromFwd := GenOld.fwdFromFwd, fwdFromRev := GenOld.fwdFromRev,
  revFromFwd := GenOld.revFromFwd, revFromRev := GenOld.revFromRev, getitemInt := GenOld.getitemInt,
  getitemSlice := GenOld.getitemSlice, richDictBounds := some GenOld.richDictBounds,
  annotationOffset := GenOld.annotationOffset, parentCoordinates := GenOld.parentCoordinates }

open CogentModel.Gen.C01View in
def genNew : GenFns := {
  inputValsPos := GenNew.inputValsPos, inputValsNeg := GenNew.inputValsNeg, mkView := GenNew.mk, len := GenNew.len,
  isReversed := GenNew.isReversed, parentStart := GenNew.parentStart, parentStop := GenNew.parentStop,
  getIndex := GenNew.getIndex, absolutePosition := GenNew.absolutePosition, relativePosition := GenNew.relativePosition,
  zeroSlice := GenNew.zeroSlice, copy := GenNew.copy, fwdFromFwd := GenNew.fwdFromFwd, fwdFromRev := GenNew.fwdFromRev,
  revFromFwd := GenNew.revFromFwd, revFromRev := GenNew.revFromRev, getitemInt := GenNew.getitemInt,
  getitemSlice := GenNew.getitemSlice, richDictBounds := some GenNew.richDictBounds,
  annotationOffset := GenNew.annotationOffset, parentCoordinates := GenNew.parentCoordinates }

open CogentModel.Gen.C01View in
def genData : GenFns := {
  inputValsPos := GenData.inputValsPos, inputValsNeg := GenData.inputValsNeg,
  mkView := fun n a b c off _ => GenData.mk n a b c off, len := GenData.len,
  isReversed := GenData.isReversed, parentStart := GenData.parentStart, parentStop := GenData.parentStop,
  getIndex := GenData.getIndex, absolutePosition := GenData.absolutePosition, relativePosition := GenData.relativePosition,
  zeroSlice := GenData.zeroSlice, copy := fun v => .ok (GenData.copy v), fwdFromFwd := GenData.fwdFromFwd,
  fwdFromRev := GenData.fwdFromRev, revFromFwd := GenData.revFromFwd, revFromRev := GenData.revFromRev,
  getitemInt := GenData.getitemInt, getitemSlice := GenData.getitemSlice, richDictBounds := none,
  annotationOffset := GenData.annotationOffset, parentCoordinates := GenData.parentCoordinates }

def rawViewJ (v : View) : J :=
  J.obj [("start", J.num v.start), ("stop", J.num v.stop), ("step", J.num v.step),
         ("offset", J.num v.offset), ("seq_len", J.num v.seqLen)]

def t3J : Int × Int × Int → J := fun (a, b, c) => J.arr [J.num a, J.num b, J.num c]

def parseView (j : J) : Except String View := do
  pure { start := ← (← j.get "start").toInt, stop := ← (← j.get "stop").toInt, step := ← (← j.get "step").toInt,
         offset := ← (← j.get "offset").toInt, seqLen := ← (← j.get "seq_len").toInt }

/-- `gen {ns, fn, …}`: one generated function on explicit arguments -/
def handleGen (j : J) : Except String J := do
  let g ← match ← (← j.get "ns").toStr with
    | "old" => pure genOld
    | "new" => pure genNew
    | "data" => pure genData
    | s => throw s!"bad namespace {s}"
  let int (k : String) : Except String Int := do (← j.get k).toInt
  let opt (k : String) : Except String (Option Int) := do (← j.get k).toOptInt
  let view : Except String View := do parseView (← j.get "v")
  match ← (← j.get "fn").toStr with
  | "inputValsPos" => pure (t3J (g.inputValsPos (← int "n") (← opt "a") (← opt "b") (← int "c")))
  | "inputValsNeg" => pure (t3J (g.inputValsNeg (← int "n") (← opt "a") (← opt "b") (← int "c")))
  | "mk" => pure (exJ rawViewJ (g.mkView (← int "n") (← opt "a") (← opt "b") (← opt "c") (← int "off") (← opt "sl")))
  | "len" => pure (J.num (g.len (← view)))
  | "isReversed" => pure (J.bool (g.isReversed (← view)))
  | "parentStart" => pure (exJ J.num (g.parentStart (← view)))
  | "parentStop" => pure (exJ J.num (g.parentStop (← view)))
  | "getIndex" => pure (exJ t3J (g.getIndex (← view) (← int "x") (← (← j.get "flag").toBool)))
  | "absolutePosition" => pure (exJ J.num (g.absolutePosition (← view) (← int "x") (← (← j.get "flag").toBool)))
  | "relativePosition" => pure (exJ J.num (g.relativePosition (← view) (← int "x") (← (← j.get "flag").toBool)))
  | "zeroSlice" => pure (exJ rawViewJ (g.zeroSlice (← view)))
  | "copy" => pure (exJ rawViewJ (g.copy (← view)))
  | "fwdFromFwd" => pure (exJ rawViewJ (g.fwdFromFwd (← view) (← int "a") (← int "b") (← int "c")))
  | "fwdFromRev" => pure (exJ rawViewJ (g.fwdFromRev (← view) (← int "a") (← int "b") (← int "c")))
  | "revFromFwd" => pure (exJ rawViewJ (g.revFromFwd (← view) (← int "a") (← int "b") (← int "c")))
  | "revFromRev" => pure (exJ rawViewJ (g.revFromRev (← view) (← int "a") (← int "b") (← int "c")))
  | "getitemInt" => pure (exJ rawViewJ (g.getitemInt (← view) (← int "x")))
  | "getitemSlice" => pure (exJ rawViewJ (g.getitemSlice (← view) (← opt "a") (← opt "b") (← opt "c")))
  | "richDictBounds" =>
    match g.richDictBounds with
    | some f => let (a, b) := f (← view); pure (J.arr [J.num a, J.num b])
    | none => throw "richDictBounds is not generated for this namespace"
  | "annotationOffset" => pure (exJ J.num (g.annotationOffset (← view)))
  | "parentCoordinates" => pure (exJ t3J (g.parentCoordinates (← view)))
  | f => throw s!"unknown generated function {f}"

end C01Gen
