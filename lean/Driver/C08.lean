import CogentModel.Json
import CogentModel.Model.IndelMap
import CogentModel.Model.FMap
import CogentModel.Model.FMapOps
import CogentModel.Model.FMapPos
import CogentModel.Spec.Gapped
open CogentModel CogentModel.IndelMap

def errStr : Err → String
  | .valueError => "ValueError"
  | .indexError => "IndexError"
  | .notImplemented => "NotImplementedError"
  | .assertionError => "AssertionError"
  | .runtimeError => "RuntimeError"

def exJ {α} (f : α → J) : Except Err α → J
  | .ok a => f a
  | .error e => J.obj [("err", J.str (errStr e))]

def intsJ (xs : List Int) : J := J.arr (xs.map J.num)
def pairsJ (xs : List (Int × Int)) : J := J.arr (xs.map fun p => J.arr [J.num p.1, J.num p.2])
def gappedJ (g : List (Option Nat)) : J := J.arr (g.map fun | none => J.null | some k => J.num k)

def mapJ (m : IMap) : J :=
  J.obj [("gp", intsJ m.gapPos), ("cum", intsJ m.cumLens), ("pl", J.num m.parentLength)]

def spJ : Sp → J
  | .span s e => J.arr [J.num s, J.num e]
  | .lost n => J.arr [J.num n]

def parseMap (j : J) : Except String IMap := do
  pure ⟨← (← j.get "gp").toListOf J.toInt, ← (← j.get "cum").toListOf J.toInt, ← (← j.get "pl").toInt⟩

def parsePairs (j : J) : Except String (List (Int × Int)) := j.toListOf (J.toPairOf J.toInt J.toInt)

def parsePattern (j : J) : Except String (List Bool) := do
  pure ((← j.toStr).toList.map (· == '1'))

/-- everything observable about one map + the answers to the queries in `j` -/
def observe (m : IMap) (j : J) : Except String J := do
  let iv ← match j.get? "iv" with
    | some x => x.toListOf (fun t => do
        match ← t.toList with
        | [a, b] => pure (← a.toOptInt, ← b.toOptInt, (none : Option Int))
        | [a, b, c] => pure (← a.toOptInt, ← b.toOptInt, ← c.toOptInt)
        | _ => throw "bad interval")
    | none => pure []
  let ai ← match j.get? "ai" with | some x => x.toListOf J.toInt | none => pure []
  let si ← match j.get? "si" with | some x => x.toListOf (J.toPairOf J.toInt J.toBool) | none => pure []
  pure (J.obj [
    ("m", mapJ m), ("len", J.num (len m)),
    ("spans", J.arr ((spans m).map spJ)),
    ("abs", gappedJ (abs m)), ("abs_spans", gappedJ (absSpans m)),
    ("coords", pairsJ (getCoordinates m)), ("nongap", pairsJ (nongap m)),
    ("gapcoords", pairsJ (getGapCoordinates m)), ("gapalign", pairsJ (getGapAlignCoordinates m)),
    ("rev", exJ mapJ (nucleicReversed m)),
    ("get", J.arr (iv.map fun (a, b, c) => exJ mapJ (getitem m a b c))),
    ("seq", J.arr (ai.map fun i => exJ J.num (getSeqIndex m i))),
    ("aln", J.arr (si.map fun (i, st) => exJ J.num (getAlignIndex m i st)))])

def fspJ : FMap.FSp → J
  | .span s e r => J.arr [J.num s, J.num e, J.bool r]
  | .lost n => J.arr [J.num n]

def fmapJ (m : FMap.FM) : J := J.obj [("spans", J.arr (m.spans.map fspJ)), ("pl", J.num m.parentLength)]

def ferrStr : FMap.FErr → String
  | .valueError => "ValueError"
  | .runtimeError => "RuntimeError"
  | .assertionError => "AssertionError"
  | .indexError => "IndexError"

def fexJ {α} (f : α → J) : Except FMap.FErr α → J
  | .ok a => f a
  | .error e => J.obj [("err", J.str (ferrStr e))]

def gappedJ' (g : List (Option Int)) : J := J.arr (g.map fun | none => J.null | some k => J.num k)

def parseFSp (j : J) : Except String FMap.FSp := do
  match ← j.toList with
  | [n] => pure (.lost (← n.toInt))
  | [s, e] => pure (.span (← s.toInt) (← e.toInt) false)
  | [s, e, r] => pure (.span (← s.toInt) (← e.toInt) (← r.toBool))
  | _ => throw "bad span"

def parseFMap (j : J) : Except String FMap.FM := do
  pure ⟨← (← j.get "spans").toListOf parseFSp, ← (← j.get "pl").toInt⟩

def handle (cmd : String) (j : J) : Except String J :=
  match cmd with
  | "layout" => do
    let s ← parsePattern (← j.get "s")
    observe (fromGapped s) j
  | "map" => do
    match mk (← (← j.get "gp").toListOf J.toInt) (← (← j.get "cum").toListOf J.toInt) (← (← j.get "pl").toInt) with
    | .error e => pure (J.obj [("err", J.str (errStr e))])
    | .ok m => observe m j
  | "binary" => do
    let a ← parseMap (← j.get "a")
    let b ← parseMap (← j.get "b")
    match ← (← j.get "op").toStr with
    | "add" => pure (exJ mapJ (add a b))
    | "merge" => pure (exJ mapJ (mergeMaps a b (← (← j.get "pl").toOptInt)))
    | "minus" => pure (exJ mapJ (minusGaps a b))
    | "shared" => pure (exJ pairsJ (sharedGaps a b))
    | o => throw s!"bad op {o}"
  | "joined" => do
    pure (exJ mapJ (joinedSegments (← parseMap (← j.get "m")) (← parsePairs (← j.get "coords"))))
  | "mul" => do
    pure (exJ mapJ (mul (← parseMap (← j.get "m")) (← (← j.get "k").toInt)))
  | "from_segments" => do
    pure (exJ mapJ (fromAlignedSegments (← parsePairs (← j.get "locs")) (← (← j.get "n").toInt)))
  | "gap_coords" => do
    pure (exJ mapJ (gapCoordsToMap (← parsePairs (← j.get "items")) (← (← j.get "n").toInt)))
  | "coords_ops" => do
    let a ← parsePairs (← j.get "a")
    let b ← parsePairs (← j.get "b")
    pure (J.obj [("minus", exJ pairsJ (coordsMinusCoords a b)), ("inter", exJ pairsJ (coordsIntersect a b))])
  | "span_and_span" => do
    match spanAndSpan (← (← j.get "a1").toInt) (← (← j.get "a2").toInt) (← (← j.get "b1").toInt) (← (← j.get "b2").toInt) with
    | none => pure (J.obj [("err", J.str "ValueError")])
    | some none => pure J.null
    | some (some p) => pure (J.arr [J.num p.1, J.num p.2])
  | "spec" => do
    -- the Lean spec functions on a pattern, for validation against CPython string semantics
    let s ← parsePattern (← j.get "s")
    let g := Gapped.ofPattern s
    let a ← (← j.get "a").toOptInt
    let b ← (← j.get "b").toOptInt
    pure (J.obj [("slice", gappedJ (Gapped.slice g a b)),
      ("seq_index", J.arr ((List.range (g.length + 1)).map fun i => J.num (Gapped.seqIndex g i))),
      ("align_index", J.arr ((List.range (Gapped.seqLen g)).map fun k => J.num (Gapped.alignIndex g k))),
      ("reversed", gappedJ (Gapped.reversed g)),
      ("runs", J.arr ((Gapped.gapRuns g).map fun p => J.arr [J.num p.1, J.num p.2])),
      -- the spec functions of add_spec / mul_spec / gap_lengths_spec / merge_spec (second operand: the reversed pattern)
      ("concat", gappedJ (Gapped.concat g (Gapped.ofPattern s.reverse))),
      ("scaled", J.arr ([0, 1, 2, 3].map fun k => gappedJ (Gapped.scaled g k))),
      ("gaps_before", J.arr ((List.range (Gapped.seqLen g + 2)).map fun k => J.num (Gapped.gapsBefore g k)))])
  | "fmap" => do
    -- feature map algebra
    let m ← parseFMap (← j.get "m")
    let o ← match j.get? "o" with | some x => (do pure (some (← parseFMap x))) | none => pure none
    pure (J.obj ([
      ("len", J.num (FMap.len m)),
      ("covered", fexJ fmapJ (FMap.covered m)),
      ("inverse", fexJ fmapJ (FMap.inverse m)),
      ("gaps", fexJ fmapJ (FMap.gaps m)),
      ("shadow", fexJ fmapJ (FMap.shadow m)),
      ("nongap", fexJ (fun l => J.arr (l.map fspJ)) (FMap.nongap m)),
      ("rev", fexJ fmapJ (FMap.nucleicReversed m)),
      ("cover", gappedJ' (FMap.cover m))] ++
      (match o with
       | some n => [("getitem", fexJ fmapJ (FMap.getitem m n))]
       | none => [])))
  | "from_locations" => do
    pure (fexJ fmapJ (FMap.fromLocations (← parsePairs (← j.get "locs")) (← (← j.get "pl").toInt)))
  | "spanops" => do
    -- predicates / slicing / scaling / mirroring of one span (and of the lost span of the same length)
    let s ← (← j.get "s").toInt
    let e ← (← j.get "e").toInt
    let r ← (← j.get "r").toBool
    let os ← (← j.get "os").toInt
    let oe ← (← j.get "oe").toInt
    let xs ← (← j.get "xs").toListOf J.toInt
    let ivs ← (← j.get "ivs").toListOf (fun t => do
        match ← t.toList with
        | [a, b] => pure (← a.toOptInt, ← b.toOptInt)
        | _ => throw "bad interval")
    let ks ← (← j.get "ks").toListOf J.toInt
    let ls ← (← j.get "ls").toListOf J.toInt
    let sp := FMap.FSp.span s e r
    let lo := FMap.FSp.lost (e - s)
    let b (x : Bool) := J.bool x
    pure (J.obj [
      ("int_preds", J.arr (xs.map fun x => J.arr [b (FMap.containsInt s e x),
          b (decide (s < x)), b (decide (s > x)), b (decide (s = x)), b false,
          b (decide (e < x)), b (decide (e > x)), b (decide (e = x)), b false])),
      ("span_preds", J.arr [b (FMap.containsSpan s e os oe), b (FMap.overlapsSpan s e os oe),
          b (decide (s < os)), b (decide (s > os)), b (decide (s = os)), b (FMap.containsInt os oe s),
          b (decide (e < oe)), b (decide (e > oe)), b (decide (e = oe)), b (FMap.containsInt os oe e)]),
      ("slice", J.arr (ivs.map fun (a, c) => fexJ fspJ (FMap.spanSlice sp a c))),
      ("lost_slice", J.arr (ivs.map fun (a, c) => fexJ fspJ (FMap.spanSlice lo a c))),
      ("at", J.arr (xs.map fun i => fexJ fspJ (FMap.spanAt sp i))),
      ("lost_at", J.arr (xs.map fun i => fexJ fspJ (FMap.spanAt lo i))),
      ("mul", J.arr (ks.map fun k => fspJ (sp.mul k))),
      ("div", J.arr (ks.map fun k => fexJ fspJ (sp.truediv k))),
      ("lost_mul", J.arr (ks.map fun k => fspJ (lo.mul k))),
      ("lost_div", J.arr (ks.map fun k => fexJ fspJ (lo.truediv k))),
      ("rrt", J.arr (ls.map fun l => fexJ fspJ (sp.reversedRelativeTo l))),
      ("reversed", fspJ sp.reversed)])
  | "fmops" => do
    let m ← parseFMap (← j.get "m")
    let o ← parseFMap (← j.get "o")
    let ks ← (← j.get "ks").toListOf J.toInt
    let ps ← (← j.get "ps").toListOf J.toInt
    pure (J.obj [
      ("mul", J.arr (ks.map fun k => fmapJ (FMap.fmMul m k))),
      ("div", J.arr (ks.map fun k => fexJ fmapJ (FMap.fmTruediv m k))),
      ("add", fexJ fmapJ (FMap.fmAdd m o)),
      ("without_gaps", fmapJ (FMap.withoutGaps m)),
      ("coords", pairsJ (FMap.getCoordinates m)),
      ("start", J.num (FMap.fmStart m)), ("end", J.num (FMap.fmEnd m)),
      ("covering", fexJ fmapJ (FMap.coveringSpan m)),
      ("offsets", J.arr ((FMap.offsets m).map J.num)), ("len", J.num (FMap.len m)),
      ("useful", J.bool (FMap.useful m)), ("complete", J.bool (FMap.complete m)),
      ("abs", J.arr (ps.map fun p => fexJ J.num (FMap.absolutePosition m p))),
      ("rel", J.arr (ps.map fun p => fexJ J.num (FMap.relativePosition m p))),
      ("zeroed", fexJ fmapJ (FMap.zeroed m))])
  | _ => throw s!"unknown command {cmd}"

def main : IO Unit := driverLoop handle
