import CogentModel.Json
import CogentModel.Model.PairHMM
import CogentModel.Spec.PairHMM
import CogentModel.Model.GapMerge
import CogentModel.Model.Hirschberg
import CogentModel.Model.ClassicHMM
import CogentModel.Model.Progressive
open CogentModel CogentModel.PairHMM

def optRat (j : J) : Except String (Option Rat) :=
  match j with
  | J.null => pure none
  | _ => do pure (some (← j.toRat))

def ofOptRat : Option Rat → J
  | none => J.null
  | some q => J.ofRat q

def toArr {α} (f : J → Except String α) (j : J) : Except String (Array α) := do
  pure (← j.toListOf f).toArray

def parseHMM (j : J) : Except String (HMM Rat × Nat × Nat × Bool) := do
  let dirs ← (← j.get "dirs").toListOf (J.toPairOf J.toBool J.toBool)
  let T ← toArr (toArr optRat) (← j.get "T")
  let e : Emis Rat := {
    bins := ← (← j.get "bins").toListOf J.toNat
    xIndex := ← toArr J.toNat (← j.get "xi")
    yIndex := ← toArr J.toNat (← j.get "yi")
    matchSc := ← toArr (toArr (toArr optRat)) (← j.get "M")
    xgap := ← toArr (toArr optRat) (← j.get "xg")
    ygap := ← toArr (toArr optRat) (← j.get "yg") }
  let h : HMM Rat := { dirs := dirs, T := fun a b => (T.getD a #[]).getD b none, em := e.em dirs }
  pure (h, e.xIndex.size, e.yIndex.size, ← (← j.get "local").toBool)

def pathJ : Option (List (Nat × Nat × Nat)) → J
  | none => J.null
  | some p => J.arr (p.map fun (s, i, j) => J.arr [J.ofNat s, J.ofNat i, J.ofNat j])

def maxOpt (xs : List (Option Rat)) : Option Rat :=
  xs.foldl (fun a b => if egt b a then b else a) none

def gapsOfJ (j : J) : Except String GapMerge.Gaps := j.toListOf (J.toPairOf J.toInt J.toInt)
def gapsJ (g : GapMerge.Gaps) : J := J.arr (g.map fun (p, l) => J.arr [J.num p, J.num l])
def exGapsJ : Except String GapMerge.Gaps → J
  | .ok g => gapsJ g
  | .error e => J.obj [("err", J.str e)]

/-- exact value rounded down to a multiple of 2^-1200 (the BEGIN row after ten squarings has ~10^5-bit terms) -/
def roundRat (q : Rat) : Rat := ((q * ((2 : Rat) ^ 1200)).floor : Rat) / ((2 : Rat) ^ 1200)

/-! progressive column merge (`Model/Progressive.lean`) -/
def optNat (j : J) : Except String (Option Nat) :=
  match j with
  | J.null => pure none
  | _ => do pure (some (← j.toNat))
def posOfJ (j : J) : Except String Progressive.Pos := J.toPairOf optNat optNat j
def optNatJ : Option Nat → J
  | none => J.null
  | some n => J.ofNat n
def posJ (p : Progressive.Pos) : J := J.arr [optNatJ p.1, optNatJ p.2]
def rowOfStr (s : String) : Progressive.Row Char := s.toList.map fun c => if c = '-' then none else some c
def rowStr (r : Progressive.Row Char) : String := String.ofList (r.map fun c => c.getD '-')
partial def gtreeOfJ (j : J) : Except String (Progressive.GTree Char) := do
  match ← (← j.get "k").toStr with
  | "leaf" => pure (.leaf (← (← j.get "seq").toStr).toList)
  | _ => pure (.node (← gtreeOfJ (← j.get "l")) (← gtreeOfJ (← j.get "r")) (← (← j.get "ap").toListOf posOfJ))

def handle (cmd : String) (j : J) : Except String J :=
  match cmd with
  | "pognode" => do
    -- one internal node: child widths, the DP's aligned positions, the children's rows
    let n1 ← (← j.get "n1").toNat
    let n2 ← (← j.get "n2").toNat
    let ap ← (← j.get "ap").toListOf posOfJ
    let fixed ← (← j.get "fixed").toBool
    let left ← (← j.get "left").toListOf J.toStr
    let right ← (← j.get "right").toListOf J.toStr
    let full := Progressive.pogTraceback n1 n2 ap
    let rows := left.map (fun r => rowStr (Progressive.mergeRow fixed false full (rowOfStr r))) ++
                right.map (fun r => rowStr (Progressive.mergeRow fixed true full (rowOfStr r)))
    pure (J.obj [("valid", J.bool (Progressive.apValid n1 n2 ap 0 0)), ("full", J.arr (full.map posJ)),
                 ("rows", J.arr (rows.map J.str))])
  | "progtree" => do
    -- a whole guide tree with the DP outcome at every internal node
    let t ← gtreeOfJ (← j.get "tree")
    let fixed ← (← j.get "fixed").toBool
    pure (J.obj [("valid", J.bool t.valid), ("width", J.ofNat t.width),
                 ("rows", J.arr ((t.rows fixed).map fun r => J.str (rowStr r))),
                 ("leaves", J.arr (t.leaves.map fun s => J.str (String.ofList s)))])
  | "viterbi" => do
    let (h, n, m, loc) ← parseHMM j
    let r := if loc then viterbiLocal h n m else viterbiGlobal h n m
    -- the spec-level score of the implementation's returned path
    let p ← (← j.get "path").toListOf J.toNat
    let i0 ← (← j.get "i0").toNat
    let j0 ← (← j.get "j0").toNat
    let ps := if loc then prefixScore h i0 j0 p else globalScore h p
    let c := consumedFrom h i0 j0 p
    -- the spec-level score of the model's own path
    let mp := (r.path.getD []).map (·.1)
    let (mi0, mj0) := match r.path with
      | some ((s, i, j) :: _) => (i - (h.dir s).1.toNat, j - (h.dir s).2.toNat)
      | _ => (0, 0)
    let ms := if loc then prefixScore h mi0 mj0 mp else globalScore h mp
    pure (J.obj [("score", ofOptRat r.score), ("path", pathJ r.path), ("path_score", ofOptRat ps),
                 ("consumed", J.arr [J.ofNat c.1, J.ofNat c.2]), ("model_path_score", ofOptRat ms)])
  | "hirschberg" => do
    -- the divide-and-conquer model (split row n/2) vs the full DP model on the same hmm
    let (h, n, m, _) ← parseHMM j
    let limit ← (← j.get "limit").toNat
    let r := hirsch (0 : Rat) (fun x => x / 2) limit n h n m
    let full := viterbiGlobal h n m
    let mp := (r.path.getD []).map (·.1)
    pure (J.obj [("score", ofOptRat r.score), ("path", pathJ r.path), ("full_score", ofOptRat full.score),
                 ("path_score", ofOptRat (globalScore h mp)), ("consumed", let c := consumedFrom h 0 0 mp; J.arr [J.ofNat c.1, J.ofNat c.2])])
  | "classic" => do
    -- probability-space HMM that classic_align_pairwise builds from exp(-d), exp(-e), exp(S)
    let ed ← (← j.get "ed").toRat
    let ee ← (← j.get "ee").toRat
    let es ← toArr (toArr J.toRat) (← j.get "es")
    let n := es.size
    let esf : Nat → Nat → Rat := fun a b => (es.getD a #[]).getD b 0
    let A := ClassicHMM.gapT ed ee
    let full : Nat → Nat → Rat := ClassicHMM.fullMatrix A
    let pairs ← (← j.get "pairs").toListOf (J.toPairOf J.toNat J.toNat)
    pure (J.obj [("T", J.arr ((List.range 5).map fun i => J.arr ((List.range 5).map fun jj => J.ofRat (roundRat (full i jj))))),
                 ("match", J.arr (pairs.map fun (a, b) => J.ofRat (ClassicHMM.matchProb n esf a b))),
                 ("gap", J.ofRat (ClassicHMM.gapProb : Rat))])
  | "allpaths" => do
    -- brute force over the spec's explicit path enumeration (tiny inputs only)
    let (h, n, m, loc) ← parseHMM j
    if loc then
      let cands := (List.range n).flatMap fun i0 => (List.range m).flatMap fun j0 =>
        (List.range (n - i0 + 1)).flatMap fun a => (List.range (m - j0 + 1)).flatMap fun b =>
          ((allPaths h (a + b) a b).filter fun p => p ≠ [] && isMatch h (p.headD 0) && isMatch h (lastState p)).map
            fun p => prefixScore h i0 j0 p
      pure (J.obj [("max", ofOptRat (maxOpt cands)), ("count", J.ofNat cands.length)])
    else
      let ps := allPaths h (n + m) n m
      pure (J.obj [("max", ofOptRat (maxOpt (ps.map (globalScore h)))), ("count", J.ofNat ps.length)])
  | "rows" => do
    -- gapped rows of a path given as [[s,i,j],…] over two strings
    let dirs ← (← j.get "dirs").toListOf (J.toPairOf J.toBool J.toBool)
    let h : HMM Rat := { dirs := dirs, T := fun _ _ => none, em := fun _ _ _ => none }
    let s1 := (← (← j.get "s1").toStr).toList
    let s2 := (← (← j.get "s2").toStr).toList
    let p ← (← j.get "path").toListOf fun t => do
      match ← t.toListOf J.toNat with
      | [s, i, jj] => pure (s, i, jj)
      | _ => throw "bad step"
    let (r1, r2) := rowsOfPath h s1 s2 p
    let str := fun (r : List (Option Char)) => String.ofList (r.map fun c => c.getD '-')
    pure (J.arr [J.str (str r1), J.str (str r2)])
  | "gapoffset" => do
    let g ← gapsOfJ (← j.get "gaps")
    let inv ← (← j.get "invert").toBool
    let go := GapMerge.GapOffset.mk' g inv
    let qs ← (← j.get "queries").toListOf J.toInt
    pure (J.arr (qs.map fun q => J.num (go.get q)))
  | "merged" => do
    pure (gapsJ (GapMerge.sortGaps (GapMerge.mergedGaps (← gapsOfJ (← j.get "a")) (← gapsOfJ (← j.get "b")))))
  | "combined" => do
    pure (gapsJ (GapMerge.sortGaps (GapMerge.combinedRefseqGaps (← gapsOfJ (← j.get "seq")) (← gapsOfJ (← j.get "union")))))
  | "inject" => do
    let r := GapMerge.gapsForInjection (← (← j.get "fixed").toBool) (← gapsOfJ (← j.get "other")) (← gapsOfJ (← j.get "ref")) (← (← j.get "seqlen").toInt)
    pure (exGapsJ (r.map GapMerge.sortGaps))
  | "p2m" => do
    -- pairwise_to_multiple on gap lists: ref length, [(refgaps, othergaps, otherlen)]
    let reflen ← (← j.get "reflen").toInt
    let pw ← (← j.get "pairs").toListOf fun t => do
      pure (← gapsOfJ (← t.get "ref"), ← gapsOfJ (← t.get "other"), ← (← t.get "len").toInt)
    let fixed ← (← j.get "fixed").toBool
    match GapMerge.pairwiseToMultiple fixed reflen pw with
    | .error e => pure (J.obj [("err", J.str e)])
    | .ok (rg, others) =>
      pure (J.obj [("ref", gapsJ (GapMerge.sortGaps rg)), ("others", J.arr (others.map fun g => gapsJ (GapMerge.sortGaps g))),
                   ("keeps", J.bool (GapMerge.keepsAll fixed reflen pw))])
  | _ => throw s!"unknown command {cmd}"

def main : IO Unit := driverLoop handle
