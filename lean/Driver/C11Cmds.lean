import CogentModel.Json
import CogentModel.Model.Prune
import CogentModel.Model.PruneInvariance
import Driver.PruneCmds
/-! C11's own driver commands: the executable tree operations of `Model/PruneInvariance.lean` on trees whose
"matrices" are just edge identifiers (`fun _ _ => id`), so the harness can compare the SHAPE cogent3's
`rooted_at` / `rooted_with_tip` / `unrooted` produce (children in order, which edge every node hangs below,
which edges were merged) with the model's. -/
open CogentModel CogentModel.Prune

namespace C11Cmds

/-- tree JSON: `{"e": edge id, "l": leaf id}` or `{"e": edge id, "c": [subtrees]}` -/
partial def parseShape (j : J) : Except String (PTree Int Nat) := do
  let e ← (← j.get "e").toInt
  let mat : Mat Int := fun _ _ => e
  match j.get? "l" with
  | some l => return .leaf mat (← l.toNat)
  | none =>
    let cs ← (← (← j.get "c").toList).mapM parseShape
    return .node mat cs

partial def renderShape : PTree Int Nat → J
  | .leaf P a => J.obj [("e", J.num (P 0 0)), ("l", J.num a)]
  | .node P cs => J.obj [("e", J.num (P 0 0)), ("c", J.arr (cs.map renderShape))]

/-- `reroot`: `rootedAt path tree`; `{"none": true}` when the model refuses (tip / path outside the tree) -/
def cmdReroot (j : J) : Except String J := do
  let t ← parseShape (← j.get "tree")
  let path ← (← j.get "path").toListOf J.toNat
  match rootedAt path t with
  | some t' => return J.obj [("tree", renderShape t')]
  | none => return J.obj [("none", J.bool true)]

/-- `unroot`: `unrootedM` with `comp c s = (c + 1) * 100000 + s` (edge `s` lengthened by edge `c`) -/
def cmdUnroot (j : J) : Except String J := do
  let t ← parseShape (← j.get "tree")
  let comp : Mat Int → Mat Int → Mat Int := fun Pc Ps _ _ => (Pc 0 0 + 1) * 100000 + Ps 0 0
  return J.obj [("tree", renderShape (unrootedM comp t))]

/-- `calcq`: the model's `calcQ` in exact arithmetic on the float64 inputs of the real `StationaryQ.calcQ`;
also `sym` = max |R i j − R j i| of the exchangeability matrix -/
def cmdCalcQ (j : J) : Except String J := do
  let m ← (← j.get "m").toNat
  let Rm := PruneCmds.matFn (← PruneCmds.ratMat (← j.get "R"))
  let M := PruneCmds.matFn (← PruneCmds.ratMat (← j.get "M"))
  let w := PruneCmds.vecFn (← PruneCmds.ratVec (← j.get "w"))
  let Q := calcQ m Rm M w
  let sym := PruneCmds.maxOver m fun i => PruneCmds.maxOver m fun k => PruneCmds.absR (Rm i k - Rm k i)
  return J.obj [("Q", J.arr ((List.range m).map fun i => J.arr ((List.range m).map fun k => J.ofRat (Q i k)))),
                ("sym", J.ofRat sym)]

def handle? (cmd : String) (j : J) : Option (Except String J) :=
  match cmd with
  | "calcq" => some (cmdCalcQ j)
  | "reroot" => some (cmdReroot j)
  | "unroot" => some (cmdUnroot j)
  | _ => none

end C11Cmds
