import CogentModel.Json
import CogentModel.Model.Prune
import CogentModel.Model.PruneInvariance
import Driver.PruneCmds
import CogentModel.Gen.C11Scope
/-! C11's own driver commands: the executable tree operations of `Model/PruneInvariance.lean` on trees whose
"matrices" are just edge identifiers (`fun _ _ => id`), so the harness can compare the SHAPE cogent3's
`rooted_at` / `rooted_with_tip` / `unrooted` produce (children in order, which edge every node hangs below,
which edges were merged) with the model's. -/
open CogentModel CogentModel.Prune

namespace C11Cmds

/-- tree JSON: `{"e": edge id, "l": leaf id}` or `{"e": edge id, "c": [subtrees]}` -/
partial def parseShape (j : J) : Except String (PTree Int Nat) := do
  let e ← (← j.get "e").toInt
  let mat : Mat Int := fun _ _ => e
  match j.get? "l" with
  | some l => return .leaf mat (← l.toNat)
  | none =>
    let cs ← (← (← j.get "c").toList).mapM parseShape
    return .node mat cs

partial def renderShape : PTree Int Nat → J
  | .leaf P a => J.obj [("e", J.num (P 0 0)), ("l", J.num a)]
  | .node P cs => J.obj [("e", J.num (P 0 0)), ("c", J.arr (cs.map renderShape))]

/-- `reroot`: `rootedAt path tree`; `{"none": true}` when the model refuses (tip / path outside the tree) -/
def cmdReroot (j : J) : Except String J := do
  let t ← parseShape (← j.get "tree")
  let path ← (← j.get "path").toListOf J.toNat
  match rootedAt path t with
  | some t' => return J.obj [("tree", renderShape t')]
  | none => return J.obj [("none", J.bool true)]

/-- `unroot`: `unrootedM` with `comp c s = (c + 1) * 100000 + s` (edge `s` lengthened by edge `c`) -/
def cmdUnroot (j : J) : Except String J := do
  let t ← parseShape (← j.get "tree")
  let comp : Mat Int → Mat Int → Mat Int := fun Pc Ps _ _ => (Pc 0 0 + 1) * 100000 + Ps 0 0
  return J.obj [("tree", renderShape (unrootedM comp t))]

/-- `calcq`: the model's `calcQ` in exact arithmetic on the float64 inputs of the real `StationaryQ.calcQ`;
also `sym` = max |R i j − R j i| of the exchangeability matrix -/
def cmdCalcQ (j : J) : Except String J := do
  let m ← (← j.get "m").toNat
  let Rm := PruneCmds.matFn (← PruneCmds.ratMat (← j.get "R"))
  let M := PruneCmds.matFn (← PruneCmds.ratMat (← j.get "M"))
  let w := PruneCmds.vecFn (← PruneCmds.ratVec (← j.get "w"))
  let Q := calcQ m Rm M w
  let sym := PruneCmds.maxOver m fun i => PruneCmds.maxOver m fun k => PruneCmds.absR (Rm i k - Rm k i)
  return J.obj [("Q", J.arr ((List.range m).map fun i => J.arr ((List.range m).map fun k => J.ofRat (Q i k)))),
                ("sym", J.ofRat sym)]

/-! ### `scope`: the TRANSLATED `_process_scope_info` / `get_edge_names` (Gen/C11Scope.lean) on table-driven tree primitives

The harness sends what cogent3's own primitives answer on the real tree: `nodes[i] = {name, tip, root, children, names, view}`
(`view` = id of the root of `nodes[i].unrooted_deepcopy()` or -1 when not supplied), `match = [[tree id, name, node id]]`
(`get_node_matching_name`), `lca = [[tree id, a, b, node id]]` (`get_connecting_node`); a missing entry = the primitive raises. -/
structure NodeRec where
  name : String
  tip : Bool
  root : Bool
  children : List Nat
  names : List String
  view : Int

def parseNode (j : J) : Except String NodeRec := do
  return { name := ← (← j.get "name").toStr, tip := ← (← j.get "tip").toBool, root := ← (← j.get "root").toBool,
           children := ← (← j.get "children").toListOf J.toNat, names := ← (← j.get "names").toListOf J.toStr,
           view := ← (← j.get "view").toInt }

def optOf {α} (f : J → Except String α) : J → Except String (Option α)
  | .null => pure none
  | j => do return some (← f j)

def tableOps (nodes : Array NodeRec) (mt : List (Nat × String × Nat)) (lca : List (Nat × String × String × Nat)) :
    Scope.TreeOps Nat :=
  let get (i : Nat) : NodeRec := nodes.getD i { name := "", tip := false, root := false, children := [], names := [], view := -1 }
  { nodeMatching := fun t n => (mt.find? fun (t', n', _) => t' == t && n' == n).map fun (_, _, i) => i
    isTip := fun i => (get i).tip
    unrootedDeepcopy := fun i => ((get i).view).toNat
    connectingNode := fun t a b => (lca.find? fun (t', a', b', _) => t' == t && a' == a && b' == b).map fun (_, _, _, i) => i
    isRoot := fun i => (get i).root
    name := fun i => (get i).name
    children := fun i => (get i).children
    nodeNames := fun i => (get i).names }

def errName : Scope.Err → String
  | .onlyOne => "onlyOne" | .twoSpecies => "twoSpecies" | .outgroupNotTip => "outgroupNotTip"
  | .noStem => "noStem" | .prim => "prim"

def cmdScope (j : J) : Except String J := do
  let nodes := (← (← j.get "nodes").toListOf parseNode).toArray
  let mt ← (← j.get "match").toListOf fun r => do
    match ← r.toList with
    | [t, n, i] => return (← t.toNat, ← n.toStr, ← i.toNat)
    | _ => throw "bad match row"
  let lca ← (← j.get "lca").toListOf fun r => do
    match ← r.toList with
    | [t, a, b, i] => return (← t.toNat, ← a.toStr, ← b.toStr, ← i.toNat)
    | _ => throw "bad lca row"
  let ops := tableOps nodes mt lca
  let clade ← optOf J.toBool (← j.get "clade")
  let stem ← optOf J.toBool (← j.get "stem")
  let og ← optOf J.toStr (← j.get "outgroup_name")
  let strs := fun (l : List String) => J.arr (l.map J.str)
  match ← (← j.get "fn").toStr with
  | "get_edge_names" =>
    let a ← (← j.get "a").toStr
    let b ← (← j.get "b").toStr
    match C11Gen.get_edge_names ops 0 a b clade stem og with
    | .ok l => return J.obj [("ok", strs l)]
    | .error e => return J.obj [("err", J.str (errName e))]
  | "process_scope_info" =>
    let edge ← optOf J.toStr (← j.get "edge")
    let tips ← optOf (J.toListOf J.toStr) (← j.get "tip_names")
    let edges ← optOf (J.toListOf J.toStr) (← j.get "edges")
    match C11Gen.process_scope_info ops 0 edge tips edges clade stem og with
    | .ok none => return J.obj [("ok", J.null)]
    | .ok (some l) => return J.obj [("ok", strs l)]
    | .error e => return J.obj [("err", J.str (errName e))]
  | "hand_get_edge_names" =>
    -- the HAND model on the same tables (a disagreement with the implementation is a concrete failing input)
    let a ← (← j.get "a").toStr
    let b ← (← j.get "b").toStr
    match Scope.edgeNames ops 0 a b (Scope.truthyB clade) (Scope.truthyB stem) og with
    | .ok l => return J.obj [("ok", strs l)]
    | .error e => return J.obj [("err", J.str (errName e))]
  | "hand_process_scope_info" =>
    let edge ← optOf J.toStr (← j.get "edge")
    let tips ← optOf (J.toListOf J.toStr) (← j.get "tip_names")
    let edges ← optOf (J.toListOf J.toStr) (← j.get "edges")
    match Scope.scopeEdges ops 0 edge tips edges clade stem og with
    | .ok none => return J.obj [("ok", J.null)]
    | .ok (some l) => return J.obj [("ok", strs l)]
    | .error e => return J.obj [("err", J.str (errName e))]
  | "defaults" =>
    let ob : Option Bool → J := fun | none => J.null | some b => J.bool b
    return J.obj [("get_edge_names.clade", ob C11Gen.default_get_edge_names_clade),
                  ("get_edge_names.stem", ob C11Gen.default_get_edge_names_stem),
                  ("process_scope_info.clade", ob C11Gen.default_process_scope_info_clade),
                  ("process_scope_info.stem", ob C11Gen.default_process_scope_info_stem)]
  | f => throw s!"unknown fn {f}"

def handle? (cmd : String) (j : J) : Option (Except String J) :=
  match cmd with
  | "scope" => some (cmdScope j)
  | "calcq" => some (cmdCalcQ j)
  | "reroot" => some (cmdReroot j)
  | "unroot" => some (cmdUnroot j)
  | _ => none

end C11Cmds
