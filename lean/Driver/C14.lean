import CogentModel.Json
import CogentModel.Model.Composable
import CogentModel.Model.ParallelBook
import Driver.C14Codec
import Driver.C14Rich
open CogentModel

def handle (cmd : String) (j : J) : Except String J :=
  match cmd with
  | "call" => C14Codec.handleCall j
  | "apply" => C14Codec.handleApply j
  | "callrich" => C14Rich.handleCallRich j
  | "add" => C14Rich.handleAdd j
  | "compose" => C14Rich.handleCompose j
  | "chunksize" => do
    pure (.num (ParallelBook.defaultChunksize (← (← j.get "n").toNat) (← (← j.get "w").toNat)))
  | "chunksize_gen" => do
    pure (.num (Gen.C14Call.getDefaultChunksize (← (← j.get "n").toNat) (← (← j.get "w").toNat)))
  | "chunks" => do
    let n ← (← j.get "n").toNat
    let c ← (← j.get "c").toNat
    pure (.arr ((ParallelBook.chunks c (List.range n)).map fun ch => .arr (ch.map fun (x : Nat) => .num (x : Int))))
  | "imap" => do
    let n ← (← j.get "n").toNat
    let c ← (← j.get "c").toNat
    pure (.arr ((ParallelBook.imapResults (fun (x : Nat) => x * x) (List.range n) c).map fun (x : Nat) => .num (x : Int)))
  | "as_completed" => do
    let n ← (← j.get "n").toNat
    let order ← (← j.get "order").toListOf J.toNat
    pure (.arr ((ParallelBook.asCompleted (fun (x : Nat) => x * x) (List.range n) order).map fun (x : Nat) => .num (x : Int)))
  | _ => throw s!"unknown command {cmd}"

def main : IO Unit := driverLoop handle
