import CogentModel.Json
import CogentModel.Model.Composable
import CogentModel.Model.ParallelBook
import Driver.C14Codec
import Driver.C14Rich
import CogentModel.Gen.C14Select
open CogentModel

def handle (cmd : String) (j : J) : Except String J :=
  match cmd with
  | "call" => C14Codec.handleCall j
  | "apply" => C14Codec.handleApply j
  | "callrich" => C14Rich.handleCallRich j
  | "add" => C14Rich.handleAdd j
  | "compose" => C14Rich.handleCompose j
  | "chunksize" => do
    pure (.num (ParallelBook.defaultChunksize (← (← j.get "n").toNat) (← (← j.get "w").toNat)))
  | "chunksize_gen" => do
    pure (.num (Gen.C14Call.getDefaultChunksize (← (← j.get "n").toNat) (← (← j.get "w").toNat)))
  | "chunks" => do
    let n ← (← j.get "n").toNat
    let c ← (← j.get "c").toNat
    pure (.arr ((ParallelBook.chunks c (List.range n)).map fun ch => .arr (ch.map fun (x : Nat) => .num (x : Int))))
  | "imap" => do
    let n ← (← j.get "n").toNat
    let c ← (← j.get "c").toNat
    pure (.arr ((ParallelBook.imapResults (fun (x : Nat) => x * x) (List.range n) c).map fun (x : Nat) => .num (x : Int)))
  | "as_completed" => do
    let n ← (← j.get "n").toNat
    let order ← (← j.get "order").toListOf J.toNat
    pure (.arr ((ParallelBook.asCompleted (fun (x : Nat) => x * x) (List.range n) order).map fun (x : Nat) => .num (x : Int)))
  | "select_gen" => do
    -- the TRANSLATED selection of `_apply_to` (Gen/C14Select.lean): ids_self / ids_path = id_from_source on the element itself / on
    -- Path(m.unique_id); dm = elements that are DataMembers; falsy = elements with bool(m) False; store = identifiers `in self.data_store`
    let idsSelf ← (← j.get "ids_self").toListOf (J.toPairOf J.toNat J.toNat)
    let idsPath ← (← j.get "ids_path").toListOf (J.toPairOf J.toNat J.toNat)
    let dm ← (← j.get "dm").toListOf J.toNat
    let falsy ← (← j.get "falsy").toListOf J.toNat
    let store ← (← j.get "store").toListOf J.toNat
    let inputs ← (← j.get "inputs").toListOf J.toNat
    let look := fun (tbl : List (Nat × Nat)) (m : Nat) => ((tbl.find? (·.1 == m)).map (·.2)).getD m
    let env : SelectPrims.SelEnv := {
      isDataMember := fun m => dm.contains m, truthy := fun m => !falsy.contains m,
      idFromSource := fun a => match a with
        | .pathOfUniqueId m => look idsPath m
        | .self m => look idsSelf m,
      inStore := fun i => store.contains i }
    match Gen.C14Select.applyToSelect env inputs with
    | .error e => pure (.obj [("err", .str s!"{e.exc}: {e.msg}")])
    | .ok ps => pure (.obj [("sel", .arr (ps.map fun p => .arr [.bool (SelectPrims.PIn.isProxy p), .num (p.member : Nat)]))])
  | _ => throw s!"unknown command {cmd}"

def main : IO Unit := driverLoop handle
