import CogentModel.Json
import CogentModel.Model.Composable
import Driver.C14Codec
open CogentModel

def handle (cmd : String) (j : J) : Except String J :=
  match cmd with
  | "call" => C14Codec.handleCall j
  | "apply" => C14Codec.handleApply j
  | _ => throw s!"unknown command {cmd}"

def main : IO Unit := driverLoop handle
