import CogentModel.Json
import CogentModel.Model.SeqConv
import CogentModel.Model.SeqCoords
/-! extra C01 driver commands (string-level models): `convchain`, `coordchain`, `sdvstr` -/
open CogentModel CogentModel.View

namespace C01Seq

def errS : Err → String
  | .valueError => "ValueError"
  | .indexError => "IndexError"
  | .assertionError => "AssertionError"

/-- table from a JSON object `{"A":"T",…}`; characters not in the table are unchanged -/
def tableOf (j : J) : Except String (Char → Char) := do
  match j with
  | J.obj kvs =>
    let tbl ← kvs.mapM fun (k, v) => do
      let vs ← v.toStr
      match k.toList, vs.toList with
      | [a], [b] => pure (a, b)
      | _, _ => throw "table entries must be single characters"
    pure fun c => match tbl.find? (·.1 = c) with
      | some (_, b) => b
      | none => c
  | _ => throw "table must be an object"

def parseCOp (op : J) : Except String SeqConv.COp := do
  match ← op.toList with
  | [J.str "s", a, b, c] => pure (.slice (← a.toOptInt) (← b.toOptInt) (← c.toOptInt))
  | [J.str "i", k] => pure (.index (← k.toInt))
  | [J.str "rc"] => pure .rc
  | [J.str "to_rna"] => pure .toRna
  | [J.str "to_dna"] => pure .toDna
  | _ => throw "bad op"

def parseSOp (op : J) : Except String SeqWrap.SOp := do
  match ← op.toList with
  | [J.str "s", a, b, c] => pure (.slice (← a.toOptInt) (← b.toOptInt) (← c.toOptInt))
  | [J.str "i", k] => pure (.index (← k.toInt))
  | [J.str "rc"] => pure .rc
  | _ => throw "bad op"

def cseqJ (cd cr : Char → Char) (c : SeqConv.CSeq) : J :=
  J.obj [("str", J.str (String.ofList (SeqConv.cstr cd cr c))), ("len", J.num (SeqConv.length c)),
         ("moltype", J.str (if c.rna then "rna" else "dna")),
         ("start", J.num c.q.v.start), ("stop", J.num c.q.v.stop), ("step", J.num c.q.v.step),
         ("seq_len", J.num c.q.v.seqLen), ("parent", J.str (String.ofList c.q.parent))]

def exNum : Except Err Int → J
  | .ok n => J.num n
  | .error e => J.obj [("err", J.str (errS e))]

def aseqJ (comp : Char → Char) (s : SeqCoords.ASeq) : J :=
  J.obj [("str", J.str (String.ofList (SeqWrap.str comp s.q))),
         ("coords", match SeqCoords.parentCoordinates s with
            | .ok (sid, a, b, st) => J.arr [match sid with | some x => J.str x | none => J.null, J.num a, J.num b, J.num st]
            | .error e => J.obj [("err", J.str (errS e))]),
         ("annotation_offset", exNum (SeqCoords.annotationOffset s))]

def coordTrace : SeqCoords.ASeq → List SeqWrap.SOp → List (Except Err SeqCoords.ASeq)
  | _, [] => []
  | s, op :: ops => match SeqCoords.step1 s op with
    | .ok s' => .ok s' :: coordTrace s' ops
    | .error e => [.error e]

def handleSeq (cmd : String) (j : J) : Except String J :=
  match cmd with
  | "convchain" => do
    -- nucleic-acid chains with DNA<->RNA conversion, real complement / conversion tables
    let parent ← (← j.get "parent").toStr
    let rna ← (← j.get "rna").toBool
    let cd ← tableOf (← j.get "comp_dna")
    let cr ← tableOf (← j.get "comp_rna")
    let toR ← tableOf (← j.get "to_rna")
    let toD ← tableOf (← j.get "to_dna")
    let ops ← (← (← j.get "ops").toList).mapM parseCOp
    let c0 := SeqConv.ofString parent.toList rna
    let tr := SeqConv.trace cd cr toR toD c0 ops
    pure (J.arr (cseqJ cd cr c0 :: tr.map fun r => match r with
      | .ok c => cseqJ cd cr c
      | .error e => J.obj [("err", J.str (errS e))]))
  | "coordchain" => do
    let parent ← (← j.get "parent").toStr
    let nucleic ← (← j.get "nucleic").toBool
    let comp ← tableOf (← j.get "comp")
    let o ← (← j.get "offset").toInt
    let sid ← (← j.get "seqid").toStr
    let ops ← (← (← j.get "ops").toList).mapM parseSOp
    let s0 := SeqCoords.ofString parent.toList nucleic o (some sid)
    pure (J.arr (aseqJ comp s0 :: (coordTrace s0 ops).map fun r => match r with
      | .ok s => aseqJ comp s
      | .error e => J.obj [("err", J.str (errS e))]))
  | "sdvstr" => do
    let data ← (← j.get "data").toStr
    let v : View := { start := ← (← j.get "start").toInt, stop := ← (← j.get "stop").toInt,
                      step := ← (← j.get "step").toInt, offset := ← (← j.get "offset").toInt,
                      seqLen := ← (← j.get "seq_len").toInt }
    match SeqCoords.sdvStrValue data.toList v with
    | .ok r => pure (J.str (String.ofList r))
    | .error e => pure (J.obj [("err", J.str (errS e))])
  | _ => throw s!"unknown command {cmd}"

end C01Seq
