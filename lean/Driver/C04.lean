import CogentModel.Json
import CogentModel.Model.View
import CogentModel.Model.FeatureView
import CogentModel.Model.FeatureSeq
import CogentModel.Model.FeatureProject
import CogentModel.Model.FeatureAdd
import CogentModel.Spec.FeatureView
open CogentModel CogentModel.View CogentModel.FeatureView

def ferrStr : FErr → String
  | .valueError => "ValueError"
  | .indexError => "IndexError"
  | .assertionError => "AssertionError"
  | .runtimeError => "RuntimeError"

def errJ (e : FErr) : J := J.obj [("err", J.str (ferrStr e))]

def parseView (j : J) : Except String View := do
  pure { start := ← (← j.get "start").toInt, stop := ← (← j.get "stop").toInt,
         step := ← (← j.get "step").toInt, offset := ← (← j.get "offset").toInt,
         seqLen := ← (← j.get "seq_len").toInt }

def parseSpans (j : J) : Except String (List (Int × Int)) := j.toListOf (J.toPairOf J.toInt J.toInt)

def mspanJ : MSpan → J
  | .span s e => J.arr [J.num s, J.num e]
  | .lost n => J.arr [J.str "lost", J.num n]

def parseFSp (j : J) : Except String FMap.FSp := do
  match ← j.toList with
  | [J.str "s", a, b, r] => pure (.span (← a.toInt) (← b.toInt) (← r.toBool))
  | [J.str "l", n] => pure (.lost (← n.toInt))
  | _ => throw "bad span"

def parseFM (j : J) : Except String FMap.FM := do
  pure ⟨← (← j.get "spans").toListOf parseFSp, ← (← j.get "pl").toInt⟩

def fspJ : FMap.FSp → J
  | .span s e r => J.arr [J.str "s", J.num s, J.num e, J.bool r]
  | .lost n => J.arr [J.str "l", J.num n]

def handle (cmd : String) (j : J) : Except String J :=
  match cmd with
  | "window" => do
    let v ← parseView (← j.get "view")
    let a ← ((j.get? "start").getD .null).toOptInt
    let b ← ((j.get? "stop").getD .null).toOptInt
    match queryWindow v a b with
    | .ok (qs, qe) => pure (J.arr [J.num qs, J.num qe])
    | .error e => pure (errJ e)
  | "feature" => do
    let v ← parseView (← j.get "view")
    let minus ← (← j.get "minus").toBool
    let spans ← parseSpans (← j.get "spans")
    match featureOnView v minus spans with
    | .error e => pure (errJ e)
    | .ok f =>
      let (ps, comp) := slicePositions v f
      pure (J.obj [("spans", J.arr (f.spans.map mspanJ)), ("reversed", J.bool f.reversed),
                   ("pos", J.arr (ps.map J.num)), ("comp", J.bool comp)])
  | "feature_any" => do
    -- any stride: feature map + positions through `viewPosAny`
    let v ← parseView (← j.get "view")
    match featureOnView v (← (← j.get "minus").toBool) (← parseSpans (← j.get "spans")) with
    | .error e => pure (errJ e)
    | .ok f =>
      let (ps, comp) := slicePositionsAny v f
      pure (J.obj [("spans", J.arr (f.spans.map mspanJ)), ("reversed", J.bool f.reversed),
                   ("pos", J.arr (ps.map J.num)), ("comp", J.bool comp)])
  | "addfeature" => do
    -- what `Sequence.add_feature` on a view writes to the db
    match addFeatureRecord (← parseView (← j.get "view")) (← parseSpans (← j.get "spans")) (← (← j.get "minus").toBool) with
    | .ok (db, dm) => pure (J.obj [("spans", J.arr (db.map fun p => J.arr [J.num p.1, J.num p.2])), ("minus", J.bool dm)])
    | .error _ => pure (J.obj [("err", J.str "error")])
  | "addfeature_full" => do
    -- the whole of `Sequence.add_feature`: db record + the Feature returned (spans need not be well formed)
    match addFeature (← parseView (← j.get "view")) (← parseSpans (← j.get "spans")) (← (← j.get "minus").toBool) with
    | .ok ((db, dm), f) =>
      pure (J.obj [("db", J.arr (db.map fun p => J.arr [J.num p.1, J.num p.2])), ("minus", J.bool dm),
                   ("spans", J.arr (f.spans.map mspanJ)), ("reversed", J.bool f.reversed)])
    | .error e => pure (errJ e)
  | "copyview" => do
    match copyView (← parseView (← j.get "view")) with
    | .ok w => pure (J.obj [("start", J.num w.start), ("stop", J.num w.stop), ("step", J.num w.step),
                            ("offset", J.num w.offset), ("seq_len", J.num w.seqLen)])
    | .error _ => pure (J.obj [("err", J.str "error")])
  | "getslice_new" => do
    -- new-style `_mapped`: guard + residues
    let v ← parseView (← j.get "view")
    let parent ← (← j.get "parent").toStr
    let comp : Char → Char := fun c =>
      if c = 'A' then 'T' else if c = 'T' then 'A' else if c = 'C' then 'G' else if c = 'G' then 'C' else c
    let s : SeqWrap.Seq := { parent := parent.toList, v := v, nucleic := true }
    match featureOnView v (← (← j.get "minus").toBool) (← parseSpans (← j.get "spans")) with
    | .error e => pure (errJ e)
    | .ok f =>
      match getSliceNew comp s f with
      | .ok t => pure (J.str (String.ofList t))
      | .error e => pure (errJ e)
  | "makefeature" => do
    -- `Sequence.make_feature` called directly (user-facing) with view-relative spans, well-formed or not
    let L ← (← j.get "L").toInt
    let rced ← (← j.get "rced").toBool
    let minus ← (← j.get "minus").toBool
    let spans ← parseSpans (← j.get "spans")
    match makeFeature L rced minus spans with
    | .error e => pure (errJ e)
    | .ok f => pure (J.obj [("spans", J.arr (f.spans.map mspanJ)), ("reversed", J.bool f.reversed)])
  | "cliplocate" => do
    -- the per-span composite `span_on_view` is stated about (defined here as in Proofs/FeatureView.lean,
    -- which the driver cannot import): `clipSpan` then `locate`
    let L ← (← j.get "L").toInt
    let sp ← J.toPairOf J.toInt J.toInt (← j.get "span")
    match (match clipSpan L sp with | none => Except.ok [] | some c => locate L c) with
    | .error e => pure (errJ e)
    | .ok m => pure (J.arr (m.map mspanJ))
  | "history" => do
    -- `feature_after_history` end to end: C01's Sequence wrapper (`ofString` at an annotation offset), a history of
    -- slices / rc through `SeqWrap.runOps`, then `get_features` + `get_slice` on the resulting view
    let parent ← (← j.get "parent").toStr
    let offset ← (← j.get "offset").toInt
    let ops ← (← (← j.get "ops").toList).mapM fun op => do
      match ← op.toList with
      | [J.str "s", a, b, c] => pure (SeqWrap.SOp.slice (← a.toOptInt) (← b.toOptInt) (← c.toOptInt))
      | [J.str "rc"] => pure SeqWrap.SOp.rc
      | _ => throw "bad op"
    let comp : Char → Char := fun c =>
      if c = 'A' then 'T' else if c = 'T' then 'A' else if c = 'C' then 'G' else if c = 'G' then 'C' else c
    let s0 := SeqWrap.ofString parent.toList true
    let s0 : SeqWrap.Seq := { s0 with v := { s0.v with offset := offset } }
    match SeqWrap.runOps s0 ops with
    | .error _ => pure (J.obj [("err", J.str "history")])
    | .ok s =>
      let vj := J.obj [("start", J.num s.v.start), ("stop", J.num s.v.stop), ("step", J.num s.v.step),
                       ("offset", J.num s.v.offset), ("seq_len", J.num s.v.seqLen)]
      let sl := match featureOnView s.v (← (← j.get "minus").toBool) (← parseSpans (← j.get "spans")) with
        | .error e => errJ e
        | .ok f => J.str (String.ofList (getSlice comp s f))
      pure (J.obj [("view", vj), ("str", J.str (String.ofList (SeqWrap.str comp s))), ("slice", sl)])
  | "getslice_contig" => do
    -- `feature.get_slice(allow_gaps=True)`: the contiguous form, read on the feature's strand
    let v ← parseView (← j.get "view")
    let parent ← (← j.get "parent").toStr
    let comp : Char → Char := fun c =>
      if c = 'A' then 'T' else if c = 'T' then 'A' else if c = 'C' then 'G' else if c = 'G' then 'C' else c
    let s : SeqWrap.Seq := { parent := parent.toList, v := v, nucleic := true }
    match featureOnView v (← (← j.get "minus").toBool) (← parseSpans (← j.get "spans")) with
    | .error e => pure (errJ e)
    | .ok f => pure (J.str (String.ofList (getSliceContig comp s f)))
  | "getslice" => do
    -- residue-level model: `feature.get_slice()` on a DNA sequence wrapper
    let v ← parseView (← j.get "view")
    let parent ← (← j.get "parent").toStr
    let comp : Char → Char := fun c =>
      if c = 'A' then 'T' else if c = 'T' then 'A' else if c = 'C' then 'G' else if c = 'G' then 'C' else c
    let s : SeqWrap.Seq := { parent := parent.toList, v := v, nucleic := true }
    match featureOnView v (← (← j.get "minus").toBool) (← parseSpans (← j.get "spans")) with
    | .error e => pure (errJ e)
    | .ok f => pure (J.str (String.ofList (getSlice comp s f)))
  | "project" => do
    -- Aligned.make_feature: inverted[feature.map]
    match FMap.project (← parseFM (← j.get "A")) (← parseFM (← j.get "fm")) with
    | .error _ => pure (J.obj [("err", J.str "error")])
    | .ok r => pure (J.obj [("spans", J.arr (r.spans.map fspJ)), ("pl", J.num r.parentLength),
                            ("cover", J.arr ((FMap.cover r).map J.ofOptInt))])
  | "denote" => do
    let spans ← parseSpans (← j.get "spans")
    let (ps, comp) := FeatureSpec.denote spans (← (← j.get "minus").toBool) (← (← j.get "p0").toInt) (← (← j.get "p1").toInt)
    pure (J.obj [("pos", J.arr (ps.map J.num)), ("comp", J.bool comp)])
  | "denote_contig" => do
    let spans ← parseSpans (← j.get "spans")
    let (ps, comp) := FeatureSpec.denoteContig spans (← (← j.get "minus").toBool) (← (← j.get "p0").toInt) (← (← j.get "p1").toInt)
    pure (J.obj [("pos", J.arr (ps.map J.num)), ("comp", J.bool comp)])
  | _ => throw s!"unknown command {cmd}"

def main : IO Unit := driverLoop handle
