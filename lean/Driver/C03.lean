import CogentModel.Json
import CogentModel.Model.Aln
open CogentModel CogentModel.IndelMap CogentModel.Aln

def errStr : Err → String
  | .valueError => "ValueError"
  | .indexError => "IndexError"
  | .notImplemented => "NotImplementedError"
  | .assertionError => "AssertionError"
  | .runtimeError => "TypeError"

def intsJ (xs : List Int) : J := J.arr (xs.map J.num)

def rowJ (n : String) (r : Row) : J :=
  J.obj [("name", J.str n), ("gp", intsJ r.map.gapPos), ("cum", intsJ r.map.cumLens),
         ("pl", J.num r.map.parentLength), ("data", J.str (String.ofList r.data))]

def alnJ (a : AlnA) : J := J.arr (a.map fun (n, r) => rowJ n r)
def denseJ (a : AlnD) : J := J.obj (a.map fun (n, s) => (n, J.str (String.ofList s)))

def parseOp (j : J) : Except String (Option AOp) := do
  match ← j.toList with
  | [J.str "slice", a, b] => pure (some (.slice (← a.toOptInt) (← b.toOptInt)))
  | [J.str "int", i] => pure (some (.int (← i.toInt)))
  | [J.str "rc"] => pure (some .rc)
  | [J.str "take_seqs", ns, neg] => pure (some (.takeSeqs (← ns.toListOf J.toStr) (← neg.toBool)))
  | [J.str "take_positions", cols, neg] => pure (some (.takePositions (← cols.toListOf J.toInt) (← neg.toBool)))
  | [J.str "to_rna"] => pure (some .toRna)
  | [J.str "to_dna"] => pure (some .toDna)
  | [J.str "add", J.str "self"] => pure (some .addSelf)
  | [J.str "add", J.str "copy"] => pure (some .addCopy)
  | [J.str "degapped_relative_to", n] => pure (some (.degap (← n.toStr)))
  | [J.str "sample", locs, ml] => pure (some (.sample (← locs.toListOf J.toInt) (← ml.toInt)))
  | [J.str "to_type_roundtrip"] => pure (some .reparse)
  | [J.str "filter_mask", m] => pure (some (.filterMask (← m.toListOf J.toBool)))
  | [J.str "keep", locs] => pure (some (.keep (← locs.toListOf (J.toPairOf J.toInt J.toInt))))
  | _ => pure none

def runA (dna : Bool) (a : AlnA) : List (Option AOp) → List J
  | [] => []
  | none :: _ => []
  | some op :: ops => match stepA dna a op with
    | .error e => [J.obj [("err", J.str (match op with | .filterMask _ => "None" | _ => errStr e))]]
    | .ok (a', dna') => alnJ a' :: runA dna' a' ops

def runD (dna : Bool) (a : AlnD) : List (Option AOp) → List J
  | [] => []
  | none :: _ => []
  | some op :: ops => match stepD dna a op with
    | none => []
    | some (.error e) => [J.obj [("err", J.str (match op with | .filterMask _ => "None" | _ => errStr e))]]
    | some (.ok (a', dna')) => denseJ a' :: runD dna' a' ops

def handle (cmd : String) (j : J) : Except String J :=
  match cmd with
  | "history" => do
    let rows ← (← j.get "rows").toListOf (J.toPairOf J.toStr J.toStr)
    let ops ← (← j.get "ops").toListOf parseOp
    let dna := (← (← j.get "moltype").toStr) != "rna"
    let a : AlnA := rows.map fun (n, s) => (n, rowOfString s.toList)
    let d : AlnD := rows.map fun (n, s) => (n, s.toList)
    pure (J.obj [("aligned", J.arr (alnJ a :: runA dna a ops)), ("array", J.arr (denseJ d :: runD dna d ops)),
                 ("gapped", J.obj (a.map fun (n, r) => (n, J.str (String.ofList (gapped r)))))])
  | _ => throw s!"unknown command {cmd}"

def main : IO Unit := driverLoop handle
