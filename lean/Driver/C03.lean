import CogentModel.Json
import CogentModel.Model.Aln
import CogentModel.Model.AlnView
import CogentModel.Model.AlnPred
open CogentModel CogentModel.IndelMap CogentModel.Aln

def errStr : Err → String
  | .valueError => "ValueError"
  | .indexError => "IndexError"
  | .notImplemented => "NotImplementedError"
  | .assertionError => "AssertionError"
  | .runtimeError => "TypeError"

def intsJ (xs : List Int) : J := J.arr (xs.map J.num)

def rowJ (n : String) (r : Row) : J :=
  J.obj [("name", J.str n), ("gp", intsJ r.map.gapPos), ("cum", intsJ r.map.cumLens),
         ("pl", J.num r.map.parentLength), ("data", J.str (String.ofList r.data))]

def alnJ (a : AlnA) : J := J.arr (a.map fun (n, r) => rowJ n r)
def denseJ (a : AlnD) : J := J.obj (a.map fun (n, s) => (n, J.str (String.ofList s)))

/-- the harness' named test predicates on a motif column (tuple of per-row motifs) -/
def namedPred (n : String) : List (List Char) → Bool :=
  match n with
  | "nogap" => fun ms => ms.all fun m => !m.contains '-'
  | "first-nongap" => fun ms => match ms with | [] => true | m :: _ => !m.contains '-'
  | "variable" => fun ms => ms.eraseDups.length > 1
  | "hash" => fun ms => ((ms.map fun m => (m.map fun c => c.toNat).sum).sum + ms.length) % 3 != 0
  | "all" => fun _ => true
  | _ => fun _ => false

def parseOp1 (j : J) : Except String (Option AOp) := do
  match ← j.toList with
  | [J.str "slice", a, b] => pure (some (.slice (← a.toOptInt) (← b.toOptInt)))
  | [J.str "int", i] => pure (some (.int (← i.toInt)))
  | [J.str "rc"] => pure (some .rc)
  | [J.str "take_seqs", ns, neg] => pure (some (.takeSeqs (← ns.toListOf J.toStr) (← neg.toBool)))
  | [J.str "take_positions", cols, neg] => pure (some (.takePositions (← cols.toListOf J.toInt) (← neg.toBool)))
  | [J.str "to_rna"] => pure (some .toRna)
  | [J.str "to_dna"] => pure (some .toDna)
  | [J.str "add", J.str "self"] => pure (some .addSelf)
  | [J.str "add", J.str "copy"] => pure (some .addCopy)
  | [J.str "degapped_relative_to", n] => pure (some (.degap (← n.toStr)))
  | [J.str "sample", locs, ml] => pure (some (.sample (← locs.toListOf J.toInt) (← ml.toInt)))
  | [J.str "to_type_roundtrip"] => pure (some .reparse)
  | [J.str "filter_mask", m] => pure (some (.filterMask (← m.toListOf J.toBool)))
  | [J.str "keep", locs] => pure (some (.keep (← locs.toListOf (J.toPairOf J.toInt J.toInt))))
  | _ => pure none

/-- ops with the predicate evaluated by the model come first; everything else is an `AOp` -/
def parseOp (j : J) : Except String (Option AOp2) := do
  match ← j.toList with
  | [J.str "no_degenerates_m", chars, ml] => pure (some (.noDegenerates (← chars.toStr).toList (← ml.toNat)))
  | [J.str "omit_gap_pos_m", gaps, frac, ml] =>
    pure (some (.omitGapPos (← gaps.toStr).toList (← frac.toRat) (← ml.toNat)))
  | [J.str "filtered_m", n, ml, drop] => pure (some (.filtered (namedPred (← n.toStr)) (← ml.toNat) (← drop.toBool)))
  | _ => pure ((← parseOp1 j).map .base)

def isFilter : AOp2 → Bool
  | .base (.filterMask _) => true
  | .filtered _ _ _ => true
  | _ => false

def opErr (op : AOp2) (e : Err) : String :=
  if isFilter op && e == .notImplemented then "None" else errStr e

def runA (dna : Bool) (a : AlnA) : List (Option AOp2) → List J
  | [] => []
  | none :: _ => []
  | some op :: ops => match stepA2 dna a op with
    | .error e => [J.obj [("err", J.str (opErr op e))]]
    | .ok (a', dna') => alnJ a' :: runA dna' a' ops

def runD (dna : Bool) (a : AlnD) : List (Option AOp2) → List J
  | [] => []
  | none :: _ => []
  | some op :: ops => match stepD2 dna a op with
    | none => []
    | some (.error e) => [J.obj [("err", J.str (opErr op e))]]
    | some (.ok (a', dna')) => denseJ a' :: runD dna' a' ops

def handle (cmd : String) (j : J) : Except String J :=
  match cmd with
  | "history" => do
    let rows ← (← j.get "rows").toListOf (J.toPairOf J.toStr J.toStr)
    let ops ← (← j.get "ops").toListOf parseOp
    let dna := (← (← j.get "moltype").toStr) != "rna"
    let a : AlnA := rows.map fun (n, s) => (n, rowOfString s.toList)
    let d : AlnD := rows.map fun (n, s) => (n, s.toList)
    pure (J.obj [("aligned", J.arr (alnJ a :: runA dna a ops)), ("array", J.arr (denseJ d :: runD dna d ops)),
                 ("gapped", J.obj (a.map fun (n, r) => (n, J.str (String.ofList (gapped r)))))])
  | "view_history" => do
    -- the VIEW-level row model of `view_history_refines` (Model/AlnView.lean: IndelMap x C01 sequence view):
    -- slices and reverse complements only; after every op each row's map and its SeqView record
    let rows ← (← j.get "rows").toListOf (J.toPairOf J.toStr J.toStr)
    let ops ← (← j.get "ops").toListOf parseOp
    let dna := (← (← j.get "moltype").toStr) != "rna"
    let rowVJ (n : String) (rv : RowV) : J :=
      J.obj [("name", J.str n), ("gp", intsJ rv.map.gapPos), ("cum", intsJ rv.map.cumLens), ("pl", J.num rv.map.parentLength),
             ("start", J.num rv.seq.v.start), ("stop", J.num rv.seq.v.stop), ("step", J.num rv.seq.v.step),
             ("seq_len", J.num rv.seq.v.seqLen), ("parent", J.str (String.ofList rv.seq.parent)),
             ("str", J.str (String.ofList (SeqWrap.str (comp dna) rv.seq)))]
    let stepAll (a : List (String × RowV)) (f : RowV → Except Err RowV) : Except Err (List (String × RowV)) :=
      a.mapM fun (n, rv) => (f rv).map (n, ·)
    let rec go (a : List (String × RowV)) : List (Option AOp2) → List J
      | some (.base (.slice x y)) :: rest => match stepAll a (fun rv => rowSliceV rv x y) with
        | .ok a' => J.arr (a'.map fun (n, rv) => rowVJ n rv) :: go a' rest
        | .error e => [J.obj [("err", J.str (errStr e))]]
      | some (.base .rc) :: rest => match stepAll a rowRcV with
        | .ok a' => J.arr (a'.map fun (n, rv) => rowVJ n rv) :: go a' rest
        | .error e => [J.obj [("err", J.str (errStr e))]]
      | _ => []
    let a0 : List (String × RowV) := rows.map fun (n, s) =>
      (n, ⟨fromGapped (s.toList.map isGap), SeqWrap.ofString (s.toList.filter (! isGap ·)) true⟩)
    pure (J.obj [("rows", J.arr (J.arr (a0.map fun (n, rv) => rowVJ n rv) :: go a0 ops))])
  | "f64div" => do
    -- binary64 quotient of two naturals, exact
    pure (J.ofRat (f64div (← (← j.get "k").toNat) (← (← j.get "d").toNat)))
  | "pred" => do
    -- one predicate object on one motif column (list of per-row motifs)
    let col := (← (← j.get "col").toListOf J.toStr).map String.toList
    let chars := (← (← j.get "chars").toStr).toList
    let ml ← (← j.get "ml").toNat
    match ← (← j.get "kind").toStr with
    | "allowed" => pure (J.bool (allowedChars chars col))
    | "gaps_ok" => pure (J.bool (gapsOk chars (← (← j.get "frac").toRat) ml col))
    | "gaps_not_ok" => pure (J.bool (gapsNotOk chars (← (← j.get "frac").toRat) ml col))
    | "gap_run_ok" => pure (J.bool (gapRunOk chars ml 0 (col.flatten)))
    | k => throw s!"unknown predicate kind {k}"
  | "windows" => do
    -- bounds of the alignments `sliding_windows` yields
    let w := windowBounds (← (← j.get "n").toInt) (← (← j.get "window").toInt) (← (← j.get "step").toInt)
      (← (← j.get "start").toOptInt) (← (← j.get "end").toOptInt)
    pure (J.arr (w.map fun p => J.arr [J.num p.1, J.num p.2]))
  | _ => throw s!"unknown command {cmd}"

def main : IO Unit := driverLoop handle
