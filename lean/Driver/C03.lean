import CogentModel.Json
import CogentModel.Model.Aln
import CogentModel.Model.AlnView
open CogentModel CogentModel.IndelMap CogentModel.Aln

def errStr : Err → String
  | .valueError => "ValueError"
  | .indexError => "IndexError"
  | .notImplemented => "NotImplementedError"
  | .assertionError => "AssertionError"
  | .runtimeError => "TypeError"

def intsJ (xs : List Int) : J := J.arr (xs.map J.num)

def rowJ (n : String) (r : Row) : J :=
  J.obj [("name", J.str n), ("gp", intsJ r.map.gapPos), ("cum", intsJ r.map.cumLens),
         ("pl", J.num r.map.parentLength), ("data", J.str (String.ofList r.data))]

def alnJ (a : AlnA) : J := J.arr (a.map fun (n, r) => rowJ n r)
def denseJ (a : AlnD) : J := J.obj (a.map fun (n, s) => (n, J.str (String.ofList s)))

def parseOp (j : J) : Except String (Option AOp) := do
  match ← j.toList with
  | [J.str "slice", a, b] => pure (some (.slice (← a.toOptInt) (← b.toOptInt)))
  | [J.str "int", i] => pure (some (.int (← i.toInt)))
  | [J.str "rc"] => pure (some .rc)
  | [J.str "take_seqs", ns, neg] => pure (some (.takeSeqs (← ns.toListOf J.toStr) (← neg.toBool)))
  | [J.str "take_positions", cols, neg] => pure (some (.takePositions (← cols.toListOf J.toInt) (← neg.toBool)))
  | [J.str "to_rna"] => pure (some .toRna)
  | [J.str "to_dna"] => pure (some .toDna)
  | [J.str "add", J.str "self"] => pure (some .addSelf)
  | [J.str "add", J.str "copy"] => pure (some .addCopy)
  | [J.str "degapped_relative_to", n] => pure (some (.degap (← n.toStr)))
  | [J.str "sample", locs, ml] => pure (some (.sample (← locs.toListOf J.toInt) (← ml.toInt)))
  | [J.str "to_type_roundtrip"] => pure (some .reparse)
  | [J.str "filter_mask", m] => pure (some (.filterMask (← m.toListOf J.toBool)))
  | [J.str "keep", locs] => pure (some (.keep (← locs.toListOf (J.toPairOf J.toInt J.toInt))))
  | _ => pure none

def runA (dna : Bool) (a : AlnA) : List (Option AOp) → List J
  | [] => []
  | none :: _ => []
  | some op :: ops => match stepA dna a op with
    | .error e => [J.obj [("err", J.str (match op with | .filterMask _ => "None" | _ => errStr e))]]
    | .ok (a', dna') => alnJ a' :: runA dna' a' ops

def runD (dna : Bool) (a : AlnD) : List (Option AOp) → List J
  | [] => []
  | none :: _ => []
  | some op :: ops => match stepD dna a op with
    | none => []
    | some (.error e) => [J.obj [("err", J.str (match op with | .filterMask _ => "None" | _ => errStr e))]]
    | some (.ok (a', dna')) => denseJ a' :: runD dna' a' ops

def handle (cmd : String) (j : J) : Except String J :=
  match cmd with
  | "history" => do
    let rows ← (← j.get "rows").toListOf (J.toPairOf J.toStr J.toStr)
    let ops ← (← j.get "ops").toListOf parseOp
    let dna := (← (← j.get "moltype").toStr) != "rna"
    let a : AlnA := rows.map fun (n, s) => (n, rowOfString s.toList)
    let d : AlnD := rows.map fun (n, s) => (n, s.toList)
    pure (J.obj [("aligned", J.arr (alnJ a :: runA dna a ops)), ("array", J.arr (denseJ d :: runD dna d ops)),
                 ("gapped", J.obj (a.map fun (n, r) => (n, J.str (String.ofList (gapped r)))))])
  | "view_history" => do
    -- the VIEW-level row model of `view_history_refines` (Model/AlnView.lean: IndelMap x C01 sequence view):
    -- slices and reverse complements only; after every op each row's map and its SeqView record
    let rows ← (← j.get "rows").toListOf (J.toPairOf J.toStr J.toStr)
    let ops ← (← j.get "ops").toListOf parseOp
    let dna := (← (← j.get "moltype").toStr) != "rna"
    let rowVJ (n : String) (rv : RowV) : J :=
      J.obj [("name", J.str n), ("gp", intsJ rv.map.gapPos), ("cum", intsJ rv.map.cumLens), ("pl", J.num rv.map.parentLength),
             ("start", J.num rv.seq.v.start), ("stop", J.num rv.seq.v.stop), ("step", J.num rv.seq.v.step),
             ("seq_len", J.num rv.seq.v.seqLen), ("parent", J.str (String.ofList rv.seq.parent)),
             ("str", J.str (String.ofList (SeqWrap.str (comp dna) rv.seq)))]
    let stepAll (a : List (String × RowV)) (f : RowV → Except Err RowV) : Except Err (List (String × RowV)) :=
      a.mapM fun (n, rv) => (f rv).map (n, ·)
    let rec go (a : List (String × RowV)) : List (Option AOp) → List J
      | some (.slice x y) :: rest => match stepAll a (fun rv => rowSliceV rv x y) with
        | .ok a' => J.arr (a'.map fun (n, rv) => rowVJ n rv) :: go a' rest
        | .error e => [J.obj [("err", J.str (errStr e))]]
      | some .rc :: rest => match stepAll a rowRcV with
        | .ok a' => J.arr (a'.map fun (n, rv) => rowVJ n rv) :: go a' rest
        | .error e => [J.obj [("err", J.str (errStr e))]]
      | _ => []
    let a0 : List (String × RowV) := rows.map fun (n, s) =>
      (n, ⟨fromGapped (s.toList.map isGap), SeqWrap.ofString (s.toList.filter (! isGap ·)) true⟩)
    pure (J.obj [("rows", J.arr (J.arr (a0.map fun (n, rv) => rowVJ n rv) :: go a0 ops))])
  | _ => throw s!"unknown command {cmd}"

def main : IO Unit := driverLoop handle
