import CogentModel.Json
import CogentModel.Model.Aln
open CogentModel CogentModel.IndelMap CogentModel.Aln

def errStr : Err → String
  | .valueError => "ValueError"
  | .indexError => "IndexError"
  | .notImplemented => "NotImplementedError"
  | .assertionError => "AssertionError"
  | .runtimeError => "TypeError"

def intsJ (xs : List Int) : J := J.arr (xs.map J.num)

def rowJ (n : String) (r : Row) : J :=
  J.obj [("name", J.str n), ("gp", intsJ r.map.gapPos), ("cum", intsJ r.map.cumLens),
         ("pl", J.num r.map.parentLength), ("data", J.str (String.ofList r.data))]

def alnJ (a : AlnA) : J := J.arr (a.map fun (n, r) => rowJ n r)
def denseJ (a : AlnD) : J := J.obj (a.map fun (n, s) => (n, J.str (String.ofList s)))

inductive Op where
  | slice (a b : Option Int) | int (i : Int) | rc | takeSeqs (names : List String) (neg : Bool)
  | takePositions (cols : List Int) (neg : Bool) | toRna | toDna | addSelf | addCopy | keep (locs : List (Int × Int))
  | other

def parseOp (j : J) : Except String Op := do
  match ← j.toList with
  | [J.str "slice", a, b] => pure (.slice (← a.toOptInt) (← b.toOptInt))
  | [J.str "int", i] => pure (.int (← i.toInt))
  | [J.str "rc"] => pure .rc
  | [J.str "take_seqs", ns, neg] => pure (.takeSeqs (← ns.toListOf J.toStr) (← neg.toBool))
  | [J.str "take_positions", cols, neg] => pure (.takePositions (← cols.toListOf J.toInt) (← neg.toBool))
  | [J.str "to_rna"] => pure .toRna
  | [J.str "to_dna"] => pure .toDna
  | [J.str "add", J.str "self"] => pure .addSelf
  | [J.str "add", J.str "copy"] => pure .addCopy
  | [J.str "keep", locs] => pure (.keep (← locs.toListOf (J.toPairOf J.toInt J.toInt)))
  | _ => pure .other

def stepA (dna : Bool) (a : AlnA) : Op → Option (Except Err (AlnA × Bool))
  | .slice x y => some ((mapRows (fun r => rowSlice r x y) a).map (·, dna))
  | .int i => some ((mapRows (fun r => rowInt r i) a).map (·, dna))
  | .rc => some ((mapRows (rowRc dna) a).map (·, dna))
  | .takeSeqs ns neg => some (.ok (takeSeqs a ns neg, dna))
  | .takePositions cols neg => some ((mapRows (fun r => if neg then rowTakePositionsNeg r cols else rowTakePositions r cols) a).map (·, dna))
  | .toRna => some (.ok (a.map fun (n, r) => (n, { r with data := r.data.map toRna }), false))
  | .toDna => some (.ok (a.map fun (n, r) => (n, { r with data := r.data.map toDna }), true))
  | .addSelf => some (.ok (a.map fun (n, r) => (n, rowAddOther r r), dna))
  | .addCopy => some (.ok (a.map fun (n, r) => (n, rowAddOther r (rowOfString (gapped r))), dna))
  | .keep locs => some ((mapRows (fun r => rowKeep r locs) a).map (·, dna))
  | .other => none

def stepD (dna : Bool) (a : AlnD) : Op → Option (Except Err (AlnD × Bool))
  | .slice x y => some (.ok (a.map fun (n, s) => (n, PySlice.slice s x y 1), dna))
  | .int i => some ((mapDense (fun s => denseTake s [i]) a).map (·, dna))
  | .rc => some (.ok (a.map fun (n, s) => (n, s.reverse.map (comp dna)), dna))
  | .takeSeqs ns neg => some (.ok (takeSeqs a ns neg, dna))
  | .takePositions cols neg => some ((mapDense (fun s =>
      if neg then .ok ((s.zipIdx.filter fun p => !cols.contains (p.2 : Int)).map (·.1)) else denseTake s cols) a).map (·, dna))
  | .toRna => some (.ok (a.map fun (n, s) => (n, s.map toRna), false))
  | .toDna => some (.ok (a.map fun (n, s) => (n, s.map toDna), true))
  | .addSelf => some (.ok (a.map fun (n, s) => (n, s ++ s), dna))
  | .addCopy => some (.ok (a.map fun (n, s) => (n, s ++ s), dna))
  | .keep _ => none
  | .other => none

def runA (dna : Bool) (a : AlnA) : List Op → List J
  | [] => []
  | op :: ops => match stepA dna a op with
    | none => []
    | some (.error e) => [J.obj [("err", J.str (errStr e))]]
    | some (.ok (a', dna')) => alnJ a' :: runA dna' a' ops

def runD (dna : Bool) (a : AlnD) : List Op → List J
  | [] => []
  | op :: ops => match stepD dna a op with
    | none => []
    | some (.error e) => [J.obj [("err", J.str (errStr e))]]
    | some (.ok (a', dna')) => denseJ a' :: runD dna' a' ops

def handle (cmd : String) (j : J) : Except String J :=
  match cmd with
  | "history" => do
    let rows ← (← j.get "rows").toListOf (J.toPairOf J.toStr J.toStr)
    let ops ← (← j.get "ops").toListOf parseOp
    let dna := (← (← j.get "moltype").toStr) != "rna"
    let a : AlnA := rows.map fun (n, s) => (n, rowOfString s.toList)
    let d : AlnD := rows.map fun (n, s) => (n, s.toList)
    pure (J.obj [("aligned", J.arr (alnJ a :: runA dna a ops)), ("array", J.arr (denseJ d :: runD dna d ops)),
                 ("gapped", J.obj (a.map fun (n, r) => (n, J.str (String.ofList (gapped r)))))])
  | _ => throw s!"unknown command {cmd}"

def main : IO Unit := driverLoop handle
