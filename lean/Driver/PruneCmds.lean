import CogentModel.Json
import CogentModel.Model.Prune
import CogentModel.Model.PruneCompressed
/-! JSON commands shared by the C02 and C11 drivers (exact-rational shadow of a likelihood function). -/
open CogentModel CogentModel.Prune

namespace PruneCmds

def ratVec (j : J) : Except String (Array Rat) := do
  return (← j.toListOf J.toRat).toArray

def ratMat (j : J) : Except String (Array (Array Rat)) := do
  return (← j.toListOf ratVec).toArray

def vecFn (a : Array Rat) : Nat → Rat := fun i => a.getD i 0
def matFn (a : Array (Array Rat)) : Mat Rat := fun i j => (a.getD i #[]).getD j 0

/-- tree JSON: `{"l": leaf index, "e": edge index}` or `{"c": [subtrees], "e": edge index}` -/
partial def parseTree (P : Array (Array (Array Rat))) (j : J) : Except String (PTree Rat Nat) := do
  let e ← (← j.get "e").toInt
  let mat : Mat Rat := if e < 0 then (fun _ _ => 0) else matFn (P.getD e.toNat #[])
  match j.get? "l" with
  | some l => return .leaf mat (← l.toNat)
  | none =>
    let cs ← (← (← j.get "c").toList).mapM (parseTree P)
    return .node mat cs

def natList (j : J) : Except String (List Nat) := j.toListOf J.toNat

/-- the `lf` command: see harness/c02_util.py for the request layout -/
def cmdLf (j : J) : Except String J := do
  let m ← (← j.get "m").toNat
  let symbols := (← (← j.get "symbols").toListOf ratVec).toArray
  let cols ← (← j.get "cols").toListOf natList
  let bprobs ← (← j.get "bprobs").toListOf J.toRat
  let binsJ ← (← j.get "bins").toList
  let bins ← binsJ.mapM fun b => do
    let P := (← (← b.get "P").toListOf ratMat).toArray
    let pi ← ratVec (← b.get "pi")
    let t ← parseTree P (← j.get "tree")
    return (vecFn pi, t)
  let brute ← match j.get? "brute" with
    | some b => natList b
    | none => pure []
  let ix := indexed cols
  let profOf (col : List Nat) : Nat → Nat → Rat := fun a => vecFn (symbols.getD (col.getD a 0) #[])
  let keepOf (col : List Nat) : Nat → Nat → Bool := fun a s => profOf col a s != 0
  let lhs := ix.uniq.map fun col => lhColumn m bprobs bins (profOf col)
  let perBin := bins.map fun (pi, t) => ix.uniq.map fun col => lh m pi (profOf col) t
  let bf := brute.map fun u =>
    let col := ix.uniq.getD u []
    let vals := bins.map fun (pi, t) => bruteForce (keepOf col) m pi (profOf col) t
    let n := (bins.map fun (_, t) => (labelings (keepOf col) m t).length).sum
    let v := match vals with
      | [x] => x
      | _ => weightedSum bprobs vals
    J.obj [("u", J.num u), ("bf", J.ofRat v), ("labelings", J.num n)]
  return J.obj [("uniq", J.arr (ix.uniq.map fun c => J.arr (c.map J.ofNat))),
                ("counts", J.arr (ix.counts.map J.ofNat)),
                ("index", J.arr (ix.index.map J.ofNat)),
                ("lh", J.arr (lhs.map J.ofRat)),
                ("lh_bins", J.arr (perBin.map fun l => J.arr (l.map J.ofRat))),
                ("brute", J.arr bf)]

/-- every subtree with the edge index of its top node (`-1` for the root), pre-order -/
partial def subtrees (P : Array (Array (Array Rat))) (j : J) : Except String (List (Int × PTree Rat Nat)) := do
  let e ← (← j.get "e").toInt
  let t ← parseTree P j
  match j.get? "l" with
  | some _ => return [(e, t)]
  | none =>
    let cs ← (← (← j.get "c").toList).mapM (subtrees P)
    return (e, t) :: cs.flatten

/-- the `clf` command: the hierarchically compressed evaluation (`Model/PruneCompressed.lean`);
returns every node's `uniq`/`index` (first bin) and the full-length likelihoods -/
def cmdClf (j : J) : Except String J := do
  let m ← (← j.get "m").toNat
  let symbols := (← (← j.get "symbols").toListOf ratVec).toArray
  let cols ← (← j.get "cols").toListOf natList
  let bprobs ← (← j.get "bprobs").toListOf J.toRat
  let binsJ ← (← j.get "bins").toList
  let n := cols.length
  let seqs : Nat → List Nat := fun a => cols.map fun c => c.getD a 0
  let symProf : Nat → Nat → Rat := fun sym => vecFn (symbols.getD sym #[])
  let fulls ← binsJ.mapM fun b => do
    let P := (← (← b.get "P").toListOf ratMat).toArray
    let pi ← ratVec (← b.get "pi")
    let t ← parseTree P (← j.get "tree")
    return clhFull m n (vecFn pi) seqs symProf t
  let full : List Rat := match fulls with
    | [x] => x
    | _ => (List.range n).map fun c => weightedSum bprobs (fulls.map fun f => f.getD c 0)
  let nodes ← match binsJ with
    | b :: _ => do
      let P := (← (← b.get "P").toListOf ratMat).toArray
      let subs ← subtrees P (← j.get "tree")
      pure (subs.map fun (e, t) =>
        let c := cplh m n seqs symProf t
        J.obj [("e", J.num e), ("index", J.arr (c.index.map J.ofNat)),
               ("uniq", J.arr (c.uniq.map fun r => J.arr (r.map J.ofNat)))])
    | [] => pure []
  return J.obj [("full", J.arr (full.map J.ofRat)), ("nodes", J.arr nodes)]

/-- `_indexed` on lists of integer keys -/
def cmdIndexed (j : J) : Except String J := do
  let vals ← (← j.get "values").toListOf (fun x => x.toListOf J.toInt)
  let ix := indexed vals
  return J.obj [("uniq", J.arr (ix.uniq.map fun c => J.arr (c.map J.ofInt))),
                ("counts", J.arr (ix.counts.map J.ofNat)),
                ("index", J.arr (ix.index.map J.ofNat))]

/-- `wls`: the model's weighted log-sum (`lnLCompressed` = `weightedLogSum` over `indexed`) and
`fullLength` on integer keys with the integer-valued `g key = -(first component)`; the harness runs the
real numba `get_log_sum_across_sites` / `get_full_length_likelihoods` on likelihoods `2^g`
(so `log` is exact up to the factor `ln 2`) -/
def cmdWls (j : J) : Except String J := do
  let vals ← (← j.get "values").toListOf (fun x => x.toListOf J.toInt)
  let g : List Int → Int := fun k => - k.headD 0
  return J.obj [("wls", J.ofInt (lnLCompressed g vals)),
                ("plain", J.ofInt (lnLPlain g vals)),
                ("full", J.arr ((fullLength g vals).map J.ofInt))]

def absR (x : Rat) : Rat := if x < 0 then -x else x
def maxOver (n : Nat) (f : Nat → Rat) : Rat :=
  (List.range n).foldl (fun acc i => let x := f i; if acc < x then x else acc) 0

/-- `hyp`: how far the implementation's own float64 matrices are from the hypotheses of the C11
theorems, in exact arithmetic: `db` = max |π i · P i j − π j · P j i| (detailed balance, `lh_reroot_*`),
`rows` = max |Σ_j P i j − 1| (row-stochastic, C02 `column_probs_sum_one`), and — when `P1`, `P2` are
given — `split` = max |(matMul m P1 P2) i j − P i j| (`lh_edge_split`) -/
def cmdHyp (j : J) : Except String J := do
  let m ← (← j.get "m").toNat
  let pi := vecFn (← ratVec (← j.get "pi"))
  let P := matFn (← ratMat (← j.get "P"))
  let db := maxOver m fun i => maxOver m fun k => absR (pi i * P i k - pi k * P k i)
  let rows := maxOver m fun i => absR (sumOver m (fun k => P i k) - 1)
  let split ← match j.get? "P1", j.get? "P2" with
    | some a, some b => do
      let P1 := matFn (← ratMat a)
      let P2 := matFn (← ratMat b)
      let Q := matMul m P1 P2
      pure (J.ofRat (maxOver m fun i => maxOver m fun k => absR (Q i k - P i k)))
    | _, _ => pure J.null
  return J.obj [("db", J.ofRat db), ("rows", J.ofRat rows), ("split", split)]

def handle (cmd : String) (j : J) : Except String J :=
  match cmd with
  | "lf" => cmdLf j
  | "clf" => cmdClf j
  | "indexed" => cmdIndexed j
  | "wls" => cmdWls j
  | "hyp" => cmdHyp j
  | _ => throw s!"unknown command {cmd}"

end PruneCmds
