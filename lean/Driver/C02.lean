import CogentModel.Json
import Driver.PruneCmds
open CogentModel

def handle (cmd : String) (j : J) : Except String J := PruneCmds.handle cmd j

def main : IO Unit := driverLoop handle
