import CogentModel.Json
import Driver.PruneCmds
import Driver.C02Sites
open CogentModel

def handle (cmd : String) (j : J) : Except String J :=
  match C02Sites.handle cmd j with
  | some r => r
  | none => PruneCmds.handle cmd j

def main : IO Unit := driverLoop handle
