import CogentModel.Json
open CogentModel

def handle (cmd : String) (_j : J) : Except String J :=
  throw s!"unknown command {cmd}"

def main : IO Unit := driverLoop handle
